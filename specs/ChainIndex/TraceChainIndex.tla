---- MODULE TraceChainIndex ----
(***************************************************************************)
(* Engine E3: is every answer the real code gave (harness/adapters/        *)
(* chainindex.cpp, mode "drive") the answer ChainIndex defines?  Blocks    *)
(* are numbered in creation order; 0 stands for nullptr.  One line per     *)
(* call:                                                                   *)
(*  {"e":"Reset","full":b}                a new tree (and a new CChain)    *)
(*  {"e":"Add","id","p","h","skip","skiph","bits":[4],"proof":[32],"work":[32]}                                          *)
(*        a CBlockIndex linked as the node does; logged: nHeight, pskip,   *)
(*        GetBlockProof, nChainWork                                        *)
(*  {"e":"AddH","id","p","h","skip","skiph"}    same on a heights-only tree *)
(*  {"e":"Anc","b","h","r"}               GetAncestor(h)                   *)
(*  {"e":"Walk","b","h","r"}              GetAncestor(h) for h = height,   *)
(*        height-1, ..., 0 of one block: validated line by line against    *)
(*        the parent of the previous answer (the naive walk)               *)
(*  {"e":"LCA","a","b","r"}               LastCommonAncestor               *)
(*  {"e":"SetTip","b","height","tip","gen"}  CChain::SetTip, then Height(), *)
(*        Tip(), Genesis()                                                 *)
(*  {"e":"Fork","b","r"} {"e":"Contains","b","r"} {"e":"Next","b","r"}     *)
(*  {"e":"At","h","r"}                    FindFork, Contains, Next, []     *)
(*  {"e":"Loc","b","r":[..],"src"}        LocatorEntries / GetLocator      *)
(*  {"e":"Proof","bits":[4],"w":[32]}     GetBitsProof on the table domain *)
(* On a heights-only tree (full = FALSE, thousands of blocks) an answer is *)
(* checked through the heights alone (the block returned has the right     *)
(* height / the locator lists the right heights), except the Walk lines.   *)
(***************************************************************************)
EXTENDS ChainIndex, Json, IOUtils
TraceLog == ndJsonDeserialize(IOEnv.TRACE)
VARIABLES l,       \* next line
          walk,    \* <<block, height, answer>> of the previous Walk line
          fresh,   \* the tree or the chain tip changed in the last step (the tree invariants are re-evaluated only then)
          skipOf   \* skipOf[h] = height of pskip seen for blocks at height h (equal heights must have equal skip heights)
tvars == <<vars, l, walk, fresh, skipOf>>
Line == TraceLog[l]
IsEvent(e) == l <= Len(TraceLog) /\ Line.e = e /\ l' = l + 1
Query == UNCHANGED <<vars, walk, skipOf>> /\ fresh' = FALSE
Known(b) == b \in 1..N

TInit == l = 1 /\ Empty(TRUE) /\ walk = <<0, 0, 0>> /\ skipOf = <<>> /\ fresh = TRUE
TReset == /\ IsEvent("Reset")
          /\ par' = <<>> /\ hgt' = <<>> /\ path' = <<>> /\ bitsOf' = <<>> /\ proof' = <<>> /\ work' = <<>> /\ tip' = 0
          /\ full' = Line.full /\ walk' = <<0, 0, 0>> /\ skipOf' = <<>> /\ fresh' = TRUE

\* pskip: none for a block without parent; else a proper ancestor (checked through the ancestry, or through its height on a
\* heights-only tree), at the same height for all blocks of one height (LastCommonAncestor relies on it)
SkipOK(p, h) ==
  IF p = 0 THEN Line.skip = 0
  ELSE /\ Known(Line.skip) /\ Line.skiph >= 0 /\ Line.skiph < h /\ hgt[Line.skip] = Line.skiph
       /\ full => path[p][Line.skiph + 1] = Line.skip
       /\ h <= Len(skipOf) => skipOf[h] = Line.skiph
       /\ h <= Len(skipOf) + 1
SkipNote(p, h) == skipOf' = IF p # 0 /\ h = Len(skipOf) + 1 THEN Append(skipOf, Line.skiph) ELSE skipOf
TAdd == /\ IsEvent("Add") /\ Line.id = N + 1
        /\ LET p == Line.p  h == IF p = 0 THEN 0 ELSE hgt[p] + 1 IN
           /\ AddBlock(p, Line.bits, Line.proof)
           /\ Line.h = h
           /\ NEq(Line.work, IF p = 0 THEN Line.proof ELSE NAdd(work[p], Line.proof))
           /\ SkipOK(p, h) /\ SkipNote(p, h)
        /\ UNCHANGED walk /\ fresh' = TRUE
TAddH == /\ IsEvent("AddH") /\ Line.id = N + 1
         /\ LET p == Line.p  h == IF p = 0 THEN 0 ELSE hgt[p] + 1 IN
            /\ AddBlockH(p) /\ Line.h = h /\ SkipOK(p, h) /\ SkipNote(p, h)
         /\ UNCHANGED walk /\ fresh' = TRUE

TAnc == /\ IsEvent("Anc") /\ Known(Line.b)
        /\ IF full THEN Line.r = AncP(hgt, path, Line.b, Line.h)
           ELSE IF Line.h < 0 \/ Line.h > hgt[Line.b] THEN Line.r = 0 ELSE Known(Line.r) /\ hgt[Line.r] = Line.h
        /\ Query
TWalk == /\ IsEvent("Walk") /\ Known(Line.b)
         /\ IF Line.h = hgt[Line.b] THEN Line.r = Line.b
            ELSE walk[1] = Line.b /\ walk[2] = Line.h + 1 /\ Line.h >= 0 /\ Line.r = par[walk[3]]
         /\ full => Line.r = AncP(hgt, path, Line.b, Line.h)
         /\ walk' = <<Line.b, Line.h, Line.r>> /\ UNCHANGED <<vars, skipOf>> /\ fresh' = FALSE
TLCA == /\ IsEvent("LCA") /\ Known(Line.a) /\ Known(Line.b)
        /\ IF full THEN Line.r = LCAP(path, Line.a, Line.b)
           ELSE Known(Line.r) /\ hgt[Line.r] <= MinI(hgt[Line.a], hgt[Line.b]) /\ (Line.a = Line.b => Line.r = Line.a)
        /\ Query
TSetTip == /\ IsEvent("SetTip") /\ SetTip(Line.b)
           /\ Line.height = hgt[Line.b] /\ Line.tip = Line.b
           /\ IF full THEN Line.gen = path[Line.b][1] ELSE Known(Line.gen) /\ hgt[Line.gen] = 0
           /\ UNCHANGED <<walk, skipOf>> /\ fresh' = TRUE
TFork == /\ IsEvent("Fork") /\ Known(Line.b)
         /\ IF full THEN Line.r = ForkP(path, tip, Line.b)
            ELSE IF tip = 0 THEN Line.r = 0 ELSE Known(Line.r) /\ hgt[Line.r] <= MinI(hgt[tip], hgt[Line.b]) /\ (Line.b = tip => Line.r = tip)
         /\ Query
TContains == /\ IsEvent("Contains") /\ Known(Line.b) /\ full /\ Line.r = ContainsP(hgt, path, tip, Line.b) /\ Query
TNextOf == /\ IsEvent("Next") /\ Known(Line.b) /\ full /\ Line.r = NextP(hgt, path, tip, Line.b) /\ Query
TAt == /\ IsEvent("At")
       /\ IF full THEN Line.r = AtP(hgt, path, tip, Line.h)
          ELSE IF tip = 0 \/ Line.h < 0 \/ Line.h > hgt[tip] THEN Line.r = 0 ELSE Known(Line.r) /\ hgt[Line.r] = Line.h
       /\ Query
TLoc == /\ IsEvent("Loc")
        /\ IF Line.b = 0 THEN Line.r = <<>>
           ELSE /\ Known(Line.b)
                /\ IF full THEN Line.r = LocatorP(hgt, path, Line.b)
                   ELSE /\ \A i \in 1..Len(Line.r) : Known(Line.r[i])
                        /\ [i \in 1..Len(Line.r) |-> hgt[Line.r[i]]] = LocatorHeights(hgt[Line.b])
                        /\ Line.r[1] = Line.b
        /\ Query
TProof == IsEvent("Proof") /\ ProofOK(Line.bits, Line.w) /\ Query

TNext == TReset \/ TAdd \/ TAddH \/ TAnc \/ TWalk \/ TLCA \/ TSetTip \/ TFork \/ TContains \/ TNextOf \/ TAt \/ TLoc \/ TProof
Accepted == TLCGet("stats").diameter - 1 = Len(TraceLog)
\* on the small trees of the trace the incrementally maintained tables are re-derived from the parent links whenever the tree or the tip changed
SmallTreeInvariants == fresh /\ full /\ N <= 7 => PathIsWalk /\ AncAgree /\ LCAAgree /\ ForkAgree /\ WorkIsSum /\ LocatorOnPath
====
