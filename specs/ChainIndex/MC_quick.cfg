CONSTANTS
  MaxNodes = 4
  BitsChoices = {1, 4}
INIT MCInit
NEXT MCNext
INVARIANTS PathIsWalk AncAgree AncCompose LCAAgree LCAIsDeepestCommon ForkAgree ChainIsTipAncestry NextIsChild LocatorOnPath WorkIsSum WorkMonotone SkipBelow
CHECK_DEADLOCK FALSE
