CONSTANTS
  MaxNodes = 5
  BitsChoices = {1, 2, 3, 4}
INIT MCInit
NEXT MCNext
INVARIANTS PathIsWalk AncAgree AncCompose LCAAgree LCAIsDeepestCommon ForkAgree ChainIsTipAncestry NextIsChild LocatorOnPath WorkIsSum WorkMonotone SkipBelow
CHECK_DEADLOCK FALSE
