---- MODULE ChainIndex ----
(***************************************************************************)
(* C54: block index navigation and chain work (src/chain.cpp, chain.h).    *)
(*                                                                         *)
(* A block tree is built one block at a time (as the node does in          *)
(* BlockManager::AddToBlockIndex: pprev, nHeight, BuildSkip, nChainWork =   *)
(* parent's + GetBlockProof).  Blocks are 1..N in creation order; par[k]   *)
(* is the parent (0 = none: a genesis block), so par[k] < k.               *)
(*                                                                         *)
(* The DEFINITIONS the property talks about are stated naively:            *)
(*   AncW      the block at height h on the path to genesis, by walking    *)
(*             parent links                                                *)
(*   LCA       the common ancestor of greatest height                      *)
(*   ForkW     CChain::FindFork as the code words it (truncate to the      *)
(*             chain height, walk back until on the chain)                 *)
(*   LocatorHeights / Locator   heights b, b-1, ... with the step doubling *)
(*             after 10 entries, ending at genesis                         *)
(*   ProofOK   w = floor(2^256 / (target + 1)) stated as the relation      *)
(*             w * (t+1) <= 2^256 < (w+1) * (t+1), and w = 0 for a zero,   *)
(*             negative or overflowing compact target                      *)
(*   chain work = sum of the proofs over the ancestry                      *)
(* For validating long traces the state also carries path[k] (the ancestry *)
(* of k, genesis first), maintained incrementally; TLC proves on all small *)
(* trees that the path-based forms equal the naive ones (invariants        *)
(* below), and the trace specification uses the path-based forms.          *)
(***************************************************************************)
EXTENDS Integers, Sequences, FiniteSets, TLC, Nat256
LOCAL INSTANCE SequencesExt

CONSTANTS MaxNodes,     \* model checking only: size bound of the enumerated trees
          BitsChoices   \* model checking only: indices into KnownProofs

\* ------------------------------------------------------------------ compact targets and proof
\* nBits as its four bytes <<b3, b2, b1, b0>> (b3 = size/exponent byte)
P256(k) == <<1, 256, 65536, 16777216>>[k + 1]
BExp(bits)  == bits[1]
BSign(bits) == bits[2] >= 128
BMant(bits) == (bits[2] % 128) * 65536 + bits[3] * 256 + bits[4]
\* the number the compact form denotes (no 256-bit truncation): mantissa * 256^(exp-3), rounded down for exp < 3
SmallTarget(bits) == BMant(bits) \div P256(3 - BExp(bits))                      \* exp <= 3
TargetN(bits) == IF BExp(bits) <= 3 THEN NFromSmall(SmallTarget(bits)) ELSE NShl(NFromSmall(BMant(bits)), BExp(bits) - 3)
Two256 == NPow256(32)
\* "zero/negative/overflow targets -> proof 0"
ZeroClass(bits) == LET t == TargetN(bits) IN NIsZero(t) \/ BSign(bits) \/ ~NLt(t, Two256)
\* w * (t + 1), using that t + 1 = m * 256^k + 1 with m < 2^23
MulT1(w, bits) == IF BExp(bits) <= 3 THEN NMulSmall(w, SmallTarget(bits) + 1)
                  ELSE NAdd(NShl(NMulSmall(w, BMant(bits)), BExp(bits) - 3), w)
ProofOK(bits, w) ==
  IF ZeroClass(bits) THEN NIsZero(w)
  ELSE LET p == MulT1(w, bits) IN NLe(p, Two256) /\ NLt(Two256, NAdd(p, NAdd(TargetN(bits), <<1>>)))

\* ------------------------------------------------------------------ skip heights and locator heights (functions of the height)
RECURSIVE LowBit(_)
LowBit(n) == IF n % 2 = 1 THEN 1 ELSE 2 * LowBit(n \div 2)                        \* n > 0
InvLow(n) == IF n = 0 THEN 0 ELSE n - LowBit(n)                                    \* n & (n - 1)
SkipHeight(h) == IF h < 2 THEN 0 ELSE IF h % 2 = 1 THEN InvLow(InvLow(h - 1)) + 1 ELSE InvLow(h)

LocStep(acc, i) ==
  IF acc.done THEN acc
  ELSE LET hs == Append(acc.hs, acc.h) IN
       IF acc.h = 0 THEN [acc EXCEPT !.hs = hs, !.done = TRUE]
       ELSE [h |-> MaxI(acc.h - acc.step, 0), step |-> IF Len(hs) > 10 THEN 2 * acc.step ELSE acc.step, hs |-> hs, done |-> FALSE]
\* heights of LocatorEntries(block at height h); 44 rounds cover every height below 2^31
LocatorHeights(h) == FoldLeft(LocStep, [h |-> h, step |-> 1, hs |-> <<>>, done |-> FALSE], [i \in 1..44 |-> i]).hs
RECURSIVE Pow2(_)
Pow2(k) == IF k = 0 THEN 1 ELSE 2 * Pow2(k - 1)
MinI(x, y) == IF x <= y THEN x ELSE y
\* the statement of the property about locators, on the list of heights: starts at the block, ends at genesis, the first
\* eleven steps go back one block each (the step is doubled only after the next height has been computed for the 11th entry),
\* then 2, 4, 8, ... blocks, the last step being cut at genesis
LocatorShape(h, hs) ==
  /\ Len(hs) >= 1 /\ hs[1] = h /\ hs[Len(hs)] = 0
  /\ \A i \in 1..(Len(hs) - 1) :
       /\ hs[i] > 0
       /\ hs[i] - hs[i + 1] = MinI(hs[i], IF i <= 11 THEN 1 ELSE Pow2(i - 11))

\* ------------------------------------------------------------------ naive definitions over a parent array
RECURSIVE HeightW(_, _)
HeightW(par, b) == IF par[b] = 0 THEN 0 ELSE 1 + HeightW(par, par[b])
RECURSIVE AncW(_, _, _, _)
\* walk back from b (at height hb) to height h; 0 = nullptr
AncW(par, b, hb, h) == IF h < 0 \/ h > hb THEN 0 ELSE IF hb = h THEN b ELSE AncW(par, par[b], hb - 1, h)
RECURSIVE PathW(_, _)
PathW(par, b) == IF par[b] = 0 THEN <<b>> ELSE Append(PathW(par, par[b]), b)
IsAncW(par, a, b) == a # 0 /\ b # 0 /\ HeightW(par, a) <= HeightW(par, b) /\ AncW(par, b, HeightW(par, b), HeightW(par, a)) = a
\* the last common ancestor, declaratively: a common ancestor that no other common ancestor exceeds in height (0 if none)
LCAW(par, a, b) ==
  LET common == {c \in 1..Len(par) : IsAncW(par, c, a) /\ IsAncW(par, c, b)} IN
  IF common = {} THEN 0 ELSE CHOOSE c \in common : \A d \in common : HeightW(par, d) <= HeightW(par, c)
\* CChain::FindFork as the code words it: chain = the ancestry of tip (0 = empty chain)
OnChainW(par, tip, b) == tip # 0 /\ b # 0 /\ IsAncW(par, b, tip)
RECURSIVE BackToChainW(_, _, _)
BackToChainW(par, tip, b) == IF b = 0 \/ OnChainW(par, tip, b) THEN b ELSE BackToChainW(par, tip, par[b])
ForkW(par, tip, b) ==
  LET ch == IF tip = 0 THEN -1 ELSE HeightW(par, tip)
      hb == HeightW(par, b)
      b1 == IF hb > ch THEN AncW(par, b, hb, ch) ELSE b IN
  BackToChainW(par, tip, b1)

\* ------------------------------------------------------------------ path-based forms (what the trace specification evaluates)
\* hgt[k] = height, path[k] = ancestry of k from its genesis to k itself
AncP(hgt, path, b, h) == IF h < 0 \/ h > hgt[b] THEN 0 ELSE path[b][h + 1]
\* length of the common prefix of two sequences
CommonPrefix(s, t) == FoldLeft(LAMBDA acc, i : IF acc = i - 1 /\ s[i] = t[i] THEN i ELSE acc, 0, [i \in 1..MinI(Len(s), Len(t)) |-> i])
LCAP(path, a, b) == LET k == CommonPrefix(path[a], path[b]) IN IF k = 0 THEN 0 ELSE path[a][k]
ForkP(path, tip, b) == IF tip = 0 THEN 0 ELSE LCAP(path, tip, b)
ContainsP(hgt, path, tip, b) == tip # 0 /\ hgt[b] <= hgt[tip] /\ path[tip][hgt[b] + 1] = b
NextP(hgt, path, tip, b) == IF ContainsP(hgt, path, tip, b) /\ hgt[b] < hgt[tip] THEN path[tip][hgt[b] + 2] ELSE 0
AtP(hgt, path, tip, h) == IF tip = 0 \/ h < 0 \/ h > hgt[tip] THEN 0 ELSE path[tip][h + 1]
LocatorP(hgt, path, b) == IF b = 0 THEN <<>> ELSE LET hs == LocatorHeights(hgt[b]) IN [i \in 1..Len(hs) |-> path[b][hs[i] + 1]]
\* sum of the proofs over the ancestry
WorkSum(path, proof, b) == FoldLeft(LAMBDA acc, a : NAdd(acc, proof[a]), NZero, path[b])

\* ------------------------------------------------------------------ the state machine
VARIABLES par,    \* sequence: parent of each block (0 = none)
          hgt,    \* sequence: nHeight
          path,   \* sequence: ancestry (empty sequences when full = FALSE)
          bitsOf, \* sequence: nBits (four bytes)
          proof,  \* sequence: block proof (Nat256)
          work,   \* sequence: nChainWork (Nat256)
          tip,    \* tip of the CChain object (0 = empty chain)
          full    \* whether path is maintained
vars == <<par, hgt, path, bitsOf, proof, work, tip, full>>
N == Len(par)
\* AddToBlockIndex for a block with parent p (0: a new genesis), compact target bits and block proof w
AddBlock(p, bits, w) ==
  /\ p \in 0..N /\ full
  /\ ProofOK(bits, w)
  /\ par' = Append(par, p)
  /\ hgt' = Append(hgt, IF p = 0 THEN 0 ELSE hgt[p] + 1)
  /\ path' = Append(path, IF p = 0 THEN <<N + 1>> ELSE Append(path[p], N + 1))
  /\ bitsOf' = Append(bitsOf, bits) /\ proof' = Append(proof, w)
  /\ work' = Append(work, IF p = 0 THEN w ELSE NAdd(work[p], w))
  /\ UNCHANGED <<tip, full>>
\* the same for a tree on which only heights are tracked (full = FALSE): no ancestry, proofs or work are kept
AddBlockH(p) ==
  /\ p \in 0..N /\ ~full
  /\ par' = Append(par, p)
  /\ hgt' = Append(hgt, IF p = 0 THEN 0 ELSE hgt[p] + 1)
  /\ UNCHANGED <<path, bitsOf, proof, work, tip, full>>
SetTip(b) == b \in 1..N /\ tip' = b /\ UNCHANGED <<par, hgt, path, bitsOf, proof, work, full>>
Empty(f) == /\ par = <<>> /\ hgt = <<>> /\ path = <<>> /\ bitsOf = <<>> /\ proof = <<>> /\ work = <<>> /\ tip = 0 /\ full = f

\* ------------------------------------------------------------------ model checking: all trees up to MaxNodes
\* compact targets with their proofs; TLC checks the relation for each pair (KnownProofsOK), so that in the bounded model
\* "the proof of bits" is the w the relation determines
KnownProofs == <<
  [bits |-> <<32, 127, 255, 255>>, w |-> <<2>>],                               \* 0x207fffff (regtest): 2
  [bits |-> <<29, 0, 255, 255>>,   w |-> <<1, 0, 1, 0, 1>>],                   \* 0x1d00ffff (mainnet genesis): 0x100010001
  [bits |-> <<3, 0, 0, 1>>,        w |-> [i \in 1..32 |-> IF i = 32 THEN 128 ELSE 0]],   \* target 1: 2^255
  [bits |-> <<32, 255, 255, 255>>, w |-> <<>>],                                \* negative
  [bits |-> <<34, 1, 0, 0>>,       w |-> <<>>],                                \* overflow
  [bits |-> <<1, 0, 255, 255>>,    w |-> <<>>] >>                              \* target rounds down to 0
KnownProofsOK == \A i \in 1..Len(KnownProofs) : ProofOK(KnownProofs[i].bits, KnownProofs[i].w)
\* the relation determines w: no other candidate of the table (nor w +- 1) satisfies it
Inc1(w) == NAdd(w, <<1>>)
ProofUnique == \A i \in 1..Len(KnownProofs) : ~ProofOK(KnownProofs[i].bits, Inc1(KnownProofs[i].w))
                  /\ \A j \in 1..Len(KnownProofs) : ProofOK(KnownProofs[i].bits, KnownProofs[j].w) => NEq(KnownProofs[i].w, KnownProofs[j].w)

ASSUME KnownProofsOK /\ ProofUnique

MCInit == Empty(TRUE)
MCNext == \/ /\ N < MaxNodes
             /\ \E p \in 0..N, c \in BitsChoices : (p = 0 => N = 0) /\ AddBlock(p, KnownProofs[c].bits, KnownProofs[c].w)
          \/ \E b \in 1..N : SetTip(b)
Blocks == 1..N
\* the incrementally maintained tables are the naive walks
PathIsWalk == \A b \in Blocks : path[b] = PathW(par, b) /\ hgt[b] = HeightW(par, b) /\ Len(path[b]) = hgt[b] + 1
AncAgree == \A b \in Blocks : \A h \in -1..(N + 1) : AncP(hgt, path, b, h) = AncW(par, b, hgt[b], h)
AncCompose == \A b \in Blocks : \A h1 \in 0..hgt[b] : \A h2 \in 0..h1 :
                AncP(hgt, path, AncP(hgt, path, b, h1), h2) = AncP(hgt, path, b, h2)
LCAAgree == \A a, b \in Blocks : LCAP(path, a, b) = LCAW(par, a, b) /\ LCAP(path, a, b) = LCAP(path, b, a)
LCAIsDeepestCommon == \A a, b \in Blocks : LET c == LCAP(path, a, b) IN
                        /\ IsAncW(par, c, a) /\ IsAncW(par, c, b)
                        /\ \A d \in Blocks : IsAncW(par, d, a) /\ IsAncW(par, d, b) => IsAncW(par, d, c)
ForkAgree == \A b \in Blocks : ForkP(path, tip, b) = ForkW(par, tip, b)
ChainIsTipAncestry == \A b \in Blocks : ContainsP(hgt, path, tip, b) = OnChainW(par, tip, b)
NextIsChild == \A b \in Blocks : LET n == NextP(hgt, path, tip, b) IN n # 0 => par[n] = b /\ OnChainW(par, tip, n)
LocatorOnPath == \A b \in Blocks : LET loc == LocatorP(hgt, path, b) IN
                   /\ loc[1] = b /\ par[loc[Len(loc)]] = 0
                   /\ \A i \in 1..Len(loc) : IsAncW(par, loc[i], b)
                   /\ LocatorShape(hgt[b], [i \in 1..Len(loc) |-> hgt[loc[i]]])
WorkIsSum == \A b \in Blocks : NEq(work[b], WorkSum(path, proof, b))
WorkMonotone == \A b \in Blocks : par[b] # 0 => NLe(work[par[b]], work[b])
SkipBelow == \A h \in 1..(N + 40) : SkipHeight(h) < h /\ SkipHeight(h) >= 0
====
