CONSTANTS
  MaxNodes = 0
  BitsChoices = {}
  Kinds = {"bits", "loc", "skip", "tall"}
  HMax = 450
  TallExtra = {3000000}
INIT TInit
NEXT TNext
INVARIANTS FlagsAreNumeric ZeroOnlyForZeroClass LocatorHeightsShape LocatorIsShort LocatorLength SkipIsLower EmitRow
CHECK_DEADLOCK FALSE
