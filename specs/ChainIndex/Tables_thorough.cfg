CONSTANTS
  MaxNodes = 0
  BitsChoices = {}
  Kinds = {"bits", "loc", "skip"}
  HMax = 2100
INIT TInit
NEXT TNext
INVARIANTS FlagsAreNumeric ZeroOnlyForZeroClass LocatorHeightsShape LocatorIsShort SkipIsLower EmitRow
CHECK_DEADLOCK FALSE
