INIT InitSig
NEXT Next
INVARIANTS NoGap EmitRow
CHECK_DEADLOCK FALSE
