INIT InitAll
NEXT Next
INVARIANTS NoGap EmitRow
CHECK_DEADLOCK FALSE
