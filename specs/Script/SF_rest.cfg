INIT InitSFRest
NEXT NextSF
INVARIANTS SoftFork NoGapSF EmitSF
CHECK_DEADLOCK FALSE
