------------------------------ MODULE ScriptMC ------------------------------
(***************************************************************************)
(* TLC as the program generator for the Script reference interpreter       *)
(* (engine E4).  Every group below is a bounded grammar of programs with   *)
(* boundary-valued pushes.  A group operator G<Group>(I) is written once    *)
(* and used in two modes: Init (I = TRUE) picks only the leading choice     *)
(* variables of each disjunct (a "shard", ch = <<tag, values>>); Next      *)
(* (I = FALSE) enumerates the remaining choices of the shard, builds the    *)
(* program, evaluates the reference interpreter on it and stores the row,   *)
(* so that the enumeration and the interpretation are spread over the TLC   *)
(* workers.  EmitRow prints one row per program; NoGap asserts that the     *)
(* model never needed a byte of a symbolic block it does not know.          *)
(* MC_<group>.cfg select one group, MC_all.cfg all of them (quick tier),    *)
(* MC_rest.cfg all but arith and flow (thorough tier runs three processes). *)
(***************************************************************************)
EXTENDS Script, VF, IOUtils
\* "quick" | "thorough", from the environment (SCRIPT_TIER) so that one cfg per group suffices
Tier == IF "SCRIPT_TIER" \in DOMAIN IOEnv THEN IOEnv.SCRIPT_TIER ELSE "quick"
VARIABLES ch, done, row
vars == <<ch, done, row>>

Quick == Tier = "quick"
Rep(b, n) == [i \in 1..n |-> b]
RECURSIVE Flat(_)
Flat(ss) == IF ss = <<>> THEN <<>> ELSE ss[1] \o Flat(Tail(ss))
SeqsUpTo(A, lo, hi) == UNION {[1..k -> A] : k \in lo..hi}

\* pushes
PD(enc, v) == LET n == BLen(v) IN
              CASE enc = 0 -> <<n>> \o v
                [] enc = 1 -> <<OP_PUSHDATA1, n>> \o v
                [] enc = 2 -> <<OP_PUSHDATA2, n % 256, n \div 256>> \o v
                [] OTHER -> <<OP_PUSHDATA4, n % 256, (n \div 256) % 256, 0, 0>> \o v
\* the minimal push of a vector (what MINIMALDATA demands)
MinPush(v) == IF v = <<>> THEN <<OP_0>>
              ELSE IF Len(v) = 1 /\ v[1] >= 1 /\ v[1] <= 16 THEN <<80 + v[1]>>
              ELSE IF v = <<129>> THEN <<OP_1NEGATE>>
              ELSE PushCanon(v)

NoTx == [lock |-> <<>>, seq |-> SeqFinal, ver |-> 1]
NoRes == [err |-> "-", st |-> <<>>]
SVs == {"BASE", "WITNESS_V0", "TAPSCRIPT"}
MkEval(g, st0, sc, F, sv, tx, wl) == [g |-> g, k |-> "eval", st0 |-> st0, a |-> sc, b |-> <<>>, cx |-> <<>>, F |-> F, sv |-> sv, tx |-> tx, wl |-> wl]
MkVerify(g, ssig, spk, wit, cx, F, tx) == [g |-> g, k |-> "verify", st0 |-> wit, a |-> ssig, b |-> spk, cx |-> cx, F |-> F, sv |-> "BASE", tx |-> tx, wl |-> 0]

Compute(i) ==
  IF i.k = "eval"
  THEN LET r == EvalScript(i.st0, i.a, [F |-> i.F, sv |-> i.sv, ctx |-> CTX_SPK, tx |-> i.tx], i.wl)
       IN [err |-> r.err, st |-> IF r.err = "" THEN r.st ELSE <<>>]
  ELSE [err |-> VerifyScript(i.a, i.b, i.st0, i.F, i.tx), st |-> <<>>]

\* Init only picks the choices (ch = <<variant, ...>>); the program is built and interpreted in Next, by the TLC workers
\* (shards: Init picks only the leading choice variables, ch = <<shard tag, values>>; Next enumerates the remaining ones)
Start(c) == ch = c /\ done = FALSE /\ row = <<>>
Sh(I, c) == IF I THEN Start(c) ELSE ch = c
RowOf(i) == LET r == Compute(i) IN
            [g |-> i.g, k |-> i.k, st0 |-> i.st0, a |-> i.a, b |-> i.b, cx |-> i.cx, F |-> i.F, sv |-> i.sv, tx |-> i.tx, wl |-> i.wl, err |-> r.err, st |-> r.st]
MinPushes(p) == Flat([i \in 1..Len(p) |-> MinPush(p[i])])

\* ------------------------------------------------------------------ from choices to rows
Build(c) ==
  LET v == c[1] IN
  CASE v = "push" -> MkEval(v, <<>>, c[2] \o c[3] \o c[4], c[5], c[6], NoTx, 0)
    [] v = "stack" -> MkEval(v, <<>>, c[2] \o c[3], c[4], c[5], NoTx, 0)
    [] v = "arith" -> MkEval(v, <<>>, MinPushes(c[2]) \o c[3], c[4], c[5], NoTx, 0)
    [] v = "flow" \/ v = "flowc" -> MkEval("flow", <<>>, c[2], c[3], c[4], NoTx, 0)
    [] v = "hash" -> MkEval(v, <<>>, c[2], {}, c[3], NoTx, 0)
    [] v = "sig" \/ v = "der" -> MkEval(v, c[2], c[3], c[4], c[5], NoTx, 0)
    [] v = "msig" -> MkEval(v, c[2], c[3], c[4], c[5], NoTx, 0)
    [] v = "lock" -> MkEval(v, <<>>, c[2], c[3], "BASE", c[4], 0)
    [] v = "limits" -> MkEval(v, <<>>, c[2], {}, c[3], NoTx, 0)
    [] v = "verify" -> MkVerify(v, c[2].a, c[2].b, c[2].w, c[2].cx, c[3], NoTx)
    [] v = "tap" -> MkVerify(v, c[2].a, c[2].b, c[2].w, c[2].cx, c[3], NoTx)
    [] v = "tapeval" -> MkEval("tap", c[2], c[3], c[4], "TAPSCRIPT", NoTx, c[5])

Emit(c) == row' = RowOf(Build(c))

\* ------------------------------------------------------------------ group "push": every push encoding, MINIMALDATA
PushData == {<<>>, <<0>>, <<1>>, <<16>>, <<17>>, <<127>>, <<128>>, <<129>>, <<255>>, <<0, 0>>, <<1, 0>>, <<0, 128>>,
             Rep(7, 75), Rep(7, 76), Rep(7, 255), Rep(7, 256), Rep(7, 520), Rep(7, 521)}
PushToks == {PD(enc, v) : enc \in {2, 4}, v \in PushData}
            \cup {PD(1, v) : v \in {w \in PushData : Len(w) <= 255}}
            \cup {PD(0, v) : v \in {w \in PushData : Len(w) <= 75}}
            \cup {<<OP_0>>, <<OP_1NEGATE>>, <<OP_1>>, <<OP_16>>, <<OP_RESERVED>>}
            \cup {<<1>>, <<2, 7>>, <<75>> \o Rep(7, 74), <<OP_PUSHDATA1>>, <<OP_PUSHDATA1, 1>>, <<OP_PUSHDATA1, 0>>, <<OP_PUSHDATA2>>, <<OP_PUSHDATA2, 1>>,
                  <<OP_PUSHDATA2, 1, 0>>, <<OP_PUSHDATA2, 0, 0>>, <<OP_PUSHDATA4>>, <<OP_PUSHDATA4, 1, 0, 0>>, <<OP_PUSHDATA4, 1, 0, 0, 0>>,
                  <<OP_PUSHDATA4, 0, 0, 0, 0>>, <<OP_PUSHDATA4, 0, 0, 1, 0, 7>>, <<OP_PUSHDATA4, 1, 0, 0, 128, 7>>}
\* the same without the long vectors, for pairs of pushes
PushToksS == {t \in PushToks : Len(t) <= 8}
PushPre == {<<>>, <<OP_0, OP_IF>>, <<OP_1, OP_IF>>}
PushPost == {<<>>, <<OP_ENDIF>>, <<OP_SIZE>>, <<OP_DROP>>}
GPush(I) ==
  \/ (IF I THEN TRUE ELSE ch[1] = "push1") /\ \E pre \in PushPre, t \in PushToks :
        Sh(I, <<"push1", pre, t>>) /\ (IF I THEN TRUE ELSE (\E post \in PushPost, F \in SUBSET {"MINIMALDATA"}, sv \in SVs :
        (Quick => sv # "WITNESS_V0") /\ Emit(<<"push", pre, t, post, F, sv>>)))
  \/ (IF I THEN TRUE ELSE ch[1] = "push2") /\ \E t1 \in PushToksS :
        Sh(I, <<"push2", t1>>) /\ (IF I THEN TRUE ELSE (\E t2 \in PushToksS, post \in {<<>>, <<OP_ENDIF>>}, F \in SUBSET {"MINIMALDATA"} :
        ~Quick /\ Emit(<<"push", <<>>, t1 \o t2, post, F, "BASE">>)))
InitPush == GPush(TRUE)

\* ------------------------------------------------------------------ group "stack": every stack opcode
OP_2 == 82   OP_3 == 83   OP_4 == 84   OP_5 == 85   OP_6 == 86   OP_7 == 87
StackVals == {<<OP_0>>, <<OP_1>>, <<OP_2>>, <<OP_3>>, <<OP_1NEGATE>>, <<1, 128>>, <<2, 7, 8>>}
StackValsQ == {<<OP_0>>, <<OP_1>>, <<OP_2>>, <<2, 7, 8>>}
StackOps == {OP_TOALTSTACK, OP_FROMALTSTACK, OP_2DROP, OP_2DUP, OP_3DUP, OP_2OVER, OP_2ROT, OP_2SWAP, OP_IFDUP,
             OP_DEPTH, OP_DROP, OP_DUP, OP_NIP, OP_OVER, OP_PICK, OP_ROLL, OP_ROT, OP_SWAP, OP_TUCK, OP_SIZE, OP_EQUAL, OP_EQUALVERIFY}
DeepPre == {Flat([i \in 1..k |-> <<80 + i>>]) : k \in 0..8}
GStack(I) ==
  \/ (IF I THEN TRUE ELSE ch[1] = "stack1") /\ \E p \in SeqsUpTo(IF Quick THEN StackValsQ ELSE StackVals, 0, IF Quick THEN 3 ELSE 4) :
        Sh(I, <<"stack1", p>>) /\ (IF I THEN TRUE ELSE (\E o \in StackOps, F \in SUBSET {"MINIMALDATA"} :
        (Quick /\ Len(p) >= 2 => F = {}) /\ Emit(<<"stack", Flat(p), <<o>>, F, "BASE">>)))
  \/ (IF I THEN TRUE ELSE ch[1] = "stack2") /\ \E p \in SeqsUpTo(IF Quick THEN StackValsQ ELSE StackVals, IF Quick THEN 2 ELSE 0, IF Quick THEN 2 ELSE 3) :
        Sh(I, <<"stack2", p>>) /\ (IF I THEN TRUE ELSE (\E o1 \in StackOps, o2 \in StackOps :
        Emit(<<"stack", Flat(p), <<o1, o2>>, {}, "BASE">>)))
  \/ (IF I THEN TRUE ELSE ch[1] = "stack3") /\ \E p \in DeepPre, n \in {<<>>, <<OP_0>>, <<OP_1>>, <<OP_5>>, <<OP_7>>, <<OP_1NEGATE>>, <<1, 128>>} :
        Sh(I, <<"stack3", p, n>>) /\ (IF I THEN TRUE ELSE (\E o \in StackOps, sv \in SVs :
        (Quick => sv = "TAPSCRIPT") /\ Emit(<<"stack", p \o n, <<o>>, {}, sv>>)))
InitStack == GStack(TRUE)

\* ------------------------------------------------------------------ group "arith": numeric opcodes on boundary operands
NumVals == {<<>>, <<1>>, <<129>>, <<128>>, <<0>>, <<2>>, <<127>>, <<128, 0>>, <<255, 127>>, <<255, 255, 255, 127>>,
            <<255, 255, 255, 255>>, <<254, 255, 255, 127>>, <<0, 0, 0, 128, 0>>, <<0, 0, 0, 128, 128>>, <<1, 0, 0, 0>>, <<1, 0, 0, 128>>}
NumValsQ == {<<>>, <<1>>, <<129>>, <<128>>, <<255, 255, 255, 127>>, <<255, 255, 255, 255>>, <<0, 0, 0, 128, 0>>, <<1, 0>>}
UnaryOps == {OP_1ADD, OP_1SUB, OP_NEGATE, OP_ABS, OP_NOT, OP_0NOTEQUAL}
BinaryOps == {OP_ADD, OP_SUB, OP_BOOLAND, OP_BOOLOR, OP_NUMEQUAL, OP_NUMEQUALVERIFY, OP_NUMNOTEQUAL, OP_LESSTHAN,
              OP_GREATERTHAN, OP_LESSTHANOREQUAL, OP_GREATERTHANOREQUAL, OP_MIN, OP_MAX}
ArithOps == UnaryOps \cup BinaryOps \cup {OP_WITHIN}
GArith(I) ==
  \/ (IF I THEN TRUE ELSE ch[1] = "arith1") /\ \E p \in SeqsUpTo(IF Quick THEN NumValsQ \cup {<<0, 0, 0, 128, 128>>, <<254, 255, 255, 127>>, <<0>>} ELSE NumVals, 0, 2) :
        Sh(I, <<"arith1", p>>) /\ (IF I THEN TRUE ELSE (\E op \in UnaryOps \cup BinaryOps, F \in SUBSET {"MINIMALDATA"}, sv \in {"BASE", "TAPSCRIPT"} :
        (Quick => sv = "BASE") /\ Emit(<<"arith", p, <<op>>, F, sv>>)))
  \/ (IF I THEN TRUE ELSE ch[1] = "arith2") /\ \E x \in (IF Quick THEN NumValsQ ELSE NumVals) :
        Sh(I, <<"arith2", x>>) /\ (IF I THEN TRUE ELSE (\E p \in SeqsUpTo(IF Quick THEN NumValsQ ELSE NumVals, 1, 2), F \in SUBSET {"MINIMALDATA"} :
        Emit(<<"arith", <<x>> \o p, <<OP_WITHIN>>, F, "BASE">>)))
  \/ (IF I THEN TRUE ELSE ch[1] = "arith3") /\ \E x \in (IF Quick THEN {<<129>>, <<255, 255, 255, 127>>, <<255, 255, 255, 255>>} ELSE NumVals), op1 \in ArithOps :
        Sh(I, <<"arith3", x, op1>>) /\ (IF I THEN TRUE ELSE (\E p \in (IF Quick THEN SeqsUpTo({<<129>>, <<255, 255, 255, 127>>, <<255, 255, 255, 255>>}, 1, 1) ELSE SeqsUpTo(NumVals, 0, 1) \cup SeqsUpTo(NumValsQ, 2, 2)), op2 \in ArithOps \cup {OP_SIZE, OP_DUP} :
        Emit(<<"arith", <<x>> \o p, <<op1, op2>>, {}, "BASE">>)))
InitArith == GArith(TRUE)

\* ------------------------------------------------------------------ group "flow": conditionals, VERIFY, RETURN, reserved and disabled opcodes, NOPs
FlowToks == {<<OP_0>>, <<OP_1>>, <<1, 2>>, <<1, 128>>, <<2, 1, 0>>, <<OP_IF>>, <<OP_NOTIF>>, <<OP_ELSE>>, <<OP_ENDIF>>, <<OP_VERIFY>>,
             <<OP_RETURN>>, <<OP_NOP>>, <<OP_VERIF>>, <<OP_VERNOTIF>>, <<OP_RESERVED>>, <<OP_VER>>, <<OP_CAT>>, <<OP_NOP1>>, <<OP_DUP>>}
FlowToksQ == {<<OP_0>>, <<OP_1>>, <<1, 2>>, <<OP_IF>>, <<OP_NOTIF>>, <<OP_ELSE>>, <<OP_ENDIF>>, <<OP_VERIFY>>, <<OP_RETURN>>, <<OP_VERIF>>, <<OP_CAT>>}
FlowFlags == {"MINIMALIF", "DISCOURAGE_UPGRADABLE_NOPS"}
\* long programs over the conditional opcodes only
FlowToksC == IF Quick THEN {<<OP_0>>, <<OP_1>>, <<OP_IF>>, <<OP_ELSE>>, <<OP_ENDIF>>, <<OP_VERIFY>>} ELSE FlowToksQ \ {<<OP_CAT>>, <<OP_VERIF>>}
GFlow(I) ==
  \/ (IF I THEN TRUE ELSE ch[1] = "flow1") /\ \E x \in FlowToks :
        Sh(I, <<"flow1", x>>) /\ (IF I THEN TRUE ELSE (\E p \in SeqsUpTo(FlowToks, 0, IF Quick THEN 1 ELSE 2), F \in SUBSET FlowFlags, sv \in SVs :
        (Quick /\ Len(p) = 1 => Cardinality(F) # 1) /\ Emit(<<"flow", x \o Flat(p), F, sv>>)))
  \/ (IF I THEN TRUE ELSE ch[1] = "flow2") /\ \E x \in {<<>>} :
        Sh(I, <<"flow2", x>>) /\ (IF I THEN TRUE ELSE (\E F \in SUBSET FlowFlags, sv \in SVs :
        Emit(<<"flow", x, F, sv>>)))
  \/ (IF I THEN TRUE ELSE ch[1] = "flow3") /\ \E x \in (IF Quick THEN FlowToksQ ELSE FlowToks) :
        Sh(I, <<"flow3", x>>) /\ (IF I THEN TRUE ELSE (\E p \in SeqsUpTo(IF Quick THEN FlowToksQ ELSE FlowToks, IF Quick THEN 2 ELSE 3, IF Quick THEN 2 ELSE 3), sv \in {"BASE", "WITNESS_V0"} :
        Emit(<<"flow", x \o Flat(p), IF sv = "BASE" THEN {} ELSE {"MINIMALIF"}, sv>>)))
  \/ (IF I THEN TRUE ELSE ch[1] = "flow4") /\ \E x \in FlowToksC :
        Sh(I, <<"flow4", x>>) /\ (IF I THEN TRUE ELSE (\E p \in SeqsUpTo(FlowToksC, IF Quick THEN 3 ELSE 4, IF Quick THEN 3 ELSE 5) :
        Emit(<<"flowc", x \o Flat(p), {}, "BASE">>)))
  \* every single opcode byte, executed and not executed, in all three script versions
  \/ (IF I THEN TRUE ELSE ch[1] = "flow5") /\ \E op \in 79..255 :
        Sh(I, <<"flow5", op>>) /\ (IF I THEN TRUE ELSE (\E pre \in {<<>>, <<OP_1>>, <<OP_1, OP_1>>, <<OP_1, OP_1, OP_1>>, <<OP_0, OP_IF>>}, sv \in SVs :
        Emit(<<"flow", pre \o <<op>> \o (IF Len(pre) = 2 /\ pre[2] = OP_IF THEN <<OP_ENDIF>> ELSE <<>>), {}, sv>>)))
  \* NOP1..NOP10 (CLTV and CSV among them) with and without DISCOURAGE_UPGRADABLE_NOPS, executed and not executed
  \/ (IF I THEN TRUE ELSE ch[1] = "flownop") /\ \E op \in 176..185 :
        Sh(I, <<"flownop", op>>) /\ (IF I THEN TRUE ELSE (\E pre \in {<<>>, <<OP_1>>, <<OP_0, OP_IF>>, <<OP_1, OP_IF>>}, F \in SUBSET {"DISCOURAGE_UPGRADABLE_NOPS", "CHECKLOCKTIMEVERIFY"}, sv \in SVs :
        Emit(<<"flow", pre \o <<op>> \o (IF Len(pre) = 2 THEN <<OP_ENDIF, OP_1>> ELSE <<OP_1>>), F, sv>>)))
InitFlow == GFlow(TRUE)

\* ------------------------------------------------------------------ keys and signatures of the grammar
KeyC(i) == Sym(T_KEY, <<i, 0>>)
KeyU(i) == Sym(T_KEY, <<i, 1>>)
KeyH(i) == Sym(T_KEY, <<i, 2>>)
KeyX(i) == Sym(T_XKEY, <<i>>)
Sig(k, ctx, cs, ht, form) == Sym(T_SIG, <<k, ctx, cs, ht, form>>)
SSig(k, ctx, cspos, ht, x) == Sym(T_SSIG, <<k, ctx, cspos, ht, x>>)
SigGood(k, ctx) == Sig(k, ctx, 1, 1, 0)
LitDER == <<48, 6, 2, 1, 1, 2, 1, 1, 1>>             \* strict DER (R = 1, S = 1) + SIGHASH_ALL: well-formed, valid for no key
LitKey33 == <<2>> \o Rep(7, 32)
LitKey65 == <<4>> \o Rep(7, 64)
MKeys(n) == Flat([i \in 1..n |-> PushCanon(KeyC(i))])
NumPush(n) == MinPush(VchOf(NOfInt(n)))

\* ------------------------------------------------------------------ group "hash": hash opcodes as injective constructors
HashOps == {OP_RIPEMD160, OP_SHA1, OP_SHA256, OP_HASH160, OP_HASH256}
HashVals == {<<>>, <<1>>, KeyC(1), Rep(7, 520)}
GHash(I) ==
  \/ (IF I THEN TRUE ELSE ch[1] = "hash1") /\ \E h \in SeqsUpTo(HashOps, 0, IF Quick THEN 2 ELSE 3) :
        Sh(I, <<"hash1", h>>) /\ (IF I THEN TRUE ELSE (\E x \in HashVals, post \in {<<>>, <<OP_SIZE>>, <<OP_DUP, OP_EQUAL>>, <<OP_VERIFY>>, <<OP_1ADD>>}, sv \in {"BASE", "TAPSCRIPT"} :
        Emit(<<"hash", PushCanon(x) \o h \o post, sv>>)))
  \/ (IF I THEN TRUE ELSE ch[1] = "hash2") /\ \E h \in SeqsUpTo(HashOps, 1, 2) :
        Sh(I, <<"hash2", h>>) /\ (IF I THEN TRUE ELSE (\E x \in {<<>>, <<1>>}, y \in {<<>>, <<1>>}, g \in SeqsUpTo(HashOps, 1, 2), eq \in {OP_EQUAL, OP_EQUALVERIFY} :
        (Quick => eq = OP_EQUAL /\ x = <<>>) /\ Emit(<<"hash", PushCanon(x) \o h \o PushCanon(y) \o g \o <<eq>>, "BASE">>)))
InitHash == GHash(TRUE)

\* ------------------------------------------------------------------ group "sig": CHECKSIG / CHECKSIGVERIFY against the abstract SigOK
SigSet == {<<>>, SigGood(1, 0), SigGood(2, 0), SigGood(0, 0), SigGood(1, 7), Sig(1, 0, 3, 1, 0), Sig(1, 0, 1, 1, 1), Sig(1, 0, 1, 1, 2),
           Sig(1, 0, 1, 0, 0), Sig(1, 0, 1, 4, 0), Sig(1, 0, 1, 2, 0), Sig(1, 0, 1, 3, 0), Sig(1, 0, 1, 129, 0), Sig(1, 0, 1, 131, 0),
           Sig(1, 0, 1, 132, 0), Sig(2, 0, 1, 1, 1), <<1>>, LitDER, Rep(7, 74)}
KeySet == {KeyC(1), KeyU(1), KeyH(1), KeyC(2), <<>>, LitKey33, LitKey65, KeyX(1), <<3>> \o Rep(7, 31)}
SigFlags == {"DERSIG", "LOW_S", "STRICTENC", "NULLFAIL", "WITNESS_PUBKEYTYPE", "CONST_SCRIPTCODE"}
SigFlagSets == IF Quick THEN {{}, {"DERSIG"}, {"LOW_S"}, {"STRICTENC"}, {"NULLFAIL", "WITNESS_PUBKEYTYPE"}, SigFlags, SigFlags \ {"STRICTENC"}} ELSE SUBSET SigFlags
GSig(I) ==
  \/ (IF I THEN TRUE ELSE ch[1] = "sig1") /\ \E sg \in SigSet, k \in KeySet :
        Sh(I, <<"sig1", sg, k>>) /\ (IF I THEN TRUE ELSE (\E op \in {OP_CHECKSIG, OP_CHECKSIGVERIFY}, F \in SigFlagSets, sv \in {"BASE", "WITNESS_V0"} :
        Emit(<<"sig", <<sg>>, PushCanon(k) \o <<op>>, F, sv>>)))
  \* the signature is pushed by the script itself: FindAndDelete finds it (CONST_SCRIPTCODE)
  \/ (IF I THEN TRUE ELSE ch[1] = "sig2") /\ \E sg \in {<<>>, <<5>>, LitDER, SigGood(0, 0)}, k \in {KeyC(1), <<>>} :
        Sh(I, <<"sig2", sg, k>>) /\ (IF I THEN TRUE ELSE (\E pre \in {<<>>, <<OP_0, OP_DROP>>, <<1, 5, OP_DROP>>}, op \in {OP_CHECKSIG, OP_CHECKSIGVERIFY}, F \in SUBSET {"CONST_SCRIPTCODE", "NULLFAIL", "DERSIG"}, sv \in {"BASE", "WITNESS_V0"} :
        Emit(<<"sig", <<>>, pre \o MinPush(sg) \o PushCanon(k) \o <<op>>, F, sv>>)))
  \* a good signature next to FindAndDelete hits of an unrelated push, and stack underflow
  \/ (IF I THEN TRUE ELSE ch[1] = "sig3") /\ \E st \in {<<>>, <<SigGood(1, 0)>>, <<<<>>, SigGood(1, 0)>>}, sc \in {<<OP_CHECKSIG>>, PushCanon(KeyC(1)) \o <<OP_CHECKSIG>>, <<OP_0, OP_DROP>> \o PushCanon(KeyC(1)) \o <<OP_CHECKSIG>>,
                                                                             PushCanon(KeyC(1)) \o <<OP_CHECKSIG, OP_NOT>>} :
        Sh(I, <<"sig3", st, sc>>) /\ (IF I THEN TRUE ELSE (\E F \in SUBSET {"CONST_SCRIPTCODE", "NULLFAIL"}, sv \in {"BASE", "WITNESS_V0"} :
        Emit(<<"sig", st, sc, F, sv>>)))
  \* OP_CODESEPARATOR: the signature commits to the script from the last executed separator on (legacy hashing drops the separators)
  \/ (IF I THEN TRUE ELSE ch[1] = "sig4") /\ \E cs \in 1..4, sc \in {PushCanon(KeyC(1)) \o <<OP_CHECKSIG>>, <<OP_CODESEPARATOR>> \o PushCanon(KeyC(1)) \o <<OP_CHECKSIG>>,
                              <<OP_1, OP_CODESEPARATOR, OP_DROP>> \o PushCanon(KeyC(1)) \o <<OP_CHECKSIG>>,
                              <<OP_0, OP_IF, OP_CODESEPARATOR, OP_ENDIF>> \o PushCanon(KeyC(1)) \o <<OP_CHECKSIG>>,
                              <<OP_CODESEPARATOR, OP_CODESEPARATOR>> \o PushCanon(KeyC(1)) \o <<OP_CHECKSIG>>,
                              PushCanon(KeyC(1)) \o <<OP_CODESEPARATOR, OP_CHECKSIG>>, PushCanon(KeyC(1)) \o <<OP_CHECKSIG, OP_CODESEPARATOR>>,
                              <<OP_CODESEPARATOR, OP_0>> \o MKeys(1) \o <<OP_1, OP_CHECKMULTISIG>>} :
        Sh(I, <<"sig4", cs, sc>>) /\ (IF I THEN TRUE ELSE (\E F \in SUBSET {"CONST_SCRIPTCODE", "NULLFAIL"}, sv \in {"BASE", "WITNESS_V0"} :
        Emit(<<"sig", IF sc[Len(sc)] = OP_CHECKMULTISIG THEN <<<<>>>> ELSE <<Sig(1, 0, cs, 1, 0)>>, sc, F, sv>>)))
InitSig == GSig(TRUE)

\* ------------------------------------------------------------------ group "der": IsValidSignatureEncoding on literal signatures
\* 30 len 02 lenR R 02 lenS S hashtype
DerSig(r, s, ht) == <<48, 4 + Len(r) + Len(s), 2, Len(r)>> \o r \o <<2, Len(s)>> \o s \o <<ht>>
DerSet == {DerSig(<<1>>, <<1>>, 1), DerSig(<<1>>, <<1>>, 0), DerSig(<<1>>, <<1>>, 4), DerSig(<<1>>, <<1>>, 130), DerSig(<<1>>, <<1>>, 132),
           DerSig(<<127>>, <<127>>, 1), DerSig(<<128>>, <<1>>, 1), DerSig(<<1>>, <<128>>, 1), DerSig(<<0, 128>>, <<1>>, 1), DerSig(<<1>>, <<0, 128>>, 1),
           DerSig(<<0, 127>>, <<1>>, 1), DerSig(<<1>>, <<0, 127>>, 1), DerSig(<<0>>, <<1>>, 1), DerSig(<<1>>, <<0>>, 1), DerSig(<<0, 0>>, <<1>>, 1),
           DerSig(<<>>, <<1>>, 1), DerSig(<<1>>, <<>>, 1), DerSig(Rep(7, 33), Rep(7, 32), 1), DerSig(Rep(7, 33), Rep(7, 33), 1), DerSig(Rep(7, 32), Rep(7, 31), 1),
           <<48, 6, 2, 1, 1, 2, 1, 1>>, <<49, 6, 2, 1, 1, 2, 1, 1, 1>>, <<48, 7, 2, 1, 1, 2, 1, 1, 1>>, <<48, 5, 2, 1, 1, 2, 1, 1, 1>>, <<48, 6, 3, 1, 1, 2, 1, 1, 1>>,
           <<48, 6, 2, 1, 1, 3, 1, 1, 1>>, <<48, 6, 2, 2, 1, 2, 1, 1, 1>>, <<48, 6, 2, 1, 1, 2, 2, 1, 1>>, <<48, 6, 2, 5, 1, 2, 1, 1, 1>>, <<48, 6, 2, 1, 1, 2, 0, 1, 1>>,
           <<48, 7, 2, 1, 1, 2, 1, 1, 1, 1>>, <<48, 6, 2, 4, 1, 2, 1, 1, 1>>, <<48, 6, 2, 3, 1, 2, 1, 1, 1>>}
GDer(I) ==
  \/ (IF I THEN TRUE ELSE ch[1] = "der1") /\ \E sg \in DerSet :
        Sh(I, <<"der1", sg>>) /\ (IF I THEN TRUE ELSE (\E k \in {KeyC(1), <<>>}, tail \in {<<OP_CHECKSIG>>, <<OP_CHECKSIG, OP_NOT>>},
              F \in SUBSET {"DERSIG", "LOW_S", "STRICTENC", "NULLFAIL"}, sv \in {"BASE", "WITNESS_V0"} :
        (Quick => Cardinality(F) <= 1 /\ sv = "BASE") /\ Emit(<<"der", <<sg>>, PushCanon(k) \o tail, F, sv>>)))
  \/ (IF I THEN TRUE ELSE ch[1] = "der2") /\ \E sg \in {x \in DerSet : Len(x) < 12} :
        Sh(I, <<"der2", sg>>) /\ (IF I THEN TRUE ELSE (\E F \in SUBSET {"DERSIG", "STRICTENC", "NULLFAIL", "NULLDUMMY"}, tail \in {<<OP_CHECKMULTISIG>>, <<OP_CHECKMULTISIG, OP_NOT>>} :
        (Quick => Cardinality(F) <= 1) /\ Emit(<<"der", <<<<>>, sg>>, NumPush(1) \o MKeys(1) \o NumPush(1) \o tail, F, "BASE">>)))
InitDer == GDer(TRUE)

\* ------------------------------------------------------------------ group "msig": CHECKMULTISIG(VERIFY)
MSigSet == {<<>>, SigGood(1, 0), SigGood(2, 0), SigGood(3, 0), SigGood(0, 0)}
MSigSetS == {<<>>, SigGood(1, 0)}
GMsig(I) ==
  \* m-of-n with exactly m signatures on the stack, every assignment of signatures
  \/ (IF I THEN TRUE ELSE ch[1] = "msig1") /\ \E n \in 0..3, m \in 0..3, d \in {<<>>, <<1>>}, op \in {OP_CHECKMULTISIG, OP_CHECKMULTISIGVERIFY} :
        Sh(I, <<"msig1", n, m, d, op>>) /\ (IF I THEN TRUE ELSE (\E F \in SUBSET {"NULLDUMMY", "NULLFAIL"}, sv \in {"BASE", "WITNESS_V0"} :
        m <= n /\ (Quick /\ m = 3 => F = {"NULLFAIL"} /\ sv = "BASE" /\ d = <<>>) /\ \E sg \in [1..m -> MSigSet] : Emit(<<"msig", <<d>> \o sg, NumPush(m) \o MKeys(n) \o NumPush(n) \o <<op>>, F, sv>>)))
  \* counts that do not fit the stack or each other, numbers that are not minimal
  \/ (IF I THEN TRUE ELSE ch[1] = "msig2") /\ \E n \in {-1, 0, 1, 2, 3, 20, 21}, m \in {-1, 0, 1, 2, 3, 4}, nk \in 0..3 :
        Sh(I, <<"msig2", n, m, nk>>) /\ (IF I THEN TRUE ELSE (\E L \in 0..3, d \in {<<>>, <<<<>>>>}, F \in SUBSET {"NULLDUMMY", "MINIMALDATA"} :
        (Quick => F = {} /\ L <= 2) /\ \E sg \in [1..L -> MSigSetS] : Emit(<<"msig", d \o sg, NumPush(m) \o MKeys(nk) \o NumPush(n) \o <<OP_CHECKMULTISIG>>, F, "BASE">>)))
  \/ (IF I THEN TRUE ELSE ch[1] = "msig3") /\ \E nn \in {<<1, 0>>, <<1, 2>>, <<2, 2, 0>>, <<1, 128>>, <<5, 1, 0, 0, 0, 0>>} :
        Sh(I, <<"msig3", nn>>) /\ (IF I THEN TRUE ELSE (\E mm \in {<<OP_0>>, <<1, 0>>, <<1, 1>>, <<2, 1, 0>>, <<1, 128>>}, F \in SUBSET {"MINIMALDATA"} :
        Emit(<<"msig", <<<<>>, <<>>>>, mm \o MKeys(2) \o nn \o <<OP_CHECKMULTISIG>>, F, "BASE">>)))
  \* key and signature encodings are checked pair by pair, in the order of the matching loop
  \/ (IF I THEN TRUE ELSE ch[1] = "msig4") /\ \E k1 \in {KeyC(1), KeyH(1), <<>>}, k2 \in {KeyC(2), KeyU(2), LitKey33}, s1 \in {<<>>, SigGood(1, 0), Sig(1, 0, 1, 1, 2), Sig(1, 0, 1, 4, 0)} :
        Sh(I, <<"msig4", k1, k2, s1>>) /\ (IF I THEN TRUE ELSE (\E s2 \in {<<>>, SigGood(2, 0), Sig(2, 0, 1, 1, 1), <<1>>}, m \in 1..2, F \in SUBSET {"STRICTENC", "DERSIG", "LOW_S", "WITNESS_PUBKEYTYPE", "NULLFAIL"}, sv \in {"BASE", "WITNESS_V0"} :
        (Quick => Cardinality(F) <= 1) /\
        Emit(<<"msig", (IF m = 2 THEN <<<<>>, s1, s2>> ELSE <<<<>>, s2>>), NumPush(m) \o PushCanon(k1) \o PushCanon(k2) \o NumPush(2) \o <<OP_CHECKMULTISIG>>, F, sv>>)))
  \* FindAndDelete of a signature that the script pushes itself
  \/ (IF I THEN TRUE ELSE ch[1] = "msig5") /\ \E pre \in {<<>>, <<OP_0, OP_DROP>>}, s1 \in {<<>>, SigGood(1, 0)} :
        Sh(I, <<"msig5", pre, s1>>) /\ (IF I THEN TRUE ELSE (\E F \in SUBSET {"CONST_SCRIPTCODE", "NULLFAIL"}, sv \in {"BASE", "WITNESS_V0"} :
        Emit(<<"msig", <<<<>>, s1>>, pre \o NumPush(1) \o MKeys(1) \o NumPush(1) \o <<OP_CHECKMULTISIG>>, F, sv>>)))
InitMsig == GMsig(TRUE)

\* ------------------------------------------------------------------ group "lock": CHECKLOCKTIMEVERIFY / CHECKSEQUENCEVERIFY
LockVals == {<<>>, <<1>>, <<129>>, <<10>>, <<11>>, <<255, 100, 205, 29>>, <<0, 101, 205, 29>>, <<1, 101, 205, 29>>, <<255, 255, 255, 255, 0>>,
             <<0, 0, 0, 0, 1>>, <<255, 255, 255, 255, 127>>, <<0, 0, 0, 0, 0, 1>>, <<10, 0>>, <<0, 0, 64>>, <<10, 0, 64>>, <<11, 0, 64>>,
             <<0, 0, 0, 128, 0>>, <<10, 0, 0, 128, 0>>, <<10, 0, 1>>, <<255, 255, 255, 255, 128>>}
TxLocks == {<<>>, <<10>>, <<255, 100, 205, 29>>, <<0, 101, 205, 29>>, <<255, 255, 255, 255>>}
TxSeqs == {SeqFinal, <<>>, <<10>>, <<0, 0, 64>>, <<10, 0, 64>>, <<0, 0, 0, 128>>, <<10, 0, 1>>, <<254, 255, 255, 255>>}
LockFlagSets == IF Quick THEN {{}, {"CHECKLOCKTIMEVERIFY", "CHECKSEQUENCEVERIFY"}, {"CHECKLOCKTIMEVERIFY", "CHECKSEQUENCEVERIFY", "MINIMALDATA"}}
                ELSE SUBSET {"CHECKLOCKTIMEVERIFY", "CHECKSEQUENCEVERIFY", "MINIMALDATA"}
GLock(I) ==
  \/ (IF I THEN TRUE ELSE ch[1] = "lock1") /\ \E v \in LockVals :
        Sh(I, <<"lock1", v>>) /\ (IF I THEN TRUE ELSE (\E lk \in TxLocks, F \in LockFlagSets, sq \in {SeqFinal, <<>>} :
        Emit(<<"lock", MinPush(v) \o <<OP_CHECKLOCKTIMEVERIFY>>, F, [lock |-> lk, seq |-> sq, ver |-> 1]>>)))
  \/ (IF I THEN TRUE ELSE ch[1] = "lock2") /\ \E v \in LockVals :
        Sh(I, <<"lock2", v>>) /\ (IF I THEN TRUE ELSE (\E sq \in TxSeqs, ver \in {1, 2}, F \in LockFlagSets :
        Emit(<<"lock", MinPush(v) \o <<OP_CHECKSEQUENCEVERIFY>>, F, [lock |-> <<>>, seq |-> sq, ver |-> ver]>>)))
  \/ (IF I THEN TRUE ELSE ch[1] = "lock3") /\ \E op \in {OP_CHECKLOCKTIMEVERIFY, OP_CHECKSEQUENCEVERIFY} :
        Sh(I, <<"lock3", op>>) /\ (IF I THEN TRUE ELSE (\E F \in LockFlagSets, pre \in {<<>>, <<OP_0, OP_IF>>} :
        Emit(<<"lock", pre \o <<op>> \o (IF pre = <<>> THEN <<>> ELSE <<OP_ENDIF, OP_1>>), F, [lock |-> <<10>>, seq |-> <<10>>, ver |-> 2]>>)))
InitLock == GLock(TRUE)

\* ------------------------------------------------------------------ group "limits": 201/202 opcodes, 1000/1001 stack items, 10000/10001 bytes, 20/21 keys
Ops(op, n) == Rep(op, n)
BigPush == PD(2, Rep(7, 520))
LimitProgs ==
  {Ops(OP_NOP, n) : n \in {200, 201, 202}}
  \cup {<<OP_1>> \o Ops(OP_NOP, n) : n \in {201, 202}}
  \cup {<<OP_0, OP_IF>> \o Ops(OP_NOP, n) \o <<OP_ENDIF, OP_1>> : n \in {198, 199, 200}}          \* opcodes of a branch that is not executed count
  \cup {<<OP_0, OP_IF>> \o Ops(OP_RESERVED, 250) \o Ops(OP_1, 250) \o <<OP_ENDIF, OP_1>>}        \* OP_RESERVED and pushes do not
  \cup {Ops(OP_NOP, n) \o <<OP_0, OP_0>> \o Ops(OP_1, k) \o NumPush(k) \o <<OP_CHECKMULTISIG>> : n \in {180, 181, 197, 198, 199, 200}, k \in {0, 1, 3, 19, 20}}
  \cup {<<OP_0, OP_0>> \o Ops(OP_1, k) \o NumPush(k) \o <<OP_CHECKMULTISIG>> : k \in {19, 20, 21}}
  \cup {<<OP_0>> \o Ops(OP_0, k) \o NumPush(k) \o Ops(OP_1, 20) \o NumPush(20) \o <<OP_CHECKMULTISIG>> : k \in {19, 20, 21}}
  \cup {Ops(OP_NOP, 100) \o <<OP_0, OP_0>> \o Ops(OP_1, 20) \o NumPush(20) \o <<OP_CHECKMULTISIGVERIFY>> \o <<OP_0, OP_0>> \o Ops(OP_1, 20) \o NumPush(20) \o <<OP_CHECKMULTISIG>> \o Ops(OP_NOP, n) : n \in {58, 59, 60}}
  \cup {Ops(OP_1, n) : n \in {999, 1000, 1001}}
  \cup {Ops(OP_1, n) \o <<OP_3DUP>> : n \in {996, 997, 998}}
  \cup {Ops(OP_1, n) \o <<OP_DEPTH>> : n \in {999, 1000}}
  \cup {Flat([i \in 1..100 |-> <<OP_1, OP_TOALTSTACK>>]) \o Ops(OP_1, n) : n \in {899, 900, 901}}
  \cup {Ops(OP_1, n) \o NumPush(n - 1) \o <<op>> : n \in {300, 999}, op \in {OP_PICK, OP_ROLL}}
  \cup {Ops(OP_1, 300) \o NumPush(300) \o <<op>> : op \in {OP_PICK, OP_ROLL}}
  \cup {Ops(OP_0, 1000) \o <<OP_0, OP_IF, OP_1, OP_ENDIF>>}                                  \* the limit is checked after every opcode, executed or not
  \cup {Flat([i \in 1..19 |-> BigPush \o <<OP_DROP>>]) \o Ops(OP_1, n) : n \in {43, 44, 45}}
  \cup {Ops(OP_NOP, n) : n \in {10000, 10001}}
  \cup {BigPush \o <<OP_SIZE>>, PD(2, Rep(7, 521)) \o <<OP_SIZE>>, <<OP_0, OP_IF>> \o PD(2, Rep(7, 521)) \o <<OP_ENDIF, OP_1>>}
GLimits(I) ==
  \/ (IF I THEN TRUE ELSE ch[1] = "limits1") /\ \E p \in LimitProgs :
        Sh(I, <<"limits1", p>>) /\ (IF I THEN TRUE ELSE (\E sv \in SVs :
        (Quick /\ Len(p) > 400 => sv = "BASE") /\ Emit(<<"limits", p, sv>>)))
InitLimits == GLimits(TRUE)

\* ------------------------------------------------------------------ group "verify": VerifyScript on P2PK(H), P2SH, witness v0 (native and nested)
P2PK(k) == PushCanon(k) \o <<OP_CHECKSIG>>
P2PKH(k) == <<OP_DUP, OP_HASH160>> \o PushCanon(Hash160(k)) \o <<OP_EQUALVERIFY, OP_CHECKSIG>>
P2SH(r) == <<OP_HASH160>> \o PushCanon(Hash160(r)) \o <<OP_EQUAL>>
P2WPKH(k) == <<OP_0>> \o PushCanon(Hash160(k))
P2WSH(ws) == <<OP_0>> \o PushCanon(Sha256(ws))
WpkhCode(k) == <<OP_DUP, OP_HASH160, 20>> \o Hash160(k) \o <<OP_EQUALVERIFY, OP_CHECKSIG>>
Cx(id, sc) == [id |-> id, sc |-> sc, lv |-> 192]
VCase(a, b, w, cx) == [a |-> a, b |-> b, w |-> w, cx |-> cx]
Junk == {<<>>, <<<<1>>>>}                      \* witness where none is expected
SigAlts(ctx) == {SigGood(1, ctx), SigGood(2, ctx), <<>>, SigGood(1, 8)}
IfScript == <<OP_IF, OP_1, OP_ELSE, OP_1, OP_ENDIF>>
Ms12 == NumPush(1) \o MKeys(2) \o NumPush(2) \o <<OP_CHECKMULTISIG>>

BareCases ==
  {VCase(a, b, w, <<>>) : a \in {<<>>, <<OP_1>>, <<OP_0>>, <<OP_1, OP_1>>, <<OP_NOP, OP_1>>, <<OP_1, OP_DUP>>, <<1>>, <<OP_1, OP_IF>>, <<1, 1>>},
                          b \in {<<OP_1>>, <<OP_0>>, <<>>, <<OP_DEPTH>>, <<OP_NOP1, OP_1>>, <<OP_DUP>>, <<OP_RETURN>>, <<OP_DROP, OP_1>>, <<OP_ENDIF, OP_1>>, IfScript}, w \in Junk}
  \cup {VCase(pre \o PushCanon(sg), P2PK(KeyC(1)), w, <<>>) : pre \in {<<>>, <<OP_1>>, <<OP_NOP>>}, sg \in SigAlts(CTX_SPK), w \in Junk}
  \cup {VCase(pre \o PushCanon(sg) \o PushCanon(k), P2PKH(KeyC(1)), <<>>, <<>>) : pre \in {<<>>, <<OP_1>>}, sg \in SigAlts(CTX_SPK), k \in {KeyC(1), KeyC(2), KeyU(1)}}
  \cup {VCase(<<OP_0>> \o PushCanon(s1), Ms12, <<>>, <<>>) : s1 \in {SigGood(1, CTX_SPK), SigGood(2, CTX_SPK), <<>>}}
  \cup {VCase(<<OP_1>> \o PushCanon(SigGood(2, CTX_SPK)), Ms12, <<>>, <<>>)}

\* redeem scripts without witness program, with the scriptSig arguments that satisfy them
Redeems == {<<<<>>, <<OP_1>>>>, <<<<>>, <<OP_0>>>>, <<<<>>, <<OP_1, OP_1>>>>, <<<<>>, <<OP_NOP1, OP_1>>>>, <<<<>>, <<OP_RETURN>>>>, <<<<>>, <<1>>>>,
            <<<<OP_1>>, <<OP_DROP, OP_1>>>>, <<<<OP_1>>, IfScript>>, <<<<1, 2>>, IfScript>>,
            <<PushCanon(SigGood(1, CTX_REDEEM)), P2PK(KeyC(1))>>, <<PushCanon(SigGood(1, CTX_SPK)), P2PK(KeyC(1))>>, <<PushCanon(<<>>), P2PK(KeyC(1))>>,
            <<<<OP_0>> \o PushCanon(SigGood(2, CTX_REDEEM)), Ms12>>, <<<<OP_1>> \o PushCanon(SigGood(1, CTX_REDEEM)), Ms12>>,
            <<<<>>, <<OP_1>> \o PushCanon(Rep(7, 32))>>, <<<<>>, <<OP_2>> \o PushCanon(Rep(7, 32))>>, <<<<>>, <<OP_0>> \o PushCanon(Rep(7, 25))>>,
            <<<<>>, <<OP_1, 2, 78, 115>>>>}
P2shCases ==
  UNION {{VCase(pre \o rd[1] \o pf, P2SH(rd[2]), w, <<Cx(CTX_REDEEM, rd[2])>>) :
             pre \in {<<>>, <<OP_1>>, <<OP_NOP>>}, pf \in {PushCanon(rd[2]), PD(1, rd[2])}, w \in Junk} : rd \in Redeems}
  \cup {VCase(a, P2SH(<<OP_1>>), <<>>, <<>>) : a \in {<<>>, <<OP_1>>, PushCanon(<<OP_1, OP_1>>), PushCanon(<<OP_0>>), <<OP_1>> \o PushCanon(<<OP_1>>) \o <<OP_NOP>>}}

WpkhWits(k) == {<<SigGood(1, CTX_WPKH), k>>, <<SigGood(2, CTX_WPKH), k>>, <<<<>>, k>>, <<SigGood(1, CTX_WPKH), KeyC(2)>>, <<SigGood(1, CTX_WSH), k>>,
                <<SigGood(1, CTX_WPKH)>>, <<<<1>>, SigGood(1, CTX_WPKH), k>>, <<>>, <<Sig(1, CTX_WPKH, 1, 1, 1), k>>}
\* witness scripts with the arguments that satisfy them
WScripts == {<<<<>>, <<OP_1>>>>, <<<<>>, <<OP_0>>>>, <<<<<<1>>>>, <<>>>>, <<<<>>, <<>>>>, <<<<>>, <<OP_1, OP_1>>>>, <<<<<<1>>>>, <<OP_1>>>>,
             <<<<<<1>>>>, IfScript>>, <<<<<<2>>>>, IfScript>>, <<<<<<>>>>, IfScript>>, <<<<<<0>>>>, IfScript>>, <<<<<<1, 0>>>>, IfScript>>,
             <<<<SigGood(1, CTX_WSH)>>, P2PK(KeyC(1))>>, <<<<SigGood(1, CTX_WSH)>>, P2PK(KeyU(1))>>, <<<<SigGood(1, CTX_REDEEM)>>, P2PK(KeyC(1))>>,
             <<<<<<>>>>, P2PK(KeyC(1))>>, <<<<SigGood(2, CTX_WSH)>>, P2PK(KeyC(1))>>,
             <<<<<<>>, SigGood(2, CTX_WSH)>>, Ms12>>, <<<<<<1>>, SigGood(1, CTX_WSH)>>, Ms12>>, <<<<<<>>, <<>>>>, Ms12 \o <<OP_NOT>>>>,
             <<<<Rep(7, 520)>>, <<OP_DROP, OP_1>>>>, <<<<Rep(7, 521)>>, <<OP_DROP, OP_1>>>>, <<<<>>, <<OP_1, OP_CHECKSIGADD>>>>, <<<<>>, <<OP_1, OP_NOP1>>>>,
             <<<<>>, <<1>>>>}
WshWits(ws) == {ws[1] \o <<ws[2]>>, ws[1] \o <<<<OP_1, OP_NOP>>>>, <<>>}
V0Cases ==
  UNION {{VCase(a, P2WPKH(k), w, <<Cx(CTX_WPKH, WpkhCode(k)), Cx(CTX_WSH, <<OP_1>>)>>) : a \in {<<>>, <<OP_0>>}, w \in WpkhWits(k)} : k \in {KeyC(1), KeyU(1)}}
  \cup UNION {{VCase(a, P2WSH(ws[2]), w, <<Cx(CTX_WSH, ws[2]), Cx(CTX_REDEEM, <<OP_1>>)>>) : a \in {<<>>, <<OP_0>>}, w \in WshWits(ws)} : ws \in WScripts}
  \* nested in P2SH
  \cup UNION {{VCase(pf, P2SH(P2WPKH(k)), w, <<Cx(CTX_WPKH, WpkhCode(k)), Cx(CTX_WSH, <<OP_1>>)>>) :
                  pf \in {PushCanon(P2WPKH(k)), PD(1, P2WPKH(k)), <<OP_0>> \o PushCanon(P2WPKH(k))}, w \in WpkhWits(k)} : k \in {KeyC(1), KeyU(1)}}
  \cup UNION {{VCase(pf, P2SH(P2WSH(ws[2])), w, <<Cx(CTX_WSH, ws[2]), Cx(CTX_REDEEM, <<OP_1>>)>>) :
                  pf \in {PushCanon(P2WSH(ws[2])), PD(1, P2WSH(ws[2])), <<OP_1>> \o PushCanon(P2WSH(ws[2]))}, w \in WshWits(ws)} : ws \in WScripts}
  \* other witness programs
  \cup {VCase(a, b, w, <<>>) : a \in {<<>>, <<OP_1>>},
          b \in {<<OP_0>> \o PushCanon(Rep(7, 25)), <<OP_0, 2, 7, 7>>, <<OP_0>> \o PushCanon(Rep(7, 40)), <<OP_0>> \o PushCanon(Rep(7, 41)), <<OP_0, 1, 7>>,
                 <<OP_0>> \o PushCanon(Rep(7, 20)), <<OP_0>> \o PushCanon(Rep(7, 32)),
                 <<OP_1, 2, 7, 7>>, <<OP_1, 2, 78, 115>>, <<OP_16>> \o PushCanon(Rep(7, 40)), <<OP_2>> \o PushCanon(Rep(7, 32)), <<OP_1NEGATE>> \o PushCanon(Rep(7, 32)),
                 <<OP_1, OP_PUSHDATA1, 2, 7, 7>>, <<OP_1, 2, 0, 0>>},
          w \in {<<>>, <<<<1>>>>, <<<<>>, <<>>>>}}
VerifyCases == BareCases \cup P2shCases \cup V0Cases
VFlagsCore == {"P2SH", "WITNESS", "CLEANSTACK", "SIGPUSHONLY"}
VFlagsMore == {"NULLFAIL", "MINIMALIF", "WITNESS_PUBKEYTYPE", "DISCOURAGE_UPGRADABLE_WITNESS_PROGRAM", "NULLDUMMY", "DISCOURAGE_UPGRADABLE_NOPS", "LOW_S"}
VFlagSets == IF Quick THEN {x \in SUBSET VFlagsCore : ValidFlags(x)} \cup {c \cup VFlagsMore : c \in {x \in SUBSET VFlagsCore : ValidFlags(x) /\ "WITNESS" \in x}}
             ELSE {c \cup m : c \in {x \in SUBSET VFlagsCore : ValidFlags(x)}, m \in SUBSET (VFlagsMore \ {"DISCOURAGE_UPGRADABLE_NOPS", "LOW_S"})}
                  \cup {c \cup VFlagsMore : c \in {x \in SUBSET VFlagsCore : ValidFlags(x)}}
GVerify(I) ==
  \/ (IF I THEN TRUE ELSE ch[1] = "verify1") /\ \E c \in VerifyCases :
        Sh(I, <<"verify1", c>>) /\ (IF I THEN TRUE ELSE (\E F \in VFlagSets :
        Emit(<<"verify", c, F>>)))
InitVerify == GVerify(TRUE)

\* ------------------------------------------------------------------ group "tap": taproot key path, script path, tapscript
XPush(i) == PushCanon(KeyX(i))
TSigGood(k) == SSig(k, CTX_SPK, 0, 0, 0)
TapSigSet == {<<>>, TSigGood(1), TSigGood(2), TSigGood(0), SSig(1, CTX_SPK, 0, 1, 1), SSig(1, CTX_SPK, 0, 0, 1), SSig(1, CTX_SPK, 0, 4, 1), SSig(1, CTX_SPK, 0, 131, 1),
              SSig(1, CTX_SPK, 0, 2, 1), SSig(1, CTX_SPK, 2, 0, 0), SSig(1, 7, 0, 0, 0), Rep(7, 63), Rep(7, 64), Rep(7, 65), Rep(7, 66), <<1>>, SigGood(1, CTX_SPK)}
\* tokens in front of the signature check of the OP_CODESEPARATOR-position rows
CsToks == {<<OP_0, OP_IF>>, <<OP_1, OP_IF>>, <<OP_ELSE>>, <<OP_ENDIF>>, <<OP_NOP>>, <<1, 170>>, <<OP_CODESEPARATOR>>, <<OP_1, OP_DROP>>}
CsPres == {<<OP_0, OP_IF, 1, 170, OP_NOP, OP_ENDIF, OP_CODESEPARATOR>>, <<OP_1, OP_IF, OP_ELSE, OP_NOP, OP_NOP, OP_ENDIF, OP_CODESEPARATOR>>,
           <<OP_0, OP_IF, OP_0, OP_IF, OP_NOP, OP_ENDIF, OP_NOP, OP_ENDIF, OP_CODESEPARATOR>>, <<OP_CODESEPARATOR, OP_0, OP_IF, OP_CODESEPARATOR, OP_NOP, OP_ENDIF>>,
           <<OP_0, OP_NOTIF, OP_CODESEPARATOR, OP_ELSE, OP_NOP, OP_CODESEPARATOR, OP_ENDIF>>}
TapKeySet == {KeyX(1), KeyX(2), <<>>, <<1>>, KeyC(1), Rep(7, 32), Rep(7, 31), Sha256(<<>>)}
\* EvalScript under SigVersion::TAPSCRIPT with a given validation weight budget
GTapEval(I) ==
  \/ (IF I THEN TRUE ELSE ch[1] = "tapeval1") /\ \E sg \in TapSigSet :
        Sh(I, <<"tapeval1", sg>>) /\ (IF I THEN TRUE ELSE (\E k \in TapKeySet, op \in {OP_CHECKSIG, OP_CHECKSIGVERIFY}, F \in SUBSET {"DISCOURAGE_UPGRADABLE_PUBKEYTYPE"}, wl \in {0, 49, 50, 1000} :
        (Quick => wl \in {49, 1000}) /\ Emit(<<"tapeval", <<sg>>, PushCanon(k) \o <<op>>, F, wl>>)))
  \/ (IF I THEN TRUE ELSE ch[1] = "tapeval2") /\ \E sg \in {<<>>, TSigGood(1), TSigGood(2), <<1>>}, n \in {<<>>, <<1>>, <<129>>, <<1, 0>>, <<255, 255, 255, 127>>, <<0, 0, 0, 128, 0>>, KeyX(1)} :
        Sh(I, <<"tapeval2", sg, n>>) /\ (IF I THEN TRUE ELSE (\E k \in {KeyX(1), <<>>, <<1>>}, F \in SUBSET {"DISCOURAGE_UPGRADABLE_PUBKEYTYPE", "MINIMALDATA"}, wl \in {49, 50} :
        Emit(<<"tapeval", <<sg, n>>, PushCanon(k) \o <<OP_CHECKSIGADD>>, F, wl>>)))
  \* k-of-3 with CHECKSIGADD, the budget runs out after the signatures it pays for
  \/ (IF I THEN TRUE ELSE ch[1] = "tapeval3") /\ \E s1 \in {<<>>, TSigGood(1)}, s2 \in {<<>>, TSigGood(2), TSigGood(1)}, s3 \in {<<>>, TSigGood(3)} :
        Sh(I, <<"tapeval3", s1, s2, s3>>) /\ (IF I THEN TRUE ELSE (\E m \in 0..3, wl \in {0, 50, 99, 100, 149, 150} :
        Emit(<<"tapeval", <<s3, s2, s1>>, XPush(1) \o <<OP_CHECKSIG>> \o XPush(2) \o <<OP_CHECKSIGADD>> \o XPush(3) \o <<OP_CHECKSIGADD>> \o NumPush(m) \o <<OP_NUMEQUAL>>, {}, wl>>)))
  \* OP_CODESEPARATOR position is signed
  \/ (IF I THEN TRUE ELSE ch[1] = "tapeval4") /\ \E cp \in 0..4 :
        Sh(I, <<"tapeval4", cp>>) /\ (IF I THEN TRUE ELSE (\E pre \in {<<>>, <<OP_CODESEPARATOR>>, <<OP_1, OP_DROP, OP_CODESEPARATOR>>, <<OP_0, OP_IF, OP_CODESEPARATOR, OP_ENDIF>>, <<OP_CODESEPARATOR, OP_CODESEPARATOR>>} :
        Emit(<<"tapeval", <<SSig(1, CTX_SPK, cp, 0, 0)>>, pre \o XPush(1) \o <<OP_CHECKSIG>>, {}, 1000>>)))
  \* the signed OP_CODESEPARATOR position counts EVERY decoded opcode and push, also those of branches that are not executed (BIP342):
  \* every short program over conditionals, pushes, NOPs and separators in front of <key> CHECKSIG, with a real signature for every candidate position
  \/ (IF I THEN TRUE ELSE ch[1] = "tapeval5") /\ \E x \in CsToks, cp \in 0..(IF Quick THEN 7 ELSE 9) :
        Sh(I, <<"tapeval5", x, cp>>) /\ (IF I THEN TRUE ELSE (\E p \in SeqsUpTo(CsToks, 0, IF Quick THEN 2 ELSE 3), tail \in {<<OP_CHECKSIG>>, <<OP_CHECKSIGVERIFY, OP_1>>} :
        (Quick => tail = <<OP_CHECKSIG>>) /\ Emit(<<"tapeval", <<SSig(1, CTX_SPK, cp, 0, 0)>>, x \o Flat(p) \o XPush(1) \o tail, {}, 1000>>)))
  \/ (IF I THEN TRUE ELSE ch[1] = "tapeval6") /\ \E cp \in 0..9 :
        Sh(I, <<"tapeval6", cp>>) /\ (IF I THEN TRUE ELSE (\E pre \in CsPres :
        Emit(<<"tapeval", <<SSig(1, CTX_SPK, cp, 0, 0), <<>>>>, pre \o XPush(1) \o <<OP_CHECKSIGADD>>, {}, 1000>>)))
InitTapEval == GTapEval(TRUE)

TapLeafVer == 192
CtrlBlock(lv, par, id, path) == Sym(T_CTRL, <<lv, par, id, Len(path)>> \o Flat([i \in 1..Len(path) |-> PushCanon(path[i])]))
TapSpk(id, lv, sc, path) == <<OP_1, 32>> \o TapOut(id, MerkleUp(TapLeaf(lv, sc), path, 1))
TCX(sc, lv) == <<[id |-> CTX_TAPSCRIPT, sc |-> sc, lv |-> lv], [id |-> CTX_TAPKEY, sc |-> <<>>, lv |-> lv]>>
TS(k) == SSig(k, CTX_TAPSCRIPT, 0, 0, 0)
\* leaf scripts with the witness arguments that satisfy them
TapLeaves == {<<<<>>, <<OP_1>>>>, <<<<>>, <<OP_0>>>>, <<<<<<1>>>>, <<>>>>, <<<<>>, <<OP_1, OP_1>>>>,
              <<<<TS(1)>>, XPush(1) \o <<OP_CHECKSIG>>>>, <<<<TS(2)>>, XPush(1) \o <<OP_CHECKSIG>>>>, <<<<<<>>>>, XPush(1) \o <<OP_CHECKSIG>>>>,
              <<<<SSig(1, CTX_TAPSCRIPT, 0, 1, 1)>>, XPush(1) \o <<OP_CHECKSIG>>>>, <<<<SSig(1, CTX_TAPKEY, 0, 0, 0)>>, XPush(1) \o <<OP_CHECKSIG>>>>,
              <<<<SSig(1, CTX_TAPSCRIPT + 100, 0, 0, 0)>>, XPush(1) \o <<OP_CHECKSIG>>>>,
              <<<<TS(2), TS(1)>>, XPush(1) \o <<OP_CHECKSIG>> \o XPush(2) \o <<OP_CHECKSIGADD, OP_2, OP_NUMEQUAL>>>>,
              <<<<TS(1)>>, <<OP_CODESEPARATOR>> \o XPush(1) \o <<OP_CHECKSIG>>>>, <<<<SSig(1, CTX_TAPSCRIPT, 1, 0, 0)>>, <<OP_CODESEPARATOR>> \o XPush(1) \o <<OP_CHECKSIG>>>>,
              <<<<SSig(1, CTX_TAPSCRIPT, 6, 0, 0)>>, <<OP_0, OP_IF, 1, 170, OP_NOP, OP_ENDIF, OP_CODESEPARATOR>> \o XPush(1) \o <<OP_CHECKSIG>>>>,
              <<<<SSig(1, CTX_TAPSCRIPT, 4, 0, 0)>>, <<OP_0, OP_IF, 1, 170, OP_NOP, OP_ENDIF, OP_CODESEPARATOR>> \o XPush(1) \o <<OP_CHECKSIG>>>>,
              <<<<SSig(1, CTX_TAPSCRIPT, 5, 0, 0)>>, <<OP_1, OP_IF, OP_ELSE, OP_NOP, OP_ENDIF, OP_CODESEPARATOR>> \o XPush(1) \o <<OP_CHECKSIG>>>>,
              <<<<SSig(1, CTX_TAPSCRIPT, 6, 0, 0)>>, <<OP_1, OP_IF, OP_ELSE, OP_NOP, OP_ENDIF, OP_CODESEPARATOR>> \o XPush(1) \o <<OP_CHECKSIG>>>>,
              <<<<TS(1)>>, PushCanon(<<1>>) \o <<OP_CHECKSIG>>>>, <<<<TS(1)>>, <<OP_0, OP_CHECKSIG>>>>,
              <<<<<<1>>>>, IfScript>>, <<<<<<2>>>>, IfScript>>, <<<<<<>>>>, IfScript>>, <<<<<<1, 0>>>>, IfScript>>,
              <<<<>>, <<OP_RESERVED>>>>, <<<<>>, <<OP_0, OP_RESERVED>>>>, <<<<>>, <<OP_RESERVED, 1>>>>, <<<<>>, <<5, OP_RESERVED>>>>, <<<<>>, <<OP_RETURN, 187>>>>, <<<<>>, <<OP_CAT>>>>,
              <<<<>>, <<1, OP_RESERVED>>>>, <<<<>>, <<OP_0, OP_IF, 254, OP_ENDIF>>>>, <<<<>>, <<OP_1, 255>>>>, <<<<Rep(7, 521)>>, <<OP_RESERVED>>>>, <<<<Rep(7, 521)>>, <<OP_DROP, OP_1>>>>,
              <<<<>>, <<OP_0, OP_0, OP_0, OP_CHECKMULTISIG>>>>, <<<<>>, Ops(OP_NOP, 250) \o <<OP_1>>>>, <<<<>>, <<OP_1, OP_NOP1>>>>,
              <<<<Rep(7, 1000)>>, <<OP_RESERVED>>>>}
TapCases ==
  \* script path
  UNION {{VCase(a, TapSpk(1, lv, lf[2], path), anx[1] \o lf[1] \o <<lf[2], CtrlBlock(lv, par, id, path)>> \o anx[2], TCX(lf[2], lv)) :
             a \in {<<>>}, lv \in {192, 194}, par \in {1}, id \in {1},
             path \in IF Quick THEN {<<TapLeaf(192, <<OP_1>>)>>} ELSE {<<>>, <<Rep(7, 32)>>, <<TapLeaf(192, <<OP_1>>)>>}, anx \in {<<<<>>, <<>>>>}} : lf \in TapLeaves}
  \cup UNION {{VCase(a, TapSpk(1, 192, lf[2], <<>>), anx[1] \o lf[1] \o <<lf[2], CtrlBlock(lv, par, id, <<>>)>> \o anx[2], TCX(lf[2], 192)) :
             a \in IF Quick THEN {<<>>} ELSE {<<>>, <<OP_1>>}, lv \in IF Quick THEN {192, 194} ELSE {192, 194, 82}, par \in {0, 1}, id \in {1, 2},
             anx \in IF Quick THEN {<<<<>>, <<>>>>, <<<<>>, <<<<80>>>>>>} ELSE {<<<<>>, <<>>>>, <<<<>>, <<<<80>>>>>>, <<<<>>, <<<<80, 1, 2>>>>>>, <<<<<<80>>>>, <<>>>>}} :
               lf \in {x \in TapLeaves : Len(x[2]) < 40}}
  \* a script that is not the committed one; control blocks of wrong size; literal control block
  \cup {VCase(<<>>, TapSpk(1, 192, <<OP_1>>, <<>>), <<sc, c>>, TCX(<<OP_1>>, 192)) : sc \in {<<OP_1>>, <<OP_1, OP_1>>},
           c \in {CtrlBlock(192, 1, 1, <<>>), CtrlBlock(192, 1, 1, <<>>) \o <<0>>, CtrlBlock(192, 1, 1, <<Rep(7, 32)>>), CtrlBlock(192, 1, 1, <<>>) \o Rep(7, 31), <<192>> \o Rep(7, 31), <<192>> \o Rep(7, 32), <<>>,
                  <<194>> \o KeyX(1), <<195>> \o KeyX(1), CtrlBlock(192, 1, 1, [i \in 1..128 |-> Rep(7, 32)]), CtrlBlock(192, 1, 1, [i \in 1..129 |-> Rep(7, 32)])}}
  \* key path
  \cup {VCase(a, spk, w \o anx, TCX(<<OP_1>>, 192)) : a \in {<<>>, <<OP_1>>},
           spk \in {TapSpk(1, 192, <<OP_1>>, <<>>), <<OP_1, 32>> \o TapOutKeyOnly(1), <<OP_1, 32>> \o Rep(7, 32), <<OP_1, 32>> \o KeyX(1)},
           w \in {<<SSig(1, CTX_TAPKEY, 0, 0, 0)>>, <<SSig(2, CTX_TAPKEY, 0, 0, 0)>>, <<SSig(1, CTX_TAPKEY, 0, 1, 1)>>, <<SSig(1, CTX_TAPKEY, 0, 0, 1)>>, <<SSig(1, CTX_TAPKEY, 0, 4, 1)>>,
                  <<SSig(1, CTX_TAPKEY, 0, 131, 1)>>, <<SSig(1, CTX_TAPKEY + 100, 0, 0, 0)>>, <<SSig(1, CTX_TAPSCRIPT, 0, 0, 0)>>, <<<<>>>>, <<Rep(7, 64)>>, <<Rep(7, 63)>>, <<Rep(7, 66)>>, <<>>},
           anx \in {<<>>, <<<<80>>>>, <<<<80, 7>>>>}}
  \* more than 1000 initial stack items; P2SH-wrapped version 1 program is not taproot
  \cup {VCase(<<>>, TapSpk(1, 192, sc, <<>>), [i \in 1..n |-> <<>>] \o <<sc, CtrlBlock(192, 1, 1, <<>>)>>, TCX(sc, 192)) : n \in {1000, 1001}, sc \in {Ops(OP_2DROP, 500), <<OP_RESERVED>>}}
  \cup {VCase(PushCanon(TapSpk(1, 192, <<OP_1>>, <<>>)), P2SH(TapSpk(1, 192, <<OP_1>>, <<>>)), w, TCX(<<OP_1>>, 192)) : w \in {<<>>, <<<<OP_1>>, CtrlBlock(192, 1, 1, <<>>)>>}}
\* the validation weight budget: witness size + 50, one passing signature check costs 50
WeightCases ==
  {VCase(<<>>, TapSpk(1, 192, sc, <<>>), <<Rep(7, pad), TS(1), sc, CtrlBlock(192, 1, 1, <<>>)>>, TCX(sc, 192)) :
      pad \in (IF Quick THEN 20..50 ELSE 0..60), sc \in {<<OP_SWAP, OP_DROP>> \o XPush(1) \o Flat([i \in 1..n |-> <<OP_2DUP, OP_CHECKSIGVERIFY>>]) \o <<OP_CHECKSIG>> : n \in {3, 4}}}
TapFlagsAll == {"P2SH", "WITNESS", "TAPROOT", "DISCOURAGE_OP_SUCCESS", "DISCOURAGE_UPGRADABLE_TAPROOT_VERSION", "DISCOURAGE_UPGRADABLE_PUBKEYTYPE",
                "DISCOURAGE_UPGRADABLE_WITNESS_PROGRAM", "CLEANSTACK"}
TapFlagSets == IF Quick THEN {{"P2SH", "WITNESS", "TAPROOT"}, TapFlagsAll, {"P2SH", "WITNESS"}}
               ELSE {x \in SUBSET TapFlagsAll : ValidFlags(x)}
GTap(I) ==
  \/ GTapEval(I)
  \/ (IF I THEN TRUE ELSE ch[1] = "tap1") /\ \E c \in TapCases :
        Sh(I, <<"tap1", c>>) /\ (IF I THEN TRUE ELSE (\E F \in TapFlagSets :
        Emit(<<"tap", c, F>>)))
  \/ (IF I THEN TRUE ELSE ch[1] = "tap2") /\ \E c \in WeightCases :
        Sh(I, <<"tap2", c>>) /\ (IF I THEN TRUE ELSE (\E F \in {{"P2SH", "WITNESS", "TAPROOT"}} :
        Emit(<<"tap", c, F>>)))
  \* every opcode byte as (part of) a tapscript leaf: the OP_SUCCESSx table, opcodes that only exist before / in tapscript
  \/ (IF I THEN TRUE ELSE ch[1] = "tapop") /\ \E op \in 79..255 :
        Sh(I, <<"tapop", op>>) /\ (IF I THEN TRUE ELSE (\E pre \in {<<>>, <<OP_1, OP_1>>, <<OP_0, OP_IF>>}, F \in {{"P2SH", "WITNESS", "TAPROOT"}, TapFlagsAll} :
        LET sc == pre \o <<op>> \o (IF pre = <<OP_0, OP_IF>> THEN <<OP_ENDIF, OP_1>> ELSE <<>>) IN
        Emit(<<"tap", VCase(<<>>, TapSpk(1, 192, sc, <<>>), <<sc, CtrlBlock(192, 1, 1, <<>>)>>, TCX(sc, 192)), F>>)))
InitTap == GTap(TRUE)

GRest(I) == GPush(I) \/ GStack(I) \/ GHash(I) \/ GSig(I) \/ GDer(I) \/ GMsig(I) \/ GLock(I) \/ GLimits(I) \/ GVerify(I) \/ GTap(I)
InitRest == GRest(TRUE)
GAll(I) == GPush(I) \/ GStack(I) \/ GArith(I) \/ GFlow(I) \/ GHash(I) \/ GSig(I) \/ GDer(I) \/ GMsig(I) \/ GLock(I) \/ GLimits(I) \/ GVerify(I) \/ GTap(I)
InitAll == GAll(TRUE)
Next == /\ ~done /\ done' = TRUE /\ UNCHANGED ch /\ GAll(FALSE)
EmitRow == done => VFRow(row)
\* the model never needs a byte it does not know
NoGap == done => row.err # "MODEL_GAP"
=============================================================================
