------------------------------ MODULE ScriptSF ------------------------------
(***************************************************************************)
(* C11: script verification flags behave as soft forks.                     *)
(* For every program of the bounded grammars (the VerifyScript cases of     *)
(* ScriptMC plus its EvalScript programs turned into scriptSig /            *)
(* scriptPubKey pairs) the reference interpreter is evaluated under EVERY   *)
(* valid subset of the flags the program family is sensitive to; TLC checks *)
(* SoftFork: success under a flag set implies success under each of its     *)
(* valid subsets.  The same rows (program + all flag sets) are replayed on  *)
(* the real VerifyScript, where the implication, determinism and            *)
(* policy => consensus are checked on the implementation's own results.     *)
(***************************************************************************)
EXTENDS ScriptMC, SequencesExt

ValidSubsets(U) == {F \in SUBSET U : ValidFlags(F)}
\* flag universes per program family
U_flow == IF Quick THEN {"MINIMALDATA", "DISCOURAGE_UPGRADABLE_NOPS", "P2SH", "WITNESS", "CLEANSTACK", "SIGPUSHONLY"}
          ELSE {"MINIMALDATA", "DISCOURAGE_UPGRADABLE_NOPS", "MINIMALIF", "P2SH", "WITNESS", "CLEANSTACK", "SIGPUSHONLY"}
U_lock == {"CHECKLOCKTIMEVERIFY", "CHECKSEQUENCEVERIFY", "MINIMALDATA", "DISCOURAGE_UPGRADABLE_NOPS"}
U_sig == IF Quick THEN {"DERSIG", "LOW_S", "STRICTENC", "NULLFAIL", "CONST_SCRIPTCODE"}
         ELSE {"DERSIG", "LOW_S", "STRICTENC", "NULLFAIL", "WITNESS_PUBKEYTYPE", "CONST_SCRIPTCODE"}
U_msig == IF Quick THEN {"NULLDUMMY", "NULLFAIL", "STRICTENC", "DERSIG", "CONST_SCRIPTCODE"}
          ELSE {"NULLDUMMY", "NULLFAIL", "STRICTENC", "DERSIG", "MINIMALDATA", "CONST_SCRIPTCODE"}
U_verify == IF Quick THEN {"P2SH", "WITNESS", "CLEANSTACK", "SIGPUSHONLY", "NULLFAIL", "MINIMALIF"}
            ELSE {"P2SH", "WITNESS", "CLEANSTACK", "SIGPUSHONLY", "NULLFAIL", "MINIMALIF", "WITNESS_PUBKEYTYPE", "DISCOURAGE_UPGRADABLE_WITNESS_PROGRAM"}
U_tap == IF Quick THEN {"P2SH", "WITNESS", "TAPROOT", "DISCOURAGE_OP_SUCCESS", "DISCOURAGE_UPGRADABLE_TAPROOT_VERSION", "DISCOURAGE_UPGRADABLE_PUBKEYTYPE"}
         ELSE TapFlagsAll
Universe(u) == CASE u = "flow" -> U_flow [] u = "lock" -> U_lock [] u = "sig" -> U_sig [] u = "msig" -> U_msig [] u = "verify" -> U_verify [] u = "tap" -> U_tap

\* an EvalScript program as a VerifyScript case: the initial stack is pushed by the scriptSig
EvalCase(st0, sc, post) == VCase(Flat([i \in 1..Len(st0) |-> MinPush(st0[i])]), sc \o post, <<>>, <<>>)
Posts == {<<>>, <<OP_1>>}

InitSFFlow == \E p \in SeqsUpTo(FlowToks \cup {PD(1, <<1>>), <<OP_NOP4>>, <<OP_NOP10>>}, 1, IF Quick THEN 2 ELSE 3), post \in Posts, a \in {<<>>, <<OP_1>>, <<1, 1>>, <<OP_1, OP_NOP>>} :
                 (Quick /\ Len(p) = 2 => post = <<OP_1>> /\ a = <<>> /\ p[1] \in FlowToksQ \cup {PD(1, <<1>>), <<OP_NOP4>>, <<OP_NOP1>>}) /\ Start(<<"flow", VCase(a, Flat(p) \o post, <<>>, <<>>), NoTx>>)
InitSFLock ==
  \/ \E v \in LockVals, lk \in TxLocks, sq \in {SeqFinal, <<>>} : Start(<<"lock", EvalCase(<<>>, MinPush(v) \o <<OP_CHECKLOCKTIMEVERIFY>>, <<>>), [lock |-> lk, seq |-> sq, ver |-> 1]>>)
  \/ \E v \in LockVals, sq \in TxSeqs, ver \in {1, 2} : Start(<<"lock", EvalCase(<<>>, MinPush(v) \o <<OP_CHECKSEQUENCEVERIFY>>, <<>>), [lock |-> <<>>, seq |-> sq, ver |-> ver]>>)
  \/ \E v \in {<<1>>, <<1, 0>>}, op \in {OP_CHECKLOCKTIMEVERIFY, OP_CHECKSEQUENCEVERIFY, OP_NOP1}, pre \in {<<>>, <<OP_0, OP_IF>>} :
        Start(<<"lock", EvalCase(<<>>, PushCanon(v) \o pre \o <<op>> \o (IF pre = <<>> THEN <<>> ELSE <<OP_ENDIF>>), <<>>), [lock |-> <<10>>, seq |-> <<10>>, ver |-> 2]>>)
InitSFSig ==
  \/ \E sg \in SigSet, k \in KeySet, tail \in {<<OP_CHECKSIG>>, <<OP_CHECKSIG, OP_NOT>>, <<OP_CHECKSIGVERIFY, OP_1>>} :
        Start(<<"sig", EvalCase(<<sg>>, PushCanon(k) \o tail, <<>>), NoTx>>)
  \/ \E sg \in {<<>>, <<5>>, LitDER, SigGood(0, 0)}, k \in {KeyC(1), <<>>}, pre \in {<<>>, <<OP_0, OP_DROP>>, <<1, 5, OP_DROP>>, <<OP_CODESEPARATOR>>}, tail \in {<<OP_CHECKSIG>>, <<OP_CHECKSIG, OP_NOT>>} :
        Start(<<"sig", EvalCase(<<>>, pre \o MinPush(sg) \o PushCanon(k) \o tail, <<>>), NoTx>>)
  \/ \E sg \in {SigGood(1, 0), Sig(1, 0, 2, 1, 0), <<>>}, tail \in {<<OP_CHECKSIG>>, <<OP_CHECKSIG, OP_NOT>>} :
        Start(<<"sig", EvalCase(<<sg>>, <<OP_CODESEPARATOR>> \o PushCanon(KeyC(1)) \o tail, <<>>), NoTx>>)
InitSFMsig ==
  \/ \E n \in 0..3, m \in 0..3, d \in {<<>>, <<1>>}, tail \in {<<OP_CHECKMULTISIG>>, <<OP_CHECKMULTISIG, OP_NOT>>} :
        m <= n /\ (Quick => m <= 2) /\ \E sg \in [1..m -> MSigSet] : Start(<<"msig", EvalCase(<<d>> \o sg, NumPush(m) \o MKeys(n) \o NumPush(n) \o tail, <<>>), NoTx>>)
  \/ \E k1 \in {KeyC(1), KeyH(1), <<>>}, k2 \in {KeyC(2), KeyU(2), LitKey33}, s1 \in {<<>>, SigGood(1, 0), Sig(1, 0, 1, 1, 2), Sig(1, 0, 1, 4, 0)},
        s2 \in {<<>>, SigGood(2, 0), Sig(2, 0, 1, 1, 1), <<1>>}, m \in 1..2, tail \in {<<OP_CHECKMULTISIG>>, <<OP_CHECKMULTISIG, OP_NOT>>} :
        Start(<<"msig", EvalCase((IF m = 2 THEN <<<<>>, s1, s2>> ELSE <<<<>>, s2>>), NumPush(m) \o PushCanon(k1) \o PushCanon(k2) \o NumPush(2) \o tail, <<>>), NoTx>>)
  \/ \E nn \in {<<1, 2>>, <<2, 2, 0>>}, mm \in {<<OP_0>>, <<1, 0>>, <<1, 1>>, <<2, 1, 0>>} :
        Start(<<"msig", EvalCase(<<<<>>, SigGood(2, 0)>>, mm \o MKeys(2) \o nn \o <<OP_CHECKMULTISIG>>, <<>>), NoTx>>)
\* (quick: no junk witness on the non-witness cases, no taproot cases with extra witness elements)
InitSFVerify == \E c \in VerifyCases : (Quick => c \in V0Cases \/ c.w = <<>>) /\ Start(<<"verify", c, NoTx>>)
InitSFTap == \E c \in TapCases \cup {w \in WeightCases : Len(w.w[1]) % 7 = 0} : (Quick => Len(c.w) <= 3) /\ Start(<<"tap", c, NoTx>>)
InitSFRest == InitSFLock \/ InitSFSig \/ InitSFMsig \/ InitSFVerify \/ InitSFTap
InitSF == InitSFFlow \/ InitSFRest

SFRow(c) ==
  LET fam == c[1]  cs == c[2]  tx == c[3]
      sets == ValidSubsets(Universe(fam))
      res == [F \in sets |-> VerifyScript(cs.a, cs.b, cs.w, F, tx)]
  IN [g |-> fam, k |-> "sf", a |-> cs.a, b |-> cs.b, st0 |-> cs.w, cx |-> cs.cx, tx |-> tx, res |-> res]
NextSF == /\ ~done /\ done' = TRUE /\ row' = SFRow(ch) /\ UNCHANGED ch

\* the property, on the model: whatever verifies under a flag set verifies under each of its valid subsets
SoftFork == done => \A F2 \in DOMAIN row.res : row.res[F2] = "" => \A F1 \in DOMAIN row.res : F1 \subseteq F2 => row.res[F1] = ""
NoGapSF == done => \A F \in DOMAIN row.res : row.res[F] # "MODEL_GAP"
EmitSF == done => LET fs == SetToSeq(DOMAIN row.res) IN
                  VFRow([g |-> row.g, k |-> row.k, a |-> row.a, b |-> row.b, st0 |-> row.st0, cx |-> row.cx, tx |-> row.tx,
                         fs |-> [i \in 1..Len(fs) |-> [F |-> fs[i], err |-> row.res[fs[i]]]]])
=============================================================================
