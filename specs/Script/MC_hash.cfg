INIT InitHash
NEXT Next
INVARIANTS NoGap EmitRow
CHECK_DEADLOCK FALSE
