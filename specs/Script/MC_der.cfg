INIT InitDer
NEXT Next
INVARIANTS NoGap EmitRow
CHECK_DEADLOCK FALSE
