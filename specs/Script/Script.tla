------------------------------- MODULE Script -------------------------------
(***************************************************************************)
(* C12 / C11: an independent reference interpreter for Bitcoin script.     *)
(*                                                                         *)
(* Byte vectors are sequences of integers.  An integer 0..255 is a literal *)
(* byte.  A negative integer -t starts a SYMBOLIC BLOCK <<-t, n, p1..pn>>  *)
(* (tag t, n payload integers) that stands for bytes the model does not    *)
(* compute: hash values (injective constructors over their preimage),     *)
(* public keys and signatures.  The conformance harness replaces a block   *)
(* by real bytes (real hashes, real keys, real signatures made such that   *)
(* the model's SigOK relation holds exactly as the model says).            *)
(*                                                                         *)
(* Numbers are sign + magnitude in base-256 limbs (exactly the CScriptNum  *)
(* encoding), so that 4-byte operands whose sum needs 5 bytes are exact;   *)
(* TLC integers are only used for small quantities.                        *)
(*                                                                         *)
(* EvalScript / VerifyScript below follow src/script/interpreter.cpp one   *)
(* rule at a time (order of checks = order of the error codes).            *)
(***************************************************************************)
EXTENDS Integers, Sequences, FiniteSets, TLC

\* --------------------------------------------------------------- opcodes
OP_0 == 0                OP_PUSHDATA1 == 76       OP_PUSHDATA2 == 77       OP_PUSHDATA4 == 78
OP_1NEGATE == 79         OP_RESERVED == 80        OP_1 == 81               OP_16 == 96
OP_NOP == 97             OP_VER == 98             OP_IF == 99              OP_NOTIF == 100
OP_VERIF == 101          OP_VERNOTIF == 102       OP_ELSE == 103           OP_ENDIF == 104
OP_VERIFY == 105         OP_RETURN == 106         OP_TOALTSTACK == 107     OP_FROMALTSTACK == 108
OP_2DROP == 109          OP_2DUP == 110           OP_3DUP == 111           OP_2OVER == 112
OP_2ROT == 113           OP_2SWAP == 114          OP_IFDUP == 115          OP_DEPTH == 116
OP_DROP == 117           OP_DUP == 118            OP_NIP == 119            OP_OVER == 120
OP_PICK == 121           OP_ROLL == 122           OP_ROT == 123            OP_SWAP == 124
OP_TUCK == 125           OP_CAT == 126            OP_SUBSTR == 127         OP_LEFT == 128
OP_RIGHT == 129          OP_SIZE == 130           OP_INVERT == 131         OP_AND == 132
OP_OR == 133             OP_XOR == 134            OP_EQUAL == 135          OP_EQUALVERIFY == 136
OP_RESERVED1 == 137      OP_RESERVED2 == 138      OP_1ADD == 139           OP_1SUB == 140
OP_2MUL == 141           OP_2DIV == 142           OP_NEGATE == 143         OP_ABS == 144
OP_NOT == 145            OP_0NOTEQUAL == 146      OP_ADD == 147            OP_SUB == 148
OP_MUL == 149            OP_DIV == 150            OP_MOD == 151            OP_LSHIFT == 152
OP_RSHIFT == 153         OP_BOOLAND == 154        OP_BOOLOR == 155         OP_NUMEQUAL == 156
OP_NUMEQUALVERIFY == 157 OP_NUMNOTEQUAL == 158    OP_LESSTHAN == 159       OP_GREATERTHAN == 160
OP_LESSTHANOREQUAL == 161 OP_GREATERTHANOREQUAL == 162 OP_MIN == 163       OP_MAX == 164
OP_WITHIN == 165         OP_RIPEMD160 == 166      OP_SHA1 == 167           OP_SHA256 == 168
OP_HASH160 == 169        OP_HASH256 == 170        OP_CODESEPARATOR == 171  OP_CHECKSIG == 172
OP_CHECKSIGVERIFY == 173 OP_CHECKMULTISIG == 174  OP_CHECKMULTISIGVERIFY == 175
OP_NOP1 == 176           OP_CHECKLOCKTIMEVERIFY == 177 OP_CHECKSEQUENCEVERIFY == 178
OP_NOP4 == 179           OP_NOP10 == 185          OP_CHECKSIGADD == 186

DisabledOps == {OP_CAT, OP_SUBSTR, OP_LEFT, OP_RIGHT, OP_INVERT, OP_AND, OP_OR, OP_XOR, OP_2MUL, OP_2DIV,
                OP_MUL, OP_DIV, OP_MOD, OP_LSHIFT, OP_RSHIFT}
\* BIP342: OP_SUCCESSx
IsOpSuccess(op) == op = 80 \/ op = 98 \/ (op >= 126 /\ op <= 129) \/ (op >= 131 /\ op <= 134) \/ (op >= 137 /\ op <= 138)
                   \/ (op >= 141 /\ op <= 142) \/ (op >= 149 /\ op <= 153) \/ (op >= 187 /\ op <= 254)

MAX_ELEM == 520
MAX_OPS == 201
MAX_STACK == 1000
MAX_SCRIPT == 10000
MAX_KEYS == 20

\* --------------------------------------------------------------- symbolic blocks
T_RMD == 1      \* RIPEMD160(payload)                     20 bytes
T_SHA1 == 2     \* SHA1(payload)                          20 bytes
T_SHA256 == 3   \* SHA256(payload)                        32 bytes
T_KEY == 10     \* payload <<id, enc>>  enc 0 compressed (33 bytes, first byte 02), 1 uncompressed (65, first 04), 2 hybrid (65, first 06)
T_XKEY == 13    \* payload <<id>>       x-only key of secret id (32 bytes)
T_SIG == 20     \* payload <<k, ctx, cs, ht, form>>  ECDSA signature by secret k (0 = a secret that owns no key of the model)
                \*   over the script of execution context ctx from rep position cs, hash type byte ht;
                \*   form 0 = strict DER, low S (71 bytes); 1 = strict DER, high S (72); 2 = R padded with a zero byte: not strict DER,
                \*   still accepted by the lax parser (72)
T_SSIG == 21    \* payload <<k, ctx, cspos, ht, x>>  Schnorr signature; x = 0: 64 bytes (default hash type), x = 1: 65 bytes ending in ht
T_TAPOUT == 30  \* taproot output key: payload = <<id, hasroot>> \o merkle-root term      32 bytes
T_TAPLEAF == 31 \* TapLeaf hash: payload = <<leafver>> \o script                          32 bytes
T_TAPBR == 32   \* TapBranch hash of two 32-byte children (payload = lexicographically ordered by the harness; the model keeps <<a, b>> sorted by rep)
T_CTRL == 33    \* control block: payload <<leafver, parityok, id, npath>> \o path nodes (each a 32-byte vector)   33 + 32*npath bytes

Sym(tag, pl) == <<0 - tag, Len(pl)>> \o pl
IsBlock(v) == Len(v) >= 2 /\ v[1] < 0 /\ Len(v) = 2 + v[2]
IsTag(v, t) == IsBlock(v) /\ v[1] = 0 - t
IsLit(v) == \A i \in 1..Len(v) : v[i] >= 0

\* real length of the block starting at rep position p of v
SymLenAt(v, p) ==
  LET t == 0 - v[p] IN
  CASE t \in {T_RMD, T_SHA1} -> 20
    [] t = T_SHA256 -> 32
    [] t = T_KEY -> IF v[p + 3] = 0 THEN 33 ELSE 65
    [] t = T_XKEY -> 32
    [] t = T_SIG -> IF v[p + 6] = 0 THEN 71 ELSE 72
    [] t = T_SSIG -> IF v[p + 6] = 0 THEN 64 ELSE 65
    [] t \in {T_TAPOUT, T_TAPLEAF, T_TAPBR} -> 32
    [] t = T_CTRL -> 33 + 32 * v[p + 5]
    [] OTHER -> 1000000

RECURSIVE BLenFrom(_, _)
BLenFrom(v, p) == IF p > Len(v) THEN 0
                  ELSE IF v[p] >= 0 THEN 1 + BLenFrom(v, p + 1)
                  ELSE SymLenAt(v, p) + BLenFrom(v, p + 2 + v[p + 1])
\* real length in bytes
BLen(v) == IF IsLit(v) THEN Len(v) ELSE BLenFrom(v, 1)

\* first real byte where the model knows it (-1 = unknown)
FirstByte(v) == IF v = <<>> THEN -1
                ELSE IF v[1] >= 0 THEN v[1]
                ELSE LET t == 0 - v[1] IN
                     CASE t = T_KEY -> (CASE v[4] = 0 -> 2 [] v[4] = 1 -> 4 [] OTHER -> 6)
                       [] t = T_SIG -> 48
                       [] t = T_CTRL -> v[3]      \* leaf version | parity bit; only compared with the (even) annex tag 0x50
                       [] OTHER -> -1

\* the real bytes of a block never consist of zeros only (overwhelming probability; the harness asserts it)
CastToBool(v) == \E i \in 1..Len(v) : v[i] # 0 /\ ~(i = Len(v) /\ v[i] = 128)

HashOf(op, x) == CASE op = OP_RIPEMD160 -> Sym(T_RMD, x)
                   [] op = OP_SHA1 -> Sym(T_SHA1, x)
                   [] op = OP_SHA256 -> Sym(T_SHA256, x)
                   [] op = OP_HASH160 -> Sym(T_RMD, Sym(T_SHA256, x))
                   [] op = OP_HASH256 -> Sym(T_SHA256, Sym(T_SHA256, x))
Hash160(x) == HashOf(OP_HASH160, x)
Sha256(x) == HashOf(OP_SHA256, x)

\* --------------------------------------------------------------- numbers (sign, little-endian magnitude)
RECURSIVE StripZ(_)
StripZ(m) == IF m # <<>> /\ m[Len(m)] = 0 THEN StripZ(SubSeq(m, 1, Len(m) - 1)) ELSE m
Norm(neg, m) == [neg |-> neg /\ m # <<>>, mag |-> m]
NZero == [neg |-> FALSE, mag |-> <<>>]
NOne == [neg |-> FALSE, mag |-> <<1>>]
NBool(b) == IF b THEN NOne ELSE NZero
\* CScriptNum::set_vch
NumOf(v) == IF v = <<>> THEN NZero
            ELSE LET l == v[Len(v)] IN Norm(l >= 128, StripZ([v EXCEPT ![Len(v)] = l % 128]))
\* CScriptNum::serialize
VchOf(n) == IF n.mag = <<>> THEN <<>>
            ELSE LET t == n.mag[Len(n.mag)] IN
                 IF t >= 128 THEN Append(n.mag, IF n.neg THEN 128 ELSE 0)
                 ELSE IF n.neg THEN [n.mag EXCEPT ![Len(n.mag)] = t + 128] ELSE n.mag
RECURSIVE MagCmpAt(_, _, _)
MagCmpAt(a, b, i) == IF i = 0 THEN 0 ELSE IF a[i] < b[i] THEN -1 ELSE IF a[i] > b[i] THEN 1 ELSE MagCmpAt(a, b, i - 1)
MagCmp(a, b) == IF Len(a) < Len(b) THEN -1 ELSE IF Len(a) > Len(b) THEN 1 ELSE MagCmpAt(a, b, Len(a))
RECURSIVE MagAddAt(_, _, _, _)
MagAddAt(a, b, i, c) ==
  IF i > Len(a) /\ i > Len(b) THEN (IF c = 0 THEN <<>> ELSE <<c>>)
  ELSE LET x == (IF i <= Len(a) THEN a[i] ELSE 0) + (IF i <= Len(b) THEN b[i] ELSE 0) + c
       IN <<x % 256>> \o MagAddAt(a, b, i + 1, x \div 256)
MagAdd(a, b) == MagAddAt(a, b, 1, 0)
RECURSIVE MagSubAt(_, _, _, _)
MagSubAt(a, b, i, br) ==        \* a >= b
  IF i > Len(a) THEN <<>>
  ELSE LET x == a[i] - (IF i <= Len(b) THEN b[i] ELSE 0) - br
       IN <<(x + 256) % 256>> \o MagSubAt(a, b, i + 1, IF x < 0 THEN 1 ELSE 0)
MagSub(a, b) == StripZ(MagSubAt(a, b, 1, 0))
NNeg(a) == Norm(~a.neg, a.mag)
NAdd(a, b) == IF a.neg = b.neg THEN Norm(a.neg, MagAdd(a.mag, b.mag))
              ELSE IF MagCmp(a.mag, b.mag) >= 0 THEN Norm(a.neg, MagSub(a.mag, b.mag))
              ELSE Norm(b.neg, MagSub(b.mag, a.mag))
NSub(a, b) == NAdd(a, NNeg(b))
NCmp(a, b) == IF a.neg /\ ~b.neg THEN -1 ELSE IF ~a.neg /\ b.neg THEN 1
              ELSE IF ~a.neg THEN MagCmp(a.mag, b.mag) ELSE MagCmp(b.mag, a.mag)
RECURSIVE MagOfNat(_)
MagOfNat(n) == IF n = 0 THEN <<>> ELSE <<n % 256>> \o MagOfNat(n \div 256)
NOfInt(n) == IF n < 0 THEN Norm(TRUE, MagOfNat(0 - n)) ELSE Norm(FALSE, MagOfNat(n))
\* value for range checks against small bounds (|value| >= 65536 is reported as 100000)
Small(n) == LET m == n.mag
                a == CASE Len(m) = 0 -> 0 [] Len(m) = 1 -> m[1] [] Len(m) = 2 -> m[1] + 256 * m[2] [] OTHER -> 100000
            IN IF n.neg THEN 0 - a ELSE a
\* "encoded with the minimum possible number of bytes"
IsMinimalNum(v) == \/ v = <<>>
                   \/ v[Len(v)] % 128 # 0
                   \/ (Len(v) > 1 /\ v[Len(v) - 1] >= 128)

\* --------------------------------------------------------------- instruction decoding (CScript::GetOp)
RECURSIVE TakeW(_, _, _)
\* rep position just after n real bytes starting at rep position p; 0 = not enough bytes; -1 = a block straddles the boundary (model gap)
TakeW(sc, p, n) == IF n = 0 THEN p
                   ELSE IF p > Len(sc) THEN 0
                   ELSE IF sc[p] >= 0 THEN TakeW(sc, p + 1, n - 1)
                   ELSE LET L == SymLenAt(sc, p) IN IF L > n THEN -1 ELSE TakeW(sc, p + 2 + sc[p + 1], n - L)
Take(sc, p, n) == IF p + n - 1 <= Len(sc) /\ (\A i \in p..(p + n - 1) : sc[i] >= 0) THEN p + n ELSE TakeW(sc, p, n)

NoOp == [ok |-> FALSE, gap |-> FALSE, op |-> 255, data |-> <<>>, next |-> 0]
ReadOp(sc, pc) ==
  LET op == sc[pc] IN
  IF op < 0 THEN [NoOp EXCEPT !.gap = TRUE]
  ELSE IF op > OP_PUSHDATA4 THEN [ok |-> TRUE, gap |-> FALSE, op |-> op, data |-> <<>>, next |-> pc + 1]
  ELSE LET hdr == CASE op < OP_PUSHDATA1 -> 0 [] op = OP_PUSHDATA1 -> 1 [] op = OP_PUSHDATA2 -> 2 [] OTHER -> 4 IN
       IF pc + hdr > Len(sc) THEN NoOp
       ELSE IF \E i \in 1..hdr : sc[pc + i] < 0 THEN [NoOp EXCEPT !.gap = TRUE]
       ELSE IF hdr = 4 /\ (sc[pc + 3] # 0 \/ sc[pc + 4] # 0) THEN NoOp       \* >= 65536 bytes announced: never available
       ELSE LET n == CASE hdr = 0 -> op [] hdr = 1 -> sc[pc + 1] [] OTHER -> sc[pc + 1] + 256 * sc[pc + 2]
                q == Take(sc, pc + hdr + 1, n)
            IN IF q = 0 THEN NoOp
               ELSE IF q < 0 THEN [NoOp EXCEPT !.gap = TRUE]
               ELSE [ok |-> TRUE, gap |-> FALSE, op |-> op, data |-> SubSeq(sc, pc + hdr + 1, q - 1), next |-> q]

\* CheckMinimalPush
CheckMinimalPush(d, op) ==
  LET n == BLen(d) IN
  IF n = 0 THEN op = OP_0
  ELSE IF n = 1 /\ d[1] >= 1 /\ d[1] <= 16 THEN FALSE
  ELSE IF n = 1 /\ d[1] = 129 THEN FALSE
  ELSE IF n <= 75 THEN op = n
  ELSE IF n <= 255 THEN op = OP_PUSHDATA1
  ELSE IF n <= 65535 THEN op = OP_PUSHDATA2
  ELSE TRUE

\* CScript() << vector  (AppendDataSize)
PushCanon(v) == LET n == BLen(v) IN
                IF n < 76 THEN <<n>> \o v
                ELSE IF n <= 255 THEN <<OP_PUSHDATA1, n>> \o v
                ELSE IF n <= 65535 THEN <<OP_PUSHDATA2, n % 256, n \div 256>> \o v
                ELSE <<OP_PUSHDATA4, n % 256, (n \div 256) % 256, (n \div 65536) % 256, n \div 16777216>> \o v

RECURSIVE PushOnlyFrom(_, _)
PushOnlyFrom(sc, p) == IF p > Len(sc) THEN TRUE
                       ELSE LET r == ReadOp(sc, p) IN r.ok /\ r.op <= OP_16 /\ PushOnlyFrom(sc, r.next)
IsPushOnly(sc) == PushOnlyFrom(sc, 1)

\* FindAndDelete(code, pat) > 0 : pat occurs at an instruction boundary reachable by decoding code from its start
MatchAt(code, pat, p) == p + Len(pat) - 1 <= Len(code) /\ SubSeq(code, p, p + Len(pat) - 1) = pat
RECURSIVE FDFrom(_, _, _)
FDFrom(code, pat, p) == IF p > Len(code) THEN FALSE
                        ELSE IF MatchAt(code, pat, p) THEN TRUE
                        ELSE LET r == ReadOp(code, p) IN IF ~r.ok THEN FALSE ELSE FDFrom(code, pat, r.next)
FDFound(code, pat) == FDFrom(code, pat, 1)

\* --------------------------------------------------------------- signature and key encodings
\* IsValidSignatureEncoding on literal bytes (strict DER + hash type byte)
DERLit(g) ==
  LET n == Len(g) IN
  /\ n >= 9 /\ n <= 73
  /\ g[1] = 48
  /\ g[2] = n - 3
  /\ LET lenR == g[4] IN
     /\ 5 + lenR < n
     /\ LET lenS == g[6 + lenR] IN
        /\ lenR + lenS + 7 = n
        /\ g[3] = 2
        /\ lenR # 0
        /\ g[5] < 128
        /\ ~(lenR > 1 /\ g[5] = 0 /\ g[6] < 128)
        /\ g[lenR + 5] = 2
        /\ lenS # 0
        /\ g[lenR + 7] < 128
        /\ ~(lenS > 1 /\ g[lenR + 7] = 0 /\ g[lenR + 8] < 128)
DERValid(v) == IF IsTag(v, T_SIG) THEN v[7] # 2
               ELSE IF IsLit(v) THEN DERLit(v)
               ELSE FALSE          \* other blocks / mixtures: sizes 20, 32, 33, 65 with first byte # 0x30 or wrong inner length
\* S <= order/2. Literal strict-DER signatures of the grammar have short R and S, hence low S.
LowS(v) == IF IsTag(v, T_SIG) THEN v[7] # 1 ELSE TRUE
LastByte(v) == IF IsTag(v, T_SIG) THEN v[6] ELSE IF IsTag(v, T_SSIG) THEN v[6] ELSE v[Len(v)]
DefinedHashtype(v) == LET h == LastByte(v) % 128 IN h >= 1 /\ h <= 3
\* returns "" or the error
CheckSigEnc(v, F) ==
  IF BLen(v) = 0 THEN ""
  ELSE IF ({"DERSIG", "LOW_S", "STRICTENC"} \cap F # {}) /\ ~DERValid(v) THEN "SIG_DER"
  ELSE IF "LOW_S" \in F /\ ~LowS(v) THEN "SIG_HIGH_S"
  ELSE IF "STRICTENC" \in F /\ ~DefinedHashtype(v) THEN "SIG_HASHTYPE"
  ELSE ""
IsCompressedOrUncompressed(k) == LET n == BLen(k) f == FirstByte(k) IN
  /\ n >= 33
  /\ IF f = 4 THEN n = 65 ELSE IF f = 2 \/ f = 3 THEN n = 33 ELSE FALSE
IsCompressed(k) == BLen(k) = 33 /\ FirstByte(k) \in {2, 3}
CheckKeyEnc(k, F, sv) ==
  IF "STRICTENC" \in F /\ ~IsCompressedOrUncompressed(k) THEN "PUBKEYTYPE"
  ELSE IF "WITNESS_PUBKEYTYPE" \in F /\ sv = "WITNESS_V0" /\ ~IsCompressed(k) THEN "WITNESS_PUBKEYTYPE"
  ELSE ""

\* The script code a pre-taproot signature commits to: the script from the last executed OP_CODESEPARATOR on; the legacy
\* (BASE) serialization drops every OP_CODESEPARATOR of it, the BIP143 one keeps the bytes as they are.
RECURSIVE StripCSFrom(_, _)
StripCSFrom(code, p) == IF p > Len(code) THEN <<>>
                        ELSE LET r == ReadOp(code, p) IN
                             IF ~r.ok THEN SubSeq(code, p, Len(code))
                             ELSE IF r.op = OP_CODESEPARATOR THEN StripCSFrom(code, r.next)
                             ELSE SubSeq(code, p, r.next - 1) \o StripCSFrom(code, r.next)
CodeOf(sc, cs, sv) == IF sv = "BASE" THEN StripCSFrom(SubSeq(sc, cs, Len(sc)), 1) ELSE SubSeq(sc, cs, Len(sc))
\* The abstract signature relation. e.ctx = execution context of the running script sc, cs = rep position where the
\* signed script code starts (after the last executed OP_CODESEPARATOR), deleted = FindAndDelete changed the script code.
ECDSAOK(sig, key, e, sc, cs, deleted) ==
  /\ IsTag(sig, T_SIG) /\ IsTag(key, T_KEY)
  /\ sig[3] # 0 /\ sig[3] = key[3]
  /\ sig[4] = e.ctx
  /\ sig[5] >= 1 /\ sig[5] <= Len(sc) + 1
  /\ (sig[5] = cs \/ CodeOf(sc, sig[5], e.sv) = CodeOf(sc, cs, e.sv))
  /\ ~deleted
\* CheckSchnorrSignature: "" or error
SchnorrHashtypeOK(h) == h \in {0, 1, 2, 3, 129, 130, 131}
CheckSchnorr(sig, key, e, cspos, sigver) ==
  LET n == BLen(sig) IN
  IF n # 64 /\ n # 65 THEN "SCHNORR_SIG_SIZE"
  ELSE IF n = 65 /\ LastByte(sig) = 0 THEN "SCHNORR_SIG_HASHTYPE"
  ELSE IF n = 65 /\ ~SchnorrHashtypeOK(LastByte(sig)) THEN "SCHNORR_SIG_HASHTYPE"
  ELSE IF /\ IsTag(sig, T_SSIG) /\ sig[3] # 0 /\ sig[4] = e.ctx /\ sig[5] = cspos
          /\ \/ (sigver = "TAPSCRIPT" /\ IsTag(key, T_XKEY) /\ key[3] = sig[3])
             \/ (sigver = "TAPROOT" /\ IsTag(key, T_TAPOUT) /\ key[3] = sig[3])
       THEN "" ELSE "SCHNORR_SIG"

\* --------------------------------------------------------------- lock time checks (GenericTransactionSignatureChecker)
\* e.tx = [lock |-> magnitude of nLockTime, seq |-> magnitude of nSequence (4 bytes max), ver |-> version]
Thr500M == <<0, 101, 205, 29>>          \* LOCKTIME_THRESHOLD = 500 000 000
SeqFinal == <<255, 255, 255, 255>>
B(m, i) == IF i <= Len(m) THEN m[i] ELSE 0
CheckLockTime(n, tx) ==
  /\ (MagCmp(tx.lock, Thr500M) < 0) = (MagCmp(n.mag, Thr500M) < 0)
  /\ MagCmp(n.mag, tx.lock) <= 0
  /\ tx.seq # SeqFinal
SeqMask(m) == StripZ(<<B(m, 1), B(m, 2), ((B(m, 3) \div 64) % 2) * 64>>)
SeqTypeFlag == <<0, 0, 64>>
CheckSequence(n, tx) ==
  /\ tx.ver >= 2
  /\ B(tx.seq, 4) < 128
  /\ (MagCmp(SeqMask(tx.seq), SeqTypeFlag) < 0) = (MagCmp(SeqMask(n.mag), SeqTypeFlag) < 0)
  /\ MagCmp(SeqMask(n.mag), SeqMask(tx.seq)) <= 0

\* --------------------------------------------------------------- EvalScript
\* e = [F |-> flag set, sv |-> "BASE" | "WITNESS_V0" | "TAPSCRIPT", ctx |-> context id, tx |-> lock time fields]
\* s = interpreter state
S0(st, wl) == [st |-> st, alt |-> <<>>, cond |-> <<>>, ops |-> 0, pc |-> 1, opi |-> 0, cs |-> 1, cspos |-> 0, wl |-> wl, err |-> ""]
Err(s, x) == [s EXCEPT !.err = x]
At(st, i) == st[Len(st) - i + 1]                 \* At(st, 1) = top
Drop(st, k) == SubSeq(st, 1, Len(st) - k)
VTrue == <<1>>
VFalse == <<>>
VBool(b) == IF b THEN VTrue ELSE VFalse

NumArgOK(v, F, maxlen) == BLen(v) <= maxlen /\ ("MINIMALDATA" \notin F \/ IsMinimalNum(v))

\* one CHECKSIG-style evaluation: [err, ok, wl]
EvalChecksig(sc, s, e, sig, key) ==
  IF e.sv = "TAPSCRIPT" THEN
    LET nonempty == BLen(sig) # 0
        wl2 == IF nonempty THEN s.wl - 50 ELSE s.wl
    IN IF nonempty /\ wl2 < 0 THEN [err |-> "TAPSCRIPT_VALIDATION_WEIGHT", ok |-> FALSE, wl |-> wl2]
       ELSE IF BLen(key) = 0 THEN [err |-> "TAPSCRIPT_EMPTY_PUBKEY", ok |-> FALSE, wl |-> wl2]
       ELSE IF BLen(key) = 32 THEN
         (IF nonempty THEN [err |-> CheckSchnorr(sig, key, e, s.cspos, "TAPSCRIPT"), ok |-> TRUE, wl |-> wl2]
          ELSE [err |-> "", ok |-> FALSE, wl |-> wl2])
       ELSE IF "DISCOURAGE_UPGRADABLE_PUBKEYTYPE" \in e.F THEN [err |-> "DISCOURAGE_UPGRADABLE_PUBKEYTYPE", ok |-> FALSE, wl |-> wl2]
       ELSE [err |-> "", ok |-> nonempty, wl |-> wl2]
  ELSE
    LET deleted == e.sv = "BASE" /\ FDFound(SubSeq(sc, s.cs, Len(sc)), PushCanon(sig))
        e1 == CheckSigEnc(sig, e.F)
        e2 == CheckKeyEnc(key, e.F, e.sv)
        ok == ECDSAOK(sig, key, e, sc, s.cs, deleted)
    IN IF deleted /\ "CONST_SCRIPTCODE" \in e.F THEN [err |-> "SIG_FINDANDDELETE", ok |-> FALSE, wl |-> s.wl]
       ELSE IF e1 # "" THEN [err |-> e1, ok |-> FALSE, wl |-> s.wl]
       ELSE IF e2 # "" THEN [err |-> e2, ok |-> FALSE, wl |-> s.wl]
       ELSE IF ~ok /\ "NULLFAIL" \in e.F /\ BLen(sig) # 0 THEN [err |-> "SIG_NULLFAIL", ok |-> FALSE, wl |-> s.wl]
       ELSE [err |-> "", ok |-> ok, wl |-> s.wl]

\* the signature/key matching loop of CHECKMULTISIG: [err, ok]
RECURSIVE MSLoop(_, _, _, _, _, _, _, _, _)
MSLoop(sc, st, e, cs, deleted, isig, ikey, ns, nk) ==
  IF ns = 0 THEN [err |-> "", ok |-> TRUE]
  ELSE LET sig == At(st, isig)
           key == At(st, ikey)
           e1 == CheckSigEnc(sig, e.F)
           e2 == CheckKeyEnc(key, e.F, e.sv)
       IN IF e1 # "" THEN [err |-> e1, ok |-> FALSE]
          ELSE IF e2 # "" THEN [err |-> e2, ok |-> FALSE]
          ELSE LET good == ECDSAOK(sig, key, e, sc, cs, deleted)
                   ns2 == IF good THEN ns - 1 ELSE ns
                   isig2 == IF good THEN isig + 1 ELSE isig
               IN IF ns2 > nk - 1 THEN [err |-> "", ok |-> FALSE]
                  ELSE MSLoop(sc, st, e, cs, deleted, isig2, ikey + 1, ns2, nk - 1)

RECURSIVE AnyDeleted(_, _, _, _, _)
\* some signature of the multisig occurs in the script code (FindAndDelete found something)
AnyDeleted(code, st, isig, k, ns) == IF k >= ns THEN FALSE
                                     ELSE FDFound(code, PushCanon(At(st, isig + k))) \/ AnyDeleted(code, st, isig, k + 1, ns)

ExecMultisig(sc, s, e, op) ==
  LET st == s.st  N == Len(st) IN
  IF e.sv = "TAPSCRIPT" THEN Err(s, "TAPSCRIPT_CHECKMULTISIG")
  ELSE IF N < 1 THEN Err(s, "INVALID_STACK_OPERATION")
  ELSE IF ~NumArgOK(At(st, 1), e.F, 4) THEN Err(s, "SCRIPTNUM")
  ELSE LET nk == Small(NumOf(At(st, 1))) IN
  IF nk < 0 \/ nk > MAX_KEYS THEN Err(s, "PUBKEY_COUNT")
  ELSE IF s.ops + nk > MAX_OPS THEN Err(s, "OP_COUNT")
  ELSE IF N < 2 + nk THEN Err(s, "INVALID_STACK_OPERATION")
  ELSE IF ~NumArgOK(At(st, 2 + nk), e.F, 4) THEN Err(s, "SCRIPTNUM")
  ELSE LET ns == Small(NumOf(At(st, 2 + nk))) IN
  IF ns < 0 \/ ns > nk THEN Err(s, "SIG_COUNT")
  ELSE IF N < 3 + nk + ns THEN Err(s, "INVALID_STACK_OPERATION")
  ELSE LET isig == 3 + nk
           deleted == e.sv = "BASE" /\ AnyDeleted(SubSeq(sc, s.cs, Len(sc)), st, isig, 0, ns)
       IN
  IF deleted /\ "CONST_SCRIPTCODE" \in e.F THEN Err(s, "SIG_FINDANDDELETE")
  ELSE LET r == MSLoop(sc, st, e, s.cs, deleted, isig, 2, ns, nk) IN
  IF r.err # "" THEN Err(s, r.err)
  ELSE IF ~r.ok /\ "NULLFAIL" \in e.F /\ (\E k \in 0..(ns - 1) : BLen(At(st, isig + k)) # 0) THEN Err(s, "SIG_NULLFAIL")
  ELSE IF "NULLDUMMY" \in e.F /\ BLen(At(st, 3 + nk + ns)) # 0 THEN Err(s, "SIG_NULLDUMMY")
  ELSE LET base == Drop(st, 3 + nk + ns)
           s2 == [s EXCEPT !.ops = s.ops + nk]
       IN IF op = OP_CHECKMULTISIGVERIFY
          THEN (IF r.ok THEN [s2 EXCEPT !.st = base] ELSE Err([s2 EXCEPT !.st = Append(base, VFalse)], "CHECKMULTISIGVERIFY"))
          ELSE [s2 EXCEPT !.st = Append(base, VBool(r.ok))]

Unary(op, a) == CASE op = OP_1ADD -> NAdd(a, NOne)
                  [] op = OP_1SUB -> NSub(a, NOne)
                  [] op = OP_NEGATE -> NNeg(a)
                  [] op = OP_ABS -> Norm(FALSE, a.mag)
                  [] op = OP_NOT -> NBool(a.mag = <<>>)
                  [] op = OP_0NOTEQUAL -> NBool(a.mag # <<>>)
Binary(op, a, b) == CASE op = OP_ADD -> NAdd(a, b)
                      [] op = OP_SUB -> NSub(a, b)
                      [] op = OP_BOOLAND -> NBool(a.mag # <<>> /\ b.mag # <<>>)
                      [] op = OP_BOOLOR -> NBool(a.mag # <<>> \/ b.mag # <<>>)
                      [] op \in {OP_NUMEQUAL, OP_NUMEQUALVERIFY} -> NBool(NCmp(a, b) = 0)
                      [] op = OP_NUMNOTEQUAL -> NBool(NCmp(a, b) # 0)
                      [] op = OP_LESSTHAN -> NBool(NCmp(a, b) < 0)
                      [] op = OP_GREATERTHAN -> NBool(NCmp(a, b) > 0)
                      [] op = OP_LESSTHANOREQUAL -> NBool(NCmp(a, b) <= 0)
                      [] op = OP_GREATERTHANOREQUAL -> NBool(NCmp(a, b) >= 0)
                      [] op = OP_MIN -> IF NCmp(a, b) < 0 THEN a ELSE b
                      [] op = OP_MAX -> IF NCmp(a, b) > 0 THEN a ELSE b

\* an executed non-push opcode, or IF..ENDIF in a non-executed branch (s.pc, s.ops, s.opi already advanced; pc0 = position of the opcode)
Exec(sc, s, e, op, fExec, pc0) ==
  LET st == s.st
      N == Len(st)
      F == e.F
      Bad == Err(s, "INVALID_STACK_OPERATION")
  IN
  CASE op = OP_1NEGATE \/ (op >= OP_1 /\ op <= OP_16) -> [s EXCEPT !.st = Append(st, VchOf(NOfInt(op - 80)))]
    [] op = OP_NOP -> s
    [] op = OP_CHECKLOCKTIMEVERIFY ->
         IF "CHECKLOCKTIMEVERIFY" \notin F THEN s
         ELSE IF N < 1 THEN Bad
         ELSE IF ~NumArgOK(At(st, 1), F, 5) THEN Err(s, "SCRIPTNUM")
         ELSE LET n == NumOf(At(st, 1)) IN
              IF n.neg THEN Err(s, "NEGATIVE_LOCKTIME")
              ELSE IF ~CheckLockTime(n, e.tx) THEN Err(s, "UNSATISFIED_LOCKTIME") ELSE s
    [] op = OP_CHECKSEQUENCEVERIFY ->
         IF "CHECKSEQUENCEVERIFY" \notin F THEN s
         ELSE IF N < 1 THEN Bad
         ELSE IF ~NumArgOK(At(st, 1), F, 5) THEN Err(s, "SCRIPTNUM")
         ELSE LET n == NumOf(At(st, 1)) IN
              IF n.neg THEN Err(s, "NEGATIVE_LOCKTIME")
              ELSE IF B(n.mag, 4) >= 128 THEN s
              ELSE IF ~CheckSequence(n, e.tx) THEN Err(s, "UNSATISFIED_LOCKTIME") ELSE s
    [] op = OP_NOP1 \/ (op >= OP_NOP4 /\ op <= OP_NOP10) ->
         IF "DISCOURAGE_UPGRADABLE_NOPS" \in F THEN Err(s, "DISCOURAGE_UPGRADABLE_NOPS") ELSE s
    [] op = OP_IF \/ op = OP_NOTIF ->
         IF ~fExec THEN [s EXCEPT !.cond = Append(s.cond, FALSE)]
         ELSE IF N < 1 THEN Bad
         ELSE LET v == At(st, 1)
                  notmin == BLen(v) > 1 \/ (BLen(v) = 1 /\ v[1] # 1)
              IN IF e.sv = "TAPSCRIPT" /\ notmin THEN Err(s, "TAPSCRIPT_MINIMALIF")
                 ELSE IF e.sv = "WITNESS_V0" /\ "MINIMALIF" \in F /\ notmin THEN Err(s, "MINIMALIF")
                 ELSE [s EXCEPT !.st = Drop(st, 1), !.cond = Append(s.cond, IF op = OP_IF THEN CastToBool(v) ELSE ~CastToBool(v))]
    [] op = OP_ELSE ->
         IF s.cond = <<>> THEN Err(s, "UNBALANCED_CONDITIONAL")
         ELSE [s EXCEPT !.cond = [s.cond EXCEPT ![Len(s.cond)] = ~s.cond[Len(s.cond)]]]
    [] op = OP_ENDIF ->
         IF s.cond = <<>> THEN Err(s, "UNBALANCED_CONDITIONAL")
         ELSE [s EXCEPT !.cond = SubSeq(s.cond, 1, Len(s.cond) - 1)]
    [] op = OP_VERIFY ->
         IF N < 1 THEN Bad
         ELSE IF CastToBool(At(st, 1)) THEN [s EXCEPT !.st = Drop(st, 1)] ELSE Err(s, "VERIFY")
    [] op = OP_RETURN -> Err(s, "OP_RETURN")
    [] op = OP_TOALTSTACK ->
         IF N < 1 THEN Bad ELSE [s EXCEPT !.alt = Append(s.alt, At(st, 1)), !.st = Drop(st, 1)]
    [] op = OP_FROMALTSTACK ->
         IF Len(s.alt) < 1 THEN Err(s, "INVALID_ALTSTACK_OPERATION")
         ELSE [s EXCEPT !.st = Append(st, s.alt[Len(s.alt)]), !.alt = SubSeq(s.alt, 1, Len(s.alt) - 1)]
    [] op = OP_2DROP -> IF N < 2 THEN Bad ELSE [s EXCEPT !.st = Drop(st, 2)]
    [] op = OP_2DUP -> IF N < 2 THEN Bad ELSE [s EXCEPT !.st = st \o <<At(st, 2), At(st, 1)>>]
    [] op = OP_3DUP -> IF N < 3 THEN Bad ELSE [s EXCEPT !.st = st \o <<At(st, 3), At(st, 2), At(st, 1)>>]
    [] op = OP_2OVER -> IF N < 4 THEN Bad ELSE [s EXCEPT !.st = st \o <<At(st, 4), At(st, 3)>>]
    [] op = OP_2ROT -> IF N < 6 THEN Bad
                       ELSE [s EXCEPT !.st = Drop(st, 6) \o <<At(st, 4), At(st, 3), At(st, 2), At(st, 1), At(st, 6), At(st, 5)>>]
    [] op = OP_2SWAP -> IF N < 4 THEN Bad ELSE [s EXCEPT !.st = Drop(st, 4) \o <<At(st, 2), At(st, 1), At(st, 4), At(st, 3)>>]
    [] op = OP_IFDUP -> IF N < 1 THEN Bad ELSE IF CastToBool(At(st, 1)) THEN [s EXCEPT !.st = Append(st, At(st, 1))] ELSE s
    [] op = OP_DEPTH -> [s EXCEPT !.st = Append(st, VchOf(NOfInt(N)))]
    [] op = OP_DROP -> IF N < 1 THEN Bad ELSE [s EXCEPT !.st = Drop(st, 1)]
    [] op = OP_DUP -> IF N < 1 THEN Bad ELSE [s EXCEPT !.st = Append(st, At(st, 1))]
    [] op = OP_NIP -> IF N < 2 THEN Bad ELSE [s EXCEPT !.st = Append(Drop(st, 2), At(st, 1))]
    [] op = OP_OVER -> IF N < 2 THEN Bad ELSE [s EXCEPT !.st = Append(st, At(st, 2))]
    [] op = OP_PICK \/ op = OP_ROLL ->
         IF N < 2 THEN Bad
         ELSE IF ~NumArgOK(At(st, 1), F, 4) THEN Err(s, "SCRIPTNUM")
         ELSE LET n == Small(NumOf(At(st, 1)))
                  rest == Drop(st, 1)
              IN IF n < 0 \/ n >= Len(rest) THEN Err([s EXCEPT !.st = rest], "INVALID_STACK_OPERATION")
                 ELSE LET x == At(rest, n + 1) IN
                      IF op = OP_PICK THEN [s EXCEPT !.st = Append(rest, x)]
                      ELSE [s EXCEPT !.st = SubSeq(rest, 1, Len(rest) - n - 1) \o SubSeq(rest, Len(rest) - n + 1, Len(rest)) \o <<x>>]
    [] op = OP_ROT -> IF N < 3 THEN Bad ELSE [s EXCEPT !.st = Drop(st, 3) \o <<At(st, 2), At(st, 1), At(st, 3)>>]
    [] op = OP_SWAP -> IF N < 2 THEN Bad ELSE [s EXCEPT !.st = Drop(st, 2) \o <<At(st, 1), At(st, 2)>>]
    [] op = OP_TUCK -> IF N < 2 THEN Bad ELSE [s EXCEPT !.st = Drop(st, 2) \o <<At(st, 1), At(st, 2), At(st, 1)>>]
    [] op = OP_SIZE -> IF N < 1 THEN Bad ELSE [s EXCEPT !.st = Append(st, VchOf(NOfInt(BLen(At(st, 1)))))]
    [] op = OP_EQUAL \/ op = OP_EQUALVERIFY ->
         IF N < 2 THEN Bad
         ELSE LET eq == At(st, 2) = At(st, 1) IN
              IF op = OP_EQUAL THEN [s EXCEPT !.st = Append(Drop(st, 2), VBool(eq))]
              ELSE IF eq THEN [s EXCEPT !.st = Drop(st, 2)]
              ELSE Err([s EXCEPT !.st = Append(Drop(st, 2), VFalse)], "EQUALVERIFY")
    [] op \in {OP_1ADD, OP_1SUB, OP_NEGATE, OP_ABS, OP_NOT, OP_0NOTEQUAL} ->
         IF N < 1 THEN Bad
         ELSE IF ~NumArgOK(At(st, 1), F, 4) THEN Err(s, "SCRIPTNUM")
         ELSE [s EXCEPT !.st = Append(Drop(st, 1), VchOf(Unary(op, NumOf(At(st, 1)))))]
    [] op \in {OP_ADD, OP_SUB, OP_BOOLAND, OP_BOOLOR, OP_NUMEQUAL, OP_NUMEQUALVERIFY, OP_NUMNOTEQUAL, OP_LESSTHAN,
               OP_GREATERTHAN, OP_LESSTHANOREQUAL, OP_GREATERTHANOREQUAL, OP_MIN, OP_MAX} ->
         IF N < 2 THEN Bad
         ELSE IF ~NumArgOK(At(st, 2), F, 4) \/ ~NumArgOK(At(st, 1), F, 4) THEN Err(s, "SCRIPTNUM")
         ELSE LET r == VchOf(Binary(op, NumOf(At(st, 2)), NumOf(At(st, 1)))) IN
              IF op # OP_NUMEQUALVERIFY THEN [s EXCEPT !.st = Append(Drop(st, 2), r)]
              ELSE IF CastToBool(r) THEN [s EXCEPT !.st = Drop(st, 2)]
              ELSE Err([s EXCEPT !.st = Append(Drop(st, 2), r)], "NUMEQUALVERIFY")
    [] op = OP_WITHIN ->
         IF N < 3 THEN Bad
         ELSE IF ~NumArgOK(At(st, 3), F, 4) \/ ~NumArgOK(At(st, 2), F, 4) \/ ~NumArgOK(At(st, 1), F, 4) THEN Err(s, "SCRIPTNUM")
         ELSE LET x == NumOf(At(st, 3))  lo == NumOf(At(st, 2))  hi == NumOf(At(st, 1)) IN
              [s EXCEPT !.st = Append(Drop(st, 3), VBool(NCmp(lo, x) <= 0 /\ NCmp(x, hi) < 0))]
    [] op \in {OP_RIPEMD160, OP_SHA1, OP_SHA256, OP_HASH160, OP_HASH256} ->
         IF N < 1 THEN Bad ELSE [s EXCEPT !.st = Append(Drop(st, 1), HashOf(op, At(st, 1)))]
    [] op = OP_CODESEPARATOR -> [s EXCEPT !.cs = s.pc, !.cspos = s.opi]
    [] op = OP_CHECKSIG \/ op = OP_CHECKSIGVERIFY ->
         IF N < 2 THEN Bad
         ELSE LET r == EvalChecksig(sc, s, e, At(st, 2), At(st, 1))
                  s2 == [s EXCEPT !.wl = r.wl]
              IN IF r.err # "" THEN Err(s2, r.err)
                 ELSE IF op = OP_CHECKSIG THEN [s2 EXCEPT !.st = Append(Drop(st, 2), VBool(r.ok))]
                 ELSE IF r.ok THEN [s2 EXCEPT !.st = Drop(st, 2)]
                 ELSE Err([s2 EXCEPT !.st = Append(Drop(st, 2), VFalse)], "CHECKSIGVERIFY")
    [] op = OP_CHECKSIGADD ->
         IF e.sv # "TAPSCRIPT" THEN Err(s, "BAD_OPCODE")
         ELSE IF N < 3 THEN Bad
         ELSE IF ~NumArgOK(At(st, 2), F, 4) THEN Err(s, "SCRIPTNUM")
         ELSE LET r == EvalChecksig(sc, s, e, At(st, 3), At(st, 1))
                  s2 == [s EXCEPT !.wl = r.wl]
              IN IF r.err # "" THEN Err(s2, r.err)
                 ELSE [s2 EXCEPT !.st = Append(Drop(st, 3), VchOf(NAdd(NumOf(At(st, 2)), NBool(r.ok))))]
    [] op = OP_CHECKMULTISIG \/ op = OP_CHECKMULTISIGVERIFY -> ExecMultisig(sc, s, e, op)
    [] OTHER -> Err(s, "BAD_OPCODE")

Step(sc, s, e) ==
  LET fExec == \A i \in 1..Len(s.cond) : s.cond[i]
      r == ReadOp(sc, s.pc)
  IN
  IF r.gap THEN Err(s, "MODEL_GAP")
  ELSE IF ~r.ok THEN Err(s, "BAD_OPCODE")
  ELSE IF BLen(r.data) > MAX_ELEM THEN Err(s, "PUSH_SIZE")
  ELSE LET op == r.op
           ops1 == IF e.sv # "TAPSCRIPT" /\ op > OP_16 THEN s.ops + 1 ELSE s.ops
       IN
  IF ops1 > MAX_OPS THEN Err(s, "OP_COUNT")
  ELSE IF op \in DisabledOps THEN Err(s, "DISABLED_OPCODE")
  ELSE IF op = OP_CODESEPARATOR /\ e.sv = "BASE" /\ "CONST_SCRIPTCODE" \in e.F THEN Err(s, "OP_CODESEPARATOR")
  ELSE LET s1 == [s EXCEPT !.ops = ops1, !.pc = r.next, !.opi = s.opi + 1]
           s2 == IF fExec /\ op <= OP_PUSHDATA4
                 THEN (IF "MINIMALDATA" \in e.F /\ ~CheckMinimalPush(r.data, op) THEN Err(s1, "MINIMALDATA")
                       ELSE [s1 EXCEPT !.st = Append(s1.st, r.data)])
                 ELSE IF fExec \/ (op >= OP_IF /\ op <= OP_ENDIF) THEN Exec(sc, s1, e, op, fExec, s.pc)
                 ELSE s1
       IN IF s2.err = "" /\ Len(s2.st) + Len(s2.alt) > MAX_STACK THEN Err(s2, "STACK_SIZE") ELSE s2

RECURSIVE Run(_, _, _)
Run(sc, s, e) == IF s.err # "" \/ s.pc > Len(sc) THEN s ELSE Run(sc, Step(sc, s, e), e)

\* EvalScript(stack, script, flags, checker, sigversion, execdata): [err ("" = success), st, wl]
EvalScript(st0, sc, e, wl0) ==
  IF e.sv # "TAPSCRIPT" /\ BLen(sc) > MAX_SCRIPT THEN [err |-> "SCRIPT_SIZE", st |-> st0, wl |-> wl0]
  ELSE LET s == Run(sc, S0(st0, wl0), e) IN
       IF s.err # "" THEN [err |-> s.err, st |-> s.st, wl |-> s.wl]
       ELSE IF s.cond # <<>> THEN [err |-> "UNBALANCED_CONDITIONAL", st |-> s.st, wl |-> s.wl]
       ELSE [err |-> "", st |-> s.st, wl |-> s.wl]

\* --------------------------------------------------------------- VerifyScript
\* execution contexts of signatures
CTX_SIG == 9        \* the scriptSig itself
CTX_SPK == 0
CTX_REDEEM == 1
CTX_WSH == 2
CTX_WPKH == 3
CTX_TAPKEY == 4
CTX_TAPSCRIPT == 5

IsP2SH(spk) == /\ BLen(spk) = 23 /\ spk[1] = OP_HASH160 /\ spk[2] = 20
               /\ LET q == Take(spk, 3, 20) IN q > 0 /\ q = Len(spk) /\ spk[q] = OP_EQUAL
\* [ok, ver, prog]
WitnessProgram(sc) ==
  LET n == BLen(sc) IN
  IF n < 4 \/ n > 42 \/ sc[1] < 0 \/ sc[2] < 0 THEN [ok |-> FALSE, ver |-> 0, prog |-> <<>>]
  ELSE IF sc[1] # OP_0 /\ (sc[1] < OP_1 \/ sc[1] > OP_16) THEN [ok |-> FALSE, ver |-> 0, prog |-> <<>>]
  ELSE IF sc[2] + 2 = n THEN [ok |-> TRUE, ver |-> IF sc[1] = 0 THEN 0 ELSE sc[1] - 80, prog |-> SubSeq(sc, 3, Len(sc))]
  ELSE [ok |-> FALSE, ver |-> 0, prog |-> <<>>]

\* serialized size of the witness stack (compact size of the count + per item compact size + bytes)
CompactLen(n) == IF n < 253 THEN 1 ELSE IF n <= 65535 THEN 3 ELSE 5
RECURSIVE WitSerFrom(_, _)
WitSerFrom(w, i) == IF i > Len(w) THEN 0 ELSE CompactLen(BLen(w[i])) + BLen(w[i]) + WitSerFrom(w, i + 1)
WitnessSerSize(w) == CompactLen(Len(w)) + WitSerFrom(w, 1)

RECURSIVE HasSuccessFrom(_, _)
\* the OP_SUCCESS pre-scan of ExecuteWitnessScript: "success" | "bad" (undecodable before any OP_SUCCESS) | "none"
HasSuccessFrom(sc, p) == IF p > Len(sc) THEN "none"
                         ELSE LET r == ReadOp(sc, p) IN
                              IF r.gap THEN "gap" ELSE IF ~r.ok THEN "bad" ELSE IF IsOpSuccess(r.op) THEN "success" ELSE HasSuccessFrom(sc, r.next)

ExecuteWitnessScript(stack, sc, e, wl0) ==
  LET pre == IF e.sv = "TAPSCRIPT" THEN HasSuccessFrom(sc, 1) ELSE "none" IN
  IF pre = "gap" THEN "MODEL_GAP"
  ELSE IF pre = "bad" THEN "BAD_OPCODE"
  ELSE IF pre = "success" THEN (IF "DISCOURAGE_OP_SUCCESS" \in e.F THEN "DISCOURAGE_OP_SUCCESS" ELSE "")
  ELSE IF e.sv = "TAPSCRIPT" /\ Len(stack) > MAX_STACK THEN "STACK_SIZE"
  ELSE IF \E i \in 1..Len(stack) : BLen(stack[i]) > MAX_ELEM THEN "PUSH_SIZE"
  ELSE LET r == EvalScript(stack, sc, e, wl0) IN
       IF r.err # "" THEN r.err
       ELSE IF Len(r.st) # 1 THEN "CLEANSTACK"
       ELSE IF ~CastToBool(r.st[1]) THEN "EVAL_FALSE"
       ELSE ""

\* the taproot commitment: program = TapOut(internal key id, merkle root of (leaf, path))
RECURSIVE MerkleUp(_, _, _)
RECURSIVE LexLE(_, _, _)
LexLE(a, b, i) == IF i > Len(a) THEN TRUE ELSE IF i > Len(b) THEN FALSE
                  ELSE IF a[i] < b[i] THEN TRUE ELSE IF a[i] > b[i] THEN FALSE ELSE LexLE(a, b, i + 1)
\* TapBranch is symmetric (the real one sorts the two hashes); the model sorts the two terms by their representation
TapBranch(a, b) == IF LexLE(a, b, 1) THEN Sym(T_TAPBR, PushCanon(a) \o PushCanon(b)) ELSE Sym(T_TAPBR, PushCanon(b) \o PushCanon(a))
MerkleUp(k, path, i) == IF i > Len(path) THEN k ELSE MerkleUp(TapBranch(k, path[i]), path, i + 1)
TapLeaf(leafver, sc) == Sym(T_TAPLEAF, <<leafver>> \o sc)
TapOut(id, root) == Sym(T_TAPOUT, <<id, 1>> \o root)
TapOutKeyOnly(id) == Sym(T_TAPOUT, <<id, 0>>)
\* control block: Sym(T_CTRL, <<leafver, parityok, id, npath>> \o node_1 \o ... ) where every node is a 32-byte vector given as PushCanon(node)
RECURSIVE CtrlPath(_, _, _)
CtrlPath(pl, p, k) == IF k = 0 THEN <<>> ELSE LET r == ReadOp(pl, p) IN <<r.data>> \o CtrlPath(pl, r.next, k - 1)

VerifyWitnessProgram(wit, ver, prog, e0, isP2SH) ==
  LET F == e0.F IN
  IF ver = 0 THEN
    IF BLen(prog) = 32 THEN
      IF Len(wit) = 0 THEN "WITNESS_PROGRAM_WITNESS_EMPTY"
      ELSE LET sc == wit[Len(wit)] IN
           IF Sha256(sc) # prog THEN "WITNESS_PROGRAM_MISMATCH"
           ELSE ExecuteWitnessScript(SubSeq(wit, 1, Len(wit) - 1), sc, [e0 EXCEPT !.sv = "WITNESS_V0", !.ctx = CTX_WSH], 0)
    ELSE IF BLen(prog) = 20 THEN
      IF Len(wit) # 2 THEN "WITNESS_PROGRAM_MISMATCH"
      ELSE ExecuteWitnessScript(wit, <<OP_DUP, OP_HASH160, 20>> \o prog \o <<OP_EQUALVERIFY, OP_CHECKSIG>>,
                                [e0 EXCEPT !.sv = "WITNESS_V0", !.ctx = CTX_WPKH], 0)
    ELSE "WITNESS_PROGRAM_WRONG_LENGTH"
  ELSE IF ver = 1 /\ BLen(prog) = 32 /\ ~isP2SH THEN
    IF "TAPROOT" \notin F THEN ""
    ELSE IF Len(wit) = 0 THEN "WITNESS_PROGRAM_WITNESS_EMPTY"
    ELSE LET hasAnnex == Len(wit) >= 2 /\ BLen(wit[Len(wit)]) > 0 /\ FirstByte(wit[Len(wit)]) = 80
             w == IF hasAnnex THEN SubSeq(wit, 1, Len(wit) - 1) ELSE wit
             \* the annex is committed to by every signature: context + 100
             ax == IF hasAnnex THEN 100 ELSE 0
         IN
         IF Len(w) = 1 THEN CheckSchnorr(w[1], prog, [e0 EXCEPT !.ctx = CTX_TAPKEY + ax], 0, "TAPROOT")
         ELSE LET ctrl == w[Len(w)]
                  sc == w[Len(w) - 1]
                  cl == BLen(ctrl)
              IN
              IF cl < 33 \/ cl > 33 + 32 * 128 \/ (cl - 33) % 32 # 0 THEN "TAPROOT_WRONG_CONTROL_SIZE"
              ELSE IF ~IsTag(ctrl, T_CTRL) THEN "WITNESS_PROGRAM_MISMATCH"      \* literal bytes are not a commitment opening
              ELSE LET leafver == ctrl[3]
                       root == MerkleUp(TapLeaf(leafver, sc), CtrlPath(SubSeq(ctrl, 7, Len(ctrl)), 1, ctrl[6]), 1)
                   IN
                   IF ctrl[4] # 1 \/ TapOut(ctrl[5], root) # prog THEN "WITNESS_PROGRAM_MISMATCH"
                   ELSE IF leafver = 192 THEN
                     ExecuteWitnessScript(SubSeq(w, 1, Len(w) - 2), sc, [e0 EXCEPT !.sv = "TAPSCRIPT", !.ctx = CTX_TAPSCRIPT + ax],
                                          WitnessSerSize(wit) + 50)
                   ELSE IF "DISCOURAGE_UPGRADABLE_TAPROOT_VERSION" \in F THEN "DISCOURAGE_UPGRADABLE_TAPROOT_VERSION"
                   ELSE ""
  ELSE IF ~isP2SH /\ ver = 1 /\ prog = <<78, 115>> THEN ""          \* pay-to-anchor
  ELSE IF "DISCOURAGE_UPGRADABLE_WITNESS_PROGRAM" \in F THEN "DISCOURAGE_UPGRADABLE_WITNESS_PROGRAM"
  ELSE ""

\* VerifyScript(scriptSig, scriptPubKey, witness, flags, checker): "" or the error
VerifyScript(ssig, spk, wit, F, tx) ==
  LET eb == [F |-> F, sv |-> "BASE", ctx |-> CTX_SIG, tx |-> tx] IN
  IF "SIGPUSHONLY" \in F /\ ~IsPushOnly(ssig) THEN "SIG_PUSHONLY"
  ELSE LET r1 == EvalScript(<<>>, ssig, eb, 0) IN
  IF r1.err # "" THEN r1.err
  ELSE LET r2 == EvalScript(r1.st, spk, [eb EXCEPT !.ctx = CTX_SPK], 0) IN
  IF r2.err # "" THEN r2.err
  ELSE IF r2.st = <<>> \/ ~CastToBool(At(r2.st, 1)) THEN "EVAL_FALSE"
  ELSE LET wp == WitnessProgram(spk)
           bare == "WITNESS" \in F /\ wp.ok
           ew == IF ~bare THEN ""
                 ELSE IF ssig # <<>> THEN "WITNESS_MALLEATED"
                 ELSE VerifyWitnessProgram(wit, wp.ver, wp.prog, eb, FALSE)
       IN
  IF ew # "" THEN ew
  ELSE LET st3 == IF bare THEN SubSeq(r2.st, 1, 1) ELSE r2.st
           p2sh == "P2SH" \in F /\ IsP2SH(spk)
       IN
  IF p2sh /\ ~IsPushOnly(ssig) THEN "SIG_PUSHONLY"
  ELSE LET redeem == IF p2sh THEN At(r1.st, 1) ELSE <<>>
           r3 == IF p2sh THEN EvalScript(Drop(r1.st, 1), redeem, [eb EXCEPT !.ctx = CTX_REDEEM], 0) ELSE [err |-> "", st |-> st3, wl |-> 0]
       IN
  IF r3.err # "" THEN r3.err
  ELSE IF p2sh /\ (r3.st = <<>> \/ ~CastToBool(At(r3.st, 1))) THEN "EVAL_FALSE"
  ELSE LET wp2 == IF p2sh THEN WitnessProgram(redeem) ELSE [ok |-> FALSE, ver |-> 0, prog |-> <<>>]
           nested == p2sh /\ "WITNESS" \in F /\ wp2.ok
           ew2 == IF ~nested THEN ""
                  ELSE IF ssig # PushCanon(redeem) THEN "WITNESS_MALLEATED_P2SH"
                  ELSE VerifyWitnessProgram(wit, wp2.ver, wp2.prog, eb, TRUE)
       IN
  IF ew2 # "" THEN ew2
  ELSE LET st4 == IF nested THEN SubSeq(r3.st, 1, 1) ELSE r3.st IN
  IF "CLEANSTACK" \in F /\ Len(st4) # 1 THEN "CLEANSTACK"
  ELSE IF "WITNESS" \in F /\ ~bare /\ ~nested /\ wit # <<>> THEN "WITNESS_UNEXPECTED"
  ELSE ""

\* flag combinations VerifyScript may be called with (its assertions): CLEANSTACK needs P2SH and WITNESS, WITNESS needs P2SH
ValidFlags(F) == /\ ("CLEANSTACK" \in F => ("P2SH" \in F /\ "WITNESS" \in F))
                 /\ ("WITNESS" \in F => "P2SH" \in F)
=============================================================================
