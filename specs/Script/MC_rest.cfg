INIT InitRest
NEXT Next
INVARIANTS NoGap EmitRow
CHECK_DEADLOCK FALSE
