SPECIFICATION Spec
CONSTANTS
  MaxOps = 2
  OpKinds = {"tip", "add", "int", "tick"}
  TickAmounts = {1, 1201}
  Timeouts = {0, 2, 1000000}
  Thresholds = {1000, 1001, 999999999}
  Ages = {0, 1199, 1300}
  PrevFeeSet <- PFSmall
  AddFee = 1000
  Strict = FALSE
  Calls = 1
  FinalInterrupt = TRUE
  AllowInvalidate = FALSE
INVARIANTS TypeOK ParentIsCurrentTip NeverOlderThanTrigger SameTipNeedsFees NullOnlyAfterTimeoutOrInterrupt EmitOutcome
CHECK_DEADLOCK FALSE
