SPECIFICATION Spec
CONSTANTS
  MaxOps = 2
  OpKinds = {"tip", "add", "tick"}
  TickAmounts = {1}
  Timeouts = {0, 2}
  Thresholds = {1, 1000, 1001}
  Ages = {0}
  PrevFeeSet <- PFWide
  AddFee = 1000
  Strict = TRUE
  Calls = 1
  FinalInterrupt = TRUE
  AllowInvalidate = FALSE
INVARIANTS TypeOK ParentIsCurrentTip NeverOlderThanTrigger SameTipNeedsFees NullOnlyAfterTimeoutOrInterrupt EmitOutcome
CHECK_DEADLOCK FALSE
