SPECIFICATION Spec
CONSTANTS
  MaxOps = 2
  OpKinds = {"tip", "add", "int", "tick"}
  TickAmounts = {1}
  Timeouts = {1000000}
  Thresholds = {1000}
  Ages = {0}
  PrevFeeSet <- PFSmall
  AddFee = 1000
  Strict = TRUE
  Calls = 1
  FinalInterrupt = TRUE
  AllowInvalidate = TRUE
INVARIANTS TypeOK ParentIsCurrentTip NeverOlderThanTrigger SameTipNeedsFees NullOnlyAfterTimeoutOrInterrupt 
CHECK_DEADLOCK FALSE
