SPECIFICATION Spec
CONSTANTS
  MaxOps = 2
  OpKinds = {"tip", "add", "int", "tick"}
  TickAmounts = {1, 1201}
  Timeouts = {2, 1000000}
  Thresholds = {1000, 999999999}
  Ages = {0}
  PrevFeeSet <- PFSmall
  AddFee = 1000
  Strict = TRUE
  Calls = 1
  FinalInterrupt = FALSE
  AllowInvalidate = FALSE
INVARIANTS TypeOK ParentIsCurrentTip NeverOlderThanTrigger SameTipNeedsFees NullOnlyAfterTimeoutOrInterrupt 
CHECK_DEADLOCK FALSE
PROPERTY TipChangeYieldsReturn
