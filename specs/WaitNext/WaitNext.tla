---- MODULE WaitNext ----
(***************************************************************************)
(* C65: BlockTemplate::waitNext = node::WaitAndCreateNewBlock               *)
(* (src/node/miner.cpp), one label per critical section of the code:       *)
(*   w1  wait_until(min(now + tick, deadline), pred) on the kernel         *)
(*       notifications' tip-block condition variable, under                *)
(*       m_tip_block_mutex: pred = tip block differs from the previous     *)
(*       template's parent, or interrupted; the interrupt flag is consumed *)
(*       here (and wins over a tip change)                                 *)
(*   w2  under cs_main: the 20-minute min-difficulty rule (evaluated with  *)
(*       the time read BEFORE the wait), CreateNewBlock on the active tip, *)
(*       return it if the tip changed or fees >= previous + threshold      *)
(*   w3  re-read the clock, compare with the deadline                      *)
(* against a driver thread performing a schedule of operations:            *)
(*   tip   a block is connected (ActivateBestChain: under cs_main the      *)
(*         chain tip moves, THEN the blockTip notification sets the tip    *)
(*         block and notifies; cs_main is released afterwards)             *)
(*   add   a transaction paying AddFee enters the mempool (under cs_main)  *)
(*   int   BlockTemplate::interruptWait (sticky flag + notify)             *)
(*   tick  the mock clock advances                                         *)
(* The harness numbers the start and the return of the call and the        *)
(* completion of every driver operation; hist is that log. What happens    *)
(* inside the call is not logged: TLC enumerates every interleaving and    *)
(* prints, per terminal state, the log up to the return (EmitOutcome): the *)
(* set of (schedule, outcome) pairs the design admits.                     *)
(* Time: seconds of the mock clock since the previous template was made;   *)
(* tips: number of blocks connected since then (0 = the previous           *)
(* template's parent).  Fees are WIDE values [q, r] = q * 10^9 + r         *)
(* satoshi (TLC's integers are 32 bit and an overflow is an error): the    *)
(* previous template's total may lie below 2^31, in [2^31, 2^32) or above  *)
(* 2^32 satoshi, and "fees >= previous fees + threshold" is decided on     *)
(* exact sums.                                                             *)
(***************************************************************************)
EXTENDS Integers, Sequences, FiniteSets, TLC, VF
CONSTANTS MaxOps,          \* operations of a schedule
          OpKinds,         \* subset of {"tip", "add", "int", "tick"}
          TickAmounts,     \* seconds a tick operation may add
          Timeouts,        \* timeouts in seconds; Inf = none
          Thresholds,      \* fee thresholds; MaxMoney = tip changes only
          Ages,            \* age of the tip (its block time) when the previous template is made
          PrevFeeSet,      \* classes of the previous template's total fees (= of the mempool at the start), wide values
          AddFee,
          Strict,          \* TRUE: exactly what the code does. FALSE: where the property is silent the model admits every choice: the fee /
                           \* 20-minute check may run at any moment (not only when a tick or the deadline expires) and with the current
                           \* clock instead of the one read before the wait, and when an interrupt and a tip change are both pending either
                           \* may win. The outcomes of the code must be among those of the permissive model (INV mode); the strict model
                           \* is a refinement, used to count by how much the code differs from the modelled design.
          Calls,           \* 1, or 2: after the return the caller calls again on the SAME template object with the same options
          FinalInterrupt,  \* the driver ends every schedule with one interruptWait per call (the harness does, so that every call returns); the
                           \* second one is issued once the first call has returned
          AllowInvalidate  \* extra operation "inv": the tip is invalidated again (not part of C65's quantifier; see MC_invalidate.cfg)
Inf == 1000000
MaxMoney == 999999999
Twenty == 1200
TickLen == 1
Min(a, b) == IF a < b THEN a ELSE b
\* ---- wide amounts
WB == 1000000000
W(q, r) == [q |-> q, r |-> r]
WOf(n) == [q |-> n \div WB, r |-> n % WB]                      \* |n| < 2^31
WZero == W(0, 0)
WAdd(a, b) == LET x == a.r + b.r IN [q |-> a.q + b.q + x \div WB, r |-> x % WB]
WLe(a, b) == a.q < b.q \/ (a.q = b.q /\ a.r <= b.r)
WGe(a, b) == WLe(b, a)
\* fee classes of the previous template: an ordinary one; 2^31 - 500 and 2^32 - 500 (one 1000-satoshi addition crosses the
\* boundary); 22 BTC (in [2^31, 2^32)); 45 BTC (above 2^32)
PFSmall == {W(0, 700)}
PFWide == {W(2, 147483148), W(2, 200000000), W(4, 294966796), W(4, 500000000)}
PFAll == PFSmall \cup PFWide
Ev(e, a, b, c) == [e |-> e, a |-> a, b |-> b, c |-> c]           \* c: a wide amount
OpSet == {[k |-> x, d |-> 0] : x \in OpKinds \cap {"tip", "int"}}
         \cup (IF "add" \in OpKinds THEN {[k |-> "add", d |-> AddFee]} ELSE {})
         \cup (IF "tick" \in OpKinds THEN {[k |-> "tick", d |-> x] : x \in TickAmounts} ELSE {})
         \cup (IF AllowInvalidate THEN {[k |-> "inv", d |-> 0]} ELSE {})
NoOp == [k |-> "none", d |-> 0]
NoRet == [kind |-> "none", parent |-> 0, fees |-> WZero]

(* --algorithm WaitNext {
  variables
    timeout \in Timeouts, threshold \in Thresholds, age \in Ages, prevFees \in PrevFeeSet,
    ncall = 0,
    clock = 0,
    activeTip = 0,            \* tip of the active chain (guarded by cs_main)
    tipTime = 0 - age,        \* its block time
    tipNotified = 0,          \* KernelNotifications: tip block of the last blockTip notification (guarded by m_tip_block_mutex)
    mfees = prevFees,         \* total fees of the template the mempool yields (guarded by cs_main)
    interrupt = FALSE,        \* m_interrupt_wait
    envHolds = FALSE,         \* cs_main is held by the block-connecting thread
    hist = <<>>,              \* the harness log
    pending = NoOp,           \* operation whose effect has begun but whose completion is not logged yet
    nops = 0,
    ret = NoRet,
    outcome = <<>>,           \* frozen at the return: what the harness can see
    \* ghosts for the properties
    trig = -1,                \* tip block seen by the wake-up predicate of the returning iteration
    nullWhy = "none", nInt = 0, deadlineG = 0,
    dec = [clock |-> 0, tipTime |-> 0, tip |-> 0];    \* clock / tip / tip time when the returned template was built

  fair process (waiter = "w")
    variables now = 0, deadline = 0, tipChanged = FALSE;
  {
   s0: hist := Append(hist, Ev("S", 0, 0, WZero));
       ret := NoRet; nullWhy := "none"; trig := -1;
   w0: now := clock;
       deadline := IF timeout = Inf THEN Inf ELSE clock + timeout;
       deadlineG := deadline;
   w1: await (~Strict) \/ tipNotified # 0 \/ interrupt \/ clock >= Min(now + TickLen, deadline);
       tipChanged := (tipNotified # 0);
       trig := tipNotified;
       with (stop \in IF ~interrupt THEN {FALSE} ELSE IF Strict \/ tipNotified = 0 THEN {TRUE} ELSE {TRUE, FALSE}) {
         if (stop) {
           interrupt := FALSE; ret := [kind |-> "null", parent |-> 0, fees |-> WZero]; nullWhy := "interrupt";
           goto r0;
         };
       };
   w2: await ~envHolds;
       with (t \in IF Strict THEN {now} ELSE {now, clock}) {
         if (tipChanged \/ t > tipTime + Twenty \/ (threshold # MaxMoney /\ WGe(mfees, WAdd(prevFees, WOf(threshold))))) {
           ret := [kind |-> "tmpl", parent |-> activeTip, fees |-> mfees];
           dec := [clock |-> clock, tipTime |-> tipTime, tip |-> activeTip];
           goto r0;
         };
       };
   w3: now := clock;
       if (now < deadline) { goto w1; }
       else { ret := [kind |-> "null", parent |-> 0, fees |-> WZero]; nullWhy := "timeout"; };
   r0: hist := Append(hist, Ev("R", IF ret.kind = "tmpl" THEN 1 ELSE 0, ret.parent, ret.fees));
       ncall := ncall + 1;
       if (ncall < Calls) { goto s0; }
       else { outcome := <<[to |-> timeout, th |-> threshold, age |-> age, pf |-> prevFees, h |-> hist, p |-> pending.k]>>; };
  }

  fair process (driver = "d")
    variables op = NoOp;
  {
   d0: while (nops < MaxOps + (IF FinalInterrupt THEN Calls ELSE 0) /\ outcome = <<>>) {
         await nops <= MaxOps \/ ncall >= nops - MaxOps;
         with (o \in IF nops < MaxOps THEN OpSet ELSE {[k |-> "int", d |-> 0]}) {
           op := o; pending := o;
           if (o.k = "tip") {
             envHolds := TRUE; activeTip := activeTip + 1; tipTime := clock;
           } else if (o.k = "inv") {
             await activeTip = 1;
             envHolds := TRUE; activeTip := activeTip - 1; tipTime := 0 - age;
           } else if (o.k = "add") {
             mfees := WAdd(mfees, WOf(o.d));
           } else if (o.k = "int") {
             interrupt := TRUE; nInt := nInt + 1;
           } else {
             clock := clock + o.d;
           };
         };
         if (op.k \notin {"tip", "inv"}) { goto d3; };
   d1:   await outcome = <<>>;          \* (once the call has returned nothing else is observed: the driver is frozen)
         tipNotified := activeTip;      \* blockTip notification, cs_main still held
   d2:   await outcome = <<>>; envHolds := FALSE;
   d3:   await outcome = <<>>;
         hist := Append(hist, Ev(op.k, op.d, 0, WZero)); pending := NoOp; nops := nops + 1;
       };
  }
} *)
\* BEGIN TRANSLATION
VARIABLES pc, timeout, threshold, age, prevFees, ncall, clock, activeTip, 
          tipTime, tipNotified, mfees, interrupt, envHolds, hist, pending, 
          nops, ret, outcome, trig, nullWhy, nInt, deadlineG, dec, now, 
          deadline, tipChanged, op

vars == << pc, timeout, threshold, age, prevFees, ncall, clock, activeTip, 
           tipTime, tipNotified, mfees, interrupt, envHolds, hist, pending, 
           nops, ret, outcome, trig, nullWhy, nInt, deadlineG, dec, now, 
           deadline, tipChanged, op >>

ProcSet == {"w"} \cup {"d"}

Init == (* Global variables *)
        /\ timeout \in Timeouts
        /\ threshold \in Thresholds
        /\ age \in Ages
        /\ prevFees \in PrevFeeSet
        /\ ncall = 0
        /\ clock = 0
        /\ activeTip = 0
        /\ tipTime = 0 - age
        /\ tipNotified = 0
        /\ mfees = prevFees
        /\ interrupt = FALSE
        /\ envHolds = FALSE
        /\ hist = <<>>
        /\ pending = NoOp
        /\ nops = 0
        /\ ret = NoRet
        /\ outcome = <<>>
        /\ trig = -1
        /\ nullWhy = "none"
        /\ nInt = 0
        /\ deadlineG = 0
        /\ dec = [clock |-> 0, tipTime |-> 0, tip |-> 0]
        (* Process waiter *)
        /\ now = 0
        /\ deadline = 0
        /\ tipChanged = FALSE
        (* Process driver *)
        /\ op = NoOp
        /\ pc = [self \in ProcSet |-> CASE self = "w" -> "s0"
                                        [] self = "d" -> "d0"]

s0 == /\ pc["w"] = "s0"
      /\ hist' = Append(hist, Ev("S", 0, 0, WZero))
      /\ ret' = NoRet
      /\ nullWhy' = "none"
      /\ trig' = -1
      /\ pc' = [pc EXCEPT !["w"] = "w0"]
      /\ UNCHANGED << timeout, threshold, age, prevFees, ncall, clock, 
                      activeTip, tipTime, tipNotified, mfees, interrupt, 
                      envHolds, pending, nops, outcome, nInt, deadlineG, dec, 
                      now, deadline, tipChanged, op >>

w0 == /\ pc["w"] = "w0"
      /\ now' = clock
      /\ deadline' = (IF timeout = Inf THEN Inf ELSE clock + timeout)
      /\ deadlineG' = deadline'
      /\ pc' = [pc EXCEPT !["w"] = "w1"]
      /\ UNCHANGED << timeout, threshold, age, prevFees, ncall, clock, 
                      activeTip, tipTime, tipNotified, mfees, interrupt, 
                      envHolds, hist, pending, nops, ret, outcome, trig, 
                      nullWhy, nInt, dec, tipChanged, op >>

w1 == /\ pc["w"] = "w1"
      /\ (~Strict) \/ tipNotified # 0 \/ interrupt \/ clock >= Min(now + TickLen, deadline)
      /\ tipChanged' = (tipNotified # 0)
      /\ trig' = tipNotified
      /\ \E stop \in IF ~interrupt THEN {FALSE} ELSE IF Strict \/ tipNotified = 0 THEN {TRUE} ELSE {TRUE, FALSE}:
           IF stop
              THEN /\ interrupt' = FALSE
                   /\ ret' = [kind |-> "null", parent |-> 0, fees |-> WZero]
                   /\ nullWhy' = "interrupt"
                   /\ pc' = [pc EXCEPT !["w"] = "r0"]
              ELSE /\ pc' = [pc EXCEPT !["w"] = "w2"]
                   /\ UNCHANGED << interrupt, ret, nullWhy >>
      /\ UNCHANGED << timeout, threshold, age, prevFees, ncall, clock, 
                      activeTip, tipTime, tipNotified, mfees, envHolds, hist, 
                      pending, nops, outcome, nInt, deadlineG, dec, now, 
                      deadline, op >>

w2 == /\ pc["w"] = "w2"
      /\ ~envHolds
      /\ \E t \in IF Strict THEN {now} ELSE {now, clock}:
           IF tipChanged \/ t > tipTime + Twenty \/ (threshold # MaxMoney /\ WGe(mfees, WAdd(prevFees, WOf(threshold))))
              THEN /\ ret' = [kind |-> "tmpl", parent |-> activeTip, fees |-> mfees]
                   /\ dec' = [clock |-> clock, tipTime |-> tipTime, tip |-> activeTip]
                   /\ pc' = [pc EXCEPT !["w"] = "r0"]
              ELSE /\ pc' = [pc EXCEPT !["w"] = "w3"]
                   /\ UNCHANGED << ret, dec >>
      /\ UNCHANGED << timeout, threshold, age, prevFees, ncall, clock, 
                      activeTip, tipTime, tipNotified, mfees, interrupt, 
                      envHolds, hist, pending, nops, outcome, trig, nullWhy, 
                      nInt, deadlineG, now, deadline, tipChanged, op >>

w3 == /\ pc["w"] = "w3"
      /\ now' = clock
      /\ IF now' < deadline
            THEN /\ pc' = [pc EXCEPT !["w"] = "w1"]
                 /\ UNCHANGED << ret, nullWhy >>
            ELSE /\ ret' = [kind |-> "null", parent |-> 0, fees |-> WZero]
                 /\ nullWhy' = "timeout"
                 /\ pc' = [pc EXCEPT !["w"] = "r0"]
      /\ UNCHANGED << timeout, threshold, age, prevFees, ncall, clock, 
                      activeTip, tipTime, tipNotified, mfees, interrupt, 
                      envHolds, hist, pending, nops, outcome, trig, nInt, 
                      deadlineG, dec, deadline, tipChanged, op >>

r0 == /\ pc["w"] = "r0"
      /\ hist' = Append(hist, Ev("R", IF ret.kind = "tmpl" THEN 1 ELSE 0, ret.parent, ret.fees))
      /\ ncall' = ncall + 1
      /\ IF ncall' < Calls
            THEN /\ pc' = [pc EXCEPT !["w"] = "s0"]
                 /\ UNCHANGED outcome
            ELSE /\ outcome' = <<[to |-> timeout, th |-> threshold, age |-> age, pf |-> prevFees, h |-> hist', p |-> pending.k]>>
                 /\ pc' = [pc EXCEPT !["w"] = "Done"]
      /\ UNCHANGED << timeout, threshold, age, prevFees, clock, activeTip, 
                      tipTime, tipNotified, mfees, interrupt, envHolds, 
                      pending, nops, ret, trig, nullWhy, nInt, deadlineG, dec, 
                      now, deadline, tipChanged, op >>

waiter == s0 \/ w0 \/ w1 \/ w2 \/ w3 \/ r0

d0 == /\ pc["d"] = "d0"
      /\ IF nops < MaxOps + (IF FinalInterrupt THEN Calls ELSE 0) /\ outcome = <<>>
            THEN /\ nops <= MaxOps \/ ncall >= nops - MaxOps
                 /\ \E o \in IF nops < MaxOps THEN OpSet ELSE {[k |-> "int", d |-> 0]}:
                      /\ op' = o
                      /\ pending' = o
                      /\ IF o.k = "tip"
                            THEN /\ envHolds' = TRUE
                                 /\ activeTip' = activeTip + 1
                                 /\ tipTime' = clock
                                 /\ UNCHANGED << clock, mfees, interrupt, nInt >>
                            ELSE /\ IF o.k = "inv"
                                       THEN /\ activeTip = 1
                                            /\ envHolds' = TRUE
                                            /\ activeTip' = activeTip - 1
                                            /\ tipTime' = 0 - age
                                            /\ UNCHANGED << clock, mfees, 
                                                            interrupt, nInt >>
                                       ELSE /\ IF o.k = "add"
                                                  THEN /\ mfees' = WAdd(mfees, WOf(o.d))
                                                       /\ UNCHANGED << clock, 
                                                                       interrupt, 
                                                                       nInt >>
                                                  ELSE /\ IF o.k = "int"
                                                             THEN /\ interrupt' = TRUE
                                                                  /\ nInt' = nInt + 1
                                                                  /\ clock' = clock
                                                             ELSE /\ clock' = clock + o.d
                                                                  /\ UNCHANGED << interrupt, 
                                                                                  nInt >>
                                                       /\ mfees' = mfees
                                            /\ UNCHANGED << activeTip, tipTime, 
                                                            envHolds >>
                 /\ IF op'.k \notin {"tip", "inv"}
                       THEN /\ pc' = [pc EXCEPT !["d"] = "d3"]
                       ELSE /\ pc' = [pc EXCEPT !["d"] = "d1"]
            ELSE /\ pc' = [pc EXCEPT !["d"] = "Done"]
                 /\ UNCHANGED << clock, activeTip, tipTime, mfees, interrupt, 
                                 envHolds, pending, nInt, op >>
      /\ UNCHANGED << timeout, threshold, age, prevFees, ncall, tipNotified, 
                      hist, nops, ret, outcome, trig, nullWhy, deadlineG, dec, 
                      now, deadline, tipChanged >>

d1 == /\ pc["d"] = "d1"
      /\ outcome = <<>>
      /\ tipNotified' = activeTip
      /\ pc' = [pc EXCEPT !["d"] = "d2"]
      /\ UNCHANGED << timeout, threshold, age, prevFees, ncall, clock, 
                      activeTip, tipTime, mfees, interrupt, envHolds, hist, 
                      pending, nops, ret, outcome, trig, nullWhy, nInt, 
                      deadlineG, dec, now, deadline, tipChanged, op >>

d2 == /\ pc["d"] = "d2"
      /\ outcome = <<>>
      /\ envHolds' = FALSE
      /\ pc' = [pc EXCEPT !["d"] = "d3"]
      /\ UNCHANGED << timeout, threshold, age, prevFees, ncall, clock, 
                      activeTip, tipTime, tipNotified, mfees, interrupt, hist, 
                      pending, nops, ret, outcome, trig, nullWhy, nInt, 
                      deadlineG, dec, now, deadline, tipChanged, op >>

d3 == /\ pc["d"] = "d3"
      /\ outcome = <<>>
      /\ hist' = Append(hist, Ev(op.k, op.d, 0, WZero))
      /\ pending' = NoOp
      /\ nops' = nops + 1
      /\ pc' = [pc EXCEPT !["d"] = "d0"]
      /\ UNCHANGED << timeout, threshold, age, prevFees, ncall, clock, 
                      activeTip, tipTime, tipNotified, mfees, interrupt, 
                      envHolds, ret, outcome, trig, nullWhy, nInt, deadlineG, 
                      dec, now, deadline, tipChanged, op >>

driver == d0 \/ d1 \/ d2 \/ d3

(* Allow infinite stuttering to prevent deadlock on termination. *)
Terminating == /\ \A self \in ProcSet: pc[self] = "Done"
               /\ UNCHANGED vars

Next == waiter \/ driver
           \/ Terminating

Spec == /\ Init /\ [][Next]_vars
        /\ WF_vars(waiter)
        /\ WF_vars(driver)

Termination == <>(\A self \in ProcSet: pc[self] = "Done")

\* END TRANSLATION

\* ------------------------------------------------------------------ safety (C65)
Returned == ret.kind # "none"
\* a template is built on the tip that is current when it is built, and that tip is never older than the one whose notification
\* ended the wait
ParentIsCurrentTip == ret.kind = "tmpl" => ret.parent = dec.tip /\ ret.parent <= activeTip
NeverOlderThanTrigger == ret.kind = "tmpl" => ret.parent >= trig
\* same parent as the previous template: only with fees >= previous + threshold, or on a tip that is over 20 minutes old
SameTipNeedsFees == (ret.kind = "tmpl" /\ ret.parent = 0) =>
                       \/ (threshold # MaxMoney /\ WGe(ret.fees, WAdd(prevFees, WOf(threshold))))
                       \/ dec.clock > dec.tipTime + Twenty
\* nothing is returned only after the timeout passed or after an interrupt
NullOnlyAfterTimeoutOrInterrupt == ret.kind = "null" =>
                       \/ (nullWhy = "timeout" /\ clock >= deadlineG)
                       \/ (nullWhy = "interrupt" /\ nInt > 0)
TypeOK == /\ activeTip \in 0..(MaxOps + 1) /\ tipNotified \in 0..(MaxOps + 1) /\ interrupt \in BOOLEAN /\ envHolds \in BOOLEAN
\* ------------------------------------------------------------------ liveness (weak fairness of both threads)
TipChangeYieldsReturn == (tipNotified # 0) ~> Returned
\* ------------------------------------------------------------------ the outcomes the design admits
EmitOutcome == outcome # <<>> => VFRow(outcome[1])
====
