SPECIFICATION Spec
CONSTANTS
  MaxOps = 3
  OpKinds = {"tip", "add", "int", "tick"}
  TickAmounts = {1, 1201}
  Timeouts = {2, 1000000}
  Thresholds = {1000, 999999999}
  Ages = {0}
  PrevFeeSet <- PFSmall
  AddFee = 1000
  Strict = FALSE
  Calls = 2
  FinalInterrupt = TRUE
  AllowInvalidate = FALSE
INVARIANTS TypeOK ParentIsCurrentTip NeverOlderThanTrigger SameTipNeedsFees NullOnlyAfterTimeoutOrInterrupt EmitOutcome
CHECK_DEADLOCK FALSE
