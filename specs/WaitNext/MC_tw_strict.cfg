SPECIFICATION Spec
CONSTANTS
  MaxOps = 3
  OpKinds = {"tip", "add", "int", "tick"}
  TickAmounts = {1}
  Timeouts = {0, 2, 1000000}
  Thresholds = {1, 1000, 1001}
  Ages = {0}
  PrevFeeSet <- PFAll
  AddFee = 1000
  Strict = TRUE
  Calls = 1
  FinalInterrupt = TRUE
  AllowInvalidate = FALSE
INVARIANTS TypeOK ParentIsCurrentTip NeverOlderThanTrigger SameTipNeedsFees NullOnlyAfterTimeoutOrInterrupt EmitOutcome
CHECK_DEADLOCK FALSE
