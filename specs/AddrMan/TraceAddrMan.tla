---- MODULE TraceAddrMan ----
(* Engine E3: is the recorded sequence of calls of the real AddrMan (harness/adapters/addrman.cpp, mode "drive") a
   behaviour of AddrMan?  One line per public call with its arguments, its result and the complete observable state
   afterwards ("st": per-address statistics and slot tables from GetEntries, pending collisions, m_last_good, Size() by
   table / network, FindAddressEntry of every address).

   Every call is first matched EXACTLY: the specification's action with the arguments of the line must produce the recorded
   state, with the counters of the specification equal to what Size() reported. The specification's nondeterminism is
   resolved from the line: the new bucket of an Add is the adapter's hint (what AddrInfo::GetNewBucket returns) or, failing
   that, any bucket in which the address or a blocking entry was observed; the outcome of the 2^-refcount test and the picks
   of Select / SelectTriedCollision are whatever matches.

   C37 is an INV-mode property: it says nothing about WHEN an entry is overwritten, evicted, counted as failed or how old
   it may be. A call that does not match exactly is therefore matched STRUCTURALLY (Loose*: which slots and sets may change
   at all in such a call); it is then reported as a "deviation" (policy differs from the model; not a violation) and the
   specification continues from the recorded state. Reset and Reload have no structural variant: the reload clause of C37 is
   exact. All invariants of AddrMan are evaluated on every recorded state either way.
   {"e":"Abort"} (CheckAddrman or an assertion aborted the process inside a call) and {"e":"ReloadFailed"} match no action. *)
EXTENDS AddrMan, Json, IOUtils
TraceLog == ndJsonDeserialize(IOEnv.TRACE)
VARIABLE l
tvars == <<vars, l>>
Line == TraceLog[l]
IsEvent(e) == l <= Len(TraceLog) /\ Line.e = e /\ l' = l + 1

ToSet(s) == {s[i] : i \in 1..Len(s)}
TabOf(s) == {<<<<x[1], x[2]>>, x[3]>> : x \in ToSet(s)}
RealK == [day |-> 86400, hour |-> 3600, minute |-> 60, tenmin |-> 600, horizon |-> 2592000, minfail |-> 604800,
          replacement |-> 14400, testwindow |-> 2400, connupd |-> 1200]

\* `hash` = number of the Reset line that carries the tables of the session's keyed hashes
TrNPos(h, a, b) == TraceLog[h].hash.npos[a][b + 1]
TrTSlot(h, a) == TraceLog[h].hash.tslot[a]

\* ---- the recorded state, in the shape of the specification's
LInfo(a) == LET i == Line.st.info[a] IN
  [known |-> i.known, tried |-> i.tried, ref |-> i.ref, lastTry |-> i.lastTry, lastCount |-> i.lastCount, lastSucc |-> i.lastSucc,
   attempts |-> i.attempts, src |-> i.src, nTime |-> i.nTime, svc |-> ToSet(i.svc)]
ObsSt == [info |-> [a \in Addrs |-> LInfo(a)], newT |-> TabOf(Line.st.new), triedT |-> TabOf(Line.st.tried),
          coll |-> ToSet(Line.st.coll), stale |-> Line.st.stale, lastGood |-> Line.st.lg,
          \* Size() by network and table: compared with the specification's incrementally maintained counters
          cnt |-> [n \in Networks |-> [n |-> Line.st.sz.net[n][1], t |-> Line.st.sz.net[n][2]]],
          nNew |-> Line.st.sz.new, nTried |-> Line.st.sz.tried, nAll |-> Line.st.sz.all]
\* what the record must satisfy besides: nothing but universe addresses, Size(net) = new + tried, FindAddressEntry agrees
\* with the entries (found iff known; table and multiplicity; a tried entry sits in its hash slot)
ObsSaneH(H) ==
  /\ Line.st.foreign = <<>> /\ Len(Line.st.coll) = Cardinality(ToSet(Line.st.coll))
  /\ \A n \in Networks : Line.st.sz.net[n][3] = Line.st.sz.net[n][1] + Line.st.sz.net[n][2]
  /\ \A a \in Addrs : LET f == Line.st.fe[a] i == Line.st.info[a] IN
        /\ f[1] = i.known
        /\ f[1] => /\ f[2] = i.tried /\ f[3] = (IF i.tried THEN 1 ELSE i.ref)
                   /\ (i.tried => <<f[4], f[5]>> = TrTSlot(H, a))
ObsSane == ObsSaneH(hash)

BlankUni == [net |-> [a \in Addrs |-> "unroutable"], cls |-> [a \in Addrs |-> "unroutable"], routable |-> [a \in Addrs |-> FALSE], self |-> [a \in Addrs |-> "none"]]
TInit == /\ l = 1 /\ uni = BlankUni /\ hash = 0 /\ now = 0
         /\ info = EmptySt.info /\ newT = {} /\ triedT = {} /\ coll = {} /\ stale = 0 /\ lastGood = 1 /\ cnt = EmptySt.cnt
         /\ nNew = 0 /\ nTried = 0 /\ nAll = 0 /\ lastAct = <<"init">> /\ lastRes = TRUE

TReset == /\ IsEvent("Reset")
          /\ uni' = Line.uni /\ hash' = l /\ now' = Line.now /\ SetSt(EmptySt)
          /\ ObsSt = EmptySt /\ ObsSaneH(l)
          /\ lastAct' = <<"reset">> /\ lastRes' = TRUE
TTick == IsEvent("Tick") /\ Tick(Line.now)
TEnd == IsEvent("End") /\ UNCHANGED vars

\* ---- structural relations between the state before a call (P) and the recorded state after it (Q)
NS(S, a) == SlotsOf(S.newT, a)
TS(S, a) == SlotsOf(S.triedT, a)
SameTables(P, Q, a) == NS(Q, a) = NS(P, a) /\ TS(Q, a) = TS(P, a) /\ Q.info[a].tried = P.info[a].tried /\ Q.info[a].known = P.info[a].known
\* a bystander can only lose new-table references (its entry disappears with the last one); nothing else about it changes
OnlyLose(P, Q, a) == /\ NS(Q, a) \subseteq NS(P, a) /\ TS(Q, a) = TS(P, a) /\ Q.info[a].tried = P.info[a].tried
                     /\ (Q.info[a].known => [Q.info[a] EXCEPT !.ref = 0] = [P.info[a] EXCEPT !.ref = 0])
                     /\ (Q.info[a].known => P.info[a].known)
Entering(P, Q) == {x \in Addrs : Q.info[x].tried /\ ~P.info[x].tried}
Leaving(P, Q) == {x \in Addrs : P.info[x].tried /\ ~Q.info[x].tried}
\* an entry leaves the tried table only because another one took its very slot; it goes back to one new slot
EvictionsOK(P, Q, E) == \A b \in Leaving(P, Q) : /\ \E a \in E : TS(P, b) = TS(Q, a)
                                                 /\ (Q.info[b].known => Cardinality(NS(Q, b)) = 1)
Count(seq, a) == Cardinality({i \in 1..Len(seq) : seq[i].a = a})
LooseAdd(P, Q) ==
  LET A == {Line.items[i].a : i \in 1..Len(Line.items)} IN
  /\ Q.triedT = P.triedT /\ Q.lastGood = P.lastGood /\ Q.coll \subseteq P.coll
  /\ \A a \in Addrs \ A : OnlyLose(P, Q, a)
  /\ \A a \in A : /\ Q.info[a].tried = P.info[a].tried /\ TS(Q, a) = TS(P, a)
                  /\ (P.info[a].tried \/ ~uni.routable[a] => SameTables(P, Q, a))
                  /\ Cardinality(NS(Q, a) \ NS(P, a)) <= Count(Line.items, a)
LooseGood(P, Q) ==
  LET a == Line.a  E == Entering(P, Q) IN
  /\ E \subseteq {a} /\ EvictionsOK(P, Q, E) /\ Cardinality(Leaving(P, Q)) <= Cardinality(E)
  /\ (a \in E => NS(Q, a) = {} /\ P.info[a].known)
  /\ (a \notin E => SameTables(P, Q, a))
  /\ \A c \in Addrs \ ({a} \cup Leaving(P, Q)) : OnlyLose(P, Q, c)
  /\ Q.coll \subseteq P.coll \cup {a}
LooseStat(P, Q) ==    \* Attempt, Connected, SetServices: only statistics of the one address
  /\ Q.newT = P.newT /\ Q.triedT = P.triedT /\ Q.coll = P.coll /\ Q.stale = P.stale /\ Q.lastGood = P.lastGood
  /\ \A c \in Addrs : IF c = Line.a THEN SameTables(P, Q, c) /\ Q.info[c].ref = P.info[c].ref ELSE Q.info[c] = P.info[c]
LooseResolve(P, Q) ==
  LET E == Entering(P, Q) IN
  /\ E \subseteq P.coll /\ EvictionsOK(P, Q, E) /\ Q.coll \subseteq P.coll
  /\ \A a \in E : NS(Q, a) = {}
  /\ \A c \in Addrs \ (E \cup Leaving(P, Q)) : OnlyLose(P, Q, c)
Frozen(P, Q) == [Q EXCEPT !.coll = {}, !.stale = 0] = [P EXCEPT !.coll = {}, !.stale = 0]
LooseSelTC(P, Q) ==
  /\ Frozen(P, Q) /\ Q.coll = P.coll /\ Q.stale \in {P.stale, P.stale - 1}
  /\ (Line.res.a # NoAddr => Line.res.a \in Addrs /\ P.info[Line.res.a].tried)
LooseSelect(P, Q) ==
  /\ Q = P
  /\ Line.res.a # NoAddr => /\ Line.res.a \in Addrs /\ P.info[Line.res.a].known
                            /\ (Line.newOnly => ~P.info[Line.res.a].tried)
                            /\ (Line.nets # <<>> => Net(Line.res.a) \in ToSet(Line.nets))
LooseGetAddr(P, Q) ==
  /\ Q = P /\ Len(Line.res) = Cardinality(ToSet(Line.res))
  /\ \A a \in ToSet(Line.res) : a \in Addrs /\ P.info[a].known /\ (Line.net # "any" => Cls(a) = Line.net \/ Net(a) = Line.net)
  /\ (Line.max # 0 => Len(Line.res) <= Line.max)

\* the call did not match the model exactly but is structurally admissible: continue from the recorded state
Deviate(why) == /\ SetSt(ObsSt) /\ Keep /\ lastAct' = <<"deviation", Line.e>> /\ lastRes' = TRUE
                /\ PrintT("VF|" \o ToJson([kind |-> "deviation", line |-> l, e |-> Line.e, why |-> why]))

\* ---- Add
Items == [i \in 1..Len(Line.items) |-> [a |-> Line.items[i].a, t |-> Line.items[i].t, svc |-> ToSet(Line.items[i].svc)]]
AddMatch(x) == LET o == AddF(St, Items, Line.src, Line.pen, x.bs, x.ps) IN o.S = ObsSt /\ o.r = Line.res
PsSet == [1..Len(Line.items) -> BOOLEAN]
\* buckets in which the (single) address appears afterwards, or that hold an entry now (it may have blocked the insertion)
ObservedBuckets == {x[1] : x \in {y \in ToSet(Line.st.new) : y[3] = Line.items[1].a}} \cup {e[1][1] : e \in newT}
TAdd == /\ IsEvent("Add") /\ ObsSane
        /\ LET byHint == {x \in {[bs |-> Line.hb, ps |-> p] : p \in PsSet} : AddMatch(x)}
               cands == IF byHint # {} THEN byHint
                        ELSE IF Len(Line.items) = 1 THEN {x \in {[bs |-> <<b>>, ps |-> p] : b \in ObservedBuckets, p \in PsSet} : AddMatch(x)}
                        ELSE {}
           IN IF cands # {} THEN \E x \in cands : Add(Items, Line.src, Line.pen, x.bs, x.ps)
              ELSE LooseAdd(St, ObsSt) /\ Deviate("add")

\* ---- Good: the bucket an evicted occupant goes to = the hint, or where it is observed afterwards
OldOf(a) == AddrAt(triedT, TSlot(a))
EbCands(a, hint) == {hint} \cup {x[1] : x \in {y \in ToSet(Line.st.new) : y[3] = OldOf(a)}}
GoodMatch(eb) == LET o == GoodF(St, Line.a, Line.t, TRUE, eb) IN o.S = ObsSt /\ o.r = Line.res
TGood == /\ IsEvent("Good") /\ ObsSane
         /\ LET ok == {eb \in EbCands(Line.a, Line.heb) : GoodMatch(eb)} IN
            IF ok # {} THEN \E eb \in ok : Good(Line.a, Line.t, eb)
            ELSE LooseGood(St, ObsSt) /\ Deviate("good")

TAttempt == /\ IsEvent("Attempt") /\ ObsSane
            /\ IF AttemptF(St, Line.a, Line.cf, Line.t) = ObsSt THEN Attempt(Line.a, Line.cf, Line.t)
               ELSE LooseStat(St, ObsSt) /\ Deviate("attempt")
TConnected == /\ IsEvent("Connected") /\ ObsSane
              /\ IF ConnectedF(St, Line.a, Line.t) = ObsSt THEN Connected(Line.a, Line.t)
                 ELSE LooseStat(St, ObsSt) /\ Deviate("connected")
TSetServices == /\ IsEvent("SetServices") /\ ObsSane
                /\ IF SetServicesF(St, Line.a, ToSet(Line.svc)) = ObsSt THEN SetServices(Line.a, ToSet(Line.svc))
                   ELSE LooseStat(St, ObsSt) /\ Deviate("setservices")

\* ---- ResolveCollisions: visiting order = id order as recorded; it must be exactly the live pending collisions
RECURSIVE Prod(_)
Prod(cs) == IF cs = <<>> THEN {<<>>} ELSE {<<x>> \o r : x \in Head(cs), r \in Prod(Tail(cs))}
TResolve == /\ IsEvent("Resolve") /\ ObsSane
            /\ LET orderOK == ToSet(Line.order) = coll /\ Len(Line.order) = Cardinality(coll)
                   ok == IF orderOK THEN {ebs \in Prod([i \in 1..Len(Line.order) |-> EbCands(Line.order[i], Line.hebs[i])]) :
                                            ResolveAllF(St, Line.order, ebs) = ObsSt}
                         ELSE {}
               IN IF ok # {} THEN \E ebs \in ok : ResolveCollisions(Line.order, ebs)
                  ELSE LooseResolve(St, ObsSt) /\ Deviate("resolve")

TSelTC == /\ IsEvent("SelTC") /\ ObsSane
          /\ LET ok == {p \in SelTCPicks(St) : LET o == SelTCF(St, p) IN o.S = ObsSt /\ o.r = Line.res} IN
             IF coll = {} /\ stale = 0 /\ Line.res = None /\ ObsSt = St THEN SelectTriedCollisionEmpty
             ELSE IF ok # {} THEN \E p \in ok : SelectTriedCollision(p)
             ELSE LooseSelTC(St, ObsSt) /\ Deviate("seltc")
TSelect == /\ IsEvent("Select") /\ ObsSane
           /\ IF ObsSt = St /\ Line.res \in SelectSet(St, Line.newOnly, ToSet(Line.nets)) THEN Select(Line.newOnly, ToSet(Line.nets), Line.res)
              ELSE LooseSelect(St, ObsSt) /\ Deviate("select")
TGetAddr == /\ IsEvent("GetAddr") /\ ObsSane
            /\ IF ObsSt = St /\ Len(Line.res) = Cardinality(ToSet(Line.res)) /\ GetAddrOK(St, Line.max, Line.pct, Line.net, Line.filt, ToSet(Line.res))
               THEN GetAddr(Line.max, Line.pct, Line.net, Line.filt, ToSet(Line.res))
               ELSE LooseGetAddr(St, ObsSt) /\ Deviate("getaddr")
\* the reload clause of C37 is exact: same addresses, slots and stored statistics, counters recomputed
TReload == IsEvent("Reload") /\ ObsSane /\ ReloadF(St) = ObsSt /\ Reload

\* ---- diagnostics (props/C37.py re-runs a rejected prefix with DIAGLINE = number of the unmatched line): print the state
\* before the call and the successor the specification computes with the adapter's hints; never a transition
StJson(S) == [info |-> S.info, new |-> S.newT, tried |-> S.triedT, coll |-> S.coll, stale |-> S.stale, lg |-> S.lastGood, nNew |-> S.nNew,
              nTried |-> S.nTried, nAll |-> S.nAll, cnt |-> S.cnt]
AllPs(v) == [i \in 1..Len(Line.items) |-> v]
HintSucc ==
  CASE Line.e = "Add" -> <<AddF(St, Items, Line.src, Line.pen, Line.hb, AllPs(TRUE)), AddF(St, Items, Line.src, Line.pen, Line.hb, AllPs(FALSE))>>
    [] Line.e = "Good" -> <<GoodF(St, Line.a, Line.t, TRUE, Line.heb)>>
    [] Line.e = "Attempt" -> <<[S |-> AttemptF(St, Line.a, Line.cf, Line.t)]>>
    [] Line.e = "Connected" -> <<[S |-> ConnectedF(St, Line.a, Line.t)]>>
    [] Line.e = "SetServices" -> <<[S |-> SetServicesF(St, Line.a, ToSet(Line.svc))]>>
    [] Line.e = "Resolve" -> <<[S |-> ResolveAllF(St, Line.order, Line.hebs)]>>
    [] Line.e = "Reload" -> <<[S |-> ReloadF(St)]>>
    [] OTHER -> <<[S |-> St]>>
TDiag == /\ "DIAGLINE" \in DOMAIN IOEnv /\ l <= Len(TraceLog) /\ ToString(l) = IOEnv.DIAGLINE
         /\ PrintT("VF|" \o ToJson([line |-> l, e |-> Line.e, now |-> now, pre |-> StJson(St),
                                    post |-> [i \in 1..Len(HintSucc) |-> [r |-> IF "r" \in DOMAIN HintSucc[i] THEN ToString(HintSucc[i].r) ELSE "",
                                                                          s |-> StJson(HintSucc[i].S)]]]))
         /\ FALSE /\ UNCHANGED tvars

TNext == (TDiag \/ TReset \/ TTick \/ TEnd \/ TAdd \/ TGood \/ TAttempt \/ TConnected \/ TSetServices \/ TResolve \/ TSelTC \/ TSelect
          \/ TGetAddr \/ TReload)
TView == <<View0, l>>
Accepted == TLCGet("stats").diameter - 1 = Len(TraceLog)
====
