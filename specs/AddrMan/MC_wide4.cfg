CONSTANTS
  Addrs = {"a1", "a2", "a3", "a4"}
  Sources = {"s1"}
  Networks = {"ipv4", "onion"}
  Flags = {}
  MCNets <- QuickNets
  Unroutable = {}
  NewBuckets = 3
  TriedBuckets = 2
  BucketSize = 1
  MaxRef = 2
  MaxColl = 2
  Retries = 1
  MaxFailures = 2
  HNPos <- MCNPos
  HTSlot <- MCTSlot
  K <- StructK
  MaxT = 2
  MaxAttempts = 1
  PastArgs = FALSE
  AddrTimeOffs <- OffsNow
  Pens = {0}
  SelectNets <- QuickSelectNets
  Acts = {}
INIT Init
NEXT Next
VIEW View0
CONSTRAINT Bound
INVARIANTS RefCountOK TriedExclusive KnownPlaced TablesBounded PositionsOK CountersOK StatsOK CollisionsOK
PROPERTIES ReloadSame SelectSound
ACTION_CONSTRAINT Witness
CHECK_DEADLOCK FALSE
