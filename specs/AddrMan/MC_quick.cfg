CONSTANTS
  Addrs = {"a1", "a2", "a3"}
  Sources = {"s1", "s2"}
  Networks = {"ipv4", "onion"}
  Flags = {}
  MCNets <- QuickNets
  Unroutable = {}
  NewBuckets = 2
  TriedBuckets = 1
  BucketSize = 1
  MaxRef = 2
  MaxColl = 1
  Retries = 1
  MaxFailures = 2
  HNPos <- MCNPos
  HTSlot <- MCTSlot
  K <- SmallK
  MaxT = 3
  MaxAttempts = 2
  PastArgs = FALSE
  AddrTimeOffs <- OffsQuick
  Pens = {0}
  SelectNets <- QuickSelectNets
INIT Init
NEXT Next
VIEW View0
CONSTRAINT Bound
INVARIANTS RefCountOK TriedExclusive KnownPlaced TablesBounded PositionsOK CountersOK StatsOK CollisionsOK
PROPERTIES ReloadSame SelectSound
CHECK_DEADLOCK FALSE
