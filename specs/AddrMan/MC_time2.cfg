CONSTANTS
  Addrs = {"a1", "a3"}
  Sources = {"s1"}
  Networks = {"ipv4", "onion"}
  Flags = {}
  MCNets <- QuickNets
  Unroutable = {}
  NewBuckets = 2
  TriedBuckets = 1
  BucketSize = 1
  MaxRef = 2
  MaxColl = 1
  Retries = 1
  MaxFailures = 2
  HNPos <- MCNPos
  HTSlot <- MCTSlot
  K <- SmallK
  MaxT = 2
  MaxAttempts = 2
  PastArgs = FALSE
  AddrTimeOffs <- OffsQuick
  Pens = {0, 1}
  SelectNets <- QuickSelectNets
  Acts = {"attempt", "connected", "select"}
INIT Init
NEXT Next
VIEW View0
CONSTRAINT Bound
INVARIANTS RefCountOK TriedExclusive KnownPlaced TablesBounded PositionsOK CountersOK StatsOK CollisionsOK
PROPERTIES ReloadSame SelectSound
ACTION_CONSTRAINT Witness
CHECK_DEADLOCK FALSE
