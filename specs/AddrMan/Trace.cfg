CONSTANTS
  Addrs = {"a1", "a2", "a3", "a4", "a5", "a6", "a7", "a8", "a9", "a10", "a11", "a12", "a13", "a14", "a15", "a16"}
  Sources = {"s1", "s2", "s3", "s4", "s5", "s6", "s7", "s8", "s9", "s10", "s11", "s12", "s13", "s14"}
  Networks = {"ipv4", "ipv6", "onion", "i2p", "cjdns", "unroutable"}
  Flags = {"N", "W", "C"}
  NewBuckets = 1024
  TriedBuckets = 256
  BucketSize = 64
  MaxRef = 8
  MaxColl = 10
  Retries = 3
  MaxFailures = 10
  HNPos <- TrNPos
  HTSlot <- TrTSlot
  K <- RealK
INIT TInit
NEXT TNext
VIEW TView
INVARIANTS RefCountOK TriedExclusive KnownPlaced TablesBounded PositionsOK CountersOK StatsOK CollisionsOK
PROPERTIES ReloadSame SelectSound
POSTCONDITION Accepted
CHECK_DEADLOCK FALSE
