---- MODULE MCAddrMan ----
(* Bounded instances of AddrMan for the model checker: 3-4 addresses of two or three networks, two sources (one of them is
   the IP of address a1: a self-announcement), one service flag, a handful of slots so that every Add / Good collides,
   small durations, a clock that runs 1..MaxT. Every choice of the uninterpreted hashes (tried slot per address, position per
   address and new bucket) in HashWorlds is explored. *)
EXTENDS AddrMan, Json
CONSTANTS MaxT, MaxAttempts, PastArgs, MCNets, Unroutable, AddrTimeOffs, Pens, SelectNets,
          Acts     \* names of the optional actions that are enabled: "attempt", "connected", "setservices", "select", "getaddr", "add2"

Range(f) == {f[x] : x \in DOMAIN f}
QuickNets == [a \in {"a1", "a2", "a3", "a4"} |-> IF a \in {"a1", "a2"} THEN "ipv4" ELSE "onion"]
SimNets == [a \in {"a1", "a2", "a3", "a4", "a5"} |-> IF a \in {"a1", "a2"} THEN "ipv4" ELSE IF a = "a5" THEN "unroutable" ELSE "onion"]
AllSelectNets == SUBSET {"ipv4", "onion"}
OffsSim == {-3, -1, 0, 2}
QuickSelectNets == {{}, {"onion"}}
OffsNow == {0}
OffsQuick == {-1, 0}
OffsThorough == {-2, -1, 0, 2}
StructK == [day |-> 2, hour |-> 1, minute |-> 0, tenmin |-> 1, horizon |-> 0, minfail |-> 1, replacement |-> 1, testwindow |-> 0, connupd |-> 1]
SmallK == [day |-> 2, hour |-> 1, minute |-> 0, tenmin |-> 1, horizon |-> 2, minfail |-> 1, replacement |-> 2, testwindow |-> 0, connupd |-> 1]
\* a3 stands for an address whose class differs from its network (an IPv6 address with an embedded IPv4 address)
MCUni == [net |-> [a \in Addrs |-> MCNets[a]],
          cls |-> [a \in Addrs |-> IF a = "a3" THEN "ipv4" ELSE MCNets[a]],
          routable |-> [a \in Addrs |-> a \notin Unroutable],
          self |-> [a \in Addrs |-> IF a = "a1" THEN "s1" ELSE "none"]]
Buckets == 0..NewBuckets - 1
MCNPos(h, a, b) == h.npos[a][b + 1]
MCTSlot(h, a) == h.tslot[a]
HashWorlds == [tslot : [Addrs -> TriedSlots], npos : [Addrs -> [1..NewBuckets -> 0..BucketSize - 1]]]

Init == /\ uni = MCUni /\ hash \in HashWorlds /\ now = 1
        /\ info = EmptySt.info /\ newT = {} /\ triedT = {} /\ coll = {} /\ stale = 0 /\ lastGood = 1 /\ cnt = EmptySt.cnt
        /\ nNew = 0 /\ nTried = 0 /\ nAll = 0
        /\ lastAct = <<"init">> /\ lastRes = TRUE

\* time arguments of calls: the clock, and (PastArgs) also one tick earlier / later
TimeArgs == IF PastArgs THEN {t \in {now - 1, now, now + 1} : t >= 1} ELSE {now}
AddrTimes == {t \in {now + d : d \in AddrTimeOffs} : t >= 0}
PermSeqs(X) == {s \in [1..Cardinality(X) -> X] : Range(s) = X}

Next ==
  \/ \E a \in Addrs, at \in AddrTimes, svc \in SUBSET Flags, src \in Sources, pen \in Pens, b \in Buckets, pass \in BOOLEAN :
        Add(<<[a |-> a, t |-> at, svc |-> svc]>>, src, pen, <<b>>, <<pass>>)
  \/ \E a \in Addrs, t \in TimeArgs, eb \in Buckets : Good(a, t, eb)
  \/ ("attempt" \in Acts /\ \E a \in Addrs, cf \in BOOLEAN, t \in TimeArgs : Attempt(a, cf, t))
  \/ ("connected" \in Acts /\ \E a \in Addrs, t \in TimeArgs : Connected(a, t))
  \/ ("setservices" \in Acts /\ \E a \in Addrs, svc \in SUBSET Flags : SetServices(a, svc))
  \/ \E order \in PermSeqs(coll) : \E ebs \in [1..Len(order) -> Buckets] : ResolveCollisions(order, ebs)
  \/ \E pick \in SelTCPicks(St) : SelectTriedCollision(pick)
  \/ SelectTriedCollisionEmpty
  \/ ("select" \in Acts /\ \E newOnly \in BOOLEAN, nets \in SelectNets : \E r \in SelectSet(St, newOnly, nets) : Select(newOnly, nets, r))
  \/ Reload
  \/ (now < MaxT /\ Tick(now + 1))
  \* GetAddr changes nothing; its admissible results are enumerated once per state
  \/ ("getaddr" \in Acts /\ \E maxA \in {0, 1}, pct \in {0, 50}, net \in {"any", "onion"}, filtered \in BOOLEAN :
        \E R \in SUBSET Addrs : GetAddr(maxA, pct, net, filtered, R))
  \* two-element Add vectors (the fold under one lock)
  \/ ("add2" \in Acts /\ \E a1 \in Addrs, a2 \in Addrs, at \in AddrTimes, src \in Sources, b1 \in Buckets, b2 \in Buckets, p \in BOOLEAN :
        Add(<<[a |-> a1, t |-> at, svc |-> {}], [a |-> a2, t |-> at, svc |-> {}]>>, src, 0, <<b1, b2>>, <<p, p>>))

Bound == \A a \in Addrs : info[a].attempts <= MaxAttempts

\* ---- simulation: the same calls with randomly drawn arguments (one candidate successor per kind of call and step instead of
\* thousands: TLC -simulate generates every successor of a state before it picks one)
R(S) == {RandomElement(S)}
SimNext ==
  \/ \E a \in R(Addrs), at \in R(AddrTimes), svc \in R(SUBSET Flags), src \in R(Sources), pen \in R(Pens), b \in R(Buckets), pass \in R(BOOLEAN) :
        Add(<<[a |-> a, t |-> at, svc |-> svc]>>, src, pen, <<b>>, <<pass>>)
  \/ \E a1 \in R(Addrs), a2 \in R(Addrs), at \in R(AddrTimes), src \in R(Sources), b1 \in R(Buckets), b2 \in R(Buckets), p \in R(BOOLEAN), q \in R(BOOLEAN) :
        Add(<<[a |-> a1, t |-> at, svc |-> {}], [a |-> a2, t |-> at, svc |-> {}]>>, src, 0, <<b1, b2>>, <<p, q>>)
  \/ \E a \in R(Addrs), t \in R(TimeArgs), eb \in R(Buckets) : Good(a, t, eb)
  \/ \E a \in R(Addrs), cf \in R(BOOLEAN), t \in R(TimeArgs) : Attempt(a, cf, t)
  \/ \E a \in R(Addrs), t \in R(TimeArgs) : Connected(a, t)
  \/ \E a \in R(Addrs), svc \in R(SUBSET Flags) : SetServices(a, svc)
  \/ \E order \in R(PermSeqs(coll)) : \E ebs \in R([1..Len(order) -> Buckets]) : ResolveCollisions(order, ebs)
  \/ (SelTCPicks(St) # {} /\ \E pick \in R(SelTCPicks(St)) : SelectTriedCollision(pick))
  \/ SelectTriedCollisionEmpty
  \/ \E newOnly \in R(BOOLEAN), nets \in R(SelectNets) : \E r \in R(SelectSet(St, newOnly, nets)) : Select(newOnly, nets, r)
  \/ \E maxA \in R({0, 1, 2}), pct \in R({0, 50, 100}), net \in R({"any"} \cup Networks), filtered \in R(BOOLEAN) :
        \E R0 \in R({X \in SUBSET Addrs : GetAddrOK(St, maxA, pct, net, filtered, X)}) : GetAddr(maxA, pct, net, filtered, R0)
  \/ Reload
  \/ (now < MaxT /\ Tick(now + 1))

\* ---- reachability witnesses: the situations the property is about do occur in the bounded model. Used as ACTION_CONSTRAINT:
\* prints each name at most once per worker (TLC registers), never restricts anything.
NTags == 9
ASSUME \A i \in 1..NTags : TLCSet(i, 0)
Tag(i, name, cond) == IF TLCGet(i) = 0 /\ cond THEN PrintT("VF|" \o ToJson([w |-> name])) /\ TLCSet(i, 1) ELSE TRUE
Witness ==
  /\ Tag(1, "refcount_limit_reached", \E a \in Addrs : info'[a].ref = MaxRef /\ info[a].ref < MaxRef)
  /\ Tag(2, "add_refused_at_limit", lastAct'[1] = "add" /\ Len(lastAct'[2]) = 1 /\ info[lastAct'[2][1].a].ref = MaxRef /\ lastAct'[2][1].t > info[lastAct'[2][1].a].nTime)
  /\ Tag(3, "moved_to_tried", nTried' > nTried)
  /\ Tag(4, "collision_recorded", Cardinality(coll') > Cardinality(coll))
  /\ Tag(5, "collision_set_full", lastAct'[1] = "good" /\ Cardinality(coll) + stale = MaxColl /\ coll' = coll /\ info[lastAct'[2]].known
                                  /\ ~info[lastAct'[2]].tried /\ AddrAt(triedT, TSlot(lastAct'[2])) # NoAddr /\ lastAct'[2] \notin coll)
  /\ Tag(6, "stale_collision_id", stale' > stale)
  /\ Tag(7, "evicted_to_new", \E a \in Addrs : info[a].tried /\ info'[a].known /\ ~info'[a].tried)
  /\ Tag(8, "eviction_deletes_entry", /\ \E a \in Addrs : info[a].tried /\ info'[a].known /\ ~info'[a].tried
                                      /\ \E c \in Addrs : info[c].known /\ ~info'[c].known)
  /\ Tag(9, "add_overwrite_deletes_entry", lastAct'[1] = "add" /\ \E c \in Addrs : info[c].known /\ ~info'[c].known /\ lastAct'[2][1].a # c)
====
