---- MODULE AddrMan ----
(* C37 - the address manager (src/addrman.cpp, AddrManImpl) stays internally consistent and bounded.

   State = what AddrManImpl keeps: per address the AddrInfo statistics, the "new" and "tried" slot tables as relations
   slot -> address, the test-before-evict collision set, m_last_good and the incrementally maintained counters
   (nNew, nTried, vRandom.size(), m_network_counts). One action per public call; Add(vector) and ResolveCollisions are
   folds of the per-element step the code runs under one lock.

   The keyed hashes of the code are uninterpreted here:
     TSlot(a)      the tried slot <<bucket, position>> of address a          (GetTriedBucket + GetBucketPosition)
     NPos(a, b)    the position of a inside new bucket b                      (GetBucketPosition(nKey, true, b))
   are arbitrary fixed functions (CheckAddrman insists on them: codes -17, -18, -19), while the CHOICE of the new bucket
   (GetNewBucket: a hash of address group and source group) is left nondeterministic - the property is silent about it;
   model checking explores every choice, trace validation lets the recorded state resolve it.
   Randomness of the code (the 2^-refcount test in AddSingle, Select's pick, SelectTriedCollision's pick) is
   nondeterministic as well.  m_tried_collisions holds ids, not addresses: an id dies when its entry is deleted (a later
   re-announcement gets a new id), so the model keeps the set of addresses whose id is pending (coll) and the number of
   dead ids still in the set (stale).

   Times are integer seconds (0 = "never"), durations are the record K so that the model checker can use small ones. *)
EXTENDS Integers, Sequences, FiniteSets, TLC

CONSTANTS Addrs, Sources, Networks, Flags,
          NewBuckets, TriedBuckets, BucketSize,
          MaxRef,          \* ADDRMAN_NEW_BUCKETS_PER_ADDRESS (8)
          MaxColl,         \* ADDRMAN_SET_TRIED_COLLISION_SIZE (10)
          Retries,         \* ADDRMAN_RETRIES (3)
          MaxFailures,     \* ADDRMAN_MAX_FAILURES (10)
          K,               \* durations: day, hour, minute, tenmin, horizon, minfail, replacement, testwindow, connupd
          HNPos(_, _, _),  \* how the value of `hash` is read: position of address a in new bucket b
          HTSlot(_, _)     \*                                  tried slot of address a

VARIABLES uni,      \* the address universe: [net, cls, routable, self : Addrs -> ..]; net[a] = GetNetwork() (the key of the per-network
                    \* counters), cls[a] = GetNetClass() (GetAddr's filter; differs from net for IPv6 addresses that embed an IPv4
                    \* address: 6to4, Teredo, NAT64, SIIT); self[a] = the source whose IP is a's, or "none"
          hash,     \* the keyed hashes (model checking: [tslot : Addrs -> slot, npos : Addrs -> Seq(position)]; trace: the line that has them)
          now,      \* the (mock) clock
          info, newT, triedT, coll, stale, lastGood, cnt, nNew, nTried, nAll,
          lastAct, lastRes      \* ghosts: the call and what it returned

core == <<info, newT, triedT, coll, stale, lastGood, cnt, nNew, nTried, nAll>>
vars == <<uni, hash, now, core, lastAct, lastRes>>
View0 == <<uni, hash, now, core>>

NoAddr == "none"
NoSlot == <<-1, -1>>
None == [a |-> NoAddr, lt |-> 0]           \* the "no address" result of Select / SelectTriedCollision
Max(x, y) == IF x > y THEN x ELSE y
Min(x, y) == IF x < y THEN x ELSE y

Blank == [known |-> FALSE, tried |-> FALSE, ref |-> 0, lastTry |-> 0, lastCount |-> 0, lastSucc |-> 0,
          attempts |-> 0, src |-> "none", nTime |-> 0, svc |-> {}]

St == [info |-> info, newT |-> newT, triedT |-> triedT, coll |-> coll, stale |-> stale, lastGood |-> lastGood, cnt |-> cnt,
       nNew |-> nNew, nTried |-> nTried, nAll |-> nAll]
SetSt(S) == /\ info' = S.info /\ newT' = S.newT /\ triedT' = S.triedT /\ coll' = S.coll /\ stale' = S.stale /\ lastGood' = S.lastGood
            /\ cnt' = S.cnt /\ nNew' = S.nNew /\ nTried' = S.nTried /\ nAll' = S.nAll
EmptySt == [info |-> [a \in Addrs |-> Blank], newT |-> {}, triedT |-> {}, coll |-> {}, stale |-> 0, lastGood |-> 1,
            cnt |-> [n \in Networks |-> [n |-> 0, t |-> 0]], nNew |-> 0, nTried |-> 0, nAll |-> 0]

Net(a) == uni.net[a]
Cls(a) == uni.cls[a]
NPos(a, b) == HNPos(hash, a, b)
TSlot(a) == HTSlot(hash, a)
\* a table is a set of <<slot, address>>
AddrAt(T, s) == IF \E e \in T : e[1] = s THEN (CHOOSE e \in T : e[1] = s)[2] ELSE NoAddr
SlotsOf(T, a) == {e[1] : e \in {x \in T : x[2] = a}}

(* ------------------------------------------------------------------ AddrInfo::IsTerrible *)
Terrible(i, t) ==
  IF t - i.lastTry <= K.minute THEN FALSE
  ELSE \/ i.nTime > t + K.tenmin
       \/ t - i.nTime > K.horizon
       \/ (i.lastSucc = 0 /\ i.attempts >= Retries)
       \/ (t - i.lastSucc > K.minfail /\ i.attempts >= MaxFailures)

(* ------------------------------------------------------------------ private helpers of AddrManImpl, as state functions *)
CreateF(S, a, src, t, svc) ==
  [S EXCEPT !.info[a] = [Blank EXCEPT !.known = TRUE, !.src = src, !.nTime = t, !.svc = svc],
            !.nNew = @ + 1, !.nAll = @ + 1, !.cnt[Net(a)].n = @ + 1]

\* Delete: "it must not be in tried, and have refcount 0"; a pending collision of a leaves a dead id behind
DeleteF(S, a) ==
  [S EXCEPT !.info[a] = Blank, !.nNew = @ - 1, !.nAll = @ - 1, !.cnt[Net(a)].n = @ - 1,
            !.coll = @ \ {a}, !.stale = IF a \in S.coll THEN @ + 1 ELSE @]

ClearNewF(S, s) ==
  LET c == AddrAt(S.newT, s) IN
  IF c = NoAddr THEN S
  ELSE LET S1 == [S EXCEPT !.info[c].ref = @ - 1, !.newT = @ \ {<<s, c>>}] IN
       IF S1.info[c].ref = 0 THEN DeleteF(S1, c) ELSE S1

\* MakeTried(a): a leaves every new slot; the occupant of its tried slot, if any, goes back to the new table into
\* bucket eb (its primary source's bucket in the code), displacing whatever is there.
MakeTriedF(S, a, eb) ==
  LET S1 == [S EXCEPT !.newT = {e \in @ : e[2] # a}, !.info[a].ref = 0, !.nNew = @ - 1, !.cnt[Net(a)].n = @ - 1]
      ts == TSlot(a)
      b  == AddrAt(S1.triedT, ts)
      S2 == IF b = NoAddr THEN S1
            ELSE LET es == <<eb, NPos(b, eb)>>
                     A  == [S1 EXCEPT !.info[b].tried = FALSE, !.triedT = @ \ {<<ts, b>>}, !.nTried = @ - 1,
                                      !.cnt[Net(b)].t = @ - 1]
                     B  == ClearNewF(A, es)
                 IN [B EXCEPT !.info[b].ref = 1, !.newT = @ \cup {<<es, b>>}, !.nNew = @ + 1, !.cnt[Net(b)].n = @ + 1]
  IN [S2 EXCEPT !.triedT = @ \cup {<<ts, a>>}, !.nTried = @ + 1, !.info[a].tried = TRUE, !.cnt[Net(a)].t = @ + 1]

\* the tail of AddSingle: try to put a into new bucket b
PlaceF(S, a, b) ==
  LET s == <<b, NPos(a, b)>>
      c == AddrAt(S.newT, s)
  IN IF c = a THEN [S |-> S, r |-> FALSE]
     ELSE IF c = NoAddr \/ Terrible(S.info[c], now) \/ (S.info[c].ref > 1 /\ S.info[a].ref = 0)
          THEN LET S1 == ClearNewF(S, s) IN
               [S |-> [S1 EXCEPT !.info[a].ref = @ + 1, !.newT = @ \cup {<<s, a>>}], r |-> TRUE]
          ELSE [S |-> IF S.info[a].ref = 0 THEN DeleteF(S, a) ELSE S, r |-> FALSE]

\* AddSingle(addr = (a, at, asvc), source, penalty); b = the new bucket the hashes select, pass = outcome of the
\* 1-in-2^refcount test
AddSingleF(S, a, at, asvc, src, pen, b, pass) ==
  IF ~uni.routable[a] THEN [S |-> S, r |-> FALSE]
  ELSE
  LET pen1 == IF uni.self[a] = src THEN 0 ELSE pen
      i == S.info[a]
  IN IF i.known
     THEN LET upd == IF now - at < K.day THEN K.hour ELSE K.day
              nt  == IF i.nTime < at - upd - pen1 THEN Max(0, at - pen1) ELSE i.nTime
              S1  == [S EXCEPT !.info[a].nTime = nt, !.info[a].svc = @ \cup asvc]
          IN IF at <= nt \/ i.tried \/ i.ref = MaxRef \/ (i.ref > 0 /\ ~pass)
             THEN [S |-> S1, r |-> FALSE]
             ELSE PlaceF(S1, a, b)
     ELSE PlaceF(CreateF(S, a, src, Max(0, at - pen1), asvc), a, b)

\* Add_(vector): items = sequence of [a, t, svc], bs / ps = per item bucket and test outcome
RECURSIVE AddF(_, _, _, _, _, _)
AddF(S, items, src, pen, bs, ps) ==
  IF items = <<>> THEN [S |-> S, r |-> FALSE]
  ELSE LET x == Head(items)
           o == AddSingleF(S, x.a, x.t, x.svc, src, pen, Head(bs), Head(ps))
           rest == AddF(o.S, Tail(items), src, pen, Tail(bs), Tail(ps))
       IN [S |-> rest.S, r |-> o.r \/ rest.r]

\* Good_(a, test_before_evict = tb, time); eb = bucket the evicted occupant would go to
GoodF(S, a, t, tb, eb) ==
  LET S0 == [S EXCEPT !.lastGood = t] IN
  IF ~S.info[a].known THEN [S |-> S0, r |-> FALSE]
  ELSE LET S1 == [S0 EXCEPT !.info[a].lastSucc = t, !.info[a].lastTry = t, !.info[a].attempts = 0] IN
       IF S1.info[a].tried THEN [S |-> S1, r |-> FALSE]
       ELSE IF tb /\ AddrAt(S1.triedT, TSlot(a)) # NoAddr
            THEN [S |-> IF Cardinality(S1.coll) + S1.stale < MaxColl THEN [S1 EXCEPT !.coll = @ \cup {a}] ELSE S1,
                  r |-> FALSE]
            ELSE [S |-> MakeTriedF(S1, a, eb), r |-> TRUE]

AttemptF(S, a, cf, t) ==
  IF ~S.info[a].known THEN S
  ELSE LET S1 == [S EXCEPT !.info[a].lastTry = t] IN
       IF cf /\ S.info[a].lastCount < S.lastGood
       THEN [S1 EXCEPT !.info[a].lastCount = t, !.info[a].attempts = @ + 1] ELSE S1

ConnectedF(S, a, t) ==
  IF S.info[a].known /\ t - S.info[a].nTime > K.connupd THEN [S EXCEPT !.info[a].nTime = t] ELSE S

SetServicesF(S, a, svc) == IF S.info[a].known THEN [S EXCEPT !.info[a].svc = svc] ELSE S

\* ResolveCollisions_: the set is visited in id order; dead ids are dropped when visited. order = the live pending addresses
\* in id order, ebs = per element the bucket its evicted occupant would go to. An address whose entry is deleted by an
\* earlier step of the same call (its slot in the new table is needed for an evicted entry) is dead when its turn comes.
RECURSIVE ResolveF(_, _, _)
ResolveF(S, order, ebs) ==
  IF order = <<>> THEN S
  ELSE
  LET a == Head(order)
      drop(X) == [X EXCEPT !.coll = @ \ {a}]
      S1 == IF a \notin S.coll THEN [S EXCEPT !.stale = @ - 1]
            ELSE LET old == AddrAt(S.triedT, TSlot(a)) IN
                 IF old = NoAddr THEN S    \* unreachable (invariant CollisionsOK); the code's Assume
                 ELSE LET o == S.info[old]
                          n == S.info[a]
                          moved == drop(GoodF(S, a, now, FALSE, Head(ebs)).S)
                      IN IF now - o.lastSucc < K.replacement THEN drop(S)
                         ELSE IF now - o.lastTry < K.replacement
                              THEN (IF now - o.lastTry > K.minute THEN moved ELSE S)
                              ELSE IF now - n.lastSucc > K.testwindow THEN moved ELSE S
  IN ResolveF(S1, Tail(order), Tail(ebs))
ResolveAllF(S, order, ebs) == ResolveF([S EXCEPT !.stale = 0], order, ebs)

\* SelectTriedCollision_: pick = the element of the set the random index selects ("stale" = a dead id, which is dropped)
SelTCF(S, pick) ==
  IF pick = "stale" THEN [S |-> [S EXCEPT !.stale = @ - 1], r |-> None]
  ELSE LET old == AddrAt(S.triedT, TSlot(pick)) IN
       [S |-> S, r |-> IF old = NoAddr THEN None ELSE [a |-> old, lt |-> S.info[old].lastTry]]
SelTCPicks(S) == S.coll \cup (IF S.stale > 0 THEN {"stale"} ELSE {})

\* Select_(new_only, networks): the set of results the code may return
SelectSet(S, newOnly, nets) ==
  LET inNet(a) == nets = {} \/ Net(a) \in nets
      newA == {a \in Addrs : S.info[a].known /\ ~S.info[a].tried /\ inNet(a)}
      triedA == {a \in Addrs : S.info[a].known /\ S.info[a].tried /\ inNet(a)}
      res(A) == {[a |-> x, lt |-> S.info[x].lastTry] : x \in A}
  IN IF S.nAll = 0 \/ (newOnly /\ newA = {}) \/ (newA \cup triedA = {}) THEN {None}
     ELSE IF newOnly \/ triedA = {} THEN res(newA)
     ELSE IF newA = {} THEN res(triedA)
     ELSE res(newA \cup triedA)

\* GetAddr_(max_addresses, max_pct, network, filtered): the sets it may return
GetAddrOK(S, maxA, pct, net, filtered, R) ==
  LET n0 == IF pct # 0 THEN (Min(pct, 100) * S.nAll) \div 100 ELSE S.nAll
      n1 == IF maxA # 0 THEN Min(n0, maxA) ELSE n0
      elig == {a \in Addrs : S.info[a].known /\ (net = "any" \/ Cls(a) = net) /\ ~(filtered /\ Terrible(S.info[a], now))}
  IN R \subseteq elig /\ Cardinality(R) = Min(n1, Cardinality(elig))

(* ------------------------------------------------------------------ Serialize -> Unserialize into a fresh AddrMan *)
\* The file holds: the entries with a new-table reference, the tried entries (CAddress, source, last_success, attempts -
\* lastTry / lastCount are "memory only"), and per new bucket the entries referenced from it. Positions are not stored:
\* the reader recomputes them with the (stored) key.
SetToSeq(X) == LET RECURSIVE f(_) f(Y) == IF Y = {} THEN <<>> ELSE LET y == CHOOSE y \in Y : TRUE IN <<y>> \o f(Y \ {y}) IN f(X)
FileEntry(i) == [i EXCEPT !.lastTry = 0, !.lastCount = 0, !.ref = 0, !.tried = FALSE]
ReloadF(S) ==
  LET newA == {a \in Addrs : S.info[a].known /\ S.info[a].ref > 0}          \* "if (info.nRefCount)"
      triedA == {a \in Addrs : S.info[a].known /\ S.info[a].tried}           \* "if (info.fInTried)"
      refs == {<<e[1][1], e[2]>> : e \in S.newT}                             \* <<bucket, address>> pairs in the file
      \* 1. the new entries
      I0 == [a \in Addrs |-> IF a \in newA THEN FileEntry(S.info[a]) ELSE Blank]
      \* 2. the tried entries: placed if their slot is free, lost otherwise
      RECURSIVE PutTried(_, _)
      PutTried(R, todo) ==
        IF todo = <<>> THEN R
        ELSE LET a == Head(todo) IN
             IF AddrAt(R.triedT, TSlot(a)) = NoAddr /\ a \notin newA
             THEN PutTried([R EXCEPT !.triedT = @ \cup {<<TSlot(a), a>>},
                                     !.info[a] = [FileEntry(S.info[a]) EXCEPT !.tried = TRUE]], Tail(todo))
             ELSE PutTried(R, Tail(todo))
      R1 == PutTried([info |-> I0, newT |-> {}, triedT |-> {}], SetToSeq(triedA))
      \* 3. the bucket references: restored into the recomputed position if that is free (the fallback re-bucketing by
      \*    primary source is only taken after a collision, which the same key excludes - modelled as "not placed")
      RECURSIVE PutNew(_, _)
      PutNew(R, todo) ==
        IF todo = <<>> THEN R
        ELSE LET b == Head(todo)[1]
                 a == Head(todo)[2]
                 s == <<b, NPos(a, b)>>
             IN IF a \in newA /\ R.info[a].ref < MaxRef /\ AddrAt(R.newT, s) = NoAddr
                THEN PutNew([R EXCEPT !.newT = @ \cup {<<s, a>>}, !.info[a].ref = @ + 1], Tail(todo))
                ELSE PutNew(R, Tail(todo))
      R2 == PutNew(R1, SetToSeq(refs))
      \* 4. entries without any reference are pruned
      I3 == [a \in Addrs |-> IF R2.info[a].known /\ ~R2.info[a].tried /\ R2.info[a].ref = 0 THEN Blank ELSE R2.info[a]]
      isNew(a) == I3[a].known /\ ~I3[a].tried
      isTried(a) == I3[a].known /\ I3[a].tried
  IN [info |-> I3, newT |-> R2.newT, triedT |-> R2.triedT, coll |-> {}, stale |-> 0, lastGood |-> 1,
      cnt |-> [n \in Networks |-> [n |-> Cardinality({a \in Addrs : isNew(a) /\ Net(a) = n}),
                                   t |-> Cardinality({a \in Addrs : isTried(a) /\ Net(a) = n})]],
      nNew |-> Cardinality({a \in Addrs : isNew(a)}), nTried |-> Cardinality({a \in Addrs : isTried(a)}),
      nAll |-> Cardinality({a \in Addrs : I3[a].known})]

\* what a reload has to preserve: the addresses, their tables and slots, and the statistics that are stored
Stored(S) == [a \in Addrs |-> [S.info[a] EXCEPT !.lastTry = 0, !.lastCount = 0]]

(* ------------------------------------------------------------------ actions (parameters are bound by the MC / trace modules) *)
Keep == UNCHANGED <<uni, hash, now>>
\* (\E o \in {f} : .. makes TLC evaluate the state function once instead of once per use)
Add(items, src, pen, bs, ps) ==
  \E o \in {AddF(St, items, src, pen, bs, ps)} :
  SetSt(o.S) /\ Keep /\ lastAct' = <<"add", items, src, pen, bs, ps>> /\ lastRes' = o.r
Good(a, t, eb) ==
  \E o \in {GoodF(St, a, t, TRUE, eb)} :
  SetSt(o.S) /\ Keep /\ lastAct' = <<"good", a, t, eb>> /\ lastRes' = o.r
Attempt(a, cf, t) == \E S \in {AttemptF(St, a, cf, t)} : SetSt(S) /\ Keep /\ lastAct' = <<"attempt", a, cf, t>> /\ lastRes' = TRUE
Connected(a, t) == \E S \in {ConnectedF(St, a, t)} : SetSt(S) /\ Keep /\ lastAct' = <<"connected", a, t>> /\ lastRes' = TRUE
SetServices(a, svc) == \E S \in {SetServicesF(St, a, svc)} : SetSt(S) /\ Keep /\ lastAct' = <<"setservices", a, svc>> /\ lastRes' = TRUE
ResolveCollisions(order, ebs) ==
  \E S \in {ResolveAllF(St, order, ebs)} : SetSt(S) /\ Keep /\ lastAct' = <<"resolve", order, ebs>> /\ lastRes' = TRUE
SelectTriedCollision(pick) ==
  \E o \in {SelTCF(St, pick)} :
  SetSt(o.S) /\ Keep /\ lastAct' = <<"seltc", pick>> /\ lastRes' = o.r
SelectTriedCollisionEmpty ==
  coll = {} /\ stale = 0 /\ UNCHANGED <<core>> /\ Keep /\ lastAct' = <<"seltc", NoAddr>> /\ lastRes' = None
Select(newOnly, nets, r) ==
  /\ r \in SelectSet(St, newOnly, nets)
  /\ UNCHANGED <<core>> /\ Keep /\ lastAct' = <<"select", newOnly, nets>> /\ lastRes' = r
GetAddr(maxA, pct, net, filtered, R) ==
  /\ GetAddrOK(St, maxA, pct, net, filtered, R)
  /\ UNCHANGED <<core>> /\ Keep /\ lastAct' = <<"getaddr", maxA, pct, net, filtered>> /\ lastRes' = R
Reload == \E S \in {ReloadF(St)} : SetSt(S) /\ Keep /\ lastAct' = <<"reload">> /\ lastRes' = TRUE
Tick(t) == t >= now /\ now' = t /\ UNCHANGED <<uni, hash, core>> /\ lastAct' = <<"tick", t>> /\ lastRes' = TRUE

(* ------------------------------------------------------------------ the property *)
KnownA == {a \in Addrs : info[a].known}
Entries(T) == {e[1] : e \in T}
NewSlots == (0..NewBuckets - 1) \X (0..BucketSize - 1)
TriedSlots == (0..TriedBuckets - 1) \X (0..BucketSize - 1)

\* each address occupies at most MaxRef new slots (and the count is what the entry says) ...
RefCountOK == \A a \in Addrs : info[a].ref = Cardinality(SlotsOf(newT, a)) /\ info[a].ref <= MaxRef /\ info[a].ref >= 0
\* ... or exactly one tried slot (then no new slot at all)
TriedExclusive == \A a \in Addrs : IF info[a].tried THEN info[a].known /\ info[a].ref = 0 /\ SlotsOf(triedT, a) = {TSlot(a)}
                                   ELSE SlotsOf(triedT, a) = {}
\* every entry is in some table, nothing else is in a table (CheckAddrman -4, -12, -11)
KnownPlaced == \A a \in Addrs : IF info[a].known THEN info[a].tried \/ info[a].ref > 0 ELSE info[a] = Blank
\* a slot holds one address, slots exist, so a bucket never holds more than BucketSize entries
TablesBounded == /\ Cardinality(Entries(newT)) = Cardinality(newT) /\ Cardinality(Entries(triedT)) = Cardinality(triedT)
                 /\ Entries(newT) \subseteq NewSlots /\ Entries(triedT) \subseteq TriedSlots
                 /\ \A b \in {s[1] : s \in Entries(newT)} : Cardinality({s \in Entries(newT) : s[1] = b}) <= BucketSize
                 /\ \A b \in {s[1] : s \in Entries(triedT)} : Cardinality({s \in Entries(triedT) : s[1] = b}) <= BucketSize
\* entries sit where the keyed hash puts them (CheckAddrman -17, -18, -19)
PositionsOK == \A e \in newT : e[1][2] = NPos(e[2], e[1][1])
\* the incrementally maintained counters equal a recomputation (CheckAddrman -7, -9, -10, -21; what Size() reports)
CountersOK == /\ nNew = Cardinality({a \in KnownA : ~info[a].tried})
              /\ nTried = Cardinality({a \in KnownA : info[a].tried})
              /\ nAll = nNew + nTried
              /\ \A n \in Networks : /\ cnt[n].n = Cardinality({a \in KnownA : ~info[a].tried /\ Net(a) = n})
                                     /\ cnt[n].t = Cardinality({a \in KnownA : info[a].tried /\ Net(a) = n})
\* CheckAddrman -1, -6, -8
StatsOK == \A a \in KnownA : (info[a].tried => info[a].lastSucc # 0) /\ info[a].lastTry >= 0 /\ info[a].lastSucc >= 0
\* test-before-evict: a pending collision waits for an occupied tried slot ("remains occupied until we resolve it")
CollisionsOK == /\ Cardinality(coll) + stale <= MaxColl /\ stale >= 0
                /\ \A a \in coll : info[a].known /\ ~info[a].tried /\ AddrAt(triedT, TSlot(a)) # NoAddr
Consistent == RefCountOK /\ TriedExclusive /\ KnownPlaced /\ TablesBounded /\ PositionsOK /\ CountersOK /\ StatsOK /\ CollisionsOK

\* reloading a serialized address manager yields the same addresses, tables and stored statistics
ReloadSame == [][lastAct'[1] = "reload" => /\ Stored(St)' = Stored(St) /\ newT' = newT /\ triedT' = triedT
                                           /\ nNew' = nNew /\ nTried' = nTried /\ nAll' = nAll /\ cnt' = cnt]_vars
\* what Select and SelectTriedCollision hand out is a known address of the right table / network
SelectSound == [][/\ lastAct'[1] = "select" /\ lastRes' # None
                     => LET a == lastRes'.a IN /\ info[a].known /\ (lastAct'[2] => ~info[a].tried)
                                               /\ (lastAct'[3] # {} => Net(a) \in lastAct'[3])
                  /\ lastAct'[1] = "seltc" /\ lastRes' # None => info[lastRes'.a].tried]_vars
====
