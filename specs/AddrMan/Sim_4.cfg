CONSTANTS
  Addrs = {"a1", "a2", "a3", "a4"}
  Sources = {"s1", "s2"}
  Networks = {"ipv4", "onion", "unroutable"}
  Flags = {"N"}
  MCNets <- SimNets
  Unroutable = {}
  NewBuckets = 3
  TriedBuckets = 2
  BucketSize = 1
  MaxRef = 2
  MaxColl = 2
  Retries = 1
  MaxFailures = 2
  HNPos <- MCNPos
  HTSlot <- MCTSlot
  K <- SmallK
  MaxT = 6
  MaxAttempts = 9
  PastArgs = TRUE
  AddrTimeOffs <- OffsSim
  Pens = {0, 1, 2}
  SelectNets <- AllSelectNets
  Acts = {"attempt", "connected", "setservices", "select", "getaddr", "add2"}
INIT Init
NEXT SimNext
INVARIANTS RefCountOK TriedExclusive KnownPlaced TablesBounded PositionsOK CountersOK StatsOK CollisionsOK
PROPERTIES ReloadSame SelectSound
ACTION_CONSTRAINT Witness
CHECK_DEADLOCK FALSE
