CONSTANTS
  MaxMix = 3
  Thorough = TRUE
INIT Init
NEXT Next
INVARIANTS Agree Safe SkipIndependent TargetReached Shadowed DomainOK EmitRow
CHECK_DEADLOCK FALSE
