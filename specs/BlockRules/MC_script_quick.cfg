CONSTANTS
  MaxLen = 3
  Wide = FALSE
INIT Init
NEXT Next
INVARIANTS RleLemma DomainOK CostShape EmitRow
CHECK_DEADLOCK FALSE
