---- MODULE SigopRows ----
(***************************************************************************)
(* C06, script level (engine E4): every token sequence up to MaxLen over a  *)
(* small alphabet is placed in each role a script can play for sigop        *)
(* counting (output script, scriptSig of a P2SH spend, redeem script,       *)
(* witness script, P2SH-wrapped witness script, spent output script), and   *)
(* the counts the transcription (module Sigops) predicts are emitted as one *)
(* row per case; the harness evaluates the real GetSigOpCount,              *)
(* GetLegacySigOpCount, GetP2SHSigOpCount, CountWitnessSigOps and           *)
(* GetTransactionSigOpCost on the concrete bytes.  Also: rows for           *)
(* CScript() << height (BIP34) and the lemma that the run-length form of    *)
(* the count equals the opcode-by-opcode loop of the C++ code.              *)
(***************************************************************************)
EXTENDS Sigops, VF
CONSTANTS MaxLen,        \* longest enumerated token sequence
          Wide           \* TRUE: the larger alphabet

CS == Op("CS")  CSV == Op("CSV")  CMS == Op("CMS")  CMSV == Op("CMSV")
\* a push whose data bytes are CHECKSIG CHECKMULTISIG opcodes; (wide alphabet) a push whose single data byte is the OP_3 opcode: a
\* following CHECKMULTISIG counts 20, the previous opcode being the push
PushSigs == Push(<<CS, CMS>>)
Alphabet == {CS, CMS, Num(0), Num(3), Num(16), PushSigs, Op("RET"), Trunc(<<CS, CS>>, "min")}
            \cup (IF Wide THEN {CSV, CMSV, Num(1), Op("NEG1"), Op("NOP"), Push(<<Num(3)>>), Trunc(<<CMS>>, "pd1")} ELSE {})
Seqs == UNION {[1..k -> Alphabet] : k \in 0..MaxLen}
\* a truncated push swallows the rest of the script, so it can only be the last token
WellFormed(s) == \A i \in 1..Len(s) : s[i].t = "TRUNC" => i = Len(s)
Scripts == {s \in Seqs : WellFormed(s)}

P2shSpk == <<Op("HASH160"), PushH("fixed20", <<>>), Op("EQUAL")>>
TrueSpk == <<Num(1)>>
WshSpk  == <<Num(0), PushH("fixed32", <<>>)>>
WpkhSpk == <<Num(0), PushH("fixed20", <<>>)>>
FixedWs == <<Num(2), CMS, CS>>                 \* accurate count 3
\* output scripts with a fixed shape, for the classification of the spent output (role "spk")
SpecialSpks == {
  P2shSpk, WshSpk, WpkhSpk,
  <<Num(0), PushH("fixed25", <<>>)>>,                       \* v0, neither 20 nor 32 bytes: 0
  <<Num(0), PushH("fixed2", <<>>)>>, <<Num(0), PushH("fixed40", <<>>)>>, <<Num(0), PushH("fixed41", <<>>)>>,   \* 41: not a witness program
  <<Num(1), PushH("fixed32", <<>>)>>,                       \* taproot: 0
  <<Num(2), PushH("fixed32", <<>>)>>, <<Num(16), PushH("fixed20", <<>>)>>,   \* unknown versions: 0
  <<Num(0), PushHE("fixed32", <<>>, "pd1")>>,               \* not a direct push: not a witness program
  <<Op("NEG1"), PushH("fixed32", <<>>)>>,                   \* OP_1NEGATE is not a version opcode
  <<Num(0), PushH("fixed32", <<>>), Op("NOP")>>,            \* trailing opcode
  <<Op("HASH160"), PushHE("fixed20", <<>>, "pd1"), Op("EQUAL")>>,   \* P2SH pattern needs the direct push
  <<Op("HASH160"), PushH("fixed25", <<>>), Op("EQUAL")>>,
  <<Op("HASH160"), PushH("fixed20", <<>>), Op("EQUAL"), CS>>,
  <<Op("NOP"), Op("HASH160"), PushH("fixed20", <<>>), Op("EQUAL")>> }
\* scriptSigs of a P2SH spend whose last push is a witness program (P2SH-wrapped segwit)
WrapSigs == {
  <<Push(WshSpk)>>, <<Push(WpkhSpk)>>, <<Push(<<CS>>), Push(WshSpk)>>, <<Push(WshSpk), Push(<<CS, CS>>)>>,
  <<Op("NOP"), Push(WshSpk)>>, <<Push(WshSpk), Op("NOP")>>, <<Push(WshSpk), Trunc(<<CS>>, "min")>>, <<Num(5), Push(WshSpk)>>, <<Push(WshSpk), Num(5)>>,
  <<PushE(WshSpk, "pd1")>>, <<Push(<<Num(1), PushH("fixed32", <<>>)>>)>>, <<Push(<<Num(0), PushH("fixed25", <<>>)>>)>>, <<>> }

In(spk, sig, wit) == [null |-> FALSE, spk |-> spk, sig |-> sig, wit |-> wit]
Case(role, spk, sig, wit, out) == [role |-> role, spk |-> spk, sig |-> sig, wit |-> wit, out |-> out]
Cases ==
       {Case("out", TrueSpk, <<>>, <<>>, s) : s \in Scripts}
  \cup {Case("sig", TrueSpk, s, <<>>, <<>>) : s \in Scripts}
  \cup {Case("p2shsig", P2shSpk, s, <<Item(FixedWs)>>, <<>>) : s \in Scripts}
  \cup {Case("redeem", P2shSpk, <<Push(<<CS>>), Push(s)>>, <<>>, <<>>) : s \in Scripts}
  \cup {Case("redeem_first", P2shSpk, <<Push(s), Push(<<CS>>)>>, <<>>, <<>>) : s \in Scripts}
  \cup {Case("redeem_nonpush", P2shSpk, <<Op("NOP"), Push(s)>>, <<>>, <<>>) : s \in Scripts}
  \cup {Case("wscript", WshSpk, <<>>, <<Item(<<CS>>), Item(s)>>, <<>>) : s \in Scripts}
  \cup {Case("wscript_first", WshSpk, <<>>, <<Item(s), Item(<<CS>>)>>, <<>>) : s \in Scripts}
  \cup {Case("wscript_wrapped", P2shSpk, <<Push(WshSpk)>>, <<Item(s)>>, <<>>) : s \in Scripts}
  \cup {Case("wscript_v1", <<Num(1), PushH("fixed32", <<>>)>>, <<>>, <<Item(s), ItemH("control", <<>>)>>, <<>>) : s \in Scripts}
  \cup {Case("spk", s, <<Push(<<CS>>)>>, <<Item(<<CS, CS>>)>>, <<>>) : s \in {x \in Scripts : Len(x) > 0 /\ x[1].t # "RET"}}
  \cup {Case("special", s, <<Push(<<CS, CMS>>)>>, <<Item(<<CS>>), Item(FixedWs)>>, <<>>) : s \in SpecialSpks}
  \cup {Case("special_nowit", s, <<>>, <<>>, <<>>) : s \in SpecialSpks}
  \cup {Case("wrap", P2shSpk, s, <<Item(<<CS>>), Item(FixedWs)>>, <<>>) : s \in WrapSigs}
  \cup {Case("wrap_nowit", P2shSpk, s, <<>>, <<>>) : s \in WrapSigs}

\* BIP34: CScript() << height
Heights == {0, 1, 2, 15, 16, 17, 103, 127, 128, 129, 255, 256, 257, 32767, 32768, 32769, 65535, 65536, 8388607, 8388608, 8388609, 2147483647}

VARIABLES kind, c, h
vars == <<kind, c, h>>
NoCase == Case("", <<>>, <<>>, <<>>, <<>>)
Init == \/ kind = "count" /\ c \in Cases /\ h = 0
        \/ kind = "height" /\ c = NoCase /\ h \in Heights
Next == UNCHANGED vars

TxOf(x) == [ins |-> <<In(x.spk, x.sig, x.wit)>>, outs |-> <<x.out>>]
\* the transcription's run-length shortcut is the opcode-by-opcode loop
AllScripts(x) == {x.spk, x.sig, x.out} \cup {x.wit[i].d : i \in 1..Len(x.wit)}
RleLemma == kind = "count" => \A s \in AllScripts(c) : \A acc \in BOOLEAN : Count(s, acc) = CountPlain(s, acc)
\* the data of the pushes the functions look into is given as scripts in this domain
DomainOK == kind = "count" => /\ \A i \in 1..Len(c.sig) : DataKnown(c.sig[i])
                              /\ \A i \in 1..Len(c.wit) : c.wit[i].how \in {"raw", "control"}
\* cost composition: never negative, witness sigops unscaled, legacy and P2SH scaled by 4
CostShape == kind = "count" => LET t == TxOf(c) IN TxCost(t) = 4 * (TxLegacy(t) + TxP2SH(t)) + TxWitness(t) /\ TxWitness(t) >= 0 /\ TxP2SH(t) >= 0

EmitRow == IF kind = "count"
           THEN LET t == TxOf(c) IN
                VFRow([kind |-> kind, role |-> c.role, spk |-> JS(c.spk), sig |-> JS(c.sig), wit |-> JWit(c.wit), out |-> JS(c.out),
                       legacy |-> TxLegacy(t), p2sh |-> TxP2SH(t), witc |-> TxWitness(t), cost |-> TxCost(t),
                       out_acc |-> Count(c.out, TRUE), out_inacc |-> Count(c.out, FALSE), sig_acc |-> Count(c.sig, TRUE)])
           ELSE VFRow([kind |-> kind, h |-> h, bytes |-> SerHeight(h)])
====
