CONSTANTS
  MaxLen = 3
  Wide = TRUE
INIT Init
NEXT Next
INVARIANTS RleLemma DomainOK CostShape EmitRow
CHECK_DEADLOCK FALSE
