---- MODULE BlockRules ----
(***************************************************************************)
(* C06: "Accepted blocks have the required structure and respect resource  *)
(* limits".                                                                *)
(*                                                                         *)
(* Check(b)   = the ordered rule list of the code: CheckBlock, then         *)
(*              ContextualCheckBlock, then the sigop-cost rule of           *)
(*              ConnectBlock (src/validation.cpp).                          *)
(* C06(b)     = the declarative statement of the property.                  *)
(* Others(b)  = the rules of the same functions the statement is silent on  *)
(*              (CheckTransaction, finality, witness commitment).           *)
(* TLC proves on the enumerated domain: Check(b) = "ok" <=> C06(b) /\       *)
(* Others(b); the harness builds every block for real and compares the      *)
(* node's verdict.  A block is a list of transactions whose scripts are     *)
(* token sequences (module Sigops); the sigop cost of a block is computed   *)
(* from those scripts by the transcribed counting functions, never from the *)
(* feature vector the block was built from.                                 *)
(***************************************************************************)
EXTENDS Sigops, VF
CONSTANTS MaxMix,        \* largest enumerated mixture of counted sigop placements (besides "all of them")
          Thorough       \* TRUE: the larger domain

MAXW == 4000000          \* MAX_BLOCK_WEIGHT
MAXSIG == 80000          \* MAX_BLOCK_SIGOPS_COST
SCALE == 4               \* WITNESS_SCALE_FACTOR
H0 == 103                \* height of the blocks that spend prepared coins (base chain 1..101, funding block 102)

\* ---------------------------------------------------------------- building blocks
CSn(k) == OpR("CS", k)
Hidden(body) == <<Num(0), Op("OPIF")>> \o body \o <<Op("OPENDIF"), Num(1)>>     \* valid to execute, body is counted but never run
TrueSpk == <<Num(1)>>
P2shSpk(r) == <<Op("HASH160"), PushH("h160", r), Op("EQUAL")>>
WshSpk(ws) == <<Num(0), PushH("sha256", ws)>>
WpkhSpk == <<Num(0), PushH("keyhash", <<>>)>>
TrSpk(ts) == <<Num(1), PushH("taproot", ts)>>
V2Spk == <<Num(2), PushH("fixed32", <<>>)>>

\* an input: which prepared coin it spends = (spk, ord); null = the coinbase's null prevout
In(spk, sig, wit, ord) == [null |-> FALSE, spk |-> spk, sig |-> sig, wit |-> wit, seqfinal |-> TRUE, ord |-> ord]
NullIn(sig, wit) == [null |-> TRUE, spk |-> <<>>, sig |-> sig, wit |-> wit, seqfinal |-> TRUE, ord |-> 0]
Tx(ins, outs) == [ins |-> ins, outs |-> outs, lock |-> 0]
Spend(spk, sig, wit, ord, out) == Tx(<<In(spk, sig, wit, ord)>>, <<out>>)

\* --- sigop placements: one transaction each (the coinbase ones extend the coinbase scriptSig)
WsA == Hidden(<<Num(2), Op("CMSV"), CSn(9)>>)              \* accurate 11
WsB == Hidden(<<Num(5), Op("CMS"), CSn(2)>>)               \* accurate 7
RsA == Hidden(<<Num(3), Op("CMS"), CSn(4), Op("CMS")>>)    \* accurate 3 + 4 + 20 = 27 (inaccurate would be 44)
WpkhWit == <<ItemH("sig", <<>>), ItemH("pubkey", <<>>)>>
Counted == {"cbSig", "cbSigMs", "txSig", "txOut", "opretOut", "msOut", "p2sh", "p2wpkh", "p2wsh", "p2shwsh", "p2shwpkh"}
Uncounted == {"uPushData", "uTrunc", "uTap", "uV2", "uWitData", "uP2shData", "uCbNonce"}
PlaceTx == [
  txSig     |-> Spend(TrueSpk, <<Num(0), Op("OPIF"), CSn(7), Op("OPENDIF")>>, <<>>, 1, TrueSpk),          \* legacy, in a scriptSig: 7
  txOut     |-> Spend(TrueSpk, <<>>, <<>>, 2, <<CSn(3), OpR("CSV", 2)>>),                                 \* legacy, output script: 5
  opretOut  |-> Spend(TrueSpk, <<>>, <<>>, 3, <<Op("RET"), CSn(6)>>),                                      \* after OP_RETURN: still 6
  msOut     |-> Spend(TrueSpk, <<>>, <<>>, 4, <<Num(3), Op("CMS"), Num(16), Op("CMSV")>>),                 \* legacy counts 20 each: 40
  p2sh      |-> Spend(P2shSpk(RsA), <<Push(RsA)>>, <<>>, 1, TrueSpk),                                      \* 27, scaled
  p2wpkh    |-> Spend(WpkhSpk, <<>>, WpkhWit, 1, TrueSpk),                                                 \* 1
  p2wsh     |-> Spend(WshSpk(WsA), <<>>, <<Item(WsA)>>, 1, TrueSpk),                                       \* 11
  p2shwsh   |-> Spend(P2shSpk(WshSpk(WsB)), <<Push(WshSpk(WsB))>>, <<Item(WsB)>>, 1, TrueSpk),             \* 7
  p2shwpkh  |-> Spend(P2shSpk(WpkhSpk), <<Push(WpkhSpk)>>, WpkhWit, 1, TrueSpk),                           \* 1
  uPushData |-> Spend(TrueSpk, <<>>, <<>>, 5, <<Push(<<CSn(40)>>), Push(<<OpR("CMS", 3)>>)>>),             \* bytes inside push data: 0
  uTrunc    |-> Spend(TrueSpk, <<>>, <<>>, 6, <<Op("CS"), Trunc(<<CSn(10)>>, "min")>>),                    \* 1 counted, then the count stops
  uTap      |-> Spend(TrSpk(Hidden(<<CSn(50)>>)), <<>>, <<Item(Hidden(<<CSn(50)>>)), ItemH("control", Hidden(<<CSn(50)>>))>>, 1, TrueSpk),
  uV2       |-> Spend(V2Spk, <<>>, <<Item(<<CSn(30)>>)>>, 2, TrueSpk),                                     \* unknown witness version: 0
  uWitData  |-> Spend(WshSpk(<<Op("DROP"), Num(1)>>), <<>>, <<Item(<<CSn(25)>>), Item(<<Op("DROP"), Num(1)>>)>>, 1, TrueSpk),
  uP2shData |-> Spend(P2shSpk(<<Op("DROP"), Num(1)>>), <<Push(<<CSn(15)>>), Push(<<Op("DROP"), Num(1)>>)>>, <<>>, 1, TrueSpk) ]
PlaceOrder == <<"txSig", "txOut", "opretOut", "msOut", "p2sh", "p2wpkh", "p2wsh", "p2shwsh", "p2shwpkh",
                "uPushData", "uTrunc", "uTap", "uV2", "uWitData", "uP2shData">>
WFillTx(w) == Spend(WshSpk(Hidden(<<CSn(w)>>)), <<>>, <<Item(Hidden(<<CSn(w)>>))>>, 1, TrueSpk)            \* w witness sigops, cost w
PadTx == Spend(V2Spk, <<>>, <<ItemH("pad", <<>>)>>, 1, TrueSpk)                                            \* witness bytes up to the weight target

\* --- BIP34: the first token of the coinbase scriptSig
NumTok(n) == IF n <= 16 THEN Num(n) ELSE PushB(NumBytes(n))
RECURSIVE LE4(_, _)
LE4(n, k) == IF k = 0 THEN <<>> ELSE <<n % 256>> \o LE4(n \div 256, k - 1)
EncTok(enc, h) ==
  CASE enc = "ok"     -> NumTok(h)
    [] enc = "hp1"    -> NumTok(h + 1)
    [] enc = "hm1"    -> NumTok(h - 1)
    [] enc = "short"  -> LET e == SerHeight(h) IN TruncB(SubSeq(e, 1, Len(e) - 1))          \* the encoding without its last byte
    [] enc = "pad0"   -> PushB((IF h <= 16 THEN <<h>> ELSE NumBytes(h)) \o <<0>>)             \* same number, not minimally encoded
    [] enc = "push1"  -> PushB(<<h>>)                                                      \* h <= 16 as a data push instead of OP_h
    [] enc = "pd1"    -> PushBE(IF h <= 16 THEN <<h>> ELSE NumBytes(h), "pd1")               \* OP_PUSHDATA1 form
    [] enc = "le4"    -> PushB(LE4(h, 4))
    [] enc = "nosign" -> PushB(LE(h))                                                      \* without the sign-padding byte (a negative number)
EncsFor(h) == {"ok", "hp1", "hm1", "pad0", "pd1", "le4"}
              \cup (IF h <= 16 THEN {"push1"} ELSE {"short"})
              \cup (IF h > 16 /\ Len(NumBytes(h)) > Len(LE(h)) THEN {"nosign"} ELSE {})
Filler75 == PushB([i \in 1..75 |-> 7])
Sfx(s) == CASE s = "none" -> <<>>
            [] s = "data" -> <<PushB(<<1, 2, 3>>)>>
            [] s = "sigs" -> <<CSn(2)>>
            [] s = "len100" -> <<Filler75, PushB([i \in 1..21 |-> 7])>>       \* with a 2-byte height: exactly 100 bytes
            [] s = "len101" -> <<Filler75, PushB([i \in 1..22 |-> 7])>>

\* ---------------------------------------------------------------- feature vectors
FV0 == [fam |-> "natural", h |-> H0, bip34 |-> 1, layout |-> <<"cb">>, enc |-> "ok", sfx |-> "data", mix |-> {}, unc |-> {}, target |-> 0,
        filler |-> "cs", base |-> 0, weight |-> 0, commit |-> "auto", cbwit |-> "auto", lock |-> "none", txbad |-> "none", skip |-> FALSE, badscript |-> FALSE]

Layouts == UNION {[1..k -> {"cb", "tx", "cb2"}] : k \in 0..3}
FamLayout == {[FV0 EXCEPT !.fam = "layout", !.layout = l] : l \in Layouts}

BipHeights == IF Thorough THEN {1, 2, 15, 16, 17, 18, 103, 126, 127, 128, 129, 130, 254, 255, 256, 257, 300} ELSE {1, 2, 16, 17, 103, 127, 128, 129, 255, 256}
FamBip34 == {[FV0 EXCEPT !.fam = "bip34", !.h = hh, !.enc = e, !.sfx = s] :
                hh \in BipHeights, e \in UNION {EncsFor(x) : x \in BipHeights}, s \in {"none", "data", "sigs"}}
\* before activation (-testactivationheight=bip34@4) any coinbase scriptSig of legal length is fine
FamBip34Off == {[FV0 EXCEPT !.fam = "bip34off", !.bip34 = 4, !.h = hh, !.enc = e] : hh \in {3, 4}, e \in {"ok", "hp1", "hm1", "pad0"}}
FamCbLen == {[FV0 EXCEPT !.fam = "cblen", !.sfx = s] : s \in {"len100", "len101"}}

Mixes == {m \in SUBSET Counted : Cardinality(m) <= MaxMix} \cup {Counted}
UncSets(m) == {{}, Uncounted} \cup (IF m = {} \/ m = Counted \/ Thorough THEN {{u} : u \in Uncounted} ELSE {})
Targets == {79996, 79999, 80000, 80001, 80004}
FamSigops == {[FV0 EXCEPT !.fam = "sigops", !.mix = m, !.unc = u, !.target = t, !.filler = f] :
                m \in Mixes, u \in SUBSET Uncounted, t \in Targets, f \in {"cs", "ms"}}
FamSigopsOK(v) == v.unc \in UncSets(v.mix) /\ (v.filler = "ms" => (v.mix \in {{}, Counted} \/ Thorough))

W == MAXW
\* (base, weight): 0 = whatever the block weighs without padding
WeightPairs == { <<0, W - 1>>, <<0, W>>, <<0, W + 1>>,                               \* witness-dominated
                 <<999900, W - 1>>, <<999900, W>>, <<999900, W + 1>>,               \* mostly non-witness bytes, a few hundred witness bytes
                 <<999999, 3999996>>, <<1000000, W>>, <<1000001, W + 4>>,           \* no witness at all: weight = 4 x stripped size
                 <<1000000, W + 100>>, <<999980, W>>, <<999980, W + 1>> }
FamWeight == {[FV0 EXCEPT !.fam = "weight", !.base = p[1], !.weight = p[2]] : p \in WeightPairs}
\* both limits at once: each is decided on its own
FamBoth == {[FV0 EXCEPT !.fam = "both", !.base = 999000, !.weight = w, !.target = t, !.mix = Counted, !.unc = Uncounted] :
              w \in {W, W + 1}, t \in {80000, 80001}}

FamWitness == {[FV0 EXCEPT !.fam = "witness", !.mix = m, !.commit = c, !.cbwit = w] :
                 m \in {{}, {"p2wsh"}}, c \in {"auto", "none", "bad", "force", "bad_then_ok", "ok_then_bad"}, w \in {"auto", "none", "short", "long", "two", "nonce"}}
FamLock == {[FV0 EXCEPT !.fam = "lock", !.lock = l] : l \in {"cb_hm1", "cb_h", "cb_h_final", "tx_hm1", "tx_h", "tx_h_final"}}
FamTxBad == {[FV0 EXCEPT !.fam = "txbad", !.txbad = x] : x \in {"dupin", "noout", "dupin_split"}}
\* a spend whose script fails (the one rule that may depend on whether script verification is skipped)
FamScripts == {[FV0 EXCEPT !.fam = "scripts", !.badscript = TRUE]}
\* "scripts skipped": the block is connected on the assumed-valid fast path of ConnectBlock (buried under more than two weeks of headers
\* below an assumed-valid block), where no script is executed. The resource rules must not notice: the sigop-cost boundary from every kind of
\* counted placement and the weight boundary are replayed in that configuration. Every such block carries a spend with a failing script,
\* so an accepted block also proves that scripts really were skipped.
SkipMixes == IF Thorough THEN {{}, Counted} \cup {{c} : c \in Counted} \cup {{"p2sh", "p2wsh"}, {"p2shwsh", "p2shwpkh", "p2wpkh"}}
             ELSE {{}, {"txOut"}, {"p2sh"}, {"p2wsh"}, {"p2shwsh"}, Counted}
SkipWeights == {<<0, W - 1>>, <<0, W>>, <<0, W + 1>>, <<999900, W>>, <<999900, W + 1>>, <<1000000, W>>, <<1000001, W + 4>>}
FamSkip == {[FV0 EXCEPT !.fam = "skip", !.skip = TRUE, !.mix = m, !.target = t] : m \in SkipMixes, t \in Targets}
           \cup {[FV0 EXCEPT !.fam = "skip", !.skip = TRUE, !.base = p[1], !.weight = p[2]] : p \in SkipWeights}
           \cup {[FV0 EXCEPT !.fam = "skip", !.skip = TRUE, !.base = 999000, !.weight = w, !.target = t, !.mix = Counted] : w \in {W, W + 1}, t \in {80000, 80001}}
           \cup {[FV0 EXCEPT !.fam = "skip", !.skip = TRUE]}

AllFV == {FV0} \cup FamLayout \cup {v \in FamBip34 : v.enc \in EncsFor(v.h) /\ (v.enc = "short" => v.sfx # "sigs")} \cup FamBip34Off \cup FamCbLen
         \cup {v \in FamSigops : FamSigopsOK(v)} \cup FamWeight \cup FamBoth \cup FamWitness \cup FamLock \cup FamTxBad \cup FamScripts \cup FamSkip

\* ---------------------------------------------------------------- Build: feature vector -> block
CommitOut == <<Op("RET"), PushH("commit", <<>>)>>
BadCommitOut == <<Op("RET"), PushH("badcommit", <<>>)>>
RowIdOut == <<Op("RET"), PushH("rowid", <<>>)>>
SeqToSet(q) == {q[i] : i \in 1..Len(q)}
RECURSIVE Filter(_, _)
Filter(q, S) == IF q = <<>> THEN <<>> ELSE (IF Head(q) \in S THEN <<Head(q)>> ELSE <<>>) \o Filter(Tail(q), S)
TxHasWit(tx) == \E i \in 1..Len(tx.ins) : Len(tx.ins[i].wit) > 0

LayoutTx(kind, i, main) ==
  IF kind = "tx" THEN Spend(TrueSpk, <<>>, <<>>, 10 + i, TrueSpk)
  ELSE IF kind = "cb2" THEN Tx(<<NullIn(<<PushB(<<i, i>>)>>, <<>>), In(TrueSpk, <<>>, <<>>, 10 + i)>>, <<TrueSpk>>)
  ELSE IF i = main.pos THEN main.tx
  ELSE Tx(<<NullIn(<<PushB(<<i, i, i>>)>>, <<>>)>>, <<TrueSpk>>)            \* one more coinbase-shaped transaction

LockTx(v) ==
  IF v.lock \in {"tx_hm1", "tx_h", "tx_h_final"}
  THEN <<[Tx(<<[In(TrueSpk, <<>>, <<>>, 30) EXCEPT !.seqfinal = (v.lock = "tx_h_final")]>>, <<TrueSpk>>) EXCEPT !.lock = IF v.lock = "tx_hm1" THEN v.h - 1 ELSE v.h]>>
  ELSE <<>>
BadTx(v) ==
  IF v.txbad = "dupin" THEN <<Tx(<<In(TrueSpk, <<>>, <<>>, 31), In(TrueSpk, <<>>, <<>>, 31)>>, <<TrueSpk>>)>>
  ELSE IF v.txbad = "dupin_split" THEN <<Tx(<<In(TrueSpk, <<>>, <<>>, 31), In(TrueSpk, <<>>, <<>>, 32), In(TrueSpk, <<>>, <<>>, 31)>>, <<TrueSpk>>)>>
  ELSE IF v.txbad = "noout" THEN <<Tx(<<In(TrueSpk, <<>>, <<>>, 31)>>, <<>>)>>
  ELSE <<>>
\* a spend whose scriptSig is OP_RETURN: no sigops, fails when executed
FailTx(v) == IF v.badscript \/ v.skip THEN <<Spend(TrueSpk, <<Op("RET")>>, <<>>, 33, TrueSpk)>> ELSE <<>>

\* f legacy filler sigops on a coinbase output, w witness filler sigops
BuildCore(v, f, w) ==
  LET names  == Filter(PlaceOrder, v.mix \cup v.unc)
      ptxs   == [i \in 1..Len(names) |-> PlaceTx[names[i]]]
      wtx    == IF w > 0 THEN <<WFillTx(w)>> ELSE <<>>
      padtx  == IF (v.base = 0 /\ v.weight > 0) \/ (v.base > 0 /\ v.weight > SCALE * v.base) THEN <<PadTx>> ELSE <<>>
      others == ptxs \o wtx \o LockTx(v) \o BadTx(v) \o FailTx(v) \o padtx
      anywit == \E i \in 1..Len(others) : TxHasWit(others[i])
      commitouts == CASE v.commit = "auto" -> IF anywit THEN <<CommitOut>> ELSE <<>>
                      [] v.commit = "none" -> <<>>
                      [] v.commit = "bad" -> <<BadCommitOut>>
                      [] v.commit = "force" -> <<CommitOut>>
                      [] v.commit = "bad_then_ok" -> <<BadCommitOut, CommitOut>>
                      [] v.commit = "ok_then_bad" -> <<CommitOut, BadCommitOut>>
      nonce  == IF "uCbNonce" \in v.unc THEN <<Item(<<CSn(32)>>)>> ELSE <<Item(<<NumR(0, 32)>>)>>
      cbwit  == CASE v.cbwit = "auto" -> IF commitouts # <<>> THEN nonce ELSE <<>>
                  [] v.cbwit = "none" -> <<>>
                  [] v.cbwit = "nonce" -> nonce
                  [] v.cbwit = "short" -> <<Item(<<NumR(0, 31)>>)>>
                  [] v.cbwit = "long" -> <<Item(<<NumR(0, 33)>>)>>
                  [] v.cbwit = "two" -> <<Item(<<NumR(0, 32)>>), Item(<<NumR(0, 32)>>)>>
      sigsfx == (IF "cbSig" \in v.mix THEN <<CSn(5)>> ELSE <<>>) \o (IF "cbSigMs" \in v.mix THEN <<Num(2), Op("CMS")>> ELSE <<>>)
      fill   == IF f = 0 THEN <<>>
                ELSE IF v.filler = "cs" THEN <<<<CSn(f)>>>>
                ELSE <<(IF f \div 20 > 0 THEN <<OpR("CMS", f \div 20)>> ELSE <<>>) \o (IF f % 20 > 0 THEN <<CSn(f % 20)>> ELSE <<>>)>>
      padout == IF v.base > 0 THEN <<<<Op("RET"), Op("PAD")>>>> ELSE <<>>
      cbin   == [NullIn(<<EncTok(v.enc, v.h)>> \o Sfx(v.sfx) \o sigsfx, cbwit) EXCEPT !.seqfinal = ~(v.lock \in {"cb_hm1", "cb_h"})]
      cb     == [Tx(<<cbin>>, <<TrueSpk>> \o fill \o padout \o <<RowIdOut>> \o commitouts)
                 EXCEPT !.lock = IF v.lock = "cb_hm1" THEN v.h - 1 ELSE IF v.lock \in {"cb_h", "cb_h_final"} THEN v.h ELSE 0]
      cbpos  == IF \E i \in 1..Len(v.layout) : v.layout[i] = "cb" THEN CHOOSE i \in 1..Len(v.layout) : v.layout[i] = "cb" /\ \A j \in 1..(i - 1) : v.layout[j] # "cb" ELSE 0
      ltxs   == [i \in 1..Len(v.layout) |-> LayoutTx(v.layout[i], i, [pos |-> cbpos, tx |-> cb])]
  IN [h |-> v.h, bip34 |-> v.bip34, base |-> v.base, weight |-> v.weight, txs |-> ltxs \o others,
      skip |-> v.skip, scriptsOK |-> FailTx(v) = <<>>]

\* ---------------------------------------------------------------- the rules
Txs(b) == b.txs
NTx(b) == Len(b.txs)
\* CheckTransaction (property C03), as far as block construction here can violate it
HasDupIn(tx) == \E i, j \in 1..Len(tx.ins) : i < j /\ tx.ins[i].null = tx.ins[j].null /\ tx.ins[i].spk = tx.ins[j].spk /\ tx.ins[i].ord = tx.ins[j].ord
CheckTx(tx) ==
  IF Len(tx.ins) = 0 THEN "bad-txns-vin-empty"
  ELSE IF Len(tx.outs) = 0 THEN "bad-txns-vout-empty"
  ELSE IF HasDupIn(tx) THEN "bad-txns-inputs-duplicate"
  ELSE IF IsCoinBase(tx) THEN (IF SerLen(tx.ins[1].sig) < 2 \/ SerLen(tx.ins[1].sig) > 100 THEN "bad-cb-length" ELSE "ok")
  ELSE IF \E i \in 1..Len(tx.ins) : tx.ins[i].null THEN "bad-txns-prevout-null" ELSE "ok"
\* IsFinalTx with height locks
IsFinal(tx, h) == tx.lock = 0 \/ tx.lock < h \/ \A i \in 1..Len(tx.ins) : tx.ins[i].seqfinal
LegacyTotal(b) == SumSeq([i \in 1..NTx(b) |-> TxLegacy(b.txs[i])])
TotalCost(b) == SumSeq([i \in 1..NTx(b) |-> TxCost(b.txs[i])])
\* ConnectBlock: nSigOpsCost += cost(tx); if (nSigOpsCost > MAX) fail — evaluated after every transaction
RECURSIVE CumulativeExceeds(_, _, _)
CumulativeExceeds(b, i, acc) == IF i > NTx(b) THEN FALSE ELSE LET a == acc + TxCost(b.txs[i]) IN a > MAXSIG \/ CumulativeExceeds(b, i + 1, a)

HasPrefix(s, p) == Len(s) >= Len(p) /\ \A i \in 1..Len(p) : s[i] = p[i]
Bip34Active(b) == b.h >= b.bip34                        \* DeploymentActiveAfter(pindexPrev, HEIGHTINCB)
CbSigBytes(b) == ScriptBytes(b.txs[1].ins[1].sig)

IsCommit(s) == Len(s) = 2 /\ s[1].t = "RET" /\ s[2].t = "PUSH" /\ s[2].how \in {"commit", "badcommit"}
CommitIdx(cb) == {i \in 1..Len(cb.outs) : IsCommit(cb.outs[i])}
SetMax(S) == CHOOSE x \in S : \A y \in S : y <= x
\* CheckWitnessMalleation(expect_witness_commitment = TRUE: segwit is active from genesis on regtest)
WitnessRule(b) ==
  LET cb == b.txs[1] ci == CommitIdx(cb) IN
  IF ci # {} THEN
     LET w == cb.ins[1].wit IN
     IF Len(w) # 1 \/ SerLen(w[1].d) # 32 THEN "bad-witness-nonce-size"
     ELSE IF cb.outs[SetMax(ci)][2].how = "badcommit" THEN "bad-witness-merkle-match" ELSE "ok"
  ELSE IF \E i \in 1..NTx(b) : TxHasWit(b.txs[i]) THEN "unexpected-witness" ELSE "ok"

FirstBadTx(b) == CHOOSE i \in 1..NTx(b) : CheckTx(b.txs[i]) # "ok" /\ \A j \in 1..(i - 1) : CheckTx(b.txs[j]) = "ok"

\* the code's order
Check(b) ==
  \* CheckBlock
  IF NTx(b) = 0 \/ NTx(b) * SCALE > MAXW \/ b.base * SCALE > MAXW THEN "bad-blk-length"
  ELSE IF ~IsCoinBase(b.txs[1]) THEN "bad-cb-missing"
  ELSE IF \E i \in 2..NTx(b) : IsCoinBase(b.txs[i]) THEN "bad-cb-multiple"
  ELSE IF \E i \in 1..NTx(b) : CheckTx(b.txs[i]) # "ok" THEN CheckTx(b.txs[FirstBadTx(b)])
  ELSE IF LegacyTotal(b) * SCALE > MAXSIG THEN "bad-blk-sigops"
  \* ContextualCheckBlock
  ELSE IF \E i \in 1..NTx(b) : ~IsFinal(b.txs[i], b.h) THEN "bad-txns-nonfinal"
  ELSE IF Bip34Active(b) /\ ~HasPrefix(CbSigBytes(b), SerHeight(b.h)) THEN "bad-cb-height"
  ELSE IF WitnessRule(b) # "ok" THEN WitnessRule(b)
  ELSE IF b.weight > MAXW THEN "bad-blk-weight"
  \* ConnectBlock
  \* (the sigop cost is counted with the block's script flags, P2SH and WITNESS on regtest, whether or not scripts are verified)
  ELSE IF CumulativeExceeds(b, 1, 0) THEN "bad-blk-sigops"
  \* script verification, unless skipped (assumed-valid)
  ELSE IF ~b.skip /\ ~b.scriptsOK THEN "script-failed"
  ELSE "ok"

\* ---------------------------------------------------------------- the statement of C06
OneCoinbaseFirst(b) == NTx(b) >= 1 /\ IsCoinBase(b.txs[1]) /\ \A i \in 2..NTx(b) : ~IsCoinBase(b.txs[i])
\* "whose scriptSig begins with the block height once BIP34 is active"
HeightOK(b) == Bip34Active(b) => \E k \in 0..Len(CbSigBytes(b)) : SubSeq(CbSigBytes(b), 1, k) = SerHeight(b.h)
\* "weight at most 4,000,000, a transaction count and non-witness size within the same bound"
SizeOK(b) == b.weight <= MAXW /\ SCALE * NTx(b) <= MAXW /\ SCALE * b.base <= MAXW
\* "a total signature-operation cost (legacy, P2SH and witness) of at most 80,000"
SigopsOK(b) == SCALE * SumSeq([i \in 1..NTx(b) |-> TxLegacy(b.txs[i]) + TxP2SH(b.txs[i])]) + SumSeq([i \in 1..NTx(b) |-> TxWitness(b.txs[i])]) <= MAXSIG
C06(b) == OneCoinbaseFirst(b) /\ HeightOK(b) /\ SizeOK(b) /\ SigopsOK(b)
\* the rules of the same code path the statement does not mention
Others(b) == /\ \A i \in 1..NTx(b) : CheckTx(b.txs[i]) = "ok"
             /\ \A i \in 1..NTx(b) : IsFinal(b.txs[i], b.h)
             /\ (OneCoinbaseFirst(b) => WitnessRule(b) = "ok")
             /\ (b.skip \/ b.scriptsOK)

\* ---------------------------------------------------------------- TLC
VARIABLES fv, blk, res
vars == <<fv, blk, res>>
Build(v) == IF v.target = 0 THEN BuildCore(v, 0, 0)
            ELSE LET rem == v.target - TotalCost(BuildCore(v, 0, 0)) IN BuildCore(v, rem \div SCALE, rem % SCALE)
Init == /\ fv \in AllFV
        /\ blk = Build(fv)
        /\ res = Check(blk)
Next == UNCHANGED vars

\* accept <=> statement (and the rules the statement is silent on)
Agree == (res = "ok") <=> (C06(blk) /\ Others(blk))
Safe == (res = "ok") => C06(blk)
\* block resource rules are enforced identically whether or not script verification is skipped: the verdict of a block connected with
\* scripts skipped is the verdict of the same block (without the failing spend that marks the skip) connected with scripts verified
SkipIndependent == fv.skip => /\ res = Check(Build([fv EXCEPT !.skip = FALSE]))
                              /\ C06(blk) = C06(Build([fv EXCEPT !.skip = FALSE]))
                              /\ TotalCost(blk) = TotalCost(Build([fv EXCEPT !.skip = FALSE]))
\* Build reaches the sigop target it was asked for, and the sizes are consistent
TargetReached == fv.target > 0 => TotalCost(blk) = fv.target
\* the two shadowed rules: the CheckBlock pre-checks never reject a block that the later, complete checks would accept
Shadowed == (LegacyTotal(blk) * SCALE > MAXSIG => TotalCost(blk) > MAXSIG)
\* domain sanity: bytes of every coinbase scriptSig are known to the specification; weights are consistent
DomainOK == /\ (NTx(blk) > 0 /\ IsCoinBase(blk.txs[1]) => BytesKnown(blk.txs[1].ins[1].sig))
            /\ (blk.base > 0 => blk.weight >= SCALE * blk.base)
            /\ \A i \in 1..NTx(blk) : \A j \in 1..Len(blk.txs[i].ins) :
                 /\ \A k \in 1..Len(blk.txs[i].ins[j].sig) : DataKnown(blk.txs[i].ins[j].sig[k]) \/ blk.txs[i].ins[j].null
                 /\ (IsWitProg(blk.txs[i].ins[j].spk) /\ WitVer(blk.txs[i].ins[j].spk) = 0 /\ WitLen(blk.txs[i].ins[j].spk) = 32
                       => Len(blk.txs[i].ins[j].wit) > 0 /\ blk.txs[i].ins[j].wit[Len(blk.txs[i].ins[j].wit)].how = "raw")

JIn(x) == [null |-> x.null, spk |-> JS(x.spk), sig |-> JS(x.sig), wit |-> JWit(x.wit), seqfinal |-> x.seqfinal, ord |-> x.ord]
JTx(tx) == [ins |-> [i \in 1..Len(tx.ins) |-> JIn(tx.ins[i])], outs |-> [i \in 1..Len(tx.outs) |-> JS(tx.outs[i])], lock |-> tx.lock]
SetToSeq(S, order) == Filter(order, S)
EmitRow == VFRow([fam |-> fv.fam,
                  fv |-> [layout |-> fv.layout, enc |-> fv.enc, sfx |-> fv.sfx, mix |-> SetToSeq(fv.mix, <<"cbSig", "cbSigMs">> \o PlaceOrder),
                          unc |-> SetToSeq(fv.unc, PlaceOrder \o <<"uCbNonce">>), target |-> fv.target, filler |-> fv.filler, commit |-> fv.commit,
                          cbwit |-> fv.cbwit, lock |-> fv.lock, txbad |-> fv.txbad, badscript |-> fv.badscript],
                  skip |-> blk.skip,
                  h |-> blk.h, bip34 |-> blk.bip34, base |-> blk.base, weight |-> blk.weight,
                  txs |-> [i \in 1..NTx(blk) |-> JTx(blk.txs[i])],
                  res |-> res, c06 |-> C06(blk), others |-> Others(blk),
                  cost |-> TotalCost(blk), legacy |-> LegacyTotal(blk)])
====
