CONSTANTS
  MaxMix = 2
  Thorough = FALSE
INIT Init
NEXT Next
INVARIANTS Agree Safe SkipIndependent TargetReached Shadowed DomainOK EmitRow
CHECK_DEADLOCK FALSE
