---- MODULE Sigops ----
(***************************************************************************)
(* Signature-operation counting of bitcoin (C06), transcribed over token   *)
(* sequences:                                                              *)
(*   CScript::GetSigOpCount(bool)            src/script/script.cpp         *)
(*   CScript::GetSigOpCount(const CScript&)  src/script/script.cpp         *)
(*   WitnessSigOps / CountWitnessSigOps      src/script/interpreter.cpp    *)
(*   GetLegacySigOpCount / GetP2SHSigOpCount / GetTransactionSigOpCost     *)
(*                                           src/consensus/tx_verify.cpp   *)
(* A script is a sequence of tokens; a token stands for `rep` consecutive  *)
(* copies of one operation (run-length encoding, so that a script with     *)
(* 20 000 CHECKSIGs stays a short sequence).  Push data is itself a token   *)
(* sequence (`d`: the data bytes are the serialisation of d), which is how  *)
(* "the bytes inside push data are never opcodes" and "the redeem script is *)
(* the last push of the scriptSig" are both expressible.                    *)
(***************************************************************************)
EXTENDS Integers, Sequences, FiniteSets, TLC

\* ---- tokens ------------------------------------------------------------
\* t    : "CS" CHECKSIG, "CSV" CHECKSIGVERIFY, "CMS" CHECKMULTISIG, "CMSV" CHECKMULTISIGVERIFY, "N" OP_0/OP_1..OP_16 (field n),
\*        "NEG1" OP_1NEGATE, "RESERVED" (0x50), "PUSH" a complete data push, "TRUNC" a push opcode announcing more bytes than follow
\*        (necessarily the last token), "RET" OP_RETURN, "NOP", "OPIF", "OPENDIF", "DROP", "HASH160", "EQUAL", "PAD" (NOPs, as many as the
\*        harness needs to reach a size target)
\* how  : for PUSH/TRUNC, what the data is: "raw" = serialisation of d; "bytes" = the explicit bytes b; "h160" / "sha256" = hash of the
\*        serialisation of d (20 / 32 bytes); "keyhash" (20), "taproot" = output key of the single-leaf tree with tapscript d (32),
\*        "fixed20" / "fixed32" / "fixed25" / "fixed2" / "fixed41" arbitrary bytes of that length, "commit" / "badcommit" (36: BIP141 header + commitment), "rowid" (8)
\* enc  : "min" (shortest push opcode, what CScript::operator<< emits) | "pd1" | "pd2" | "pd4" (forced OP_PUSHDATAn)
Tok(t, rep, n, d, how, enc, b) == [t |-> t, rep |-> rep, n |-> n, d |-> d, how |-> how, enc |-> enc, b |-> b]
Op(t)          == Tok(t, 1, 0, <<>>, "", "", <<>>)
OpR(t, k)      == Tok(t, k, 0, <<>>, "", "", <<>>)
Num(k)         == Tok("N", 1, k, <<>>, "", "", <<>>)
NumR(k, r)     == Tok("N", r, k, <<>>, "", "", <<>>)
Push(d)        == Tok("PUSH", 1, 0, d, "raw", "min", <<>>)
PushE(d, enc)  == Tok("PUSH", 1, 0, d, "raw", enc, <<>>)
PushH(how, d)  == Tok("PUSH", 1, 0, d, how, "min", <<>>)
PushHE(how, d, enc) == Tok("PUSH", 1, 0, d, how, enc, <<>>)
PushB(b)       == Tok("PUSH", 1, 0, <<>>, "bytes", "min", b)
PushBE(b, enc) == Tok("PUSH", 1, 0, <<>>, "bytes", enc, b)
Trunc(d, enc)  == Tok("TRUNC", 1, 0, d, "raw", enc, <<>>)
TruncB(b)      == Tok("TRUNC", 1, 0, <<>>, "bytes", "min", b)

FixedLen == [h160 |-> 20, keyhash |-> 20, sha256 |-> 32, taproot |-> 32, fixed20 |-> 20, fixed32 |-> 32, fixed25 |-> 25, fixed2 |-> 2,
             fixed41 |-> 41, fixed40 |-> 40, commit |-> 36, badcommit |-> 36, rowid |-> 8]

\* ---- serialised sizes (needed only to classify P2SH / witness programs) --
RECURSIVE SerLen(_), TokLen(_), DataLen(_)
DataLen(k) == IF k.how = "raw" THEN SerLen(k.d) ELSE IF k.how = "bytes" THEN Len(k.b) ELSE FixedLen[k.how]
HdrLen(k) == LET L == DataLen(k) IN
             IF k.enc = "min" THEN (IF L <= 75 THEN 1 ELSE IF L <= 255 THEN 2 ELSE IF L <= 65535 THEN 3 ELSE 5)
             ELSE IF k.enc = "pd1" THEN 2 ELSE IF k.enc = "pd2" THEN 3 ELSE 5
TokLen(k) == IF k.t = "TRUNC" /\ k.how = "bytes" THEN Len(k.b)
             ELSE IF k.t \in {"PUSH", "TRUNC"} THEN k.rep * (HdrLen(k) + DataLen(k)) ELSE k.rep
SerLen(s) == IF s = <<>> THEN 0 ELSE TokLen(Head(s)) + SerLen(Tail(s))
IsDirectPush(k) == k.t = "PUSH" /\ k.rep = 1 /\ k.enc = "min" /\ DataLen(k) <= 75

\* ---- CScript::GetSigOpCount(bool fAccurate) -------------------------------
\* lastN = n if the previous opcode was OP_1..OP_16, else 0.  GetOp failing (TRUNC) ends the loop; an OP_RETURN does not.
RECURSIVE CountFrom(_, _, _, _)
CountFrom(s, i, lastN, accurate) ==
  IF i > Len(s) THEN 0
  ELSE LET k == s[i] IN
    IF k.t = "TRUNC" THEN 0
    ELSE IF k.t \in {"CS", "CSV"} THEN k.rep + CountFrom(s, i + 1, 0, accurate)
    ELSE IF k.t \in {"CMS", "CMSV"} THEN
         (IF accurate /\ lastN > 0 THEN lastN ELSE 20) + (k.rep - 1) * 20 + CountFrom(s, i + 1, 0, accurate)
    ELSE IF k.t = "N" /\ k.n >= 1 THEN CountFrom(s, i + 1, k.n, accurate)
    ELSE CountFrom(s, i + 1, 0, accurate)
Count(s, accurate) == CountFrom(s, 1, 0, accurate)

\* the same function written as the loop of the C++ code over the expanded (rep = 1) script: state (n, lastOpcode, stopped)
RECURSIVE Expand(_)
Rep1(k) == [k EXCEPT !.rep = 1]
Expand(s) == IF s = <<>> THEN <<>> ELSE [i \in 1..Head(s).rep |-> Rep1(Head(s))] \o Expand(Tail(s))
RECURSIVE Loop(_, _, _, _)
Loop(s, n, last, accurate) ==        \* last: the previous token ("" at the start)
  IF s = <<>> THEN n
  ELSE LET k == Head(s) IN
    IF k.t = "TRUNC" THEN n          \* if (!GetOp(pc, opcode)) break;
    ELSE LET add == IF k.t \in {"CS", "CSV"} THEN 1
                    ELSE IF k.t \in {"CMS", "CMSV"} THEN (IF accurate /\ last.t = "N" /\ last.n >= 1 /\ last.n <= 16 THEN last.n ELSE 20)
                    ELSE 0
         IN Loop(Tail(s), n + add, k, accurate)
CountPlain(s, accurate) == Loop(Expand(s), 0, Op(""), accurate)

\* ---- classification of output scripts -----------------------------------
\* IsPayToScriptHash: 23 bytes, HASH160, 0x14, ..., EQUAL
IsP2SH(s) == /\ Len(s) = 3 /\ s[1].t = "HASH160" /\ s[1].rep = 1 /\ IsDirectPush(s[2]) /\ DataLen(s[2]) = 20
             /\ s[3].t = "EQUAL" /\ s[3].rep = 1
\* IsWitnessProgram: 4..42 bytes, OP_0 or OP_1..OP_16, then one direct push covering the rest (2..40 bytes)
IsWitProg(s) == /\ Len(s) = 2 /\ s[1].t = "N" /\ s[1].rep = 1 /\ IsDirectPush(s[2]) /\ DataLen(s[2]) >= 2 /\ DataLen(s[2]) <= 40
WitVer(s) == s[1].n
WitLen(s) == DataLen(s[2])

\* opcode <= OP_16 ("push only" in the sense of the P2SH rules): data pushes, OP_0, OP_1NEGATE, OP_RESERVED, OP_1..OP_16
PushLike(k) == k.t \in {"PUSH", "N", "NEG1", "RESERVED"}
\* the data GetOp returns for a token (cleared for opcodes without operand). Only defined for data given as a script or as nothing.
DataOf(k) == IF k.t = "PUSH" /\ k.how = "raw" THEN k.d ELSE <<>>
DataKnown(k) == k.t # "PUSH" \/ k.how = "raw"

\* ---- CScript::GetSigOpCount(const CScript& scriptSig) (called on the spent output script) ------
SigOpCountP2SH(spk, sig) ==
  IF ~IsP2SH(spk) THEN Count(spk, TRUE)
  ELSE IF \E i \in 1..Len(sig) : sig[i].t = "TRUNC" \/ ~PushLike(sig[i]) THEN 0      \* GetOp fails / opcode > OP_16: return 0
  ELSE IF Len(sig) = 0 THEN 0
  ELSE Count(DataOf(sig[Len(sig)]), TRUE)

\* GetP2SHSigOpCount, per input (the caller skips coinbases)
InP2SH(in) == IF IsP2SH(in.spk) THEN SigOpCountP2SH(in.spk, in.sig) ELSE 0

\* ---- WitnessSigOps / CountWitnessSigOps (flags contain P2SH and WITNESS) ---
\* a witness item: [how |-> "raw" (serialisation of d) | "sig" | "pubkey" | "control" | "pad", d |-> script]
Item(d) == [how |-> "raw", d |-> d]
ItemH(how, d) == [how |-> how, d |-> d]
WitnessSigOps(ver, plen, wit) ==
  IF ver = 0 THEN
     IF plen = 20 THEN 1
     ELSE IF plen = 32 /\ Len(wit) > 0 THEN Count(wit[Len(wit)].d, TRUE)
     ELSE 0
  ELSE 0
IsPushOnly(sig) == \A i \in 1..Len(sig) : sig[i].t # "TRUNC" /\ PushLike(sig[i])
InWitness(in) ==
  IF IsWitProg(in.spk) THEN WitnessSigOps(WitVer(in.spk), WitLen(in.spk), in.wit)
  ELSE IF IsP2SH(in.spk) /\ IsPushOnly(in.sig) THEN
       LET r == IF Len(in.sig) = 0 THEN <<>> ELSE DataOf(in.sig[Len(in.sig)]) IN
       IF IsWitProg(r) THEN WitnessSigOps(WitVer(r), WitLen(r), in.wit) ELSE 0
  ELSE 0

\* ---- per transaction -----------------------------------------------------
\* tx = [ins : Seq([null, spk, sig, wit, ...]), outs : Seq(script), ...]
RECURSIVE SumSeq(_)
SumSeq(q) == IF q = <<>> THEN 0 ELSE Head(q) + SumSeq(Tail(q))
IsCoinBase(tx) == Len(tx.ins) = 1 /\ tx.ins[1].null
TxLegacy(tx) == SumSeq([i \in 1..Len(tx.ins) |-> Count(tx.ins[i].sig, FALSE)]) + SumSeq([i \in 1..Len(tx.outs) |-> Count(tx.outs[i], FALSE)])
TxP2SH(tx) == IF IsCoinBase(tx) THEN 0 ELSE SumSeq([i \in 1..Len(tx.ins) |-> InP2SH(tx.ins[i])])
TxWitness(tx) == IF IsCoinBase(tx) THEN 0 ELSE SumSeq([i \in 1..Len(tx.ins) |-> InWitness(tx.ins[i])])
\* GetTransactionSigOpCost
TxCost(tx) == 4 * TxLegacy(tx) + 4 * TxP2SH(tx) + TxWitness(tx)

\* ---- CScript() << int64 (BIP34 height) and byte view of simple tokens --------
\* OP_0 for 0, OP_1..OP_16 for 1..16, otherwise a minimal push of CScriptNum::serialize(n): little endian magnitude, an
\* extra 0x00 when the top bit of the last byte is set (sign bit)
RECURSIVE LE(_)
LE(n) == IF n = 0 THEN <<>> ELSE <<n % 256>> \o LE(n \div 256)
NumBytes(n) == LET m == LE(n) IN IF m[Len(m)] >= 128 THEN m \o <<0>> ELSE m          \* n > 0
SerHeight(h) == IF h = 0 THEN <<0>> ELSE IF h <= 16 THEN <<80 + h>> ELSE LET d == NumBytes(h) IN <<Len(d)>> \o d
OpByte == [CS |-> 172, CSV |-> 173, CMS |-> 174, CMSV |-> 175, RET |-> 106, NOP |-> 97, OPIF |-> 99, OPENDIF |-> 104, DROP |-> 117,
           HASH160 |-> 169, EQUAL |-> 135, NEG1 |-> 79, RESERVED |-> 80]
\* exact bytes of a token whose bytes the specification knows (OP_n, explicit-bytes pushes); <<>> for anything else
TokBytes(k) == IF k.t = "N" THEN [i \in 1..k.rep |-> IF k.n = 0 THEN 0 ELSE 80 + k.n]
               ELSE IF k.t = "PUSH" /\ k.how = "bytes" /\ k.rep = 1 THEN
                    (IF k.enc = "min" THEN <<Len(k.b)>> ELSE IF k.enc = "pd1" THEN <<76, Len(k.b)>> ELSE IF k.enc = "pd2" THEN <<77, Len(k.b), 0>>
                     ELSE <<78, Len(k.b), 0, 0, 0>>) \o k.b
               ELSE IF k.t = "TRUNC" /\ k.how = "bytes" THEN k.b          \* b holds the opcode byte too
               ELSE IF k.t \in DOMAIN OpByte THEN [i \in 1..k.rep |-> OpByte[k.t]]
               ELSE <<>>
RECURSIVE ScriptBytes(_)
ScriptBytes(s) == IF s = <<>> THEN <<>> ELSE TokBytes(Head(s)) \o ScriptBytes(Tail(s))
BytesKnown(s) == \A i \in 1..Len(s) : s[i].t \in DOMAIN OpByte \cup {"N"} \/ (s[i].t \in {"PUSH", "TRUNC"} /\ s[i].how = "bytes")

\* ---- compact JSON form of scripts (only the fields that matter for a token) ----
RECURSIVE JS(_)
JTok(k) == IF k.t = "N" THEN [t |-> k.t, rep |-> k.rep, n |-> k.n]
           ELSE IF k.t \in {"PUSH", "TRUNC"} THEN
                (IF k.how = "bytes" THEN [t |-> k.t, rep |-> k.rep, how |-> k.how, enc |-> k.enc, b |-> k.b]
                 ELSE [t |-> k.t, rep |-> k.rep, how |-> k.how, enc |-> k.enc, d |-> JS(k.d)])
           ELSE [t |-> k.t, rep |-> k.rep]
JS(s) == [i \in 1..Len(s) |-> JTok(s[i])]
JWit(w) == [i \in 1..Len(w) |-> [how |-> w[i].how, d |-> JS(w[i].d)]]
====
