SPECIFICATION Spec
CONSTANTS
  W = 0
  NChecks = 3
  BatchSize = 2
  Bad = {2}
INVARIANTS ResultCorrect AtMostOnce SkipOnlyAfterFailure CleanAtReturn EmitOutcome
PROPERTY Terminates
CHECK_DEADLOCK FALSE
