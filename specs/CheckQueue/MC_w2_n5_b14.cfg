SPECIFICATION Spec
CONSTANTS
  W = 2
  NChecks = 5
  BatchSize = 2
  Bad = {1, 4}
INVARIANTS ResultCorrect AtMostOnce SkipOnlyAfterFailure CleanAtReturn EmitOutcome
PROPERTY Terminates
CHECK_DEADLOCK FALSE
