SPECIFICATION Spec
CONSTANTS
  W = 2
  NChecks = 6
  BatchSize = 3
  Bad = {6}
INVARIANTS ResultCorrect AtMostOnce SkipOnlyAfterFailure CleanAtReturn EmitOutcome
PROPERTY Terminates
CHECK_DEADLOCK FALSE
