SPECIFICATION Spec
CONSTANTS
  W = 2
  NChecks = 4
  BatchSize = 2
  Bad = {3}
INVARIANTS ResultCorrect AtMostOnce SkipOnlyAfterFailure CleanAtReturn EmitOutcome
PROPERTY Terminates
CHECK_DEADLOCK FALSE
