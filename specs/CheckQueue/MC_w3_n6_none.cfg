SPECIFICATION Spec
CONSTANTS
  W = 3
  NChecks = 6
  BatchSize = 2
  Bad = {}
INVARIANTS ResultCorrect AtMostOnce SkipOnlyAfterFailure CleanAtReturn EmitOutcome
PROPERTY Terminates
CHECK_DEADLOCK FALSE
