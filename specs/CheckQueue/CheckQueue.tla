---- MODULE CheckQueue ----
(* C14: CCheckQueue::Loop (src/checkqueue.h) - the master plus W workers, one label per critical section of the code.
   Safety: the result is a failing check iff one exists, every check runs at most once, a check is skipped only after a
   failure, the queue is clean when Complete() returns. Liveness (weak fairness): Complete() returns.
   EmitOutcome prints every terminal (executed, ret) pair: the set of outcomes the design admits, against which the
   outcomes of the real CCheckQueue are checked. *)
EXTENDS Integers, Sequences, FiniteSets, TLC, VF
CONSTANTS W,          \* number of worker threads
          NChecks,    \* checks added for the block
          BatchSize,
          Bad         \* set of indices (1..NChecks) of failing checks
Workers == 1..W
Master == 0
Threads == 0..W

(* --fair algorithm CheckQueue {
  variables queue = <<>>,        \* pending checks (indices)
            nTodo = 0, nIdle = 0, nTotal = 0,
            result = 0,          \* 0 = none, else index of a failed check
            added = FALSE,       \* master has pushed all checks
            executed = [i \in 1..NChecks |-> 0],  \* ghost: how often each check's operator() ran
            ret = -1;            \* what Complete() returned (-1: not yet)
  define {
    Min(a, b) == IF a < b THEN a ELSE b
    Max(a, b) == IF a > b THEN a ELSE b
  }
  \* every thread runs Loop(); the master first Add()s the checks
  process (t \in Threads)
    variables nNow = 0, batch = <<>>, local = 0, first = TRUE, doWork = FALSE, done = FALSE;
  {
   add: if (self = Master) {
          \* Add(): push all checks, nTodo += n (single batch for the model), wake workers
          queue := [i \in 1..NChecks |-> i]; nTodo := nTodo + NChecks; added := TRUE;
        };
   loop: while (~done) {
     cs:  \* the critical section at the top of the do-loop
          if (nNow > 0) {
            if (local # 0 /\ result = 0) { result := local; };
            nTodo := nTodo - nNow;
            nNow := 0;
          } else if (first) { nTotal := nTotal + 1; first := FALSE; };
     wait: \* while (queue.empty()) { if master and nTodo = 0 return; idle-wait }
          if (queue = <<>>) {
             if (self = Master /\ nTodo = 0 /\ added) {
                nTotal := nTotal - 1; ret := result; result := 0; done := TRUE;
             } else {
                \* cond.wait: blocks until the queue is non-empty (workers), or master is notified
                await queue # <<>> \/ (self = Master /\ nTodo = 0 /\ added) \/ (self # Master /\ ret # -1);
                if (self # Master /\ ret # -1 /\ queue = <<>>) { done := TRUE; };   \* model end of block for workers
             };
          } else {
             \* the code takes max(1, min(nBatchSize, queue.size() / (nTotal + nIdle + 1))): the number of idle workers is a
             \* scheduling accident, so the model admits every batch size the formula can produce
             with (k \in 1..Min(BatchSize, Len(queue))) {
               nNow := k;
               batch := SubSeq(queue, Len(queue) - k + 1, Len(queue));
               queue := SubSeq(queue, 1, Len(queue) - k);
             };
             doWork := (result = 0);
             local := 0;
     work:   \* outside the lock: execute the batch
             if (doWork) {
               with (k = IF \E i \in 1..Len(batch) : batch[i] \in Bad
                         THEN CHOOSE i \in 1..Len(batch) : batch[i] \in Bad /\ \A j \in 1..(i-1) : batch[j] \notin Bad
                         ELSE Len(batch)) {
                 executed := [c \in 1..NChecks |-> executed[c] + (IF \E i \in 1..k : batch[i] = c THEN 1 ELSE 0)];
                 local := IF \E i \in 1..Len(batch) : batch[i] \in Bad THEN batch[k] ELSE 0;
               };
             };
             batch := <<>>;
          };
   };
  }
} *)
\* BEGIN TRANSLATION
VARIABLES pc, queue, nTodo, nIdle, nTotal, result, added, executed, ret

(* define statement *)
Min(a, b) == IF a < b THEN a ELSE b
Max(a, b) == IF a > b THEN a ELSE b

VARIABLES nNow, batch, local, first, doWork, done

vars == << pc, queue, nTodo, nIdle, nTotal, result, added, executed, ret, 
           nNow, batch, local, first, doWork, done >>

ProcSet == (Threads)

Init == (* Global variables *)
        /\ queue = <<>>
        /\ nTodo = 0
        /\ nIdle = 0
        /\ nTotal = 0
        /\ result = 0
        /\ added = FALSE
        /\ executed = [i \in 1..NChecks |-> 0]
        /\ ret = -1
        (* Process t *)
        /\ nNow = [self \in Threads |-> 0]
        /\ batch = [self \in Threads |-> <<>>]
        /\ local = [self \in Threads |-> 0]
        /\ first = [self \in Threads |-> TRUE]
        /\ doWork = [self \in Threads |-> FALSE]
        /\ done = [self \in Threads |-> FALSE]
        /\ pc = [self \in ProcSet |-> "add"]

add(self) == /\ pc[self] = "add"
             /\ IF self = Master
                   THEN /\ queue' = [i \in 1..NChecks |-> i]
                        /\ nTodo' = nTodo + NChecks
                        /\ added' = TRUE
                   ELSE /\ TRUE
                        /\ UNCHANGED << queue, nTodo, added >>
             /\ pc' = [pc EXCEPT ![self] = "loop"]
             /\ UNCHANGED << nIdle, nTotal, result, executed, ret, nNow, batch, 
                             local, first, doWork, done >>

loop(self) == /\ pc[self] = "loop"
              /\ IF ~done[self]
                    THEN /\ pc' = [pc EXCEPT ![self] = "cs"]
                    ELSE /\ pc' = [pc EXCEPT ![self] = "Done"]
              /\ UNCHANGED << queue, nTodo, nIdle, nTotal, result, added, 
                              executed, ret, nNow, batch, local, first, doWork, 
                              done >>

cs(self) == /\ pc[self] = "cs"
            /\ IF nNow[self] > 0
                  THEN /\ IF local[self] # 0 /\ result = 0
                             THEN /\ result' = local[self]
                             ELSE /\ TRUE
                                  /\ UNCHANGED result
                       /\ nTodo' = nTodo - nNow[self]
                       /\ nNow' = [nNow EXCEPT ![self] = 0]
                       /\ UNCHANGED << nTotal, first >>
                  ELSE /\ IF first[self]
                             THEN /\ nTotal' = nTotal + 1
                                  /\ first' = [first EXCEPT ![self] = FALSE]
                             ELSE /\ TRUE
                                  /\ UNCHANGED << nTotal, first >>
                       /\ UNCHANGED << nTodo, result, nNow >>
            /\ pc' = [pc EXCEPT ![self] = "wait"]
            /\ UNCHANGED << queue, nIdle, added, executed, ret, batch, local, 
                            doWork, done >>

wait(self) == /\ pc[self] = "wait"
              /\ IF queue = <<>>
                    THEN /\ IF self = Master /\ nTodo = 0 /\ added
                               THEN /\ nTotal' = nTotal - 1
                                    /\ ret' = result
                                    /\ result' = 0
                                    /\ done' = [done EXCEPT ![self] = TRUE]
                               ELSE /\ queue # <<>> \/ (self = Master /\ nTodo = 0 /\ added) \/ (self # Master /\ ret # -1)
                                    /\ IF self # Master /\ ret # -1 /\ queue = <<>>
                                          THEN /\ done' = [done EXCEPT ![self] = TRUE]
                                          ELSE /\ TRUE
                                               /\ done' = done
                                    /\ UNCHANGED << nTotal, result, ret >>
                         /\ pc' = [pc EXCEPT ![self] = "loop"]
                         /\ UNCHANGED << queue, nNow, batch, local, doWork >>
                    ELSE /\ \E k \in 1..Min(BatchSize, Len(queue)):
                              /\ nNow' = [nNow EXCEPT ![self] = k]
                              /\ batch' = [batch EXCEPT ![self] = SubSeq(queue, Len(queue) - k + 1, Len(queue))]
                              /\ queue' = SubSeq(queue, 1, Len(queue) - k)
                         /\ doWork' = [doWork EXCEPT ![self] = (result = 0)]
                         /\ local' = [local EXCEPT ![self] = 0]
                         /\ pc' = [pc EXCEPT ![self] = "work"]
                         /\ UNCHANGED << nTotal, result, ret, done >>
              /\ UNCHANGED << nTodo, nIdle, added, executed, first >>

work(self) == /\ pc[self] = "work"
              /\ IF doWork[self]
                    THEN /\ LET k == IF \E i \in 1..Len(batch[self]) : batch[self][i] \in Bad
                                     THEN CHOOSE i \in 1..Len(batch[self]) : batch[self][i] \in Bad /\ \A j \in 1..(i-1) : batch[self][j] \notin Bad
                                     ELSE Len(batch[self]) IN
                              /\ executed' = [c \in 1..NChecks |-> executed[c] + (IF \E i \in 1..k : batch[self][i] = c THEN 1 ELSE 0)]
                              /\ local' = [local EXCEPT ![self] = IF \E i \in 1..Len(batch[self]) : batch[self][i] \in Bad THEN batch[self][k] ELSE 0]
                    ELSE /\ TRUE
                         /\ UNCHANGED << executed, local >>
              /\ batch' = [batch EXCEPT ![self] = <<>>]
              /\ pc' = [pc EXCEPT ![self] = "loop"]
              /\ UNCHANGED << queue, nTodo, nIdle, nTotal, result, added, ret, 
                              nNow, first, doWork, done >>

t(self) == add(self) \/ loop(self) \/ cs(self) \/ wait(self) \/ work(self)

(* Allow infinite stuttering to prevent deadlock on termination. *)
Terminating == /\ \A self \in ProcSet: pc[self] = "Done"
               /\ UNCHANGED vars

Next == (\E self \in Threads: t(self))
           \/ Terminating

Spec == /\ Init /\ [][Next]_vars
        /\ WF_vars(Next)

Termination == <>(\A self \in ProcSet: pc[self] = "Done")

\* END TRANSLATION
ResultCorrect == ret # -1 => (((ret # 0) <=> (Bad # {})) /\ (ret # 0 => ret \in Bad))
AtMostOnce == \A c \in 1..NChecks : executed[c] <= 1
SkipOnlyAfterFailure == ret # -1 => \A c \in 1..NChecks : executed[c] = 0 => ret # 0
CleanAtReturn == ret # -1 => (nTodo = 0 /\ queue = <<>> /\ result = 0)
Terminates == <>(ret # -1)
AllDone == \A th \in Threads : pc[th] = "Done"
EmitOutcome == AllDone => VFRow([executed |-> executed, ret |-> ret])
====
