SPECIFICATION Spec
CONSTANTS
  W = 3
  NChecks = 6
  BatchSize = 3
  Bad = {2, 5}
INVARIANTS ResultCorrect AtMostOnce SkipOnlyAfterFailure CleanAtReturn EmitOutcome
PROPERTY Terminates
CHECK_DEADLOCK FALSE
