SPECIFICATION Spec
CONSTANTS
  W = 1
  NChecks = 4
  BatchSize = 2
  Bad = {}
INVARIANTS ResultCorrect AtMostOnce SkipOnlyAfterFailure CleanAtReturn EmitOutcome
PROPERTY Terminates
CHECK_DEADLOCK FALSE
