---- MODULE UtxoChainFlush ----
(* UtxoChain plus an explicit "flush the chainstate to disk" action (ForceFlushStateToDisk): a stuttering step of the abstract *)
(* state, visible to the crash-recovery check (C16), where it decides what is durable.                                      *)
EXTENDS UtxoChain
Flush == /\ UNCHANGED <<world, node, ninv>> /\ lastAct' = <<"flush">> /\ lastRes' = <<"none">>
NextF == Next \/ Flush
====
