---- MODULE MCO_spend ----
EXTENDS UtxoChainObs, Uni_spend
====
