CONSTANTS
  MaxBlocks = 5
  MaxInv = 2
  TxU <- TxUDef
  Lists <- ListsCrash
  CbModes = {"zero", "max"}
  Dts = {1}
  H0 = 101
  BaseDt = 1
  BaseCoins <- BaseDef
INIT Init
NEXT NextF
VIEW View0
INVARIANTS UtxoIsReplay ActiveChainValid NoInflation
ACTION_CONSTRAINT Emit
CHECK_DEADLOCK FALSE
