CONSTANTS
  MaxBlocks = 5
  MaxInv = 9
  TxU <- TxUDef
  Lists <- ListsCrash
  CbModes = {"zero", "max"}
  Dts = {1}
  H0 = 101
  BaseDt = 1
  BaseCoins <- BaseDef
INIT InitObs
NEXT Stutter
INVARIANTS CrashLoadOK CrashTipWasConnected CrashUtxoOfTip CrashResumeWork CrashPostValid
CHECK_DEADLOCK FALSE
