---- MODULE MCO_crash ----
EXTENDS CrashObs, Uni_spend
ListsCrash == { <<>>, <<1>>, <<2>>, <<1,3>>, <<3>>, <<1,3,7>> }
====
