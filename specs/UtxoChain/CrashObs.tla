---- MODULE CrashObs ----
(* C16 on crash images of real runs.  A UtxoChain behaviour was executed on a node with on-disk databases; its syscall     *)
(* stream gives, for a crash point, the kill image or a power-loss image; a fresh node was started on the image.  Each    *)
(* line of env OBS describes one such restart:                                                                           *)
(*   {world, conn: [block ids that had been the tip before the crash point], lastflush: tip of the last full flush        *)
(*    completed before the crash point, load: "ok" | error, pre: {tip, utxo} right after loading,                         *)
(*    post: {tip} after the node resumed connecting its stored blocks}                                                    *)
(* tip ids: >= 0 model block; -1000 - h: base block at height h; -9998 / -9999: no tip (empty chainstate).                                 *)
EXTENDS UtxoChainObs
Line == ObsLines[idx]
BaseHeightOf(t) == -1000 - t
\* the next start succeeds without a reindex
CrashLoadOK == Line.load = "ok"
\* the recovered tip is a block that was fully connected before the crash
CrashTipWasConnected == Line.load = "ok" => (Line.pre.tip < 0 \/ Line.pre.tip \in ToSet(Line.conn))
\* the recovered UTXO set is exactly the UTXO set of the recovered tip
CrashUtxoOfTip == Line.load = "ok" =>
   IF Line.pre.tip >= 0 THEN ToSet(Line.pre.utxo) = UtxoList(ReplayB(blk, Line.pre.tip))
   ELSE IF Line.pre.tip <= -9000 THEN Line.pre.utxo = <<>>
   ELSE ToSet(Line.pre.utxo) = UtxoList([o \in {x \in DOMAIN BaseUtxo : BaseUtxo[x].h <= BaseHeightOf(Line.pre.tip)} |-> BaseUtxo[o]])
\* once the node resumes connecting its stored blocks its tip has at least the work of the last completed full flush
HeightOfTip(t) == IF t >= 0 THEN HeightB(blk, t) ELSE IF t <= -9000 THEN -1 ELSE BaseHeightOf(t)
CrashResumeWork == Line.load = "ok" => HeightOfTip(Line.post.tip) >= HeightOfTip(Line.lastflush)
\* and what it resumes to is again a valid chain
CrashPostValid == (Line.load = "ok" /\ Line.post.tip >= 0) => ValidChainB(blk, Line.post.tip)
====
