---- MODULE Uni_par ----
(* Scenario family "par" (C14): blocks whose single invalid script sits at every position among valid, signature-checked spends. *)
EXTENDS Integers, Sequences
F == [kind |-> "final", v |-> 0]
NoLock == [kind |-> "none", v |-> 0]
In(t, i) == [op |-> <<t, i>>, seq |-> F]
Out(v) == [v |-> v, cls |-> "true"]
Bad(v) == [v |-> v, cls |-> "fail"]
Tx(ins, outs) == [ins |-> ins, outs |-> outs, ver |-> 1, lock |-> NoLock]
TxUDef == <<
  Tx(<<In(0,1)>>, <<Out(300), Bad(300), Out(300)>>),     \* 1: signed spend of B1; output 2 can never be spent validly
  Tx(<<In(1,2)>>, <<Out(250)>>),                          \* 2: spends the failing script
  Tx(<<In(1,1)>>, <<Out(250)>>),                          \* 3: valid child
  Tx(<<In(0,2)>>, <<Out(900)>>),                          \* 4: signed spend of B2
  Tx(<<In(1,3), In(4,1)>>, <<Out(1100)>>),                \* 5: two inputs, valid
  Tx(<<In(0,3)>>, <<Out(800)>>)                           \* 6: signed spend of B3
>>
ListsDef == { <<1>>, <<1,3>>, <<1,2>>, <<2>>, <<1,3,2>>, <<1,2,3>>, <<4,1,2,3>>, <<4,1,3,5,6>>, <<4,1,3,5,2,6>>, <<6,4,1,2,3,5>>, <<4,6>> }
BaseDef == << [v |-> 1000, h |-> 1], [v |-> 1000, h |-> 2], [v |-> 1000, h |-> 3] >>
====
