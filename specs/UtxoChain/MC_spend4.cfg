CONSTANTS
  MaxBlocks = 4
  MaxInv = 0
  TxU <- TxUDef
  Lists <- ListsC02
  CbModes = {"zero"}
  Dts = {1}
  H0 = 101
  BaseDt = 1
  BaseCoins <- BaseDef
INIT Init
NEXT Next
VIEW View0
INVARIANTS UtxoIsReplay ActiveChainValid NoInflation NoFailedInChain DisconnectRestores
PROPERTY RejectLeavesState
CHECK_DEADLOCK FALSE
