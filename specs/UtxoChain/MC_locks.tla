---- MODULE MC_locks ----
EXTENDS UtxoChain, Uni_locks
====
