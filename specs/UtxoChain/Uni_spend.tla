---- MODULE Uni_spend ----
(* Scenario family "spend" (C01, C02, C09): two mature base coins of 1000 sat (coinbases of heights 1, 2; base tip 101). *)
EXTENDS Integers, Sequences
F == [kind |-> "final", v |-> 0]
NoLock == [kind |-> "none", v |-> 0]
In(t, i) == [op |-> <<t, i>>, seq |-> F]
Out(v) == [v |-> v, cls |-> "true"]
Tx(ins, outs) == [ins |-> ins, outs |-> outs, ver |-> 1, lock |-> NoLock]
TxUDef == <<
  Tx(<<In(0,1)>>, <<Out(400), Out(500)>>),                          \* 1: spends B1, fee 100
  Tx(<<In(0,1)>>, <<Out(900)>>),                                    \* 2: conflicts with 1
  Tx(<<In(1,1)>>, <<Out(300), [v |-> 0, cls |-> "opret"]>>),        \* 3: child of 1 (unspendable second output)
  Tx(<<In(0,2), In(0,2)>>, <<Out(1500)>>),                          \* 4: duplicate input (CVE-2018-17144 shape)
  Tx(<<In(99,1)>>, <<Out(1)>>),                                     \* 5: spends an output that never existed
  Tx(<<In(0,2)>>, <<Out(1001)>>),                                   \* 6: creates one satoshi
  Tx(<<In(1,2), In(3,1)>>, <<Out(800)>>),                           \* 7: spends outputs of 1 and 3
  Tx(<<In(1,1), In(1,2), In(1,1)>>, <<Out(1200)>>),                 \* 8: duplicate input separated by a sibling output of the same tx
  [ins |-> <<In(0,2)>>, outs |-> <<Out(900)>>, ver |-> 1, lock |-> NoLock, bulk |-> 8784],  \* 9: plus 8784 outputs of 21M BTC and a residue: the 64-bit sum wraps to 900
  Tx(<<In(0,2)>>, <<[v |-> 950, cls |-> "big"]>>),                  \* 10: output with a spendable script of exactly 10000 bytes (the largest that enters the UTXO set)
  Tx(<<In(10,1)>>, <<Out(940)>>)                                    \* 11: spends it
>>
ListsDef == { <<>>, <<1>>, <<2>>, <<3>>, <<1,3>>, <<3,1>>, <<1,2>>, <<4>>, <<5>>, <<6>>, <<1,3,7>>, <<7>> }
ListsSmall == { <<>>, <<1>>, <<2>>, <<3>>, <<1,3>>, <<3,1>>, <<1,2>>, <<4>>, <<6>> }
ListsC01 == { <<>>, <<1>>, <<6>>, <<1,3>>, <<2>>, <<9>> }
ListsC02 == { <<>>, <<1>>, <<2>>, <<3>>, <<1,3>>, <<3,1>>, <<1,2>>, <<4>>, <<5>>, <<8>> }
ListsC09 == { <<>>, <<1>>, <<2>>, <<1,3>> }
ListsBip30 == { <<>>, <<1>> }
ListsC09Big == { <<>>, <<10>>, <<11>>, <<2>> }
ListsC09T == { <<>>, <<1>>, <<2>>, <<1,3>>, <<3>>, <<1,3,7>>, <<10>>, <<11>>, <<10,11>> }
BaseDef == << [v |-> 1000, h |-> 1], [v |-> 1000, h |-> 2] >>
====
