CONSTANTS
  MaxBlocks = 3
  MaxInv = 0
  TxU <- TxUDef
  Lists <- ListsBip30
  CbModes = {"zero", "dup"}
  Dts = {1}
  H0 = 101
  BaseDt = 1
  BaseCoins <- BaseDef
INIT Init
NEXT Next
VIEW View0
INVARIANTS UtxoIsReplay ActiveChainValid NoInflation NoFailedInChain DisconnectRestores
PROPERTY RejectLeavesState
CHECK_DEADLOCK FALSE
