---- MODULE UtxoChain ----
(***************************************************************************)
(* Blocks with transactions over a fixed transaction universe: CheckBlock  *)
(* / ContextualCheckBlock / ConnectBlock verdicts in the code's rule       *)
(* order, the UTXO set maintained incrementally through connect and        *)
(* disconnect with undo data (as src/validation.cpp does), most-work       *)
(* activation with failure marking, invalidate / reconsider as reorg       *)
(* drivers.  Properties: C01 (no inflation), C02 (spend once, only if      *)
(* exists), C05 (timelocks, maturity), C09 (UTXO = replay of the chain).   *)
(*                                                                         *)
(* The node starts on a base chain of H0 blocks (block id 0 = its tip,     *)
(* relative time 0, base block at height h has time (h - H0) * BaseDt).  Base coins   *)
(* are coinbase outputs of base blocks.  Outpoints: <<t, i>> with t >= 1:  *)
(* output i of TxU[t]; t = 0: base coin i; t < 0: coinbase output of       *)
(* block -t; <<99, 1>>: an outpoint that never exists.                     *)
(* Values are [k, s] = k * Subsidy + s satoshi with s small, so that the   *)
(* 50 BTC subsidy never enters TLC's 32-bit arithmetic.                    *)
(***************************************************************************)
EXTENDS Integers, Sequences, FiniteSets, TLC, VF
CONSTANTS MaxBlocks, MaxInv,
          TxU,       \* Seq of [ins : Seq([op, seq]), outs : Seq([v, cls]), ver, lock]
          Lists,     \* allowed block contents: a set of sequences of tx ids
          CbModes,   \* subset of {"zero", "max", "over", "dup"}: coinbase claims nothing / exactly subsidy+fees / one satoshi more /
                     \* "dup": a coinbase without the block height, byte-identical in every such block (constructible only while BIP34
                     \* is inactive): all of them create the same outpoint <<-99, 1>> - the BIP30 situation
          Dts,       \* allowed differences between a block's time and its parent's
          H0,        \* height of the base tip
          BaseDt,    \* spacing of the base chain's block times (seconds)
          BaseCoins  \* Seq of [v, h]: base coin i is the coinbase output (v satoshi) of the base block at height h
Ids == 0..MaxBlocks
Maturity == 100
VARIABLES n, blk,                                \* the world: blocks 1..n
          stored, failed, tip, utxo, undo,       \* the node
          ninv, lastAct, lastRes
world == <<n, blk>>
node == <<stored, failed, tip, utxo, undo>>
vars == <<world, node, ninv, lastAct, lastRes>>
View0 == <<world, node, ninv>>

\* ------------------------------------------------------------------ values
VZ == [k |-> 0, s |-> 0]
VS(x) == [k |-> 0, s |-> x]
VAdd(a, b) == [k |-> a.k + b.k, s |-> a.s + b.s]
\* a <= b, valid because |s| is far below one subsidy
VLe(a, b) == a.k < b.k \/ (a.k = b.k /\ a.s <= b.s)

\* ------------------------------------------------------------------ transactions
TxIds == 1..Len(TxU)
NIn(t) == Len(TxU[t].ins)
InOp(t, j) == TxU[t].ins[j].op
InsSet(t) == {InOp(t, j) : j \in 1..NIn(t)}
DupInputs(t) == Cardinality(InsSet(t)) # NIn(t)
Spendable(cls) == cls # "opret"
OutsOf(t) == {<<t, i>> : i \in {i \in 1..Len(TxU[t].outs) : Spendable(TxU[t].outs[i].cls)}}
RECURSIVE SumS(_)
SumS(s) == IF s = <<>> THEN 0 ELSE Head(s) + SumS(Tail(s))
OutVal(t) == SumS([i \in 1..Len(TxU[t].outs) |-> TxU[t].outs[i].v])

\* ------------------------------------------------------------------ block tree, heights, times
RECURSIVE HeightB(_, _)
HeightB(B, b) == IF b = 0 THEN H0 ELSE 1 + HeightB(B, B[b].parent)
RECURSIVE AncB(_, _)
AncB(B, b) == IF b = 0 THEN {0} ELSE {b} \cup AncB(B, B[b].parent)
RECURSIVE TimeB(_, _)
TimeB(B, b) == IF b = 0 THEN 0 ELSE TimeB(B, B[b].parent) + B[b].dt
\* time of the ancestor of b at absolute height h (base blocks: (h - H0) * BaseDt)
RECURSIVE TimeAtB(_, _, _)
TimeAtB(B, b, h) == IF h <= H0 THEN (h - H0) * BaseDt
                    ELSE IF HeightB(B, b) = h THEN TimeB(B, b) ELSE TimeAtB(B, B[b].parent, h)
Max(a, b) == IF a > b THEN a ELSE b
\* GetMedianTimePast of the ancestor of b at absolute height j: median of the times at heights max(0, j-10)..j,
\* element (count \div 2) of the ascending order (0-based), as CBlockIndex::GetMedianTimePast
MTPatB(B, b, j) ==
  LET hs == Max(0, j - 10)..j
      ts == [h \in hs |-> TimeAtB(B, b, h)]
      cnt == Cardinality(hs)
      rank(h) == Cardinality({g \in hs : ts[g] < ts[h] \/ (ts[g] = ts[h] /\ g < h)})   \* position in a stable ascending sort
  IN ts[CHOOSE h \in hs : rank(h) = cnt \div 2]
LCAB(B, a, b) == CHOOSE x \in AncB(B, a) \cap AncB(B, b) : \A y \in AncB(B, a) \cap AncB(B, b) : HeightB(B, y) <= HeightB(B, x)
RECURSIVE OrdB(_, _)
OrdB(B, T) == IF T = {} THEN <<>>
              ELSE LET lo == CHOOSE x \in T : \A y \in T : HeightB(B, x) <= HeightB(B, y) IN <<lo>> \o OrdB(B, T \ {lo})
CbOp(b) == <<0 - b, 1>>
DupOp == <<-99, 1>>
CbOpB(B, b) == IF B[b].cb = "dup" THEN DupOp ELSE CbOp(b)

\* ------------------------------------------------------------------ coins
\* a view is a function outpoint -> [v, h, cb]
Coin(v, h, cb) == [v |-> v, h |-> h, cb |-> cb]
BaseUtxo == [o \in {<<0, i>> : i \in 1..Len(BaseCoins)} |-> Coin(VS(BaseCoins[o[2]].v), BaseCoins[o[2]].h, TRUE)]
Restrict(f, S) == [x \in S |-> f[x]]
Without(f, S) == Restrict(f, DOMAIN f \ S)

\* ------------------------------------------------------------------ finality (IsFinalTx, BIP113 cutoff = MTP of the previous block)
AllSeqFinal(t) == \A j \in 1..NIn(t) : TxU[t].ins[j].seq.kind = "final"
IsFinal(B, b, t) ==
  LET L == TxU[t].lock IN
  \/ L.kind = "none"
  \/ L.kind = "height" /\ L.v < HeightB(B, b)
  \/ L.kind = "time" /\ L.v < MTPatB(B, b, HeightB(B, b) - 1)
  \/ AllSeqFinal(t)
\* BIP68 (CalculateSequenceLocks + EvaluateSequenceLocks) for tx t in block b given the heights of the spent coins
SeqLocksOK(B, b, t, V) ==
  TxU[t].ver < 2 \/
  \A j \in 1..NIn(t) :
    LET sq == TxU[t].ins[j].seq
        ch == V[InOp(t, j)].h
    IN CASE sq.kind = "height" -> ch + sq.v - 1 < HeightB(B, b)
         [] sq.kind = "time" -> MTPatB(B, b, Max(ch - 1, 0)) + 512 * sq.v - 1 < MTPatB(B, b, HeightB(B, b) - 1)
         [] OTHER -> TRUE          \* "final" and "disabled" (bit 31) impose nothing

\* ------------------------------------------------------------------ context-free and contextual block checks
\* CheckTransaction: no duplicate inputs; the EXACT total of the outputs is within the money range (a transaction may carry `bulk`
\* extra outputs of 21M BTC each: two or more of them are over the limit whatever a 64-bit accumulator makes of the sum)
Bulk(t) == IF "bulk" \in DOMAIN TxU[t] THEN TxU[t].bulk ELSE 0
CheckBlockOK(txs) == \A i \in 1..Len(txs) : ~DupInputs(txs[i]) /\ Bulk(txs[i]) < 2
ContextualOK(B, b) == \A i \in 1..Len(B[b].txs) : IsFinal(B, b, B[b].txs[i])

\* ------------------------------------------------------------------ ConnectBlock on view V
\* result: [ok, why, view, spent (undo: Seq over txs of the coins consumed), fees]
RECURSIVE ConnTxs(_, _, _, _, _, _)
ConnTxs(B, b, txs, V, spent, fees) ==
  IF txs = <<>> THEN [ok |-> TRUE, why |-> "ok", view |-> V, spent |-> spent, fees |-> fees]
  ELSE LET t == Head(txs)
           fail(w) == [ok |-> FALSE, why |-> w, view |-> V, spent |-> spent, fees |-> fees]
       IN IF ~(InsSet(t) \subseteq DOMAIN V) THEN fail("bad-txns-inputs-missingorspent")
          ELSE IF \E j \in 1..NIn(t) : V[InOp(t, j)].cb /\ HeightB(B, b) - V[InOp(t, j)].h < Maturity
               THEN fail("bad-txns-premature-spend-of-coinbase")
          ELSE LET inval == SumS([j \in 1..NIn(t) |-> V[InOp(t, j)].v.s]) IN
               IF inval < OutVal(t) THEN fail("bad-txns-in-belowout")
               ELSE IF ~SeqLocksOK(B, b, t, V) THEN fail("bad-txns-nonfinal")
               ELSE IF \E j \in 1..NIn(t) : InOp(t, j)[1] >= 1 /\ InOp(t, j)[1] # 99 /\ TxU[InOp(t, j)[1]].outs[InOp(t, j)[2]].cls = "fail"
                    THEN fail("script-failed")
               ELSE LET newc == [o \in OutsOf(t) |-> Coin(VS(TxU[t].outs[o[2]].v), HeightB(B, b), FALSE)]
                        V2 == Without(V, InsSet(t)) @@ newc
                    IN ConnTxs(B, b, Tail(txs), V2, Append(spent, Restrict(V, InsSet(t))), fees + inval - OutVal(t))

ConnectB(B, b, V) ==
  LET txs == B[b].txs
      \* BIP30: no output of the block may already exist unspent (evaluated before anything is connected)
      bip30 == (\E i \in 1..Len(txs) : OutsOf(txs[i]) \cap DOMAIN V # {}) \/ (B[b].cb = "dup" /\ DupOp \in DOMAIN V)
      r == ConnTxs(B, b, txs, V, <<>>, 0)
      cbval == CASE B[b].cb \in {"zero", "dup"} -> VZ
                 [] B[b].cb = "max" -> [k |-> 1, s |-> r.fees]
                 [] OTHER -> [k |-> 1, s |-> r.fees + 1]
  IN IF bip30 THEN [ok |-> FALSE, why |-> "bad-txns-BIP30", view |-> V, spent |-> <<>>, fees |-> 0]
     ELSE IF ~r.ok THEN r
     ELSE IF ~VLe(cbval, [k |-> 1, s |-> r.fees]) THEN [r EXCEPT !.ok = FALSE, !.why = "bad-cb-amount"]
     ELSE [r EXCEPT !.view = r.view @@ [o \in {CbOpB(B, b)} |-> Coin(cbval, HeightB(B, b), TRUE)]]

\* DisconnectBlock: transactions in reverse order, each removing its outputs and restoring what it spent from undo
RECURSIVE UndoTxs(_, _, _)
UndoTxs(txs, und, V) ==
  IF txs = <<>> THEN V
  ELSE LET k == Len(txs) t == txs[k] IN
       UndoTxs(SubSeq(txs, 1, k - 1), SubSeq(und, 1, k - 1), Without(V, OutsOf(t)) @@ und[k])
DisconnectB(B, b, und, V) == UndoTxs(B[b].txs, und, Without(V, {CbOpB(B, b)}))

\* from-scratch UTXO set of the chain ending at b, and validity of that chain by the rules above
RECURSIVE ReplayB(_, _)
ReplayB(B, b) == IF b = 0 THEN BaseUtxo ELSE ConnectB(B, b, ReplayB(B, B[b].parent)).view
RECURSIVE ValidChainB(_, _)
ValidChainB(B, b) == b = 0 \/ ( /\ ValidChainB(B, B[b].parent)
                                /\ CheckBlockOK(B[b].txs) /\ ContextualOK(B, b)
                                /\ ConnectB(B, b, ReplayB(B, B[b].parent)).ok )

\* ------------------------------------------------------------------ activation
Init == /\ n = 0 /\ blk = [b \in Ids |-> [parent |-> 0, txs |-> <<>>, cb |-> "zero", dt |-> 1]]
        /\ stored = {0} /\ failed = {} /\ tip = 0 /\ utxo = BaseUtxo /\ undo = [b \in Ids |-> <<>>]
        /\ ninv = 0 /\ lastAct = <<"init">> /\ lastRes = <<"none">>

Eligible(B, S, F, b) == \A x \in AncB(B, b) : x \in S /\ x \notin F
\* st = [tip, utxo, undo, failed, bad]; first-seen (lowest id) wins between equal-work tips
RECURSIVE Activate(_, _, _)
Activate(B, S, st) ==
  LET cands == {b \in S : Eligible(B, S, st.failed, b)}
      best == CHOOSE b \in cands : \A c \in cands \ {b} : HeightB(B, c) < HeightB(B, b) \/ (HeightB(B, c) = HeightB(B, b) /\ c > b)
  IN IF best = st.tip THEN st
     ELSE LET f == LCAB(B, st.tip, best)
              RECURSIVE Down(_, _)
              Down(t, u) == IF t = f THEN u ELSE Down(B[t].parent, DisconnectB(B, t, st.undo[t], u))
              u0 == Down(st.tip, st.utxo)
              RECURSIVE Up(_, _)
              Up(path, s) == IF path = <<>> THEN [s EXCEPT !.ok = TRUE]
                             ELSE LET c == Head(path) r == ConnectB(B, c, s.utxo) IN
                                  IF ~r.ok THEN [s EXCEPT !.ok = FALSE, !.failed = s.failed \cup {x \in S : c \in AncB(B, x)},
                                                          !.bad = s.bad \cup {<<c, r.why>>}]
                                  ELSE Up(Tail(path), [s EXCEPT !.tip = c, !.utxo = r.view, !.undo[c] = r.spent])
              s1 == Up(OrdB(B, AncB(B, best) \ AncB(B, f)),
                       [tip |-> f, utxo |-> u0, undo |-> st.undo, failed |-> st.failed, ok |-> TRUE, bad |-> st.bad])
          IN IF s1.ok THEN s1 ELSE Activate(B, S, s1)
\* undo data of blocks outside the active chain is irrelevant (a reconnect recomputes it): normalised away
KeepUndo(B, t, u) == [b \in Ids |-> IF b \in AncB(B, t) THEN u[b] ELSE <<>>]
St0 == [tip |-> tip, utxo |-> utxo, undo |-> undo, failed |-> failed, ok |-> TRUE, bad |-> {}]

\* Mine a block on p and deliver it at once (ProcessNewBlock)
Mine(p, txs, cb, dt) ==
  /\ n < MaxBlocks /\ p \in 0..n /\ p \in stored /\ p \notin failed
  /\ LET b == n + 1
         B2 == [blk EXCEPT ![b] = [parent |-> p, txs |-> txs, cb |-> cb, dt |-> dt]]
     IN /\ n' = b /\ blk' = B2
        /\ IF ~CheckBlockOK(txs)
           THEN \* CheckBlock fails: the block is not stored and no index entry is created
                /\ UNCHANGED node
                /\ lastRes' = IF \E i \in 1..Len(txs) : Bulk(txs[i]) >= 2 /\ \A j \in 1..(i-1) : ~DupInputs(txs[j])
                              THEN <<"bad-txns-txouttotal-toolarge">> ELSE <<"bad-txns-inputs-duplicate">>
           ELSE IF ~ContextualOK(B2, b)
           THEN \* ContextualCheckBlock fails: index entry marked failed, no data
                /\ failed' = failed \cup {b} /\ UNCHANGED <<stored, tip, utxo, undo>> /\ lastRes' = <<"bad-txns-nonfinal">>
           ELSE LET S == stored \cup {b}
                    a == Activate(B2, S, St0)
                IN /\ stored' = S /\ failed' = a.failed /\ tip' = a.tip /\ utxo' = a.utxo /\ undo' = KeepUndo(B2, a.tip, a.undo)
                   /\ lastRes' = IF \E x \in a.bad : x[1] = b THEN <<(CHOOSE x \in a.bad : x[1] = b)[2]>>
                                 ELSE IF b \in AncB(B2, a.tip) THEN <<"connected">> ELSE <<"stored">>
  /\ UNCHANGED ninv
  /\ lastAct' = <<"mine", p, txs, cb, dt>>

Invalidate(b) ==
  /\ ninv < MaxInv /\ b \in 1..n /\ b \in stored /\ b \notin failed
  /\ LET a == Activate(blk, stored, [St0 EXCEPT !.failed = failed \cup {x \in stored : b \in AncB(blk, x)}])
     IN failed' = a.failed /\ tip' = a.tip /\ utxo' = a.utxo /\ undo' = KeepUndo(blk, a.tip, a.undo)
  /\ ninv' = ninv + 1 /\ UNCHANGED <<world, stored>>
  /\ lastAct' = <<"invalidate", b>> /\ lastRes' = <<"none">>

Reconsider(b) ==
  /\ ninv < MaxInv /\ b \in 1..n /\ b \in stored /\ b \in failed
  /\ LET a == Activate(blk, stored, [St0 EXCEPT !.failed = failed \ {x \in failed : b \in AncB(blk, x) \/ x \in AncB(blk, b)}])
     IN failed' = a.failed /\ tip' = a.tip /\ utxo' = a.utxo /\ undo' = KeepUndo(blk, a.tip, a.undo)
  /\ ninv' = ninv + 1 /\ UNCHANGED <<world, stored>>
  /\ lastAct' = <<"reconsider", b>> /\ lastRes' = <<"none">>

Next == \/ \E p \in Ids, txs \in Lists, cb \in CbModes, dt \in Dts : Mine(p, txs, cb, dt)
        \/ \E b \in Ids : Invalidate(b) \/ Reconsider(b)
Spec == Init /\ [][Next]_vars

\* ------------------------------------------------------------------ properties
\* C09: the incrementally maintained UTXO set equals the from-scratch replay of the active chain (heights and coinbase flags included)
UtxoIsReplay == utxo = ReplayB(blk, tip)
\* C02 / C05 / C01: the active chain is valid by the declarative rules (inputs exist and are unspent, no double spend in tx / block /
\* chain, no later-in-block spend, no BIP30 re-creation, locks and maturity satisfied, coinbase within subsidy + fees, in >= out)
ActiveChainValid == ValidChainB(blk, tip)
\* C01: total value never exceeds base value + one subsidy per new block in the chain
RECURSIVE SupplyOf(_, _)
SupplyOf(V, S) == IF S = {} THEN VZ ELSE LET o == CHOOSE x \in S : TRUE IN VAdd(V[o].v, SupplyOf(V, S \ {o}))
Supply(V) == SupplyOf(V, DOMAIN V)
BaseTotal == SumS([i \in 1..Len(BaseCoins) |-> BaseCoins[i].v])
NoInflationIn(B, t, V) == VLe(Supply(V), [k |-> HeightB(B, t) - H0, s |-> BaseTotal])
NoInflation == NoInflationIn(blk, tip, utxo)
NoFailedInChain == AncB(blk, tip) \cap failed = {}
\* C09, second clause: disconnecting a block restores exactly the view it was connected to
DisconnectRestores ==
  \A b \in AncB(blk, tip) \ {0} :
     LET V0 == ReplayB(blk, blk[b].parent) r == ConnectB(blk, b, V0) IN r.ok => DisconnectB(blk, b, r.spent, r.view) = V0
\* rejected blocks leave tip and UTXO set unchanged (C02, last sentence)
RejectLeavesState == [][(lastAct'[1] = "mine" /\ lastRes'[1] \notin {"connected", "stored"}) => (tip' = tip /\ utxo' = utxo)]_vars

\* ------------------------------------------------------------------ emission
UtxoList(V) == {[t |-> o[1], i |-> o[2], k |-> V[o].v.k, s |-> V[o].v.s, h |-> V[o].h, cb |-> V[o].cb] : o \in DOMAIN V}
Obs == [tip |-> tip, stored |-> stored, failed |-> failed, utxo |-> UtxoList(utxo)]
World == [n |-> n, blk |-> blk]
Proj == [world |-> World, obs |-> Obs]
Emit == VFEdge(Proj, lastAct', lastRes', Proj')
Universe == [universe |-> TxU, h0 |-> H0, basedt |-> BaseDt, base |-> BaseCoins]
ASSUME VFRow(Universe)
====
