---- MODULE MC_spend ----
EXTENDS UtxoChain, Uni_spend
====
