---- MODULE MCO_par ----
EXTENDS UtxoChainObs, Uni_par
====
