---- MODULE UtxoChainObs ----
(* Deviation handling (DESIGN 8): the node's observable state after a step differed from the deterministic prediction of  *)
(* UtxoChain.  TLC evaluates what the properties state on the *observed* state.  Each line of env OBS:                   *)
(*   {world: {n, blk}, act, exp: {tip,...}, post: {tip, stored, failed, utxo: [{t,i,k,s,h,cb}...]}}                      *)
EXTENDS UtxoChain, Json, IOUtils
ObsLines == ndJsonDeserialize(IOEnv.OBS)
VARIABLE idx
ToSet(s) == {s[i] : i \in 1..Len(s)}
BlkOf(L) == [b \in Ids |-> IF b + 1 <= Len(L.world.blk) THEN L.world.blk[b + 1] ELSE [parent |-> 0, txs |-> <<>>, cb |-> "zero", dt |-> 1]]
InitObs == /\ idx \in 1..Len(ObsLines)
           /\ n = ObsLines[idx].world.n /\ blk = BlkOf(ObsLines[idx])
           /\ stored = {0} /\ failed = {} /\ tip = 0 /\ utxo = BaseUtxo /\ undo = [b \in Ids |-> <<>>] /\ ninv = 0
           /\ lastAct = <<"observed", idx>> /\ lastRes = <<"none">>
Stutter == UNCHANGED <<vars, idx>>
Post == ObsLines[idx].post
Exp == ObsLines[idx].exp
PostUtxo == ToSet(Post.utxo)
\* C02 / C05 / C01: whatever chain the node made active is valid by the specification's rules
ObsChainValid == ValidChainB(blk, Post.tip)
\* C09 (and C02's "unchanged"): the observed UTXO set is exactly the replay of the observed active chain
ObsUtxoIsReplay == ValidChainB(blk, Post.tip) => PostUtxo = UtxoList(ReplayB(blk, Post.tip))
\* C01
ObsNoInflation == LET tot == [k |-> SumS([i \in 1..Len(Post.utxo) |-> Post.utxo[i].k]), s |-> SumS([i \in 1..Len(Post.utxo) |-> Post.utxo[i].s])]
                  IN VLe(tot, [k |-> HeightB(blk, Post.tip) - H0, s |-> BaseTotal])
ObsNoFailedInChain == AncB(blk, Post.tip) \cap ToSet(Post.failed) = {}
\* C08 on histories with transactions: the observed tip has at least the work of every delivered block whose chain is valid by the
\* rules and was not manually invalidated (inv = blocks under a manual invalidation according to the action history)
Inv == ToSet(ObsLines[idx].inv)
ObsTipMostWork == \A b \in 1..n : (ValidChainB(blk, b) /\ AncB(blk, b) \cap Inv = {}) => HeightB(blk, b) <= HeightB(blk, Post.tip)
\* C05 "the boundary cases behave as specified": the node activates exactly the tip the rules predict
ObsTipExact == Post.tip = Exp.tip
====
