---- MODULE MC_par ----
EXTENDS UtxoChain, Uni_par
====
