---- MODULE MCO_locks ----
EXTENDS UtxoChainObs, Uni_locks
====
