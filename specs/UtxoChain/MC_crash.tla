---- MODULE MC_crash ----
EXTENDS UtxoChainFlush, Uni_spend
ListsCrash == { <<>>, <<1>>, <<2>>, <<1,3>>, <<3>>, <<1,3,7>> }
====
