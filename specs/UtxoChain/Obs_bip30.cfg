CONSTANTS
  MaxBlocks = 3
  MaxInv = 9
  TxU <- TxUDef
  Lists <- ListsBip30
  CbModes = {"zero", "dup"}
  Dts = {1}
  H0 = 101
  BaseDt = 1
  BaseCoins <- BaseDef
INIT InitObs
NEXT Stutter
INVARIANTS ObsChainValid ObsUtxoIsReplay ObsNoInflation ObsNoFailedInChain ObsTipMostWork ObsTipExact
CHECK_DEADLOCK FALSE
