CONSTANTS
  MaxBlocks = 3
  MaxInv = 1
  TxU <- TxUDef
  Lists <- ListsC09Big
  CbModes = {"zero"}
  Dts = {1}
  H0 = 101
  BaseDt = 1
  BaseCoins <- BaseDef
INIT Init
NEXT Next
VIEW View0
INVARIANTS UtxoIsReplay ActiveChainValid NoInflation NoFailedInChain DisconnectRestores
ACTION_CONSTRAINT Emit
CHECK_DEADLOCK FALSE
