---- MODULE Uni_locks ----
(* Scenario family "locks" (C05): base tip at height 101, base block times 512 s apart. Base coins = coinbases of heights   *)
(* 1..4, so coin 3 matures exactly one block after the first new block (height 102) and coin 4 two blocks after.         *)
EXTENDS Integers, Sequences
F == [kind |-> "final", v |-> 0]
NF == [kind |-> "disabled", v |-> 0]        \* non-final sequence without a BIP68 meaning (bit 31 set)
SH(v) == [kind |-> "height", v |-> v]
ST(v) == [kind |-> "time", v |-> v]
NoLock == [kind |-> "none", v |-> 0]
In(t, i, sq) == [op |-> <<t, i>>, seq |-> sq]
Out(v) == [v |-> v, cls |-> "true"]
Tx(ins, outs, ver, lock) == [ins |-> ins, outs |-> outs, ver |-> ver, lock |-> lock]
TxUDef == <<
  Tx(<<In(0,3,F)>>, <<Out(900)>>, 1, NoLock),                                  \* 1: coinbase of height 3: premature at 102, mature at 103
  Tx(<<In(0,1,NF)>>, <<Out(900)>>, 1, [kind |-> "height", v |-> 102]),         \* 2: nLockTime = 102: non-final in block 102, final in 103
  Tx(<<In(0,1,NF)>>, <<Out(901)>>, 1, [kind |-> "height", v |-> 101]),         \* 3: nLockTime = 101: final in 102
  Tx(<<In(0,1,F)>>, <<Out(902)>>, 1, [kind |-> "height", v |-> 500]),          \* 4: locked far ahead but every sequence final: final anyway
  Tx(<<In(0,2,SH(101))>>, <<Out(800)>>, 2, NoLock),                            \* 5: BIP68 height lock 101 on a coin of height 2: needs height >= 103
  Tx(<<In(0,2,SH(100))>>, <<Out(801)>>, 2, NoLock),                            \* 6: BIP68 height lock 100: satisfied at 102
  Tx(<<In(0,2,SH(400))>>, <<Out(802)>>, 1, NoLock),                            \* 7: version 1: BIP68 not enforced
  Tx(<<In(0,1,NF)>>, <<Out(903)>>, 1, [kind |-> "time", v |-> -2560]),         \* 8: nLockTime = MTP(base tip) = -5*512: non-final in 102, final in 103
  Tx(<<In(0,1,ST(97))>>, <<Out(904)>>, 2, NoLock),                             \* 9: BIP68 time lock 97*512 s on the coin of height 1: first satisfied at 103
  Tx(<<In(0,1,ST(96))>>, <<Out(905)>>, 2, NoLock),                             \* 10: BIP68 time lock 96*512 s: satisfied at 102
  Tx(<<In(0,4,F)>>, <<Out(906)>>, 1, NoLock),                                  \* 11: coinbase of height 4: mature at 104
  Tx(<<In(0,2,SH(101))>>, <<Out(803)>>, 99, NoLock),                           \* 12: like 5 with nVersion = 0xffffffff (code 99): BIP68 applies to every version >= 2
  Tx(<<In(0,1,ST(97))>>, <<Out(907)>>, 98, NoLock)                             \* 13: like 9 with nVersion = 0x80000000 (code 98)
>>
ListsDef == { <<>>, <<1>>, <<2>>, <<3>>, <<4>>, <<5>>, <<6>>, <<7>>, <<8>>, <<9>>, <<10>>, <<11>>, <<12>>, <<13>> }
BaseDef == << [v |-> 1000, h |-> 1], [v |-> 1000, h |-> 2], [v |-> 1000, h |-> 3], [v |-> 1000, h |-> 4] >>
====
