CONSTANTS
  MinRelay = 100
  IncrRelay = 100
  MaxReplClusters = 100
  MaxClusterCount = 64
INIT Init
NEXT Next
CHECK_DEADLOCK FALSE
