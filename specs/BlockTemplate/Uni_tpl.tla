---- MODULE Uni_tpl ----
(* Transaction universe of the block-template scenarios. Base tip at height 148 (regtest halves the subsidy at 150: the first    *)
(* template is for height 149, after one more block for 150), base block times 512 s apart, eight mature base coins of          *)
(* 1 000 000 sat (coinbases of heights 1..8).                                                                                   *)
(*   1..4   a diamond: low-fee parent 1, high-fee child 2 (child pays for parent), second child 3, grandchild 4 of both         *)
(*   5      conflicts with 1 and pays for replacing the whole family                                                            *)
(*   6, 7   two unrelated transactions of the same size and fee (a feerate tie between clusters)                                *)
(*   8, 9   8 is non-final until the tip is at 149 (nLockTime 149); 9 is its (final) child                                      *)
(*   10     nLockTime = median time past of the base tip: final one block later                                                 *)
(*   11, 12 sigop carriers: 200 / 199 bare CHECKMULTISIG outputs = 16 000 / 15 920 sigop cost (the per-transaction maximum is   *)
(*          16 000); their adjusted weight (20 bytes per sigop) is far above their real weight                                  *)
(*   13     two bare CHECKMULTISIG outputs (160 sigop cost)                                                                     *)
(*   14     pays no fee (child of 7): only enters after PrioritiseTransaction; its modified fee is not part of any block reward *)
(*   15..17 each pays a 9 BTC fee out of a 50 BTC base coin (coinbases of heights 9..12): one or two of them stay below 2^31    *)
(*          satoshi in total, three reach 2.7 * 10^9 (between 2^31 and 2^32)                                                    *)
(*   18     pays 45 BTC, a single fee above 2^32 satoshi; with 15..17 the total passes 2^32 (up to 72 BTC)                      *)
(* Amounts are wide: [q, r] = q * 10^9 + r satoshi (V(q, r); plain integers below 2^31 through WV).                             *)
EXTENDS Integers, Sequences
F == [kind |-> "final", v |-> 0]
NF == [kind |-> "disabled", v |-> 0]
NoLock == [kind |-> "none", v |-> 0]
NoMsig == [n |-> 0, v |-> 0]
In(t, i, sq) == [op |-> <<t, i>>, seq |-> sq]
V(q, r) == [q |-> q, r |-> r]
WV(n) == [q |-> n \div 1000000000, r |-> n % 1000000000]
Out(v) == [v |-> WV(v), cls |-> "true"]
OutW(q, r) == [v |-> V(q, r), cls |-> "true"]
Tx(ins, outs, lock) == [ins |-> ins, outs |-> outs, ver |-> 1, lock |-> lock, pad |-> 0, msig |-> NoMsig]
TxM(ins, outs, n, v) == [ins |-> ins, outs |-> outs, ver |-> 1, lock |-> NoLock, pad |-> 0, msig |-> [n |-> n, v |-> v]]
TxUDef == <<
  Tx(<<In(0,1,F)>>, <<Out(499900), Out(499900)>>, NoLock),                      \*  1: fee 200
  Tx(<<In(1,1,F)>>, <<Out(494900)>>, NoLock),                                   \*  2: fee 5000
  Tx(<<In(1,2,F)>>, <<Out(498700)>>, NoLock),                                   \*  3: fee 1200
  Tx(<<In(2,1,F), In(3,1,F)>>, <<Out(990600)>>, NoLock),                        \*  4: fee 3000
  Tx(<<In(0,1,F)>>, <<Out(970000)>>, NoLock),                                   \*  5: fee 30000, conflicts with 1
  Tx(<<In(0,2,F)>>, <<Out(999000)>>, NoLock),                                   \*  6: fee 1000
  Tx(<<In(0,3,F)>>, <<Out(999000)>>, NoLock),                                   \*  7: fee 1000
  Tx(<<In(0,4,NF)>>, <<Out(996000)>>, [kind |-> "height", v |-> 149]),          \*  8: fee 4000, final once the tip is 149
  Tx(<<In(8,1,F)>>, <<Out(990000)>>, NoLock),                                   \*  9: fee 6000, child of 8
  Tx(<<In(0,5,NF)>>, <<Out(997500)>>, [kind |-> "time", v |-> -2560]),          \* 10: fee 2500, final once the tip is 149
  TxM(<<In(0,6,F)>>, <<Out(700000)>>, 200, 600),                                \* 11: fee 180000, 16000 sigop cost
  TxM(<<In(0,7,F)>>, <<Out(700600)>>, 199, 600),                                \* 12: fee 180000, 15920 sigop cost
  TxM(<<In(0,8,F)>>, <<Out(998000)>>, 2, 600),                                  \* 13: fee 800, 160 sigop cost
  Tx(<<In(7,1,F)>>, <<Out(999000)>>, NoLock),                                   \* 14: fee 0, child of 7
  Tx(<<In(0,9,F)>>, <<OutW(4, 100000000)>>, NoLock),                            \* 15: 50 BTC in, 41 BTC out: fee 9 BTC
  Tx(<<In(0,10,F)>>, <<OutW(4, 100000000)>>, NoLock),                           \* 16: fee 9 BTC
  Tx(<<In(0,11,F)>>, <<OutW(4, 100000000)>>, NoLock),                           \* 17: fee 9 BTC
  Tx(<<In(0,12,F)>>, <<OutW(0, 500000000)>>, NoLock)                            \* 18: 50 BTC in, 5 BTC out: fee 45 BTC > 2^32 satoshi
>>
BaseDef == << [v |-> WV(1000000), h |-> 1], [v |-> WV(1000000), h |-> 2], [v |-> WV(1000000), h |-> 3], [v |-> WV(1000000), h |-> 4],
              [v |-> WV(1000000), h |-> 5], [v |-> WV(1000000), h |-> 6], [v |-> WV(1000000), h |-> 7], [v |-> WV(1000000), h |-> 8],
              [v |-> V(5, 0), h |-> 9], [v |-> V(5, 0), h |-> 10], [v |-> V(5, 0), h |-> 11], [v |-> V(5, 0), h |-> 12] >>
H0Def == 148
BaseDtDef == 512
NoTx == {}
NoPrio == {}
NoLists == {}
\* scenario "cpfp": the diamond, its replacement, the tie, prioritisation (positive on the free child, negative on 6)
CpfpTx == {1, 2, 3, 4, 5, 6, 7, 14}
CpfpTxQ == {1, 2, 3, 4, 5, 6, 14}
CpfpPrio == {<<14, 3000>>, <<6, -900>>}
\* scenario "locks": non-final entries that become final with the next block; the subsidy halves at 150
LocksTx == {6, 9}
LocksInject == {8, 10}
LocksLists == {<<>>, <<6>>}
\* scenario "sigops"
SigTx == {6, 11, 12, 13}
\* scenario "mix" (thorough): everything at once
MixTx == {1, 2, 3, 6, 9, 13, 14}
MixInject == {8, 10}
MixLists == {<<>>, <<6>>}
\* scenario "huge": fee totals of one template below 2^31, between 2^31 and 2^32, above 2^32 satoshi, next to a normal fee;
\* thorough: also across the subsidy halving and with a prioritisation
HugeTx == {6, 15, 16, 17, 18}
HugeLists == {<<>>}
HugePrio == {<<15, 1000>>, <<16, -1000>>}
ResQ == {2000}
ResT == {2000, 8000}
====
