---- MODULE MC_tpl ----
EXTENDS BlockTemplate, Uni_tpl
====
