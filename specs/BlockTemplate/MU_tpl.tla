---- MODULE MU_tpl ----
(* prints the universe for the harness (measure step) *)
EXTENDS Uni_tpl, VF
CONSTANTS MinRelay, IncrRelay, MaxReplClusters, MaxClusterCount
VARIABLE x
Init == x = 0
Next == UNCHANGED x
ASSUME VFRow([universe |-> TxUDef, h0 |-> H0Def, basedt |-> BaseDtDef, base |-> BaseDef,
              opts |-> [minrelay |-> MinRelay, incr |-> IncrRelay, maxrepl |-> MaxReplClusters, maxcluster |-> MaxClusterCount]])
====
