---- MODULE BlockTemplateObs ----
(* Engine E3 for C23: TLC evaluates the relation on templates the real node built. Each line of env OBS is one observation:     *)
(*   {pool: [ids], delta: [d_1..d_n], chain: [{txs, dt}...]   the node's mempool (ids of the universe), its prioritisation      *)
(*                                                            deltas, the blocks connected on top of the base tip,              *)
(*    o: {maxw, resw, minf, mins, cbsig}                      the block-creation options of the call,                           *)
(*    tpl: {txs, fees, sigops, pkgs: [{f, s}], cbq, cbr, height}   the template (non-coinbase transactions in order, ...),      *)
(*    haspk: the package feerates are those of this template, tbv / pnb: verdicts of TestBlockValidity and of ProcessNewBlock   *)
(*    on the mined block ("ok" or the reject reason)}                                                                           *)
EXTENDS BlockTemplate
ObsLines == ndJsonDeserialize(IOEnv.OBS)
VARIABLE idx
InitObs == /\ idx \in 1..Len(ObsLines)
           /\ pool = ToSet(ObsLines[idx].pool) /\ delta = ObsLines[idx].delta
           /\ chain = ObsLines[idx].chain /\ utxo = Replay(ObsLines[idx].chain) /\ ctr = Ctr0
           /\ lastAct = <<"observed", idx>> /\ lastRes = NoneRes
Stutter == UNCHANGED <<vars, idx>>
Line == ObsLines[idx]
T == Line.tpl
O == Line.o
\* the observed pool is made of universe transactions and is consistent (else the observation itself is unusable: reported)
ObsPoolKnown == pool \subseteq TxIds
ObsInPool == ObsPoolKnown => VInPool(pool, T)
ObsTopo == ObsPoolKnown => VTopo(pool, T)
ObsWeight == VWeight(O, T)
ObsSigops == VSigops(O, T)
ObsClaims == VClaims(T)
ObsFinal == VFinal(chain, T)
ObsCoinbase == VCoinbase(chain, T)
ObsMinFee == Line.haspk => VMinFee(delta, O, T)
ObsConnect == VConnect(chain, utxo, T)
\* the node's own validation agrees: what the rules accept, TestBlockValidity and ProcessNewBlock (after mining) accept
ObsAccepted == (Known(T) /\ VFinal(chain, T) /\ VCoinbase(chain, T) /\ VConnect(chain, utxo, T) /\ VSigops([O EXCEPT !.cbsig = 0], T)
                /\ VWeight([O EXCEPT !.resw = 0, !.maxw = MaxWeight], T))
               => (Line.tbv = "ok" /\ Line.pnb = "ok")
====
