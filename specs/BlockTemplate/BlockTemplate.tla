---- MODULE BlockTemplate ----
(***************************************************************************)
(* C23: block templates built from the mempool are always valid.           *)
(*                                                                         *)
(* Part 1 (generator): a mempool over a confirmed chain on a fixed         *)
(* transaction universe (the pool model of specs/Mempool, copied: Submit = *)
(* ProcessTransaction with replacements, Prioritise, Mine) plus Inject =   *)
(* an entry placed into the pool without the acceptance checks (what       *)
(* miner_tests do with TryAddToMempool; the only way a non-final           *)
(* transaction meets the assembler).                                       *)
(* Part 2 (the relation): ValidTemplate(T, pool, deltas, chain, options) = *)
(* the clauses of the property, each its own operator (V...).              *)
(* Part 3 (the design): Asm = BlockAssembler::addChunks over the chunks of *)
(* the clusters' optimal linearizations (by modified fee and sigop-        *)
(* adjusted weight): highest chunk feerate first; stop below the minimum   *)
(* feerate; a chunk that does not fit (weight, sigops) or holds a non-     *)
(* final transaction is skipped together with the rest of its cluster.     *)
(* TLC proves ValidTemplate(Asm(...)) for every reachable pool and every   *)
(* row of the state-dependent option grid (AssembleValid), and prints the  *)
(* grid; the harness builds real templates for those rows and TLC judges   *)
(* each logged template with the relation (module BlockTemplateObs).       *)
(*                                                                         *)
(* Fees, weights, virtual sizes and sigop costs of the universe are the    *)
(* REAL ones, measured by the harness (IOEnv.BT_MEASURE).                  *)
(* Amounts (coin values, fees, fee sums, the coinbase value) are WIDE:     *)
(* [q, r] = q * 10^9 + r satoshi with 0 <= r < 10^9, so that single fees   *)
(* above 2^32 satoshi and fee totals crossing 2^31 / 2^32 are summed and   *)
(* compared exactly although TLC's integers are 32 bit (an overflow is an  *)
(* error in TLC, never a silent wrap).                                     *)
(* Outpoints: <<t, i>> with t >= 1: output i of TxU[t]; t = 0: base coin i.*)
(***************************************************************************)
EXTENDS Integers, Sequences, FiniteSets, TLC, VF, IOUtils
CONSTANTS TxU,        \* Seq of [ins : Seq([op, seq]), outs : Seq([v, cls]), ver, lock, pad, msig : [n, v]]
          BaseCoins,  \* Seq of [v, h]
          H0, BaseDt,
          Lists, Dts, \* Mine: allowed block contents / block time increments
          SubmitSet, InjectSet, PrioSet,
          MaxBlocks, MaxPrio, MaxInject, MaxPool,
          MinRelay, IncrRelay, MaxReplClusters, MaxClusterCount,
          Reserves,   \* block_reserved_weight values used for the weight rows of the option grid
          GridChunks  \* boundaries are taken around the first GridChunks chunks and the last one
Meas == ndJsonDeserialize(IOEnv.BT_MEASURE)      \* Meas[t] = [fee : [q, r], vsize, weight, sigops]
Maturity == 100
MaxSigops == 80000            \* MAX_BLOCK_SIGOPS_COST
MaxWeight == 4000000          \* MAX_BLOCK_WEIGHT
MinReserved == 2000           \* MINIMUM_BLOCK_RESERVED_WEIGHT
BytesPerSigop == 20           \* DEFAULT_BYTES_PER_SIGOP
Halving == 150                \* regtest subsidy halving interval
\* constants substituted by the configuration are re-evaluated at every reference: use them through constant-level aliases
TXU == TxU
BASEC == BaseCoins
LISTS_ == Lists
SUBMITSET_ == SubmitSet
INJECTSET_ == InjectSet
PRIOSET_ == PrioSet
DTS_ == Dts
RESERVES_ == Reserves

VARIABLES pool, delta, chain, utxo, ctr, lastAct, lastRes
state == <<pool, delta, chain, utxo>>
View0 == <<pool, delta, chain, ctr>>
vars == <<state, ctr, lastAct, lastRes>>

\* ------------------------------------------------------------------ wide amounts: [q, r] = q * 10^9 + r, 0 <= r < 10^9 (q may be negative)
WB == 1000000000
W(q, r) == [q |-> q, r |-> r]
WOf(n) == [q |-> n \div WB, r |-> n % WB]                      \* |n| < 2^31
WZero == W(0, 0)
WAdd(a, b) == LET x == a.r + b.r IN [q |-> a.q + b.q + x \div WB, r |-> x % WB]
WSub(a, b) == LET x == a.r - b.r IN [q |-> a.q - b.q + x \div WB, r |-> x % WB]
WLt(a, b) == a.q < b.q \/ (a.q = b.q /\ a.r < b.r)
WLe(a, b) == a.q < b.q \/ (a.q = b.q /\ a.r <= b.r)
WGt(a, b) == WLt(b, a)
WGe(a, b) == WLe(b, a)
WOK(a) == a.r >= 0 /\ a.r < WB
\* a * s for an integer 0 <= s < 2 000 000 (sizes and weights): the three base-1000 digits of r are multiplied separately
WMul(a, s) ==
  LET ok == Assert(s >= 0 /\ s < 2000000, "WMul: factor out of range")
      x0 == (a.r % 1000) * s
      x1 == ((a.r \div 1000) % 1000) * s
      x2 == (a.r \div 1000000) * s
  IN IF ok THEN WAdd(WAdd([q |-> a.q * s, r |-> 0], WOf(x0)),
                     WAdd([q |-> x1 \div 1000000, r |-> (x1 % 1000000) * 1000], [q |-> x2 \div 1000, r |-> (x2 % 1000) * 1000000]))
     ELSE WZero
RECURSIVE WSumS(_)
WSumS(s) == IF s = <<>> THEN WZero ELSE WAdd(Head(s), WSumS(Tail(s)))
RECURSIVE WSumF(_, _)
WSumF(f, S) == IF S = {} THEN WZero ELSE LET x == CHOOSE y \in S : TRUE IN WAdd(f[x], WSumF(f, S \ {x}))

\* ------------------------------------------------------------------ transactions
TxIds == 1..Len(TXU)
NIn(t) == Len(TXU[t].ins)
InOp(t, j) == TXU[t].ins[j].op
Spendable(cls) == cls # "opret"
INS_ == TLCEval([t \in TxIds |-> {InOp(t, j) : j \in 1..NIn(t)}])
INTX_ == TLCEval([t \in TxIds |-> {InOp(t, j)[1] : j \in 1..NIn(t)}])
OUTS_ == TLCEval([t \in TxIds |-> {<<t, i>> : i \in {i \in 1..Len(TXU[t].outs) : Spendable(TXU[t].outs[i].cls)}}])
DUP_ == TLCEval([t \in TxIds |-> Cardinality({InOp(t, j) : j \in 1..NIn(t)}) # NIn(t)])
InsSet(t) == INS_[t]
InTxs(t) == INTX_[t]
DupInputs(t) == DUP_[t]
OutsOf(t) == OUTS_[t]
RECURSIVE SumS(_)
SumS(s) == IF s = <<>> THEN 0 ELSE Head(s) + SumS(Tail(s))
RECURSIVE SumF(_, _)
SumF(f, S) == IF S = {} THEN 0 ELSE LET x == CHOOSE y \in S : TRUE IN f[x] + SumF(f, S \ {x})
\* msig: n extra bare-CHECKMULTISIG outputs of v satoshi each (sigop carriers; never spent)
OutVal(t) == WAdd(WSumS([i \in 1..Len(TXU[t].outs) |-> TXU[t].outs[i].v]), WOf(TXU[t].msig.n * TXU[t].msig.v))
Fee(t) == Meas[t].fee
VSize(t) == Meas[t].vsize         \* sigop-adjusted virtual size (CTxMemPoolEntry::GetTxSize)
Weight(t) == Meas[t].weight       \* GetTransactionWeight
SigOps(t) == Meas[t].sigops       \* GetTransactionSigOpCost
Max(a, b) == IF a > b THEN a ELSE b
AdjW(t) == Max(Weight(t), SigOps(t) * BytesPerSigop)     \* GetSigOpsAdjustedWeight: the size the cluster mempool works with
MFee(D, t) == WAdd(Fee(t), WOf(D[t]))
ClsOf(o) == IF o[1] >= 1 /\ o[1] # 99 THEN TXU[o[1]].outs[o[2]].cls ELSE "key"
FeeAt(rate, vsize) == (rate * vsize + 999) \div 1000
ToSet(s) == {s[i] : i \in 1..Len(s)}
Front(s) == SubSeq(s, 1, Len(s) - 1)

\* ------------------------------------------------------------------ chain, heights, times
Height(C) == H0 + Len(C)
RECURSIVE TimeIdx(_, _)
TimeIdx(C, k) == IF k = 0 THEN 0 ELSE TimeIdx(C, k - 1) + C[k].dt
TimeAt(C, h) == IF h <= H0 THEN (h - H0) * BaseDt ELSE TimeIdx(C, h - H0)
MTPat(C, j) ==
  LET hs == Max(0, j - 10)..j
      ts == [h \in hs |-> TimeAt(C, h)]
      cnt == Cardinality(hs)
      rank(h) == Cardinality({g \in hs : ts[g] < ts[h] \/ (ts[g] = ts[h] /\ g < h)})
  IN ts[CHOOSE h \in hs : rank(h) = cnt \div 2]
\* GetBlockSubsidy (heights below 2 * Halving): 50 BTC, then 25 BTC
SubsidyW(h) == IF h < Halving THEN W(5, 0) ELSE IF h < 2 * Halving THEN W(2, 500000000) ELSE Assert(FALSE, "height beyond the modelled subsidy range")

\* ------------------------------------------------------------------ coins
Coin(v, h, cb) == [v |-> v, h |-> h, cb |-> cb]
BaseUtxo == [o \in {<<0, i>> : i \in 1..Len(BASEC)} |-> Coin(BASEC[o[2]].v, BASEC[o[2]].h, TRUE)]
Restrict(f, S) == [x \in S |-> f[x]]
Without(f, S) == Restrict(f, DOMAIN f \ S)

\* ------------------------------------------------------------------ finality for inclusion in the block after chain C
AllSeqFinal(t) == \A j \in 1..NIn(t) : TXU[t].ins[j].seq.kind = "final"
\* IsFinalTx(tx, Height(C) + 1, MTP(tip)): the lock-time cutoff of the next block (BIP113)
FinalNext(C, t) ==
  LET L == TXU[t].lock IN
  \/ L.kind = "none"
  \/ L.kind = "height" /\ L.v < Height(C) + 1
  \/ L.kind = "time" /\ L.v < MTPat(C, Height(C))
  \/ AllSeqFinal(t)
SeqOKNext(C, t, hts) ==
  TXU[t].ver < 2 \/
  \A j \in 1..NIn(t) :
    LET sq == TXU[t].ins[j].seq ch == hts[j] IN
    CASE sq.kind = "height" -> ch + sq.v - 1 < Height(C) + 1
      [] sq.kind = "time" -> MTPat(C, Max(ch - 1, 0)) + 512 * sq.v - 1 < MTPat(C, Height(C))
      [] OTHER -> TRUE
ConsensusInvalid == {"fail", "cltv"}
PolicyInvalid == ConsensusInvalid \cup {"nopx"}

\* ------------------------------------------------------------------ connecting a block on top of chain C with view V (UtxoChain's ConnectB on
\* a linear chain: inputs exist and are unspent, maturity, amounts, BIP68, scripts; CheckBlock / ContextualCheckBlock / BIP30 in BlockOK)
RECURSIVE ConnTxs(_, _, _)
ConnTxs(C, txs, V) ==
  IF txs = <<>> THEN [ok |-> TRUE, why |-> "ok", view |-> V]
  ELSE LET t == Head(txs)
           h == Height(C) + 1
           fail(w) == [ok |-> FALSE, why |-> w, view |-> V]
       IN IF ~(InsSet(t) \subseteq DOMAIN V) THEN fail("bad-txns-inputs-missingorspent")
          ELSE IF \E j \in 1..NIn(t) : V[InOp(t, j)].cb /\ h - V[InOp(t, j)].h < Maturity
               THEN fail("bad-txns-premature-spend-of-coinbase")
          ELSE IF WLt(WSumS([j \in 1..NIn(t) |-> V[InOp(t, j)].v]), OutVal(t)) THEN fail("bad-txns-in-belowout")
          ELSE IF ~SeqOKNext(C, t, [j \in 1..NIn(t) |-> V[InOp(t, j)].h]) THEN fail("bad-txns-nonfinal")
          ELSE IF \E j \in 1..NIn(t) : ClsOf(InOp(t, j)) \in ConsensusInvalid THEN fail("script-failed")
          ELSE LET newc == [o \in OutsOf(t) |-> Coin(TXU[t].outs[o[2]].v, h, FALSE)]
               IN ConnTxs(C, Tail(txs), Without(V, InsSet(t)) @@ newc)
BlockOK(C, V, txs) ==
  /\ \A i \in 1..Len(txs) : ~DupInputs(txs[i])
  /\ \A i, k \in 1..Len(txs) : i # k => txs[i] # txs[k]
  /\ \A i \in 1..Len(txs) : FinalNext(C, txs[i])
  /\ \A i \in 1..Len(txs) : OutsOf(txs[i]) \cap DOMAIN V = {}
  /\ ConnTxs(C, txs, V).ok
Connect(C, V, txs) == ConnTxs(C, txs, V).view
RECURSIVE Replay(_)
Replay(C) == IF C = <<>> THEN BaseUtxo ELSE Connect(Front(C), Replay(Front(C)), C[Len(C)].txs)

\* ------------------------------------------------------------------ the mempool graph
ParentsIn(P, t) == P \cap InTxs(t)
ChildrenIn(P, t) == {c \in P : t \in InTxs(c)}
RECURSIVE DescOf(_, _)
DescOf(P, S) == LET nxt == S \cup {c \in P : InTxs(c) \cap S # {}} IN IF nxt = S THEN S ELSE DescOf(P, nxt)
RECURSIVE AncOf(_, _)
AncOf(P, S) == LET nxt == S \cup UNION {ParentsIn(P, c) : c \in S} IN IF nxt = S THEN S ELSE AncOf(P, nxt)
RECURSIVE Cluster(_, _)
Cluster(P, S) == LET nxt == S \cup {c \in P : \E s \in S : c \in InTxs(s) \/ s \in InTxs(c)} IN IF nxt = S THEN S ELSE Cluster(P, nxt)
ClustersOf(P, S) == {Cluster(P, {t}) : t \in S}
Avail(P, U) == DOMAIN U \cup UNION {OutsOf(p) : p \in P}
CoinH(P, U, C, o) == IF o \in DOMAIN U THEN U[o].h ELSE Height(C) + 1
CoinV(P, U, o) == IF o \in DOMAIN U THEN U[o].v ELSE TXU[o[1]].outs[o[2]].v

\* ------------------------------------------------------------------ exact feerate comparisons (wide fee * size products)
\* chunk a has a strictly higher feerate than chunk b (f = modified fee, s = adjusted weight > 0)
Higher(a, b) == WGt(WMul(a.f, b.s), WMul(b.f, a.s))
\* chunks of a linearization, with their members: a later chunk with a higher feerate merges into its predecessor
RECURSIVE MergeBack(_)
MergeBack(ch) == IF Len(ch) < 2 THEN ch
                 ELSE LET a == ch[Len(ch) - 1] b == ch[Len(ch)] IN
                      IF Higher(b, a) THEN MergeBack(Append(SubSeq(ch, 1, Len(ch) - 2), [txs |-> a.txs \o b.txs, f |-> WAdd(a.f, b.f), s |-> a.s + b.s])) ELSE ch
RECURSIVE Chunks(_, _)
Chunks(D, L) == IF L = <<>> THEN <<>>
                ELSE MergeBack(Append(Chunks(D, Front(L)), [txs |-> <<L[Len(L)]>>, f |-> MFee(D, L[Len(L)]), s |-> AdjW(L[Len(L)])]))
RECURSIVE Cum(_)
Cum(ch) == IF ch = <<>> THEN <<[f |-> WZero, s |-> 0]>>
           ELSE LET c == Cum(Front(ch)) l == c[Len(c)] x == ch[Len(ch)] IN Append(c, [f |-> WAdd(l.f, x.f), s |-> l.s + x.s])
Uncum(c) == [i \in 1..Len(c) - 1 |-> [f |-> WSub(c[i + 1].f, c[i].f), s |-> c[i + 1].s - c[i].s]]
SizesOf(d) == {d[i].s : i \in 1..Len(d)}
SegOf(d, z) == IF z >= d[Len(d)].s THEN [a |-> d[Len(d)], b |-> [f |-> d[Len(d)].f, s |-> d[Len(d)].s + 1]]
               ELSE LET i == CHOOSE k \in 1..Len(d) - 1 : d[k].s <= z /\ z < d[k + 1].s IN [a |-> d[i], b |-> d[i + 1]]
PGE(a, b, c, d) == WGe(WMul(a, b), WMul(c, d))        \* a * b >= c * d (a, c wide; b, d sizes)
PGT(a, b, c, d) == WGt(WMul(a, b), WMul(c, d))
GEat(d1, d2, z) == LET s1 == SegOf(d1, z) s2 == SegOf(d2, z) IN
                   IF z = s1.a.s THEN PGE(WSub(s1.a.f, s2.a.f), s2.b.s - s2.a.s, WSub(s2.b.f, s2.a.f), z - s2.a.s)
                   ELSE PGE(WSub(s1.b.f, s1.a.f), z - s1.a.s, WSub(s2.a.f, s1.a.f), s1.b.s - s1.a.s)
GTat(d1, d2, z) == LET s1 == SegOf(d1, z) s2 == SegOf(d2, z) IN
                   IF z = s1.a.s THEN PGT(WSub(s1.a.f, s2.a.f), s2.b.s - s2.a.s, WSub(s2.b.f, s2.a.f), z - s2.a.s)
                   ELSE PGT(WSub(s1.b.f, s1.a.f), z - s1.a.s, WSub(s2.a.f, s1.a.f), s1.b.s - s1.a.s)
DiagGE(d1, d2) == \A z \in SizesOf(d1) \cup SizesOf(d2) : GEat(d1, d2, z)
StrictlyBetter(dn, dol) == LET Z == SizesOf(dn) \cup SizesOf(dol) IN (\A z \in Z : GEat(dn, dol, z)) /\ (\E z \in Z : GTat(dn, dol, z))
Fs(ch) == [i \in 1..Len(ch) |-> [f |-> ch[i].f, s |-> ch[i].s]]
RECURSIVE Perms(_)
Perms(S) == IF S = {} THEN {<<>>} ELSE UNION {{<<x>> \o p : p \in Perms(S \ {x})} : x \in S}
Topo(L) == \A i \in 1..Len(L) : \A k \in 1..Len(L) : L[k] \in InTxs(L[i]) => k < i
\* an optimal linearization of cluster Cl (brute force over its topological orders; the CHOOSE fails if no order dominates)
BestLin(D, Cl) ==
  IF Cardinality(Cl) = 1 THEN <<CHOOSE x \in Cl : TRUE>>
  ELSE LET cand == {L \in Perms(Cl) : Topo(L)}
           diag == [L \in cand |-> Cum(Fs(Chunks(D, L)))]
       IN CHOOSE L \in cand : \A M \in cand : DiagGE(diag[L], diag[M])
BestChunks(D, Cl) == Chunks(D, BestLin(D, Cl))
RECURSIVE SortChunks(_)
SortChunks(S) == IF S = {} THEN <<>>
                 ELSE LET m == CHOOSE x \in S : \A y \in S : ~Higher(y[2], x[2]) IN <<m[2]>> \o SortChunks(S \ {m})
DiagramOf(D, Cs) ==
  LET tagged == UNION {LET bc == Fs(BestChunks(D, Cl)) IN {<<<<Cl, i>>, bc[i]>> : i \in 1..Len(bc)} : Cl \in Cs}
  IN Cum(SortChunks(tagged))

\* ------------------------------------------------------------------ acceptance (MemPoolAccept, in the code's order; copied from specs/Mempool)
Direct(P, t) == {c \in P : InsSet(c) \cap InsSet(t) # {}}
ImprovesDiagramE(P, D, t, ev) ==
  LET oldCs == ClustersOf(P, ev \cup (ParentsIn(P, t) \ ev))
      newP == (P \ ev) \cup {t}
      newCs == ClustersOf(newP, (UNION oldCs \ ev) \cup {t})
  IN StrictlyBetter(DiagramOf(D, newCs), DiagramOf(D, oldCs))
Res(ok, why, ev) == [ok |-> ok, why |-> why, evict |-> ev]
Rej(why) == Res(FALSE, why, {})
NoneRes == Res(TRUE, "none", {})
ScriptsOK(t) == \A j \in 1..NIn(t) : ClsOf(InOp(t, j)) \notin PolicyInvalid
Verdict(P, U, C, D, t) ==
  IF DupInputs(t) THEN Rej("bad-txns-inputs-duplicate")
  ELSE IF ~FinalNext(C, t) THEN Rej("non-final")
  ELSE IF t \in P THEN Rej("txn-already-in-mempool")
  ELSE IF ~(InsSet(t) \subseteq Avail(P, U))
       THEN IF OutsOf(t) \cap DOMAIN U # {} THEN Rej("txn-already-known") ELSE Rej("bad-txns-inputs-missingorspent")
  ELSE IF ~SeqOKNext(C, t, [j \in 1..NIn(t) |-> CoinH(P, U, C, InOp(t, j))]) THEN Rej("non-BIP68-final")
  ELSE IF \E j \in 1..NIn(t) : InOp(t, j) \in DOMAIN U /\ U[InOp(t, j)].cb /\ Height(C) + 1 - U[InOp(t, j)].h < Maturity
       THEN Rej("bad-txns-premature-spend-of-coinbase")
  ELSE IF WLt(WSumS([j \in 1..NIn(t) |-> CoinV(P, U, InOp(t, j))]), OutVal(t)) THEN Rej("bad-txns-in-belowout")
  ELSE IF SigOps(t) > MaxSigops \div 5 THEN Rej("bad-txns-too-many-sigops")
  ELSE IF WLt(MFee(D, t), WOf(FeeAt(MinRelay, VSize(t)))) THEN Rej("min relay fee not met")
  ELSE IF Direct(P, t) = {}
       THEN IF Cardinality(Cluster(P \cup {t}, {t})) > MaxClusterCount THEN Rej("too-large-cluster")
            ELSE IF ~ScriptsOK(t) THEN Rej("script-failed")
            ELSE Res(TRUE, "ok", {})
  ELSE LET direct == Direct(P, t)
           ev == DescOf(P, direct)
           evfees == WSumF([x \in TxIds |-> MFee(D, x)], ev)
           nc == Cardinality(ClustersOf(P, direct))
       IN IF nc > MaxReplClusters THEN Rej("too many potential replacements")
          ELSE IF WLt(MFee(D, t), evfees) THEN Rej("insufficient fee")
          ELSE IF WLt(WSub(MFee(D, t), evfees), WOf(FeeAt(IncrRelay, VSize(t)))) THEN Rej("insufficient fee")
          ELSE IF Cardinality(Cluster((P \ ev) \cup {t}, {t})) > MaxClusterCount THEN Rej("too-large-cluster")
          ELSE IF ~ImprovesDiagramE(P, D, t, ev) THEN Rej("replacement-failed")
          ELSE IF AncOf(P, ParentsIn(P, t)) \cap direct # {} THEN Rej("bad-txns-spends-conflicting-tx")
          ELSE IF ~ScriptsOK(t) THEN Rej("script-failed")
          ELSE Res(TRUE, "ok", ev)
\* removeForBlock
RECURSIVE RmConf(_, _, _, _)
RmConf(P, D, t, j) ==
  IF j > NIn(t) THEN [p |-> P, d |-> D]
  ELSE LET cs == {c \in P : InOp(t, j) \in InsSet(c)}
       IN RmConf(P \ DescOf(P, cs), [x \in TxIds |-> IF x \in cs THEN 0 ELSE D[x]], t, j + 1)
RECURSIVE RmBlock(_, _, _)
RmBlock(P, D, txs) ==
  IF txs = <<>> THEN [p |-> P, d |-> D]
  ELSE LET t == Head(txs) r == RmConf(P \ {t}, D, t, 1)
       IN RmBlock(r.p, [r.d EXCEPT ![t] = 0], Tail(txs))

\* ================================================================== block-creation options
\* o = [maxw, resw, minf, mins, cbsig]: block_max_weight, block_reserved_weight, block_min_fee_rate = minf (wide) satoshi per mins
\* virtual bytes, coinbase_output_max_additional_sigops
DefaultOpt == [maxw |-> MaxWeight, resw |-> 8000, minf |-> WOf(1), mins |-> 1000, cbsig |-> 400]
\* CheckMiningOptions: anything else is refused (the constructor throws)
OptOK(o) == /\ o.resw >= MinReserved /\ o.resw <= MaxWeight /\ o.maxw <= MaxWeight /\ o.resw <= o.maxw
            /\ o.cbsig <= MaxSigops

\* ================================================================== the relation (one operator per clause of the property)
\* T = [txs, fees, sigops, pkgs, cb, rw, height]: non-coinbase transactions in block order (universe ids, -1 = not of the universe),
\* the template's per-transaction fee (wide) / sigop fields, its package feerates [f (wide), s], the value the coinbase pays and the
\* block_reward_remaining field (both wide), the block height
TLen(T) == Len(T.txs)
Known(T) == \A i \in 1..TLen(T) : T.txs[i] \in TxIds
\* every transaction of the template is in the pool, once
VInPool(P, T) == /\ Known(T) /\ \A i \in 1..TLen(T) : T.txs[i] \in P
                 /\ \A i, k \in 1..TLen(T) : i # k => T.txs[i] # T.txs[k]
\* each transaction comes after all of its unconfirmed parents (which therefore are in the template)
VTopo(P, T) == Known(T) => \A i \in 1..TLen(T) : \A p \in ParentsIn(P, T.txs[i]) : \E k \in 1..(i - 1) : T.txs[k] = p
SumW(T) == SumS([i \in 1..TLen(T) |-> Weight(T.txs[i])])
SumSig(T) == SumS([i \in 1..TLen(T) |-> SigOps(T.txs[i])])
SumFee(T) == WSumS([i \in 1..TLen(T) |-> Fee(T.txs[i])])
\* within the configured weight, the reserved weight included; within the sigop-cost limit, the coinbase allowance included
VWeight(o, T) == Known(T) => o.resw + SumW(T) <= o.maxw /\ o.resw + SumW(T) <= MaxWeight
VSigops(o, T) == Known(T) => o.cbsig + SumSig(T) <= MaxSigops
\* the per-transaction fee and sigop fields of the template are the transactions' real ones
VClaims(T) == Known(T) => /\ Len(T.fees) = TLen(T) /\ Len(T.sigops) = TLen(T)
                          /\ \A i \in 1..TLen(T) : T.fees[i] = Fee(T.txs[i]) /\ T.sigops[i] = SigOps(T.txs[i])
\* only transactions that are final at (height + 1, median time past of the tip); the template is for the next height
VFinal(C, T) == Known(T) => (\A i \in 1..TLen(T) : FinalNext(C, T.txs[i])) /\ T.height = Height(C) + 1
\* the coinbase pays exactly subsidy + fees (real fees, not modified ones)
VCoinbase(C, T) == Known(T) => LET want == WAdd(SubsidyW(Height(C) + 1), SumFee(T)) IN T.cb = want /\ T.rw = want
\* the package feerates the template reports are those of consecutive groups of its transactions (modified fee, virtual size of the
\* adjusted weight), and none is below the configured minimum feerate
RECURSIVE SegOK(_, _, _, _)
SegOK(D, T, i, k) ==
  IF k > Len(T.pkgs) THEN i = TLen(T) + 1
  ELSE \E j \in i..TLen(T) :
         /\ WSumS([x \in 1..(j - i + 1) |-> MFee(D, T.txs[i + x - 1])]) = T.pkgs[k].f
         /\ (SumS([x \in 1..(j - i + 1) |-> AdjW(T.txs[i + x - 1])]) + 3) \div 4 = T.pkgs[k].s
         /\ SegOK(D, T, j + 1, k + 1)
\* ByRatio: package < minimum  <=>  f * mins < minf * s
BelowMin(o, f, s) == WGt(WMul(o.minf, s), WMul(f, o.mins))
VMinFee(D, o, T) == Known(T) => SegOK(D, T, 1, 1) /\ \A k \in 1..Len(T.pkgs) : ~BelowMin(o, T.pkgs[k].f, T.pkgs[k].s)
\* the template, as a block on the tip, passes the consensus rules (UtxoChain)
VConnect(C, U, T) == Known(T) => BlockOK(C, U, T.txs)
ValidTemplate(T, P, D, C, U, o) ==
  /\ VInPool(P, T) /\ VTopo(P, T) /\ VWeight(o, T) /\ VSigops(o, T) /\ VClaims(T) /\ VFinal(C, T) /\ VCoinbase(C, T)
  /\ VMinFee(D, o, T) /\ VConnect(C, U, T)

\* ================================================================== the design: BlockAssembler::addChunks
MinOf(S) == CHOOSE x \in S : \A y \in S : x <= y
\* queues: cluster (named by its smallest member) -> its chunks, best first
Queues(P, D) == LET Cs == ClustersOf(P, P) IN [k \in {MinOf(Cl) : Cl \in Cs} |-> BestChunks(D, Cluster(P, {k}))]
ChunkW(c) == SumS([i \in 1..Len(c.txs) |-> Weight(c.txs[i])])
ChunkSig(c) == SumS([i \in 1..Len(c.txs) |-> SigOps(c.txs[i])])
\* acc = [w, sg, txs, pkgs, inc (included chunks: [f, vs, w, aw, sg]), skips (reasons)]
RECURSIVE AsmLoop(_, _, _, _, _)
AsmLoop(C, Q, o, acc, tb) ==
  LET live == {k \in DOMAIN Q : Q[k] # <<>>} IN
  IF live = {} THEN acc
  ELSE LET tops == {k \in live : \A m \in live : ~Higher(Head(Q[m]), Head(Q[k]))}
           best == IF tb = "lo" THEN MinOf(tops) ELSE CHOOSE x \in tops : \A y \in tops : y <= x
           c == Head(Q[best])
           vs == (c.s + 3) \div 4
           cw == ChunkW(c) csg == ChunkSig(c)
           why == IF acc.w + c.s >= o.maxw THEN "weight"
                  ELSE IF acc.sg + csg >= MaxSigops THEN "sigops"
                  ELSE IF \E t \in ToSet(c.txs) : ~FinalNext(C, t) THEN "nonfinal" ELSE "fits"
       IN IF BelowMin(o, c.f, vs) THEN [acc EXCEPT !.skips = @ \cup {"minfee"}]
          ELSE IF why # "fits" THEN AsmLoop(C, [Q EXCEPT ![best] = <<>>], o, [acc EXCEPT !.skips = @ \cup {why}], tb)
          ELSE AsmLoop(C, [Q EXCEPT ![best] = Tail(@)], o,
                       [acc EXCEPT !.w = @ + cw, !.sg = @ + csg, !.txs = @ \o c.txs, !.pkgs = Append(@, [f |-> c.f, s |-> vs]),
                                   !.inc = Append(@, [f |-> c.f, vs |-> vs, w |-> cw, aw |-> c.s, sg |-> csg])], tb)
Asm(Q, C, o, tb) == AsmLoop(C, Q, o, [w |-> o.resw, sg |-> o.cbsig, txs |-> <<>>, pkgs |-> <<>>, inc |-> <<>>, skips |-> {}], tb)
\* the template the design produces, in the shape the relation takes
TplOf(C, a) == LET cb == WAdd(SubsidyW(Height(C) + 1), WSumS([i \in 1..Len(a.txs) |-> Fee(a.txs[i])])) IN
               [txs |-> a.txs, fees |-> [i \in 1..Len(a.txs) |-> Fee(a.txs[i])], sigops |-> [i \in 1..Len(a.txs) |-> SigOps(a.txs[i])],
                pkgs |-> a.pkgs, cb |-> cb, rw |-> cb, height |-> Height(C) + 1]

\* ------------------------------------------------------------------ the option grid of a state: the default options, and options at / around
\* the boundaries of the template the defaults give: maximum weight at -1 / 0 / +1 of "chunk k just fits", minimum feerate at -1 / 0 /
\* +1 satoshi of chunk k's feerate, coinbase sigop allowance at -1 / 0 / +1 of "chunk k just fits", no room at all, refused options
Grid(Q, C) ==
  LET base == Asm(Q, C, DefaultOpt, "lo").inc
      n == Len(base)
      K == {k \in 1..n : k <= GridChunks \/ k = n}
      wth(k) == SumS([j \in 1..(k - 1) |-> base[j].w]) + base[k].aw       \* chunk k fits iff resw + wth(k) < maxw
      sth(k) == SumS([j \in 1..k |-> base[j].sg])                          \* chunk k fits iff cbsig + sth(k) < MaxSigops
      wrows == {[DefaultOpt EXCEPT !.resw = r, !.maxw = r + wth(k) + d] : r \in RESERVES_, k \in K, d \in {-1, 0, 1}}
      frows == {[DefaultOpt EXCEPT !.minf = WAdd(base[k].f, WOf(d)), !.mins = base[k].vs] : k \in {k \in K : WGe(base[k].f, WOf(1))}, d \in {-1, 0, 1}}
      srows == {[DefaultOpt EXCEPT !.cbsig = MaxSigops - sth(k) + d] : k \in K, d \in {-1, 0, 1}}
      fixed == {DefaultOpt,
                [DefaultOpt EXCEPT !.maxw = 8000],                          \* no room for any transaction
                [DefaultOpt EXCEPT !.resw = MinReserved, !.maxw = MinReserved],
                [DefaultOpt EXCEPT !.cbsig = MaxSigops], [DefaultOpt EXCEPT !.cbsig = 0],
                [DefaultOpt EXCEPT !.minf = WZero],                         \* free transactions welcome
                [DefaultOpt EXCEPT !.maxw = 7999],                          \* refused: reserved weight above the maximum
                [DefaultOpt EXCEPT !.resw = MinReserved - 1],               \* refused: below the minimum reservation
                [DefaultOpt EXCEPT !.maxw = MaxWeight + 1],                 \* refused: above the consensus maximum
                [DefaultOpt EXCEPT !.cbsig = MaxSigops + 1]}                \* refused
  IN wrows \cup frows \cup srows \cup fixed
RowOf(Q, C, o) == IF OptOK(o) THEN LET a == Asm(Q, C, o, "lo") IN [o |-> o, ok |-> TRUE, txs |-> a.txs, skips |-> a.skips]
                  ELSE [o |-> o, ok |-> FALSE, txs |-> <<>>, skips |-> {}]

\* ================================================================== actions
Ctr0 == [blk |-> 0, prio |-> 0, inj |-> 0]
Init == /\ pool = {} /\ delta = [t \in TxIds |-> 0] /\ chain = <<>> /\ utxo = BaseUtxo /\ ctr = Ctr0
        /\ lastAct = <<"init">> /\ lastRes = NoneRes

Submit(t) ==
  LET v == Verdict(pool, utxo, chain, delta, t) IN
  /\ Cardinality(pool) < MaxPool
  /\ IF v.ok THEN pool' = (pool \ v.evict) \cup {t} ELSE UNCHANGED pool
  /\ UNCHANGED <<delta, chain, utxo, ctr>>
  /\ lastAct' = <<"submit", t>> /\ lastRes' = v

\* an entry placed into the pool without the acceptance rules: only structural sanity (inputs available, spends nothing twice)
Inject(t) ==
  /\ ctr.inj < MaxInject /\ Cardinality(pool) < MaxPool
  /\ t \notin pool /\ ~DupInputs(t) /\ InsSet(t) \subseteq Avail(pool, utxo) /\ Direct(pool, t) = {}
  /\ pool' = pool \cup {t} /\ ctr' = [ctr EXCEPT !.inj = @ + 1]
  /\ UNCHANGED <<delta, chain, utxo>>
  /\ lastAct' = <<"inject", t>> /\ lastRes' = NoneRes

Prioritise(t, d) ==
  /\ ctr.prio < MaxPrio
  /\ delta' = [delta EXCEPT ![t] = @ + d] /\ ctr' = [ctr EXCEPT !.prio = @ + 1]
  /\ UNCHANGED <<pool, chain, utxo>>
  /\ lastAct' = <<"prio", t, d>> /\ lastRes' = NoneRes

Mine(L, dt) ==
  /\ ctr.blk < MaxBlocks /\ BlockOK(chain, utxo, L)
  /\ LET r == RmBlock(pool, delta, L) IN
     /\ pool' = r.p /\ delta' = r.d
     /\ chain' = Append(chain, [txs |-> L, dt |-> dt]) /\ utxo' = Connect(chain, utxo, L)
  /\ ctr' = [ctr EXCEPT !.blk = @ + 1]
  /\ lastAct' = <<"mine", L, dt>> /\ lastRes' = NoneRes

\* createNewBlock for every row of the state's option grid (the state does not change)
Templates ==
  /\ UNCHANGED <<state, ctr>>
  /\ lastAct' = <<"templates">>
  /\ LET Q == Queues(pool, delta) IN lastRes' = [ok |-> TRUE, why |-> "rows", evict |-> {}, rows |-> {RowOf(Q, chain, o) : o \in Grid(Q, chain)}]

Next == \/ \E t \in SUBMITSET_ : Submit(t)
        \/ \E t \in INJECTSET_ : Inject(t)
        \/ \E p \in PRIOSET_ : Prioritise(p[1], p[2])
        \/ \E L \in LISTS_, dt \in DTS_ : Mine(L, dt)
        \/ Templates
Spec == Init /\ [][Next]_vars

\* ================================================================== what TLC decides on the model
\* the design guarantees the property: for every reachable pool and every accepted row of its option grid, under either tie-break
AssembleValid ==
  LET Q == Queues(pool, delta) IN
  \A o \in Grid(Q, chain) : OptOK(o) =>
     \A tb \in {"lo", "hi"} : ValidTemplate(TplOf(chain, Asm(Q, chain, o, tb)), pool, delta, chain, utxo, o)
UtxoIsReplay == utxo = Replay(chain)
\* pool members spend confirmed coins or each other, nothing twice (what the generator maintains; C22's subject on the real node)
PoolConsistent == /\ \A t \in pool : InsSet(t) \subseteq DOMAIN utxo \cup UNION {OutsOf(p) : p \in pool \ {t}}
                  /\ \A a, b \in pool : a # b => InsSet(a) \cap InsSet(b) = {}

\* ------------------------------------------------------------------ emission
Model == [pool |-> pool, delta |-> delta, chain |-> chain, ctr |-> ctr]
Emit == VFEdgeK(View0, Model, lastAct', lastRes', View0', Model')
====
