---- MODULE MCO_tpl ----
EXTENDS BlockTemplateObs, Uni_tpl
====
