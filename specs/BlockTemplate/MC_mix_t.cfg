CONSTANTS
  TxU <- TxUDef
  BaseCoins <- BaseDef
  H0 = 148
  BaseDt = 512
  Lists <- MixLists
  Dts = {512}
  SubmitSet <- MixTx
  InjectSet <- MixInject
  PrioSet <- CpfpPrio
  MaxBlocks = 1
  MaxPrio = 1
  MaxInject = 2
  MaxPool = 6
  MinRelay = 100
  IncrRelay = 100
  MaxReplClusters = 100
  MaxClusterCount = 64
  Reserves <- ResT
  GridChunks = 3
INIT Init
NEXT Next
VIEW View0
INVARIANTS AssembleValid UtxoIsReplay PoolConsistent
ACTION_CONSTRAINT Emit
CHECK_DEADLOCK FALSE
