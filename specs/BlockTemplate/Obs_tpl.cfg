CONSTANTS
  TxU <- TxUDef
  BaseCoins <- BaseDef
  H0 = 148
  BaseDt = 512
  Lists <- NoLists
  Dts = {512}
  SubmitSet <- NoTx
  InjectSet <- NoTx
  PrioSet <- NoPrio
  MaxBlocks = 0
  MaxPrio = 0
  MaxInject = 0
  MaxPool = 0
  MinRelay = 100
  IncrRelay = 100
  MaxReplClusters = 100
  MaxClusterCount = 64
  Reserves <- ResQ
  GridChunks = 2
INIT InitObs
NEXT Stutter
INVARIANTS ObsPoolKnown ObsInPool ObsTopo ObsWeight ObsSigops ObsClaims ObsFinal ObsCoinbase ObsMinFee ObsConnect ObsAccepted
CHECK_DEADLOCK FALSE
