CONSTANTS
  TxU <- TxUDef
  BaseCoins <- BaseDef
  H0 = 148
  BaseDt = 512
  Lists <- NoLists
  Dts = {512}
  SubmitSet <- HugeTx
  InjectSet <- NoTx
  PrioSet <- NoPrio
  MaxBlocks = 0
  MaxPrio = 0
  MaxInject = 0
  MaxPool = 5
  MinRelay = 100
  IncrRelay = 100
  MaxReplClusters = 100
  MaxClusterCount = 64
  Reserves <- ResQ
  GridChunks = 2
INIT Init
NEXT Next
VIEW View0
INVARIANTS AssembleValid UtxoIsReplay PoolConsistent
ACTION_CONSTRAINT Emit
CHECK_DEADLOCK FALSE
