CONSTANTS
  TxU <- TxUDef
  BaseCoins <- BaseDef
  H0 = 148
  BaseDt = 512
  Lists <- LocksLists
  Dts = {512}
  SubmitSet <- LocksTx
  InjectSet <- LocksInject
  PrioSet <- NoPrio
  MaxBlocks = 2
  MaxPrio = 0
  MaxInject = 2
  MaxPool = 4
  MinRelay = 100
  IncrRelay = 100
  MaxReplClusters = 100
  MaxClusterCount = 64
  Reserves <- ResQ
  GridChunks = 2
INIT Init
NEXT Next
VIEW View0
INVARIANTS AssembleValid UtxoIsReplay PoolConsistent
ACTION_CONSTRAINT Emit
CHECK_DEADLOCK FALSE
