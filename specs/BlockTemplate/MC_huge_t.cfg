CONSTANTS
  TxU <- TxUDef
  BaseCoins <- BaseDef
  H0 = 148
  BaseDt = 512
  Lists <- HugeLists
  Dts = {512}
  SubmitSet <- HugeTx
  InjectSet <- NoTx
  PrioSet <- HugePrio
  MaxBlocks = 2
  MaxPrio = 1
  MaxInject = 0
  MaxPool = 5
  MinRelay = 100
  IncrRelay = 100
  MaxReplClusters = 100
  MaxClusterCount = 64
  Reserves <- ResT
  GridChunks = 3
INIT Init
NEXT Next
VIEW View0
INVARIANTS AssembleValid UtxoIsReplay PoolConsistent
ACTION_CONSTRAINT Emit
CHECK_DEADLOCK FALSE
