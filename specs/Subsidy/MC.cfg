\* Intervals: the halving intervals of the built-in chains (regtest 150; main/testnet/testnet4/signet 210000).
\* props/C31.py reads the intervals from the real chain parameters and rewrites this line for the run.
CONSTANTS
  Intervals = {150, 210000}
INIT Init
NEXT Next
INVARIANTS Schedule NonIncreasing NonIncreasingAtBoundaries HalvingExact ZeroFrom64 StartsAt50 RowsPartition RowConstant TotalBelowCap KnownTotal EmitRow
PROPERTY NonIncreasingStep
CHECK_DEADLOCK FALSE
