---- MODULE Subsidy ----
(***************************************************************************)
(* C31: the block subsidy schedule (src/validation.cpp GetBlockSubsidy).   *)
(*                                                                         *)
(*   Subsidy(h, I) = 0                      if h div I >= 64               *)
(*                 = 50 BTC halved (h div I) times, each halving rounding  *)
(*                   the satoshi amount down       otherwise               *)
(*                                                                         *)
(* over exact Amount limbs.  Intervals is the set of halving intervals of  *)
(* the built-in chains (props/C31.py reads them from the real chain        *)
(* parameters and writes them into the cfg).                               *)
(*                                                                         *)
(* TLC decides on the model: the subsidy never increases with the halving  *)
(* count; the height axis 0..2^31-1 is partitioned into the rows below and *)
(* the subsidy is constant on each row; the total over all heights,        *)
(* I * sum_k Subsidy_k, is below 21,000,000 BTC for every interval.        *)
(*                                                                         *)
(* Oracle table (engine E4): one row per (interval, halving count k),      *)
(* k = 0..65.  Row k < 65 covers heights k*I .. (k+1)*I-1; row 65 covers   *)
(* everything from 65*I to 2^31-1.  Each row carries the subsidy of its    *)
(* range and the boundary heights k*I-1, k*I, k*I+1 and the last height of *)
(* the range, each with Subsidy(h, I) evaluated directly.                  *)
(***************************************************************************)
EXTENDS Integers, Sequences, TLC, Amount, VF
CONSTANTS Intervals
ASSUME \A I \in Intervals : I \in Int /\ I >= 1

MaxH == 2147483647                       \* largest int height
LastK == 65                              \* rows 0..65; the last one is open-ended
Initial == Amt(FALSE, 0, 50, 0)          \* 50 * 10^8 satoshi

\* n halvings; zero stays zero (the test also makes TLC evaluate a at every level instead of piling up n lazy halvings)
RECURSIVE HalveN(_, _)
HalveN(a, n) == IF n = 0 \/ AIsZero(a) THEN a ELSE HalveN(AHalve(a), n - 1)

\* the subsidy as a function of the number of completed halving intervals
SubsidyK(k) == IF k >= 64 THEN AZero ELSE HalveN(Initial, k)
\* the subsidy at height h for halving interval I
Subsidy(h, I) == SubsidyK(h \div I)

\* ---- multiplication of an amount by a natural number < 2^31 (decimal Horner; every limb product stays below 2^31)
RECURSIVE AMulNat(_, _)
AMulNat(a, n) == IF n = 0 THEN AZero ELSE AAdd(AMulSmall(AMulNat(a, n \div 10), 10), AMulSmall(a, n % 10))

Total(sumk, I) == AMulNat(sumk, I)

\* ---- the rows: does k*I still lie on the height axis?  (guards every product against 32-bit overflow)
OnAxis(k, I) == k = 0 \/ I <= MaxH \div k
Lo(k, I) == k * I
Hi(k, I) == IF k < LastK /\ OnAxis(k + 1, I) THEN (k + 1) * I - 1 ELSE MaxH
Point(h, I) == [h |-> h, v |-> Subsidy(h, I)]
Points(k, I) ==
  LET lo == Lo(k, I) IN
     (IF lo >= 1 THEN <<Point(lo - 1, I)>> ELSE <<>>)
  \o <<Point(lo, I)>>
  \o (IF lo < MaxH THEN <<Point(lo + 1, I)>> ELSE <<>>)
  \o <<Point(Hi(k, I), I)>>

\* The schedule is unrolled as a behaviour: one step per halving.  sub = subsidy after k halvings, sum = the sum of
\* the subsidies of halving counts 0..k (one block each), both carried in the state and tied to the closed form
\* SubsidyK by the invariant Schedule.
VARIABLES I, k, sub, sum
vars == <<I, k, sub, sum>>
Init == I \in Intervals /\ k = 0 /\ sub = Initial /\ sum = Initial
Next == /\ k < LastK /\ OnAxis(k + 1, I)
        /\ I' = I /\ k' = k + 1
        /\ sub' = (IF k + 1 >= 64 THEN AZero ELSE AHalve(sub))
        /\ sum' = AAdd(sum, sub')

\* ---- the property's clauses on the model
Schedule == sub = SubsidyK(k)
\* never increases: with the halving count ...
NonIncreasing == ALe(SubsidyK(k + 1), sub)
NonIncreasingStep == [][ALe(sub', sub)]_vars
\* ... and across the boundary heights of the row (k*I-1 -> k*I -> k*I+1 -> end of row)
NonIncreasingAtBoundaries ==
  LET p == Points(k, I) IN \A i \in 1..(Len(p) - 1) : p[i].h <= p[i + 1].h /\ ALe(p[i + 1].v, p[i].v)
\* halving is exact: twice the next value is the previous one, or one satoshi less (rounding down), never negative
HalvingExact ==
  k < 64 => LET b == SubsidyK(k + 1) d == ASub(sub, AAdd(b, b)) IN
            ~b.neg /\ (AIsZero(d) \/ d = Amt(FALSE, 0, 0, 1))
ZeroFrom64 == k >= 64 => AIsZero(sub)
StartsAt50 == k = 0 => AMulSmall(Amt(FALSE, 0, 10, 0), 5) = sub /\ Subsidy(0, I) = sub
\* the rows partition 0..MaxH and the subsidy is constant on a row: h div I is monotone in h, so equal halving
\* counts (or both >= 64) at the two ends of the row settle every height in between
RowsPartition ==
  /\ (k = 0 => Lo(k, I) = 0)
  /\ (k > 0 => Lo(k, I) = Hi(k - 1, I) + 1)
  /\ Lo(k, I) <= Hi(k, I)
  /\ ((k = LastK \/ ~OnAxis(k + 1, I)) => Hi(k, I) = MaxH)
RowConstant ==
  /\ Lo(k, I) \div I = k
  /\ (Hi(k, I) \div I = k \/ (k >= 64 /\ Hi(k, I) \div I >= 64))
  /\ Subsidy(Lo(k, I), I) = sub /\ Subsidy(Hi(k, I), I) = sub
\* the 21 million cap: I blocks at each halving count; the running total is below the cap after every halving, and from
\* the 64th on nothing is added any more, so the last row's total is the total over all heights
TotalBelowCap == ALt(Total(sum, I), MaxMoney) /\ ~Total(sum, I).neg
\* sanity anchor for the limb arithmetic: the well-known exact total of the 210000-block schedule
KnownTotal == (I = 210000 /\ k >= 63) => Total(sum, I) = Amt(FALSE, 0, 20999999, 97690000)

EmitRow == VFRow([interval |-> I, k |-> k, lo |-> Lo(k, I), hi |-> Hi(k, I), subsidy |-> sub,
                  points |-> Points(k, I), total |-> Total(sum, I)])
====
