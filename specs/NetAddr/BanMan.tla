---- MODULE BanMan ----
(***************************************************************************)
(* C60, second part: the ban list (src/banman.cpp, src/addrdb.cpp) under a *)
(* mock clock.  One action per public call of BanMan, transcribed as coded *)
(* (a ban only ever extends; expired entries linger until the next sweep;  *)
(* IsBanned tests now < until, the sweep removes now > until; only         *)
(* successful mutations dump - and therefore sweep).  Next to the coded    *)
(* state `banned` the module keeps the LOGICAL ban list `active` (what was *)
(* asked for: the longest ban per subnet, removed by unban / clear, never  *)
(* swept).  The property: every answer of IsBanned equals "an unexpired    *)
(* logical ban covers it" - i.e. lazy sweeping, early returns and restarts *)
(* are invisible (SweepTransparent) - and a discouraged address is         *)
(* reported until the object is destroyed (discouragement is memory-only). *)
(***************************************************************************)
EXTENDS Integers, FiniteSets, Sequences, TLC, VF
CONSTANTS
  Subnets,      \* names of the subnets used as ban keys
  Addrs,        \* names of the addresses queried
  Covers,       \* set of <<subnet, address>>: CSubNet::Match (decided by module NetAddr, realised by the harness)
  HostOf,       \* address -> its single-host subnet (Ban(addr) is Ban(CSubNet(addr))), for the addresses whose host subnet is in Subnets
  MaxT,         \* the clock runs over 0..MaxT
  RelOffsets,   \* ban_time_offset values used with since_unix_epoch = false (<= 0 selects the default ban time)
  AbsTimes,     \* ban_time_offset values used with since_unix_epoch = true (absolute expiry, on the same scale as the clock; > 0)
  DefaultBan    \* m_default_ban_time

VARIABLES
  now,          \* mock time
  banned,       \* m_banned: Subnets -> nBanUntil, 0 = no entry
  discouraged,  \* m_discouraged (rolling bloom filter, far below capacity)
  active,       \* ghost: the logical ban list (longest ban asked for per subnet, 0 = none)
  lastAct, lastRes
vars == <<now, banned, discouraged, active, lastAct, lastRes>>
View0 == <<now, banned, discouraged, active>>

NoBans == [s \in Subnets |-> 0]
\* BanMan::SweepBanned at time t
Sweep(b, t) == [s \in Subnets |-> IF t > b[s] THEN 0 ELSE b[s]]
Max2(a, b) == IF a > b THEN a ELSE b

Init == /\ now = 0 /\ banned = NoBans /\ discouraged = {} /\ active = NoBans
        /\ lastAct = <<"init">> /\ lastRes = "none"

\* Ban(sub_net, ban_time_offset, since_unix_epoch)
BanCore(s, off, abs, tag) ==
  LET rel == off <= 0 \/ ~abs
      until == (IF rel THEN now ELSE 0) + (IF off <= 0 THEN DefaultBan ELSE off)
  IN /\ banned' = IF banned[s] < until THEN Sweep([banned EXCEPT ![s] = until], now) ELSE banned
     /\ active' = [active EXCEPT ![s] = Max2(@, until)]
     /\ lastAct' = tag /\ lastRes' = "none"
     /\ UNCHANGED <<now, discouraged>>
BanSubnet(s, off, abs) == BanCore(s, off, abs, <<"ban_subnet", s, off, abs>>)
BanAddr(a, off, abs) == a \in DOMAIN HostOf /\ BanCore(HostOf[a], off, abs, <<"ban_addr", a, off, abs>>)

UnbanCore(s, tag) ==
  /\ banned' = IF banned[s] # 0 THEN Sweep([banned EXCEPT ![s] = 0], now) ELSE banned
  /\ active' = [active EXCEPT ![s] = 0]
  \* compared: lifting a ban that is in force reports success (the return value for an expired entry depends on whether a sweep
  \* happened to run, which the property is silent about)
  /\ lastAct' = tag /\ lastRes' = [in_force |-> now < banned[s], ok |-> TRUE]
  /\ UNCHANGED <<now, discouraged>>
UnbanSubnet(s) == UnbanCore(s, <<"unban_subnet", s>>)
UnbanAddr(a) == a \in DOMAIN HostOf /\ UnbanCore(HostOf[a], <<"unban_addr", a>>)

AnsAddr(b, t, a) == \E s \in Subnets : t < b[s] /\ <<s, a>> \in Covers
AnsSubnet(b, t, s) == t < b[s]
IsBannedAddr(a) == lastAct' = <<"isbanned_addr", a>> /\ lastRes' = AnsAddr(banned, now, a) /\ UNCHANGED <<now, banned, discouraged, active>>
IsBannedSubnet(s) == lastAct' = <<"isbanned_subnet", s>> /\ lastRes' = AnsSubnet(banned, now, s) /\ UNCHANGED <<now, banned, discouraged, active>>

\* GetBanned sweeps, then copies.  Compared: the unexpired entries with their expiry, and that nothing older than now is listed.  An entry
\* with until = now is still listed by the code (the sweep removes on now > until, IsBanned tests now < until); the property is silent
\* about that second, so the comparison leaves it out.
GetBanned == /\ banned' = Sweep(banned, now)
             /\ lastAct' = <<"getbanned">>
             /\ lastRes' = [listed |-> [s \in Subnets |-> IF now < banned[s] THEN banned[s] ELSE 0], stale |-> 0]
             /\ UNCHANGED <<now, discouraged, active>>
ClearBanned == /\ banned' = NoBans /\ active' = NoBans
               /\ lastAct' = <<"clear">> /\ lastRes' = "none" /\ UNCHANGED <<now, discouraged>>
Discourage(a) == /\ discouraged' = discouraged \cup {a}
                 /\ lastAct' = <<"discourage", a>> /\ lastRes' = "none" /\ UNCHANGED <<now, banned, active>>
IsDiscouraged(a) == lastAct' = <<"isdiscouraged", a>> /\ lastRes' = (a \in discouraged) /\ UNCHANGED <<now, banned, discouraged, active>>
Tick == /\ now < MaxT /\ now' = now + 1
        /\ lastAct' = <<"tick">> /\ lastRes' = "none" /\ UNCHANGED <<banned, discouraged, active>>
\* destroy the object (the destructor dumps = sweeps and writes banlist.json) and construct a new one from the file
Restart == /\ banned' = Sweep(banned, now) /\ discouraged' = {}
           /\ lastAct' = <<"restart">> /\ lastRes' = "none" /\ UNCHANGED <<now, active>>

Next == \/ \E s \in Subnets : \/ \E off \in RelOffsets : BanSubnet(s, off, FALSE)
                              \/ \E t \in AbsTimes : BanSubnet(s, t, TRUE)
                              \/ UnbanSubnet(s) \/ IsBannedSubnet(s)
        \/ \E a \in Addrs : \/ \E off \in RelOffsets : BanAddr(a, off, FALSE)
                            \/ \E t \in AbsTimes : BanAddr(a, t, TRUE)
                            \/ UnbanAddr(a) \/ IsBannedAddr(a) \/ Discourage(a) \/ IsDiscouraged(a)
        \/ GetBanned \/ ClearBanned \/ Tick \/ Restart

(* ---- the property --------------------------------------------------------- *)
\* the coded list and the logical list give the same answers: sweeping, early returns and restarts are invisible
Unexpired(b) == {<<s, b[s]>> : s \in {x \in Subnets : now < b[x]}}
SweepTransparent == Unexpired(banned) = Unexpired(active)
\* "reported as banned exactly while an unexpired ban covering it exists", on every query (action property: the ghosts
\* are hidden from the fingerprint, so this must be checked on transitions, not states)
AnswersExact ==
  [][/\ \A a \in Addrs : lastAct' = <<"isbanned_addr", a>> => lastRes' = AnsAddr(active, now, a)
     /\ \A s \in Subnets : lastAct' = <<"isbanned_subnet", s>> => lastRes' = AnsSubnet(active, now, s)
     /\ lastAct' = <<"getbanned">> =>
          \A s \in Subnets : lastRes'.listed[s] = (IF now < active[s] THEN active[s] ELSE 0)     \* exactly the unexpired bans, with their expiry
     /\ \A a \in Addrs : lastAct' = <<"isdiscouraged", a>> => lastRes' = (a \in discouraged)]_vars
\* nothing is kept beyond one second after its expiry once a sweep has run; expiries only come from bans asked for
CodedWithinLogical == \A s \in Subnets : banned[s] # 0 => banned[s] = active[s]
TypeOK == now \in 0..MaxT /\ discouraged \subseteq Addrs

(* ---- emission -------------------------------------------------------------- *)
\* what the harness compares after every step: the non-mutating queries
Proj == [banned_addr |-> [a \in Addrs |-> AnsAddr(banned, now, a)],
         banned_subnet |-> [s \in Subnets |-> AnsSubnet(banned, now, s)],
         disc |-> [a \in Addrs |-> a \in discouraged],
         now |-> now]
Emit == VFEdgeK(View0, Proj, lastAct', lastRes', View0', Proj')
====
