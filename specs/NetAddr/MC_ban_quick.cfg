\* 2 subnets x 3 addresses x expiry times 1..4 over a clock 0..3; invariants + every transition emitted (engine E1)
CONSTANTS
  Subnets <- Subnets2
  Addrs <- Addrs3
  Covers <- Covers2
  HostOf <- HostOf2
  MaxT = 3
  RelOffsets = {0, 1}
  AbsTimes = {2}
  DefaultBan = 2
INIT Init
NEXT Next
VIEW View0
INVARIANTS SweepTransparent CodedWithinLogical TypeOK
PROPERTY AnswersExact
ACTION_CONSTRAINT Emit
CHECK_DEADLOCK FALSE
