\* 3 subnets (one Tor single-host) x 4 addresses, clock 0..3
CONSTANTS
  Subnets <- Subnets3
  Addrs <- Addrs4
  Covers <- Covers3
  HostOf <- HostOf3
  MaxT = 3
  RelOffsets = {0, 1}
  AbsTimes = {2}
  DefaultBan = 2
INIT Init
NEXT Next
VIEW View0
INVARIANTS SweepTransparent CodedWithinLogical TypeOK
PROPERTY AnswersExact
ACTION_CONSTRAINT Emit
CHECK_DEADLOCK FALSE
