\* IPv4 and IPv6: every prefix length
CONSTANTS
  Prefixes6 <- AllPrefixes6
INIT Init
NEXT Next
INVARIANTS MatchAgrees FormsAgree VariantsOK RoundTrips TextRoundTrips SubnetTextRoundTrips EmitRow
CHECK_DEADLOCK FALSE
