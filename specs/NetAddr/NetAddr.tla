---- MODULE NetAddr ----
(***************************************************************************)
(* C60, first part: subnet matching and the decisions of the two P2P       *)
(* address serializations (src/netaddress.{h,cpp}, src/netbase.cpp).       *)
(*                                                                         *)
(* An address is a network tag and a byte sequence, [net, b].  The         *)
(* property is written declaratively (MatchSpec: same network and equal    *)
(* prefix bits; equality for single-host non-IP subnets) next to a         *)
(* transcription of the byte-wise code (MatchCode); TLC proves them equal  *)
(* on every enumerated row and prints the rows (engine E4), which the      *)
(* harness replays on CSubNet(addr, prefix) / CSubNet(addr, mask) /        *)
(* CSubNet(addr), Match, IsValid, the V1 (16-byte) and V2 (BIP155)         *)
(* encodings of CNetAddr / CService and on ToString -> LookupHost /        *)
(* LookupSubNet.  The codecs themselves (base32, IPv6 text) are not        *)
(* modelled: the model only says which value must come back.               *)
(***************************************************************************)
EXTENDS Integers, Sequences, FiniteSets, TLC, VF
CONSTANTS Prefixes6      \* the IPv6 prefix lengths to enumerate (IPv4: all of 0..32)

Rep(n, v) == [i \in 1..n |-> v]
Addr(net, b) == [net |-> net, b |-> b]
Len4 == 4
Len6 == 16
SizeOf(net) == CASE net = "ipv4" -> 4 [] net = "ipv6" -> 16 [] net = "onion" -> 32 [] net = "i2p" -> 32 [] net = "cjdns" -> 16 [] net = "internal" -> 10

(* ---- bits ---------------------------------------------------------------- *)
\* bit i of a byte sequence, i = 1 is the most significant bit of the first byte
Bit(b, i) == (b[((i - 1) \div 8) + 1] \div (2 ^ (7 - ((i - 1) % 8)))) % 2
Flip(b, i) == LET k == ((i - 1) \div 8) + 1
                  w == 2 ^ (7 - ((i - 1) % 8))
              IN [b EXCEPT ![k] = IF Bit(b, i) = 1 THEN b[k] - w ELSE b[k] + w]
\* byte k of the netmask with p leading one-bits, and "v AND that byte"
MaskBits(p, k) == IF p >= 8 * k THEN 8 ELSE IF p <= 8 * (k - 1) THEN 0 ELSE p - 8 * (k - 1)
MaskByte(p, k) == 256 - 2 ^ (8 - MaskBits(p, k))
AndMask(v, p, k) == (v \div (2 ^ (8 - MaskBits(p, k)))) * (2 ^ (8 - MaskBits(p, k)))
MaskSeq(n, p) == [k \in 1..n |-> MaskByte(p, k)]
Normalize(b, p) == [k \in 1..Len(b) |-> AndMask(b[k], p, k)]
HasPrefix(b, pre) == Len(b) >= Len(pre) /\ \A i \in 1..Len(pre) : b[i] = pre[i]

(* ---- CNetAddr ------------------------------------------------------------ *)
IPv4InIPv6 == <<0, 0, 0, 0, 0, 0, 0, 0, 0, 0, 255, 255>>
TorV2InIPv6 == <<253, 135, 216, 126, 235, 67>>            \* fd87:d87e:eb43::/48
InternalInIPv6 == <<253, 107, 136, 192, 135, 36>>         \* fd6b:88c0:8724::/48
Zero6 == Addr("ipv6", Rep(16, 0))                         \* a default-constructed CNetAddr: !IsValid()
IsIP(a) == a.net \in {"ipv4", "ipv6"}

\* CNetAddr::IsValid
Valid(a) ==
  /\ ~(a.net = "ipv6" /\ a.b = Rep(16, 0))
  /\ ~(a.net = "cjdns" /\ a.b[1] # 252)
  /\ ~(a.net = "ipv6" /\ HasPrefix(a.b, <<32, 1, 13, 184>>))     \* RFC 3849 documentation range 2001:db8::/32
  /\ a.net # "internal"
  /\ ~(a.net = "ipv4" /\ (a.b = Rep(4, 0) \/ a.b = Rep(4, 255)))

\* CNetAddr::SetLegacyIPv6: what 16 bytes of the old format denote
Classify16(x) ==
  IF HasPrefix(x, IPv4InIPv6) THEN Addr("ipv4", SubSeq(x, 13, 16))
  ELSE IF HasPrefix(x, TorV2InIPv6) THEN Zero6
  ELSE IF HasPrefix(x, InternalInIPv6) THEN Addr("internal", SubSeq(x, 7, 16))
  ELSE Addr("ipv6", x)
\* an IPv6 value a CNetAddr can actually hold under NET_IPV6
PlainV6(b) == ~HasPrefix(b, IPv4InIPv6) /\ ~HasPrefix(b, TorV2InIPv6) /\ ~HasPrefix(b, InternalInIPv6)

\* SerializeV1Array
SerV1(a) == CASE a.net = "ipv6" -> a.b
              [] a.net = "ipv4" -> IPv4InIPv6 \o a.b
              [] a.net = "internal" -> InternalInIPv6 \o a.b
              [] OTHER -> Rep(16, 0)
V1RoundTrip(a) == Classify16(SerV1(a))

\* BIP155 network ids and UnserializeV2Stream on (id, payload)
Bip155Id(net) == CASE net = "ipv4" -> 1 [] net = "ipv6" -> 2 [] net = "onion" -> 4 [] net = "i2p" -> 5 [] net = "cjdns" -> 6
Bip155Net(id) == CASE id = 1 -> "ipv4" [] id = 2 -> "ipv6" [] id = 4 -> "onion" [] id = 5 -> "i2p" [] id = 6 -> "cjdns" [] OTHER -> "unknown"
SerV2(a) == IF a.net = "internal" THEN [id |-> 2, b |-> SerV1(a)] ELSE [id |-> Bip155Id(a.net), b |-> a.b]
\* result of decoding: [res |-> "addr", a |-> address] / "throw" (stream failure) ; unknown ids and embedded IPv4 / Tor v2 decode to Zero6
MaxAddrV2Size == 512
UnserV2(id, b) ==
  IF Len(b) > MaxAddrV2Size THEN [res |-> "throw", a |-> Zero6]
  ELSE IF Bip155Net(id) = "unknown" THEN [res |-> "addr", a |-> Zero6]                     \* id 3 (Tor v2) and ids from the future: skipped
  ELSE IF Len(b) # SizeOf(Bip155Net(id)) THEN [res |-> "throw", a |-> Zero6]
  ELSE IF id # 2 THEN [res |-> "addr", a |-> Addr(Bip155Net(id), b)]
  ELSE IF HasPrefix(b, InternalInIPv6) THEN [res |-> "addr", a |-> Addr("internal", SubSeq(b, 7, 16))]
  ELSE IF HasPrefix(b, IPv4InIPv6) \/ HasPrefix(b, TorV2InIPv6) THEN [res |-> "addr", a |-> Zero6]
  ELSE [res |-> "addr", a |-> Addr("ipv6", b)]
V2RoundTrip(a) == UnserV2(SerV2(a).id, SerV2(a).b)

(* ---- CSubNet ------------------------------------------------------------- *)
\* [valid, net, base, p]: p = number of prefix bits (IP networks); base = normalized network address
NoSubnet == [valid |-> FALSE, net |-> "ipv6", base |-> Rep(16, 0), p |-> 0]
SubPrefix(a, p) == IF (a.net = "ipv4" /\ p <= 32) \/ (a.net = "ipv6" /\ p <= 128)
                   THEN [valid |-> TRUE, net |-> a.net, base |-> Normalize(a.b, p), p |-> p] ELSE NoSubnet
\* a byte is a run of ones followed by zeros
OnesOf(v) == CASE v = 0 -> 0 [] v = 128 -> 1 [] v = 192 -> 2 [] v = 224 -> 3 [] v = 240 -> 4 [] v = 248 -> 5 [] v = 252 -> 6 [] v = 254 -> 7
               [] v = 255 -> 8 [] OTHER -> -1
ContiguousMask(m) == /\ \A k \in 1..Len(m) : OnesOf(m[k]) >= 0
                     /\ \A k \in 1..Len(m) : OnesOf(m[k]) < 8 => \A j \in (k + 1)..Len(m) : m[j] = 0
RECURSIVE SumOnes(_, _)
SumOnes(m, k) == IF k = 0 THEN 0 ELSE SumOnes(m, k - 1) + OnesOf(m[k])
SubMask(a, m) == IF IsIP(a) /\ a.net = m.net /\ ContiguousMask(m.b)
                 THEN [valid |-> TRUE, net |-> a.net, base |-> Normalize(a.b, SumOnes(m.b, Len(m.b))), p |-> SumOnes(m.b, Len(m.b))]
                 ELSE NoSubnet
SubHost(a) == IF IsIP(a) THEN [valid |-> TRUE, net |-> a.net, base |-> a.b, p |-> 8 * Len(a.b)]
              ELSE IF a.net \in {"onion", "i2p", "cjdns"} THEN [valid |-> TRUE, net |-> a.net, base |-> a.b, p |-> 0]
              ELSE NoSubnet

\* THE PROPERTY: a subnet matches exactly the (valid) addresses of its network that share its prefix, or equal it
MatchSpec(s, x) ==
  /\ s.valid /\ Valid(x) /\ s.net = x.net
  /\ IF s.net \in {"ipv4", "ipv6"} THEN \A i \in 1..s.p : Bit(x.b, i) = Bit(s.base, i) ELSE x.b = s.base
\* CSubNet::Match as coded: byte-wise AND with the netmask
MatchCode(s, x) ==
  IF ~s.valid \/ ~Valid(x) \/ s.net # x.net THEN FALSE
  ELSE IF s.net \in {"onion", "i2p", "cjdns", "internal"} THEN x = Addr(s.net, s.base)
  ELSE \A k \in 1..Len(x.b) : AndMask(x.b[k], s.p, k) = s.base[k]

(* ---- the enumerated domain ----------------------------------------------- *)
Bases4 == {<<1, 2, 3, 4>>, <<170, 85, 170, 85>>, <<255, 255, 255, 254>>}
Bases6 == {<<42, 1, 170, 85, 170, 85, 255, 0, 1, 128, 127, 254, 51, 204, 15, 241>>,
           <<255, 255, 255, 255, 255, 255, 255, 255, 255, 255, 255, 255, 255, 255, 255, 254>>}
Variants == {"same", "flip_last_prefix_bit", "flip_first_host_bit", "flip_second_host_bit", "zeros", "ones"}
VariantOf(b, p, v) ==
  CASE v = "same" -> b
    [] v = "flip_last_prefix_bit" -> IF p >= 1 THEN Flip(b, p) ELSE b
    [] v = "flip_first_host_bit" -> IF p + 1 <= 8 * Len(b) THEN Flip(b, p + 1) ELSE b
    [] v = "flip_second_host_bit" -> IF p + 2 <= 8 * Len(b) THEN Flip(b, p + 2) ELSE b
    [] v = "zeros" -> Rep(Len(b), 0)
    [] v = "ones" -> Rep(Len(b), 255)

Onion1 == Addr("onion", [i \in 1..32 |-> (7 * i) % 256])
Onion2 == Addr("onion", [i \in 1..32 |-> IF i = 32 THEN 1 ELSE (7 * i) % 256])
I2P1 == Addr("i2p", [i \in 1..32 |-> (11 * i + 3) % 256])
I2P2 == Addr("i2p", [i \in 1..32 |-> (7 * i) % 256])                  \* same bytes as Onion1, other network
Cjdns1 == Addr("cjdns", <<252, 1, 2, 3, 4, 5, 6, 7, 8, 9, 10, 11, 12, 13, 14, 15>>)
Cjdns2 == Addr("cjdns", <<252, 1, 2, 3, 4, 5, 6, 7, 8, 9, 10, 11, 12, 13, 14, 16>>)
V6LikeCjdns == Addr("ipv6", Cjdns1.b)                                  \* fc01:: as plain IPv6 (RFC 4193), same bytes as Cjdns1
Internal1 == Addr("internal", <<9, 8, 7, 6, 5, 4, 3, 2, 1, 0>>)
V4a == Addr("ipv4", <<1, 2, 3, 4>>)
V4b == Addr("ipv4", <<1, 2, 3, 5>>)
V4zero == Addr("ipv4", Rep(4, 0))
V4ones == Addr("ipv4", Rep(4, 255))
V4local == Addr("ipv4", <<127, 0, 0, 1>>)
V6a == Addr("ipv6", <<42, 1, 170, 85, 170, 85, 255, 0, 1, 128, 127, 254, 51, 204, 15, 241>>)
V6doc == Addr("ipv6", <<32, 1, 13, 184, 0, 0, 0, 0, 0, 0, 0, 0, 0, 0, 0, 1>>)     \* 2001:db8::1, !IsValid
V6nat64 == Addr("ipv6", <<0, 100, 255, 155, 0, 0, 0, 0, 0, 0, 0, 0, 1, 2, 3, 4>>) \* 64:ff9b::1.2.3.4 (RFC 6052): stays IPv6
V6sixtofour == Addr("ipv6", <<32, 2, 1, 2, 3, 4, 0, 0, 0, 0, 0, 0, 0, 0, 0, 1>>)  \* 2002:102:304::1 (6to4): stays IPv6
V6local == Addr("ipv6", <<0, 0, 0, 0, 0, 0, 0, 0, 0, 0, 0, 0, 0, 0, 0, 1>>)
Samples == {V4a, V4b, V4zero, V4ones, V4local, V6a, V6doc, V6nat64, V6sixtofour, V6local, Zero6, V6LikeCjdns,
            Onion1, Onion2, I2P1, I2P2, Cjdns1, Cjdns2, Internal1}
\* 16-byte legacy forms: the embedded networks and their neighbours (one byte of the prefix changed)
Legacy16 == {IPv4InIPv6 \o <<1, 2, 3, 4>>, [IPv4InIPv6 EXCEPT ![11] = 254] \o <<1, 2, 3, 4>>, [IPv4InIPv6 EXCEPT ![1] = 1] \o <<1, 2, 3, 4>>,
             IPv4InIPv6 \o <<0, 0, 0, 0>>,
             TorV2InIPv6 \o <<1, 2, 3, 4, 5, 6, 7, 8, 9, 10>>, [TorV2InIPv6 EXCEPT ![6] = 66] \o <<1, 2, 3, 4, 5, 6, 7, 8, 9, 10>>,
             InternalInIPv6 \o Internal1.b, [InternalInIPv6 EXCEPT ![6] = 37] \o Internal1.b,
             V6a.b, V6nat64.b, Rep(16, 0), Cjdns1.b}

MatchRows ==
  LET ip(net, Bases, Ps) ==
        {[kind |-> "match", how |-> how, a |-> Addr(net, b), p |-> p, m |-> Addr(net, MaskSeq(Len(b), p)),
          x |-> Addr(net, VariantOf(b, p, v)), variant |-> v] : b \in Bases, p \in Ps, v \in Variants, how \in {"prefix", "mask"}}
      \* prefix lengths beyond the address size, masks with holes or of the other family
      odd == {[kind |-> "match", how |-> "prefix", a |-> V4a, p |-> p, m |-> V4ones, x |-> V4a, variant |-> "bad-prefix"] : p \in {33, 128, 255}}
             \cup {[kind |-> "match", how |-> "prefix", a |-> V6a, p |-> p, m |-> V4ones, x |-> V6a, variant |-> "bad-prefix"] : p \in {129, 255}}
             \cup {[kind |-> "match", how |-> "mask", a |-> V4a, p |-> 0, m |-> Addr("ipv4", mb), x |-> V4a, variant |-> "odd-mask"] :
                     mb \in {<<255, 0, 255, 0>>, <<255, 253, 0, 0>>, <<0, 255, 255, 255>>, <<255, 255, 255, 1>>, <<254, 128, 0, 0>>}}
             \cup {[kind |-> "match", how |-> "mask", a |-> V4a, p |-> 0, m |-> Addr("ipv6", Rep(16, 255)), x |-> V4a, variant |-> "mask-of-other-family"],
                   [kind |-> "match", how |-> "mask", a |-> V6a, p |-> 0, m |-> Addr("ipv4", Rep(4, 255)), x |-> V6a, variant |-> "mask-of-other-family"]}
             \cup {[kind |-> "match", how |-> "prefix", a |-> a, p |-> 8, m |-> a, x |-> a, variant |-> "prefix-on-non-ip"] : a \in {Onion1, I2P1, Cjdns1, Internal1}}
      \* single-host subnets of every sample against every sample; /8, /16 and /0 subnets against every sample
      cross == {[kind |-> "match", how |-> "host", a |-> a, p |-> 0, m |-> a, x |-> x, variant |-> "cross"] : a \in Samples, x \in Samples}
               \cup {[kind |-> "match", how |-> "prefix", a |-> a, p |-> p, m |-> a, x |-> x, variant |-> "cross"] :
                       a \in {V4a, V6a, V6LikeCjdns, V6nat64}, p \in {0, 8, 16}, x \in Samples}
  IN ip("ipv4", Bases4, 0..32) \cup ip("ipv6", Bases6, Prefixes6) \cup odd \cup cross

SubnetOf(r) == CASE r.how = "prefix" -> SubPrefix(r.a, r.p) [] r.how = "mask" -> SubMask(r.a, r.m) [] r.how = "host" -> SubHost(r.a)

SerRows == {[kind |-> "ser", a |-> a] : a \in Samples}
Wire1Rows == {[kind |-> "wire1", b |-> x] : x \in Legacy16}
\* BIP155 wire inputs: every network id 0..7 and 255 with the right size, a wrong size and an oversized payload; embedded forms under id 2
Filler(n) == [i \in 1..n |-> IF i = 1 THEN 252 ELSE (i * 5) % 251]
Wire2Rows == {[kind |-> "wire2", id |-> id, b |-> Filler(n)] : id \in {0, 1, 2, 3, 4, 5, 6, 7, 255}, n \in {0, 4, 10, 16, 17, 32, 33, 512, 513}}
             \cup {[kind |-> "wire2", id |-> 2, b |-> x] : x \in Legacy16}
\* text: print, parse, compare (decisions only)
StrRows == {[kind |-> "str", a |-> a, reach |-> reach] : a \in Samples, reach \in BOOLEAN}
Rows == MatchRows \cup SerRows \cup Wire1Rows \cup Wire2Rows \cup StrRows

\* what LookupHost(ToStringAddr(a)) gives: "same", or the value it parses to; internal names do not parse at all
HostParse(a, reach) == CASE a.net = "internal" -> [res |-> "none", a |-> Zero6]
                         [] a.net = "cjdns" -> [res |-> "addr", a |-> Addr("ipv6", a.b)]      \* text of a CJDNS address is IPv6 text
                         [] OTHER -> [res |-> "addr", a |-> a]
\* LookupSubNet(CSubNet(a).ToString()): CJDNS comes back only while the CJDNS network is reachable (MaybeFlipIPv6toCJDNS)
FlipCjdns(a, reach) == IF a.net = "ipv6" /\ a.b[1] = 252 /\ reach THEN Addr("cjdns", a.b) ELSE a
SubnetParse(a, reach) == IF a.net = "internal" THEN NoSubnet ELSE SubHost(FlipCjdns(HostParse(a, reach).a, reach))

\* LookupSubNet(s.ToString()) for a valid subnet s: "same", "invalid" (does not parse) or "ipv6host" (parses to the IPv6 /128 with the same
\* bytes).  IP subnets print as base/p, the others as the bare address text.  While CJDNS is reachable every fc00::/8 address text is
\* read as CJDNS, for which no prefix form exists; while it is not, CJDNS text is plain IPv6.
SubnetReparse(s, reach) ==
  IF ~s.valid THEN "invalid"
  ELSE IF s.net = "ipv6" /\ s.base[1] = 252 /\ reach THEN "invalid"
  ELSE IF s.net = "cjdns" /\ ~reach THEN "ipv6host"
  ELSE "same"
Out(r) ==
  CASE r.kind = "match" -> [valid |-> SubnetOf(r).valid, match |-> MatchSpec(SubnetOf(r), r.x), base |-> SubnetOf(r).base, bits |-> SubnetOf(r).p,
                            xvalid |-> Valid(r.x), reparse |-> [unreach |-> SubnetReparse(SubnetOf(r), FALSE), reach |-> SubnetReparse(SubnetOf(r), TRUE)]]
    [] r.kind = "ser" -> [v1 |-> V1RoundTrip(r.a), v2 |-> V2RoundTrip(r.a), valid |-> Valid(r.a)]
    [] r.kind = "wire1" -> [a |-> Classify16(r.b)]
    [] r.kind = "wire2" -> UnserV2(r.id, r.b)
    [] r.kind = "str" -> [host |-> HostParse(r.a, r.reach), subnet |-> SubnetParse(r.a, r.reach)]

VARIABLE row
Init == row \in Rows
Next == UNCHANGED row

(* ---- invariants: the clauses of C60 on the model -------------------------- *)
\* the byte-wise code and the declarative statement agree
MatchAgrees == row.kind = "match" => MatchCode(SubnetOf(row), row.x) = MatchSpec(SubnetOf(row), row.x)
\* prefix form and mask form denote the same subnet
FormsAgree == (row.kind = "match" /\ row.variant \in Variants) => SubPrefix(row.a, row.p) = SubMask(row.a, row.m)
\* the variants behave as their names say
VariantsOK == (row.kind = "match" /\ row.variant \in Variants) =>
                LET s == SubnetOf(row) m == MatchSpec(s, row.x) IN
                CASE row.variant = "same" -> m = Valid(row.x)
                  [] row.variant = "flip_last_prefix_bit" -> m = (row.p = 0 /\ Valid(row.x))
                  [] row.variant \in {"flip_first_host_bit", "flip_second_host_bit"} -> m = Valid(row.x)
                  [] OTHER -> TRUE
\* IPv4 and IPv6 round-trip through both encodings, every gossipable network through V2; V1 turns the others into all-zeros
RoundTrips == row.kind = "ser" =>
                /\ (IsIP(row.a) /\ (row.a.net = "ipv6" => PlainV6(row.a.b))) => V1RoundTrip(row.a) = row.a
                /\ (row.a.net # "ipv6" \/ PlainV6(row.a.b)) => V2RoundTrip(row.a) = [res |-> "addr", a |-> row.a]
                /\ row.a.net \in {"onion", "i2p", "cjdns"} => V1RoundTrip(row.a) = Zero6
\* text round trip for IP, Tor, I2P (always) and CJDNS (as a subnet, while CJDNS is reachable)
TextRoundTrips == row.kind = "str" =>
                /\ row.a.net \in {"ipv4", "ipv6", "onion", "i2p"} => HostParse(row.a, row.reach) = [res |-> "addr", a |-> row.a]
                /\ (row.a.net \in {"ipv4", "onion", "i2p"} \/ (row.a.net = "cjdns" /\ row.reach)
                      \/ (row.a.net = "ipv6" /\ ~(row.reach /\ row.a.b[1] = 252))) =>
                     SubnetParse(row.a, row.reach) = SubHost(row.a)
\* subnets print as strings that parse back to the same value: IP, Tor and I2P always, CJDNS while CJDNS is reachable
SubnetTextRoundTrips == (row.kind = "match" /\ SubnetOf(row).valid) =>
                /\ SubnetOf(row).net \in {"ipv4", "onion", "i2p"} => \A reach \in BOOLEAN : SubnetReparse(SubnetOf(row), reach) = "same"
                /\ SubnetOf(row).net = "ipv6" => SubnetReparse(SubnetOf(row), FALSE) = "same"
                /\ SubnetOf(row).net = "cjdns" => SubnetReparse(SubnetOf(row), TRUE) = "same"
EmitRow == VFRow([in |-> row, out |-> Out(row)])
====
