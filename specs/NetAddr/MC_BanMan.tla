---- MODULE MC_BanMan ----
(* model values for BanMan.tla; the harness (harness/adapters/netaddr.cpp) gives the names their real meaning:        *)
(*   net24 = 1.2.3.0/24   host4 = 1.2.3.4/32   onion1 = the single-host subnet of a Tor v3 address                      *)
(*   a4 = 1.2.3.4   a5 = 1.2.3.5   a9 = 9.9.9.9   o1 = that Tor address                                                 *)
(* Covers is CSubNet::Match on these values (checked against the real Match by the harness before any replay).        *)
EXTENDS BanMan
Subnets2 == {"net24", "host4"}
Addrs3 == {"a4", "a5", "a9"}
Covers2 == {<<"net24", "a4">>, <<"net24", "a5">>, <<"host4", "a4">>}
HostOf2 == [a \in {"a4"} |-> "host4"]
Subnets3 == {"net24", "host4", "onion1"}
Addrs4 == {"a4", "a5", "a9", "o1"}
Covers3 == Covers2 \cup {<<"onion1", "o1">>}
HostOf3 == [a \in {"a4", "o1"} |-> IF a = "a4" THEN "host4" ELSE "onion1"]
====
