\* IPv4: every prefix length; IPv6: the byte and word boundaries
CONSTANTS
  Prefixes6 = {0, 1, 7, 8, 9, 15, 16, 17, 31, 32, 33, 47, 48, 49, 63, 64, 65, 95, 96, 97, 119, 120, 121, 126, 127, 128}
INIT Init
NEXT Next
INVARIANTS MatchAgrees FormsAgree VariantsOK RoundTrips TextRoundTrips SubnetTextRoundTrips EmitRow
CHECK_DEADLOCK FALSE
