---- MODULE MC_addr_thorough ----
EXTENDS NetAddr
AllPrefixes6 == 0..128
====
