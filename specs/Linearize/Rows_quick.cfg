CONSTANTS
  NSet = {1, 2, 3, 4}
  ValsOf <- ValsQuick
  FullUpTo = 3
INIT Init
NEXT Next
INVARIANTS TypeOK EmitRow
CHECK_DEADLOCK FALSE
