---- MODULE TraceLinearize ----
(***************************************************************************)
(* Engine E3 for C24. The log written by harness/adapters/linearize.cpp has *)
(* one line per cluster: the cluster and what the real Linearize /           *)
(* PostLinearize / ChunkLinearization[Info] / CompareChunks returned for it. *)
(* The lines are independent observations, so every line is an initial       *)
(* state (TLC's workers share them) and one step evaluates, with the          *)
(* operators of Linearize.tla, the clauses of C24 on the model (ModelBad,     *)
(* clusters small enough for brute force) and on the logged results           *)
(* (CodeBad). `bad` collects the violated clauses; NoBad is the invariant.     *)
(*   "model:..."    a clause fails on the specification itself (model defect)*)
(*   "harness:..."  the harness broke its contract (infrastructure)         *)
(*   anything else  the real code violates C24 on this cluster              *)
(* All lines were judged iff TLC finds 2 * Len(TraceLog) distinct states      *)
(* (checked by props/C24.py).                                                *)
(***************************************************************************)
EXTENDS Linearize, Json, IOUtils
CONSTANTS MaxBrute,    \* clusters up to this size: all topological orders are enumerated (optimality is decided)
          MaxLiteral   \* clusters up to this size: also the quadratic cross-checks of the brute-force definitions
TraceLog == ndJsonDeserialize(IOEnv.TRACE)
VARIABLES l, bad
tvars == <<c, done, l, bad>>
ClusterOf(e) == [n |-> e.n, par |-> [i \in 1..e.n |-> Range(e.par[i])], fee |-> e.fee, size |-> e.size]
Verdict(e) ==
  LET C == ClusterOf(e) IN
  IF ~IsCluster(C) THEN {<<"harness:not-a-cluster", "", 0>>}
  ELSE LET brute == C.n <= MaxBrute
           X == IF brute THEN Derive(C, TopoOrders(C)) ELSE [T |-> {}, CH |-> <<>>, D |-> <<>>, B |-> {}]
       IN (IF brute THEN {<<m, "model", 0>> : m \in ModelBad(C, X, C.n <= MaxLiteral)} ELSE {})
          \cup CodeBad(C, X, brute, e)
NoCluster == [n |-> 1, par |-> <<{}>>, fee |-> <<0>>, size |-> <<1>>]
TInit == l \in 1..Len(TraceLog) /\ bad = {} /\ done = FALSE /\ c = NoCluster
TNext == /\ ~done /\ done' = TRUE /\ l' = l
         /\ c' = ClusterOf(TraceLog[l])
         /\ bad' = Verdict(TraceLog[l])
NoBad == bad = {}
====
