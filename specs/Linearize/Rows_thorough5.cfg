CONSTANTS
  NSet = {5}
  ValsOf <- ValsThorough
  FullUpTo = 4
INIT Init
NEXT Next
INVARIANTS TypeOK EmitRow
CHECK_DEADLOCK FALSE
