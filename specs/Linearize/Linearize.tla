---- MODULE Linearize ----
(***************************************************************************)
(* C24: cluster linearizations are topological and never get worse.        *)
(*                                                                         *)
(* A cluster is a record C = [n, par, fee, size]: transactions 1..n,        *)
(* par[i] the set of direct parents of i (a subset of 1..i-1, so the        *)
(* labelling is a topological order; redundant, transitively implied edges  *)
(* are allowed), fee[i] an integer (may be zero or negative), size[i] a     *)
(* positive integer.                                                       *)
(*                                                                         *)
(* The module defines, by brute force and nothing clever,                  *)
(*   Topo(L, C)        L is a topologically valid order of all of C        *)
(*   TopoOrders(C)     the set of all such orders                          *)
(*   Chunks(C, L)      the chunking of L (fold the transactions in order,  *)
(*                     the new chunk absorbing its predecessor while it has *)
(*                     a strictly higher feerate): what                    *)
(*                     ChunkLinearization[Info] computes                   *)
(*   Diagram, GE, Cmp  the feerate diagram of a chunking and the exact      *)
(*                     pointwise comparison of two diagrams (what          *)
(*                     CompareChunks computes)                             *)
(*   Connected(C, S)   S is connected through dependencies inside S        *)
(*   PostLin(C, L)     a model of the two-pass merge/swap algorithm of     *)
(*                     PostLinearize                                       *)
(*   Derive(C, t)      the chunkings and diagrams of all topological       *)
(*                     orders t, and the optimal ones                      *)
(*   ModelBad(C, X)    the clauses of C24 decided on the model itself       *)
(*   CodeBad(C, X, e)  the clauses of C24 decided on what the real          *)
(*                     Linearize / PostLinearize / ChunkLinearization /     *)
(*                     CompareChunks returned for C (logged in e)           *)
(*                                                                         *)
(* Rows_*.cfg: TLC enumerates every cluster of the bounded domain and emits *)
(* one row per cluster (the cluster and the inputs to try: all its          *)
(* topological orders).  The harness runs the real classes on each row and  *)
(* logs what they returned; TraceLinearize.tla then evaluates ModelBad and  *)
(* CodeBad for every cluster of the domain.  The harness only transports    *)
(* values: every judgement is made by the operators below.                  *)
(*                                                                         *)
(* Arithmetic: every feerate comparison is an exact cross-multiplication of *)
(* small integers. The harness also runs the implementation on the cluster  *)
(* scaled by (K, M) (every fee times K > 0, every size times M > 0); all     *)
(* relations below are invariant under such scaling (both sides of each     *)
(* cross-multiplication are multiplied by K*M; ModelBad checks this on the  *)
(* bounded model), which is how fees near 2^62 and sizes near 2^31 reach     *)
(* the 128-bit paths of FeeFrac without overflowing TLC's integers.          *)
(***************************************************************************)
EXTENDS Integers, Sequences, FiniteSets, TLC, VF
LOCAL FSE == INSTANCE FiniteSetsExt     \* FoldSet
CONSTANTS NSet,       \* cluster sizes to enumerate
          ValsOf,     \* value domain: ValsOf[n] = the <<fee, size>> pairs a transaction of an n-transaction cluster can have
          FullUpTo    \* clusters of up to FullUpTo transactions: every parent-labelled DAG; larger ones: one representative
                      \* per isomorphism class of connected transitively reduced DAGs (a real cluster is connected)

Range(s) == {s[i] : i \in DOMAIN s}
Last(s) == s[Len(s)]
Front(s) == SubSeq(s, 1, Len(s) - 1)
Rev(s) == [i \in 1..Len(s) |-> s[Len(s) + 1 - i]]
RECURSIVE SetToSeq(_)
SetToSeq(S) == IF S = {} THEN <<>> ELSE LET x == CHOOSE x \in S : TRUE IN <<x>> \o SetToSeq(S \ {x})
RECURSIVE SortedSeq(_)
SortedSeq(S) == IF S = {} THEN <<>> ELSE LET x == CHOOSE x \in S : \A y \in S : x <= y IN <<x>> \o SortedSeq(S \ {x})
RECURSIVE SumOver(_, _)
SumOver(f, S) == IF S = {} THEN 0 ELSE LET x == CHOOSE x \in S : TRUE IN f[x] + SumOver(f, S \ {x})

------------------------------------------------------------------------------
(* Clusters, topology *)
IsCluster(C) == /\ C.n >= 1
                /\ DOMAIN C.par = 1..C.n /\ DOMAIN C.fee = 1..C.n /\ DOMAIN C.size = 1..C.n
                /\ \A i \in 1..C.n : C.par[i] \subseteq 1..(i - 1) /\ C.size[i] >= 1

IsPerm(L, n) == Len(L) = n /\ Range(L) = 1..n
\* every parent of L[i] occurs before position i
Topo(L, C) == /\ IsPerm(L, C.n)
              /\ \A i \in 1..C.n : \A p \in C.par[L[i]] : \E j \in 1..(i - 1) : L[j] = p

\* all topological orders, built by extension with "ready" transactions (brute force)
RECURSIVE Ext(_, _, _)
Ext(par, pre, rem) == IF rem = {} THEN {pre}
                      ELSE UNION {Ext(par, Append(pre, x), rem \ {x}) : x \in {y \in rem : par[y] \cap rem = {}}}
TopoOrders(C) == Ext(C.par, <<>>, 1..C.n)
\* the same set, defined the dumb way (all permutations filtered by Topo): cross-checked on the bounded model
RECURSIVE Perms(_)
Perms(S) == IF S = {} THEN {<<>>} ELSE UNION {{<<x>> \o p : p \in Perms(S \ {x})} : x \in S}

\* ancestors / descendants of a set (including the set)
RECURSIVE AncOf(_, _)
AncOf(C, S) == LET S2 == S \cup UNION {C.par[x] : x \in S} IN IF S2 = S THEN S ELSE AncOf(C, S2)
RECURSIVE DescOf(_, _)
DescOf(C, S) == LET S2 == S \cup {y \in 1..C.n : C.par[y] \cap S # {}} IN IF S2 = S THEN S ELSE DescOf(C, S2)

\* connectivity of a set of transactions through direct dependencies inside the set
RECURSIVE Reach(_, _, _)
Reach(C, S, R) == LET R2 == R \cup {y \in S : \E x \in R : y \in C.par[x] \/ x \in C.par[y]}
                  IN IF R2 = R THEN R ELSE Reach(C, S, R2)
Connected(C, S) == S = {} \/ Reach(C, S, {CHOOSE x \in S : TRUE}) = S

------------------------------------------------------------------------------
(* Chunking and feerate diagrams *)
\* a has a strictly higher feerate than b (sizes positive)
Higher(a, b) == a.f * b.s > b.f * a.s
RECURSIVE Absorb(_, _)
Absorb(acc, c) == IF acc # <<>> /\ Higher(c, Last(acc))
                  THEN Absorb(Front(acc), [f |-> c.f + Last(acc).f, s |-> c.s + Last(acc).s, t |-> c.t \cup Last(acc).t])
                  ELSE Append(acc, c)
RECURSIVE ChunkFrom(_, _, _, _)
ChunkFrom(C, L, i, acc) == IF i > Len(L) THEN acc
                           ELSE ChunkFrom(C, L, i + 1, Absorb(acc, [f |-> C.fee[L[i]], s |-> C.size[L[i]], t |-> {L[i]}]))
\* sequence of chunks [f: fee, s: size, t: set of transactions] of the order L
Chunks(C, L) == ChunkFrom(C, L, 1, <<>>)
NonIncreasing(ch) == \A i \in 1..(Len(ch) - 1) : ~Higher(ch[i + 1], ch[i])
AllConnected(C, ch) == \A i \in 1..Len(ch) : Connected(C, ch[i].t)

\* diagram of a chunking: the points (cumulative size, cumulative fee), starting at (0, 0)
RECURSIVE PtsFrom(_, _, _)
PtsFrom(ch, i, acc) == IF i > Len(ch) THEN acc
                       ELSE PtsFrom(ch, i + 1, Append(acc, [f |-> Last(acc).f + ch[i].f, s |-> Last(acc).s + ch[i].s]))
Diagram(ch) == PtsFrom(ch, 1, <<[f |-> 0, s |-> 0]>>)
DiagramOf(C, L) == Diagram(Chunks(C, L))
\* Every point d1[i], d1[i+1], ... lies on or above (sign = 1) / on or below (sign = -1) the diagram d2, where k is a
\* segment of d2 that starts at or before d1[i].s (both point lists are sorted by size, so one joint walk suffices).
\* Point P against the segment a-b over P.s: (P.f - a.f)/(P.s - a.s) vs (b.f - a.f)/(b.s - a.s), cross-multiplied (b.s > a.s).
RECURSIVE Walk(_, _, _, _, _)
Walk(d1, d2, i, k, sign) ==
  IF i > Len(d1) THEN TRUE
  ELSE IF d2[k + 1].s < d1[i].s THEN Walk(d1, d2, i, k + 1, sign)
  ELSE LET P == d1[i]  a == d2[k]  b == d2[k + 1] IN
       /\ sign * ((P.f - a.f) * (b.s - a.s) - (b.f - a.f) * (P.s - a.s)) >= 0
       /\ Walk(d1, d2, i + 1, k, sign)
\* d1 is pointwise at least d2 (both piecewise linear over the same size range: decided at the breakpoints of both)
GE(d1, d2) == \/ d1 = d2
              \/ /\ Last(d1).s = Last(d2).s
                 /\ Walk(d1, d2, 1, 1, 1)
                 /\ Walk(d2, d1, 1, 1, -1)
CmpOf(a, b) == IF a /\ b THEN "eq" ELSE IF a THEN "gt" ELSE IF b THEN "lt" ELSE "un"
Cmp(d1, d2) == CmpOf(GE(d1, d2), GE(d2, d1))

------------------------------------------------------------------------------
(* Model of PostLinearize (cluster_linearize.h): two passes, the first from back to front with the meaning of
   parent/child and of high/low feerate reversed, the second from front to back. In a pass the transactions are
   appended one by one as a new group; while the group before the current one has a strictly lower feerate, the
   current group either absorbs it (if it depends on it) or is swapped in front of it.
   A group: [txs: sequence in processing order, f, s];  dep[i] = ancestors (forward pass) / descendants (reversed
   pass) of i;  sign = -1 in the reversed pass. *)
GHigher(a, b, sign) == (sign * a.f) * b.s > (sign * b.f) * a.s
RECURSIVE Settle(_, _, _, _, _)
Settle(dep, sign, before, cur, after) ==
  IF before # <<>> /\ GHigher(cur, Last(before), sign)
  THEN IF (UNION {dep[x] : x \in Range(cur.txs)}) \cap Range(Last(before).txs) # {}
       THEN Settle(dep, sign, Front(before),
                   [txs |-> Last(before).txs \o cur.txs, f |-> cur.f + Last(before).f, s |-> cur.s + Last(before).s], after)
       ELSE Settle(dep, sign, Front(before), cur, <<Last(before)>> \o after)
  ELSE before \o <<cur>> \o after
RECURSIVE PassFrom(_, _, _, _, _, _)
PassFrom(C, dep, sign, L, i, groups) ==
  IF i > Len(L) THEN groups
  ELSE PassFrom(C, dep, sign, L, i + 1, Settle(dep, sign, groups, [txs |-> <<L[i]>>, f |-> C.fee[L[i]], s |-> C.size[L[i]]], <<>>))
RECURSIVE Flatten(_, _, _)
Flatten(groups, i, acc) == IF i > Len(groups) THEN acc ELSE Flatten(groups, i + 1, acc \o groups[i].txs)
\* anc, desc: functions tx -> set of ancestors / descendants (including itself)
PostLinWith(C, anc, desc, L) ==
  LET back == Rev(Flatten(PassFrom(C, desc, -1, Rev(L), 1, <<>>), 1, <<>>))
  IN Flatten(PassFrom(C, anc, 1, back, 1, <<>>), 1, <<>>)
AncFun(C) == TLCEval([i \in 1..C.n |-> AncOf(C, {i})])
DescFun(C) == TLCEval([i \in 1..C.n |-> DescOf(C, {i})])
PostLin(C, L) == PostLinWith(C, AncFun(C), DescFun(C), L)

------------------------------------------------------------------------------
(* Everything brute force knows about a cluster: all topological orders, their chunkings and diagrams, and the
   optimal orders (those whose diagram is at least as good as that of every topological order). *)
Derive(C, t) ==
  LET ch == TLCEval([L \in t |-> Chunks(C, L)])      \* (TLCEval: tabulate once; TLC would otherwise re-evaluate the body at every application)
      d == TLCEval([L \in t |-> Diagram(ch[L])])
      ds == {d[L] : L \in t}                                   \* the distinct diagrams (many orders share one)
      \* survivor of a single elimination pass (FoldSet: iterative, no recursion depth problem with thousands of orders)
      cand == FSE!FoldSet(LAMBDA x, b : IF GE(b, x) THEN b ELSE x, CHOOSE x \in ds : TRUE, ds)
      isbest == \A y \in ds : GE(cand, y)                      \* ... which really dominates the diagram of every order?
      bestds == IF isbest THEN {x \in ds : GE(x, cand)} ELSE {}  \* GE is transitive: exactly the diagrams that dominate every order's
  IN [T |-> t, CH |-> ch, D |-> d, DS |-> ds, B |-> {L \in t : d[L] \in bestds}]
\* dd is at least as good as the diagram of every topological order of the cluster (the meaning of "optimal" in C24)
IsOptimum(X, dd) == \A y \in X.DS : GE(dd, y)

(* The clauses of C24 decided on the model: the set of names of the violated ones (must be empty). *)
Children(C, i) == {j \in 1..C.n : i \in C.par[j]}
Reduced(C) == \A i \in 1..C.n : \A p \in C.par[i] : p \notin AncOf(C, C.par[i] \ {p})
TreeShaped(C) == (\A i \in 1..C.n : Cardinality(C.par[i]) <= 1) \/ (\A i \in 1..C.n : Cardinality(Children(C, i)) <= 1)
Scaled(C, K, M) == [C EXCEPT !.fee = [i \in 1..C.n |-> K * C.fee[i]], !.size = [i \in 1..C.n |-> M * C.size[i]]]
ChunkSets(ch) == [i \in 1..Len(ch) |-> ch[i].t]
ModelBad(C, X, literal) ==
  LET anc == AncFun(C)  desc == DescFun(C)
      post == TLCEval([L \in X.T |-> PostLinWith(C, anc, desc, L)])
      most == CHOOSE k \in 1..C.n : (\E L \in X.B : Len(X.CH[L]) = k) /\ (\A L \in X.B : Len(X.CH[L]) <= k)
      c2 == Scaled(C, 3, 7)
      conn == TLCEval([S \in UNION {Range(ChunkSets(X.CH[L])) : L \in X.T} |-> Connected(C, S)])
      AllConn(L) == \A i \in 1..Len(X.CH[L]) : conn[X.CH[L][i].t]
  IN
  \* the optimum is well defined: some topological order is at least as good as every other one
  (IF X.B # {} THEN {} ELSE {"model:no-optimal-order"})
  \* chunk feerates of every topological order never increase; chunks are consecutive pieces of the order with the right sums
  \cup (IF \A L \in X.T : NonIncreasing(X.CH[L]) THEN {} ELSE {"model:chunk-feerates-increase"})
  \* an optimal order with the largest number of chunks ("optimal with minimal chunks") has only connected chunks
  \cup (IF X.B = {} \/ \A L \in X.B : Len(X.CH[L]) = most => AllConn(L) THEN {} ELSE {"model:minimal-optimal-chunk-not-connected"})
  \* the PostLinearize model on every topological input: topological, never worse, connected chunks
  \cup (IF \A L \in X.T : post[L] \in X.T THEN {} ELSE {"model:postlin-not-topological"})
  \cup (IF \A L \in X.T : post[L] \in X.T => GE(X.D[post[L]], X.D[L]) THEN {} ELSE {"model:postlin-worse"})
  \cup (IF \A L \in X.T : post[L] \in X.T => AllConn(post[L]) THEN {} ELSE {"model:postlin-chunk-not-connected"})
  \* ... and optimal on tree-shaped clusters (documented guarantee; keeps the model honest)
  \cup (IF (Reduced(C) /\ TreeShaped(C)) => \A L \in X.T : post[L] \in X.B THEN {} ELSE {"model:postlin-tree-not-optimal"})
  \cup (IF ~literal THEN {} ELSE
        \* (small clusters only) the definitions by brute force proper
        (IF \A L \in X.T : LET ch == X.CH[L]  upto(i) == Cardinality(UNION {ch[j].t : j \in 1..i}) IN
             /\ upto(Len(ch)) = C.n
             /\ \A i \in 1..Len(ch) : /\ ch[i].t = Range(SubSeq(L, upto(i - 1) + 1, upto(i)))
                                      /\ ch[i].f = SumOver(C.fee, ch[i].t) /\ ch[i].s = SumOver(C.size, ch[i].t)
         THEN {} ELSE {"model:chunking-wrong"}) \cup
        (IF IsCluster(C) /\ X.T # {} /\ X.T = {L \in Perms(1..C.n) : Topo(L, C)} THEN {} ELSE {"model:topological-orders-wrong"})
        \cup (IF X.B = {L \in X.T : \A M \in X.T : GE(X.D[L], X.D[M])} THEN {} ELSE {"model:optimal-orders-wrong"})
        \cup (IF \A L, M \in X.T : (Cmp(X.D[L], X.D[M]) = "gt") = (Cmp(X.D[M], X.D[L]) = "lt") THEN {} ELSE {"model:cmp-not-antisymmetric"})
        \* every relation is invariant under positive scaling of fees and sizes
        \cup (IF \A L \in X.T : /\ ChunkSets(X.CH[L]) = ChunkSets(Chunks(c2, L))
                                /\ \A M \in X.T : GE(X.D[L], X.D[M]) = GE(DiagramOf(c2, L), DiagramOf(c2, M))
              THEN {} ELSE {"model:not-scale-invariant"}))

------------------------------------------------------------------------------
(* The clauses of C24 decided on results of the real code. e is the harness's log for cluster C:
     e.L      the distinct orders that occur below; the records refer to them by index (0 = no order)
     e.lins   <<in, claim, out, opt>>     Linearize(old_linearization = L[in] (0 = none), is_topological = (claim = 1)) returned
                                          L[out] and the optimal flag (opt = 1)
     e.posts  <<in, out>>                 PostLinearize turned L[in] into L[out]
     e.chk    <<l, fr, fr2, sets>>        ChunkLinearization(L[l]) = fr (<<fee, size>> pairs); ChunkLinearizationInfo(L[l]) has the
                                          feerates fr2 and the transaction sets `sets`
     e.cmp    <<a, b, r, rr>>             CompareChunks(chunks of L[a], chunks of L[b]) = r, with the arguments swapped = rr
   X = Derive(C, all topological orders) when brute force is feasible (brute = TRUE); otherwise the clause "reported
   optimal => at least as good as every topological order" is not evaluated.  Result: the violated clauses with the field
   and index of the offending record. *)
CodeBad(C, X, brute, e) ==
  LET Ls == e.L
      I == 1..Len(Ls)
      perm == TLCEval([k \in I |-> IsPerm(Ls[k], C.n)])
      topo == TLCEval([k \in I |-> perm[k] /\ (IF brute THEN Ls[k] \in X.T ELSE Topo(Ls[k], C))])
      IsTopo(k) == k \in I /\ topo[k]
      ch == TLCEval([k \in I |-> IF ~perm[k] THEN <<>> ELSE IF brute /\ topo[k] THEN X.CH[Ls[k]] ELSE Chunks(C, Ls[k])])
      d == TLCEval([k \in I |-> Diagram(ch[k])])
      \* never worse: the diagram of L[p[1]] is pointwise at least that of L[p[2]]
      Pairs == {<<e.lins[i][3], e.lins[i][1]>> : i \in {j \in 1..Len(e.lins) : IsTopo(e.lins[j][3]) /\ IsTopo(e.lins[j][1])}}
               \cup {<<e.posts[i][2], e.posts[i][1]>> : i \in {j \in 1..Len(e.posts) : IsTopo(e.posts[j][2]) /\ IsTopo(e.posts[j][1])}}
               \cup {<<e.cmp[i][1], e.cmp[i][2]>> : i \in {j \in 1..Len(e.cmp) : perm[e.cmp[j][1]] /\ perm[e.cmp[j][2]]}}
               \cup {<<e.cmp[i][2], e.cmp[i][1]>> : i \in {j \in 1..Len(e.cmp) : perm[e.cmp[j][1]] /\ perm[e.cmp[j][2]]}}
      geD == TLCEval([q \in {<<d[p[1]], d[p[2]]>> : p \in Pairs} |-> GE(q[1], q[2])])     \* one comparison per distinct pair of diagrams
      ge == TLCEval([p \in Pairs |-> geD[<<d[p[1]], d[p[2]]>>]])
      \* results reported optimal: at least as good as every topological order?
      OptOuts == {e.lins[i][3] : i \in {j \in 1..Len(e.lins) : e.lins[j][4] = 1 /\ IsTopo(e.lins[j][3])}}
      optD == TLCEval([q \in {d[k] : k \in OptOuts} |-> IsOptimum(X, q)])
      isopt == TLCEval([k \in OptOuts |-> optD[d[k]]])
  IN
  UNION {
    \* Linearize: the result is a topological order; never worse than a topologically valid input (claimed or not);
    \* a result reported optimal is at least as good as every topological order
    LET in == e.lins[i][1]  claim == e.lins[i][2] = 1  out == e.lins[i][3]  opt == e.lins[i][4] = 1 IN
      (IF IsTopo(out) THEN {} ELSE {<<"linearize-output-not-topological", "lins", i>>})
      \cup (IF IsTopo(out) /\ IsTopo(in) /\ ~ge[<<out, in>>] THEN {<<"linearize-worse-than-topological-input", "lins", i>>} ELSE {})
      \cup (IF brute /\ IsTopo(out) /\ opt /\ ~isopt[out] THEN {<<"linearize-reported-optimal-but-is-not", "lins", i>>} ELSE {})
      \* harness contract: an input claimed topological is topological
      \cup (IF claim /\ in # 0 /\ ~IsTopo(in) THEN {<<"harness:claimed-topological-input-is-not", "lins", i>>} ELSE {})
    : i \in 1..Len(e.lins)}
  \cup UNION {
    \* PostLinearize (input topological): topological, never worse, every chunk connected
    LET in == e.posts[i][1]  out == e.posts[i][2] IN
      IF ~IsTopo(in) THEN {<<"harness:postlinearize-input-not-topological", "posts", i>>}
      ELSE (IF IsTopo(out) THEN {} ELSE {<<"postlinearize-output-not-topological", "posts", i>>})
           \cup (IF IsTopo(out) /\ ~ge[<<out, in>>] THEN {<<"postlinearize-worse-than-input", "posts", i>>} ELSE {})
           \cup (IF IsTopo(out) /\ ~AllConnected(C, ch[out]) THEN {<<"postlinearize-chunk-not-connected", "posts", i>>} ELSE {})
    : i \in 1..Len(e.posts)}
  \cup UNION {
    \* ChunkLinearization / ChunkLinearizationInfo: the chunking of the order; feerates never increase
    LET x == e.chk[i]  k == e.chk[i][1] IN
      IF ~(k \in I /\ perm[k]) THEN {<<"harness:chunked-order-not-a-permutation", "chk", i>>}
      ELSE LET want == [j \in 1..Len(ch[k]) |-> <<ch[k][j].f, ch[k][j].s>>]  fr == x[2]  fr2 == x[3]  sets == x[4] IN
           (IF fr = want THEN {} ELSE {<<"chunk-feerates-differ", "chk", i>>})
           \cup (IF fr2 = want THEN {} ELSE {<<"chunkinfo-feerates-differ", "chk", i>>})
           \cup (IF Len(sets) = Len(ch[k]) /\ \A j \in 1..Len(sets) : Range(sets[j]) = ch[k][j].t THEN {} ELSE {<<"chunkinfo-sets-differ", "chk", i>>})
           \cup (IF \A j \in 1..(Len(fr) - 1) : fr[j + 1][1] * fr[j][2] <= fr[j][1] * fr[j + 1][2] THEN {} ELSE {<<"chunk-feerates-increase", "chk", i>>})
    : i \in 1..Len(e.chk)}
  \cup UNION {
    \* CompareChunks decides the pointwise comparison of the two diagrams
    LET a == e.cmp[i][1]  b == e.cmp[i][2] IN
      IF ~(a \in I /\ b \in I /\ perm[a] /\ perm[b]) THEN {<<"harness:compared-order-not-a-permutation", "cmp", i>>}
      ELSE (IF e.cmp[i][3] = CmpOf(ge[<<a, b>>], ge[<<b, a>>]) THEN {} ELSE {<<"comparechunks-differs", "cmp", i>>})
           \cup (IF e.cmp[i][4] = CmpOf(ge[<<b, a>>], ge[<<a, b>>]) THEN {} ELSE {<<"comparechunks-swapped-differs", "cmp", i>>})
    : i \in 1..Len(e.cmp)}

------------------------------------------------------------------------------
(* Bounded domain: the clusters TLC enumerates (Rows_*.cfg) *)
RECURSIVE ParSeqs(_)
ParSeqs(k) == IF k = 0 THEN {<<>>} ELSE {Append(p, S) : p \in ParSeqs(k - 1), S \in SUBSET (1..(k - 1))}
\* one representative per isomorphism class of transitively reduced DAGs: the parent table with the least code among
\* all relabellings that keep parents before children
RECURSIVE Pow2(_)
Pow2(k) == IF k = 0 THEN 1 ELSE 2 * Pow2(k - 1)
ParCode(p) == LET E == {<<i, j>> : i \in 1..Len(p), j \in 1..Len(p)} IN
              SumOver([e \in E |-> IF e[2] \in p[e[1]] THEN Pow2((e[1] - 1) * Len(p) + e[2] - 1) ELSE 0], E)
Relabel(p, sigma) == [i \in 1..Len(p) |-> LET k == CHOOSE k \in 1..Len(p) : sigma[k] = i IN {sigma[j] : j \in p[k]}]
IsShape(p) == LET n == Len(p) IN
              /\ Reduced([n |-> n, par |-> p])
              /\ \A sigma \in Perms(1..n) : (\A i \in 1..n : Relabel(p, sigma)[i] \subseteq 1..(i - 1)) => ParCode(p) <= ParCode(Relabel(p, sigma))
ParSet == [n \in NSet |-> IF n <= FullUpTo THEN ParSeqs(n) ELSE {p \in ParSeqs(n) : IsShape(p) /\ Connected([n |-> n, par |-> p], 1..n)}]
\* placements tx -> DepGraph position the harness has to try: in label order, reversed (children at lower positions
\* than their parents), and every other position (holes in the DepGraph)
\* value domains of the Rows_*.cfg (a cfg file cannot spell tuples or negative numbers): zero fees, equal feerates at
\* different sizes (1/1 = 2/2, 3/1 = 6/2), negative fees
ValsQ4 == {<<0, 1>>, <<1, 1>>, <<2, 2>>, <<2, 1>>, <<3, 2>>}          \* feerates 0, 1, 1 (twice the size), 2, 3/2
ValsQ3 == {<<-1, 1>>, <<0, 1>>, <<0, 3>>, <<2, 1>>, <<2, 3>>, <<6, 3>>}
ValsT4 == {<<-1, 1>>, <<0, 1>>, <<1, 1>>, <<2, 2>>, <<2, 1>>, <<3, 2>>}
ValsT5 == {<<0, 1>>, <<1, 1>>, <<2, 1>>, <<3, 2>>}
ValsQuick == [n \in 1..4 |-> IF n = 4 THEN ValsQ4 ELSE ValsQ3]
ValsThorough == [n \in 1..5 |-> IF n = 5 THEN ValsT5 ELSE ValsT4]
MapsFor(n) == <<[i \in 1..n |-> i], [i \in 1..n |-> n + 1 - i], [i \in 1..n |-> 2 * i]>>

VARIABLES c, done
vars == <<c, done>>
Init == /\ \E n \in NSet : \E p \in ParSet[n], v \in [1..n -> ValsOf[n]] :
               c = [n |-> n, par |-> p, fee |-> [i \in 1..n |-> v[i][1]], size |-> [i \in 1..n |-> v[i][2]]]
        /\ done = FALSE
\* (TLC generates initial states on one thread; the row is printed in a step so that the workers share the printing)
Next == ~done /\ done' = TRUE /\ c' = c
TypeOK == IsCluster(c)
\* one row per cluster for the harness: the cluster, the inputs to try (all its topological orders), the placements
EmitRow == done => VFRow([n |-> c.n, par |-> [i \in 1..c.n |-> SortedSeq(c.par[i])], fee |-> c.fee, size |-> c.size,
                          orders |-> SetToSeq(TopoOrders(c)), maps |-> MapsFor(c.n)])
====
