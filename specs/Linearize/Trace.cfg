CONSTANTS
  NSet = {1}
  ValsOf = {}
  FullUpTo = 1
  MaxBrute = 8
  MaxLiteral = 3
INIT TInit
NEXT TNext
INVARIANT NoBad
CHECK_DEADLOCK FALSE
