CONSTANTS
  NSet = {1, 2, 3, 4}
  ValsOf <- ValsThorough
  FullUpTo = 4
INIT Init
NEXT Next
INVARIANTS TypeOK EmitRow
CHECK_DEADLOCK FALSE
