---- MODULE PeerPunish ----
(***************************************************************************)
(* C36: which P2P messages make the node disconnect / discourage a peer.   *)
(*                                                                         *)
(* The decision table is transcribed from src/net_processing.cpp:          *)
(*   Effect      = what ProcessMessage does with a message of a content    *)
(*                 class: nothing, Misbehaving() (every call site and      *)
(*                 MaybePunishNodeForBlock), or a direct fDisconnect for a *)
(*                 protocol violation (tx / tx inv from a peer that must   *)
(*                 not send transactions: RejectIncomingTxs; filterload    *)
(*                 without NODE_BLOOM);                                    *)
(*   Punish      = MaybeDiscourageAndDisconnect (noban, manual, local).    *)
(* A behaviour is one peer sending up to MaxLen messages.  TLC checks the   *)
(* three sentences of the property on every transition; the transitions    *)
(* (MaxLen = 1: the table; simulation: sequences) are replayed on a real   *)
(* PeerManager, projection = (fDisconnect, BanMan::IsDiscouraged).         *)
(***************************************************************************)
EXTENDS Integers, Sequences, FiniteSets, TLC, VF
CONSTANTS MaxLen,         \* messages per behaviour
          Conns,          \* connection types explored
          Bools2          \* domain of the secondary peer attributes ({FALSE, TRUE}, or {TRUE} to thin a configuration)

Modes == {"normal", "blocksonly"}      \* blocksonly = -blocksonly (PeerManager::Options::ignore_incoming_txs)

\* ---------------------------------------------------------------- message content classes (realised by harness/adapters/peerpunish.cpp)
\* "tx" messages: valid, consensus-invalid (three ways), script-invalid, non-standard (two ways), below the fee floor, orphan,
\* orphan that turns out invalid when its parent arrives, the parent, conflicting with the pool, witness stripped, premature
\* coinbase spend, already confirmed, sent twice, orphan followed by its parent (valid / invalid when reconsidered), and four
\* undecodable payloads
TxClasses == {"tx_valid", "tx_belowout", "tx_dupinputs", "tx_coinbase", "tx_badsig", "tx_nonstd", "tx_dust", "tx_lowfee",
              "tx_orphan", "tx_orphan_bad", "tx_parent", "tx_conflict", "tx_stripped", "tx_premature", "tx_confirmed", "tx_twice",
              "tx_orphan_resolved", "tx_orphan_bad_resolved", "tx_truncated", "tx_empty", "tx_garbage", "tx_trailing"}
TxInvClasses == {"inv_tx"}
\* headers whose proof of work is invalid (first or later header of the message)
BadPowHeaderClasses == {"hdr_badpow", "hdr_badpow_second"}
\* other header messages that reach Misbehaving: not continuous, more than 2000, wrong nBits, time <= MTP, child of a known-invalid block
OtherBadHeaderClasses == {"hdr_noncont", "hdr_oversize", "hdr_badbits", "hdr_time_old", "hdr_invalid_prev"}
QuietHeaderClasses == {"hdr_valid", "hdr_empty", "hdr_unconnecting", "hdr_time_future", "hdr_lowwork", "hdr_truncated"}
\* full blocks that validation finds invalid (CheckBlock, ContextualCheckBlock(Header), ConnectBlock) ...
InvalidBlockClasses == {"blk_badpow", "blk_cb_multiple", "blk_cb_amount", "blk_missing_inputs", "blk_badsig", "blk_cb_height",
                        "blk_time_old", "blk_invalid_prev"}
\* ... or that the mutation check before validation rejects
MutatedBlockClasses == {"blk_mutated_merkle", "blk_mutated_dup", "blk_mutated_witness"}
\* blocks that are not validated: parent unknown (punished: BLOCK_MISSING_PREV), already marked invalid earlier (cached: punished
\* for outbound peers only), timestamp too far ahead (may become valid), too little work, valid, duplicate, equal-work sibling
\* of the tip (stored, not validated), undecodable
QuietBlockClasses == {"blk_valid", "blk_valid_tx", "blk_time_future", "blk_lowwork", "blk_sibling_invalid", "blk_dup_tip", "blk_truncated"}
ValidBlockClasses == {"blk_valid", "blk_valid_tx"}
\* WHEN a full block is validated does not depend on the sender: on receipt (all classes above), or later -
\*   blk_child_first_*  headers A, B (B child of A), then the full block B before A's data: B is stored, not validated;
\*   blk_parent_arrives / blk_parent_from_elsewhere  A's data arrives (from this peer / not from this peer): A connects, then B is validated;
\*   blk_side_first_*   a full block on a side branch with as much work as the tip: stored, not validated;
\*   blk_side_extended  a valid block on top of it: the side branch has more work, the node reorganises and validates the stored block.
\* (_bad: invalid only when connected, its coinbase pays too much; _ok: valid.) Without a stored block of this peer the three
\* trigger classes are a plain valid block on the tip.
StoreFirstClasses == {"blk_child_first_bad", "blk_child_first_ok", "blk_side_first_bad", "blk_side_first_ok"}
TriggerClasses == {"blk_parent_arrives", "blk_parent_from_elsewhere", "blk_side_extended"}
DeferredClasses == StoreFirstClasses \cup TriggerClasses
CmpctClasses == {"cmpct_valid", "cmpct_badpow", "cmpct_invalid_block", "cmpct_bad_prefilled", "cmpct_missing_tx",
                 "cmpct_then_wrong_blocktxn", "cmpct_then_short_blocktxn"}
OtherClasses == {"hdr_cached_invalid", "blk_cached_invalid", "blk_unknown_prev", "blocktxn_unsolicited", "getblocktxn_oob",
                 "sendcmpct_badflag", "inv_oversize", "getdata_oversize", "getdata_unknown", "addr_oversize", "filterload_any",
                 "ping", "unknown_msg"}
Classes == TxClasses \cup TxInvClasses \cup BadPowHeaderClasses \cup OtherBadHeaderClasses \cup QuietHeaderClasses \cup
           InvalidBlockClasses \cup MutatedBlockClasses \cup QuietBlockClasses \cup CmpctClasses \cup OtherClasses \cup DeferredClasses

Peers == [conn: Conns, noban: BOOLEAN, relay: Bools2, local: BOOLEAN, fRelay: Bools2, cmpct: Bools2]

VARIABLES peer, mode,
          out,        \* "none" | "disconnect" | "discourage" (= disconnected and address discouraged)
          hb,         \* the node asked this peer for high-bandwidth compact block relay (m_bip152_highbandwidth_to)
          infl,       \* a block request to this peer is outstanding (mapBlocksInFlight not empty)
          blockSource,\* the stored, not yet validated full block for which the node remembers this peer as its source (mapBlockSource):
                      \* "none" | "child_bad" | "child_ok" (waits for its parent) | "side_bad" | "side_ok" (waits for a reorganisation)
          n,          \* messages sent so far
          lastAct, lastRes
vars == <<peer, mode, out, hb, infl, blockSource, n, lastAct, lastRes>>
View0 == <<peer, mode, out, hb, infl, blockSource, n>>

\* ---------------------------------------------------------------- the code's rules
\* PeerManagerImpl::RejectIncomingTxs
RejectTx(m, p) == p.conn \in {"blockrelay", "feeler"} \/ (m = "blocksonly" /\ ~p.relay)
Inbound(p) == p.conn = "inbound"
\* compact block messages are looked at only outside blocksonly mode and after the peer's sendcmpct (m_provides_cmpctblocks)
CmpctOn(m, p) == m = "normal" /\ p.cmpct

\* "none" | "misbehave" (Misbehaving(): m_should_discourage) | "violation" (fDisconnect set directly)
\* the stored block that message c causes to be validated now ("none": nothing)
Validated(bs, c) == IF c \in {"blk_parent_arrives", "blk_parent_from_elsewhere"} /\ bs \in {"child_bad", "child_ok"} THEN bs
                    ELSE IF c = "blk_side_extended" /\ bs \in {"side_bad", "side_ok"} THEN bs ELSE "none"
Effect(m, p, h, bs, c) ==
  CASE c \in StoreFirstClasses -> "none"                                          \* stored; the sender is remembered in blockSource
    [] c \in TriggerClasses -> IF Validated(bs, c) \in {"child_bad", "side_bad"} THEN "misbehave" ELSE "none"   \* BlockChecked finds the sender
    [] c \in TxClasses \cup TxInvClasses -> IF RejectTx(m, p) THEN "violation" ELSE "none"
    [] c \in BadPowHeaderClasses \cup OtherBadHeaderClasses -> "misbehave"
    [] c \in QuietHeaderClasses -> "none"
    [] c \in InvalidBlockClasses \cup MutatedBlockClasses -> "misbehave"
    [] c \in QuietBlockClasses -> "none"
    [] c = "blk_unknown_prev" -> "misbehave"                                    \* BLOCK_MISSING_PREV
    [] c \in {"hdr_cached_invalid", "blk_cached_invalid"} -> IF Inbound(p) THEN "none" ELSE "misbehave"   \* BLOCK_CACHED_INVALID
    [] c = "cmpct_badpow" -> IF CmpctOn(m, p) THEN "misbehave" ELSE "none"      \* header checked before anything else
    [] c \in {"cmpct_bad_prefilled", "cmpct_then_short_blocktxn"} -> IF CmpctOn(m, p) /\ h THEN "misbehave" ELSE "none"
    [] c \in {"cmpct_valid", "cmpct_invalid_block", "cmpct_missing_tx", "cmpct_then_wrong_blocktxn", "blocktxn_unsolicited"} -> "none"
    [] c \in {"getblocktxn_oob", "sendcmpct_badflag", "inv_oversize", "getdata_oversize"} -> "misbehave"
    [] c = "addr_oversize" -> IF p.conn \in {"blockrelay", "feeler"} THEN "none" ELSE "misbehave"   \* SetupAddressRelay
    [] c = "filterload_any" -> "violation"                                      \* the node does not offer NODE_BLOOM
    [] c \in {"getdata_unknown", "ping", "unknown_msg"} -> "none"

\* PeerManagerImpl::MaybeDiscourageAndDisconnect
Punish(p, e) ==
  CASE e = "none" -> "none"
    [] e = "violation" -> "disconnect"
    [] e = "misbehave" -> IF p.noban \/ p.conn = "manual" THEN "none"
                          ELSE IF p.local THEN "disconnect" ELSE "discourage"

\* classes after which a block request to the peer stays outstanding
LeavesInFlight(m, p, h, c) ==
  \/ c \in {"hdr_valid", "blk_child_first_bad", "blk_child_first_ok"}            \* (the parent A was requested after its header)
  \/ c \in {"cmpct_missing_tx", "cmpct_then_wrong_blocktxn"} /\ CmpctOn(m, p) /\ h

\* ---------------------------------------------------------------- behaviours
Init ==
  /\ peer \in Peers /\ mode \in Modes
  /\ out = (IF peer.conn = "feeler" THEN "disconnect" ELSE "none")    \* a feeler is dropped as soon as its version message arrives
  /\ hb = FALSE /\ infl = FALSE /\ blockSource = "none" /\ n = 0
  /\ lastAct = <<"init">> /\ lastRes = [eff |-> "none", must |-> FALSE, never |-> FALSE]

\* the sets the three sentences of the property quantify over
AllowedTxMsg(m, p, c) == c \in TxClasses \cup TxInvClasses /\ ~RejectTx(m, p)
Protected(p) == p.noban \/ p.conn = "manual"
MustPunishClass(c) == c \in InvalidBlockClasses \cup MutatedBlockClasses \cup BadPowHeaderClasses
\* ... or a full block this peer sent earlier is found invalid now
MustPunish(bs, c) == MustPunishClass(c) \/ Validated(bs, c) \in {"child_bad", "side_bad"}

Recv(c) ==
  /\ n < MaxLen
  /\ n' = n + 1
  /\ lastAct' = <<"recv", c>>
  /\ UNCHANGED <<peer, mode>>
  /\ IF out # "none"
     THEN \* a peer marked for disconnection is not processed any more (ProcessMessages returns early)
          /\ UNCHANGED <<out, hb, infl, blockSource>>
          /\ lastRes' = [eff |-> "ignored", must |-> FALSE, never |-> TRUE]
     ELSE LET e == Effect(mode, peer, hb, blockSource, c) IN
          /\ out' = Punish(peer, e)
          /\ blockSource' = (CASE c = "blk_child_first_bad" -> "child_bad" [] c = "blk_child_first_ok" -> "child_ok"
                               [] c = "blk_side_first_bad" -> "side_bad" [] c = "blk_side_first_ok" -> "side_ok"
                               [] Validated(blockSource, c) # "none" -> "none"            \* consumed by BlockChecked
                               [] OTHER -> blockSource)
          /\ infl' = (infl \/ LeavesInFlight(mode, peer, hb, c))
          /\ hb' = (hb \/ (c \in ValidBlockClasses \cup TriggerClasses /\ CmpctOn(mode, peer) /\ ~infl))
          /\ lastRes' = [eff |-> e,
                         must |-> (MustPunish(blockSource, c) /\ ~Protected(peer)),
                         never |-> (AllowedTxMsg(mode, peer, c) \/ (Protected(peer) /\ e # "violation"))]

\* (sequences: the deferred-validation classes are explored exhaustively by the table run instead)
Next == \E c \in Classes \ DeferredClasses : Recv(c)
\* the table (first message: everything) plus every second message of a peer the node has made a high-bandwidth compact block peer
\* or of which it holds a stored, not yet validated block
\* (after a stored block: the messages that trigger its validation, another stored block, and a few unrelated ones)
AfterStore == DeferredClasses \cup {"blk_valid", "hdr_valid", "tx_valid", "blk_cb_amount", "ping"}
NextTable == \E c \in Classes : (n = 0 \/ hb \/ (blockSource # "none" /\ c \in AfterStore)) /\ Recv(c)
Spec == Init /\ [][Next]_vars

\* ---------------------------------------------------------------- the property (checked on every transition)
TypeOK == out \in {"none", "disconnect", "discourage"} /\ blockSource \in {"none", "child_bad", "child_ok", "side_bad", "side_ok"} /\ hb \in BOOLEAN /\ infl \in BOOLEAN /\ n \in 0..MaxLen

\* 1. no transaction message from a peer that may send transactions changes the peer's standing
TxNeverPunished == [][\A c \in Classes : (lastAct' = <<"recv", c>> /\ AllowedTxMsg(mode, peer, c)) => out' = out]_vars
\* 2. noban peers and manual connections are never discouraged, and are disconnected only for a protocol violation (never through the
\*    misbehaviour path)
ProtectedNeverPunished == [][Protected(peer) => /\ out' # "discourage"
                                                /\ (out' # out => lastRes'.eff = "violation")]_vars
\* 3. any other peer whose full block is invalid, or whose headers carry invalid proof of work, is disconnected, and discouraged
\*    unless its address is local
\*    - whenever the block is validated: on receipt, when its parent arrives, or when a reorganisation reaches it
InvalidBlockPunished == [][\A c \in Classes : (lastAct' = <<"recv", c>> /\ out = "none" /\ MustPunish(blockSource, c) /\ ~Protected(peer))
                                              => out' = (IF peer.local THEN "disconnect" ELSE "discourage")]_vars
\* the flags handed to the replay agree with the sentences
FlagsOK == [][/\ (lastRes'.never => out' = out)
              /\ (lastRes'.must /\ out = "none" => out' # "none")]_vars

Proj == [peer |-> peer, mode |-> mode, out |-> out]
Emit == VFEdgeK(View0, Proj, lastAct', lastRes', View0', Proj')
====
