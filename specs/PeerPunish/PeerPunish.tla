---- MODULE PeerPunish ----
(***************************************************************************)
(* C36: which P2P messages make the node disconnect / discourage a peer.   *)
(*                                                                         *)
(* The decision table is transcribed from src/net_processing.cpp:          *)
(*   Effect      = what ProcessMessage does with a message of a content    *)
(*                 class: nothing, Misbehaving() (every call site and      *)
(*                 MaybePunishNodeForBlock), or a direct fDisconnect for a *)
(*                 protocol violation (tx / tx inv from a peer that must   *)
(*                 not send transactions: RejectIncomingTxs; filterload    *)
(*                 without NODE_BLOOM);                                    *)
(*   Punish      = MaybeDiscourageAndDisconnect (noban, manual, local).    *)
(* A behaviour is one peer sending up to MaxLen messages.  TLC checks the   *)
(* three sentences of the property on every transition; the transitions    *)
(* (MaxLen = 1: the table; simulation: sequences) are replayed on a real   *)
(* PeerManager, projection = (fDisconnect, BanMan::IsDiscouraged).         *)
(***************************************************************************)
EXTENDS Integers, Sequences, FiniteSets, TLC, VF
CONSTANTS MaxLen,         \* messages per behaviour
          Conns,          \* connection types explored
          Bools2          \* domain of the secondary peer attributes ({FALSE, TRUE}, or {TRUE} to thin a configuration)

Modes == {"normal", "blocksonly"}      \* blocksonly = -blocksonly (PeerManager::Options::ignore_incoming_txs)

\* ---------------------------------------------------------------- message content classes (realised by harness/adapters/peerpunish.cpp)
\* "tx" messages: valid, consensus-invalid (three ways), script-invalid, non-standard (two ways), below the fee floor, orphan,
\* orphan that turns out invalid when its parent arrives, the parent, conflicting with the pool, witness stripped, premature
\* coinbase spend, already confirmed, sent twice, orphan followed by its parent (valid / invalid when reconsidered), and four
\* undecodable payloads
TxClasses == {"tx_valid", "tx_belowout", "tx_dupinputs", "tx_coinbase", "tx_badsig", "tx_nonstd", "tx_dust", "tx_lowfee",
              "tx_orphan", "tx_orphan_bad", "tx_parent", "tx_conflict", "tx_stripped", "tx_premature", "tx_confirmed", "tx_twice",
              "tx_orphan_resolved", "tx_orphan_bad_resolved", "tx_truncated", "tx_empty", "tx_garbage", "tx_trailing"}
TxInvClasses == {"inv_tx"}
\* headers whose proof of work is invalid (first or later header of the message)
BadPowHeaderClasses == {"hdr_badpow", "hdr_badpow_second"}
\* other header messages that reach Misbehaving: not continuous, more than 2000, wrong nBits, time <= MTP, child of a known-invalid block
OtherBadHeaderClasses == {"hdr_noncont", "hdr_oversize", "hdr_badbits", "hdr_time_old", "hdr_invalid_prev"}
QuietHeaderClasses == {"hdr_valid", "hdr_empty", "hdr_unconnecting", "hdr_time_future", "hdr_lowwork", "hdr_truncated"}
\* full blocks that validation finds invalid (CheckBlock, ContextualCheckBlock(Header), ConnectBlock) ...
InvalidBlockClasses == {"blk_badpow", "blk_cb_multiple", "blk_cb_amount", "blk_missing_inputs", "blk_badsig", "blk_cb_height",
                        "blk_time_old", "blk_invalid_prev"}
\* ... or that the mutation check before validation rejects
MutatedBlockClasses == {"blk_mutated_merkle", "blk_mutated_dup", "blk_mutated_witness"}
\* blocks that are not validated: parent unknown (punished: BLOCK_MISSING_PREV), already marked invalid earlier (cached: punished
\* for outbound peers only), timestamp too far ahead (may become valid), too little work, valid, duplicate, equal-work sibling
\* of the tip (stored, not validated), undecodable
QuietBlockClasses == {"blk_valid", "blk_valid_tx", "blk_time_future", "blk_lowwork", "blk_sibling_invalid", "blk_dup_tip", "blk_truncated"}
ValidBlockClasses == {"blk_valid", "blk_valid_tx"}
CmpctClasses == {"cmpct_valid", "cmpct_badpow", "cmpct_invalid_block", "cmpct_bad_prefilled", "cmpct_missing_tx",
                 "cmpct_then_wrong_blocktxn", "cmpct_then_short_blocktxn"}
OtherClasses == {"hdr_cached_invalid", "blk_cached_invalid", "blk_unknown_prev", "blocktxn_unsolicited", "getblocktxn_oob",
                 "sendcmpct_badflag", "inv_oversize", "getdata_oversize", "getdata_unknown", "addr_oversize", "filterload_any",
                 "ping", "unknown_msg"}
Classes == TxClasses \cup TxInvClasses \cup BadPowHeaderClasses \cup OtherBadHeaderClasses \cup QuietHeaderClasses \cup
           InvalidBlockClasses \cup MutatedBlockClasses \cup QuietBlockClasses \cup CmpctClasses \cup OtherClasses

Peers == [conn: Conns, noban: BOOLEAN, relay: Bools2, local: BOOLEAN, fRelay: Bools2, cmpct: Bools2]

VARIABLES peer, mode,
          out,        \* "none" | "disconnect" | "discourage" (= disconnected and address discouraged)
          hb,         \* the node asked this peer for high-bandwidth compact block relay (m_bip152_highbandwidth_to)
          infl,       \* a block request to this peer is outstanding (mapBlocksInFlight not empty)
          n,          \* messages sent so far
          lastAct, lastRes
vars == <<peer, mode, out, hb, infl, n, lastAct, lastRes>>
View0 == <<peer, mode, out, hb, infl, n>>

\* ---------------------------------------------------------------- the code's rules
\* PeerManagerImpl::RejectIncomingTxs
RejectTx(m, p) == p.conn \in {"blockrelay", "feeler"} \/ (m = "blocksonly" /\ ~p.relay)
Inbound(p) == p.conn = "inbound"
\* compact block messages are looked at only outside blocksonly mode and after the peer's sendcmpct (m_provides_cmpctblocks)
CmpctOn(m, p) == m = "normal" /\ p.cmpct

\* "none" | "misbehave" (Misbehaving(): m_should_discourage) | "violation" (fDisconnect set directly)
Effect(m, p, h, c) ==
  CASE c \in TxClasses \cup TxInvClasses -> IF RejectTx(m, p) THEN "violation" ELSE "none"
    [] c \in BadPowHeaderClasses \cup OtherBadHeaderClasses -> "misbehave"
    [] c \in QuietHeaderClasses -> "none"
    [] c \in InvalidBlockClasses \cup MutatedBlockClasses -> "misbehave"
    [] c \in QuietBlockClasses -> "none"
    [] c = "blk_unknown_prev" -> "misbehave"                                    \* BLOCK_MISSING_PREV
    [] c \in {"hdr_cached_invalid", "blk_cached_invalid"} -> IF Inbound(p) THEN "none" ELSE "misbehave"   \* BLOCK_CACHED_INVALID
    [] c = "cmpct_badpow" -> IF CmpctOn(m, p) THEN "misbehave" ELSE "none"      \* header checked before anything else
    [] c \in {"cmpct_bad_prefilled", "cmpct_then_short_blocktxn"} -> IF CmpctOn(m, p) /\ h THEN "misbehave" ELSE "none"
    [] c \in {"cmpct_valid", "cmpct_invalid_block", "cmpct_missing_tx", "cmpct_then_wrong_blocktxn", "blocktxn_unsolicited"} -> "none"
    [] c \in {"getblocktxn_oob", "sendcmpct_badflag", "inv_oversize", "getdata_oversize"} -> "misbehave"
    [] c = "addr_oversize" -> IF p.conn \in {"blockrelay", "feeler"} THEN "none" ELSE "misbehave"   \* SetupAddressRelay
    [] c = "filterload_any" -> "violation"                                      \* the node does not offer NODE_BLOOM
    [] c \in {"getdata_unknown", "ping", "unknown_msg"} -> "none"

\* PeerManagerImpl::MaybeDiscourageAndDisconnect
Punish(p, e) ==
  CASE e = "none" -> "none"
    [] e = "violation" -> "disconnect"
    [] e = "misbehave" -> IF p.noban \/ p.conn = "manual" THEN "none"
                          ELSE IF p.local THEN "disconnect" ELSE "discourage"

\* classes after which a block request to the peer stays outstanding
LeavesInFlight(m, p, h, c) ==
  \/ c = "hdr_valid"
  \/ c \in {"cmpct_missing_tx", "cmpct_then_wrong_blocktxn"} /\ CmpctOn(m, p) /\ h

\* ---------------------------------------------------------------- behaviours
Init ==
  /\ peer \in Peers /\ mode \in Modes
  /\ out = (IF peer.conn = "feeler" THEN "disconnect" ELSE "none")    \* a feeler is dropped as soon as its version message arrives
  /\ hb = FALSE /\ infl = FALSE /\ n = 0
  /\ lastAct = <<"init">> /\ lastRes = [eff |-> "none", must |-> FALSE, never |-> FALSE]

\* the sets the three sentences of the property quantify over
AllowedTxMsg(m, p, c) == c \in TxClasses \cup TxInvClasses /\ ~RejectTx(m, p)
Protected(p) == p.noban \/ p.conn = "manual"
MustPunishClass(c) == c \in InvalidBlockClasses \cup MutatedBlockClasses \cup BadPowHeaderClasses

Recv(c) ==
  /\ n < MaxLen
  /\ n' = n + 1
  /\ lastAct' = <<"recv", c>>
  /\ UNCHANGED <<peer, mode>>
  /\ IF out # "none"
     THEN \* a peer marked for disconnection is not processed any more (ProcessMessages returns early)
          /\ UNCHANGED <<out, hb, infl>>
          /\ lastRes' = [eff |-> "ignored", must |-> FALSE, never |-> TRUE]
     ELSE LET e == Effect(mode, peer, hb, c) IN
          /\ out' = Punish(peer, e)
          /\ infl' = (infl \/ LeavesInFlight(mode, peer, hb, c))
          /\ hb' = (hb \/ (c \in ValidBlockClasses /\ CmpctOn(mode, peer) /\ ~infl))
          /\ lastRes' = [eff |-> e,
                         must |-> (MustPunishClass(c) /\ ~Protected(peer)),
                         never |-> (AllowedTxMsg(mode, peer, c) \/ (Protected(peer) /\ e # "violation"))]

Next == \E c \in Classes : Recv(c)
\* the table (first message: everything) plus, for peers the node has made high-bandwidth compact block peers, every second message
NextTable == \E c \in Classes : (n = 0 \/ hb) /\ Recv(c)
Spec == Init /\ [][Next]_vars

\* ---------------------------------------------------------------- the property (checked on every transition)
TypeOK == out \in {"none", "disconnect", "discourage"} /\ hb \in BOOLEAN /\ infl \in BOOLEAN /\ n \in 0..MaxLen

\* 1. no transaction message from a peer that may send transactions changes the peer's standing
TxNeverPunished == [][\A c \in Classes : (lastAct' = <<"recv", c>> /\ AllowedTxMsg(mode, peer, c)) => out' = out]_vars
\* 2. noban peers and manual connections are never discouraged, and are disconnected only for a protocol violation (never through the
\*    misbehaviour path)
ProtectedNeverPunished == [][Protected(peer) => /\ out' # "discourage"
                                                /\ (out' # out => lastRes'.eff = "violation")]_vars
\* 3. any other peer whose full block is invalid, or whose headers carry invalid proof of work, is disconnected, and discouraged
\*    unless its address is local
InvalidBlockPunished == [][\A c \in Classes : (lastAct' = <<"recv", c>> /\ out = "none" /\ MustPunishClass(c) /\ ~Protected(peer))
                                              => out' = (IF peer.local THEN "disconnect" ELSE "discourage")]_vars
\* the flags handed to the replay agree with the sentences
FlagsOK == [][/\ (lastRes'.never => out' = out)
              /\ (lastRes'.must /\ out = "none" => out' # "none")]_vars

Proj == [peer |-> peer, mode |-> mode, out |-> out]
Emit == VFEdgeK(View0, Proj, lastAct', lastRes', View0', Proj')
====
