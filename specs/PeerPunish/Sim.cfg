\* sampled sequences of 3 messages for the replay
CONSTANTS
  MaxLen = 3
  Conns = {"inbound", "outbound", "manual", "feeler", "blockrelay", "addrfetch"}
  Bools2 = {FALSE, TRUE}
INIT Init
NEXT Next
VIEW View0
INVARIANTS TypeOK
PROPERTIES TxNeverPunished ProtectedNeverPunished InvalidBlockPunished FlagsOK
ACTION_CONSTRAINT Emit
CHECK_DEADLOCK FALSE
