\* the whole decision table: every peer kind x node mode x message class (one transition each), and every second message of a peer
\* that delivered a valid block after announcing compact block support (high-bandwidth compact block state)
CONSTANTS
  MaxLen = 2
  Conns = {"inbound", "outbound", "manual", "feeler", "blockrelay", "addrfetch"}
  Bools2 = {FALSE, TRUE}
INIT Init
NEXT NextTable
VIEW View0
INVARIANTS TypeOK
PROPERTIES TxNeverPunished ProtectedNeverPunished InvalidBlockPunished FlagsOK
ACTION_CONSTRAINT Emit
CHECK_DEADLOCK FALSE
