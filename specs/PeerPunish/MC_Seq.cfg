\* all sequences of up to 3 messages (model checking only, nothing emitted)
CONSTANTS
  MaxLen = 3
  Conns = {"inbound", "outbound", "manual", "feeler", "blockrelay", "addrfetch"}
  Bools2 = {FALSE, TRUE}
INIT Init
NEXT Next
VIEW View0
INVARIANTS TypeOK
PROPERTIES TxNeverPunished ProtectedNeverPunished InvalidBlockPunished FlagsOK
CHECK_DEADLOCK FALSE
