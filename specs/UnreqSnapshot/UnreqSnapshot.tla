---- MODULE UnreqSnapshot ----
(* C58 on a node with two chainstates.  After an assumeutxo snapshot has been activated the node's active chain is the    *)
(* snapshot chain (tip at the snapshot base, height SnapH) while a second, historical chainstate validates the same       *)
(* chain from genesis in the background (tip bg).  The anti-DoS rule for unrequested blocks in AcceptBlock speaks about   *)
(* the ACTIVE tip: a block is stored unrequested only if its chain has at least the active tip's work and is at most      *)
(* KeepWindow above the active tip's height.  The background tip plays no role.                                           *)
(* One action per ProcessNewBlock call: AcceptBlockHeader (header index), the storage decision of AcceptBlock,            *)
(* ReceivedBlockTransactions, then ActivateBestChain of the active and of the historical chainstate (the latter only      *)
(* walks towards the snapshot base: TryAddBlockIndexCandidate / TargetBlock).                                             *)
(*                                                                                                                         *)
(* Fixed universe of deliverable blocks (regtest: constant difficulty, work = height):                                    *)
(*   1 = main chain block at height 1          (header known, data forgotten when the snapshot was loaded)                *)
(*   2 = main chain block at height 2          (idem)                                                                     *)
(*   3 = fork block at height 2 on top of 1    (new header, less work than the active tip)                                *)
(*   4 = fork block at height SnapH on top of main block SnapH-1  (new header, same work as the active tip)              *)
(*   5 = block at height SnapH+1 on top of the snapshot base                                                              *)
(*   6 = block at height SnapH+2 on top of 5   (its parent's header is unknown until 5 has been delivered)                *)
EXTENDS Naturals, FiniteSets, Sequences, TLC, VF
CONSTANTS Blocks, KeepWindow, SnapH, MaxSteps

Height(b) == CASE b = 1 -> 1 [] b = 2 -> 2 [] b = 3 -> 2 [] b = 4 -> SnapH [] b = 5 -> SnapH + 1 [] b = 6 -> SnapH + 2
Parent(b) == CASE b = 2 -> 1 [] b = 3 -> 1 [] b = 6 -> 5 [] OTHER -> 0     \* 0: a main-chain block whose header the node has
Work(b) == Height(b)

VARIABLES hdr,      \* deliverable blocks whose header is in the block index
          data,     \* blocks stored on disk (BLOCK_HAVE_DATA)
          failed,   \* blocks marked invalid
          act,      \* height of the active (snapshot) chainstate's tip
          bg,       \* height of the historical chainstate's tip
          reqd,     \* ghost: blocks that were ever delivered as requested
          nsteps, lastAct, lastRes
vars == <<hdr, data, failed, act, bg, reqd, nsteps, lastAct, lastRes>>

Init == /\ hdr = {1, 2} /\ data = {} /\ failed = {} /\ act = SnapH /\ bg = 0 /\ reqd = {} /\ nsteps = 0
        /\ lastAct = <<"init">> /\ lastRes = "none"

\* the rule of AcceptBlock for a block the node did not ask for (minimum chain work is 0 on regtest)
StoreAllowedAt(a, b) == Work(b) >= a /\ Height(b) <= a + KeepWindow
\* ActivateBestChain of the snapshot chainstate: connect 5, then 6, as far as the data is there
ActAfter(a, D) == IF a = SnapH /\ 5 \in D THEN (IF 6 \in D THEN SnapH + 2 ELSE SnapH + 1)
                  ELSE IF a = SnapH + 1 /\ 6 \in D THEN SnapH + 2 ELSE a
\* ActivateBestChain of the historical chainstate: only ancestors of the snapshot base are candidates
BgAfter(g, D) == IF g = 0 /\ 1 \in D THEN (IF 2 \in D THEN 2 ELSE 1)
                 ELSE IF g = 1 /\ 2 \in D THEN 2 ELSE g

Deliver(b, req) ==
    /\ nsteps < MaxSteps /\ nsteps' = nsteps + 1
    /\ lastAct' = <<"block", b, req>>
    /\ failed' = failed
    /\ reqd' = IF req THEN reqd \cup {b} ELSE reqd
    /\ IF Parent(b) # 0 /\ Parent(b) \notin hdr
       THEN /\ UNCHANGED <<hdr, data, act, bg>> /\ lastRes' = "noprev"
       ELSE LET store == b \notin data /\ (req \/ StoreAllowedAt(act, b))
                D == IF store THEN data \cup {b} ELSE data IN
            /\ hdr' = hdr \cup {b} /\ data' = D
            /\ act' = ActAfter(act, D) /\ bg' = BgAfter(bg, D)
            /\ lastRes' = IF b \in data THEN "have" ELSE IF store THEN "stored" ELSE "dropped"

Next == \E b \in Blocks, req \in BOOLEAN : Deliver(b, req)
Spec == Init /\ [][Next]_vars

\* ---- C58 -----------------------------------------------------------------------------------------------------------
\* stated over (pre-state, action, post-state) without reference to the model's own decision
UnrequestedOKIn(a0, D0, b, D1, F1) == (b \notin D0 /\ ~(Work(b) >= a0 /\ Height(b) <= a0 + KeepWindow)) => (b \notin D1 /\ b \notin F1)
RequestedOKIn(H0, b, D1) == (Parent(b) = 0 \/ Parent(b) \in H0) => b \in D1
OnlyDeliveredIn(D0, b, D1) == D0 \subseteq D1 /\ D1 \subseteq D0 \cup {b}
C58Step == [][/\ (lastAct'[1] = "block" /\ ~lastAct'[3]) => UnrequestedOKIn(act, data, lastAct'[2], data', failed')
              /\ (lastAct'[1] = "block" /\ lastAct'[3]) => RequestedOKIn(hdr, lastAct'[2], data')
              /\ lastAct'[1] = "block" => OnlyDeliveredIn(data, lastAct'[2], data')]_vars
\* what it is for: blocks nobody asked for and that have less work than the snapshot tip never occupy storage
StorageBound == \A b \in data \ reqd : Work(b) >= SnapH
NothingFailed == failed = {}
TipsSane == /\ act \in SnapH..SnapH + 2 /\ bg \in 0..2
            /\ \A h \in 1..2 : bg >= h => h \in data
            /\ act >= SnapH + 1 => 5 \in data
            /\ act >= SnapH + 2 => 6 \in data

Proj == [obs |-> [hdr |-> hdr, data |-> data, failed |-> failed, act |-> act, bg |-> bg]]
View0 == <<hdr, data, failed, act, bg, reqd, nsteps>>     \* model checking: everything but the action labels
View1 == <<hdr, data, failed, act, bg>>                   \* graph for replay: the node's state only
Emit == VFEdgeK(View1, Proj, lastAct', lastRes', View1', Proj')
====
