CONSTANTS
  Blocks = {1, 2, 3, 4, 5, 6}
  KeepWindow = 288
  SnapH = 110
  MaxSteps = 5
INIT InitObs
NEXT Stutter
INVARIANTS ObsUnrequestedOK ObsRequestedOK ObsOnlyDelivered ObsNothingFailed
CHECK_DEADLOCK FALSE
