CONSTANTS
  Blocks = {1, 3, 4, 5}
  KeepWindow = 288
  SnapH = 110
  MaxSteps = 1000000
INIT Init
NEXT Next
VIEW View1
INVARIANTS NothingFailed TipsSane
ACTION_CONSTRAINT Emit
CHECK_DEADLOCK FALSE
