---- MODULE UnreqSnapshotObs ----
(* INV-mode verdicts (DESIGN 8): each line of env OBS is {pre: {hdr, data, failed, act, bg}, act: ["block", b, req],       *)
(* post: {hdr, data, failed, act, bg}} with pre = the model state the node still agreed with and post = what the node      *)
(* showed after the step.  TLC evaluates the C58 clauses on (pre, act, post).                                              *)
EXTENDS UnreqSnapshot, Json, IOUtils
ObsLines == ndJsonDeserialize(IOEnv.OBS)
VARIABLE idx
ToSet(s) == {s[i] : i \in 1..Len(s)}
InitObs == /\ idx \in 1..Len(ObsLines)
           /\ LET L == ObsLines[idx] IN
              /\ hdr = ToSet(L.pre.hdr) /\ data = ToSet(L.pre.data) /\ failed = ToSet(L.pre.failed) /\ act = L.pre.act /\ bg = L.pre.bg
           /\ reqd = {} /\ nsteps = 0 /\ lastAct = <<"observed", idx>> /\ lastRes = "none"
Stutter == UNCHANGED <<vars, idx>>
Post == ObsLines[idx].post
Act == ObsLines[idx].act
PD == ToSet(Post.data)  PF == ToSet(Post.failed)
ObsUnrequestedOK == ~Act[3] => UnrequestedOKIn(act, data, Act[2], PD, PF)
ObsRequestedOK == Act[3] => RequestedOKIn(hdr, Act[2], PD)
ObsOnlyDelivered == OnlyDeliveredIn(data, Act[2], PD)
ObsNothingFailed == PF = {}
====
