CONSTANTS
  Blocks = {1, 2, 3, 4, 5, 6}
  KeepWindow = 288
  SnapH = 110
  MaxSteps = 5
INIT Init
NEXT Next
VIEW View0
INVARIANTS StorageBound NothingFailed TipsSane
PROPERTY C58Step
CHECK_DEADLOCK FALSE
