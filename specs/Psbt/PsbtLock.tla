---- MODULE PsbtLock ----
(***************************************************************************)
(* C47, locktime table (engine E4): every combination of                    *)
(* (none / time / height / both) for up to MaxIn inputs over the BIP370     *)
(* value domain x fallback locktime x sequence pattern, for PSBT version 2, *)
(* and the version-0 shapes.  TLC proves the fold of ComputeTimeLock equal  *)
(* to the declarative BIP370 rule, and emits one row per shape with the     *)
(* predicted ComputeTimeLock / GetUnsignedTx results.                       *)
(***************************************************************************)
EXTENDS Psbt, VF
CONSTANTS MaxIn, HRanks, TRanks, FbRanks, SeqPats, NarrowPats
VARIABLES ver, fb, lk, sp, row
vars == <<ver, fb, lk, sp, row>>

InOpts == {[t |-> a, h |-> b] : a \in {0} \cup TRanks, b \in {0} \cup HRanks}
\* sequence patterns: "none" (absent everywhere), "set" (0xfffffffe everywhere), "mix" (absent / 0 / 0xfffffffe by position)
SeqOf(pat, i) == IF pat = "none" THEN 0 ELSE IF pat = "set" THEN 2 ELSE (IF i = 1 THEN 0 ELSE IF i = 2 THEN 1 ELSE 2)

\* row = FALSE: a seed state (few of them, so that the TLC workers share the enumeration); row = TRUE: one row of the table
Init == /\ ver \in {0, 2} /\ fb \in FbRanks /\ sp \in SeqPats /\ lk = <<>> /\ row = FALSE
        /\ ver = 0 => (fb # 0 /\ sp = "set")
Next == /\ ~row /\ row' = TRUE /\ UNCHANGED <<ver, fb, sp>>
        /\ lk' \in UNION {[1..n -> InOpts] : n \in 0..MaxIn}
        /\ ver = 0 => \A i \in 1..Len(lk') : lk'[i].t = 0 /\ lk'[i].h = 0
        /\ (ver = 2 /\ sp \in NarrowPats) => Len(lk') <= 1     \* these sequence patterns only with 0-1 inputs

NoF == [k \in {} |-> 0]
P == [ver |-> ver, txver |-> 2, tx |-> 1, fb |-> fb, mod |-> 0, g |-> NoF,
      ins |-> [i \in 1..Len(lk) |-> [seq |-> SeqOf(sp, i), t |-> lk[i].t, h |-> lk[i].h, f |-> NoF]],
      outs |-> <<[f |-> NoF]>>]
Rev(p) == [p EXCEPT !.ins = [i \in 1..Len(p.ins) |-> p.ins[Len(p.ins) + 1 - i]]]

\* the code's fold computes the BIP370 rule
FoldIsBip370 == row => (BipValid(P) /\ LockProc(P) = LockDecl(P))
\* ... which does not depend on the order of the inputs
OrderIrrelevant == row => (LockProc(Rev(P)) = LockProc(P))
\* statement-level readings of the rule
Req == {i \in 1..Len(lk) : lk[i].t # 0 \/ lk[i].h # 0}
HeightPreferred == (row /\ ver = 2 /\ Req # {} /\ \A i \in Req : lk[i].h # 0) => (LockProc(P).ok /\ LockProc(P).v \in HRanks)
UndeterminedOnConflict ==
  (row /\ ver = 2) => (~LockProc(P).ok <=> \E i, j \in Req : lk[i].h = 0 /\ lk[j].t = 0)
FallbackOtherwise == (row /\ (ver = 0 \/ Req = {})) => LockProc(P) = [ok |-> TRUE, v |-> IF fb = 0 THEN ZeroR ELSE fb]
\* a determinate lock is at least every requirement of its kind
LockCoversRequirements ==
  LET l == LockProc(P) IN
  (row /\ ver = 2 /\ l.ok /\ Req # {}) =>
     IF l.v \in HRanks THEN \A i \in Req : lk[i].h # 0 /\ lk[i].h <= l.v
     ELSE \A i \in Req : lk[i].t # 0 /\ lk[i].t <= l.v

EmitRow == row =>
  LET l == LockProc(P)
      u == UTx(P)
  IN VFRow([t |-> "lock", p |-> J(P),
            lock |-> [ok |-> l.ok, v |-> ValStr(l.v)],
            utx |-> [ok |-> u.ok, txver |-> u.txver, lock |-> ValStr(u.lock), seqs |-> [i \in 1..Len(lk) |-> SeqStr(u.seqs[i])]],
            dec |-> Decodable(P)])
====
