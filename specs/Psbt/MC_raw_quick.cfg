CONSTANTS
  Keys = {"wutxo", "psig.k1", "sighash", "redeem", "hd.k1", "sha.h1", "tapkeysig", "unk.a", "fsig", "fwit"}
  MaxKeys = 3
INIT Init
NEXT Next
INVARIANTS CanonStable DropsOnlyWhenFinal EmitRow
CHECK_DEADLOCK FALSE
