---- MODULE PsbtMerge ----
(***************************************************************************)
(* C47, combine table (engine E4).  A scenario is a base PSBT whose fields  *)
(* are bundled into groups; a row assigns every group to a non-empty set of *)
(* holders among NP parts (so the parts are conflict-free by construction   *)
(* and a field may be present in several parts).  TLC enumerates every      *)
(* assignment, checks the clauses of C47 about Merge on the parts of every  *)
(* row, and emits the row with the predicted outcome of CombinePSBTs for    *)
(* every order of the parts.                                                *)
(***************************************************************************)
EXTENDS Psbt, VF
CONSTANTS Scen2, Scen3, Narrow     \* scenarios split into 2 / 3 parts; scenarios with single holders
VARIABLES sc, np, h1, hold, alt, row, parts, res, uni
vars == <<sc, np, h1, hold, alt, row, parts, res, uni>>

S(scope, key, v) == [sc |-> scope, k |-> key, v |-> v]
\* special keys are record members, not entries of f
Special == {"@fb", "@mod", "@seq", "@t", "@h"}

Scen == <<
  \* 1: required locktimes split over the parts; fallback equal to the time value
  [ver |-> 2, nin |-> 2, groups |-> << {S("i1", "@t", 5), S("i2", "@t", 5)}, {S("i1", "@h", 2)}, {S("i2", "@h", 4)}, {S("g", "@fb", 5)} >>],
  \* 2: required locktimes split over the parts; fallback equal to the (common) height value
  [ver |-> 2, nin |-> 2, groups |-> << {S("i1", "@h", 4)}, {S("i2", "@h", 4), S("i2", "@t", 6)}, {S("i1", "@t", 5)}, {S("g", "@fb", 4)} >>],
  \* 3: partial signatures, utxos and sequences of two inputs
  [ver |-> 2, nin |-> 2, groups |-> << {S("i1", "psig.k1", 1), S("i2", "psig.k1", 2)}, {S("i1", "psig.k2", 1), S("i2", "nwutxo", 1)},
                                      {S("i1", "wutxo", 1), S("i1", "@seq", 2), S("i2", "@seq", 1)} >>],
  \* 4: sighash type, scripts, key paths
  [ver |-> 2, nin |-> 1, groups |-> << {S("i1", "sighash", 1)}, {S("i1", "redeem", 1), S("i1", "wscript", 2)}, {S("i1", "hd.k1", 1)} >>],
  \* 5: preimages, unknown
  [ver |-> 2, nin |-> 1, groups |-> << {S("i1", "hd.k2", 1), S("i1", "rip.h1", 1)}, {S("i1", "sha.h1", 1), S("i1", "h160.h1", 2)},
                                      {S("i1", "h256.h1", 1), S("i1", "unk.a", 1)} >>],
  \* 6: final scriptSig / scriptWitness
  [ver |-> 2, nin |-> 1, groups |-> << {S("i1", "fsig", 1)}, {S("i1", "fwit", 1)}, {S("i1", "unk.b", 2), S("i1", "prop.a", 1)} >>],
  \* 7: taproot
  [ver |-> 2, nin |-> 1, groups |-> << {S("i1", "tapkeysig", 1), S("i1", "tapikey", 1)}, {S("i1", "tapssig.k1", 1), S("i1", "tapmroot", 2)},
                                      {S("i1", "tapleaf.c1", 1), S("i1", "tapbip32.k1", 1)} >>],
  \* 8: the same leaf script under two control blocks (two distinct PSBT_IN_TAP_LEAF_SCRIPT keys)
  [ver |-> 2, nin |-> 1, groups |-> << {S("i1", "tapleaf.c1", 1)}, {S("i1", "tapleaf.c2", 1)}, {S("i1", "unk.a", 2)} >>],
  \* 9: musig2 (participants; nonces / partial signatures of two participants of one aggregate)
  [ver |-> 2, nin |-> 1, groups |-> << {S("i1", "musigpart.a1", 1), S("i1", "prop.b", 1)}, {S("i1", "musignonce.a1p1", 1), S("i1", "musigpsig.a1p1", 1)},
                                      {S("i1", "musignonce.a1p2", 2)} >>],
  \* 10: output fields
  [ver |-> 2, nin |-> 1, groups |-> << {S("o1", "redeem", 1), S("o1", "wscript", 1)}, {S("o1", "hd.k1", 1), S("o1", "tapikey", 2), S("o1", "taptree", 1)},
                                      {S("o1", "tapbip32.k1", 1), S("o1", "musigpart.a1", 1), S("o1", "prop.a", 1), S("o1", "unk.a", 1)} >>],
  \* 11: global fields
  [ver |-> 2, nin |-> 1, groups |-> << {S("g", "xpub.x1", 1)}, {S("g", "xpub.x2", 2), S("g", "prop.a", 1)}, {S("g", "unk.a", 1), S("g", "@mod", 6)} >>],
  \* 12: version 0
  [ver |-> 0, nin |-> 2, groups |-> << {S("i1", "psig.k1", 1), S("i2", "psig.k2", 1)}, {S("i1", "nwutxo", 1), S("i2", "wutxo", 1)},
                                      {S("o1", "hd.k1", 1), S("g", "unk.a", 1), S("i1", "sighash", 2)} >>],
  \* 13: two entries of every map-like input field in different groups (a merge that overwrites instead of uniting loses one)
  [ver |-> 2, nin |-> 1, groups |-> <<
      {S("i1", "hd.k1", 1), S("i1", "rip.h1", 1), S("i1", "sha.h1", 1), S("i1", "h160.h1", 1), S("i1", "h256.h1", 1), S("i1", "tapssig.k1", 1),
       S("i1", "tapbip32.k1", 1), S("i1", "musigpart.a1", 1), S("i1", "musigpsig.a1p1", 1), S("i1", "prop.a", 1), S("i1", "unk.a", 1), S("i1", "tapleaf.c1", 1)},
      {S("i1", "hd.k2", 2), S("i1", "rip.h2", 2), S("i1", "sha.h2", 2), S("i1", "h160.h2", 2), S("i1", "h256.h2", 2), S("i1", "tapssig.k2", 2),
       S("i1", "tapbip32.k2", 2), S("i1", "musigpart.a2", 2), S("i1", "musigpsig.a1p2", 2), S("i1", "prop.b", 2), S("i1", "unk.b", 2), S("i1", "tapleaf.c2", 2)},
      {S("i1", "psig.k1", 1)} >>],
  \* 14: the same for output and global fields
  [ver |-> 2, nin |-> 1, groups |-> <<
      {S("o1", "hd.k1", 1), S("o1", "tapbip32.k1", 1), S("o1", "musigpart.a1", 1), S("o1", "prop.a", 1), S("o1", "unk.a", 1), S("g", "prop.a", 1), S("g", "unk.a", 1)},
      {S("o1", "hd.k2", 2), S("o1", "tapbip32.k2", 2), S("o1", "musigpart.a2", 2), S("o1", "prop.b", 2), S("o1", "unk.b", 2), S("g", "prop.b", 2), S("g", "unk.b", 2)},
      {S("g", "xpub.x1", 1)} >>],
  \* 15 (thorough): every required locktime and the fallback on its own
  [ver |-> 2, nin |-> 2, groups |-> << {S("i1", "@t", 5)}, {S("i2", "@t", 6)}, {S("i1", "@h", 4)}, {S("i2", "@h", 2)}, {S("g", "@fb", 6)} >>]
>>

Perms2 == << <<1, 2>>, <<2, 1>> >>
Perms3 == << <<1, 2, 3>>, <<1, 3, 2>>, <<2, 1, 3>>, <<2, 3, 1>>, <<3, 1, 2>>, <<3, 2, 1>> >>
Perms == IF np = 2 THEN Perms2 ELSE Perms3

\* row = FALSE: a seed state (few of them, so that the TLC workers share the enumeration); row = TRUE: one row of the table
\* (the holders of the first group are chosen in the seed, the rest in the step)
Init == /\ np \in {2, 3} /\ sc \in (IF np = 2 THEN Scen2 ELSE Scen3) /\ hold = <<>> /\ row = FALSE /\ parts = <<>> /\ res = <<>> /\ uni = <<>>
        /\ h1 \in (SUBSET (1..np)) \ {{}}
        /\ alt \in 0..np              \* alt = k > 0: part k is a different transaction
        /\ alt # 0 => np = 2

Get(X, scope, key) == IF \E s \in X : s.sc = scope /\ s.k = key THEN (CHOOSE s \in X : s.sc = scope /\ s.k = key).v ELSE 0
FOf(X, scope) == LET ks == {s.k : s \in {x \in X : x.sc = scope /\ x.k \notin Special}} IN [k \in ks |-> Get(X, scope, k)]
IName(i) == IF i = 1 THEN "i1" ELSE "i2"
Build(scn, X, tag) ==
  [ver |-> scn.ver, txver |-> 2, tx |-> tag,
   fb |-> IF scn.ver = 0 THEN 2 ELSE Get(X, "g", "@fb"), mod |-> Get(X, "g", "@mod"), g |-> FOf(X, "g"),
   ins |-> [i \in 1..scn.nin |-> [seq |-> IF scn.ver = 0 THEN 2 ELSE Get(X, IName(i), "@seq"),
                                  t |-> Get(X, IName(i), "@t"), h |-> Get(X, IName(i), "@h"), f |-> FOf(X, IName(i))]],
   outs |-> <<[f |-> FOf(X, "o1")]>>]
SlotsOf(hd, k) == UNION {Scen[sc].groups[j] : j \in {j \in 1..Len(Scen[sc].groups) : k \in hd[j]}}
\* scenarios in Narrow: every group but the first has exactly one holder
Holders == IF sc \in Narrow THEN {{k} : k \in 1..np} ELSE (SUBSET (1..np)) \ {{}}
\* parts, res (CombinePSBTs of the parts in every order) and uni (their field-wise union) are functions of the row; they are
\* kept in variables only so that TLC computes them once per row
Next == /\ ~row /\ row' = TRUE /\ UNCHANGED <<sc, np, alt, h1>>
        /\ \E rest \in [2..Len(Scen[sc].groups) -> Holders] :
              hold' = [j \in 1..Len(Scen[sc].groups) |-> IF j = 1 THEN h1 ELSE rest[j]]
        /\ parts' = [k \in 1..np |-> Build(Scen[sc], SlotsOf(hold', k), IF alt = k THEN 2 ELSE 1)]
        /\ res' = [n \in 1..Len(Perms) |-> Combine(parts', Perms[n])]
        /\ uni' = UnionAll(parts')
Base == Build(Scen[sc], UNION {Scen[sc].groups[j] : j \in 1..Len(Scen[sc].groups)}, 1)

Ids == [k \in 1..np |-> IdOf(parts[k])]
AllSameI(ids) == \A j, k \in 1..np : ids[j].ok /\ ids[j] = ids[k]
AllSame == AllSameI(Ids)
\* the identity survives every partial union (it need not: required locktimes of both kinds can flip the computed locktime)
RECURSIVE USet(_)
USet(K) == LET k == CHOOSE k \in K : TRUE IN IF K = {k} THEN parts[k] ELSE Union2(USet(K \ {k}), parts[k])
IdStable == LET id1 == IdOf(parts[1]) IN id1.ok /\ \A K \in (SUBSET (1..np)) \ {{}} : IdOf(USet(K)) = id1
OkBy == [n \in 1..Len(Perms) |-> res[n].ok]
\* all parts are the same transaction and conflict-free, and still some order of combining fails
Flip == AllSame /\ \E n \in 1..Len(Perms) : ~res[n].ok

(* ------------------------------------------------------------ the clauses of C47 about combining *)
PartsConflictFree == row => \A j, k \in 1..np : ConflictFree(parts[j], parts[k])
\* "combining a PSBT with itself changes nothing"
Idempotent == row => \A k \in 1..np : LockProc(parts[k]).ok => Merge(parts[k], parts[k]) = [ok |-> TRUE, p |-> parts[k]]
\* "... gives the same result in any order": commutative, associative
Commutative == row => \A j, k \in 1..np : j < k =>
                  LET a == Merge(parts[j], parts[k])
                      b == Merge(parts[k], parts[j])
                  IN a.ok = b.ok /\ a.ok = SameTx(parts[j], parts[k]) /\ (a.ok => a.p = b.p)
Associative == row => \A i, j, k \in 1..np : (np = 2 \/ (i # j /\ j # k /\ i # k)) =>
                  LET ab == Merge(parts[i], parts[j])
                      bc == Merge(parts[j], parts[k])
                      l == Merge(ab.p, parts[k])
                      r == Merge(parts[i], bc.p)
                  IN (ab.ok /\ bc.ok /\ l.ok /\ r.ok) => l.p = r.p
\* every order that succeeds yields the field-wise union, which contains every field of every operand
ResultIsUnion == row => /\ \A n \in 1..Len(Perms) : res[n].ok => res[n].p = uni
                        /\ \A k \in 1..np : Contains(uni, parts[k])
\* and every order succeeds when the parts are one transaction, provided the union keeps the identity
AnyOrder == (row /\ AllSame /\ IdStable) => \A n \in 1..Len(Perms) : res[n].ok
\* nothing is invented: splitting the base and combining gives the base back (flags excepted: they are ANDed)
UnionIsBase == (row /\ alt = 0) => [uni EXCEPT !.mod = 0] = [Base EXCEPT !.mod = 0]
\* different transactions never combine
DifferentTxRefused == (row /\ alt # 0) => \A n \in 1..Len(Perms) : ~res[n].ok
\* serialize -> decode is stable
CanonStable == row => \A k \in 1..np : Canon(Canon(parts[k])) = Canon(parts[k])

EmitRow == row =>
  VFRow([t |-> "merge", sc |-> sc, np |-> np, alt |-> alt,
         parts |-> [k \in 1..np |-> J(parts[k])],
         lockok |-> [k \in 1..np |-> LockProc(parts[k]).ok],
         orders |-> Perms, ok |-> OkBy,
         union |-> J(uni), cunion |-> J(Canon(uni)),
         cparts |-> [k \in 1..np |-> J(Canon(parts[k]))],
         allsame |-> AllSame, flip |-> Flip])
====
