CONSTANTS
  Sizes = {5, 252, 253, 254, 65535, 65536}
  Counts = {1, 2, 7, 8, 62, 63, 252, 253, 254, 16382, 16383, 65535, 65536}
INIT Init
NEXT Next
INVARIANTS WidthBoundaries EntryCoversPayload Monotone EmitRow
CHECK_DEADLOCK FALSE
