---- MODULE PsbtSize ----
(***************************************************************************)
(* C47, framing table (engine E4): every variable-length key and value of   *)
(* the PSBT maps at the width boundaries of the compact-size length prefix  *)
(* (1 byte below 253, 3 bytes up to 65535, 5 bytes from 65536).             *)
(*                                                                         *)
(* A PSBT map entry is <CS(keylen)> <key> <CS(vallen)> <value>; several     *)
(* values are themselves framed (a witness stack, a taproot tree, a list of *)
(* leaf hashes, a key path).  The specification gives, for one field class  *)
(* and one size n (bytes of payload, or number of elements), the lengths    *)
(* keylen, vallen and the length of the whole entry.  The harness assembles *)
(* exactly those bytes with its own writer (independently of the            *)
(* serializer under test), and the clause is: the decoder accepts them, the *)
(* re-encoding has the same length, decodes to the same content and is      *)
(* stable.                                                                  *)
(***************************************************************************)
EXTENDS Integers, Sequences, FiniteSets, TLC, VF
CONSTANTS Sizes,          \* payload sizes in bytes for byte-sized classes
          Counts          \* element counts for counted classes (additionally bounded per class)

CS(n) == IF n < 253 THEN 1 ELSE IF n <= 65535 THEN 3 ELSE 5

\* classes: sc = map (g / i / o), dim = what n measures ("bytes" or "count"), maxn = the largest n the class admits
C(sc, cls, dim, maxn) == [sc |-> sc, cls |-> cls, dim |-> dim, maxn |-> maxn]
Classes == {
  C("i", "redeem", "bytes", 70000), C("i", "wscript", "bytes", 70000), C("i", "fsig", "bytes", 70000),
  C("i", "fwit.item", "bytes", 70000), C("i", "fwit.count", "count", 70000),
  C("i", "sha.pre", "bytes", 70000), C("i", "rip.pre", "bytes", 70000), C("i", "h160.pre", "bytes", 70000), C("i", "h256.pre", "bytes", 70000),
  C("i", "wutxo.script", "bytes", 70000), C("i", "nwutxo.script", "bytes", 70000),
  C("i", "tapleaf.script", "bytes", 70000), C("i", "tapleaf.cb", "count", 8),
  C("i", "tapbip32.hashes", "count", 300), C("i", "tapbip32.path", "count", 20000), C("i", "hd.path", "count", 20000),
  C("i", "musigpart", "count", 300),
  C("i", "prop.id", "bytes", 70000), C("i", "prop.kd", "bytes", 70000), C("i", "prop.val", "bytes", 70000),
  C("i", "unk.key", "bytes", 70000), C("i", "unk.val", "bytes", 70000),
  C("o", "redeem", "bytes", 70000), C("o", "wscript", "bytes", 70000), C("o", "hd.path", "count", 20000),
  C("o", "taptree.script", "bytes", 70000), C("o", "taptree.leaves", "count", 300),
  C("o", "tapbip32.hashes", "count", 300), C("o", "musigpart", "count", 300),
  C("o", "prop.id", "bytes", 70000), C("o", "prop.val", "bytes", 70000), C("o", "unk.key", "bytes", 70000), C("o", "unk.val", "bytes", 70000),
  C("g", "xpub.path", "count", 20000), C("g", "prop.id", "bytes", 70000), C("g", "prop.val", "bytes", 70000),
  C("g", "unk.key", "bytes", 70000), C("g", "unk.val", "bytes", 70000) }

\* key length (type byte included) and value length of the entry, by class
KeyLen(cls, n) ==
  CASE cls \in {"sha.pre", "h256.pre"} -> 33
    [] cls \in {"rip.pre", "h160.pre"} -> 21
    [] cls = "tapleaf.script" -> 34
    [] cls = "tapleaf.cb" -> 1 + 33 + 32 * n                    \* control block with n path elements
    [] cls \in {"tapbip32.hashes", "tapbip32.path"} -> 33
    [] cls \in {"hd.path", "musigpart"} -> 34
    [] cls = "xpub.path" -> 79
    [] cls = "prop.id" -> 1 + CS(n) + n + 1 + 1                 \* 0xFC <identifier> <subtype> <1 byte of key data>
    [] cls = "prop.kd" -> 1 + 1 + 2 + 1 + n
    [] cls = "prop.val" -> 1 + 1 + 2 + 1 + 1
    [] cls = "unk.key" -> n
    [] cls = "unk.val" -> 2
    [] OTHER -> 1
ValLen(cls, n) ==
  CASE cls \in {"redeem", "wscript", "fsig", "sha.pre", "rip.pre", "h160.pre", "h256.pre", "prop.val", "unk.val"} -> n
    [] cls = "fwit.item" -> CS(2) + (CS(n) + n) + (CS(1) + 1)     \* a stack of two items: n bytes and 1 byte
    [] cls = "fwit.count" -> CS(n) + n * (CS(1) + 1)              \* a stack of n items of 1 byte
    [] cls = "wutxo.script" -> 8 + CS(n) + n
    [] cls = "nwutxo.script" -> 4 + 1 + 41 + 1 + (8 + CS(n) + n) + 4   \* version, 1 input without scriptSig, 1 output, locktime
    [] cls = "tapleaf.script" -> n + 1                            \* script and leaf version
    [] cls = "tapleaf.cb" -> 2
    [] cls = "tapbip32.hashes" -> CS(n) + 32 * n + 4 + 4          \* n leaf hashes, fingerprint, one path element
    [] cls = "tapbip32.path" -> CS(1) + 32 + 4 + 4 * n
    [] cls \in {"hd.path", "xpub.path"} -> 4 + 4 * n              \* fingerprint and n path elements
    [] cls = "musigpart" -> 33 * n
    [] cls = "taptree.script" -> 1 + 1 + CS(n) + n                \* one leaf: depth, leaf version, script
    [] cls = "taptree.leaves" -> n * (1 + 1 + CS(1) + 1)          \* n leaves with 1-byte scripts
    [] cls \in {"prop.id", "prop.kd", "unk.key"} -> 1
EntryLen(cls, n) == CS(KeyLen(cls, n)) + KeyLen(cls, n) + CS(ValLen(cls, n)) + ValLen(cls, n)

VARIABLES ver, c, n, row
vars == <<ver, c, n, row>>
Dom(cl) == {x \in (IF cl.dim = "bytes" THEN Sizes ELSE Counts) : x <= cl.maxn /\ x >= (IF cl.cls = "unk.key" THEN 2 ELSE 1)}
Init == ver \in {0, 2} /\ c \in Classes /\ n = 0 /\ row = FALSE
Next == ~row /\ row' = TRUE /\ UNCHANGED <<ver, c>> /\ n' \in Dom(c)

\* the prefix widths change exactly at 253 and 65536, and an entry is longer than its payload
WidthBoundaries == CS(252) = 1 /\ CS(253) = 3 /\ CS(65535) = 3 /\ CS(65536) = 5
EntryCoversPayload == row => (EntryLen(c.cls, n) > KeyLen(c.cls, n) + ValLen(c.cls, n) /\ KeyLen(c.cls, n) >= 1)
\* growing the payload by one byte / element grows the entry by that much plus the widening of the prefixes (never shrinks)
Monotone == row => EntryLen(c.cls, n + 1) > EntryLen(c.cls, n)

EmitRow == row => VFRow([t |-> "size", ver |-> ver, sc |-> c.sc, cls |-> c.cls, n |-> n,
                         keylen |-> KeyLen(c.cls, n), vallen |-> ValLen(c.cls, n), entry |-> EntryLen(c.cls, n)])
====
