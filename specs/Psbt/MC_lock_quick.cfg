CONSTANTS
  MaxIn = 3
  HRanks = {2, 4}
  TRanks = {5, 7}
  FbRanks = {0, 2, 5}
  SeqPats = {"none", "set", "mix"}
  NarrowPats = {"none", "set"}
INIT Init
NEXT Next
INVARIANTS FoldIsBip370 OrderIrrelevant HeightPreferred UndeterminedOnConflict FallbackOtherwise LockCoversRequirements EmitRow
CHECK_DEADLOCK FALSE
