CONSTANTS
  MaxIn = 3
  HRanks = {2, 3, 4}
  TRanks = {5, 6, 7}
  FbRanks = {0, 1, 2, 3, 4, 5, 6, 7}
  SeqPats = {"none", "set", "mix"}
  NarrowPats = {}
INIT Init
NEXT Next
INVARIANTS FoldIsBip370 OrderIrrelevant HeightPreferred UndeterminedOnConflict FallbackOtherwise LockCoversRequirements EmitRow
CHECK_DEADLOCK FALSE
