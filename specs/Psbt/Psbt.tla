---- MODULE Psbt ----
(***************************************************************************)
(* C47: partially signed transactions (src/psbt.h, src/psbt.cpp).           *)
(*                                                                         *)
(* A PSBT is the record                                                    *)
(*   [ver (0 or 2), txver, tx (tag standing for prevouts + outputs),        *)
(*    fb (fallback locktime), mod (tx-modifiable flags),                    *)
(*    g : Key -> Val (global xpub / proprietary / unknown),                 *)
(*    ins : Seq([seq, t, h, f : Key -> Val]), outs : Seq([f : Key -> Val])] *)
(* uint32 values are carried as ranks into a table of boundary values       *)
(* (TLC integers are 32 bit signed); rank 0 = absent (std::nullopt).        *)
(* Keys are the PSBT key-value pairs at the granularity of the serialized   *)
(* key (BIP174: type + key data), values 1..2 stand for two different       *)
(* concrete values; the harness concretises (key, value).                   *)
(*                                                                         *)
(* Operators: LockProc (the fold of ComputeTimeLock as the code does it),   *)
(* LockDecl (BIP370, declarative), UTx (GetUnsignedTx), IdOf (GetUniqueID), *)
(* Merge (PartiallySignedTransaction::Merge: same-transaction check, then   *)
(* field-wise union, the first operand wins), Canon (what a serialize ->    *)
(* decode round trip keeps).                                                *)
(***************************************************************************)
EXTENDS Integers, Sequences, FiniteSets, TLC

Vals == <<"0", "1", "2", "499999999", "500000000", "500000001", "4294967295">>
ZeroR == 1
HeightRanksAll == {2, 3, 4}      \* BIP370: 0 < height < 500000000
TimeRanksAll == {5, 6, 7}        \* BIP370: time >= 500000000
ValStr(r) == IF r = 0 THEN "none" ELSE Vals[r]
SeqVals == <<"0", "4294967294", "4294967295">>
SeqFinalR == 3
SeqStr(r) == IF r = 0 THEN "none" ELSE SeqVals[r]
MaxR(a, b) == IF a >= b THEN a ELSE b

(* ---------------------------------------------------------------- locktime *)
\* one iteration of the loop in ComputeTimeLock; tl / hl = 0 means "reset" (the optional lost its value)
LockStep(inp, tl, hl) ==
  LET onlyT == inp.t # 0 /\ inp.h = 0
      onlyH == inp.t = 0 /\ inp.h # 0
      fail  == (onlyT /\ tl = 0) \/ (onlyH /\ hl = 0)
      hl1   == IF onlyT THEN 0 ELSE hl
      tl1   == IF onlyH THEN 0 ELSE tl
      tl2   == IF inp.t # 0 /\ tl1 # 0 THEN MaxR(tl1, inp.t) ELSE tl1
      hl2   == IF inp.h # 0 /\ hl1 # 0 THEN MaxR(hl1, inp.h) ELSE hl1
  IN [fail |-> fail, tl |-> tl2, hl |-> hl2]

RECURSIVE LockFold(_, _, _, _)
LockFold(ins, i, tl, hl) ==
  IF i > Len(ins) THEN [ok |-> TRUE, tl |-> tl, hl |-> hl]
  ELSE LET s == LockStep(ins[i], tl, hl) IN
       IF s.fail THEN [ok |-> FALSE, tl |-> 0, hl |-> 0] ELSE LockFold(ins, i + 1, s.tl, s.hl)

FbOr0(p) == IF p.fb = 0 THEN ZeroR ELSE p.fb

\* procedural form: PartiallySignedTransaction::ComputeTimeLock
LockProc(p) ==
  IF p.ver < 2 THEN [ok |-> TRUE, v |-> FbOr0(p)]
  ELSE LET r == LockFold(p.ins, 1, ZeroR, ZeroR) IN
       IF ~r.ok THEN [ok |-> FALSE, v |-> 0]
       ELSE IF r.hl > ZeroR THEN [ok |-> TRUE, v |-> r.hl]
       ELSE IF r.tl > ZeroR THEN [ok |-> TRUE, v |-> r.tl]
       ELSE [ok |-> TRUE, v |-> FbOr0(p)]

\* declarative form: BIP370 "Determining Lock Time" (the statement of C47)
RECURSIVE MaxOver(_, _, _)
MaxOver(ins, S, kind) ==
  IF S = {} THEN 0
  ELSE LET i == CHOOSE i \in S : TRUE
           x == IF kind = "h" THEN ins[i].h ELSE ins[i].t
       IN MaxR(x, MaxOver(ins, S \ {i}, kind))
LockDecl(p) ==
  IF p.ver < 2 THEN [ok |-> TRUE, v |-> FbOr0(p)]
  ELSE LET R == {i \in 1..Len(p.ins) : p.ins[i].t # 0 \/ p.ins[i].h # 0} IN
       IF R = {} THEN [ok |-> TRUE, v |-> FbOr0(p)]
       ELSE IF \A i \in R : p.ins[i].h # 0 THEN [ok |-> TRUE, v |-> MaxOver(p.ins, R, "h")]
       ELSE IF \A i \in R : p.ins[i].t # 0 THEN [ok |-> TRUE, v |-> MaxOver(p.ins, R, "t")]
       ELSE [ok |-> FALSE, v |-> 0]

BipValid(p) == \A i \in 1..Len(p.ins) : p.ins[i].t \in {0} \cup TimeRanksAll /\ p.ins[i].h \in {0} \cup HeightRanksAll

\* GetUnsignedTx
UTx(p) ==
  LET l == LockProc(p) IN
  [ok |-> l.ok, txver |-> p.txver, lock |-> l.v,
   seqs |-> [i \in 1..Len(p.ins) |-> IF ~l.ok THEN 0 ELSE IF p.ins[i].seq = 0 THEN SeqFinalR ELSE p.ins[i].seq]]

\* GetUniqueID: the txid of the unsigned transaction, with the sequences zeroed for version 2
IdOf(p) ==
  LET u == UTx(p) IN
  [ok |-> u.ok, txver |-> p.txver, lock |-> u.lock, tx |-> p.tx, nin |-> Len(p.ins), nout |-> Len(p.outs),
   seqs |-> IF p.ver >= 2 THEN [i \in 1..Len(p.ins) |-> 0] ELSE u.seqs]

(* ---------------------------------------------------------------- merge *)
SameTx(p, q) == LET a == IdOf(p)
                    b == IdOf(q)
                IN a.ok /\ b.ok /\ a = b /\ p.ver = q.ver

FW(a, b) == IF a # 0 THEN a ELSE b                \* first wins; 0 = absent
Bit(m, k) == (m \div k) - 2 * (m \div (2 * k))     \* k = 1, 2, 4
\* m_tx_modifiable: 0 = absent, otherwise flags + 1. Inputs/outputs-modifiable are ANDed, has-SIGHASH_SINGLE is ORed;
\* an absent operand counts as 0.
MergeMod(a, b) ==
  IF a = 0 /\ b = 0 THEN 0
  ELSE LET x == IF a = 0 THEN 0 ELSE a - 1
           y == IF b = 0 THEN 0 ELSE b - 1
       IN 1 + Bit(x, 1) * Bit(y, 1) + 2 * Bit(x, 2) * Bit(y, 2) + 4 * (IF Bit(x, 4) + Bit(y, 4) > 0 THEN 1 ELSE 0)
MergeIn(a, b) == [seq |-> FW(a.seq, b.seq), t |-> FW(a.t, b.t), h |-> FW(a.h, b.h), f |-> a.f @@ b.f]
MergeOut(a, b) == [f |-> a.f @@ b.f]
\* the field-wise union itself (no precondition)
Union2(p, q) ==
  [p EXCEPT !.fb = FW(p.fb, q.fb), !.mod = MergeMod(p.mod, q.mod), !.g = p.g @@ q.g,
            !.ins = [i \in 1..Len(p.ins) |-> MergeIn(p.ins[i], q.ins[i])],
            !.outs = [i \in 1..Len(p.outs) |-> MergeOut(p.outs[i], q.outs[i])]]
\* PartiallySignedTransaction::Merge: refuses operands that are not the same transaction (and leaves *this untouched)
Merge(p, q) == IF SameTx(p, q) THEN [ok |-> TRUE, p |-> Union2(p, q)] ELSE [ok |-> FALSE, p |-> p]

\* CombinePSBTs(parts in the order o): copy the first, merge the others one by one
RECURSIVE CombFrom(_, _, _, _)
CombFrom(parts, o, i, acc) ==
  IF i > Len(o) THEN [ok |-> TRUE, p |-> acc]
  ELSE LET m == Merge(acc, parts[o[i]]) IN
       IF m.ok THEN CombFrom(parts, o, i + 1, m.p) ELSE [ok |-> FALSE, p |-> parts[o[1]]]
Combine(parts, o) == CombFrom(parts, o, 2, parts[o[1]])

RECURSIVE UnionFrom(_, _, _)
UnionFrom(parts, i, acc) == IF i > Len(parts) THEN acc ELSE UnionFrom(parts, i + 1, Union2(acc, parts[i]))
UnionAll(parts) == UnionFrom(parts, 2, parts[1])

\* conflict-free: a key present in both has the same value (the flag byte is not a keyed field: exempt)
FunCF(f, g) == \A k \in DOMAIN f \cap DOMAIN g : f[k] = g[k]
ValCF(a, b) == a = 0 \/ b = 0 \/ a = b
ConflictFree(p, q) ==
  /\ ValCF(p.fb, q.fb) /\ FunCF(p.g, q.g)
  /\ \A i \in 1..Len(p.ins) : /\ ValCF(p.ins[i].seq, q.ins[i].seq) /\ ValCF(p.ins[i].t, q.ins[i].t) /\ ValCF(p.ins[i].h, q.ins[i].h)
                              /\ FunCF(p.ins[i].f, q.ins[i].f)
  /\ \A i \in 1..Len(p.outs) : FunCF(p.outs[i].f, q.outs[i].f)

\* r contains every field of p (same key, same value); for the flag byte only its presence
FunIn(f, g) == \A k \in DOMAIN f : k \in DOMAIN g /\ g[k] = f[k]
ValIn(a, b) == a = 0 \/ a = b
Contains(r, p) ==
  /\ ValIn(p.fb, r.fb) /\ FunIn(p.g, r.g) /\ (p.mod # 0 => r.mod # 0)
  /\ \A i \in 1..Len(p.ins) : /\ ValIn(p.ins[i].seq, r.ins[i].seq) /\ ValIn(p.ins[i].t, r.ins[i].t) /\ ValIn(p.ins[i].h, r.ins[i].h)
                              /\ FunIn(p.ins[i].f, r.ins[i].f)
  /\ \A i \in 1..Len(p.outs) : FunIn(p.outs[i].f, r.outs[i].f)

(* ---------------------------------------------------------------- codec *)
\* input fields that PSBTInput::Serialize writes only while the input is not finalized
InNonFinalKeys == {"psig.k1", "psig.k2", "sighash", "redeem", "wscript", "hd.k1", "hd.k2", "rip.h1", "rip.h2", "sha.h1", "sha.h2",
                   "h160.h1", "h160.h2", "h256.h1", "h256.h2", "tapkeysig", "tapssig.k1", "tapssig.k2", "tapleaf.c1", "tapleaf.c2",
                   "tapbip32.k1", "tapbip32.k2", "tapikey", "tapmroot", "musigpart.a1", "musigpart.a2",
                   "musignonce.a1p1", "musignonce.a1p2", "musigpsig.a1p1", "musigpsig.a1p2"}
InAlwaysKeys == {"nwutxo", "wutxo", "fsig", "fwit", "prop.a", "prop.b", "unk.a", "unk.b"}
InFinal(inp) == "fsig" \in DOMAIN inp.f \/ "fwit" \in DOMAIN inp.f
Restrict(f, S) == [k \in DOMAIN f \cap S |-> f[k]]
CanonIn(inp) == IF InFinal(inp) THEN [inp EXCEPT !.f = Restrict(inp.f, InAlwaysKeys)] ELSE inp
\* the content that survives serialize -> decode
Canon(p) == [p EXCEPT !.ins = [i \in 1..Len(p.ins) |-> CanonIn(p.ins[i])]]
\* the decoder accepts the encoding of p
Decodable(p) ==
  IF p.ver = 2 THEN BipValid(p)
  ELSE /\ p.ver = 0 /\ p.fb # 0 /\ p.mod = 0
       /\ \A i \in 1..Len(p.ins) : p.ins[i].t = 0 /\ p.ins[i].h = 0 /\ p.ins[i].seq # 0

(* ---------------------------------------------------------------- JSON form *)
JIn(inp) == [seq |-> SeqStr(inp.seq), t |-> ValStr(inp.t), h |-> ValStr(inp.h), f |-> inp.f]
J(p) == [ver |-> p.ver, txver |-> p.txver, tx |-> p.tx, fb |-> ValStr(p.fb), mod |-> p.mod, g |-> p.g,
         ins |-> [i \in 1..Len(p.ins) |-> JIn(p.ins[i])], outs |-> p.outs]
====
