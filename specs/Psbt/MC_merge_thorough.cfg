CONSTANTS
  Scen2 = {1, 2, 3, 4, 5, 6, 7, 8, 9, 10, 11, 12, 13, 14, 15}
  Scen3 = {1, 2, 3, 4, 5, 6, 7, 8, 9, 10, 11, 12, 13, 14, 15}
  Narrow = {}
INIT Init
NEXT Next
INVARIANTS PartsConflictFree Idempotent Commutative Associative ResultIsUnion AnyOrder UnionIsBase DifferentTxRefused CanonStable EmitRow
CHECK_DEADLOCK FALSE
