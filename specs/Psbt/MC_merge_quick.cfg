CONSTANTS
  Scen2 = {1, 2, 3, 4, 5, 6, 7, 8, 9, 10, 11, 12, 13, 14}
  Scen3 = {1, 3, 8, 9}
  Narrow = {1}
INIT Init
NEXT Next
INVARIANTS PartsConflictFree Idempotent Commutative Associative ResultIsUnion AnyOrder UnionIsBase DifferentTxRefused CanonStable EmitRow
CHECK_DEADLOCK FALSE
