---- MODULE PsbtRaw ----
(***************************************************************************)
(* C47, round-trip table (engine E4) over encodings that are NOT produced   *)
(* by the serializer under test: the harness assembles an input map from    *)
(* per-field records in the order the row prescribes (BIP174 maps are       *)
(* unordered), so that a decoded PSBT may hold final scripts together with  *)
(* signer / updater fields.  Clause: what the decoder accepts re-encodes to *)
(* something that decodes to the same content.                              *)
(***************************************************************************)
EXTENDS Psbt, VF
CONSTANTS Keys, MaxKeys
VARIABLES ks, ord
vars == <<ks, ord>>

Init == /\ ks \in {K \in SUBSET Keys : Cardinality(K) <= MaxKeys}
        /\ ord \in {"fwd", "rev"}
Next == UNCHANGED vars

NoF == [k \in {} |-> 0]
P == [ver |-> 0, txver |-> 2, tx |-> 1, fb |-> 2, mod |-> 0, g |-> NoF,
      ins |-> <<[seq |-> 2, t |-> 0, h |-> 0, f |-> [k \in ks |-> 1]]>>, outs |-> <<[f |-> NoF]>>]

\* the row loses content on re-encoding
Drops == Canon(P) # P
\* the re-encoding is a fixed point
CanonStable == Canon(Canon(P)) = Canon(P)
\* content is only lost when a final script hides signer / updater fields (PSBTInput::Serialize)
DropsOnlyWhenFinal == Drops => (InFinal(P.ins[1]) /\ ks \cap InNonFinalKeys # {})

EmitRow == VFRow([t |-> "raw", ord |-> ord, p |-> J(P), reenc |-> J(Canon(P)), drops |-> Drops])
====
