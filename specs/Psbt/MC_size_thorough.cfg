CONSTANTS
  Sizes = {1, 5, 251, 252, 253, 254, 255, 1000, 65534, 65535, 65536, 65537}
  Counts = {1, 2, 3, 6, 7, 8, 9, 61, 62, 63, 64, 251, 252, 253, 254, 255, 16382, 16383, 16384, 65534, 65535, 65536, 65537}
INIT Init
NEXT Next
INVARIANTS WidthBoundaries EntryCoversPayload Monotone EmitRow
CHECK_DEADLOCK FALSE
