CONSTANTS
  Positions = {"below", "at", "above", "fork", "elsewhere", "shortside", "common"}
  Dists = {1, 2015, 2016, 2017, 2018, 2500}
  Mcws = {"below", "equal", "above"}
  Avs = {"unset", "set", "unknown"}
INIT Init
NEXT Next
INVARIANTS Agree NotSkippedIsRejected EmitRow
CHECK_DEADLOCK FALSE
