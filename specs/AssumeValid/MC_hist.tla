---- MODULE MC_hist ----
EXTENDS AssumeValidHist
I(d, m, a) == [dist0 |-> d, mcw |-> m, av |-> a]
InitsQuick == { I(2017, "below", "set"), I(2016, "below", "set"), I(2017, "above", "set"), I(2017, "below", "unset") }
InitsAll == { I(d, m, a) : d \in {2016, 2017}, m \in {"below", "above"}, a \in {"set", "unset"} }
====
