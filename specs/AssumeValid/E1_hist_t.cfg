CONSTANTS
  Inits <- InitsAll
  MaxSteps = 7
  Rule = "now"
INIT Init
NEXT Next
VIEW View0
INVARIANTS BadOnlyIfCondsHeldThen FlagMeansConnectedOnce Consistent
ACTION_CONSTRAINT Emit
CHECK_DEADLOCK FALSE
