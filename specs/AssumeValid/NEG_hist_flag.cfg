CONSTANTS
  Inits <- InitsQuick
  MaxSteps = 5
  Rule = "flag"
INIT Init
NEXT Next
VIEW View0
INVARIANTS BadOnlyIfCondsHeldThen FlagMeansConnectedOnce Consistent

CHECK_DEADLOCK FALSE
