---- MODULE AssumeValid ----
(***************************************************************************)
(* C57: script verification of a block is skipped only under the           *)
(* assumed-valid conditions (Chainstate::ConnectBlock, script_check_reason)*)
(*                                                                         *)
(* A row is a header tree and a node configuration:                        *)
(*   main branch  heights 0..mainLen                                       *)
(*   side branch  forks off main at height fork, heights fork+1..sideLen   *)
(*                (sideLen = 0: no side branch)                            *)
(*   bad          the block that carries one spend with a failing script;  *)
(*                everything else in the tree is valid                     *)
(*   avb          the block whose hash is configured as assumed valid      *)
(*                (av = "set"), "unknown": a hash that is in no header,    *)
(*                "unset": no assumed-valid block                          *)
(*   minwork      the configured minimum chain work                        *)
(* All headers are known to the node before the blocks of bad's branch are *)
(* delivered in order; the best header is the tip with the most work.      *)
(* Every regtest block has proof 2, so work(x) = 2 * (height + 1), and the *)
(* proof-equivalent time between two blocks is 600 s per block.            *)
(*                                                                         *)
(* Reason is the decision in the code's order (GetAncestor comparisons);   *)
(* Skip is the statement of the property (ancestor relations).  TLC proves *)
(* Reason = "skip" <=> Skip on every row and prints the rows; the harness  *)
(* builds each tree with real blocks on a real node and checks that the    *)
(* bad block is accepted only where Skip holds.                            *)
(***************************************************************************)
EXTENDS Integers, Sequences, FiniteSets, TLC, VF
CONSTANTS Positions, Dists, Mcws, Avs
VARIABLES pos, dist, mcw, av
vars == <<pos, dist, mcw, av>>

HB == 102            \* height of the bad block (its failing spend consumes the matured coinbase of height 1)
Proof == 2           \* GetBlockProof of every regtest block
Spacing == 600       \* nPowTargetSpacing
TwoWeeks == 1209600  \* TWO_WEEKS_IN_SECONDS

Blk(br, h) == [br |-> br, h |-> h]
NoBlock == Blk("none", 0 - 1)

\* ------------------------------------------------------------------ the tree of a row
\* the side branch forks off below the bad block and below the assumed-valid block, except in "common" where it forks above the bad block
Fork(p) == IF p = "common" THEN HB + 3 ELSE 99
Bad(p) == IF p = "fork" THEN Blk("s", HB) ELSE Blk("m", HB)
AvBlock(p) == CASE p = "below" -> Blk("m", HB + 5)      \* bad is a proper ancestor of the assumed-valid block
                [] p = "at" -> Blk("m", HB)             \* bad is the assumed-valid block
                [] p = "above" -> Blk("m", HB - 2)      \* bad is a descendant of the assumed-valid block
                [] p = "fork" -> Blk("m", HB + 1)       \* bad is on a competing branch that forks below the assumed-valid block
                [] p = "elsewhere" -> Blk("m", HB + 5)  \* bad is below the assumed-valid block, the best header is on another branch
                [] p = "shortside" -> Blk("m", HB + 5)  \* as "below", with a competing branch that has less work than main
                [] p = "common" -> Blk("m", HB + 5)     \* assumed-valid block on main, best header on the side branch, bad below the fork point
MainLen(p, d) == CASE p \in {"below", "at", "above", "shortside"} -> HB + d
                   [] p = "fork" -> HB + 3
                   [] p \in {"elsewhere", "common"} -> HB + 10
SideLen(p, d) == CASE p \in {"fork", "elsewhere", "common"} -> HB + d
                   [] p = "shortside" -> HB + 50
                   [] OTHER -> 0
Best(p, d) == IF SideLen(p, d) > MainLen(p, d) THEN Blk("s", SideLen(p, d)) ELSE Blk("m", MainLen(p, d))
Work(x) == Proof * (x.h + 1)
MinWork(p, d, m) == CASE m = "below" -> Work(Best(p, d)) - 1
                      [] m = "equal" -> Work(Best(p, d))
                      [] m = "above" -> Work(Best(p, d)) + 1

\* CBlockIndex::GetAncestor
GetAncestor(p, x, h) == IF h > x.h \/ h < 0 THEN NoBlock ELSE IF x.br = "s" /\ h > Fork(p) THEN Blk("s", h) ELSE Blk("m", h)
\* the ancestor-or-equal relation, stated on the tree
IsAncOrEq(p, y, x) == \/ y.br = x.br /\ y.h <= x.h
                      \/ y.br = "m" /\ x.br = "s" /\ y.h <= Fork(p)

\* ------------------------------------------------------------------ the decision, in the code's order
EquivTime(to, from) == ((Work(to) - Work(from)) * Spacing) \div Proof       \* GetBlockProofEquivalentTime(to, from, tip = to)
Reason(p, d, m, a) ==
  LET b == Bad(p)
      avb == AvBlock(p)
      best == Best(p, d)
  IN IF a = "unset" THEN "assumevalid=0"
     ELSE IF a = "unknown" THEN "assumevalid hash not in headers"
     ELSE IF GetAncestor(p, avb, b.h) # b THEN (IF b.h > avb.h THEN "block height above assumevalid height" ELSE "block not in assumevalid chain")
     ELSE IF GetAncestor(p, best, b.h) # b THEN "block not in best header chain"
     ELSE IF Work(best) < MinWork(p, d, m) THEN "best header chainwork below minimumchainwork"
     ELSE IF EquivTime(best, b) <= TwoWeeks THEN "block too recent relative to best header"
     ELSE "skip"

\* ------------------------------------------------------------------ the property's statement
Skip(p, d, m, a) ==
  LET b == Bad(p)
      best == Best(p, d)
  IN /\ a = "set"                                   \* an assumed-valid block is configured and its header is known
     /\ IsAncOrEq(p, b, AvBlock(p))                    \* the block is an ancestor of (or is) the assumed-valid block
     /\ IsAncOrEq(p, b, best)                          \* and lies on the best known header chain
     /\ Work(best) >= MinWork(p, d, m)              \* whose work reaches the minimum chain work
     /\ (Work(best) - Work(b)) \div Proof > 2016    \* with more than two weeks' worth of blocks on top of it

Init == pos \in Positions /\ dist \in Dists /\ mcw \in Mcws /\ av \in Avs
Next == UNCHANGED vars

Agree == (Reason(pos, dist, mcw, av) = "skip") <=> Skip(pos, dist, mcw, av)
\* the table's own invariant: a block that is not skipped is verified, so the bad block is rejected
Row == [pos |-> pos, dist |-> dist, mcw |-> mcw, av |-> av,
        bad |-> Bad(pos), avb |-> AvBlock(pos), fork |-> Fork(pos), mainlen |-> MainLen(pos, dist), sidelen |-> SideLen(pos, dist),
        best |-> Best(pos, dist), minwork |-> MinWork(pos, dist, mcw),
        reason |-> Reason(pos, dist, mcw, av), skip |-> Skip(pos, dist, mcw, av),
        verdict |-> IF Skip(pos, dist, mcw, av) THEN "accepted" ELSE "rejected"]
NotSkippedIsRejected == ~Skip(pos, dist, mcw, av) => Row.verdict = "rejected"
EmitRow == VFRow(Row)
====
