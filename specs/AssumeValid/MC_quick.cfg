CONSTANTS
  Positions = {"below", "at", "above", "fork", "elsewhere", "shortside", "common"}
  Dists = {2016, 2017}
  Mcws = {"below", "equal", "above"}
  Avs = {"unset", "set", "unknown"}
INIT Init
NEXT Next
INVARIANTS Agree NotSkippedIsRejected EmitRow
CHECK_DEADLOCK FALSE
