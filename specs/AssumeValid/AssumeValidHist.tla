---- MODULE AssumeValidHist ----
(***************************************************************************)
(* C57 with connection HISTORY.  The decision of AssumeValid.tla is taken  *)
(* every time a block is connected, with the header tree as it is AT THAT  *)
(* TIME -- not once per block.  One block X (main branch, height HB) has a *)
(* spend with a failing script and is an ancestor of the assumed-valid     *)
(* block.  A node history:                                                 *)
(*   Start        all main headers (to HB + dist0), then the main blocks   *)
(*                up to X: first connection of X                           *)
(*   ForkAway     blocks of a side branch (forks below X) up to HB + 1:    *)
(*                more work with data, X is disconnected                   *)
(*   SideHeaders  header-only extension of the side branch beyond the main *)
(*                headers: the best header leaves X's chain                *)
(*   InvFar       a far main header (HB + 1000) is invalidated: the best   *)
(*                header of X's chain is then too close to X               *)
(*   ComeBack     two more main blocks: main has most work with data       *)
(*                again, X is re-connected                                 *)
(*   InvX / ReconsX   invalidateblock / reconsiderblock on X (reconsider   *)
(*                also clears the failure of every descendant header)      *)
(* scriptsValid is the per-block flag (BLOCK_VALID_SCRIPTS) that           *)
(* ConnectBlock raises after EVERY successful connection, skipped or       *)
(* verified.  Rule = "now": the decision ignores the flag (the code).      *)
(* Rule = "flag": a block that carries the flag is not verified again (the *)
(* negative control of this model): TLC finds X in the active chain        *)
(* although the conditions did not hold at its most recent connection.     *)
(***************************************************************************)
EXTENDS Integers, Sequences, FiniteSets, TLC, VF
CONSTANTS Inits,      \* set of [dist0, mcw, av]
          MaxSteps, Rule
VARIABLES cfg, started, mainData, sideData, sideHdr, xFailed, farFailed, active, xIn, scriptsValid,
          lastCond,   \* ghost: did the assumed-valid conditions hold at X's most recent connection ("none": never connected)
          k, lastAct, lastRes
node == <<cfg, started, mainData, sideData, sideHdr, xFailed, farFailed, active, xIn, scriptsValid>>
vars == <<node, lastCond, k, lastAct, lastRes>>
View0 == <<node, lastCond, k>>

HB == 102
ForkH == 99
AVH == HB + 5          \* the assumed-valid block is main[HB + 5]
FarH == HB + 1000
Proof == 2
Blk(br, h) == [br |-> br, h |-> h]
Work(h) == Proof * (h + 1)
MainHdr(c) == HB + c.dist0
SideFull(c) == HB + c.dist0 + 6
MinWork(c) == IF c.mcw = "below" THEN Work(MainHdr(c)) - 1 ELSE Work(MainHdr(c)) + 1

\* the best header: most work among the headers that are not marked failed (a failed block fails its descendants)
MainHdrTop(c, st, xf, ff) == IF ~st THEN 0 ELSE IF xf THEN HB - 1 ELSE IF ff THEN FarH - 1 ELSE MainHdr(c)
Best(c, st, xf, ff, sh) == IF sh > MainHdrTop(c, st, xf, ff) THEN Blk("s", sh) ELSE Blk("m", MainHdrTop(c, st, xf, ff))
\* the assumed-valid conditions for X, given the header tree (X itself not failed, or it would not be connected)
Cond(c, ff, sh) ==
  LET best == Best(c, TRUE, FALSE, ff, sh) IN
  /\ c.av = "set"                      \* X = main[HB] is an ancestor of the assumed-valid block main[HB + 5] in every row
  /\ best.br = "m"                     \* X is on the best header chain (the side branch forks below X)
  /\ Work(best.h) >= MinWork(c)
  /\ best.h - HB > 2016                \* more than two weeks of work on top
\* does the node skip X's scripts at a connection?  (X's script fails, so: is X accepted?)
Skips(c, ff, sh, flag) == Cond(c, ff, sh) \/ (Rule = "flag" /\ flag)

\* ActivateBestChain: the branch with the most work among blocks with data that are not failed; connecting X may fail, which marks it
\* failed and sends the node to the other branch.  s = [mainData, sideData, sideHdr, xFailed, farFailed, xIn, flag, lastCond]
MainTop(s) == IF s.xFailed THEN HB - 1 ELSE s.mainData
RECURSIVE Activate(_, _)
Activate(c, s) ==
  IF MainTop(s) > s.sideData
  THEN IF MainTop(s) >= HB /\ ~s.xIn
       THEN \* X is (re-)connected now
            IF Skips(c, s.farFailed, s.sideHdr, s.flag)
            THEN [s EXCEPT !.xIn = TRUE, !.flag = TRUE, !.lastCond = IF Cond(c, s.farFailed, s.sideHdr) THEN "held" ELSE "did-not-hold"]
            ELSE Activate(c, [s EXCEPT !.xFailed = TRUE, !.xIn = FALSE])
       ELSE s
  ELSE [s EXCEPT !.xIn = FALSE]          \* the side branch is active: X is not in the chain
S0 == [mainData |-> mainData, sideData |-> sideData, sideHdr |-> sideHdr, xFailed |-> xFailed, farFailed |-> farFailed,
       xIn |-> xIn, flag |-> scriptsValid, lastCond |-> lastCond]
TipOf(s) == IF MainTop(s) > s.sideData THEN Blk("m", MainTop(s)) ELSE Blk("s", s.sideData)
Apply(s) == /\ mainData' = s.mainData /\ sideData' = s.sideData /\ sideHdr' = s.sideHdr /\ xFailed' = s.xFailed /\ farFailed' = s.farFailed
            /\ xIn' = s.xIn /\ scriptsValid' = s.flag /\ lastCond' = s.lastCond /\ active' = TipOf(s)

Init == /\ cfg \in Inits /\ started = FALSE /\ mainData = 0 /\ sideData = 0 /\ sideHdr = 0 /\ xFailed = FALSE /\ farFailed = FALSE
        /\ active = Blk("m", 0) /\ xIn = FALSE /\ scriptsValid = FALSE /\ lastCond = "none"
        /\ k = 0 /\ lastAct = <<"init">> /\ lastRes = <<"none">>

Start == /\ ~started /\ started' = TRUE
         /\ Apply(Activate(cfg, [S0 EXCEPT !.mainData = HB]))
         /\ lastAct' = <<"start">>
ForkAway == /\ started /\ sideData = 0
            /\ Apply(Activate(cfg, [S0 EXCEPT !.sideData = HB + 1, !.sideHdr = IF sideHdr > HB + 1 THEN sideHdr ELSE HB + 1]))
            /\ UNCHANGED started /\ lastAct' = <<"forkaway">>
SideHeaders == /\ started /\ sideHdr < SideFull(cfg)
               /\ Apply([S0 EXCEPT !.sideHdr = SideFull(cfg)])          \* headers only: nothing is (dis)connected
               /\ UNCHANGED started /\ lastAct' = <<"sidehdrs">>
InvFar == /\ started /\ ~farFailed /\ ~xFailed
          /\ Apply([S0 EXCEPT !.farFailed = TRUE])
          /\ UNCHANGED started /\ lastAct' = <<"invfar">>
ComeBack == /\ started /\ mainData = HB /\ ~xFailed                      \* blocks on a failed parent are refused
            /\ Apply(Activate(cfg, [S0 EXCEPT !.mainData = HB + 2]))
            /\ UNCHANGED started /\ lastAct' = <<"comeback">>
InvX == /\ started /\ ~xFailed
        /\ Apply(Activate(cfg, [S0 EXCEPT !.xFailed = TRUE, !.xIn = FALSE]))
        /\ UNCHANGED started /\ lastAct' = <<"invx">>
ReconsX == /\ started /\ xFailed
           /\ Apply(Activate(cfg, [S0 EXCEPT !.xFailed = FALSE, !.farFailed = FALSE]))   \* ResetBlockFailureFlags: X, its ancestors and descendants
           /\ UNCHANGED started /\ lastAct' = <<"reconsx">>
Next == /\ k < MaxSteps /\ k' = k + 1 /\ UNCHANGED cfg /\ lastRes' = <<"none">>
        /\ (Start \/ ForkAway \/ SideHeaders \/ InvFar \/ ComeBack \/ InvX \/ ReconsX)
Spec == Init /\ [][Next]_vars

\* C57 on histories: a block with an invalid script is in the active chain only if the assumed-valid conditions held at its most recent connection
BadOnlyIfCondsHeldThen == xIn => lastCond = "held"
\* the flag says "connected successfully once", nothing more: it may be set while the conditions no longer hold
FlagMeansConnectedOnce == scriptsValid => lastCond # "none"
Consistent == /\ (xIn => ~xFailed /\ active.br = "m" /\ active.h >= HB)
              /\ (active.br = "s" => ~xIn)

Proj == [cfg |-> cfg, k |-> k, started |-> started, xin |-> xIn, xfailed |-> xFailed, tip |-> active, flag |-> scriptsValid, last |-> lastCond,
         mainData |-> mainData, sideData |-> sideData, sideHdr |-> sideHdr, farFailed |-> farFailed,
         best |-> Best(cfg, started, xFailed, farFailed, sideHdr)]
Emit == VFEdge(Proj, lastAct', lastRes', Proj')
Geometry == [geometry |-> [hb |-> HB, fork |-> ForkH, avh |-> AVH, farh |-> FarH]]
ASSUME VFRow(Geometry)
====
