---- MODULE WalletDBRun ----
(* Expands behaviours of WalletDB (lists of actions, env BEHS, one JSON object {"acts": [...]} per line) into what the        *)
(* specification predicts for each step: the wallet object after the call and the wallets a crash inside the call may     *)
(* leave (a load of every prefix of the call's database transactions). One VF row per step.                                *)
EXTENDS MC_walletdb, Json, IOUtils
Behs == ndJsonDeserialize(IOEnv.BEHS)
VARIABLES b, k
InitRun == b \in 1..Len(Behs) /\ k = 0 /\ Init
NextRun == /\ k < Len(Behs[b].acts)
           /\ k' = k + 1 /\ b' = b
           /\ LET a == Behs[b].acts[k + 1] IN
              IF Pre(a) THEN StepTo(a, ApplyTs(disk, Txns(a)))
              ELSE /\ UNCHANGED <<mem, disk, nops, crashed, hist>> /\ lastAct' = <<"skip">> /\ lastRes' = <<"none">>
ViewRun == <<View0, b, k>>
EmitRun == VFRow([b |-> b, k |-> k', a |-> lastAct', w |-> mem',
                  cr |-> IF lastAct'[1] = "skip" THEN <<>>
                         ELSE LET cd == CrashDisks(lastAct') IN [i \in 1..Len(cd) |-> LoadW(cd[i])]])
====
