---- MODULE Keypool ----
(* C62 - keypool part of the wallet database: the index bookkeeping of the active descriptors of a descriptor wallet      *)
(* (src/wallet/scriptpubkeyman.cpp DescriptorScriptPubKeyMan::GetNewDestination / TopUp / TopUpWithDB / WriteDescriptor,   *)
(* src/wallet/wallet.cpp GetNewDestination / GetNewChangeDestination / TopUpKeyPool / LoadExisting).                       *)
(*                                                                                                                        *)
(* Per active descriptor d (output type x external/internal) the wallet keeps next_index and range_end in memory and in   *)
(* the descriptor record of the database. GetNewDestination(d):                                                           *)
(*   1. TopUp(): one DB transaction that extends the cache up to max(next+K, range_end) and writes the descriptor record  *)
(*   2. the address of index next_index is derived from the cache, next_index++, WriteDescriptor (one auto-committed      *)
(*      write), then the address is returned.                                                                             *)
(* SQLite runs with synchronous=FULL: a commit is durable when it returns (journal fsync, database fsync, journal header  *)
(* zeroed and fsynced). The database therefore has a committed image (what a killed process leaves) and a durable image    *)
(* (what a power failure leaves); in the real protocol they coincide at every return. Variant selects the real protocol    *)
(* ("ok") or a deliberately broken one, used as negative control of the specification:                                     *)
(*   "nowrite"   GetNewDestination returns without writing the descriptor record                                           *)
(*   "staleidx"  the record is written before next_index is incremented                                                    *)
(*   "lazysync"  commits reach the file but are not fsynced before the call returns (synchronous=OFF); a Flush happens     *)
(*               at an arbitrary later time                                                                                *)
EXTENDS Naturals, FiniteSets, TLC, VF
CONSTANTS Descs, K, MaxNext, Variant, MidCrash, TopUps,
          ReqDescs     \* descriptors the behaviours request addresses from (a subset makes runs of requests on one descriptor likely)
VARIABLES nextMem, rangeMem, nextDisk, rangeDisk, nextDur, rangeDur, pc, returned, dup, ncrash, lastAct, lastRes
vars == <<nextMem, rangeMem, nextDisk, rangeDisk, nextDur, rangeDur, pc, returned, dup, ncrash, lastAct, lastRes>>
View0 == <<nextMem, rangeMem, nextDisk, rangeDisk, nextDur, rangeDur, pc, returned, dup, ncrash>>
Max(a, b) == IF a > b THEN a ELSE b
Idle == <<"idle">>

Init == /\ nextMem = [d \in Descs |-> 0] /\ rangeMem = [d \in Descs |-> K]
        /\ nextDisk = nextMem /\ rangeDisk = rangeMem /\ nextDur = nextMem /\ rangeDur = rangeMem
        /\ pc = Idle /\ returned = {} /\ dup = FALSE /\ ncrash = 0
        /\ lastAct = <<"init">> /\ lastRes = <<"none">>

\* TopUpWithDB for every descriptor in S with target size sz, applied to in-memory tables nm / rm; each is one committed transaction
ToppedRange(nm, rm, S, sz) == [d \in Descs |-> IF d \in S THEN Max(nm[d] + sz, rm[d]) ELSE rm[d]]
\* a commit: the record reaches the file; it is durable unless the variant postpones the fsync
Commit(nm, rm) == /\ nextDisk' = nm /\ rangeDisk' = rm
                  /\ IF Variant = "lazysync" THEN UNCHANGED <<nextDur, rangeDur>> ELSE nextDur' = nm /\ rangeDur' = rm

\* GetNewDestination, first half: TopUp()
GetNewBegin(d) ==
    /\ pc = Idle /\ nextMem[d] < MaxNext
    /\ rangeMem' = ToppedRange(nextMem, rangeMem, {d}, K)
    /\ Commit(nextMem, rangeMem')
    /\ pc' = <<"getnew", d>>
    /\ UNCHANGED <<nextMem, returned, dup, ncrash>>
    /\ lastAct' = <<"newbegin", d>> /\ lastRes' = <<"none">>
\* second half: derive index next_index, increment, WriteDescriptor, return
GetNewEnd(d) ==
    /\ pc = <<"getnew", d>>
    /\ LET i == nextMem[d] IN
       /\ nextMem' = [nextMem EXCEPT ![d] = i + 1]
       /\ CASE Variant = "nowrite"  -> UNCHANGED <<nextDisk, rangeDisk, nextDur, rangeDur>>
            [] Variant = "staleidx" -> Commit(nextMem, rangeMem)
            [] OTHER                -> Commit(nextMem', rangeMem)
       /\ returned' = returned \cup {<<d, i>>}
       /\ dup' = (dup \/ <<d, i>> \in returned)
       /\ lastAct' = <<"new", d>> /\ lastRes' = <<"idx", i>>
    /\ pc' = Idle /\ UNCHANGED <<rangeMem, ncrash>>
\* keypoolrefill: CWallet::TopUpKeyPool(n) tops up every active descriptor (n = 0: the default size K)
TopUp(n) ==
    /\ pc = Idle
    /\ rangeMem' = ToppedRange(nextMem, rangeMem, Descs, IF n = 0 THEN K ELSE n)
    /\ Commit(nextMem, rangeMem')
    /\ UNCHANGED <<nextMem, pc, returned, dup, ncrash>>
    /\ lastAct' = <<"topup", n>> /\ lastRes' = <<"none">>
\* loading a wallet: the records are read, then LoadExisting calls TopUpKeyPool()
LoadFrom(nd, rd) ==
    /\ nextMem' = nd
    /\ rangeMem' = ToppedRange(nd, rd, Descs, K)
    /\ pc' = Idle
Restart ==
    /\ pc = Idle
    /\ LoadFrom(nextDisk, rangeDisk) /\ Commit(nextDisk, rangeMem')
    /\ UNCHANGED <<returned, dup, ncrash>>
    /\ lastAct' = <<"reload">> /\ lastRes' = <<"none">>
\* the process is killed: the file keeps every committed write
CrashKill ==
    /\ (MidCrash \/ pc = Idle) /\ ncrash < 3
    /\ LoadFrom(nextDisk, rangeDisk) /\ Commit(nextDisk, rangeMem')
    /\ ncrash' = ncrash + 1 /\ UNCHANGED <<returned, dup>>
    /\ lastAct' = <<"crash", "kill">> /\ lastRes' = <<"none">>
\* power loss: only what was fsynced survives
CrashPower ==
    /\ (MidCrash \/ pc = Idle) /\ ncrash < 3
    /\ LoadFrom(nextDur, rangeDur)
    /\ nextDisk' = nextDur /\ rangeDisk' = rangeMem'
    /\ (IF Variant = "lazysync" THEN UNCHANGED <<nextDur, rangeDur>> ELSE nextDur' = nextDur /\ rangeDur' = rangeMem')
    /\ ncrash' = ncrash + 1 /\ UNCHANGED <<returned, dup>>
    /\ lastAct' = <<"crash", "power">> /\ lastRes' = <<"none">>
\* the operating system writes back dirty pages at some point (only distinguishable from a commit in the lazysync variant)
Flush ==
    /\ Variant = "lazysync" /\ (nextDur # nextDisk \/ rangeDur # rangeDisk)
    /\ nextDur' = nextDisk /\ rangeDur' = rangeDisk
    /\ UNCHANGED <<nextMem, rangeMem, nextDisk, rangeDisk, pc, returned, dup, ncrash>>
    /\ lastAct' = <<"flush">> /\ lastRes' = <<"none">>

Next == \/ \E d \in ReqDescs : GetNewBegin(d) \/ GetNewEnd(d)
        \/ \E n \in TopUps : TopUp(n)
        \/ Restart \/ CrashKill \/ CrashPower \/ Flush

\* ---- the property
\* C62: no (descriptor, index) pair is handed out twice, across restarts and crashes
NoRepeat == ~dup
\* why it holds: whatever was handed out lies below the next index of every image a restart can start from
ReturnedBelowNext == \A p \in returned : p[2] < nextMem[p[1]] /\ p[2] < nextDisk[p[1]] /\ p[2] < nextDur[p[1]]
\* the cache covers the index that is handed out next (GetNewDestination never runs out after its own TopUp)
RangeCovers == \A d \in Descs : (pc = <<"getnew", d>>) => nextMem[d] < rangeMem[d]
TypeOK == /\ \A d \in Descs : nextMem[d] <= MaxNext /\ nextDisk[d] <= nextMem[d] /\ nextDur[d] <= nextDisk[d]

Proj == [next |-> nextMem, range |-> rangeMem]
Emit == VFEdgeK(View0, Proj, lastAct', lastRes', View0', Proj')
====
