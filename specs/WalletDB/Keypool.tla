---- MODULE Keypool ----
(* C62 - keypool part of the wallet database: the index bookkeeping of the active descriptors of a descriptor wallet      *)
(* (src/wallet/scriptpubkeyman.cpp DescriptorScriptPubKeyMan::GetNewDestination / TopUp / TopUpWithDB / WriteDescriptor,   *)
(* src/wallet/wallet.cpp GetNewDestination / GetNewChangeDestination / TopUpKeyPool / LoadExisting).                       *)
(*                                                                                                                        *)
(* Per active descriptor d (output type x external/internal) the wallet keeps next_index and range_end in memory and in   *)
(* the descriptor record of the database. GetNewDestination(d):                                                           *)
(*   1. TopUp(): one DB transaction that extends the cache up to max(next+K, range_end) and writes the descriptor record  *)
(*   2. the address of index next_index is derived from the cache, next_index++, WriteDescriptor (one auto-committed      *)
(*      write), then the address is returned.                                                                             *)
(* SQLite runs with synchronous=FULL: a commit is durable when it returns (journal fsync, database fsync, journal header  *)
(* zeroed and fsynced). The database therefore has a committed image (what a killed process leaves) and a durable image    *)
(* (what a power failure leaves); in the real protocol they coincide at every return. Variant selects the real protocol    *)
(* ("ok") or a deliberately broken one, used as negative control of the specification:                                     *)
(*   "nowrite"   GetNewDestination returns without writing the descriptor record                                           *)
(*   "staleidx"  the record is written before next_index is incremented                                                    *)
(*   "lazysync"  commits reach the file but are not fsynced before the call returns (synchronous=OFF); a Flush happens     *)
(*               at an arbitrary later time                                                                                *)
(*   "failreturn" a request through ReserveDestination that FAILED still gives "its" index back: the index of the last    *)
(*               address handed out is returned to the pool (the class of the seeded change C62_1)                         *)
(*                                                                                                                        *)
(* Lock state and descriptor kinds: the wallet is unencrypted ("plain"), or encrypted and "unlocked" / "locked". A           *)
(* descriptor whose range step is hardened (Hard) cannot derive new keys without the private key: while the wallet is      *)
(* locked its TopUp extends nothing, and GetNewDestination FAILS ("Keypool ran out") once next_index reaches range_end.    *)
(* A failed request must leave next_index unchanged. Requests on the descriptors in ViaReserve go through                  *)
(* ReserveDestination (GetNewChangeDestination = reserve + keep; the change reservation of CreateTransaction = reserve,    *)
(* then keep, or ReturnDestination when the transaction is not created: "resret", the index goes back to the pool and was  *)
(* never handed out).                                                                                                     *)
EXTENDS Naturals, FiniteSets, TLC, VF
CONSTANTS Descs, K, MaxNext, Variant, MidCrash, TopUps,
          ReqDescs,    \* descriptors the behaviours request addresses from (a subset makes runs of requests on one descriptor likely)
          Hard,        \* descriptors with a hardened range step
          ViaReserve,  \* descriptors whose requests go through ReserveDestination (change addresses)
          InitLocks    \* lock states a behaviour may start in: subset of {"plain", "unlocked"}
VARIABLES nextMem, rangeMem, nextDisk, rangeDisk, nextDur, rangeDur, pc, lock, returned, dup, ncrash, lastAct, lastRes, hist
vars == <<nextMem, rangeMem, nextDisk, rangeDisk, nextDur, rangeDur, pc, lock, returned, dup, ncrash, lastAct, lastRes, hist>>
View0 == <<nextMem, rangeMem, nextDisk, rangeDisk, nextDur, rangeDur, pc, lock, returned, dup, ncrash>>
Max(a, b) == IF a > b THEN a ELSE b
Idle == <<"idle">>

Init == /\ nextMem = [d \in Descs |-> 0] /\ rangeMem = [d \in Descs |-> K]
        /\ nextDisk = nextMem /\ rangeDisk = rangeMem /\ nextDur = nextMem /\ rangeDur = rangeMem
        /\ pc = Idle /\ lock \in InitLocks /\ returned = {} /\ dup = FALSE /\ ncrash = 0
        /\ lastAct = <<"init">> /\ lastRes = <<"none">> /\ hist = <<>>

\* can descriptor d derive keys beyond its cache in lock state lk
CanTop(d, lk) == ~(d \in Hard /\ lk = "locked")
Toppable(lk) == {d \in Descs : CanTop(d, lk)}
\* TopUpWithDB for every descriptor in S with target size sz, applied to in-memory tables nm / rm; each is one committed transaction
ToppedRange(nm, rm, S, sz) == [d \in Descs |-> IF d \in S THEN Max(nm[d] + sz, rm[d]) ELSE rm[d]]
\* a commit: the record reaches the file; it is durable unless the variant postpones the fsync
Commit(nm, rm) == /\ nextDisk' = nm /\ rangeDisk' = rm
                  /\ IF Variant = "lazysync" THEN UNCHANGED <<nextDur, rangeDur>> ELSE nextDur' = nm /\ rangeDur' = rm
H(a) == hist' = Append(hist, a)

\* a request, first half: TopUp() (extends nothing for a hardened descriptor of a locked wallet). kind = "new" (the address is
\* handed out: GetNewDestination, GetNewChangeDestination, a change reservation that is kept) or "resret" (reserved and given back)
GetNewBegin(d, kind) ==
    /\ pc = Idle /\ nextMem[d] < MaxNext /\ (kind = "resret" => d \in ViaReserve)
    /\ rangeMem' = ToppedRange(nextMem, rangeMem, {d} \cap Toppable(lock), K)
    /\ Commit(nextMem, rangeMem')
    /\ pc' = <<"getnew", d, kind>>
    /\ UNCHANGED <<nextMem, lock, returned, dup, ncrash, hist>>
    /\ lastAct' = <<"newbegin", d>> /\ lastRes' = <<"none">>
\* second half: derive index next_index from the cache (fails if it is not there), increment, WriteDescriptor, return
GetNewEnd(d) ==
    /\ pc[1] = "getnew" /\ pc[2] = d
    /\ LET i == nextMem[d] kind == pc[3] IN
       IF i < rangeMem[d]
       THEN IF kind = "new"
            THEN /\ nextMem' = [nextMem EXCEPT ![d] = i + 1]
                 /\ CASE Variant = "nowrite"  -> UNCHANGED <<nextDisk, rangeDisk, nextDur, rangeDur>>
                      [] Variant = "staleidx" -> Commit(nextMem, rangeMem)
                      [] OTHER                -> Commit(nextMem', rangeMem)
                 /\ returned' = returned \cup {<<d, i>>}
                 /\ dup' = (dup \/ <<d, i>> \in returned)
                 /\ lastAct' = <<"new", d>> /\ lastRes' = <<"idx", i>> /\ H(<<"new", d>>)
            ELSE \* reserved (next_index i+1 written), then ReturnDestination(i): it is the most recent one, next_index back to i, written
                 /\ UNCHANGED <<nextMem, returned, dup>> /\ Commit(nextMem, rangeMem)
                 /\ lastAct' = <<"resret", d>> /\ lastRes' = <<"reserved", i>> /\ H(<<"resret", d>>)
       ELSE \* "Keypool ran out": nothing is handed out, nothing may change
            /\ IF Variant = "failreturn" /\ d \in ViaReserve /\ i > 0
               THEN nextMem' = [nextMem EXCEPT ![d] = i - 1] /\ Commit(nextMem', rangeMem)
               ELSE UNCHANGED <<nextMem, nextDisk, rangeDisk, nextDur, rangeDur>>
            /\ UNCHANGED <<returned, dup>>
            /\ lastAct' = <<kind, d>> /\ lastRes' = <<"fail">> /\ H(<<kind, d>>)
    /\ pc' = Idle /\ UNCHANGED <<rangeMem, lock, ncrash>>
\* keypoolrefill: CWallet::TopUpKeyPool(n) tops up every active descriptor that can be (n = 0: the default size K)
TopUp(n) ==
    /\ pc = Idle
    /\ rangeMem' = ToppedRange(nextMem, rangeMem, Toppable(lock), IF n = 0 THEN K ELSE n)
    /\ Commit(nextMem, rangeMem')
    /\ UNCHANGED <<nextMem, pc, lock, returned, dup, ncrash>>
    /\ lastAct' = <<"topup", n>> /\ lastRes' = <<"none">> /\ H(<<"topup", n>>)
Lock ==
    /\ pc = Idle /\ lock = "unlocked" /\ lock' = "locked"
    /\ UNCHANGED <<nextMem, rangeMem, nextDisk, rangeDisk, nextDur, rangeDur, pc, returned, dup, ncrash>>
    /\ lastAct' = <<"lock">> /\ lastRes' = <<"none">> /\ H(<<"lock">>)
Unlock ==
    /\ pc = Idle /\ lock = "locked" /\ lock' = "unlocked"
    /\ UNCHANGED <<nextMem, rangeMem, nextDisk, rangeDisk, nextDur, rangeDur, pc, returned, dup, ncrash>>
    /\ lastAct' = <<"unlock">> /\ lastRes' = <<"none">> /\ H(<<"unlock">>)
\* loading a wallet: the records are read (an encrypted wallet comes up locked), then LoadExisting calls TopUpKeyPool()
LoadFrom(nd, rd) ==
    /\ nextMem' = nd
    /\ lock' = (IF lock = "plain" THEN "plain" ELSE "locked")
    /\ rangeMem' = ToppedRange(nd, rd, Toppable(lock'), K)
    /\ pc' = Idle
Restart ==
    /\ pc = Idle
    /\ LoadFrom(nextDisk, rangeDisk) /\ Commit(nextDisk, rangeMem')
    /\ UNCHANGED <<returned, dup, ncrash>>
    /\ lastAct' = <<"reload">> /\ lastRes' = <<"none">> /\ H(<<"reload">>)
\* the process is killed: the file keeps every committed write
CrashKill ==
    /\ (MidCrash \/ pc = Idle) /\ ncrash < 3
    /\ LoadFrom(nextDisk, rangeDisk) /\ Commit(nextDisk, rangeMem')
    /\ ncrash' = ncrash + 1 /\ UNCHANGED <<returned, dup>>
    /\ lastAct' = <<"crash", "kill">> /\ lastRes' = <<"none">> /\ H(<<"crash", "kill">>)
\* power loss: only what was fsynced survives
CrashPower ==
    /\ (MidCrash \/ pc = Idle) /\ ncrash < 3
    /\ LoadFrom(nextDur, rangeDur)
    /\ nextDisk' = nextDur /\ rangeDisk' = rangeMem'
    /\ (IF Variant = "lazysync" THEN UNCHANGED <<nextDur, rangeDur>> ELSE nextDur' = nextDur /\ rangeDur' = rangeMem')
    /\ ncrash' = ncrash + 1 /\ UNCHANGED <<returned, dup>>
    /\ lastAct' = <<"crash", "power">> /\ lastRes' = <<"none">> /\ H(<<"crash", "power">>)
\* the operating system writes back dirty pages at some point (only distinguishable from a commit in the lazysync variant)
Flush ==
    /\ Variant = "lazysync" /\ (nextDur # nextDisk \/ rangeDur # rangeDisk)
    /\ nextDur' = nextDisk /\ rangeDur' = rangeDisk
    /\ UNCHANGED <<nextMem, rangeMem, nextDisk, rangeDisk, pc, lock, returned, dup, ncrash, hist>>
    /\ lastAct' = <<"flush">> /\ lastRes' = <<"none">>

Next == \/ \E d \in ReqDescs : GetNewBegin(d, "new") \/ GetNewBegin(d, "resret") \/ GetNewEnd(d)
        \/ \E n \in TopUps : TopUp(n)
        \/ Lock \/ Unlock \/ Restart \/ CrashKill \/ CrashPower \/ Flush

\* ---- the property
\* C62: no (descriptor, index) pair is handed out twice, across failures, returned reservations, restarts and crashes
NoRepeat == ~dup
\* why it holds: whatever was handed out lies below the next index of every image a restart can start from
ReturnedBelowNext == \A p \in returned : p[2] < nextMem[p[1]] /\ p[2] < nextDisk[p[1]] /\ p[2] < nextDur[p[1]]
\* the cache covers the index that is handed out next whenever the descriptor can derive keys
RangeCovers == \A d \in Descs : (pc[1] = "getnew" /\ pc[2] = d /\ CanTop(d, lock)) => nextMem[d] < rangeMem[d]
\* a failed request changes nothing
FailNoChange == [][lastRes' = <<"fail">> => (nextMem' = nextMem /\ nextDisk' = nextDisk /\ nextDur' = nextDur)]_vars
TypeOK == /\ \A d \in Descs : nextMem[d] <= MaxNext /\ nextDisk[d] <= nextMem[d] /\ nextDur[d] <= nextDisk[d]

Proj == [next |-> nextMem, range |-> rangeMem, lock |-> lock]
Emit == VFEdgeK(View0, Proj, lastAct', lastRes', View0', Proj')
====
