---- MODULE WalletDB ----
(* C43 - what a descriptor wallet records in its database and how it comes back after a clean restart or a crash.           *)
(* Anchors: src/wallet/walletdb.cpp (record kinds, WalletBatch writes, WalletBatch::LoadWallet), src/wallet/wallet.cpp       *)
(* (CreateNew, LoadExisting, GetNewDestination, SetAddressBook, DelAddressBook, LockCoin/UnlockCoin, AddToWallet, RemoveTxs, *)
(* AbandonTransaction, SetWalletFlag, SetLastBlockProcessed, AddWalletDescriptor, EncryptWallet),                           *)
(* src/wallet/scriptpubkeyman.cpp (TopUp, SetupDescriptorGeneration, Encrypt), src/wallet/sqlite.cpp (TxnBegin/TxnCommit).  *)
(*                                                                                                                        *)
(* disk = the record tables of the SQLite file; mem = the wallet object. Every wallet operation is the sequence of DB       *)
(* transactions the code performs: the operations the code wraps in TxnBegin/TxnCommit (keypool top-up, address-book entry  *)
(* removal, transaction removal, encryption, descriptor setup) are one transaction with several record writes, everything  *)
(* else is one auto-committed write per record. SQLite commits atomically (rollback journal, synchronous=FULL): after a     *)
(* crash the file holds a prefix of the operation's transactions, each completely or not at all.                           *)
(* Records the abstraction leaves out because nothing observable depends on them alone: descriptor cache items (written    *)
(* together with / before the descriptor record), witness-variant records of a transaction (written before the tx record), *)
(* version, the empty legacy best-block record.                                                                            *)
EXTENDS Naturals, Sequences, FiniteSets, TLC, VF
CONSTANTS SlotSeq,      \* sequence of the active-descriptor slots "<output type>/<0 external | 1 internal>"
          K,            \* keypool size
          MaxNext,      \* bound on next_index
          Txs, Addrs, Coins, Labels, NewLabel, TxStates, Heights, Flags, Passes,
          AddrSlots,    \* slots the behaviours request addresses from
          Imports,      \* subset of {"imp1", "imp2"}
          ImpSlot,      \* the slot "imp2" (a ranged descriptor) is made active for
          Atomic,       \* TRUE: the code's grouping; FALSE: every record write commits on its own (negative control)
          DropOnLoad,   \* a table name the loader forgets ("none" = the real loader; negative control of ReloadSame)
          MaxOps
VARIABLES mem, disk, nops, crashed, lastAct, lastRes, hist
vars == <<mem, disk, nops, crashed, lastAct, lastRes, hist>>
View0 == <<mem, disk, nops, crashed>>

SLOTSEQ == SlotSeq      \* alias: TLC evaluates a definition once, a substituted constant at every reference
Slots == {SLOTSEQ[i] : i \in 1..Len(SLOTSEQ)}
G0(s) == "g0:" \o s
G1(s) == "g1:" \o s
DSeq == [i \in 1..Len(SLOTSEQ) |-> G0(SLOTSEQ[i])] \o [i \in 1..Len(SLOTSEQ) |-> G1(SLOTSEQ[i])] \o
        (IF "imp1" \in Imports THEN <<"imp1">> ELSE <<>>) \o (IF "imp2" \in Imports THEN <<"imp2">> ELSE <<>>)
D == {DSeq[i] : i \in 1..Len(DSeq)}
Own(d, i) == d \o "#" \o ToString(i)
X == Addrs \cup {Own(d, i) : d \in D, i \in 0..MaxNext}
Tip == 100
Max(a, b) == IF a > b THEN a ELSE b
NoDesc == [present |-> FALSE, next |-> 0, range |-> 0]
IsExternal(s) == \E i \in 1..Len(SLOTSEQ) : SLOTSEQ[i] = s /\ i <= Len(SLOTSEQ) \div 2   \* first half of SLOTSEQ = external slots

\* ---- the database: one function per record kind ("none" / FALSE / NoDesc = no such record)
EmptyDisk == [desc |-> [d \in D |-> NoDesc], key |-> [d \in D |-> "none"], active |-> [s \in Slots |-> "none"],
              name |-> [x \in X |-> "none"], purpose |-> [x \in X |-> "none"], locked |-> [c \in Coins |-> FALSE],
              tx |-> [t \in Txs |-> "none"], flags |-> [f \in Flags |-> FALSE],
              sc |-> [mkey |-> "none", best |-> Tip, opos |-> 0]]
\* a wallet right after CreateNew: one descriptor per slot, topped up, active
FreshDisk == [EmptyDisk EXCEPT !.desc = [d \in D |-> IF \E s \in Slots : d = G0(s) THEN [present |-> TRUE, next |-> 0, range |-> K] ELSE NoDesc],
                               !.key = [d \in D |-> IF \E s \in Slots : d = G0(s) THEN "plain" ELSE "none"],
                               !.active = [s \in Slots |-> G0(s)]]
W(t, k, v) == [t |-> t, k |-> k, v |-> v]
ApplyW(dk, w) == IF w.t = "sc" THEN [dk EXCEPT !.sc = [@ EXCEPT ![w.k] = w.v]] ELSE [dk EXCEPT ![w.t] = [@ EXCEPT ![w.k] = w.v]]
RECURSIVE ApplyWs(_, _)
ApplyWs(dk, ws) == IF ws = <<>> THEN dk ELSE ApplyWs(ApplyW(dk, Head(ws)), Tail(ws))
RECURSIVE ApplyTs(_, _)
ApplyTs(dk, ts) == IF ts = <<>> THEN dk ELSE ApplyTs(ApplyWs(dk, Head(ts)), Tail(ts))
RECURSIVE Flatten(_)
Flatten(ts) == IF ts = <<>> THEN <<>> ELSE [i \in 1..Len(Head(ts)) |-> <<Head(ts)[i]>>] \o Flatten(Tail(ts))
\* the transactions as they commit (the negative control splits every group)
Commits(ts) == IF Atomic THEN ts ELSE Flatten(ts)

\* ---- loading (WalletBatch::LoadWallet): what the records mean. Key records of a descriptor without descriptor record are
\* never looked at; "locked" in memory distinguishes persistent ("disk") from session-only ("mem") locks.
Raw(dk) == [desc |-> [d \in D |-> dk.desc[d]],
            key |-> [d \in D |-> IF dk.desc[d].present THEN dk.key[d] ELSE "none"],
            active |-> dk.active, name |-> dk.name, purpose |-> dk.purpose,
            locked |-> [c \in Coins |-> IF dk.locked[c] THEN "disk" ELSE "no"],
            tx |-> dk.tx, flags |-> dk.flags, sc |-> dk.sc,
            islocked |-> dk.sc.mkey # "none"]
\* the loader under test; DropOnLoad names a record kind it forgets (negative control)
LoadRaw(dk) == Raw(IF DropOnLoad = "none" THEN dk ELSE [dk EXCEPT ![DropOnLoad] = EmptyDisk[DropOnLoad]])
\* does the loader accept the file: LoadActiveSPKMs needs the descriptor of every active slot; a descriptor with a plain and a
\* crypted record of the same key is refused ("Wallet contains both unencrypted and encrypted keys")
LoadOK(dk) == /\ \A s \in Slots : dk.active[s] # "none" => dk.desc[dk.active[s]].present
              /\ \A d \in D : dk.desc[d].present => dk.key[d] # "both"
\* the file is completely unencrypted or completely encrypted
EncWhole(dk) == \A d \in D : (dk.desc[d].present /\ dk.key[d] # "none") => (dk.key[d] = "crypted" <=> dk.sc.mkey # "none")
ActiveDs(dk) == {dk.active[s] : s \in Slots} \ {"none"}
\* LoadExisting after the records are read: TopUpKeyPool() tops up every active descriptor, AttachChain rescans up to the tip
AfterLoadDisk(dk) == [dk EXCEPT !.desc = [d \in D |-> IF d \in ActiveDs(dk) /\ dk.desc[d].present
                                                      THEN [dk.desc[d] EXCEPT !.range = Max(dk.desc[d].next + K, dk.desc[d].range)] ELSE dk.desc[d]],
                                !.sc = [@ EXCEPT !.best = Tip]]
LoadW(dk) == LoadRaw(AfterLoadDisk(dk))
\* what of the wallet object is meant to be on disk
Persistent(m) == [m EXCEPT !.locked = [c \in Coins |-> IF m.locked[c] = "disk" THEN "disk" ELSE "no"], !.islocked = (m.sc.mkey # "none")]

\* ---- operations: Pre(a), Txns(a) (sequence of transactions = sequences of record writes), MemAfter(a)
Kind(st) == IF st = "abandoned" THEN "inactive" ELSE IF st = "none" THEN "none" ELSE
            IF \E h \in Heights : st = "confirmed:" \o ToString(h) THEN "confirmed" ELSE
            IF \E h \in Heights : st = "conflicted:" \o ToString(h) THEN "conflicted" ELSE st
DescOf(s) == mem.active[s]
Grown(d, sz) == [mem.desc[d] EXCEPT !.range = Max(mem.desc[d].next + sz, mem.desc[d].range)]
RECURSIVE SeqOfSet(_)
SeqOfSet(S) == IF S = {} THEN <<>> ELSE LET x == CHOOSE y \in S : TRUE IN <<x>> \o SeqOfSet(S \ {x})
PlainDs == SelectSeq(DSeq, LAMBDA d : mem.desc[d].present /\ mem.key[d] = "plain")
G1Writes == [i \in 1..(3 * Len(SLOTSEQ)) |->
               LET s == SLOTSEQ[((i - 1) \div 3) + 1] IN
               CASE (i - 1) % 3 = 0 -> W("key", G1(s), "crypted")
                 [] (i - 1) % 3 = 1 -> W("desc", G1(s), [present |-> TRUE, next |-> 0, range |-> K])
                 [] OTHER            -> W("active", s, G1(s))]

Pre(a) ==
  CASE a[1] = "new"      -> /\ DescOf(a[2]) # "none" /\ mem.desc[DescOf(a[2])].next < MaxNext
    [] a[1] = "topup1"   -> DescOf(a[2]) # "none"
    [] a[1] = "label"    -> TRUE
    [] a[1] = "dellabel" -> mem.name[a[2]] # "none" \/ mem.purpose[a[2]] # "none"
    \* locking a coin that is already locked is a no-op for the same kind of lock; making a session-only lock persistent is left
    \* out of the generated behaviours: see the known finding of C43 (lockcoin-upgrade)
    [] a[1] = "lockcoin" -> mem.locked[a[2]] = "no"
    [] a[1] = "unlockcoin" -> mem.locked[a[2]] # "no"
    [] a[1] = "addtx"    -> Kind(mem.tx[a[2]]) # Kind(a[3])
    [] a[1] = "abandon"  -> mem.tx[a[2]] = "inactive"
    [] a[1] = "removetx" -> a[2] # <<>> /\ \A i \in 1..Len(a[2]) : mem.tx[a[2][i]] # "none"
    [] a[1] = "setflag"  -> ~mem.flags[a[2]]
    [] a[1] = "unsetflag" -> mem.flags[a[2]]
    [] a[1] = "bestblock" -> TRUE
    [] a[1] = "import"   -> /\ a[2] \in Imports /\ ~mem.desc[a[2]].present /\ mem.sc.mkey = "none"
    [] a[1] = "encrypt"  -> mem.sc.mkey = "none"
    [] a[1] = "reload"   -> TRUE
    [] OTHER -> FALSE

\* grouped(i) = TRUE iff the i-th transaction of the operation is one the code runs inside TxnBegin/TxnCommit
Txns(a) ==
  CASE a[1] = "new" ->
         LET d == DescOf(a[2]) g == Grown(d, K) x == Own(d, mem.desc[d].next) IN
         << <<W("desc", d, g)>>, <<W("desc", d, [g EXCEPT !.next = @ + 1])>> >> \o
         (IF IsExternal(a[2]) THEN << <<W("purpose", x, "receive")>>, <<W("name", x, a[3])>> >> ELSE <<>>)
    [] a[1] = "topup1" -> << <<W("desc", DescOf(a[2]), Grown(DescOf(a[2]), IF a[3] = 0 THEN K ELSE a[3]))>> >>
    [] a[1] = "label" -> << <<W("purpose", a[2], a[4])>>, <<W("name", a[2], a[3])>> >>
    [] a[1] = "dellabel" -> << <<W("purpose", a[2], "none"), W("name", a[2], "none")>> >>
    [] a[1] = "lockcoin" -> IF a[3] THEN << <<W("locked", a[2], TRUE)>> >> ELSE <<>>
    [] a[1] = "unlockcoin" -> IF mem.locked[a[2]] = "disk" THEN << <<W("locked", a[2], FALSE)>> >> ELSE <<>>
    [] a[1] = "addtx" -> (IF mem.tx[a[2]] = "none" THEN << <<W("sc", "opos", mem.sc.opos + 1)>> >> ELSE <<>>) \o << <<W("tx", a[2], a[3])>> >>
    [] a[1] = "abandon" -> << <<W("tx", a[2], "abandoned")>> >>
    [] a[1] = "removetx" -> << [i \in 1..Len(a[2]) |-> W("tx", a[2][i], "none")] >>
    [] a[1] = "setflag" -> << <<W("flags", a[2], TRUE)>> >>
    [] a[1] = "unsetflag" -> << <<W("flags", a[2], FALSE)>> >>
    [] a[1] = "bestblock" -> << <<W("sc", "best", a[2])>> >>
    [] a[1] = "import" ->
         IF a[2] = "imp1"
         THEN << <<W("key", "imp1", "plain")>>, <<W("desc", "imp1", [present |-> TRUE, next |-> 0, range |-> 1])>>,
                 <<W("purpose", Own("imp1", 0), "receive")>>, <<W("name", Own("imp1", 0), "imp")>> >>
         ELSE << <<W("key", "imp2", "plain")>>, <<W("desc", "imp2", [present |-> TRUE, next |-> 0, range |-> K])>>,
                 <<W("active", ImpSlot, "imp2")>> >>
    [] a[1] = "encrypt" ->
         << <<W("sc", "mkey", a[2])>> \o [i \in 1..(2 * Len(PlainDs)) |-> W("key", PlainDs[(i + 1) \div 2], IF i % 2 = 1 THEN "both" ELSE "crypted")], G1Writes >>
    [] a[1] = "reload" ->
         \* LoadExisting: one top-up transaction per active descriptor, then the best block; their order is not fixed
         LET ds == SeqOfSet({d \in ActiveDs(disk) : disk.desc[d].present /\ disk.desc[d].next + K > disk.desc[d].range}) IN
         [i \in 1..Len(ds) |-> <<W("desc", ds[i], [disk.desc[ds[i]] EXCEPT !.range = disk.desc[ds[i]].next + K])>>] \o
         (IF disk.sc.best # Tip THEN << <<W("sc", "best", Tip)>> >> ELSE <<>>)
    [] OTHER -> <<>>
\* the wallet object after the call: what a load of the new file would give, except for the session-only parts
MemAfter(a, dk) ==
  LET m == Raw(dk) IN
  CASE a[1] = "reload" -> LoadRaw(dk)
    [] a[1] = "lockcoin" -> [m EXCEPT !.locked = [c \in Coins |-> IF c = a[2] THEN (IF mem.locked[c] # "no" THEN mem.locked[c] ELSE IF a[3] THEN "disk" ELSE "mem") ELSE mem.locked[c]],
                                      !.islocked = mem.islocked]
    [] a[1] = "unlockcoin" -> [m EXCEPT !.locked = [mem.locked EXCEPT ![a[2]] = "no"], !.islocked = mem.islocked]
    [] a[1] = "encrypt" -> [m EXCEPT !.locked = mem.locked, !.islocked = TRUE]
    [] OTHER -> [m EXCEPT !.locked = mem.locked, !.islocked = mem.islocked]

\* the wallets a crash during the operation can leave: a load of every prefix of its commits
RECURSIVE Prefixes(_, _)
Prefixes(dk, ts) == IF ts = <<>> THEN <<dk>> ELSE <<dk>> \o Prefixes(ApplyWs(dk, Head(ts)), Tail(ts))
CrashDisks(a) == Prefixes(disk, Commits(Txns(a)))

Init == /\ disk = FreshDisk /\ mem = Raw(FreshDisk) /\ nops = 0 /\ crashed = FALSE
        /\ lastAct = <<"init">> /\ lastRes = <<"none">> /\ hist = <<>>
\* operation a completes: dk = the file after all its commits
StepTo(a, dk) ==
    /\ disk' = dk
    /\ mem' = MemAfter(a, dk)
    /\ nops' = nops + 1 /\ UNCHANGED crashed
    /\ lastAct' = a /\ lastRes' = <<"ok">> /\ hist' = Append(hist, a)
\* a crash inside operation a after j of its commits (dk = the file then); the next start loads what is there
CrashTo(a, j, dk) ==
    /\ disk' = dk
    /\ mem' = LoadRaw(dk)
    /\ crashed' = TRUE /\ nops' = nops + 1
    /\ lastAct' = <<"crash", a, j>> /\ lastRes' = <<"none">> /\ hist' = Append(hist, <<"crash">>)
Step(a) == ~crashed /\ nops < MaxOps /\ Pre(a) /\ StepTo(a, ApplyTs(disk, Txns(a)))
StepOrCrash(a) == /\ ~crashed /\ nops < MaxOps /\ Pre(a)
                  /\ LET cd == CrashDisks(a) IN StepTo(a, cd[Len(cd)]) \/ \E j \in 1..(Len(cd) - 1) : CrashTo(a, j - 1, cd[j])

LabelSet == Labels
RemoveSets == {<<t>> : t \in Txs} \cup ({<<t, u>> : t \in Txs, u \in Txs} \ {<<t, t>> : t \in Txs})
Acts == {<<"new", s, l>> : s \in AddrSlots, l \in {NewLabel}} \cup {<<"topup1", s, n>> : s \in AddrSlots, n \in {0, K + 2}}
        \cup {<<"label", x, l, p>> : x \in Addrs, l \in LabelSet, p \in {"send"}} \cup {<<"dellabel", x>> : x \in Addrs}
        \cup {<<"lockcoin", c, p>> : c \in Coins, p \in BOOLEAN} \cup {<<"unlockcoin", c>> : c \in Coins}
        \cup {<<"addtx", t, st>> : t \in Txs, st \in TxStates} \cup {<<"abandon", t>> : t \in Txs}
        \cup {<<"removetx", S>> : S \in RemoveSets}
        \cup {<<"setflag", f>> : f \in Flags} \cup {<<"unsetflag", f>> : f \in Flags}
        \cup {<<"bestblock", h>> : h \in Heights}
        \cup {<<"import", i>> : i \in Imports} \cup {<<"encrypt", p>> : p \in Passes} \cup {<<"reload">>}
Next == \E a \in Acts : StepOrCrash(a)
NextNoCrash == \E a \in Acts : Step(a)

\* ---- the property
\* a clean reload yields the wallet that was in memory (session-only locks aside)
ReloadSame == ~crashed => LoadRaw(disk) = Persistent(mem)
\* the wallet always loads, also from what a crash leaves, and is never half encrypted
AlwaysLoads == LoadOK(disk)
EncryptionWhole == EncWhole(disk)
\* each update the code performs as one database transaction is completely present or completely absent after a crash:
\* every crash state of an operation equals the state before or after one of its transactions as the code groups them
GroupedAtomic == \A a \in Acts : (~crashed /\ Pre(a)) =>
                   LET ts == Txns(a) cd == Prefixes(disk, Commits(ts)) gb == Prefixes(disk, ts) IN
                   \A i \in 1..Len(cd) : \E k \in 1..Len(gb) : cd[i] = gb[k]
TypeOK == /\ \A d \in D : disk.desc[d].present => disk.desc[d].next <= disk.desc[d].range
          /\ disk.sc.opos <= MaxOps

\* ---- emission: behaviours are identified by their action history (small lines; the expected wallets are produced by WalletDBRun)
Emit == VFEdgeK(hist, 0, lastAct', lastRes', hist', 0)
====
