---- MODULE MC_walletdb ----
EXTENDS WalletDB
Slots2 == <<"bech32/0", "bech32/1">>
Slots8 == <<"legacy/0", "p2sh-segwit/0", "bech32/0", "bech32m/0", "legacy/1", "p2sh-segwit/1", "bech32/1", "bech32m/1">>
====
