CONSTANTS
  SlotSeq <- Slots2
  K = 2
  MaxNext = 2
  Txs = {"t1", "t2"}
  Addrs = {"a1"}
  Coins = {"c1"}
  Labels = {"L1"}
  NewLabel = ""
  TxStates = {"inactive", "confirmed:5"}
  Heights = {5}
  Flags = {"avoid_reuse"}
  Passes = {"pw"}
  AddrSlots = {"bech32/0", "bech32/1"}
  Imports = {"imp1", "imp2"}
  ImpSlot = "bech32/1"
  Atomic = TRUE
  DropOnLoad = "locked"
  MaxOps = 3
INIT Init
NEXT Next
VIEW View0
INVARIANTS ReloadSame
CHECK_DEADLOCK FALSE
