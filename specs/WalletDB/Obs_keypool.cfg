CONSTANTS
  Descs = {"legacy/0", "p2sh-segwit/0", "bech32/0", "bech32m/0", "legacy/1", "p2sh-segwit/1", "bech32/1", "bech32m/1"}
  K = 3
  MaxNext = 6
  Variant = "ok"
  MidCrash = FALSE
  ReqDescs = {"legacy/0", "p2sh-segwit/0", "bech32/0", "bech32m/0", "legacy/1", "p2sh-segwit/1", "bech32/1", "bech32m/1"}
  Hard = {"bech32/1"}
  ViaReserve = {"legacy/1", "p2sh-segwit/1", "bech32/1", "bech32m/1"}
  InitLocks = {"plain", "unlocked"}
  TopUps = {0, 5}
INIT InitObs
NEXT Stutter
INVARIANTS ObsLoadOK NoRepeat ObsNoRepeatAddr
CHECK_DEADLOCK FALSE
