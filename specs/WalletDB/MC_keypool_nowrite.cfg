CONSTANTS
  Descs = {"a", "b"}
  K = 2
  MaxNext = 3
  Variant = "nowrite"
  MidCrash = TRUE
  ReqDescs = {"a", "b"}
  Hard = {"b"}
  ViaReserve = {"b"}
  InitLocks = {"plain", "unlocked"}
  TopUps = {0, 4}
INIT Init
NEXT Next
VIEW View0
INVARIANTS NoRepeat
CHECK_DEADLOCK FALSE
