---- MODULE KeypoolRun ----
(* Replays given action lists (env BEHS, one {"lock": initial lock state, "acts": [...]} per line) on Keypool and prints what  *)
(* the specification predicts for every step (result and the in-memory next/range/lock afterwards). A request is two steps: *)
(* ["newbegin", d, kind] and then ["new", d] / ["resret", d]. A list that is not a behaviour of Keypool stops there.        *)
EXTENDS Keypool, Sequences, Json, IOUtils
Behs == ndJsonDeserialize(IOEnv.BEHS)
VARIABLES b, k
InitRun == b \in 1..Len(Behs) /\ k = 0 /\ Init /\ lock = Behs[b].lock
Do(a) == CASE a[1] = "newbegin" -> GetNewBegin(a[2], a[3])
           [] a[1] \in {"new", "resret"} -> GetNewEnd(a[2]) /\ pc[3] = a[1]
           [] a[1] = "topup" -> TopUp(a[2])
           [] a[1] = "lock" -> Lock
           [] a[1] = "unlock" -> Unlock
           [] a[1] = "reload" -> Restart
           [] a[1] = "crash" -> IF a[2] = "kill" THEN CrashKill ELSE CrashPower
           [] OTHER -> FALSE
NextRun == k < Len(Behs[b].acts) /\ k' = k + 1 /\ b' = b /\ Do(Behs[b].acts[k + 1])
ViewRun == <<View0, b, k>>
EmitRun == VFRow([b |-> b, k |-> k', a |-> lastAct', r |-> lastRes', t |-> Proj'])
====
