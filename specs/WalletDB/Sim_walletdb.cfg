CONSTANTS
  SlotSeq <- Slots8
  K = 3
  MaxNext = 4
  Txs = {"t1", "t2", "t3"}
  Addrs = {"a1", "a2"}
  Coins = {"c1", "c2"}
  Labels = {"L1", "L2"}
  NewLabel = "mine"
  TxStates = {"inactive", "confirmed:5", "conflicted:7"}
  Heights = {5, 7}
  Flags = {"avoid_reuse"}
  Passes = {"pw"}
  AddrSlots = {"bech32/0", "legacy/0", "bech32m/1"}
  Imports = {"imp1", "imp2"}
  ImpSlot = "bech32/1"
  Atomic = TRUE
  DropOnLoad = "none"
  MaxOps = 16
INIT Init
NEXT NextNoCrash
VIEW View0
INVARIANTS ReloadSame AlwaysLoads EncryptionWhole
ACTION_CONSTRAINT Emit
CHECK_DEADLOCK FALSE
