---- MODULE WalletDBObs ----
(* C43 on observations of the real wallet. Each line of env OBS:                                                          *)
(*   {act, where, load: "ok" | error, obs: the wallet a load produced (in the shape of WalletDB's wallet record, names of    *)
(*    the model), adm: [wallets the specification admits at that point]}                                                  *)
(* For a clean reload adm holds the one wallet the specification predicts; for a crash image taken inside an operation it   *)
(* holds a load of every prefix of the operation's database transactions (WalletDBRun's cr).                               *)
EXTENDS Naturals, Sequences, TLC, Json, IOUtils
ObsLines == ndJsonDeserialize(IOEnv.OBS)
VARIABLES idx, lastAct
Line == ObsLines[idx]
InitObs == idx \in 1..Len(ObsLines) /\ lastAct = <<"observed", idx>>
Stutter == UNCHANGED <<idx, lastAct>>
\* the wallet always loads
ObsLoads == Line.load = "ok"
\* reload = the same wallet; after a crash every grouped update is completely present or completely absent
ObsAdmissible == Line.load = "ok" => \E i \in 1..Len(Line.adm) : Line.obs = Line.adm[i]
\* never half encrypted (WalletDB!EncWhole on the observed wallet)
ObsEncWhole == Line.load = "ok" =>
    \A d \in DOMAIN Line.obs.desc : (Line.obs.desc[d].present /\ Line.obs.key[d] # "none") => (Line.obs.key[d] = "crypted" <=> Line.obs.sc.mkey # "none")
====
