---- MODULE KeypoolObs ----
(* C62 on observations of the real wallet. Each line of env OBS lists, in the order they were handed out, every address   *)
(* one wallet returned over its sessions (clean reloads and restarts from crash images in between), for crash lines        *)
(* followed by one fresh address of every active descriptor requested from the wallet that was loaded from the crash      *)
(* image:  {act, where, load: "ok" | error, addrs: [address...], pairs: [[descriptor, index]...]}.                         *)
(* The state of Keypool is rebuilt from the line (returned = the observed pairs, dup = some pair occurs twice) and the     *)
(* specification's own invariant NoRepeat is evaluated on it.                                                             *)
EXTENDS Keypool, Sequences, Json, IOUtils
ObsLines == ndJsonDeserialize(IOEnv.OBS)
VARIABLE idx
Line == ObsLines[idx]
ToSet(s) == {s[i] : i \in 1..Len(s)}
Pairs(L) == [i \in 1..Len(L.pairs) |-> <<L.pairs[i][1], L.pairs[i][2]>>]
InitObs == /\ idx \in 1..Len(ObsLines)
           /\ nextMem = [d \in Descs |-> 0] /\ rangeMem = nextMem /\ nextDisk = nextMem /\ rangeDisk = nextMem
           /\ nextDur = nextMem /\ rangeDur = nextMem /\ pc = Idle /\ ncrash = 0 /\ lock = "plain" /\ hist = <<>>
           /\ returned = ToSet(Pairs(ObsLines[idx]))
           /\ dup = (Cardinality(ToSet(Pairs(ObsLines[idx]))) # Len(ObsLines[idx].pairs))
           /\ lastAct = <<"observed", idx>> /\ lastRes = <<"none">>
Stutter == UNCHANGED <<vars, idx>>
\* the wallet loads from the image (otherwise nothing can be said about the addresses it would hand out)
ObsLoadOK == Line.load = "ok"
\* the property on the address strings themselves
ObsNoRepeatAddr == \A i, j \in 1..Len(Line.addrs) : i # j => Line.addrs[i] # Line.addrs[j]
\* every request the specification does not expect to fail was answered (failed = unexpected failures). Not part of C62 (the wallet may refuse
\* more often than the specification without ever repeating an address): reported in the evidence, not checked as an invariant
ObsAllAnswered == Line.load = "ok" => Line.failed = 0
====
