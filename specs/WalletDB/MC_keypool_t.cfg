CONSTANTS
  Descs = {"a", "b", "c"}
  K = 2
  MaxNext = 4
  Variant = "ok"
  MidCrash = TRUE
  ReqDescs = {"a", "b", "c"}
  TopUps = {0, 4}
INIT Init
NEXT Next
VIEW View0
INVARIANTS NoRepeat ReturnedBelowNext RangeCovers TypeOK
CHECK_DEADLOCK FALSE
