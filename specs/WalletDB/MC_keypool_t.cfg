CONSTANTS
  Descs = {"a", "b", "c"}
  K = 2
  MaxNext = 4
  Variant = "ok"
  MidCrash = TRUE
  ReqDescs = {"a", "b", "c"}
  Hard = {"b"}
  ViaReserve = {"b"}
  InitLocks = {"plain", "unlocked"}
  TopUps = {0, 4}
INIT Init
NEXT Next
VIEW View0
INVARIANTS NoRepeat ReturnedBelowNext RangeCovers TypeOK
PROPERTY FailNoChange
CHECK_DEADLOCK FALSE
