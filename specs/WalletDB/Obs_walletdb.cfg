INIT InitObs
NEXT Stutter
INVARIANTS ObsLoads ObsAdmissible ObsEncWhole
CHECK_DEADLOCK FALSE
