---- MODULE MC_tree5 ----
EXTENDS CrashRecovery
\* tree: 0 <- 1 <- 2 <- 3 ; 1 <- 4 <- 5.   Spends: 1 spends coin 0, 2 spends coin 1, 3 none, 4 spends coin 1, 5 spends coin 3(invalid on its branch -> never connectable) 
ParentDef == <<0, 1, 2, 1, 4>>
SpendDef == <<0, 1, -1, 1, 4>>
====
