CONSTANTS
  N = 5
  Parent <- ParentDef
  Spend <- SpendDef
  MaxFlush = 2
  IndexFirst = FALSE
INIT Init
NEXT Next
INVARIANT RecoveryOK
CHECK_DEADLOCK FALSE
