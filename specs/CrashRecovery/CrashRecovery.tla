---- MODULE CrashRecovery ----
(* Prototype of the C16 model: flush protocol of Chainstate::FlushStateToDisk / CCoinsViewDB::BatchWrite
   (head-blocks marker, partial batches), crash (process kill / power loss), ReplayBlocks recovery. *)
EXTENDS Integers, Sequences, FiniteSets, TLC
CONSTANTS Parent,      \* Parent[b] for b in 1..N ; 0 is genesis
          Spend,       \* Spend[b] : the coin (block id) spent by block b, or -1
          N, MaxFlush, IndexFirst  \* IndexFirst = TRUE: correct order (index before coins)
Blocks == 0..N
RECURSIVE Anc(_)
Anc(b) == IF b = 0 THEN {0} ELSE {b} \cup Anc(Parent[b])
RECURSIVE Height(_)
Height(b) == IF b = 0 THEN 0 ELSE 1 + Height(Parent[b])
LCA(a, b) == CHOOSE x \in Anc(a) \cap Anc(b) : \A y \in Anc(a) \cap Anc(b) : Height(y) <= Height(x)
\* UTXO of the chain ending in b: every block creates coin b; block b spends Spend[b]
RECURSIVE Utxo(_)
Utxo(b) == IF b = 0 THEN {0} ELSE (Utxo(Parent[b]) \ {Spend[b]}) \cup {b}
\* a block is connectable on top of its parent iff its spend is available
ValidOn(b) == Spend[b] = -1 \/ Spend[b] \in Utxo(Parent[b])

NoBest == -1
VARIABLES acc,          \* blocks accepted (data written + in memory index)
          tip,          \* in-memory tip; the coins cache is Utxo(tip)
          everConn,     \* blocks that have been the tip at some time
          blkW, blkS, undoW, undoS,   \* block/undo data written / synced
          idxDB,        \* durable block index: [blk: set, undo: set]
          dblog, dbsync,\* coins DB as a log of batches and the synced watermark
          ph,           \* "run" | "f1" | "f2" | "f3" (writing coin batches) | "down" | "up"
          pend,         \* remaining coin entries to write in this flush: set of coins whose DB state differs
          fnew, fold,   \* new/old best of the flush in progress
          lastFlush, nflush, rec
vars == <<acc, tip, everConn, blkW, blkS, undoW, undoS, idxDB, dblog, dbsync, ph, pend, fnew, fold, lastFlush, nflush, rec>>

Batch(put, del, best, clearBest, heads, clearHeads) ==
  [put |-> put, del |-> del, best |-> best, clearBest |-> clearBest, heads |-> heads, clearHeads |-> clearHeads]
ApplyBatch(s, b) == [coins |-> (s.coins \ b.del) \cup b.put,
                     best |-> IF b.clearBest THEN NoBest ELSE IF b.best # NoBest THEN b.best ELSE s.best,
                     heads |-> IF b.clearHeads THEN <<>> ELSE IF b.heads # <<>> THEN b.heads ELSE s.heads]
RECURSIVE DbAt(_)
DbAt(k) == IF k = 0 THEN [coins |-> {0}, best |-> 0, heads |-> <<>>] ELSE ApplyBatch(DbAt(k - 1), dblog[k])
Db == DbAt(Len(dblog))

Init == /\ acc = {0} /\ tip = 0 /\ everConn = {0}
        /\ blkW = {0} /\ blkS = {0} /\ undoW = {0} /\ undoS = {0}
        /\ idxDB = [blk |-> {0}, undo |-> {0}]
        /\ dblog = <<>> /\ dbsync = 0 /\ ph = "run" /\ pend = {} /\ fnew = 0 /\ fold = 0
        /\ lastFlush = 0 /\ nflush = 0 /\ rec = <<>>

Accept(b) == /\ ph = "run" /\ b \in 1..N /\ b \notin acc /\ Parent[b] \in acc
             /\ acc' = acc \cup {b} /\ blkW' = blkW \cup {b}
             /\ UNCHANGED <<tip, everConn, blkS, undoW, undoS, idxDB, dblog, dbsync, ph, pend, fnew, fold, lastFlush, nflush, rec>>

\* one ConnectTip / DisconnectTip step towards the best accepted valid chain (most work, lowest id on ties)
Eligible(b) == b \in acc /\ \A x \in Anc(b) \ {0} : x \in acc /\ ValidOn(x)
BestTip == CHOOSE b \in {x \in Blocks : Eligible(x)} :
              \A c \in {x \in Blocks : Eligible(x)} : Height(c) < Height(b) \/ (Height(c) = Height(b) /\ c >= b)
Step == /\ ph = "run" /\ BestTip # tip
        /\ LET f == LCA(tip, BestTip) IN
           IF tip # f
           THEN /\ tip' = Parent[tip] /\ UNCHANGED undoW                 \* DisconnectTip
           ELSE LET nxt == CHOOSE x \in Anc(BestTip) \ {0} : Parent[x] = tip IN
                /\ tip' = nxt /\ undoW' = undoW \cup {nxt}                \* ConnectTip writes undo
        /\ everConn' = everConn \cup {tip'}
        /\ UNCHANGED <<acc, blkW, blkS, undoS, idxDB, dblog, dbsync, ph, pend, fnew, fold, lastFlush, nflush, rec>>

\* FlushStateToDisk, step by step.  f1: fsync block+undo files; f2: write+sync block index; f3: coin batches
FlushStart == /\ ph = "run" /\ nflush < MaxFlush /\ nflush' = nflush + 1
              /\ ph' = IF IndexFirst THEN "f1" ELSE "f3x"
              /\ fnew' = tip /\ fold' = Db.best
              /\ pend' = (Utxo(tip) \ Db.coins) \cup (Db.coins \ Utxo(tip))
              /\ UNCHANGED <<acc, tip, everConn, blkW, blkS, undoW, undoS, idxDB, dblog, dbsync, lastFlush, rec>>
F1 == /\ ph = "f1" /\ blkS' = blkW /\ undoS' = undoW /\ ph' = "f2"
      /\ UNCHANGED <<acc, tip, everConn, blkW, undoW, idxDB, dblog, dbsync, pend, fnew, fold, lastFlush, nflush, rec>>
F2 == /\ ph = "f2" /\ idxDB' = [blk |-> acc, undo |-> undoW] /\ ph' = "f3"
      /\ UNCHANGED <<acc, tip, everConn, blkW, blkS, undoW, undoS, dblog, dbsync, pend, fnew, fold, lastFlush, nflush, rec>>
\* first (or any non-final) partial batch: marker + a non-empty strict subset of the pending entries
Partial(S) ==
  /\ ph \in {"f3", "f3x"} /\ S # {} /\ S \subseteq pend /\ S # pend
  /\ dblog' = Append(dblog, Batch(S \cap Utxo(fnew), S \ Utxo(fnew), NoBest, TRUE, <<fnew, fold>>, FALSE))
  /\ pend' = pend \ S
  /\ UNCHANGED <<acc, tip, everConn, blkW, blkS, undoW, undoS, idxDB, dbsync, ph, fnew, fold, lastFlush, nflush, rec>>
Final ==
  /\ ph \in {"f3", "f3x"}
  /\ dblog' = Append(dblog, Batch(pend \cap Utxo(fnew), pend \ Utxo(fnew), fnew, FALSE, <<>>, TRUE))
  /\ pend' = {}
  /\ IF ph = "f3" THEN /\ ph' = "run" /\ lastFlush' = fnew /\ UNCHANGED <<blkS, undoS, idxDB>>
     ELSE \* wrong order variant: index written after the coins
          /\ ph' = "run" /\ lastFlush' = fnew /\ blkS' = blkW /\ undoS' = undoW
          /\ idxDB' = [blk |-> acc, undo |-> undoW]
  /\ UNCHANGED <<acc, tip, everConn, blkW, undoW, dbsync, fnew, fold, nflush, rec>>
\* LevelDB may sync its log at any time (memtable flush)
DbSync == /\ dbsync < Len(dblog) /\ dbsync' = Len(dblog)
          /\ UNCHANGED <<acc, tip, everConn, blkW, blkS, undoW, undoS, idxDB, dblog, ph, pend, fnew, fold, lastFlush, nflush, rec>>

\* ---- crash and recovery.  mode "kill": everything written survives; "power": only synced data,
\* coins DB = any prefix of the log at or after the synced watermark.
Recover(k, blk, undo) ==
  LET s == DbAt(k)
      idx == idxDB
      okIdx == /\ \A b \in idx.blk : b \in blk          \* every indexed block has its data on disk
               /\ \A b \in idx.undo : b \in undo
  IN IF ~okIdx THEN [ok |-> FALSE, why |-> "index refers to missing data", best |-> NoBest, coins |-> {}]
     ELSE IF s.heads = <<>>
          THEN IF s.best \in idx.blk THEN [ok |-> TRUE, why |-> "clean", best |-> s.best, coins |-> s.coins]
               ELSE [ok |-> FALSE, why |-> "best block not in index", best |-> s.best, coins |-> s.coins]
          ELSE LET nw == s.heads[1] od == s.heads[2] IN
               IF ~(nw \in idx.blk /\ od \in idx.blk)
               THEN [ok |-> FALSE, why |-> "replay: unknown head block", best |-> NoBest, coins |-> s.coins]
               ELSE LET f == LCA(od, nw)
                        down == Anc(od) \ Anc(f)      \* blocks to roll back (need block + undo data)
                        up == Anc(nw) \ Anc(f)        \* blocks to roll forward (need block data)
                    IN IF ~(down \subseteq idx.undo /\ down \subseteq idx.blk /\ up \subseteq idx.blk)
                       THEN [ok |-> FALSE, why |-> "replay: missing data", best |-> NoBest, coins |-> s.coins]
                       ELSE \* rollback: remove created coins, restore spent coins, highest first
                            LET RECURSIVE Back(_, _)
                                Back(c, b) == IF b = f THEN c
                                              ELSE Back((c \ {b}) \cup (IF Spend[b] = -1 THEN {} ELSE {Spend[b]}), Parent[b])
                                RECURSIVE Fwd(_, _)
                                Fwd(c, path) == IF path = <<>> THEN c
                                                ELSE Fwd((c \ {Spend[Head(path)]}) \cup {Head(path)}, Tail(path))
                                RECURSIVE Ord(_)
                                Ord(T) == IF T = {} THEN <<>>
                                          ELSE LET lo == CHOOSE x \in T : \A y \in T : Height(x) <= Height(y)
                                               IN <<lo>> \o Ord(T \ {lo})
                            IN [ok |-> TRUE, why |-> "replayed", best |-> nw, coins |-> Fwd(Back(s.coins, od), Ord(up))]

Crash(mode, k) ==
  /\ rec = <<>>
  /\ k \in dbsync..Len(dblog)
  /\ (mode = "kill") => k = Len(dblog)
  /\ LET r == IF mode = "kill" THEN Recover(k, blkW, undoW) ELSE Recover(k, blkS, undoS)
     IN rec' = <<mode, k, r>>
  /\ ph' = "dead"
  /\ UNCHANGED <<acc, tip, everConn, blkW, blkS, undoW, undoS, idxDB, dblog, dbsync, pend, fnew, fold, lastFlush, nflush>>

Next == \/ \E b \in Blocks : Accept(b)
        \/ Step \/ FlushStart \/ F1 \/ F2 \/ Final \/ DbSync
        \/ \E S \in SUBSET pend : Partial(S)
        \/ \E m \in {"kill", "power"}, k \in 0..Len(dblog) : Crash(m, k)

\* ---- the property
RecoveryOK == rec # <<>> =>
   LET r == rec[3] IN
   /\ r.ok
   /\ r.coins = Utxo(r.best)
   /\ r.best \in everConn
   /\ \* stored blocks let the node get back to at least the last completed flush
      Anc(lastFlush) \subseteq idxDB.blk
====
