---- MODULE Compressor ----
(***************************************************************************)
(* C18: the compressed on-disk encoding of UTXO entries                    *)
(* (src/compressor.cpp/.h, Coin::Serialize in src/coins.h,                 *)
(* TxInUndoFormatter in src/undo.h, VARINT in src/serialize.h).            *)
(*                                                                         *)
(* Amounts exceed TLC's 32-bit integers: naturals are little-endian        *)
(* decimal digit sequences (<<>> = 0, no most significant zeros) and       *)
(* CompressAmount / DecompressAmount / WriteVarInt / ReadVarInt are        *)
(* transcribed digit by digit.  Scripts are byte sequences; the special    *)
(* cases are decided on the bytes as the code does.  Whether a 65-byte     *)
(* public key is a curve point cannot be decided here: it is an input      *)
(* attribute of a row (key class) which the adapter realises with real     *)
(* keys.  One initial state per row (engine E4).                           *)
(***************************************************************************)
EXTENDS Integers, Sequences, FiniteSets, TLC, VF
CONSTANTS Tier      \* "quick" | "thorough": how many alternative byte values a template deviation tries

----
\* ---- naturals as little-endian decimal digit sequences
RECURSIVE Strip(_), FromInt(_), MulAdd(_, _, _), DecR(_), DM(_, _, _, _), ToInt(_)
Strip(d) == IF d # <<>> /\ d[Len(d)] = 0 THEN Strip(SubSeq(d, 1, Len(d) - 1)) ELSE d
FromInt(n) == IF n = 0 THEN <<>> ELSE <<n % 10>> \o FromInt(n \div 10)
ToInt(d) == IF d = <<>> THEN 0 ELSE d[1] + 10 * ToInt(Tail(d))                 \* only for values known to be small
\* d * k + c for small k, c
MulAdd(d, k, c) == IF d = <<>> THEN FromInt(c) ELSE LET v == d[1] * k + c IN <<v % 10>> \o MulAdd(Tail(d), k, v \div 10)
Inc(d) == MulAdd(d, 1, 1)
DecR(d) == IF d[1] > 0 THEN <<d[1] - 1>> \o Tail(d) ELSE <<9>> \o DecR(Tail(d))
Dec1(d) == Strip(DecR(d))                                                      \* d - 1, d > 0
\* long division by a small k, most significant digit first: [q, r]
DM(d, i, k, rem) == IF i = 0 THEN [q |-> <<>>, r |-> rem]
                    ELSE LET cur == rem * 10 + d[i]
                             rest == DM(d, i - 1, k, cur % k)
                         IN [q |-> rest.q \o <<cur \div k>>, r |-> rest.r]
DivMod(d, k) == LET x == DM(d, Len(d), k, 0) IN [q |-> Strip(x.q), r |-> x.r]
Shift(d, e) == IF d = <<>> THEN <<>> ELSE [i \in 1..e |-> 0] \o d                 \* d * 10^e
Less(a, b) == \/ Len(a) < Len(b)
              \/ Len(a) = Len(b) /\ \E i \in 1..Len(a) : a[i] < b[i] /\ \A j \in (i + 1)..Len(a) : a[j] = b[j]
Leq(a, b) == a = b \/ Less(a, b)
MaxMoney == Shift(<<1, 2>>, 14)                                                 \* 21 000 000 * 10^8
Rev(s) == [i \in 1..Len(s) |-> s[Len(s) + 1 - i]]

----
\* ---- CompressAmount / DecompressAmount, statement by statement
RECURSIVE DropZeros(_, _)
\* while (((n % 10) == 0) && e < 9) { n /= 10; e++; }
DropZeros(n, e) == IF n[1] = 0 /\ e < 9 THEN DropZeros(Tail(n), e + 1) ELSE [n |-> n, e |-> e]
CompressAmount(a) ==
  IF a = <<>> THEN <<>>
  ELSE LET t == DropZeros(a, 0) IN
       IF t.e < 9
       THEN LET d == t.n[1]                      \* int d = n % 10  (1..9)
                n == Tail(t.n)                   \* n /= 10
            IN Inc(MulAdd(MulAdd(n, 9, d - 1), 10, t.e))          \* 1 + (n*9 + d - 1)*10 + e
       ELSE Inc(MulAdd(Dec1(t.n), 10, 9))                         \* 1 + (n - 1)*10 + 9
DecompressAmount(x) ==
  IF x = <<>> THEN <<>>
  ELSE LET x1 == Dec1(x)                                          \* x--
           e == IF x1 = <<>> THEN 0 ELSE x1[1]                     \* e = x % 10
           x2 == IF x1 = <<>> THEN <<>> ELSE Tail(x1)               \* x /= 10
       IN IF e < 9
          THEN LET dm == DivMod(x2, 9)                            \* d = (x % 9) + 1; x /= 9
               IN Shift(MulAdd(dm.q, 10, dm.r + 1), e)            \* n = x*10 + d; e times n *= 10
          ELSE Shift(Inc(x2), e)                                  \* n = x + 1
\* the case analysis of the header comment, on the digit string: amount = m * 10^z, m not divisible by 10
RECURSIVE TrailingZeros(_)
TrailingZeros(a) == IF a[1] = 0 THEN 1 + TrailingZeros(Tail(a)) ELSE 0
CaseAnalysis(a) ==
  IF a = <<>> THEN <<>>
  ELSE LET z == TrailingZeros(a) IN
       IF z < 9 THEN LET m == SubSeq(a, z + 1, Len(a)) IN       \* e = z: digits "9*(m div 10) + (m mod 10) - 1" followed by e + 1
                     <<z + 1>> \o MulAdd(Tail(m), 9, m[1] - 1)
       ELSE <<0>> \o SubSeq(a, 10, Len(a))                       \* e = 9: 1 + 10*(a/10^9 - 1) + 9 = 10 * (a / 10^9)

----
\* ---- VARINT (serialize.h WriteVarInt / ReadVarInt, default mode), most significant group first
RECURSIVE VI(_, _), RV(_, _, _)
VI(n, first) == LET dm == DivMod(n, 128)
                    b == dm.r + (IF first THEN 0 ELSE 128)
                IN IF dm.q = <<>> THEN <<b>> ELSE VI(Dec1(dm.q), FALSE) \o <<b>>
VarInt(n) == VI(n, TRUE)
\* n = (n << 7) | (ch & 0x7F); if (ch & 0x80) n++; else return
RV(bytes, i, n) == LET ch == bytes[i]
                       n1 == MulAdd(n, 128, ch % 128)
                   IN IF ch >= 128 THEN RV(bytes, i + 1, Inc(n1)) ELSE [v |-> n1, next |-> i + 1]
ReadVarInt(bytes, i) == RV(bytes, i, <<>>)

----
\* ---- scripts
OP_DUP == 118  OP_HASH160 == 169  OP_EQUALVERIFY == 136  OP_CHECKSIG == 172  OP_EQUAL == 135  OP_RETURN == 106
MAX_SCRIPT_SIZE == 10000
NSPECIAL == 6
KeyValid(key) == key \in {"valid_even", "valid_odd"}       \* CPubKey::IsFullyValid of the 65 bytes, realised by the adapter
\* IsToKeyID / IsToScriptID / IsToPubKey as coded (C++ index i is s[i+1])
IsToKeyID(s) == Len(s) = 25 /\ s[1] = OP_DUP /\ s[2] = OP_HASH160 /\ s[3] = 20 /\ s[24] = OP_EQUALVERIFY /\ s[25] = OP_CHECKSIG
IsToScriptID(s) == Len(s) = 23 /\ s[1] = OP_HASH160 /\ s[2] = 20 /\ s[23] = OP_EQUAL
IsToPubKey33(s) == Len(s) = 35 /\ s[1] = 33 /\ s[35] = OP_CHECKSIG /\ (s[2] = 2 \/ s[2] = 3)
IsToPubKey65(s, key) == Len(s) = 67 /\ s[1] = 65 /\ s[67] = OP_CHECKSIG /\ s[2] = 4 /\ KeyValid(key)
NotSpecial == <<-1>>
CompressScript(s, key) ==
  IF IsToKeyID(s) THEN <<0>> \o SubSeq(s, 4, 23)
  ELSE IF IsToScriptID(s) THEN <<1>> \o SubSeq(s, 3, 22)
  ELSE IF IsToPubKey33(s) THEN <<s[2]>> \o SubSeq(s, 3, 34)
  ELSE IF IsToPubKey65(s, key) THEN <<4 + (s[66] % 2)>> \o SubSeq(s, 3, 34)     \* 0x04 | (pubkey[64] & 0x01)
  ELSE NotSpecial
\* ScriptCompression::Ser
SerScript(s, key) == LET c == CompressScript(s, key) IN
                     IF c # NotSpecial THEN c ELSE VarInt(FromInt(Len(s) + NSPECIAL)) \o s
SpecialSize(n) == IF n \in {0, 1} THEN 20 ELSE IF n \in {2, 3, 4, 5} THEN 32 ELSE 0
\* DecompressScript; y = the y coordinate CPubKey::Decompress computes (an oracle: for a valid key the original y)
DecompressScript(n, p, key, y) ==
  CASE n = 0 -> <<OP_DUP, OP_HASH160, 20>> \o p \o <<OP_EQUALVERIFY, OP_CHECKSIG>>
    [] n = 1 -> <<OP_HASH160, 20>> \o p \o <<OP_EQUAL>>
    [] n \in {2, 3} -> <<33, n>> \o p \o <<OP_CHECKSIG>>
    [] n \in {4, 5} -> IF KeyValid(key) THEN <<65, 4>> \o p \o y \o <<OP_CHECKSIG>> ELSE <<>>    \* Decompress() fails: script untouched
\* ScriptCompression::Unser at position i: [s, next]
UnserScript(bytes, i, key, y) ==
  LET v == ReadVarInt(bytes, i)
      n == ToInt(v.v)
  IN IF n < NSPECIAL
     THEN [s |-> DecompressScript(n, SubSeq(bytes, v.next, v.next + SpecialSize(n) - 1), key, y), next |-> v.next + SpecialSize(n)]
     ELSE IF n - NSPECIAL > MAX_SCRIPT_SIZE
          THEN [s |-> <<OP_RETURN>>, next |-> v.next + n - NSPECIAL]            \* overly long: replaced by a short invalid one
          ELSE [s |-> SubSeq(bytes, v.next, v.next + n - NSPECIAL - 1), next |-> v.next + n - NSPECIAL]
Spendable(s) == Len(s) <= MAX_SCRIPT_SIZE /\ (s = <<>> \/ s[1] # OP_RETURN)       \* !CScript::IsUnspendable()

\* declarative statement of the special cases: exact byte templates (-1 = any byte)
Wild(n) == [i \in 1..n |-> -1]
Matches(s, pat) == Len(s) = Len(pat) /\ \A i \in 1..Len(s) : pat[i] = -1 \/ pat[i] = s[i]
TemplateClass(s, key) ==
  IF Matches(s, <<OP_DUP, OP_HASH160, 20>> \o Wild(20) \o <<OP_EQUALVERIFY, OP_CHECKSIG>>) THEN "p2pkh"
  ELSE IF Matches(s, <<OP_HASH160, 20>> \o Wild(20) \o <<OP_EQUAL>>) THEN "p2sh"
  ELSE IF Matches(s, <<33, 2>> \o Wild(32) \o <<OP_CHECKSIG>>) \/ Matches(s, <<33, 3>> \o Wild(32) \o <<OP_CHECKSIG>>) THEN "p2pk33"
  ELSE IF Matches(s, <<65, 4>> \o Wild(64) \o <<OP_CHECKSIG>>) /\ KeyValid(key) THEN "p2pk65"
  ELSE "other"

----
\* ---- Coin (coins.h) and TxInUndoFormatter (undo.h); height < 2^31, value as digits
Code(h, cb) == MulAdd(FromInt(h), 2, IF cb THEN 1 ELSE 0)                       \* (nHeight << 1) | fCoinBase
SerTxOut(value, s, key) == VarInt(CompressAmount(value)) \o SerScript(s, key)
SerCoin(c) == VarInt(Code(c.h, c.cb)) \o SerTxOut(c.value, c.s, c.key)
SerUndo(c) == VarInt(Code(c.h, c.cb)) \o (IF c.h > 0 THEN <<0>> ELSE <<>>) \o SerTxOut(c.value, c.s, c.key)
ParseTxOut(bytes, i, key, y) == LET a == ReadVarInt(bytes, i)
                                    sc == UnserScript(bytes, a.next, key, y)
                                IN [value |-> DecompressAmount(a.v), s |-> sc.s, next |-> sc.next]
ParseCoin(bytes, key, y, undo) ==
  LET c == ReadVarInt(bytes, 1)
      hc == DivMod(c.v, 2)
      h == ToInt(hc.q)
      \* the undo format carries a dummy version varint when the height is non-zero
      at == IF undo /\ h > 0 THEN ReadVarInt(bytes, c.next).next ELSE c.next
      o == ParseTxOut(bytes, at, key, y)
  IN [h |-> h, cb |-> (hc.r = 1), value |-> o.value, s |-> o.s, consumed |-> o.next - 1]

----
\* ---- the enumerated domain
Pat20(v) == [i \in 1..20 |-> (i * 7 + v) % 256]
X32(v) == [i \in 1..32 |-> (i * 5 + v) % 256]
Y32(v, odd) == [i \in 1..32 |-> IF i = 32 THEN (IF odd THEN 201 ELSE 200) ELSE (i * 3 + v) % 256]
P2PKH(v) == <<OP_DUP, OP_HASH160, 20>> \o Pat20(v) \o <<OP_EQUALVERIFY, OP_CHECKSIG>>
P2SH(v) == <<OP_HASH160, 20>> \o Pat20(v) \o <<OP_EQUAL>>
P2PK33(pfx, v) == <<33, pfx>> \o X32(v) \o <<OP_CHECKSIG>>
P2PK65(pfx, v, odd) == <<65, pfx>> \o X32(v) \o Y32(v, odd) \o <<OP_CHECKSIG>>
Fill(n, b) == [i \in 1..n |-> b]
KeyOf(odd) == IF odd THEN "valid_odd" ELSE "valid_even"

\* base templates: [s, key, fixed (the template positions)]
Bases ==
  {[s |-> P2PKH(v), key |-> "none", fixed |-> {1, 2, 3, 24, 25}] : v \in {1, 200}} \cup
  {[s |-> P2SH(v), key |-> "none", fixed |-> {1, 2, 23}] : v \in {1, 200}} \cup
  {[s |-> P2PK33(p, 9), key |-> k, fixed |-> {1, 2, 35}] : p \in {2, 3}, k \in {"valid_even", "bad_x"}} \cup
  {[s |-> P2PK65(4, 9, odd), key |-> KeyOf(odd), fixed |-> {1, 2, 67}] : odd \in BOOLEAN} \cup
  {[s |-> P2PK65(4, 9, FALSE), key |-> k, fixed |-> {1, 2, 67}] : k \in {"bad_x", "bad_y"}}
AltVals == IF Tier = "quick"
           THEN {0, 1, 2, 3, 4, 5, 6, 7, 19, 20, 21, 32, 33, 34, 64, 65, 66, 75, 76, 105, 106, 117, 118, 119, 134, 135, 136, 137, 168, 169, 170, 171, 172, 173, 255}
           ELSE 0..255
\* every single-byte deviation at a template position
DevOf(b, p) == {[s |-> [b.s EXCEPT ![p] = a], key |-> b.key] : a \in AltVals \ {b.s[p]}}
DevSet == UNION {UNION {DevOf(b, p) : p \in b.fixed} : b \in Bases}
\* length deviations: one byte short / one byte long, payload one byte shorter / longer with a consistent push length
LenSet ==
  UNION {{[s |-> SubSeq(b.s, 1, Len(b.s) - 1), key |-> b.key], [s |-> b.s \o <<0>>, key |-> b.key], [s |-> <<0>> \o b.s, key |-> b.key]} : b \in Bases} \cup
  {[s |-> <<OP_DUP, OP_HASH160, n>> \o Fill(n, 7) \o <<OP_EQUALVERIFY, OP_CHECKSIG>>, key |-> "none"] : n \in {19, 21}} \cup
  {[s |-> <<OP_HASH160, n>> \o Fill(n, 7) \o <<OP_EQUAL>>, key |-> "none"] : n \in {19, 21}} \cup
  {[s |-> <<n, 2>> \o Fill(n - 1, 7) \o <<OP_CHECKSIG>>, key |-> "none"] : n \in {32, 34}} \cup
  {[s |-> <<n, 4>> \o Fill(n - 1, 7) \o <<OP_CHECKSIG>>, key |-> "none"] : n \in {64, 66}}
RawLens == {0, 1, 2, 19, 20, 21, 22, 23, 24, 25, 26, 32, 33, 34, 35, 36, 64, 65, 66, 67, 68, 75, 76, 120, 121, 122, 123, 255, 256, 520, 9999, 10000, 10001, 10002}
RawSet == {[s |-> Fill(n, b), key |-> "none"] : n \in RawLens, b \in {81, OP_RETURN}}
ScriptDomain == {[s |-> b.s, key |-> b.key] : b \in Bases} \cup DevSet \cup LenSet \cup RawSet

\* amounts: d * 10^e +- k, all n < 1000 (thorough: < 50000), the range boundaries
SmallMax == IF Tier = "quick" THEN 999 ELSE 49999
RECURSIVE MinusK(_, _)
MinusK(a, k) == IF k = 0 \/ a = <<>> THEN a ELSE MinusK(Dec1(a), k - 1)         \* saturating at 0
AmountDomain ==
  {a \in UNION {{MulAdd(Shift(<<d>>, e), 1, k) : k \in 0..2} \cup {MinusK(Shift(<<d>>, e), k) : k \in 1..2} : d \in 1..9, e \in 0..15} : Leq(a, MaxMoney)}
  \cup {FromInt(n) : n \in 0..SmallMax}
  \cup {MinusK(MaxMoney, k) : k \in 0..3}
  \cup {FromInt(100000000), FromInt(1000000), Shift(<<5>>, 9)}
EncodedDomain == {FromInt(n) : n \in 0..(2 * SmallMax + 1)} \cup {CompressAmount(a) : a \in {MaxMoney, MinusK(MaxMoney, 1)}}

Heights == {0, 1, 2, 63, 64, 8255, 8256, 1000000, 2147483647}
CoinScripts == {[s |-> P2PKH(1), key |-> "none"], [s |-> P2SH(200), key |-> "none"], [s |-> P2PK33(3, 9), key |-> "valid_even"],
                [s |-> P2PK65(4, 9, TRUE), key |-> "valid_odd"], [s |-> P2PK65(4, 9, FALSE), key |-> "bad_y"],
                [s |-> <<81>>, key |-> "none"], [s |-> <<>>, key |-> "none"], [s |-> Fill(122, 81), key |-> "none"]}
CoinAmounts == {<<>>, <<1>>, Shift(<<5>>, 9), MaxMoney, MinusK(MaxMoney, 1), FromInt(123456789)}
CoinDomain == {[h |-> h, cb |-> cb, value |-> a, s |-> sc.s, key |-> sc.key] : h \in Heights, cb \in BOOLEAN, a \in CoinAmounts, sc \in CoinScripts}

\* stand-alone DecompressScript of the pay-to-pubkey codes (database content is not necessarily our own output)
DecScriptDomain == {[code |-> c, key |-> k] : c \in 2..5, k \in {"valid_even", "valid_odd", "bad_x"}}

----
VARIABLE row
vars == <<row>>
YOf(s) == IF Len(s) = 67 THEN SubSeq(s, 35, 66) ELSE <<>>
Init ==
  \/ \E a \in AmountDomain : row = [kind |-> "amount", a |-> a]
  \/ \E x \in EncodedDomain : row = [kind |-> "decamt", x |-> x]
  \/ \E sc \in ScriptDomain : row = [kind |-> "script", s |-> sc.s, key |-> sc.key]
  \/ \E c \in CoinDomain : row = [kind |-> "coin", c |-> c]
  \/ \E d \in DecScriptDomain : row = [kind |-> "decscript", code |-> d.code, key |-> d.key]
Next == UNCHANGED vars

\* ---- the clauses of C18 as invariants
AmountRoundTrip == row.kind = "amount" => DecompressAmount(CompressAmount(row.a)) = row.a
AmountCases == row.kind = "amount" => CompressAmount(row.a) = CaseAnalysis(row.a)
\* decompression is also inverted by compression (the encoding is a bijection on the encoded values)
EncodedRoundTrip == row.kind = "decamt" => CompressAmount(DecompressAmount(row.x)) = row.x
VarIntRoundTrip == row.kind = "amount" => LET b == VarInt(CompressAmount(row.a)) IN
                                            ReadVarInt(b, 1) = [v |-> CompressAmount(row.a), next |-> Len(b) + 1]
\* the special-case decision is exactly the four byte templates
SpecialIffTemplate == row.kind = "script" =>
  ((CompressScript(row.s, row.key) # NotSpecial) <=> (TemplateClass(row.s, row.key) # "other"))
SpecialEncoding == row.kind = "script" => LET c == CompressScript(row.s, row.key) t == TemplateClass(row.s, row.key) IN
  /\ t \in {"p2pkh", "p2sh"} => Len(c) = 21 /\ c[1] = (IF t = "p2pkh" THEN 0 ELSE 1)
  /\ t = "p2pk33" => Len(c) = 33 /\ c[1] = row.s[2]
  /\ t = "p2pk65" => Len(c) = 33 /\ c[1] = (IF row.key = "valid_odd" THEN 5 ELSE 4)
  /\ t = "other" => Len(SerScript(row.s, row.key)) = Len(row.s) + (IF Len(row.s) <= 121 THEN 1 ELSE IF Len(row.s) <= 16505 THEN 2 ELSE 3)
\* every spendable script is restored exactly
ScriptRoundTrip == row.kind = "script" => LET b == SerScript(row.s, row.key) u == UnserScript(b, 1, row.key, YOf(row.s)) IN
  /\ u.next = Len(b) + 1
  /\ Spendable(row.s) => u.s = row.s
  /\ ~Spendable(row.s) => u.s = row.s \/ u.s = <<OP_RETURN>>
CoinRoundTrip == row.kind = "coin" => LET c == row.c IN
  /\ LET p == ParseCoin(SerCoin(c), c.key, YOf(c.s), FALSE) IN
       p.h = c.h /\ p.cb = c.cb /\ p.value = c.value /\ p.s = c.s /\ p.consumed = Len(SerCoin(c))
  /\ LET p == ParseCoin(SerUndo(c), c.key, YOf(c.s), TRUE) IN
       p.h = c.h /\ p.cb = c.cb /\ p.value = c.value /\ p.s = c.s /\ p.consumed = Len(SerUndo(c))
\* the pairs quoted in src/test/compress_tests.cpp
KnownPairs == /\ CompressAmount(<<>>) = <<>> /\ CompressAmount(<<1>>) = <<1>>
              /\ CompressAmount(FromInt(1000000)) = FromInt(7) /\ CompressAmount(FromInt(100000000)) = FromInt(9)
              /\ CompressAmount(Shift(<<5>>, 9)) = FromInt(50) /\ CompressAmount(MaxMoney) = FromInt(21000000)

Dec(d) == Rev(d)      \* most significant digit first, for the adapter
EmitRow ==
  CASE row.kind = "amount" -> VFRow([kind |-> "amount", a |-> Dec(row.a), comp |-> Dec(CompressAmount(row.a)), ser |-> VarInt(CompressAmount(row.a))])
    [] row.kind = "decamt" -> VFRow([kind |-> "decamt", x |-> Dec(row.x), dec |-> Dec(DecompressAmount(row.x))])
    [] row.kind = "script" -> LET c == CompressScript(row.s, row.key) IN
         VFRow([kind |-> "script", s |-> row.s, key |-> row.key, special |-> c # NotSpecial, comp |-> IF c = NotSpecial THEN <<>> ELSE c,
                head |-> IF c = NotSpecial THEN VarInt(FromInt(Len(row.s) + NSPECIAL)) ELSE <<>>,
                back |-> IF Len(row.s) > MAX_SCRIPT_SIZE THEN "op_return" ELSE "same", spendable |-> Spendable(row.s)])
    [] row.kind = "coin" -> LET c == CompressScript(row.c.s, row.c.key) IN
         VFRow([kind |-> "coin", h |-> row.c.h, cb |-> row.c.cb, value |-> Dec(row.c.value), s |-> row.c.s, key |-> row.c.key,
                special |-> c # NotSpecial, comp |-> IF c = NotSpecial THEN <<>> ELSE c,
                head |-> IF c = NotSpecial THEN VarInt(FromInt(Len(row.c.s) + NSPECIAL)) ELSE <<>>,
                pre |-> VarInt(Code(row.c.h, row.c.cb)) \o VarInt(CompressAmount(row.c.value)),
                undopre |-> VarInt(Code(row.c.h, row.c.cb)) \o (IF row.c.h > 0 THEN <<0>> ELSE <<>>) \o VarInt(CompressAmount(row.c.value)),
                serlen |-> Len(SerCoin(row.c)), undolen |-> Len(SerUndo(row.c))])
    [] row.kind = "decscript" -> VFRow([kind |-> "decscript", code |-> row.code, key |-> row.key, ok |-> row.code \in {2, 3} \/ row.key # "bad_x",
                                        parity |-> row.code % 2])
====
