CONSTANTS
  Tier = "quick"
INIT Init
NEXT Next
INVARIANTS AmountRoundTrip AmountCases EncodedRoundTrip VarIntRoundTrip SpecialIffTemplate SpecialEncoding ScriptRoundTrip CoinRoundTrip KnownPairs EmitRow
CHECK_DEADLOCK FALSE
