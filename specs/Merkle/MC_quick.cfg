CONSTANTS
  Alphabet = {"a", "b"}
  MaxLen = 8
  DistinctLens = {1, 2, 3, 4, 5, 6, 7, 8, 9, 10, 11, 12, 13, 14, 15, 16, 17}
  CheckUnique = FALSE
INIT Init
NEXT Next
INVARIANTS SameRoot DupFlagged LongerFlagged NoRepeatClean PathFolds PathLen EmitRow
CHECK_DEADLOCK FALSE
