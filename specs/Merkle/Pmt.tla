---- MODULE Pmt ----
(***************************************************************************)
(* C51, partial merkle trees (src/merkleblock.cpp, BIP37): Build(l, m)     *)
(* for a transaction-id list l and match flags m, then ExtractMatches, as  *)
(* coded (depth-first traversal, one flag bit per visited node, one hash   *)
(* per pruned subtree or leaf; extraction re-reads both arrays with        *)
(* counters and refuses a tree in which a visited node has two identical   *)
(* children).  Hashes are the injective terms of MerkleTree.               *)
(* Theorems: for a list without repeated ids extraction gives exactly the  *)
(* matched ids in order, their positions, and the block's merkle root;     *)
(* whenever extraction succeeds at all -- repeated ids or not -- it gives  *)
(* that; a CVE-2012-2459 duplication whose duplicated part contains a      *)
(* match is refused.                                                       *)
(***************************************************************************)
EXTENDS MerkleTree, VF
CONSTANTS Alphabet, MaxLen, DistinctLens, VariantLens
Width(n, h) == (n + Pow2(h) - 1) \div Pow2(h)
Height(n) == Depth(n)
RECURSIVE Node(_, _, _), Build(_, _, _, _), Ext(_, _, _, _, _, _)
\* CalcHash
Node(l, h, pos) == IF h = 0 THEN l[pos + 1]
                   ELSE LET left == Node(l, h - 1, 2 * pos) IN
                        H(left, IF 2 * pos + 1 < Width(Len(l), h - 1) THEN Node(l, h - 1, 2 * pos + 1) ELSE left)
ParentOfMatch(l, m, h, pos) == \E p \in (pos * Pow2(h))..((pos + 1) * Pow2(h) - 1) : p < Len(l) /\ m[p + 1]
\* TraverseAndBuild: [bits, hashes]
Build(l, m, h, pos) ==
  LET pm == ParentOfMatch(l, m, h, pos) IN
  IF h = 0 \/ ~pm THEN [bits |-> <<pm>>, hashes |-> <<Node(l, h, pos)>>]
  ELSE LET L == Build(l, m, h - 1, 2 * pos) IN
       IF 2 * pos + 1 < Width(Len(l), h - 1)
       THEN LET R == Build(l, m, h - 1, 2 * pos + 1) IN [bits |-> <<pm>> \o L.bits \o R.bits, hashes |-> L.hashes \o R.hashes]
       ELSE [bits |-> <<pm>> \o L.bits, hashes |-> L.hashes]
\* TraverseAndExtract over (B, HS) for n transactions; st = [bu, hu, matched, idx, bad, ret]
Ext(B, HS, n, h, pos, st) ==
  IF st.bu >= Len(B) THEN [st EXCEPT !.bad = TRUE, !.ret = Zero]
  ELSE LET pm == B[st.bu + 1]
           s1 == [st EXCEPT !.bu = @ + 1]
       IN IF h = 0 \/ ~pm
          THEN IF s1.hu >= Len(HS) THEN [s1 EXCEPT !.bad = TRUE, !.ret = Zero]
               ELSE LET hash == HS[s1.hu + 1] IN
                    [s1 EXCEPT !.hu = @ + 1, !.ret = hash,
                               !.matched = IF h = 0 /\ pm THEN Append(@, hash) ELSE @,
                               !.idx = IF h = 0 /\ pm THEN Append(@, pos) ELSE @]
          ELSE LET L == Ext(B, HS, n, h - 1, 2 * pos, s1) IN
               IF 2 * pos + 1 < Width(n, h - 1)
               THEN LET R == Ext(B, HS, n, h - 1, 2 * pos + 1, L) IN
                    [R EXCEPT !.ret = H(L.ret, R.ret), !.bad = R.bad \/ R.ret = L.ret]
               ELSE [L EXCEPT !.ret = H(L.ret, L.ret)]
CeilDiv8(x) == (x + 7) \div 8
\* ExtractMatches: [ok, root, matched, idx]
Extract(B, HS, n) ==
  LET fail == [ok |-> FALSE, root |-> Zero, matched |-> <<>>, idx |-> <<>>] IN
  IF n = 0 \/ Len(HS) > n \/ Len(B) < Len(HS) THEN fail
  ELSE LET r == Ext(B, HS, n, Height(n), 0, [bu |-> 0, hu |-> 0, matched |-> <<>>, idx |-> <<>>, bad |-> FALSE, ret |-> Zero]) IN
       IF r.bad \/ CeilDiv8(r.bu) # CeilDiv8(Len(B)) \/ r.hu # Len(HS) THEN fail
       ELSE [ok |-> TRUE, root |-> r.ret, matched |-> r.matched, idx |-> r.idx]

Enum == UNION {[1..k -> Alphabet] : k \in 1..MaxLen}
Distinct(n) == [i \in 1..n |-> "t" \o ToString(i)]
Lists == Enum \cup {Distinct(n) : n \in DistinctLens} \cup UNION {Variants(Distinct(n)) : n \in VariantLens}
VARIABLES l, m, ph
vars == <<l, m, ph>>
Init == l \in Lists /\ m = <<>> /\ ph = 0
Next == ph = 0 /\ ph' = 1 /\ l' = l /\ m' \in [1..Len(l) -> BOOLEAN]
PT == Build(l, m, Height(Len(l)), 0)
Res == Extract(PT.bits, PT.hashes, Len(l))
MatchedIdx == SelectSeq([i \in 1..Len(l) |-> i - 1], LAMBDA p : m[p + 1])
MatchedIds == [i \in 1..Len(MatchedIdx) |-> l[MatchedIdx[i] + 1]]
\* ---- theorems
ExactWhenOK == (ph = 1 /\ Res.ok) => (Res.root = Root(l) /\ Res.matched = MatchedIds /\ Res.idx = MatchedIdx)
OKWhenNoRepeat == (ph = 1 /\ NoRepeat(l)) => Res.ok
\* the CVE-2012-2459 abuse of a merkle block -- "proving" one transaction at two positions of a list with a duplicated tail --
\* is refused: an accepted tree over such a list never yields the same id twice
NoDoubleProof == (ph = 1 /\ Res.ok /\ (\E k \in VariantLens : l \in Variants(Distinct(k)))) => NoRepeat(Res.matched)
\* sizes as the serialisation expects them
Sizes == ph = 1 => (Len(PT.hashes) <= Len(l) /\ Len(PT.bits) >= Len(PT.hashes))
EmitRow == ph = 1 => VFRow([l |-> l, m |-> m, ok |-> Res.ok, root |-> Res.root, matched |-> Res.matched, idx |-> Res.idx,
                            nbits |-> Len(PT.bits), nhashes |-> Len(PT.hashes)])
====
