CONSTANTS
  Alphabet = {"a", "b"}
  MaxLen = 4
  DistinctLens = {1, 2, 3, 4, 5, 6, 7, 8, 9}
  VariantLens = {3, 5, 6}
INIT Init
NEXT Next
INVARIANTS ExactWhenOK OKWhenNoRepeat NoDoubleProof Sizes EmitRow
CHECK_DEADLOCK FALSE
