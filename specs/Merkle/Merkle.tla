---- MODULE Merkle ----
(***************************************************************************)
(* C04 part (a), engine E4: the theorems about MerkleTree on an enumerated *)
(* domain, and one oracle-table row per (list, variant) that the harness   *)
(* replays on ComputeMerkleRoot / BlockMerkleRoot / TransactionMerklePath  *)
(* / BlockWitnessMerkleRoot.                                               *)
(***************************************************************************)
EXTENDS MerkleTree, VF
CONSTANTS Alphabet,       \* leaf identifiers of the exhaustively enumerated lists
          MaxLen,         \* ... of length 0..MaxLen
          DistinctLens,   \* lengths n of the lists t1..tn (no repeated leaf)
          CheckUnique     \* evaluate the quadratic "at most one unflagged list per root" theorem (small configurations)
Enum == UNION {[1..k -> Alphabet] : k \in 0..MaxLen}
Distinct(n) == [i \in 1..n |-> "t" \o ToString(i)]
Bases == Enum \cup {Distinct(n) : n \in DistinctLens}

\* ph = 0: a base list has been chosen (one initial state per base list, cheap); ph = 1: one of its variants has been chosen.
\* Two phases only so that TLC's workers evaluate the theorems in parallel (initial states are processed by one thread).
VARIABLES l, v, ph
vars == <<l, v, ph>>
Init == l \in Bases /\ v = l /\ ph = 0
Next == ph = 0 /\ ph' = 1 /\ l' = l /\ v' \in Variants(l)

\* ---- theorems (INVARIANTs)
SameRoot == ph = 1 => Root(v) = Root(l)
DupFlagged == (ph = 1 /\ v # l) => (Mutated(v) \/ Mutated(l))                 \* two different lists with one root: one of them is flagged
LongerFlagged == (ph = 1 /\ Len(v) > Len(l)) => Mutated(v)                    \* ... namely the one that materialises the duplicate
NoRepeatClean == NoRepeat(l) => ~Mutated(l)
PathFolds == ph = 1 => \A i \in 1..Len(v) : Fold(Path(v, i), v[i], i - 1) = Root(v)
PathLen == ph = 1 => \A i \in 1..Len(v) : Len(Path(v, i)) = Depth(Len(v))
\* completeness and uniqueness on the enumerated domain: the lists sharing l's root are exactly its variants, and at most one
\* of them is unflagged -- the reason why "root matches /\ not flagged" binds the header to exactly one transaction list
RootTab == [x \in Enum |-> Root(x)]          \* constant: evaluated once
Unique == (CheckUnique /\ ph = 0 /\ l \in Enum) =>
            LET V == Variants(l)
                r == Root(l)
                m == Mutated(l)
            IN \A x \in Enum : RootTab[x] = r => (x \in V /\ (x # l => (m \/ Mutated(x))))

EmitRow == ph = 1 => VFRow([l |-> l, v |-> v, root |-> Root(v), mutated |-> Mutated(v), lmutated |-> Mutated(l),
                  paths |-> [i \in 1..Len(v) |-> Path(v, i)], wroot |-> WRoot(v)])
\* long lists: paths only for a few positions (each path term is as large as the tree)
PathPos(n) == {i \in {1, 2, 3, n \div 2, n \div 2 + 1, n - 2, n - 1, n} : i >= 1 /\ i <= n}
EmitRowLong == ph = 1 => VFRow([l |-> l, v |-> v, root |-> Root(v), mutated |-> Mutated(v), lmutated |-> Mutated(l),
                      ppos |-> [i \in PathPos(Len(v)) |-> Path(v, i)], wroot |-> WRoot(v)])
PathFoldsLong == ph = 1 => \A i \in PathPos(Len(v)) : Fold(Path(v, i), v[i], i - 1) = Root(v)
====
