CONSTANTS
  Scenario = "chain_wp"
  Track = FALSE
INIT InitObs
NEXT Stutter
INVARIANTS ObsNeverBlamed ObsMutatedStepOK ObsGenuineStepOK ObsHeaderStepOK ObsTipOK
CHECK_DEADLOCK FALSE
