---- MODULE MutatedBlocks ----
(***************************************************************************)
(* C04 part (b): a node that receives, in any order, genuine blocks and    *)
(* malleated variants carrying the SAME header (hence the same hash).      *)
(* Actions follow ProcessNewBlock (src/validation.cpp): CheckBlock (merkle *)
(* root, CVE-2012-2459 flag) runs before the header is even looked up;     *)
(* AcceptBlock = AcceptBlockHeader, "already have", ContextualCheckBlock   *)
(* (BIP34 height, then CheckWitnessMalleation, then weight), store,        *)
(* activate.  InvalidBlockFound does not mark BLOCK_MUTATED results.       *)
(*                                                                         *)
(* World (constant per scenario): genuine blocks 1..NB on top of a base    *)
(* chain (block 0 = its tip); Parent, Content:                             *)
(*   plain3 / plain6  coinbase + 2 / 5 legacy spends, no witness commitment*)
(*   wit3             coinbase with commitment + 2 witness spends          *)
(*   inv3             like plain3 but with a wrong BIP34 height: the       *)
(*                    genuine block itself is invalid (control: marking    *)
(*                    does happen, and only for it)                        *)
(* Variant kinds (all keep the header):                                    *)
(*   dup      duplicated tail transactions (3 txs: the last; 6: the last   *)
(*            two -- the equal pair then sits one level above the leaves)  *)
(*   txdrop / txswap   last transaction removed / last two exchanged       *)
(*   witstrip / witalter / stuffed   a witness removed / changed / blown   *)
(*            up beyond the block weight limit                             *)
(*   nonce31  coinbase reserved value of the wrong size                    *)
(*   witadd   witness data in a block that commits to none                 *)
(***************************************************************************)
EXTENDS Integers, Sequences, FiniteSets, TLC, VF
CONSTANTS Scenario,
          Track        \* keep the history component att (2-block scenarios); FALSE: node state only (3-block scenarios)
Scenarios == [
  chain_wp  |-> [parent |-> <<0, 1>>,    content |-> <<"wit3", "plain6">>],
  fork_pw   |-> [parent |-> <<0, 0>>,    content |-> <<"plain3", "wit3">>],
  fork_iw   |-> [parent |-> <<0, 0>>,    content |-> <<"inv3", "wit3">>],
  chain_pw  |-> [parent |-> <<0, 1>>,    content |-> <<"plain3", "wit3">>],
  tree3     |-> [parent |-> <<0, 1, 0>>, content |-> <<"wit3", "wit3", "plain6">>],
  chain3    |-> [parent |-> <<0, 1, 2>>, content |-> <<"plain6", "wit3", "plain3">>],
  tree3i    |-> [parent |-> <<0, 0, 2>>, content |-> <<"inv3", "wit3", "plain3">>] ]
W == Scenarios[Scenario]
NB == Len(W.parent)
Blocks == 1..NB
Parent(b) == W.parent[b]
Content(b) == W.content[b]
MerkleKinds == {"dup", "txdrop", "txswap"}                 \* caught by CheckMerkleRoot (CheckBlock)
WitnessKinds == {"witstrip", "witalter", "stuffed", "nonce31", "witadd"}   \* caught by CheckWitnessMalleation (ContextualCheckBlock)
KindsOf(c) == CASE c = "wit3" -> MerkleKinds \cup {"witstrip", "witalter", "stuffed", "nonce31"}
                [] c = "inv3" -> MerkleKinds               \* (its witness variants fail the BIP34 rule first, like the genuine block)
                [] OTHER -> MerkleKinds \cup {"witadd"}
Valid(b) == Content(b) # "inv3"

RECURSIVE Height(_), Anc(_)
Height(b) == IF b = 0 THEN 0 ELSE 1 + Height(Parent(b))
Anc(b) == IF b = 0 THEN {0} ELSE {b} \cup Anc(Parent(b))
\* tie-break safety of the scenarios: equal-height blocks above height 1 do not occur, invalid blocks have no children
ASSUME \A a, b \in Blocks : (a # b /\ Height(a) = Height(b)) => Height(a) = 1
ASSUME \A b \in Blocks : Parent(b) = 0 \/ Valid(Parent(b))

\* att[b]: the kind of the most recent variant of b that was delivered while b's data was not stored ("none": none yet).
\* History only -- no action reads it -- but part of the state, so that the replayed graph contains, for every node state,
\* every "variant k came last, now this happens" continuation (an implementation could remember a variant in a way the four
\* observed components do not show).
VARIABLES hdr, data, failed, tip, att, lastAct, lastRes
node == <<hdr, data, failed, tip>>
vars == <<node, att, lastAct, lastRes>>
View0 == <<node, att>>

\* result of one delivery: ProcessNewBlock's return value and new_block flag, the class of the BlockChecked verdict, IsBlockMutated,
\* and what compact-block reconstruction (PartiallyDownloadedBlock::InitData / FillBlock over a compact block made from the delivered
\* body) says: a genuine body reconstructs ("ok"), a variant is refused ("failed": possible short-id collision, the full block is
\* requested instead -- nobody is blamed)
Res(ret, new, verdict, ismut) == [ret |-> ret, new |-> new, verdict |-> verdict, ismut |-> ismut,
                                  cmpct |-> IF ismut THEN "failed" ELSE "ok"]
Init == /\ hdr = {0} /\ data = {0} /\ failed = {} /\ tip = 0 /\ att = [b \in Blocks |-> "none"]
        /\ lastAct = <<"init">> /\ lastRes = Res(TRUE, FALSE, "ok", FALSE)

\* AcceptBlockHeader
HeaderCase(b) == IF b \in hdr THEN (IF b \in failed THEN "known-failed" ELSE "known")
                 ELSE IF Parent(b) \notin hdr THEN "no-prev"
                 ELSE IF Parent(b) \in failed THEN "bad-prev" ELSE "new"
HeaderVerdict(hc) == CASE hc = "known-failed" -> "cached-invalid" [] hc = "no-prev" -> "missing-prev" [] hc = "bad-prev" -> "invalid-prev" [] OTHER -> "ok"

\* ActivateBestChain with every stored block valid: the tip moves only to strictly more work; first-seen wins ties
Eligible(D, F) == {b \in D : Anc(b) \subseteq D /\ Anc(b) \cap F = {}}
NewTip(D, F, t) == LET E == Eligible(D, F)
                       top == CHOOSE b \in E : \A c \in E : Height(c) <= Height(b)
                   IN IF Height(top) > Height(t) THEN top ELSE t

DeliverHeader(b) ==
  /\ hdr' = IF HeaderCase(b) = "new" THEN hdr \cup {b} ELSE hdr
  /\ UNCHANGED <<data, failed, tip, att>>
  /\ lastAct' = <<"header", b>>
  /\ lastRes' = Res(HeaderCase(b) \in {"new", "known"}, FALSE, HeaderVerdict(HeaderCase(b)), FALSE)

DeliverGenuine(b) ==
  /\ lastAct' = <<"genuine", b>> /\ UNCHANGED att
  /\ LET hc == HeaderCase(b) IN
     IF hc \in {"known-failed", "no-prev", "bad-prev"}
     THEN UNCHANGED node /\ lastRes' = Res(FALSE, FALSE, HeaderVerdict(hc), FALSE)
     ELSE IF b \in data
     THEN UNCHANGED node /\ lastRes' = Res(TRUE, FALSE, "ok", FALSE)
     ELSE IF ~Valid(b)
     THEN /\ hdr' = hdr \cup {b} /\ failed' = failed \cup {b} /\ UNCHANGED <<data, tip>>
          /\ lastRes' = Res(FALSE, FALSE, "consensus", FALSE)
     ELSE /\ hdr' = hdr \cup {b} /\ data' = data \cup {b} /\ UNCHANGED failed
          /\ tip' = NewTip(data \cup {b}, failed, tip)
          /\ lastRes' = Res(TRUE, TRUE, "ok", FALSE)

DeliverMutated(b, k) ==
  /\ k \in KindsOf(Content(b))
  /\ lastAct' = <<"mutated", b, k>>
  /\ att' = IF b \in data \/ ~Track THEN att ELSE [att EXCEPT ![b] = k]
  /\ IF k \in MerkleKinds
     THEN \* CheckBlock fails: AcceptBlock is not even entered, the header stays unknown if it was
          UNCHANGED node /\ lastRes' = Res(FALSE, FALSE, "mutated", TRUE)
     ELSE LET hc == HeaderCase(b) IN
          IF hc \in {"known-failed", "no-prev", "bad-prev"}
          THEN UNCHANGED node /\ lastRes' = Res(FALSE, FALSE, HeaderVerdict(hc), TRUE)
          ELSE IF b \in data
          THEN UNCHANGED node /\ lastRes' = Res(TRUE, FALSE, "ok", TRUE)      \* "already have": not examined
          ELSE /\ hdr' = hdr \cup {b} /\ UNCHANGED <<data, failed, tip>>       \* the header is fine, the body is not: not marked
               /\ lastRes' = Res(FALSE, FALSE, "mutated", TRUE)

Next == \E b \in Blocks : \/ DeliverHeader(b) \/ DeliverGenuine(b)
                          \/ \E k \in MerkleKinds \cup WitnessKinds : DeliverMutated(b, k)
Spec == Init /\ [][Next]_vars

----
\* ---- the property, as predicates over (pre-state, action, result, post-state) so that module MutatedBlocksObs can evaluate
\* ---- them on states observed in the implementation
\* no valid genuine block is ever marked failed
NeverBlamedIn(F) == \A b \in F : ~Valid(b)
\* a variant marks nothing, stores nothing, is recognised by IsBlockMutated, and if ProcessNewBlock judges it at all, as MUTATED
MutatedStepOK(D, F, r, D2, F2) ==
  /\ F2 = F /\ D2 = D
  /\ r.ismut /\ r.cmpct # "ok"
  /\ r.verdict \in {"mutated", "missing-prev", "cached-invalid", "invalid-prev", "ok"}
  /\ ~r.new
\* a genuine block whose header is acceptable is accepted, stored, never reported, and connected as soon as its ancestors are there
GenuineStepOK(H, D, F, b, r, H2, D2, F2, t2) ==
  /\ ~r.ismut /\ r.cmpct = "ok"
  /\ (Valid(b) /\ (b \in H \/ Parent(b) \in H) /\ b \notin F /\ Parent(b) \notin F) =>
        /\ r.ret /\ b \in D2 /\ b \notin F2
        /\ r.verdict = "ok"
        /\ (Anc(b) \subseteq D2 => (Height(t2) >= Height(b) /\ (Height(t2) = Height(b) => (t2 = b \/ Height(b) = 1))))
  /\ (~Valid(b) => b \notin D2)
TipOKIn(D, F, t) == t \in Eligible(D, F) /\ \A b \in Eligible(D, F) : Height(b) <= Height(t)

NeverBlamed == NeverBlamedIn(failed)
TipOK == TipOKIn(data, failed, tip)
StepOK == [][ /\ (lastAct'[1] = "mutated" => MutatedStepOK(data, failed, lastRes', data', failed'))
              /\ (lastAct'[1] = "genuine" => GenuineStepOK(hdr, data, failed, lastAct'[2], lastRes', hdr', data', failed', tip')) ]_vars
Obs == [hdr |-> hdr, data |-> data, failed |-> failed, tip |-> tip]
Proj == [world |-> [parent |-> W.parent, content |-> W.content], obs |-> Obs]
Emit == VFEdgeK(View0, Proj, lastAct', lastRes', View0', Proj')
====
