CONSTANTS
  Alphabet = {"a", "b", "c"}
  MaxLen = 5
  DistinctLens = {1, 2, 3, 4, 5, 6, 7, 8, 9, 10, 11}
  VariantLens = {3, 5, 6, 7}
INIT Init
NEXT Next
INVARIANTS ExactWhenOK OKWhenNoRepeat NoDoubleProof Sizes EmitRow
CHECK_DEADLOCK FALSE
