---- MODULE MerkleTree ----
(***************************************************************************)
(* Bitcoin's merkle tree (src/consensus/merkle.cpp) over an INJECTIVE hash *)
(* constructor.  A node is a string: a leaf is an identifier, an inner     *)
(* node is "(" left "," right ")".  Two nodes are equal iff they are the   *)
(* same term -- "assuming no double-SHA256 collisions" made literal.  The  *)
(* harness evaluates the very same terms with real double-SHA256 (its      *)
(* independent reference) and compares them with ComputeMerkleRoot /       *)
(* BlockMerkleRoot / TransactionMerklePath / BlockWitnessMerkleRoot.       *)
(* (Strings, not nested tuples: TLC refuses to compare values of           *)
(* different shapes, and root terms of lists of different length differ    *)
(* in shape.)                                                              *)
(*                                                                         *)
(* Property C04, part (a):                                                 *)
(*   - every CVE-2012-2459 duplication v of a list l has Root(v) = Root(l) *)
(*     and is flagged Mutated; a list without repeated leaves is not       *)
(*     flagged; of all lists with one root at most one is unflagged;       *)
(*   - Fold(Path(l, i), l[i], i) = Root(l).                                *)
(***************************************************************************)
EXTENDS Integers, Sequences, FiniteSets, TLC

Zero == "0"                                   \* the all-zero hash (root of the empty list, coinbase leaf of the witness tree)
H(a, b) == "(" \o a \o "," \o b \o ")"        \* double-SHA256 of the 64-byte concatenation

\* one level up: pair the nodes, the last one with itself if the count is odd (the rule behind CVE-2012-2459)
Up(x) == [i \in 1..((Len(x) + 1) \div 2) |-> H(x[2*i - 1], IF 2*i <= Len(x) THEN x[2*i] ELSE x[2*i - 1])]
\* ComputeMerkleRoot's check at one level: two identical hashes paired *before* the odd-count duplication
PairEq(x) == \E i \in 1..(Len(x) \div 2) : x[2*i - 1] = x[2*i]

RECURSIVE Root(_), Mutated(_), Path(_, _), Fold(_, _, _)
Root(x) == IF Len(x) = 0 THEN Zero ELSE IF Len(x) = 1 THEN x[1] ELSE Root(Up(x))
Mutated(x) == Len(x) > 1 /\ (PairEq(x) \/ Mutated(Up(x)))

\* TransactionMerklePath: siblings from the deepest level up; i is 1-based here (position = i - 1)
Sib(x, i) == IF i % 2 = 1 THEN (IF i + 1 <= Len(x) THEN x[i + 1] ELSE x[i]) ELSE x[i - 1]
Path(x, i) == IF Len(x) <= 1 THEN <<>> ELSE <<Sib(x, i)>> \o Path(Up(x), (i + 1) \div 2)
\* ComputeMerkleRootFromBranch: pos is the 0-based position
Fold(p, h, pos) == IF p = <<>> THEN h
                   ELSE Fold(Tail(p), IF pos % 2 = 1 THEN H(p[1], h) ELSE H(h, p[1]), pos \div 2)

\* witness tree: the coinbase's leaf is zero; leaves are the wtxids
WLeaves(w) == IF Len(w) = 0 THEN <<Zero>> ELSE [w EXCEPT ![1] = Zero]
WRoot(w) == Root(WLeaves(w))
Nonce == "n"                                  \* the 32-byte witness reserved value
Commitment(w) == H(WRoot(w), Nonce)

----
\* ---- the CVE-2012-2459 family, defined from the tree shape (not from Root): the complete tree over 2^d leaves in which
\* ---- every node that the odd-count rule would create is materialised.
RECURSIVE DepthFrom(_, _), Src(_, _, _)
P2Tab == <<1, 2, 4, 8, 16, 32, 64, 128, 256, 512, 1024, 2048>>
Pow2(k) == P2Tab[k + 1]
DepthFrom(n, d) == IF Pow2(d) >= n THEN d ELSE DepthFrom(n, d + 1)
Depth(n) == DepthFrom(n, 0)
\* source leaf (0-based) of position p (0-based) of the complete tree for n real leaves; k = level being resolved (top-down)
Src(n, p, k) == IF k < 0 THEN p
                ELSE LET cnt == (n + Pow2(k) - 1) \div Pow2(k)      \* number of real nodes at level k
                     IN IF p \div Pow2(k) >= cnt THEN Src(n, p - Pow2(k), k - 1) ELSE Src(n, p, k - 1)
Full(l) == LET n == Len(l)  d == Depth(n) IN [p \in 1..Pow2(d) |-> l[Src(n, p - 1, d - 1) + 1]]
\* all lists that materialise some of the implicit duplications of l (and l itself, and shorter lists l materialises)
Variants(l) == IF Len(l) = 0 THEN {l}
               ELSE LET f == Full(l) IN
                    {x \in {SubSeq(f, 1, m) : m \in (Len(f) \div 2 + 1)..Len(f)} : Full(x) = f}     \* same depth: more than half of 2^d

NoRepeat(l) == \A i, j \in 1..Len(l) : i # j => l[i] # l[j]
====
