CONSTANTS
  Alphabet = {"a", "b", "c"}
  MaxLen = 4
  DistinctLens = {}
  CheckUnique = TRUE
INIT Init
NEXT Next
INVARIANTS SameRoot DupFlagged LongerFlagged NoRepeatClean PathFolds PathLen Unique EmitRow
CHECK_DEADLOCK FALSE
