CONSTANTS
  MaxTx = 6
INIT Init
NEXT Next
INVARIANTS Detects DetectsNoWit OnlyGenuineUnreported AcceptedOnlyGenuineList EmitRow
CHECK_DEADLOCK FALSE
