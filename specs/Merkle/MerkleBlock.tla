---- MODULE MerkleBlock ----
(***************************************************************************)
(* C04, block level (engine E4): which transaction lists / witness data    *)
(* does IsBlockMutated (src/validation.cpp: CheckMerkleRoot, the 64-byte   *)
(* rule, CheckWitnessMalleation) report for a given header?                *)
(*                                                                         *)
(* A genuine block G = (transaction ids, witness version of every          *)
(* transaction, optional commitment) fixes the header's merkle root and    *)
(* the commitment in the coinbase.  A delivered block D keeps both and     *)
(* changes the body in one of the ways an attacker can without redoing     *)
(* the proof of work:                                                      *)
(*    dup      a CVE-2012-2459 duplication of the transaction list         *)
(*    drop / swap   another transaction list (root mismatch)               *)
(*    strip / alter / add   one transaction's witness                      *)
(*    n31 / n0 / n2 / nonceadd   the coinbase's reserved value; n31c: a     *)
(*             31-byte value with a commitment computed over it (the size   *)
(*             rule itself, not only the mismatch it normally causes)      *)
(*    amb      the 64-byte transaction whose serialisation is the two      *)
(*             txids of G = <<p, q>> (a block without coinbase)            *)
(* IsMut is the rule list as coded.  Theorem checked by TLC: with witness  *)
(* checking on, IsMut(D) <=> D is not the genuine body -- every variant is *)
(* reported and the genuine block is not.                                  *)
(***************************************************************************)
EXTENDS MerkleTree, VF
CONSTANTS MaxTx          \* up to MaxTx non-coinbase transactions

TxIds == <<"x", "y", "z", "u", "s", "r", "k">>
Amb == H("p", "q")                        \* the 64-byte transaction: its txid is the inner node over p and q
\* witness leaf of transaction id in witness version w ("w0" = no witness: wtxid = txid)
WL(id, w) == IF w = "w0" THEN id ELSE id \o "." \o w

Genuine ==
  {[ids |-> <<"cb">> \o SubSeq(TxIds, 1, k), wv |-> <<"w0">> \o w, commit |-> c] :
       k \in 0..MaxTx, w \in UNION {[1..kk -> {"w0", "w1"}] : kk \in 0..MaxTx}, c \in BOOLEAN}
Wellformed(g) == /\ Len(g.wv) = Len(g.ids)
                 /\ ((\E i \in 1..Len(g.wv) : g.wv[i] = "w1") => g.commit)     \* witnesses need a commitment
GenuineCB == {g \in Genuine : Wellformed(g)}
GenuineNoCB == {[ids |-> <<"p", "q">>, wv |-> <<"w0", "w0">>, commit |-> FALSE]}

\* the delivered block: ids, wv (current witness versions), nonce kind; hdr / cterm are inherited from the genuine block
Hdr(g) == Root(g.ids)
CTerm(g) == IF g.commit THEN H(WRoot([i \in 1..Len(g.ids) |-> WL(g.ids[i], g.wv[i])]), Nonce) ELSE "none"
Body(ids, wv, nonce, kind) == [ids |-> ids, wv |-> wv, nonce |-> nonce, kind |-> kind]
Swap(s, i, j) == [s EXCEPT ![i] = s[j], ![j] = s[i]]
Extend(g, x) == \* witness versions of a duplication x of g.ids: the copies carry the same witnesses
  LET n == Len(g.ids) IN [p \in 1..Len(x) |-> g.wv[Src(n, p - 1, Depth(n) - 1) + 1]]
Deliveries(g) ==
  LET n == Len(g.ids)
      n0 == IF g.commit THEN "n32" ELSE "none"
      \* witness changes only for blocks with a coinbase: IsBlockMutated does not look at witnesses of a block without one
      \* (such a block is invalid whatever its witnesses are, and ProcessNewBlock never marks a CheckBlock failure)
      wpos == IF g.ids[1] = "cb" THEN 2..n ELSE {}
  IN {Body(g.ids, g.wv, n0, "none")}
     \cup {Body(x, Extend(g, x), n0, "dup") : x \in {y \in Variants(g.ids) : Len(y) > n}}
     \cup (IF n > 1 THEN {Body(SubSeq(g.ids, 1, n - 1), SubSeq(g.wv, 1, n - 1), n0, "drop")} ELSE {})
     \cup (IF n > 2 THEN {Body(Swap(g.ids, n - 1, n), Swap(g.wv, n - 1, n), n0, "swap")} ELSE {})
     \cup {Body(g.ids, [g.wv EXCEPT ![i] = "w0"], n0, "strip") : i \in {j \in wpos : g.wv[j] = "w1"}}
     \cup {Body(g.ids, [g.wv EXCEPT ![i] = "w2"], n0, "alter") : i \in {j \in wpos : g.wv[j] = "w1"}}
     \cup {Body(g.ids, [g.wv EXCEPT ![i] = "w1"], n0, "add") : i \in {j \in wpos : g.wv[j] = "w0"}}
     \cup (IF g.commit THEN {Body(g.ids, g.wv, k, k) : k \in {"n31", "n0", "n2", "n31c"}}
           ELSE IF g.ids[1] = "cb" THEN {Body(g.ids, g.wv, "n32", "nonceadd")} ELSE {})
     \cup (IF g.ids = <<"p", "q">> THEN {Body(<<Amb>>, <<"w0">>, n0, "amb")} ELSE {})

\* ---- IsBlockMutated(block, check_witness_root) as coded
HasCoinbase(d) == Len(d.ids) > 0 /\ d.ids[1] = "cb"
HasWitness(d, i) == IF i = 1 /\ HasCoinbase(d) THEN d.nonce \notin {"none", "n0"} ELSE d.wv[i] # "w0"
WitnessMalleated(g, d, cw) ==
  IF cw /\ CTerm(g) # "none"
  THEN IF d.nonce # "n32" THEN TRUE                                           \* bad-witness-nonce-size
       ELSE H(WRoot([i \in 1..Len(d.ids) |-> WL(d.ids[i], d.wv[i])]), Nonce) # CTerm(g)    \* bad-witness-merkle-match
  ELSE \E i \in 1..Len(d.ids) : HasWitness(d, i)                              \* unexpected-witness
IsMut(g, d, cw) ==
  IF Root(d.ids) # Hdr(g) THEN TRUE                                           \* bad-txnmrklroot
  ELSE IF Mutated(d.ids) THEN TRUE                                            \* bad-txns-duplicate
  ELSE IF ~HasCoinbase(d) THEN \E i \in 1..Len(d.ids) : d.ids[i] = Amb       \* a 64-byte transaction
  ELSE WitnessMalleated(g, d, cw)

\* CheckBlock (context-free part of block acceptance): a body that does not hash to the header's root, or a flagged one, is
\* refused as BLOCK_MUTATED before anything else is looked at; witnesses are not examined there
CheckBlockClass(g, d) == IF Root(d.ids) # Hdr(g) \/ Mutated(d.ids) THEN "mutated"
                         ELSE IF HasCoinbase(d) THEN "ok" ELSE "consensus"

VARIABLES g, d, cw, ph
vars == <<g, d, cw, ph>>
Init == g \in GenuineCB \cup GenuineNoCB /\ d = Body(g.ids, g.wv, "none", "none") /\ cw = TRUE /\ ph = 0
Next == ph = 0 /\ ph' = 1 /\ g' = g /\ d' \in Deliveries(g) /\ cw' \in BOOLEAN

\* ---- theorems
\* with witness checking on, exactly the variants are reported
Detects == (ph = 1 /\ cw) => (IsMut(g, d, cw) <=> d.kind # "none")
\* without it, nothing that changes the transaction list escapes, and any witness data is refused
DetectsNoWit == (ph = 1 /\ ~cw) => /\ (d.kind \in {"dup", "drop", "swap", "amb"} => IsMut(g, d, cw))
                                   /\ ((\E i \in 1..Len(d.ids) : HasWitness(d, i)) => IsMut(g, d, cw))
\* the header commits to at most one unreported body: two deliveries for one genuine block that are both unreported are equal
\* (checked pairwise inside one state to stay linear: the unreported delivery is the genuine one)
\* "accepted only if the header's root is the root of exactly its transaction list": CheckBlock passes only the genuine list
AcceptedOnlyGenuineList == (ph = 1 /\ CheckBlockClass(g, d) = "ok") => d.ids = g.ids
OnlyGenuineUnreported == (ph = 1 /\ cw /\ ~IsMut(g, d, cw)) => (d.ids = g.ids /\ d.wv = g.wv)

EmitRow == ph = 1 => VFRow([ids |-> d.ids, wv |-> d.wv, nonce |-> d.nonce, kind |-> d.kind, hdr |-> Hdr(g), cterm |-> CTerm(g),
                            cwroot |-> (IF g.commit THEN WRoot([i \in 1..Len(g.ids) |-> WL(g.ids[i], g.wv[i])]) ELSE "none"),
                            cw |-> cw, exp |-> IsMut(g, d, cw), checkblock |-> CheckBlockClass(g, d)])
====
