---- MODULE MutatedBlocksObs ----
(* Deviation handling for C04 part (b) (DESIGN 8: SAFE / "never blamed"): the node's result or observable state after a step   *)
(* differed from the deterministic prediction of MutatedBlocks.  That is a violation only if what was observed breaks what the *)
(* property states.  Each line of the file named by env OBS is                                                                 *)
(*   {pre: {hdr, data, failed, tip}, act: [...], res: {ret, new, verdict, ismut}, post: {hdr, data, failed, tip}}              *)
(* (pre = the model's state before the step, with which the implementation still agreed).  TLC evaluates the property's        *)
(* predicates on (pre, act, res, post).                                                                                        *)
EXTENDS MutatedBlocks, Json, IOUtils
ObsLines == ndJsonDeserialize(IOEnv.OBS)
VARIABLE idx
ToSet(s) == {s[i] : i \in 1..Len(s)}
InitObs == /\ idx \in 1..Len(ObsLines)
           /\ LET L == ObsLines[idx] IN
              hdr = ToSet(L.pre.hdr) /\ data = ToSet(L.pre.data) /\ failed = ToSet(L.pre.failed) /\ tip = L.pre.tip
           /\ att = [b \in Blocks |-> "none"]
           /\ lastAct = <<"observed", idx>> /\ lastRes = Res(TRUE, FALSE, "ok", FALSE)
Stutter == UNCHANGED <<vars, idx>>
Post == ObsLines[idx].post
Act == ObsLines[idx].act
ResO == ObsLines[idx].res
PH == ToSet(Post.hdr)  PD == ToSet(Post.data)  PF == ToSet(Post.failed)
ObsNeverBlamed == NeverBlamedIn(PF)
ObsMutatedStepOK == Act[1] = "mutated" => MutatedStepOK(data, failed, ResO, PD, PF)
ObsGenuineStepOK == Act[1] = "genuine" => GenuineStepOK(hdr, data, failed, Act[2], ResO, PH, PD, PF, Post.tip)
\* a header alone never stores or marks anything
ObsHeaderStepOK == Act[1] = "header" => (PD = data /\ PF = failed)
ObsTipOK == Post.tip \in Blocks \cup {0} /\ TipOKIn(PD, PF, Post.tip)
====
