CONSTANTS
  MaxTx = 4
INIT Init
NEXT Next
INVARIANTS Detects DetectsNoWit OnlyGenuineUnreported AcceptedOnlyGenuineList EmitRow
CHECK_DEADLOCK FALSE
