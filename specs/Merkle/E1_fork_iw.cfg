CONSTANTS
  Scenario = "fork_iw"
  Track = TRUE
INIT Init
NEXT Next
VIEW View0
INVARIANTS NeverBlamed TipOK
PROPERTY StepOK
ACTION_CONSTRAINT Emit
CHECK_DEADLOCK FALSE
