CONSTANTS
  Scenario = "tree3i"
  Track = FALSE
INIT Init
NEXT Next
VIEW View0
INVARIANTS NeverBlamed TipOK
PROPERTY StepOK
ACTION_CONSTRAINT Emit
CHECK_DEADLOCK FALSE
