CONSTANTS
  Leaves2 = {"cpkA", "cpkhB", "pkA", "pkB", "pkC", "pkhA", "pkhB", "pkhC", "older1", "older2", "after1", "after2", "sha1", "sha2", "h2561", "h2562", "rip1", "rip2", "h1601", "h1602", "m1ab", "m2ab", "m2abc", "m3abc"}
  Leaves3 = {"pkA", "pkB", "pkhB", "older1", "older2", "after1", "after2", "sha1", "h2562", "rip2", "h1601", "m1ab", "m2ab"}
  Ternary = TRUE
  Deep = TRUE
INIT Init
NEXT Next
INVARIANTS Monotone NeedsMaterial Bip68 EmitRow
CHECK_DEADLOCK FALSE
