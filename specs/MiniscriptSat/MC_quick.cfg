CONSTANTS
  Leaves2 = {"cpkA", "cpkhB", "pkA", "pkB", "pkhC", "older1", "older2", "after1", "after2", "sha1", "h2562", "rip2", "h1601", "m1ab", "m2abc"}
  Leaves3 = {"pkA", "pkhB", "older1", "after1", "sha1", "h1602", "m2ab"}
  Ternary = TRUE
  Deep = FALSE
INIT Init
NEXT Next
INVARIANTS Monotone NeedsMaterial Bip68 EmitRow
CHECK_DEADLOCK FALSE
