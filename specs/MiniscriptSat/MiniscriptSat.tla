---- MODULE MiniscriptSat ----
(***************************************************************************)
(* C46: what a signer can possibly satisfy.                                 *)
(*                                                                         *)
(* A miniscript expression is a tree of records [op, a, k, xs]:             *)
(*   pk / pkh (a = key), older / after (k = index into a table of timelock  *)
(*   values), sha256 / hash256 / ripemd160 / hash160 (a = hash), multi      *)
(*   (k = threshold, xs = keys as leaves), just0 / just1, and_v, and_b,     *)
(*   and_n, or_b, or_c, or_d, or_i, andor, thresh (k), and "w" (a = the     *)
(*   wrapper letters a s c d v j n t l u).                                  *)
(* Avail is what the signer has: private keys, hash preimages, and the      *)
(* spending transaction (version, this input's nSequence, nLockTime).       *)
(* Sat(n, av) is the SEMANTIC satisfiability: is there any witness at all   *)
(* (malleability and resource limits ignored).  C46 is one-directional:     *)
(*      ~Sat(root, av)  =>  the signer must not report "complete".          *)
(* A dissatisfaction never needs a secret (the type system only asks for    *)
(* dissatisfactions of "d" expressions, which are the empty signature, a    *)
(* wrong preimage, a zero), so Sat is the plain boolean reading of the      *)
(* policy with BIP65 / BIP68 / BIP112 for the timelocks.                    *)
(***************************************************************************)
EXTENDS Integers, Sequences, FiniteSets, TLC, VF

(* ------------------------------------------------------------ timelock tables *)
\* older(n): relative, BIP68/112. time = type flag (bit 22); val = the 16 bit value
OlderTab == << [str |-> "10", time |-> FALSE, val |-> 10], [str |-> "4194309", time |-> TRUE, val |-> 5] >>
\* after(n): absolute, BIP65. time = (n >= 500000000); val = offset inside the kind
AfterTab == << [str |-> "100", time |-> FALSE, val |-> 100], [str |-> "500000100", time |-> TRUE, val |-> 100] >>
\* nSequence of the spending input: dis = bit 31, time = bit 22, val = low 16 bits, final = 0xffffffff
SeqTab == [ s9   |-> [str |-> "9",          dis |-> FALSE, time |-> FALSE, val |-> 9,     final |-> FALSE],
            s10  |-> [str |-> "10",         dis |-> FALSE, time |-> FALSE, val |-> 10,    final |-> FALSE],
            s11  |-> [str |-> "11",         dis |-> FALSE, time |-> FALSE, val |-> 11,    final |-> FALSE],
            sh10 |-> [str |-> "65546",      dis |-> FALSE, time |-> FALSE, val |-> 10,    final |-> FALSE],   \* 0x0001000a: bits outside the mask
            st4  |-> [str |-> "4194308",    dis |-> FALSE, time |-> TRUE,  val |-> 4,     final |-> FALSE],
            st5  |-> [str |-> "4194309",    dis |-> FALSE, time |-> TRUE,  val |-> 5,     final |-> FALSE],
            sd10 |-> [str |-> "2147483658", dis |-> TRUE,  time |-> FALSE, val |-> 10,    final |-> FALSE],   \* 0x8000000a
            sfe  |-> [str |-> "4294967294", dis |-> TRUE,  time |-> TRUE,  val |-> 65534, final |-> FALSE],
            sff  |-> [str |-> "4294967295", dis |-> TRUE,  time |-> TRUE,  val |-> 65535, final |-> TRUE] ]
LockTab == [ l0   |-> [str |-> "0",         time |-> FALSE, val |-> 0],
             l99  |-> [str |-> "99",        time |-> FALSE, val |-> 99],
             l100 |-> [str |-> "100",       time |-> FALSE, val |-> 100],
             l101 |-> [str |-> "101",       time |-> FALSE, val |-> 101],
             t99  |-> [str |-> "500000099", time |-> TRUE,  val |-> 99],
             t100 |-> [str |-> "500000100", time |-> TRUE,  val |-> 100] ]
Env(tv, s, l) == [tv |-> tv, seq |-> s, lock |-> l]
EnvOlder == { Env(2, "s10", "l0"), Env(2, "s9", "l0"), Env(1, "s10", "l0"), Env(2, "sd10", "l0"), Env(2, "st5", "l0"), Env(2, "st4", "l0"), Env(2, "sh10", "l0") }
EnvAfter == { Env(2, "sfe", "l100"), Env(2, "sfe", "l99"), Env(2, "sff", "l100"), Env(2, "sfe", "t100"), Env(2, "sfe", "t99"), Env(1, "sfe", "l100") }
EnvBoth  == { Env(2, "s10", "l100"), Env(2, "st5", "t100"), Env(2, "s11", "l101"), Env(2, "s10", "t100"), Env(1, "s10", "l100") }
EnvPlain == { Env(2, "sfe", "l0") }

\* BIP112 as implemented by GenericTransactionSignatureChecker::CheckSequence
CheckSeq(o, e) == LET s == SeqTab[e.seq] IN e.tv >= 2 /\ ~s.dis /\ s.time = o.time /\ s.val >= o.val
\* BIP65 as implemented by GenericTransactionSignatureChecker::CheckLockTime
CheckLock(a, e) == LET l == LockTab[e.lock] IN l.time = a.time /\ l.val >= a.val /\ ~SeqTab[e.seq].final

(* ------------------------------------------------------------ trees *)
N(op, a, k, xs) == [op |-> op, a |-> a, k |-> k, xs |-> xs]
Pk(a) == N("pk", a, 0, <<>>)
Pkh(a) == N("pkh", a, 0, <<>>)
PkK(a) == N("pk_k", a, 0, <<>>)      \* key expressions (type K); pk(X) = c:pk_k(X), pkh(X) = c:pk_h(X)
PkH(a) == N("pk_h", a, 0, <<>>)
Older(i) == N("older", "", i, <<>>)
After(i) == N("after", "", i, <<>>)
HashF(f, h) == N(f, h, 0, <<>>)
Multi(k, ks) == N("multi", "", k, [i \in 1..Len(ks) |-> Pk(ks[i])])
W(letters, x) == N("w", letters, 0, <<x>>)
Bin(op, x, y) == N(op, "", 0, <<x, y>>)
Andor(x, y, z) == N("andor", "", 0, <<x, y, z>>)
Thresh(k, xs) == N("thresh", "", k, xs)
HashOps == {"sha256", "hash256", "ripemd160", "hash160"}

RECURSIVE Sat(_, _)
RECURSIVE CountSat(_, _, _)
CountSat(xs, i, av) == IF i > Len(xs) THEN 0 ELSE (IF Sat(xs[i], av) THEN 1 ELSE 0) + CountSat(xs, i + 1, av)
Sat(n, av) ==
  CASE n.op \in {"pk", "pkh", "pk_k", "pk_h"} -> n.a \in av.keys
    [] n.op = "older" -> CheckSeq(OlderTab[n.k], av.env)
    [] n.op = "after" -> CheckLock(AfterTab[n.k], av.env)
    [] n.op \in HashOps -> n.a \in av.pre
    [] n.op = "just0" -> FALSE
    [] n.op = "just1" -> TRUE
    [] n.op \in {"and_v", "and_b", "and_n"} -> Sat(n.xs[1], av) /\ Sat(n.xs[2], av)
    [] n.op \in {"or_b", "or_c", "or_d", "or_i"} -> Sat(n.xs[1], av) \/ Sat(n.xs[2], av)
    [] n.op = "andor" -> (Sat(n.xs[1], av) /\ Sat(n.xs[2], av)) \/ Sat(n.xs[3], av)
    [] n.op \in {"thresh", "multi"} -> CountSat(n.xs, 1, av) >= n.k
    [] n.op = "w" -> Sat(n.xs[1], av)

RECURSIVE KeysOf(_)
RECURSIVE HashesOf(_)
RECURSIVE OpsOf(_)
KeysOf(n) == IF n.op \in {"pk", "pkh", "pk_k", "pk_h"} THEN {n.a} ELSE UNION {KeysOf(n.xs[i]) : i \in 1..Len(n.xs)}
HashesOf(n) == IF n.op \in HashOps THEN {n.a} ELSE UNION {HashesOf(n.xs[i]) : i \in 1..Len(n.xs)}
OpsOf(n) == {n.op} \cup UNION {OpsOf(n.xs[i]) : i \in 1..Len(n.xs)}

(* ------------------------------------------------------------ text *)
RECURSIVE Str(_)
RECURSIVE StrList(_, _)
RECURSIVE KeyList(_, _)
KeyList(xs, i) == IF i > Len(xs) THEN "" ELSE ",@" \o xs[i].a \o KeyList(xs, i + 1)
StrList(xs, i) == IF i > Len(xs) THEN "" ELSE "," \o Str(xs[i]) \o StrList(xs, i + 1)
\* keys and hashes are tokens (@A, #H1) which the harness replaces by concrete data; multi is %M (multi / multi_a)
Str(n) ==
  CASE n.op = "pk" -> "pk(@" \o n.a \o ")"
    [] n.op = "pkh" -> "pkh(@" \o n.a \o ")"
    [] n.op = "pk_k" -> "pk_k(@" \o n.a \o ")"
    [] n.op = "pk_h" -> "pk_h(@" \o n.a \o ")"
    [] n.op = "older" -> "older(" \o OlderTab[n.k].str \o ")"
    [] n.op = "after" -> "after(" \o AfterTab[n.k].str \o ")"
    [] n.op \in HashOps -> n.op \o "(#" \o n.a \o "_" \o n.op \o ")"
    [] n.op = "just0" -> "0"
    [] n.op = "just1" -> "1"
    [] n.op = "multi" -> "%M(" \o ToString(n.k) \o KeyList(n.xs, 1) \o ")"
    [] n.op = "thresh" -> "thresh(" \o ToString(n.k) \o StrList(n.xs, 1) \o ")"
    [] n.op = "w" -> (IF n.xs[1].op = "w" THEN n.a \o Str(n.xs[1]) ELSE n.a \o ":" \o Str(n.xs[1]))
    [] OTHER -> n.op \o "(" \o Str(n.xs[1]) \o StrList(n.xs, 2) \o ")"

(* ------------------------------------------------------------ a rough transcription of the type system *)
\* basic type B / V / W, d = has a dissatisfaction, u = a satisfaction leaves exactly 1. Only what is needed to discard most
\* ill-typed trees; the real parser is the judge (the harness counts what it rejects).
RECURSIVE Ty(_)
T(b, d, u) == [b |-> b, d |-> d, u |-> u]
Bad == T("X", FALSE, FALSE)
Ty(n) ==
  CASE n.op \in {"pk", "pkh", "multi", "just0"} \cup HashOps -> T("B", TRUE, TRUE)
    [] n.op \in {"older", "after"} -> T("B", FALSE, FALSE)
    [] n.op \in {"pk_k", "pk_h"} -> T("K", TRUE, TRUE)
    [] n.op = "just1" -> T("B", FALSE, TRUE)
    [] n.op = "w" ->
         LET x == Ty(n.xs[1]) IN
         CASE n.a = "v" -> IF x.b = "B" THEN T("V", FALSE, FALSE) ELSE Bad
           [] n.a = "c" -> IF x.b = "K" THEN T("B", x.d, TRUE) ELSE Bad
           [] n.a \in {"a", "s"} -> IF x.b = "B" THEN T("W", x.d, x.u) ELSE Bad
           [] n.a = "j" -> IF x.b = "B" /\ x.u THEN T("B", TRUE, x.u) ELSE Bad
           [] n.a = "n" -> IF x.b = "B" THEN T("B", x.d, TRUE) ELSE Bad
           [] n.a \in {"l", "u"} -> IF x.b = "B" THEN T("B", TRUE, x.u) ELSE Bad
           [] n.a = "dv" -> IF x.b = "B" /\ ~x.d /\ ~x.u THEN T("B", TRUE, FALSE) ELSE Bad     \* dv: only over older / after
           [] n.a = "tv" -> IF x.b = "B" THEN T("B", FALSE, TRUE) ELSE Bad
           [] OTHER -> Bad
    [] n.op = "and_v" -> LET x == Ty(n.xs[1]) y == Ty(n.xs[2]) IN IF x.b = "V" /\ y.b \in {"B", "V"} THEN T(y.b, FALSE, y.u) ELSE Bad
    [] n.op = "and_b" -> LET x == Ty(n.xs[1]) y == Ty(n.xs[2]) IN IF x.b = "B" /\ y.b = "W" THEN T("B", x.d /\ y.d, TRUE) ELSE Bad
    [] n.op = "and_n" -> LET x == Ty(n.xs[1]) y == Ty(n.xs[2]) IN IF x.b = "B" /\ x.d /\ x.u /\ y.b = "B" THEN T("B", TRUE, y.u) ELSE Bad
    [] n.op = "or_b" -> LET x == Ty(n.xs[1]) y == Ty(n.xs[2]) IN IF x.b = "B" /\ x.d /\ y.b = "W" /\ y.d THEN T("B", TRUE, TRUE) ELSE Bad
    [] n.op = "or_c" -> LET x == Ty(n.xs[1]) y == Ty(n.xs[2]) IN IF x.b = "B" /\ x.d /\ x.u /\ y.b = "V" THEN T("V", FALSE, FALSE) ELSE Bad
    [] n.op = "or_d" -> LET x == Ty(n.xs[1]) y == Ty(n.xs[2]) IN IF x.b = "B" /\ x.d /\ x.u /\ y.b = "B" THEN T("B", y.d, y.u) ELSE Bad
    [] n.op = "or_i" -> LET x == Ty(n.xs[1]) y == Ty(n.xs[2]) IN IF x.b = y.b /\ x.b \in {"B", "V"} THEN T(x.b, x.d \/ y.d, x.u /\ y.u) ELSE Bad
    [] n.op = "andor" -> LET x == Ty(n.xs[1]) y == Ty(n.xs[2]) z == Ty(n.xs[3]) IN
                         IF x.b = "B" /\ x.d /\ x.u /\ y.b = z.b /\ y.b \in {"B", "V"} THEN T(y.b, z.d, y.u /\ z.u) ELSE Bad
    [] n.op = "thresh" -> IF /\ LET x == Ty(n.xs[1]) IN x.b = "B" /\ x.d /\ x.u
                             /\ \A i \in 2..Len(n.xs) : LET y == Ty(n.xs[i]) IN y.b = "W" /\ y.d /\ y.u
                          THEN T("B", TRUE, TRUE) ELSE Bad
TopOK(n) == Ty(n).b = "B"

(* ------------------------------------------------------------ the enumerated family *)
CONSTANTS Leaves2,      \* names of the leaves used at depth 2 in the two-level family
          Leaves3,      \* names of the leaves under the depth-3 family and_v(v:pk(C), <depth-2 tree>)
          Ternary       \* whether andor / or_c / thresh are built in the depth-3 family

LeafTab == [ cpkA |-> W("c", PkK("A")), cpkhB |-> W("c", PkH("B")),
             pkA |-> Pk("A"), pkB |-> Pk("B"), pkC |-> Pk("C"), pkhA |-> Pkh("A"), pkhB |-> Pkh("B"), pkhC |-> Pkh("C"),
             older1 |-> Older(1), older2 |-> Older(2), after1 |-> After(1), after2 |-> After(2),
             sha1 |-> HashF("sha256", "H1"), sha2 |-> HashF("sha256", "H2"), h2561 |-> HashF("hash256", "H1"), h2562 |-> HashF("hash256", "H2"),
             rip1 |-> HashF("ripemd160", "H1"), rip2 |-> HashF("ripemd160", "H2"), h1601 |-> HashF("hash160", "H1"), h1602 |-> HashF("hash160", "H2"),
             m1ab |-> Multi(1, <<"A", "B">>), m2ab |-> Multi(2, <<"A", "B">>), m2abc |-> Multi(2, <<"A", "B", "C">>), m3abc |-> Multi(3, <<"A", "B", "C">>) ]
LS(names) == {LeafTab[x] : x \in names}

BinOps == {"and_v", "and_b", "and_n", "or_b", "or_d", "or_i"}
\* the wrappers each combinator needs on its arguments
MkBin(op, x, y) ==
  CASE op = "and_v" -> Bin("and_v", W("v", x), y)
    [] op \in {"and_b", "or_b"} -> Bin(op, x, W(IF y.op \in {"pk", "w"} THEN "s" ELSE "a", y))
    [] OTHER -> Bin(op, x, y)
Depth2Bin(L) == {MkBin(op, x, y) : op \in BinOps, x \in L, y \in L}
Depth2Tern(L) ==
       {Andor(x, y, z) : x \in L, y \in L, z \in L}
  \cup {Bin("and_v", Bin("or_c", x, W("v", y)), z) : x \in L, y \in L, z \in L}
  \cup {Thresh(k, <<x, W("a", y), W("a", z)>>) : k \in 1..3, x \in L, y \in L, z \in L}
  \cup {Thresh(k, <<x, W("a", y)>>) : k \in 1..2, x \in L, y \in L}
\* thresholds over three different keys need the whole key alphabet (three keys): built in the two-level family from the key leaves only
KeyLeaves(L) == {x \in L : x.op \in {"pk", "pkh", "w"}}
ThreshKeys(L) == {Thresh(k, <<x, W(IF y.op = "pkh" THEN "a" ELSE "s", y), W("a", z)>>) : k \in 1..3, x \in KeyLeaves(L), y \in KeyLeaves(L), z \in KeyLeaves(L)}
Depth2Wrap(L) == {W(w, x) : w \in {"j", "n", "l", "u", "dv", "tv"}, x \in L}
WellTyped(S) == {n \in S : TopOK(n)}
NoDupKeys(n) == TRUE    \* duplicate keys are left to the real parser (counted as rejected)

Family2 == WellTyped(LS(Leaves2) \cup Depth2Bin(LS(Leaves2)) \cup Depth2Wrap(LS(Leaves2)) \cup ThreshKeys(LS(Leaves2)))
Inner3 == WellTyped(LS(Leaves3) \cup Depth2Bin(LS(Leaves3)) \cup Depth2Wrap(LS(Leaves3)) \cup (IF Ternary THEN Depth2Tern(LS(Leaves3)) ELSE {}))
Family3 == {Bin("and_v", W("v", Pk("C")), x) : x \in Inner3}

\* depth 3 with two composite children (thorough tier): the left tree over key A, the right tree over keys B, C (no duplicate keys)
CONSTANTS Deep
DeepL == WellTyped(Depth2Bin(LS({"pkA", "pkhA", "older1", "sha1", "h1602"})))
DeepR == WellTyped(Depth2Bin(LS({"pkB", "pkhC", "after1", "older1", "rip2"})))
Family3b == IF Deep THEN WellTyped({MkBin(op, x, y) : op \in BinOps, x \in DeepL, y \in DeepR}) ELSE {}

\* descriptors that are not miniscript: the tree says what they need
PlainDescs == <<
  [d |-> "pk(@A)",                      n |-> Pk("A")],
  [d |-> "pkh(@A)",                     n |-> Pk("A")],
  [d |-> "wpkh(@A)",                    n |-> Pk("A")],
  [d |-> "sh(wpkh(@A))",                n |-> Pk("A")],
  [d |-> "sh(pkh(@A))",                 n |-> Pk("A")],
  [d |-> "wsh(pkh(@A))",                n |-> Pk("A")],
  [d |-> "sh(wsh(pk(@A)))",             n |-> Pk("A")],
  [d |-> "multi(1,@A,@B)",              n |-> Multi(1, <<"A", "B">>)],
  [d |-> "sh(multi(2,@A,@B))",          n |-> Multi(2, <<"A", "B">>)],
  [d |-> "sh(multi(2,@A,@B,@C))",       n |-> Multi(2, <<"A", "B", "C">>)],
  [d |-> "wsh(multi(2,@A,@B))",         n |-> Multi(2, <<"A", "B">>)],
  [d |-> "wsh(multi(2,@A,@B,@C))",      n |-> Multi(2, <<"A", "B", "C">>)],
  [d |-> "wsh(multi(3,@A,@B,@C))",      n |-> Multi(3, <<"A", "B", "C">>)],
  [d |-> "sh(wsh(multi(1,@A,@B,@C)))",  n |-> Multi(1, <<"A", "B", "C">>)],
  [d |-> "wsh(sortedmulti(2,@A,@B,@C))", n |-> Multi(2, <<"A", "B", "C">>)],
  [d |-> "tr(@A)",                      n |-> Pk("A")],
  [d |-> "rawtr(@A)",                   n |-> Pk("A")],
  [d |-> "tr(@A,pk(@B))",               n |-> Bin("or_i", Pk("A"), Pk("B"))],
  [d |-> "tr(@A,{pk(@B),pk(@C)})",      n |-> Thresh(1, <<Pk("A"), Pk("B"), Pk("C")>>)],
  [d |-> "tr(@N,{pk(@B),multi_a(2,@A,@C)})", n |-> Bin("or_i", Pk("B"), Multi(2, <<"A", "C">>))],
  \* outputs that can be solved but not spent under the standard flags (uncompressed key in a witness program): text starting
  \* with "!" is built by the harness from raw scripts
  [d |-> "!wpkh_uncompressed(@A)",       n |-> Pk("A")],
  [d |-> "!wsh_pk_uncompressed(@A)",     n |-> Pk("A")],
  [d |-> "!sh_wpkh_uncompressed(@A)",    n |-> Pk("A")]
>>

VARIABLES kind, node, text
vars == <<kind, node, text>>
\* kind = "seed": one seed per family, so that the families are built by different TLC workers; "ms" / "plain": one row
Init == kind = "seed" /\ node \in {Pk("F2"), Pk("F3"), Pk("F3b"), Pk("P")} /\ text = ""
Next == /\ kind = "seed"
        /\ \/ node = Pk("F2") /\ kind' = "ms" /\ node' \in Family2 /\ text' = Str(node')
           \/ node = Pk("F3") /\ kind' = "ms" /\ node' \in Family3 /\ text' = Str(node')
           \/ node = Pk("F3b") /\ kind' = "ms" /\ node' \in Family3b /\ text' = Str(node')
           \/ node = Pk("P") /\ kind' = "plain" /\ \E i \in 1..Len(PlainDescs) : node' = PlainDescs[i].n /\ text' = PlainDescs[i].d

Envs(n) ==
  LET ops == OpsOf(n) IN
  IF "older" \in ops /\ "after" \in ops THEN EnvOlder \cup EnvAfter \cup EnvBoth
  ELSE IF "older" \in ops THEN EnvOlder ELSE IF "after" \in ops THEN EnvAfter ELSE EnvPlain
Avails(n) == {[keys |-> ks, pre |-> ps, env |-> e] : ks \in SUBSET KeysOf(n), ps \in SUBSET HashesOf(n), e \in Envs(n)}
Case(n, av) == [k |-> av.keys, p |-> av.pre, tv |-> av.env.tv, seq |-> SeqTab[av.env.seq].str, lock |-> LockTab[av.env.lock].str,
                sat |-> Sat(n, av), satk |-> Sat(n, [av EXCEPT !.pre = {}])]

(* ------------------------------------------------------------ sanity of the oracle itself *)
Row == kind # "seed"
\* more material never hurts
Monotone == Row => \A a \in Avails(node) : Sat(node, a) =>
               /\ \A k \in KeysOf(node) : Sat(node, [a EXCEPT !.keys = @ \cup {k}])
               /\ \A h \in HashesOf(node) : Sat(node, [a EXCEPT !.pre = @ \cup {h}])
\* nothing can be satisfied with nothing, unless the policy has a branch without key and hash (never "sane")
NeedsMaterial == Row => \A e \in Envs(node) :
               Sat(node, [keys |-> {}, pre |-> {}, env |-> e]) => OpsOf(node) \cap {"older", "after", "just1"} # {}
\* timelocks: version 1 transactions never satisfy older(); a final sequence never satisfies after()
Bip68 == Row => \A i \in 1..2 : \A e \in EnvOlder \cup EnvAfter \cup EnvBoth \cup EnvPlain :
               (CheckSeq(OlderTab[i], e) => e.tv >= 2 /\ ~SeqTab[e.seq].dis) /\ (CheckLock(AfterTab[i], e) => ~SeqTab[e.seq].final)

EmitRow == Row => VFRow([t |-> kind, ms |-> text, cases |-> {Case(node, av) : av \in Avails(node)}])
====
