\* model checking only (thorough tier): deeper than the replayed graphs
CONSTANTS
  HasPar = TRUE
  MaxSteps = 5
  Kinds = {"Vbad", "Vbig", "Vstrip"}
INIT Init
NEXT Next
VIEW View0
INVARIANTS TypeOK NoFilterHasG NotAlreadyKnown
PROPERTIES InvTakenUp RequestSent PollAsksBest KeepsRequesting GenuineAccepted
CHECK_DEADLOCK FALSE
