\* two missing parents, delayed orphan reconsideration, copies with a lower and a higher wtxid than the genuine transaction
CONSTANTS
  MaxSteps = 6
INIT Init
NEXT Next
VIEW View0
INVARIANTS TypeOK NoFilterHasG NotForgotten
PROPERTIES TurnAccepts GenuineAccepted
ACTION_CONSTRAINT Emit
CHECK_DEADLOCK FALSE
