---- MODULE TxDownloadOrphan ----
(***************************************************************************)
(* C64, third universe: an orphan with TWO missing parents and explicit,   *)
(* delayable orphan reconsideration.                                       *)
(*                                                                         *)
(* The genuine transaction G (txid T, wtxid W) spends one output of each   *)
(* of two unconfirmed parents P1, P2.  Vlo and Vhi are malleated copies    *)
(* (same txid, invalid witness) whose wtxids are lower / higher than W     *)
(* (the orphanage walks the orphans spending an outpoint in wtxid order).  *)
(* Two wtxid-relay peers deliver transactions in any order.                *)
(* As in node::TxDownloadManagerImpl / TxOrphanage:                        *)
(*  - a transaction with a missing parent is kept as an orphan, announced  *)
(*    by its sender;                                                       *)
(*  - when a transaction is accepted, every orphan spending one of its     *)
(*    outputs that is not already marked is marked for reconsideration and *)
(*    put into the work set of its announcer (AddChildrenToWorkSet);       *)
(*  - the marks are consumed only in that peer's own turn                  *)
(*    (PeerManagerImpl::ProcessOrphanTx -> GetTxToReconsider: oldest mark  *)
(*    first; an orphan still missing a parent loses its mark and stays, the *)
(*    first one that validates or fails ends the turn), which may come     *)
(*    arbitrarily later: Turn(p) is an action of its own.                  *)
(* The property is the one of TxDownload.tla: the copies never keep G from *)
(* being validated and accepted.                                           *)
(***************************************************************************)
EXTENDS Integers, Sequences, FiniteSets, TLC, VF
CONSTANTS MaxSteps

Peers == {1, 2}
Parents == {"P1", "P2"}
Kids == {"G", "Vlo", "Vhi"}
Txs == Parents \cup Kids
WtxidOf(t) == CASE t = "P1" -> "P1W" [] t = "P2" -> "P2W" [] t = "G" -> "W" [] t = "Vlo" -> "Wlo" [] t = "Vhi" -> "Whi"
Hashes == {WtxidOf(t) : t \in Txs}

VARIABLES pool,     \* mempool
          rej,      \* reject filter (wtxids)
          orph,     \* orphanage
          oseq,     \* orphans in the order they were stored
          oann,     \* orphan -> the peer that delivered it (0 = none)
          work,     \* peer -> orphans marked for reconsideration in that peer's work set
          n, lastAct, lastRes
vars == <<pool, rej, orph, oseq, oann, work, n, lastAct, lastRes>>
View0 == <<pool, rej, orph, oseq, oann, work, n>>

Marked(w) == UNION {w[p] : p \in Peers}
AlreadyHave(t) == t \in orph \/ WtxidOf(t) \in rej \/ t \in pool
\* verdict class of mempool validation (order of the checks as in PreChecks)
Verdict(t, po) ==
  IF t \in Parents THEN "ok"
  ELSE IF "G" \in po THEN "conflict"                       \* same txid already in the pool
  ELSE IF ~(Parents \subseteq po) THEN "missing"
  ELSE IF t = "G" THEN "ok" ELSE "script"

Bind(e, F(_)) == CHOOSE r \in {F(x) : x \in {e}} : TRUE
St == [pool |-> pool, rej |-> rej, orph |-> orph, oseq |-> oseq, oann |-> oann, work |-> work]
\* AddChildrenToWorkSet: every orphan (they all spend both parents) without a mark gets one, in its announcer's work set
MarkChildren(s) == [s EXCEPT !.work = [p \in Peers |-> @[p] \cup {o \in s.orph \ Marked(s.work) : s.oann[o] = p}]]
Erase(s, t) == [s EXCEPT !.orph = @ \ {t}, !.oseq = SelectSeq(@, LAMBDA x : x # t), !.oann = [@ EXCEPT ![t] = 0],
                         !.work = [p \in Peers |-> @[p] \ {t}]]
\* MempoolAcceptedTx
Accept(s, t) == IF t \in Parents THEN MarkChildren([s EXCEPT !.pool = @ \cup {t}]) ELSE Erase([s EXCEPT !.pool = @ \cup {t}], t)
\* MempoolRejectedTx for a failure other than missing inputs: the wtxid goes to the reject filter, an orphan is erased
Reject(s, t) == Erase([s EXCEPT !.rej = @ \cup {WtxidOf(t)}], t)

Apply(s0) == \E s \in {s0} :
  /\ pool' = s.pool /\ rej' = s.rej /\ orph' = s.orph /\ oseq' = s.oseq /\ oann' = s.oann /\ work' = s.work
Step(a, r) == n' = n + 1 /\ lastAct' = a /\ lastRes' = r

\* "tx" message from p (ReceivedTx, validation, MempoolAcceptedTx / MempoolRejectedTx) - no orphan is reconsidered here
Recv(p, t) ==
  IF AlreadyHave(t)
  THEN Apply(St) /\ Step(<<"tx", p, t>>, [validated |-> FALSE, verdict |-> "none"])
  ELSE \E v \in {Verdict(t, pool)} :
       /\ Step(<<"tx", p, t>>, [validated |-> TRUE, verdict |-> v])
       /\ CASE v = "ok" -> Apply(Accept(St, t))
            [] v = "missing" -> Apply([St EXCEPT !.orph = @ \cup {t}, !.oseq = Append(@, t), !.oann = [@ EXCEPT ![t] = p]])
            [] OTHER -> Apply(Reject(St, t))

\* p's turn in the message handler: ProcessOrphanTx
RECURSIVE TurnFrom(_, _, _, _)
TurnFrom(s0, p, i, done) ==
  Bind(s0, LAMBDA s :
    IF i > Len(s.oseq) THEN <<s, done>>
    ELSE IF s.oseq[i] \notin s.work[p] THEN TurnFrom(s, p, i + 1, done)
    ELSE Bind(s.oseq[i], LAMBDA t : Bind(Verdict(t, s.pool), LAMBDA v :
           IF v = "missing"      \* loses its mark, stays in the orphanage; the loop goes on
           THEN TurnFrom([s EXCEPT !.work = [@ EXCEPT ![p] = @ \ {t}]], p, i + 1, Append(done, <<t, v>>))
           ELSE IF v = "ok" THEN <<Accept([s EXCEPT !.work = [@ EXCEPT ![p] = @ \ {t}]], t), Append(done, <<t, v>>)>>
           ELSE <<Reject(s, t), Append(done, <<t, v>>)>>)))
Turn(p) ==
  \E r \in {TurnFrom(St, p, 1, <<>>)} :
    Apply(r[1]) /\ Step(<<"turn", p>>, [done |-> r[2]])

Init ==
  /\ pool = {} /\ rej = {} /\ orph = {} /\ oseq = <<>> /\ oann = [t \in Txs |-> 0] /\ work = [p \in Peers |-> {}]
  /\ n = 0 /\ lastAct = <<"init">> /\ lastRes = [none |-> TRUE]
Act == \/ \E p \in Peers, t \in Txs : Recv(p, t)
       \/ \E p \in Peers : Turn(p)
Next == n < MaxSteps /\ Act
Spec == Init /\ [][Next]_vars

\* ---------------------------------------------------------------- the property
TypeOK == pool \subseteq Txs /\ orph \subseteq Txs /\ rej \subseteq Hashes /\ \A p \in Peers : work[p] \subseteq orph
GValid == "G" \notin pool /\ Parents \subseteq pool
\* while G is valid and absent its wtxid is not in the reject filter ...
NoFilterHasG == GValid => "W" \notin rej
\* ... and if it waits in the orphanage it is marked for reconsideration: it cannot sit there forgotten (an announcement of W would be
\*     answered "already have", nobody would ever validate it)
NotForgotten == (GValid /\ "G" \in orph) => "G" \in Marked(work)
\* the turn of the peer in whose work set it waits gets it accepted (unless an earlier mark of that peer ends the turn first)
TurnAccepts == [][\A p \in Peers : (lastAct' = <<"turn", p>> /\ GValid /\ "G" \in work[p])
                                   => ("G" \in pool' \/ ("G" \in work'[p] /\ Len(lastRes'.done) > 0))]_vars
\* the genuine transaction arriving when valid is validated and accepted
GenuineAccepted == [][\A p \in Peers : (lastAct' = <<"tx", p, "G">> /\ GValid /\ "G" \notin orph) => (lastRes'.validated /\ lastRes'.verdict = "ok" /\ "G" \in pool')]_vars

Proj == [pool |-> pool, orph |-> orph, rej |-> rej,
         hw |-> [p1 |-> work[1] # {}, p2 |-> work[2] # {}],     \* TxOrphanage::HaveTxToReconsider(p)
         ahW |-> AlreadyHave("G"),
         hid |-> [oseq |-> oseq, oann |-> oann, work |-> work, n |-> n]]
Emit == VFEdge(Proj, lastAct', lastRes', Proj')
====
