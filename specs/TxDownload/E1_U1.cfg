CONSTANTS
  HasPar = FALSE
  MaxSteps = 4
  Kinds = {"Vbad", "Vbig", "Vstrip"}
INIT Init
NEXT Next
VIEW View0
INVARIANTS TypeOK NoFilterHasG NotAlreadyKnown
PROPERTIES InvTakenUp RequestSent PollAsksBest KeepsRequesting GenuineAccepted
ACTION_CONSTRAINT Emit
CHECK_DEADLOCK FALSE
