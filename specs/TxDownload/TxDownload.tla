---- MODULE TxDownload ----
(***************************************************************************)
(* C64: a malleated copy of a transaction cannot censor the genuine one.   *)
(*                                                                         *)
(* Model of node::TxDownloadManagerImpl (src/node/txdownloadman_impl.cpp)  *)
(* together with the glue net_processing.cpp puts around it (the "tx"      *)
(* message branch, ProcessOrphanTx, the validation callbacks) and the      *)
(* verdict classes of mempool validation, over a universe of one genuine   *)
(* segwit transaction G (txid T, wtxid W) and its malleated copies with    *)
(* the same txid:                                                          *)
(*   Vbad   invalid witness (bad signature)            wtxid Wbad          *)
(*   Vbig   oversized, non-standard witness item       wtxid Wbig          *)
(*   Vstrip witness stripped                           wtxid = T           *)
(* and, if HasPar, an unconfirmed parent Par (PT / PW) whose output they   *)
(* all spend, so that every copy is an orphan until Par is known.          *)
(* Two peers, both wtxid-relay: 1 is preferred (outbound), 2 is not.       *)
(* Reject filters, orphanage and the request tracker are explicit sets.    *)
(* Time moves in ticks of 10 s inside Poll (all announcement delays are    *)
(* shorter; a request expires after 6 ticks = GETDATA_TX_INTERVAL).        *)
(***************************************************************************)
EXTENDS Integers, Sequences, FiniteSets, TLC, VF
CONSTANTS HasPar,          \* the copies spend an unconfirmed parent
          MaxSteps,        \* actions per behaviour
          Kinds            \* which malleated copies exist, subset of {"Vbad", "Vbig", "Vstrip"}

Peers == {1, 2}
Txs == {"G"} \cup Kinds \cup (IF HasPar THEN {"Par"} ELSE {})
TxidOf(t) == IF t = "Par" THEN "PT" ELSE "T"
WtxidOf(t) == CASE t = "Par" -> "PW" [] t = "G" -> "W" [] t = "Vbad" -> "Wbad" [] t = "Vbig" -> "Wbig" [] t = "Vstrip" -> "T"
HasWit(t) == t # "Vstrip"
Hashes == {"T", "W", "Wbad", "Wbig"} \cup (IF HasPar THEN {"PT", "PW"} ELSE {})
\* what a wtxid-relay peer can announce: the wtxid of any transaction of the universe (the stripped copy's wtxid is T)
InvHashes == {WtxidOf(t) : t \in Txs}
BlockKinds == {"empty", "g"} \cup (IF HasPar THEN {"par"} ELSE {})

VARIABLES pool,       \* transactions in the mempool
          chain,      \* transactions confirmed
          rej, recon, conf,   \* m_lazy_recent_rejects, ..._reconsiderable, m_lazy_recent_confirmed_transactions (hashes)
          orph,       \* orphanage (by wtxid)
          oann,       \* announcers of each orphan
          trk,        \* request tracker: hash -> peer -> "none" | "cand" | "req" | "done"
          rage,       \* ticks since the REQUESTED announcement of a hash was requested
          n, lastAct, lastRes
vars == <<pool, chain, rej, recon, conf, orph, oann, trk, rage, n, lastAct, lastRes>>
View0 == <<pool, chain, rej, recon, conf, orph, oann, trk, rage, n>>

\* Bind(e, F): F applied to the VALUE of e. (TLC passes operator arguments and LET definitions by name and may evaluate them again at
\* every reference; a bound variable of a set constructor holds a value.)
Bind(e, F(_)) == CHOOSE r \in {F(x) : x \in {e}} : TRUE
Live(s) == s \in {"cand", "req"}
\* TxRequestTracker deletes the COMPLETED announcements of a hash once no CANDIDATE / REQUESTED one is left
Norm(k) == [h \in Hashes |-> IF \E p \in Peers : Live(k[h][p]) THEN k[h] ELSE [p \in Peers |-> "none"]]
Forget(k, hs) == [h \in Hashes |-> IF h \in hs THEN [p \in Peers |-> "none"] ELSE k[h]]
TrkInv(k, p, h) == IF k[h][p] = "none" THEN [k EXCEPT ![h][p] = "cand"] ELSE k       \* ReceivedInv: no effect on an existing entry
Complete(k, p, hs) == Norm([h \in Hashes |-> IF h \in hs /\ Live(k[h][p]) THEN [k[h] EXCEPT ![p] = "done"] ELSE k[h]])
RageAfter(k, r) == [h \in Hashes |-> IF \E p \in Peers : k[h][p] = "req" THEN r[h] ELSE 0]

\* TxDownloadManagerImpl::AlreadyHaveTx on explicit state (PT is only ever looked up as a txid, everything else as a wtxid)
AlreadyHaveIn(h, inclRecon, po, rj, rc, cf, orp) ==
  \/ \E t \in orp : WtxidOf(t) = h
  \/ inclRecon /\ h \in rc
  \/ h \in cf
  \/ h \in rj
  \/ IF h = "PT" THEN "Par" \in po ELSE \E t \in po : WtxidOf(t) = h
AlreadyHave(h, inclRecon) == AlreadyHaveIn(h, inclRecon, pool, rej, recon, conf, orph)

\* verdict class of MemPoolAccept for transaction t given pool po and chain ch (order of the checks as in PreChecks)
Verdict(t, po, ch) ==
  IF \E u \in po : TxidOf(u) = TxidOf(t) THEN "conflict"                         \* txn-same-nonwitness-data-in-mempool
  ELSE IF \E u \in ch : TxidOf(u) = TxidOf(t) THEN "known"                        \* txn-already-known
  ELSE IF t # "Par" /\ HasPar /\ "Par" \notin po \cup ch THEN "missing"           \* TX_MISSING_INPUTS
  ELSE CASE t \in {"Par", "G"} -> "ok"
         [] t = "Vbad" -> "script"                                                \* TX_NOT_STANDARD: script verification failed
         [] t = "Vbig" -> "witmut"                                                \* TX_WITNESS_MUTATED: bad-witness-nonstandard
         [] t = "Vstrip" -> "stripped"                                            \* TX_WITNESS_STRIPPED

\* ------------------------------------------------------------------ state records threaded through the macro-steps
St(po, ch, rj, rc, cf, orp, oa, k) == [pool |-> po, chain |-> ch, rej |-> rj, recon |-> rc, conf |-> cf, orph |-> orp, oann |-> oa, trk |-> k]
Cur == St(pool, chain, rej, recon, conf, orph, oann, trk)

\* MempoolAcceptedTx
Accepted(s, t) == [s EXCEPT !.pool = @ \cup {t}, !.trk = Forget(@, {TxidOf(t), WtxidOf(t)}), !.orph = @ \ {t},
                            !.oann = [@ EXCEPT ![t] = {}]]

\* MempoolRejectedTx(t, verdict v, sender p, first_time_failure)
Rejected(s, t, v, p, first) ==
  IF v = "missing" THEN
    IF ~first \/ WtxidOf(t) \in s.rej THEN s
    ELSE IF "PT" \in s.rej THEN      \* rejected parent: the child can never be valid, whatever its witness
      [s EXCEPT !.rej = @ \cup {TxidOf(t), WtxidOf(t)}, !.trk = Forget(@, {TxidOf(t), WtxidOf(t)})]
    ELSE
      \* orphan resolution candidates: the sender and every peer with a live announcement of the txid or wtxid
      Bind(({p} \cup {q \in Peers : Live(s.trk[TxidOf(t)][q])} \cup (IF HasWit(t) THEN {q \in Peers : Live(s.trk[WtxidOf(t)][q])} ELSE {})) \ s.oann[t],
           LAMBDA newc :
             Bind([h \in Hashes |-> IF h = "PT" THEN [q \in Peers |-> IF q \in newc /\ s.trk[h][q] = "none" THEN "cand" ELSE s.trk[h][q]] ELSE s.trk[h]],
                  LAMBDA k1 : [s EXCEPT !.orph = IF newc = {} THEN @ ELSE @ \cup {t},
                                        !.oann = [@ EXCEPT ![t] = @ \cup newc],
                                        !.trk = Forget(k1, {TxidOf(t), WtxidOf(t)})]))
  ELSE IF v = "stripped" THEN [s EXCEPT !.orph = @ \ {t}, !.oann = [@ EXCEPT ![t] = {}]]
  ELSE \* generic failure: only the wtxid goes to the reject filter
    [s EXCEPT !.rej = @ \cup {WtxidOf(t)}, !.trk = Forget(@, {WtxidOf(t)}), !.orph = @ \ {t}, !.oann = [@ EXCEPT ![t] = {}]]

\* ProcessOrphanTx until no work is left: every orphan whose parent is now available is validated again; the model takes G first
DrainOrder == <<"G", "Vbad", "Vbig", "Vstrip">>
RECURSIVE DrainFrom(_, _)
DrainFrom(s0, i) ==
  Bind(s0, LAMBDA s :
    IF i > Len(DrainOrder) THEN s
    ELSE IF DrainOrder[i] \notin s.orph THEN DrainFrom(s, i + 1)
    ELSE Bind(Verdict(DrainOrder[i], s.pool, s.chain), LAMBDA v :
           IF v = "missing" THEN DrainFrom(s, i + 1)
           ELSE IF v = "ok" THEN DrainFrom(Accepted(s, DrainOrder[i]), i + 1)
           ELSE DrainFrom(Rejected(s, DrainOrder[i], v, 1, FALSE), i + 1)))
Drain(s) == DrainFrom(s, 1)

\* (TLCEval: the argument is an unevaluated expression that would otherwise be recomputed for every conjunct)
\* (\E x \in {e} binds x to the VALUE of e: TLC would otherwise re-evaluate a LET definition / an operator argument at every reference
\*  while it computes successor states)
Apply(s0) ==
  \E s \in {s0} : \E k \in {Norm(s.trk)} :
  /\ pool' = s.pool /\ chain' = s.chain /\ rej' = s.rej /\ recon' = s.recon /\ conf' = s.conf
  /\ orph' = s.orph /\ oann' = s.oann
  /\ trk' = k
  /\ rage' = RageAfter(k, rage)

Step(a, r) == n < MaxSteps /\ n' = n + 1 /\ lastAct' = a /\ lastRes' = r

\* ------------------------------------------------------------------ actions
\* inv: AddTxAnnouncement(p, Wtxid h, now)
Inv(p, h) ==
  LET o == {t \in orph : WtxidOf(t) = h} IN
  IF o # {} THEN
     LET t == CHOOSE x \in o : TRUE
         have == AlreadyHave("PT", FALSE) IN
     IF have \/ p \in oann[t] THEN Apply(Cur) /\ Step(<<"inv", p, h>>, [dropped |-> TRUE])
     ELSE Apply([Cur EXCEPT !.trk = TrkInv(@, p, "PT"), !.oann = [@ EXCEPT ![t] = @ \cup {p}]]) /\ Step(<<"inv", p, h>>, [dropped |-> TRUE])
  ELSE IF AlreadyHave(h, TRUE) THEN Apply(Cur) /\ Step(<<"inv", p, h>>, [dropped |-> TRUE])
  ELSE Apply([Cur EXCEPT !.trk = TrkInv(@, p, h)]) /\ Step(<<"inv", p, h>>, [dropped |-> FALSE])

\* the clock advances by `ticks` x 10 s, then GetRequestsToSend(p, now)
Best(k, h, p) == k[h][p] = "cand" /\ (\A q \in Peers : k[h][q] # "req") /\ (p = 1 \/ k[h][1] # "cand")
Poll(p, ticks) ==
  \E aged \in {[h \in Hashes |-> IF \E q \in Peers : trk[h][q] = "req" THEN rage[h] + ticks ELSE 0]} :
  \E k0 \in {Norm([h \in Hashes |-> [q \in Peers |-> IF trk[h][q] = "req" /\ aged[h] >= 6 THEN "done" ELSE trk[h][q]]])} :
  \E want \in {{h \in Hashes : Best(k0, h, p)}} :
  \E ask \in {{h \in want : ~AlreadyHave(h, FALSE)}} :
  \E k1 \in {Norm(Forget([h \in Hashes |-> IF h \in ask THEN [k0[h] EXCEPT ![p] = "req"] ELSE k0[h]], want \ ask))} :
     /\ UNCHANGED <<pool, chain, rej, recon, conf, orph, oann>>
     /\ trk' = k1
     /\ rage' = [h \in Hashes |-> IF h \in ask THEN 0 ELSE IF \E q \in Peers : k1[h][q] = "req" THEN aged[h] ELSE 0]
     /\ Step(<<"poll", p, ticks>>, [ask |-> ask])

NotFound(p, h) ==
  /\ Live(trk[h][p])
  /\ Apply([Cur EXCEPT !.trk = Complete(@, p, {h})])
  /\ Step(<<"notfound", p, h>>, [none |-> TRUE])

\* "tx" message from p: ReceivedTx, validation, MempoolAcceptedTx / MempoolRejectedTx, then the orphans that became ready
Recv(p, t) ==
  \E k0 \in {Complete(trk, p, {TxidOf(t)} \cup (IF HasWit(t) THEN {WtxidOf(t)} ELSE {}))} :
  \E s0 \in {[Cur EXCEPT !.trk = k0]} :
  IF AlreadyHaveIn(WtxidOf(t), FALSE, pool, rej, recon, conf, orph) \/ WtxidOf(t) \in recon
  THEN Apply(s0) /\ Step(<<"tx", p, t>>, [validated |-> FALSE, verdict |-> "none"])
  ELSE \E v \in {Verdict(t, pool, chain)} :
       \E s1 \in {IF v = "ok" THEN Accepted(s0, t) ELSE Rejected(s0, t, v, p, TRUE)} :
       \E s2 \in {Drain(s1)} :
         Apply(s2) /\ Step(<<"tx", p, t>>, [validated |-> TRUE, verdict |-> v])

\* a block is connected: BlockConnected (orphans conflicting with / children of its transactions, confirmed filter, tracker) and
\* ActiveTipChange (reject filters reset); the mempool drops what the block confirmed
BlockTxs(kind) == CASE kind = "empty" -> {}
                    [] kind = "par" -> {"Par"}
                    [] kind = "g" -> {"G"} \cup (IF HasPar /\ "Par" \notin chain THEN {"Par"} ELSE {})
Block(kind) ==
  /\ kind = "par" => "Par" \notin chain
  /\ kind = "g" => "G" \notin chain
  /\ \E b \in {BlockTxs(kind)} :
     \E hs \in {UNION {{TxidOf(t), WtxidOf(t)} : t \in b}} :
     \* EraseForBlock: orphans spending an outpoint the block spends (G in the block: every copy, they share its input)
     \E gone \in {IF "G" \in b THEN orph ELSE {}} :
     \E s0 \in {[Cur EXCEPT !.chain = @ \cup b, !.pool = @ \ b, !.conf = @ \cup hs, !.trk = Forget(@, hs),
                           !.orph = @ \ gone, !.oann = [t \in Txs |-> IF t \in gone THEN {} ELSE @[t]],
                           !.rej = {}, !.recon = {}]} :
     \E s1 \in {Drain(s0)} :
       Apply(s1) /\ Step(<<"block", kind>>, [txs |-> b])

Init ==
  /\ pool = {} /\ chain = {} /\ rej = {} /\ recon = {} /\ conf = {} /\ orph = {}
  /\ oann = [t \in Txs |-> {}]
  /\ trk = [h \in Hashes |-> [p \in Peers |-> "none"]]
  /\ rage = [h \in Hashes |-> 0]
  /\ n = 0 /\ lastAct = <<"init">> /\ lastRes = [none |-> TRUE]

Act ==
  \/ \E p \in Peers, h \in InvHashes : Inv(p, h)
  \/ \E p \in Peers, k \in {1, 6} : Poll(p, k)
  \/ \E p \in Peers, h \in Hashes : NotFound(p, h)
  \/ \E p \in Peers, t \in Txs : Recv(p, t)
  \/ \E kind \in BlockKinds : Block(kind)
Next == n < MaxSteps /\ Act          \* the bound first: the successors are expensive to compute
Spec == Init /\ [][Next]_vars

\* ------------------------------------------------------------------ the property
TypeOK == /\ pool \subseteq Txs /\ chain \subseteq Txs /\ orph \subseteq Txs
          /\ rej \subseteq Hashes /\ recon \subseteq Hashes /\ conf \subseteq Hashes
          /\ \A h \in Hashes, p \in Peers : trk[h][p] \in {"none", "cand", "req", "done"}
          /\ \A h \in Hashes : Cardinality({p \in Peers : trk[h][p] = "req"}) <= 1

\* G could enter the mempool right now, and is neither there nor confirmed
GValidIn(po, ch) == "G" \notin po /\ "G" \notin ch /\ (HasPar => "Par" \in po \cup ch)
GValid == GValidIn(pool, chain)

\* while G is valid and absent, neither its wtxid nor its txid is in any filter
NoFilterHasG == GValid => {"W", "T"} \cap (rej \cup recon \cup conf) = {}
\* ... the node does not consider it already known, and it does not sit forgotten in the orphanage
NotAlreadyKnown == GValid => ("G" \notin orph /\ ~AlreadyHave("W", TRUE))
\* an announcement of W by a wtxid-relay peer is taken up
\* (unless that peer already had its turn: it answered notfound / let a request time out while another announcer is still being tried)
InvTakenUp == [][\A p \in Peers : (lastAct' = <<"inv", p, "W">> /\ GValid /\ trk["W"][p] # "done") => (~lastRes'.dropped /\ Live(trk'["W"][p]))]_vars
\* when the node polls the peer the tracker considers best for W, it requests W
RequestSent == [][\A p \in Peers, k \in {1, 6} :
                   (lastAct' = <<"poll", p, k>> /\ GValid /\ trk'["W"][p] = "req" /\ trk["W"][p] = "cand") => "W" \in lastRes'.ask]_vars
PollAsksBest == [][\A p \in Peers, k \in {1, 6} :
                   (lastAct' = <<"poll", p, k>> /\ GValid /\ trk["W"][p] = "cand"
                    /\ (\A q \in Peers : trk["W"][q] = "req" => rage["W"] + k >= 6) /\ (p = 1 \/ trk["W"][1] # "cand"))
                   => "W" \in lastRes'.ask]_vars
\* nothing but the peer's own answer (G itself, a notfound, or letting the request time out) ends a peer's announcement of W while G is
\* still wanted: no copy, from any peer, makes the node stop requesting the genuine transaction
KeepsRequesting == [][\A p \in Peers :
                       (Live(trk["W"][p]) /\ GValidIn(pool', chain') /\ ~Live(trk'["W"][p]))
                       => \/ lastAct' = <<"tx", p, "G">>
                          \/ lastAct' = <<"notfound", p, "W">>
                          \/ (lastAct'[1] = "poll" /\ trk["W"][p] = "req")]_vars
\* the genuine transaction, when it arrives, is validated and accepted
GenuineAccepted == [][\A p \in Peers : (lastAct' = <<"tx", p, "G">> /\ GValid) => (lastRes'.validated /\ lastRes'.verdict = "ok" /\ "G" \in pool')]_vars

\* ------------------------------------------------------------------ projection compared with the implementation
\* (the txid's membership in the reject filter is not compared once G is in the pool or confirmed: it then depends on the order in which
\*  the orphaned copies are reconsidered, and the property no longer cares)
Masked == "G" \in pool \cup chain
Proj == [pool |-> pool, orph |-> orph,
         rej |-> IF Masked THEN rej \ {"T"} ELSE rej, rejT |-> IF Masked THEN "na" ELSE IF "T" \in rej THEN "yes" ELSE "no",
         recon |-> recon, conf |-> conf,
         live |-> [h \in Hashes |-> {p \in Peers : Live(trk[h][p])}],
         ahW |-> AlreadyHave("W", TRUE),
         \* AlreadyHaveTx asked with the TXID T (what a txid-relay peer's inv or an orphan's parent lookup would ask): the orphanage is only
         \* consulted with the hash "cast" to a wtxid (so only the stripped copy matches), the mempool by txid
         ahT |-> IF Masked THEN "na"
                 ELSE IF "Vstrip" \in orph \/ "T" \in rej \cup recon \cup conf \/ (\E t \in pool : TxidOf(t) = "T") THEN "yes" ELSE "no",
         \* not compared (the adapter skips it): makes the projection injective, so that the emitted graph is the state graph
         hid |-> [chain |-> chain, oann |-> oann, trk |-> trk, rage |-> rage, n |-> n, rejT |-> "T" \in rej]]
Emit == VFEdge(Proj, lastAct', lastRes', Proj')
====
