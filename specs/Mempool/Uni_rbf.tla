---- MODULE Uni_rbf ----
(* Scenario family "rbf" (C26, C28, C22): three mature base coins of 100 000 sat (coinbases of heights 1..3; base tip 110).   *)
(* Fees are placed at -1 / 0 / +1 satoshi of the Rule 3 / Rule 4 / min-relay thresholds for the measured virtual sizes      *)
(* (1 input + 1 output + marker = 174 vB, so 18 sat at 100 sat/kvB; the driver's vacuity guard fails if a size change moves a threshold).             *)
EXTENDS Integers, Sequences, UniCommon
F == [kind |-> "final", v |-> 0]
NoLock == [kind |-> "none", v |-> 0]
In(t, i) == [op |-> <<t, i>>, seq |-> F]
Out(v) == [v |-> v, cls |-> "true"]
Tx(ins, outs) == [ins |-> ins, outs |-> outs, ver |-> 1, lock |-> NoLock, pad |-> 0, twin |-> 0]
TxP(ins, outs, pad) == [ins |-> ins, outs |-> outs, ver |-> 1, lock |-> NoLock, pad |-> pad, twin |-> 0]
TxUDef == <<
  Tx(<<In(0,1)>>, <<Out(49500), Out(49500)>>),        \*  1: parent, fee 1000, two outputs
  Tx(<<In(1,1)>>, <<Out(49000)>>),                    \*  2: child of 1, fee 500
  Tx(<<In(0,1)>>, <<Out(98483)>>),                    \*  3: replaces {1,2}: fee 1517 = Rule 4 threshold - 1 (1500 evicted + 18 incremental)
  Tx(<<In(0,1)>>, <<Out(98482)>>),                    \*  4: fee 1518 = Rule 4 threshold exactly
  Tx(<<In(0,1)>>, <<Out(98481)>>),                    \*  5: fee 1519 = Rule 4 threshold + 1
  Tx(<<In(0,1)>>, <<Out(98501)>>),                    \*  6: fee 1499 = Rule 3 threshold - 1 against {1,2}
  Tx(<<In(0,1)>>, <<Out(98500)>>),                    \*  7: fee 1500 = Rule 3 threshold exactly (fails Rule 4)
  TxP(<<In(0,1)>>, <<Out(98400)>>, 400),              \*  8: large: pays more than 1 (and than {1,2}) but at a lower feerate: diagram
  Tx(<<In(0,1), In(1,1)>>, <<Out(140500)>>),          \*  9: conflicts with 1 and spends 1's output
  Tx(<<In(0,2)>>, <<Out(99983)>>),                    \* 10: fee 17 = min relay fee - 1
  Tx(<<In(0,2)>>, <<Out(99982)>>),                    \* 11: fee 18 = min relay fee exactly
  Tx(<<In(99,1)>>, <<Out(100)>>),                     \* 12: spends an output that never existed
  Tx(<<In(0,2), In(1,2)>>, <<Out(146500)>>),          \* 13: child of 1 that also spends base coin 2 (conflicts with 10/11), fee 3000
  Tx(<<In(0,1), In(11,1)>>, <<Out(196982)>>),         \* 14: replaces 1's family, with the unrelated pool transaction 11 as parent, fee 3000
  Tx(<<In(0,1), In(0,2)>>, <<Out(190000)>>),          \* 15: conflicts with two clusters at once, fee 10000
  Tx(<<In(0,3)>>, <<Out(99000)>>),                    \* 16: fee 1000 on base coin 3
  Tx(<<In(0,3)>>, <<Out(99000)>>)                     \* 17: same fee, same size as 16 (different marker): equal diagram
>>
BaseDef == << [v |-> 100000, h |-> 1], [v |-> 100000, h |-> 2], [v |-> 100000, h |-> 3] >>
AllTx == 1..17
NoTx == {}
\* with -incrementalrelayfee=0 Rule 4 asks for nothing extra: equal fee passes Rules 3 and 4 and the feerate diagram decides
Incr0Tx == {1, 2, 6, 7, 16, 17}
NoLists == {}
NoTicks == {}
NoReorgs == {}
NoPrio == {}
\* prioritisation moves the thresholds: +1 on the evicted child (3..5 slide down by one), +1 / -1 on a candidate, a negative modified fee
PrioDef == {<<2, 1>>, <<4, 1>>, <<4, -1>>, <<2, -600>>, <<10, 1>>}
PrioSmall == {<<2, 1>>, <<4, -1>>}
H0Def == 110
BaseDtDef == 1
====
