---- MODULE MC_chain ----
EXTENDS Mempool, Uni_chain
====
