CONSTANTS
  TxU <- TxUDef
  BaseCoins <- BaseDef
  H0 = 101
  BaseDt = 512
  Lists <- ListsT
  ReorgPairs <- ReorgsQ
  Dts = {512}
  SubmitSet <- AllTx
  TestSet <- AllTx
  PrioSet <- NoPrio
  Ticks <- NoTicks
  MaxBlocks = 1
  MaxDisc = 1
  MaxReorg = 1
  MaxPrio = 0
  MaxTicks = 0
  MaxExpire = 0
  MinRelay = 100
  IncrRelay = 100
  Expiry = 1209600
  MaxReplClusters = 100
  MaxClusterCount = 64
  Ext <- ExtNone
INIT Init
NEXT Next
VIEW View0
INVARIANTS Consistent NextBlockValid UtxoIsReplay Bookkeeping
PROPERTIES ReplacementsSound TestAcceptPure TestAcceptFaithful
ACTION_CONSTRAINT Emit
CHECK_DEADLOCK FALSE
