---- MODULE MC_rbf ----
EXTENDS Mempool, Uni_rbf
====
