---- MODULE MC_dust ----
EXTENDS Mempool, Uni_dust
====
