---- MODULE Uni_r5 ----
(* Scenario family "r5" (C26, Rule 5 at its real bound): MAX_REPLACEMENT_CANDIDATES = 100 is a compile-time constant of the node, *)
(* so the scenario is as large as the rule: 102 mature base coins of 100 000 sat (coinbases of heights 1..102, base tip 210) and    *)
(* 102 independent pool transactions V1..V102 (fee 1000 each: 102 singleton clusters), submitted in one Prefill step. Single        *)
(* replacements that conflict with 100 / 101 of them, and 1-parent-1-child packages whose parent conflicts with a and whose child   *)
(* with b of them, a + b = 100, 101, 102 (a, b <= 100: neither transaction alone exceeds the bound); every parent pays less than    *)
(* what it conflicts with, so that it fails on its own (Rule 3) and the pair is evaluated as a package replacement.                 *)
EXTENDS Integers, Sequences, UniCommon
F == [kind |-> "final", v |-> 0]
NoLock == [kind |-> "none", v |-> 0]
In(t, i) == [op |-> <<t, i>>, seq |-> F]
Out(v) == [v |-> v, cls |-> "true"]
Tx(ins, outs) == [ins |-> ins, outs |-> outs, ver |-> 2, lock |-> NoLock, pad |-> 0, twin |-> 0]
NV == 102
Coins(a, b) == [k \in 1..(b - a + 1) |-> In(0, a + k - 1)]                        \* base coins a..b as inputs
Victims == [i \in 1..NV |-> Tx(<<In(0, i)>>, <<Out(99000)>>)]                     \* 1..102: V_i spends base coin i, fee 1000
\* a transaction spending base coins a..b (and, if p # 0, the first output of transaction p, worth pv) that pays `fee`
Spend(p, pv, a, b, fee) == Tx((IF p = 0 THEN <<>> ELSE <<In(p, 1)>>) \o Coins(a, b), <<Out(pv + (b - a + 1) * 100000 - fee)>>)
PV(n, fee) == n * 100000 - fee                      \* the output of a parent that spends n coins and pays fee
Repl == <<
  Spend(0, 0, 1, 100, 120000),                      \* 103: conflicts with V1..V100: 100 clusters, pays for them
  Spend(0, 0, 1, 101, 125000),                      \* 104: conflicts with 101 clusters
  Spend(0, 0, 1, 50, 5000),                         \* 105: P50: conflicts with V1..V50, pays 5000 (less than their 50 000)
  Spend(105, PV(50, 5000), 51, 100, 300000),        \* 106: child of P50 conflicting with V51..V100: package of 50 + 50 = 100
  Spend(105, PV(50, 5000), 51, 101, 300000),        \* 107: child of P50 conflicting with V51..V101: 50 + 51 = 101
  Spend(0, 0, 1, 51, 5000),                         \* 108: P51
  Spend(108, PV(51, 5000), 52, 102, 300000),        \* 109: child of P51 conflicting with V52..V102: 51 + 51 = 102
  Spend(0, 0, 1, 100, 5000),                        \* 110: P100: 100 clusters on its own, pays too little
  Spend(110, PV(100, 5000), 101, 101, 300000),      \* 111: child of P100 conflicting with V101: 100 + 1 = 101
  Spend(0, 0, 1, 1, 500),                           \* 112: P1: conflicts with V1, pays 500
  Spend(112, PV(1, 500), 2, 101, 300000),           \* 113: child of P1 conflicting with V2..V101: 1 + 100 = 101
  Spend(0, 0, 1, 101, 5000),                        \* 114: P101: 101 clusters on its own (not retried as a package)
  Spend(114, PV(101, 5000), 102, 102, 300000)       \* 115: its child
>>
TxUDef == Victims \o Repl
BaseDef == [i \in 1..NV |-> [v |-> 100000, h |-> i]]
H0Def == 210
BaseDtDef == 1
AllTx == 1..115
Singles == {103, 104}
NoTx == {}
NoLists == {}
NoTicks == {}
NoReorgs == {}
NoPrio == {}
CasesDef == { <<103>>, <<104>>, <<105, 106>>, <<105, 107>>, <<108, 109>>, <<110, 111>>, <<112, 113>>, <<114, 115>> }
\* the victims are the initial pool of every case (submitted by the harness before the case)
ExtR5 == [ExtNone EXCEPT !.prefill = [i \in 1..NV |-> i]]
====
