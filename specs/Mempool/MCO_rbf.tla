---- MODULE MCO_rbf ----
EXTENDS MempoolObs, Uni_rbf
====
