---- MODULE MC_clu ----
EXTENDS Mempool, Uni_clu
====
