---- MODULE Uni_dust ----
(* Scenario family "dust" (C27), standardness rules on: four mature P2PK base coins of 100 000 sat (base tip 110); outputs are    *)
(* P2WSH(OP_TRUE) and pay-to-anchor (dust below 240 sat). Zero-fee parents with one dust output and children that spend both     *)
(* outputs / only the non-dust output / only the dust; a parent that pays a fee and has dust; a parent with two dust outputs;    *)
(* an anchor of 239 (dust) and of 240 sat (not dust); prioritisation that makes the modified fee of a dust parent non-zero.      *)
(* With -minrelaytxfee=100 a zero-fee parent only enters through a package; with -minrelaytxfee=0 also on its own.                *)
EXTENDS Integers, Sequences, UniCommon
F == [kind |-> "final", v |-> 0]
NoLock == [kind |-> "none", v |-> 0]
In(t, i) == [op |-> <<t, i>>, seq |-> F]
Out(v) == [v |-> v, cls |-> "wtrue"]
A(v) == [v |-> v, cls |-> "anchor"]
Tx(ins, outs) == [ins |-> ins, outs |-> outs, ver |-> 2, lock |-> NoLock, pad |-> 0, twin |-> 0]
TxUDef == <<
  Tx(<<In(0,1)>>, <<Out(100000), A(0)>>),                  \*  1: zero-fee parent with one dust output
  Tx(<<In(1,1), In(1,2)>>, <<Out(98000)>>),                \*  2: child spending both outputs, fee 2000
  Tx(<<In(1,1)>>, <<Out(98000)>>),                         \*  3: child that leaves the dust unspent
  Tx(<<In(1,2), In(0,2)>>, <<Out(99000)>>),                \*  4: child spending only the dust (and base coin 2), fee 1000
  Tx(<<In(0,3)>>, <<Out(99500), A(0)>>),                   \*  5: dust and a fee of 500
  Tx(<<In(0,3)>>, <<Out(100000), A(0), A(0)>>),            \*  6: two dust outputs
  Tx(<<In(0,4)>>, <<Out(100000), A(0)>>),                  \*  7: zero-fee parent with dust, prioritised in some histories
  Tx(<<In(7,1), In(7,2)>>, <<Out(97000)>>),                \*  8: its child, spends both, fee 3000
  Tx(<<In(7,1)>>, <<Out(99000)>>),                         \*  9: its child that leaves the dust unspent
  Tx(<<In(2,1)>>, <<Out(97000)>>),                         \* 10: grandchild
  Tx(<<In(0,2)>>, <<Out(99000), A(239)>>),                 \* 11: anchor of 239 sat is dust; pays 761
  Tx(<<In(0,2)>>, <<Out(99000), A(240)>>),                 \* 12: anchor of 240 sat is not dust; pays 760
  Tx(<<In(6,1), In(6,2), In(6,3)>>, <<Out(97000)>>)        \* 13: child of the two-dust parent spending everything, fee 3000
>>
BaseDef == << [v |-> 100000, h |-> 1], [v |-> 100000, h |-> 2], [v |-> 100000, h |-> 3], [v |-> 100000, h |-> 4] >>
H0Def == 110
BaseDtDef == 1
AllTx == 1..13
SubQ == {1, 2, 3, 4, 5, 6, 11, 12}
NoTx == {}
NoLists == {}
NoTicks == {}
NoReorgs == {}
NoPrio == {}
PrioDef == {<<7, 100>>, <<7, -100>>, <<1, 50>>}
ListsQ == { <<1>> }
ListsT == { <<1>>, <<1, 2>>, <<7>> }
PkgsQ == { <<1, 2>>, <<1, 3>>, <<1, 4>>, <<6, 13>> }
PkgsT == { <<1, 2>>, <<1, 3>>, <<1, 4>>, <<7, 8>>, <<7, 9>>, <<5, 2>>, <<1, 2, 10>>, <<6>>, <<1>>, <<6, 13>> }
ExtQ == [ExtStd EXCEPT !.pkgs = PkgsQ, !.maxpkg = 1]
ExtT == [ExtStd EXCEPT !.pkgs = PkgsT, !.maxpkg = 1]
====
