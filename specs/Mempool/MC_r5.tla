---- MODULE MC_r5 ----
EXTENDS Rule5, Uni_r5
====
