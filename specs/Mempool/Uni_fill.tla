---- MODULE Uni_fill ----
(* Scenario family "fill" (C27): -maxmempool=1 (1 000 000 bytes, the minimum for -limitclustersize=25), sixteen mature base      *)
(* coins of 1 000 000 sat locked by P2WSH(90 x OP_2DROP, OP_TRUE): a spend carries 180 witness elements, so that a transaction    *)
(* of ~23.7 kvB occupies ~100 kB of memory and ten of them exceed the limit. Eight fillers are submitted first (Prefill), the     *)
(* ninth fits, every further one forces a trim. Distinct feerates (no ties between chunks); a cheap big parent with a small       *)
(* well-paying child (one chunk: evicted or kept together); a small cheap transaction (a trim evicts two chunks in a row);        *)
(* candidates below / above the rolling minimum feerate a trim leaves behind; prioritisation that changes the worst chunk.        *)
EXTENDS Integers, Sequences, UniCommon
F == [kind |-> "final", v |-> 0]
NoLock == [kind |-> "none", v |-> 0]
In(t, i) == [op |-> <<t, i>>, seq |-> F]
Out(v) == [v |-> v, cls |-> "true"]
Big(i, fee) == [ins |-> <<In(0, i)>>, outs |-> <<Out(1000000 - fee)>>, ver |-> 2, lock |-> NoLock, pad |-> 0, twin |-> 0, wpad |-> 520]
Tx(ins, outs) == [ins |-> ins, outs |-> outs, ver |-> 2, lock |-> NoLock, pad |-> 0, twin |-> 0, wpad |-> 0]
TxUDef == <<
  Big(1, 50000), Big(2, 53000), Big(3, 56000), Big(4, 59000), Big(5, 62000), Big(6, 65000), Big(7, 68000), Big(8, 71000),   \* 1..8: fillers
  Big(9, 74000),                                           \*  9: fits
  Big(10, 30000),                                          \* 10: the cheapest big one
  Big(11, 90000),                                          \* 11: the best big one
  Big(12, 26000),                                          \* 12: cheap parent ...
  Tx(<<In(12,1)>>, <<Out(947128)>>),                       \* 13: ... and its small child paying 26 872: one chunk of 52 872 (2224 sat/kvB: between the
                                                           \*     minimum feerate left by the eviction of 1, 2213, and the feerate of 2, 2239)
  Big(14, 40000),                                          \* 14: below the minimum feerate after the fillers' cheapest went
  Big(15, 80000),                                          \* 15: above it
  [ins |-> <<In(0, 16)>>, outs |-> <<Out(999970)>>, ver |-> 2, lock |-> NoLock, pad |-> 0, twin |-> 0, wpad |-> 0]   \* 16: small and cheapest of all (30 sat)
>>
BaseDef == [i \in 1..16 |-> [v |-> 1000000, h |-> i, cls |-> "wbig"]]
H0Def == 116
BaseDtDef == 1
AllTx == 1..16
FreeQ == {9, 10, 11, 14, 16}
FreeT == {9, 10, 11, 12, 13, 14, 15, 16}
NoTx == {}
NoLists == {}
NoTicks == {}
NoReorgs == {}
NoPrio == {}
PrioDef == {<<10, 50000>>, <<1, -30000>>}
ListsT == { <<1>> }
Fillers == <<1, 2, 3, 4, 5, 6, 7, 8>>
ExtNode == [ExtNone EXCEPT !.maxclsize = 25000, !.maxmempool = 1000000]
ExtQ == [ExtNode EXCEPT !.margin = 20000, !.prefill = Fillers]
PkgsT == { <<12, 13>> }
ExtT == [ExtNode EXCEPT !.margin = 20000, !.prefill = Fillers, !.pkgs = PkgsT, !.maxpkg = 1]
\* C29: a package that enters on its package feerate and is trimmed away at once
FreeP == {9, 11}
ExtP == [ExtNode EXCEPT !.margin = 20000, !.prefill = Fillers, !.pkgs = PkgsT, !.maxpkg = 1]
====
