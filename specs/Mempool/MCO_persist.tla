---- MODULE MCO_persist ----
EXTENDS MempoolObs, Uni_persist
====
