---- MODULE Uni_chain ----
(* Scenario family "chain" (C22, C28): base tip at height 101, base block times 512 s apart, three base coins of 100 000 sat:    *)
(* coinbases of heights 1, 2 (mature at the base tip) and 3 (mature once the tip is at 102). Parent / child / grandchild,        *)
(* a conflicting pair, a coinbase spend at the maturity edge, height- and time-locked transactions that become final with the   *)
(* first new block (one of them with a child), a BIP68-locked child, a spend that consensus accepts but the standard script     *)
(* flags reject, and a spend that fails a consensus script rule (CLTV).                                                          *)
EXTENDS Integers, Sequences, UniCommon
F == [kind |-> "final", v |-> 0]
NF == [kind |-> "disabled", v |-> 0]        \* non-final sequence without a BIP68 meaning (bit 31 set)
SH(v) == [kind |-> "height", v |-> v]
NoLock == [kind |-> "none", v |-> 0]
In(t, i, sq) == [op |-> <<t, i>>, seq |-> sq]
Out(v) == [v |-> v, cls |-> "true"]
Tx(ins, outs, ver, lock) == [ins |-> ins, outs |-> outs, ver |-> ver, lock |-> lock, pad |-> 0, twin |-> 0]
TxUDef == <<
  Tx(<<In(0,1,F)>>, <<Out(40000), Out(40000), [v |-> 9000, cls |-> "nopx"], [v |-> 9000, cls |-> "cltv"]>>, 1, NoLock),   \* 1: parent, fee 2000
  Tx(<<In(0,1,F)>>, <<Out(95000)>>, 1, NoLock),                                              \* 2: conflicts with 1, fee 5000
  Tx(<<In(1,1,F)>>, <<Out(38500)>>, 1, NoLock),                                              \* 3: child of 1, fee 1500
  Tx(<<In(1,2,F), In(3,1,F)>>, <<Out(77500)>>, 1, NoLock),                                   \* 4: spends 1 and 3, fee 1000
  Tx(<<In(0,3,F)>>, <<Out(99000)>>, 1, NoLock),                                              \* 5: coinbase of height 3: premature until the tip is 102
  Tx(<<In(0,2,NF)>>, <<Out(99000)>>, 1, [kind |-> "height", v |-> 102]),                     \* 6: nLockTime 102: final once the tip is 102
  Tx(<<In(1,2,SH(1))>>, <<Out(39000)>>, 2, NoLock),                                          \* 7: BIP68 one block after 1 confirms (conflicts with 4)
  Tx(<<In(1,3,F)>>, <<Out(8000)>>, 1, NoLock),                                               \* 8: spends the NOP4 output: valid in a block, not for the mempool
  Tx(<<In(0,2,NF)>>, <<Out(98800)>>, 1, [kind |-> "time", v |-> -2560]),                     \* 9: nLockTime = MTP(base tip): final once the tip is 102 (conflicts with 6)
  Tx(<<In(6,1,F)>>, <<Out(98000)>>, 1, NoLock),                                              \* 10: child of 6: goes with it when a disconnect makes 6 non-final again
  Tx(<<In(1,4,F)>>, <<Out(8000)>>, 1, NoLock)                                                \* 11: spends the CHECKLOCKTIMEVERIFY output with nLockTime 0: fails by consensus and by policy
>>
BaseDef == << [v |-> 100000, h |-> 1], [v |-> 100000, h |-> 2], [v |-> 100000, h |-> 3] >>
H0Def == 101
BaseDtDef == 512
AllTx == 1..11
NoTx == {}
NoTicks == {}
NoReorgs == {}
NoPrio == {}
ListsQ == { <<>>, <<1>>, <<2>>, <<1,3>>, <<1,8>>, <<6>> }
ListsT == { <<>>, <<1>>, <<2>>, <<1,3>>, <<1,8>>, <<6>>, <<9>>, <<5>>, <<3>>, <<7>>, <<1,3,4>> }
ReorgsQ == { <<<<>>, <<>>>>, <<<<2>>, <<>>>>, <<<<1>>, <<3>>>>, <<<<>>, <<1,3>>>>, <<<<1>>, <<6>>>> }
ReorgsT == { <<<<>>, <<>>>>, <<<<2>>, <<>>>>, <<<<1>>, <<3>>>>, <<<<>>, <<1,3>>>>, <<<<1>>, <<6>>>>, <<<<1,8>>, <<7>>>>, <<<<9>>, <<5>>>>, <<<<1,3>>, <<4>>>> }
ExpTx == {1, 2, 3, 4}
ExpTxQ == {1, 3, 4}
ListsExp == { <<1>> }
PrioDef == {<<1, 3100>>, <<3, -1500>>}
\* expiry is 1 209 600 s: entries older than that go; exactly that old stay
TicksDef == {1209600, 1}
====
