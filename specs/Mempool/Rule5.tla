---- MODULE Rule5 ----
(* C26, Rule 5 at the node's real bound (engine E4). MAX_REPLACEMENT_CANDIDATES = 100 is a compile-time constant, so the rule is   *)
(* exercised by a macro scenario (universe r5): N = 102 singleton pool transactions of equal fee and size (a counted class: the     *)
(* model only uses how many of them a transaction conflicts with), and replacement candidates: single transactions, and             *)
(* 1-parent-1-child packages whose parent conflicts with a and whose child with b victims. A case is the sequence of transaction    *)
(* ids submitted (one id: ProcessTransaction, two: ProcessNewPackage) against the pool of all victims. The verdict follows          *)
(* AcceptSingleTransaction / AcceptPackage in the code's order; the property's clause is stated on top: whatever is accepted -      *)
(* transaction or package - conflicts with at most 100 clusters.                                                                     *)
EXTENDS Mempool
CONSTANT Cases
VARIABLE casev
RInit == Init /\ casev \in Cases
RNext == UNCHANGED <<vars, casev>>
Victims == SeqToSet(EXT.prefill)
V1 == CHOOSE v \in Victims : TRUE
\* the counted class: every victim is a singleton cluster with the same fee and (up to the length of its signature) the same
\* weight, spending confirmed coins only; WMin is the smallest weight, i.e. the victim with the best feerate
WMin == CHOOSE w \in {Weight(v) : v \in Victims} : \A v \in Victims : w <= Weight(v)
VictimsAreAClass == \A v \in Victims : /\ Fee(v) = Fee(V1) /\ Weight(v) - WMin <= 8 /\ InTxs(v) \cap TxIds = {}
                                       /\ \A w \in Victims : v # w => InsSet(v) \cap InsSet(w) = {}
Conf(t) == Cardinality({v \in Victims : InsSet(v) \cap InsSet(t) # {}})           \* conflicting clusters of t
\* fee rules against n evicted victims for new fee f and new virtual size s (Rules 3 and 4), and the diagram: the new chunk beats a victim's
Pays(f, s, n) == f >= n * Fee(V1) + FeeAt(IncrRelay, s)
Better(f, w) == ProdGT(f, WMin, Fee(V1), w)
SingleWhy(t) == IF MFee(delta, t) < FeeAt(MinRelay, VSize(t)) THEN "min relay fee not met"
                ELSE IF Conf(t) = 0 THEN "ok"
                ELSE IF Conf(t) > MaxReplClusters THEN "too many potential replacements"
                ELSE IF ~Pays(Fee(t), VSize(t), Conf(t)) THEN "insufficient fee"
                ELSE IF ~Better(Fee(t), Weight(t)) THEN "replacement-failed" ELSE "ok"
\* [ok: something of the case entered the pool, why, evicted: number of victims replaced, clusters: what the accepted unit conflicted with]
CaseResult ==
  IF Len(casev) = 1
  THEN LET t == casev[1] w == SingleWhy(t) IN [ok |-> w = "ok", why |-> w, evicted |-> IF w = "ok" THEN Conf(t) ELSE 0, clusters |-> Conf(t)]
  ELSE LET p == casev[1] c == casev[2]
           pw == SingleWhy(p)
           tf == Fee(p) + Fee(c) ts == VSize(p) + VSize(c) n == Conf(p) + Conf(c)
       IN IF pw = "ok" THEN [ok |-> TRUE, why |-> "parent-on-its-own", evicted |-> Conf(p), clusters |-> Conf(p)]       \* (not used by the universe)
          ELSE IF pw \notin Retry THEN [ok |-> FALSE, why |-> "transaction failed", evicted |-> 0, clusters |-> Conf(p)]
          ELSE IF tf < FeeAt(MinRelay, ts) THEN [ok |-> FALSE, why |-> "transaction failed", evicted |-> 0, clusters |-> n]
          ELSE IF n > MaxReplClusters THEN [ok |-> FALSE, why |-> "package RBF failed: too many potential replacements", evicted |-> 0, clusters |-> n]
          ELSE IF ~Pays(tf, ts, n) THEN [ok |-> FALSE, why |-> "package RBF failed: insufficient anti-DoS fees", evicted |-> 0, clusters |-> n]
          ELSE IF ~ProdGT(tf, VSize(p), Fee(p), ts) THEN [ok |-> FALSE, why |-> "package RBF failed: package feerate is less than or equal to parent feerate", evicted |-> 0, clusters |-> n]
          ELSE [ok |-> TRUE, why |-> "ok", evicted |-> n, clusters |-> n]
\* the clause: an accepted replacement (transaction or package) conflicts with at most 100 clusters
AtMostHundredClusters == CaseResult.ok => CaseResult.clusters <= MaxReplClusters
\* the universe is a package universe as assumed: the child spends the parent and only the child and the parent conflict with victims
CaseShape == Len(casev) \in {1, 2} /\ (Len(casev) = 2 => (ChildWithParents(casev) /\ InTxs(casev[1]) \cap TxIds = {}))
EmitRow == VFRow([txs |-> casev, victims |-> EXT.prefill, a |-> Conf(casev[1]), b |-> IF Len(casev) = 2 THEN Conf(casev[2]) ELSE 0,
                  ok |-> CaseResult.ok, why |-> CaseResult.why, evicted |-> CaseResult.evicted, bound |-> MaxReplClusters])
====
