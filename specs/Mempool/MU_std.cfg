CONSTANTS
  MinRelay = 100
  IncrRelay = 100
  Expiry = 1209600
  MaxReplClusters = 100
  MaxClusterCount = 64
  Ext <- ExtNone
INIT Init
NEXT Next
CHECK_DEADLOCK FALSE
