---- MODULE Uni_shape ----
(* Universe of the package-shape table (C29, engine E4). The predicates are context free: most transactions spend outputs that   *)
(* never exist (<<99, k>>). Core: a parent with two outputs, its child, grandchild, a conflicting twin-input transaction, a child  *)
(* with a second input, an unrelated transaction, two children of the same output, a transaction with a same-txid twin, a child    *)
(* of two core transactions. Then 26 independent transactions (count limit 25) and three heavy ones (weight cap 404 000).          *)
EXTENDS Integers, Sequences, UniCommon
F == [kind |-> "final", v |-> 0]
NoLock == [kind |-> "none", v |-> 0]
In(t, i) == [op |-> <<t, i>>, seq |-> F]
Out(v) == [v |-> v, cls |-> "true"]
Tx(ins, outs) == [ins |-> ins, outs |-> outs, ver |-> 2, lock |-> NoLock, pad |-> 0, twin |-> 0]
TxP(ins, outs, pad) == [ins |-> ins, outs |-> outs, ver |-> 2, lock |-> NoLock, pad |-> pad, twin |-> 0]
Twin(k) == [ins |-> <<>>, outs |-> <<>>, ver |-> 2, lock |-> NoLock, pad |-> 0, twin |-> k]
Core == <<
  Tx(<<In(99,1)>>, <<Out(1000), Out(1000)>>),              \*  1: parent
  Tx(<<In(1,1)>>, <<Out(900)>>),                           \*  2: child
  Tx(<<In(2,1)>>, <<Out(800)>>),                           \*  3: grandchild
  Tx(<<In(99,1)>>, <<Out(1900)>>),                         \*  4: conflicts with 1
  Tx(<<In(1,2), In(99,2)>>, <<Out(1500)>>),                \*  5: child of 1 with a second input
  Tx(<<In(99,3)>>, <<Out(1000)>>),                         \*  6: unrelated
  Tx(<<In(1,1)>>, <<Out(800)>>),                           \*  7: conflicts with 2
  Tx(<<In(0,1)>>, <<Out(90000)>>),                         \*  8: spends the base coin (free witness element)
  Twin(8),                                                 \*  9: same txid as 8
  Tx(<<In(6,1), In(2,1)>>, <<Out(1500)>>)                  \* 10: child of 6 and 2 (conflicts with 3)
>>
Indep == [k \in 1..26 |-> Tx(<<In(99, 10 + k)>>, <<Out(500)>>)]                       \* 11..36
Heavy == << TxP(<<In(99,40)>>, <<Out(500)>>, 50394), TxP(<<In(99,41)>>, <<Out(500)>>, 50394), TxP(<<In(99,42)>>, <<Out(500)>>, 50395),
            TxP(<<In(99,43)>>, <<Out(500)>>, 101000) >>                                \* 37, 38: 202 000 each; 39: 202 004; 40: more than 404 000 alone
TxUDef == Core \o Indep \o Heavy
BaseDef == << [v |-> 100000, h |-> 1, cls |-> "wdrop"] >>
H0Def == 105
BaseDtDef == 1
CoreIds == 1..10
Run(a, b) == [i \in 1..(b - a + 1) |-> a + i - 1]
Specials == { Run(11, 35), Run(11, 36), Run(11, 34) \o <<11>>, Run(12, 36) \o <<11>>, <<37, 38>>, <<37, 39>>, <<38, 39>>, <<40>>, <<40, 6>>, <<37, 38, 6>>,
              <<1, 2>> \o Run(11, 33), <<2, 1>> \o Run(11, 34), Run(11, 33) \o <<1, 5>> }
SeqsUpTo(n) == UNION {[1..k -> CoreIds] : k \in 1..n}
DomainQ == SeqsUpTo(3) \cup Specials
DomainT == SeqsUpTo(4) \cup Specials
AllTx == 1..40
NoTx == {}
NoLists == {}
NoTicks == {}
NoReorgs == {}
NoPrio == {}
====
