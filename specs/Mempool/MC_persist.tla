---- MODULE MC_persist ----
EXTENDS Mempool, Uni_persist
====
