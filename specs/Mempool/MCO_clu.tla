---- MODULE MCO_clu ----
EXTENDS MempoolObs, Uni_clu
====
