---- MODULE Uni_clu ----
(* Scenario family "cluster" (C27): -limitclustercount=3, -limitclustersize=1 (1000 vB = 4000 weight units); three mature base  *)
(* coins (base tip 110), bare OP_TRUE outputs. A chain of four (the fourth exceeds the count), a second child joining a full      *)
(* cluster, three padded transactions of exactly 4000 weight units and a fourth candidate that makes 4004, a transaction that     *)
(* merges two clusters, and a zero-fee parent whose package would join a cluster beyond the count limit.                          *)
EXTENDS Integers, Sequences, UniCommon
F == [kind |-> "final", v |-> 0]
NoLock == [kind |-> "none", v |-> 0]
In(t, i) == [op |-> <<t, i>>, seq |-> F]
Out(v) == [v |-> v, cls |-> "true"]
Tx(ins, outs) == [ins |-> ins, outs |-> outs, ver |-> 2, lock |-> NoLock, pad |-> 0, twin |-> 0]
TxP(ins, outs, pad) == [ins |-> ins, outs |-> outs, ver |-> 2, lock |-> NoLock, pad |-> pad, twin |-> 0]
TxUDef == <<
  Tx(<<In(0,1)>>, <<Out(49500), Out(49500)>>),             \*  1: parent, fee 1000
  Tx(<<In(1,1)>>, <<Out(48500)>>),                         \*  2: child
  Tx(<<In(2,1)>>, <<Out(47500)>>),                         \*  3: grandchild: the cluster is full (3)
  Tx(<<In(3,1)>>, <<Out(46500)>>),                         \*  4: fourth of the chain
  Tx(<<In(1,2)>>, <<Out(48500)>>),                         \*  5: second child of 1
  TxP(<<In(0,2)>>, <<Out(49000), Out(49000)>>, 215),       \*  6: 400 bytes
  TxP(<<In(6,1)>>, <<Out(48000)>>, 294),                   \*  7: 400 bytes
  TxP(<<In(6,2)>>, <<Out(48000)>>, 97),                    \*  8: 200 bytes: the cluster weighs exactly 4000
  TxP(<<In(6,2)>>, <<Out(47000)>>, 98),                    \*  9: 201 bytes instead: 4004
  Tx(<<In(2,1), In(7,1)>>, <<Out(94000)>>),                \* 10: merges the two clusters
  Tx(<<In(0,3)>>, <<Out(100000)>>),                        \* 11: zero-fee parent
  Tx(<<In(11,1), In(2,1)>>, <<Out(146000)>>),              \* 12: its child, also a child of 2: the package joins the cluster of 1
  Tx(<<In(11,1)>>, <<Out(98000)>>),                        \* 13: its child alone
  Tx(<<In(3,1), In(0,3)>>, <<Out(140000)>>)                \* 14: fourth of the chain that also conflicts with 11
>>
BaseDef == << [v |-> 100000, h |-> 1], [v |-> 100000, h |-> 2], [v |-> 100000, h |-> 3] >>
H0Def == 110
BaseDtDef == 1
AllTx == 1..14
SubQ == {1, 2, 3, 4, 5, 6, 7, 8, 9, 10}
NoTx == {}
NoLists == {}
NoTicks == {}
NoReorgs == {}
NoPrio == {}
ListsT == { <<1>> }
PkgsQ == { <<11, 12>>, <<11, 13>> }
ExtQ == [ExtNone EXCEPT !.maxclsize = 1000, !.pkgs = PkgsQ, !.maxpkg = 1]
ExtT == [ExtNone EXCEPT !.maxclsize = 1000, !.pkgs = PkgsQ, !.maxpkg = 2]
ExtNode == [ExtNone EXCEPT !.maxclsize = 1000]
====
