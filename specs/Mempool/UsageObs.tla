---- MODULE UsageObs ----
(* C27, first clause, on the node's own numbers: each line of env OBS is {usage, limit}: bytes counted by                    *)
(* CTxMemPool::DynamicMemoryUsage after a replayed step (the maximum over the steps of one test) and                        *)
(* CTxMemPool::m_opts.max_size_bytes (both far below 2^31 in the scenarios: -maxmempool is 1 or the default 300).            *)
EXTENDS Integers, Sequences, TLC, Json, IOUtils
ObsLines == ndJsonDeserialize(IOEnv.OBS)
VARIABLES idx, lastAct
InitObs == idx \in 1..Len(ObsLines) /\ lastAct = <<"observed", idx>>
Stutter == UNCHANGED <<idx, lastAct>>
UsageWithinLimit == ObsLines[idx].usage <= ObsLines[idx].limit
====
