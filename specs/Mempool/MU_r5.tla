---- MODULE MU_r5 ----
(* prints the universe for the harness (measure step) *)
EXTENDS Uni_r5, VF
CONSTANTS MinRelay, IncrRelay, Expiry, MaxReplClusters, MaxClusterCount, Ext
VARIABLE x
Init == x = 0
Next == UNCHANGED x
ASSUME VFRow([universe |-> TxUDef, h0 |-> H0Def, basedt |-> BaseDtDef, base |-> BaseDef,
              opts |-> [minrelay |-> MinRelay, incr |-> IncrRelay, expiry |-> Expiry, maxrepl |-> MaxReplClusters, maxcluster |-> MaxClusterCount,
                       std |-> Ext.std, maxclsize |-> Ext.maxclsize, maxmempool |-> Ext.maxmempool]])
====
