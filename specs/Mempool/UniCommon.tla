---- MODULE UniCommon ----
(* Shared by the universe modules Uni_xxx: the record       of scenario extensions read by Mempool through the constant Ext.    *)
(* Node options: std (standardness rules on: -acceptnonstdtxn=0), maxclsize (-limitclustersize in virtual bytes, 0 = the *)
(* default 101 000), maxmempool (-maxmempool in bytes, 0 = never reached), margin (bytes: a trim decision closer than     *)
(* this to the limit means the universe is ill-shaped, memory is measured per transaction and not exactly additive).      *)
(* Actions: pkgs / maxpkg (SubmitPackage), unbs / maxunb (AddUnbroadcastTx), maxdump, cuts / exist / maxload (DumpMempool,*)
(* LoadMempool by a second node), prefill (a fixed sequence of submissions as first step).                                *)
EXTENDS Integers, Sequences
ExtNone == [std |-> FALSE, maxclsize |-> 0, maxmempool |-> 0, margin |-> 0, pkgs |-> {}, maxpkg |-> 0, unbs |-> {}, maxunb |-> 0,
            maxdump |-> 0, cuts |-> {}, exist |-> {}, maxload |-> 0, prefill |-> <<>>]
ExtStd == [ExtNone EXCEPT !.std = TRUE]
Cut(kind, k, sub) == [kind |-> kind, k |-> k, sub |-> sub]
NoCut == Cut("none", 0, "at")
====
