---- MODULE MC_shape ----
EXTENDS PkgShape, Uni_shape
====
