CONSTANTS
  TxU <- TxUDef
  BaseCoins <- BaseDef
  H0 = 110
  BaseDt = 1
  Lists <- ListsT
  ReorgPairs <- NoReorgs
  Dts = {1}
  SubmitSet <- SubT
  TestSet <- NoTx
  PrioSet <- NoPrio
  Ticks <- TicksDef
  MaxBlocks = 1
  MaxDisc = 0
  MaxReorg = 0
  MaxPrio = 0
  MaxTicks = 1
  MaxExpire = 0
  MinRelay = 100
  IncrRelay = 100
  Expiry = 1209600
  MaxReplClusters = 100
  MaxClusterCount = 64
  Ext <- ExtT
INIT Init
NEXT Next
VIEW View0
INVARIANTS Consistent NextBlockValid UtxoIsReplay Bookkeeping ClusterLimits
PROPERTIES PackagesSound PackageReplacementsSound
ACTION_CONSTRAINT Emit
CHECK_DEADLOCK FALSE
