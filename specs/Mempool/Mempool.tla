---- MODULE Mempool ----
(***************************************************************************)
(* The transaction memory pool of a node over a confirmed chain state, on  *)
(* a fixed universe of transactions (same format as UtxoChain's universes).*)
(* One action per public entry point of the implementation:                *)
(*   Submit(t)       ChainstateManager::ProcessTransaction(tx, false)      *)
(*                   = AcceptToMemoryPool: PreChecks, ReplacementChecks,   *)
(*                   cluster limit, spends-conflicting, script checks,     *)
(*                   Finalize, LimitMempoolSize (expiry)                   *)
(*   TestAccept(t)   ProcessTransaction(tx, true)                          *)
(*   Prioritise(t,d) CTxMemPool::PrioritiseTransaction                     *)
(*   Mine(L, dt)     a valid block with transactions L connected on the    *)
(*                   tip: removeForBlock (confirmed + conflicts, recursive)*)
(*   Disconnect      InvalidateBlock(tip): DisconnectTip +                 *)
(*                   MaybeUpdateMempoolForReorg (re-add in block order,    *)
(*                   removeForReorg filter, expiry)                        *)
(*   Reorg(LA, LB)   two valid blocks on the tip's parent: the tip block   *)
(*                   is disconnected, A and B connected, then the          *)
(*                   disconnected transactions return (ActivateBestChain)  *)
(*   Tick(d)         mock time advances                                    *)
(*   ExpireCall      CTxMemPool::Expire(now - expiry)                      *)
(* Properties: C22 (consistency, next-block validity), C26 (replacement    *)
(* rules), C28 (test-accept).  Fees, virtual sizes and weights of the      *)
(* universe's transactions are the REAL ones: the harness builds and signs *)
(* the universe, measures it, and the numbers arrive through IOEnv.        *)
(*                                                                         *)
(* Outpoints: <<t, i>> with t >= 1: output i of TxU[t]; t = 0: base coin i *)
(* (coinbase of a base block); <<99, 1>>: an outpoint that never exists.   *)
(* Later extensions (C27/C29/C55: TRUC, ephemeral dust, packages, trimming,*)
(* persistence) hook into Verdict (per-rule sections) and add actions.     *)
(***************************************************************************)
EXTENDS Integers, Sequences, FiniteSets, TLC, VF, IOUtils
CONSTANTS TxU,        \* Seq of [ins : Seq([op, seq]), outs : Seq([v, cls]), ver, lock]
          BaseCoins,  \* Seq of [v, h]: base coin i = coinbase output (v satoshi) of the base block at height h
          H0, BaseDt, \* height of the base tip; spacing of base block times
          Lists,      \* allowed block contents: set of sequences of tx ids
          ReorgPairs, \* allowed contents <<LA, LB>> of the two blocks of a reorganisation
          Dts,        \* allowed block time increments
          SubmitSet, TestSet,   \* transactions that may be submitted / test-accepted
          PrioSet,    \* set of <<t, d>>: allowed PrioritiseTransaction(t, d) calls
          Ticks,      \* allowed mock-time increments (seconds)
          MaxBlocks, MaxDisc, MaxReorg, MaxPrio, MaxTicks, MaxExpire,
          MinRelay, IncrRelay,  \* -minrelaytxfee / -incrementalrelayfee in sat/kvB
          Expiry,               \* mempool expiry in seconds
          MaxReplClusters,      \* MAX_REPLACEMENT_CANDIDATES (Rule 5, counted in clusters)
          MaxClusterCount       \* cluster count limit
\* measured by the harness from the real, signed universe: Meas[t] = [fee, vsize, weight]
Meas == ndJsonDeserialize(IOEnv.MP_MEASURE)
Maturity == 100
\* TLC re-evaluates a constant that the configuration substitutes by a definition (TxU <- TxUDef) at EVERY reference; a
\* constant-level definition is evaluated once. All substituted constants are therefore used through these aliases.
TXU == TxU
BASEC == BaseCoins
LISTS_ == Lists
REORGS_ == ReorgPairs
SUBMITSET_ == SubmitSet
TESTSET_ == TestSet
PRIOSET_ == PrioSet
TICKS_ == Ticks
DTS_ == Dts

VARIABLES pool,    \* set of tx ids in the mempool
          delta,   \* [TxIds -> Int]: mapDeltas (kept for transactions outside the pool too)
          etime,   \* [TxIds -> Int]: entry time of pool members (0 for others)
          chain,   \* Seq of [txs, dt]: blocks connected on top of the base tip
          utxo,    \* confirmed UTXO set: outpoint -> [v, h, cb]
          now,     \* mock time, seconds since the start
          ctr,     \* bounds: [blk, disc, reorg, prio, tick, exp]
          lastAct, lastRes
state == <<pool, delta, etime, chain, utxo, now>>
View0 == <<pool, delta, etime, chain, now, ctr>>
vars == <<state, ctr, lastAct, lastRes>>

\* ------------------------------------------------------------------ transactions
TxIds == 1..Len(TXU)
NIn(t) == Len(TXU[t].ins)
InOp(t, j) == TXU[t].ins[j].op
Spendable(cls) == cls # "opret"
\* per-transaction tables, evaluated once (TLCEval forces the function; an unevaluated one recomputes at every application)
INS_ == TLCEval([t \in TxIds |-> {InOp(t, j) : j \in 1..NIn(t)}])
INTX_ == TLCEval([t \in TxIds |-> {InOp(t, j)[1] : j \in 1..NIn(t)}])
OUTS_ == TLCEval([t \in TxIds |-> {<<t, i>> : i \in {i \in 1..Len(TXU[t].outs) : Spendable(TXU[t].outs[i].cls)}}])
DUP_ == TLCEval([t \in TxIds |-> Cardinality({InOp(t, j) : j \in 1..NIn(t)}) # NIn(t)])
InsSet(t) == INS_[t]
InTxs(t) == INTX_[t]
DupInputs(t) == DUP_[t]
OutsOf(t) == OUTS_[t]
RECURSIVE SumS(_)
SumS(s) == IF s = <<>> THEN 0 ELSE Head(s) + SumS(Tail(s))
RECURSIVE SumF(_, _)
SumF(f, S) == IF S = {} THEN 0 ELSE LET x == CHOOSE y \in S : TRUE IN f[x] + SumF(f, S \ {x})
OutVal(t) == SumS([i \in 1..Len(TXU[t].outs) |-> TXU[t].outs[i].v])
Fee(t) == Meas[t].fee
VSize(t) == Meas[t].vsize
Weight(t) == Meas[t].weight
MFee(D, t) == Fee(t) + D[t]
\* script class of the output an input spends: base coins are pay-to-pubkey (signed by the harness)
ClsOf(o) == IF o[1] >= 1 /\ o[1] # 99 THEN TXU[o[1]].outs[o[2]].cls ELSE "key"
Max(a, b) == IF a > b THEN a ELSE b
\* CFeeRate::GetFee: rate in sat/kvB, rounded up
FeeAt(rate, vsize) == (rate * vsize + 999) \div 1000

\* ------------------------------------------------------------------ chain, heights, times
Height(C) == H0 + Len(C)
RECURSIVE TimeIdx(_, _)
TimeIdx(C, k) == IF k = 0 THEN 0 ELSE TimeIdx(C, k - 1) + C[k].dt
TimeAt(C, h) == IF h <= H0 THEN (h - H0) * BaseDt ELSE TimeIdx(C, h - H0)
\* CBlockIndex::GetMedianTimePast of the block at height j of chain C
MTPat(C, j) ==
  LET hs == Max(0, j - 10)..j
      ts == [h \in hs |-> TimeAt(C, h)]
      cnt == Cardinality(hs)
      rank(h) == Cardinality({g \in hs : ts[g] < ts[h] \/ (ts[g] = ts[h] /\ g < h)})
  IN ts[CHOOSE h \in hs : rank(h) = cnt \div 2]
Front(s) == SubSeq(s, 1, Len(s) - 1)

\* ------------------------------------------------------------------ coins
Coin(v, h, cb) == [v |-> v, h |-> h, cb |-> cb]
BaseUtxo == [o \in {<<0, i>> : i \in 1..Len(BASEC)} |-> Coin(BASEC[o[2]].v, BASEC[o[2]].h, TRUE)]
Restrict(f, S) == [x \in S |-> f[x]]
Without(f, S) == Restrict(f, DOMAIN f \ S)

\* ------------------------------------------------------------------ finality for inclusion in the block after chain C
AllSeqFinal(t) == \A j \in 1..NIn(t) : TXU[t].ins[j].seq.kind = "final"
\* IsFinalTx(tx, Height(C) + 1, MTP(tip)) (BIP113)
FinalNext(C, t) ==
  LET L == TXU[t].lock IN
  \/ L.kind = "none"
  \/ L.kind = "height" /\ L.v < Height(C) + 1
  \/ L.kind = "time" /\ L.v < MTPat(C, Height(C))
  \/ AllSeqFinal(t)
\* BIP68 (CalculateSequenceLocks + EvaluateSequenceLocks) at height Height(C) + 1; hts[j] = height of the coin input j spends
SeqOKNext(C, t, hts) ==
  TXU[t].ver < 2 \/
  \A j \in 1..NIn(t) :
    LET sq == TXU[t].ins[j].seq ch == hts[j] IN
    CASE sq.kind = "height" -> ch + sq.v - 1 < Height(C) + 1
      [] sq.kind = "time" -> MTPat(C, Max(ch - 1, 0)) + 512 * sq.v - 1 < MTPat(C, Height(C))
      [] OTHER -> TRUE

\* script classes of outputs, as the harness spends them: "key" (base coins, signed), "true" (anyone can spend), "fail" (always
\* false), "cltv" (CHECKLOCKTIMEVERIFY beyond the spender's nLockTime) fail under the consensus flags; "nopx" (NOP4) is valid under
\* the consensus flags and rejected by the standard flags. What the standard flags accept, the consensus flags accept (C28).
ConsensusInvalid == {"fail", "cltv"}
PolicyInvalid == ConsensusInvalid \cup {"nopx"}
\* ------------------------------------------------------------------ connecting a block on top of chain C with view V
RECURSIVE ConnTxs(_, _, _)
ConnTxs(C, txs, V) ==
  IF txs = <<>> THEN [ok |-> TRUE, why |-> "ok", view |-> V]
  ELSE LET t == Head(txs)
           h == Height(C) + 1
           fail(w) == [ok |-> FALSE, why |-> w, view |-> V]
       IN IF ~(InsSet(t) \subseteq DOMAIN V) THEN fail("bad-txns-inputs-missingorspent")
          ELSE IF \E j \in 1..NIn(t) : V[InOp(t, j)].cb /\ h - V[InOp(t, j)].h < Maturity
               THEN fail("bad-txns-premature-spend-of-coinbase")
          ELSE IF SumS([j \in 1..NIn(t) |-> V[InOp(t, j)].v]) < OutVal(t) THEN fail("bad-txns-in-belowout")
          ELSE IF ~SeqOKNext(C, t, [j \in 1..NIn(t) |-> V[InOp(t, j)].h]) THEN fail("bad-txns-nonfinal")
          ELSE IF \E j \in 1..NIn(t) : ClsOf(InOp(t, j)) \in ConsensusInvalid THEN fail("script-failed")
          ELSE LET newc == [o \in OutsOf(t) |-> Coin(TXU[t].outs[o[2]].v, h, FALSE)]
               IN ConnTxs(C, Tail(txs), Without(V, InsSet(t)) @@ newc)
\* CheckBlock (duplicate inputs), ContextualCheckBlock (finality), BIP30, ConnectBlock. Coinbases claim nothing.
BlockOK(C, V, txs) ==
  /\ \A i \in 1..Len(txs) : ~DupInputs(txs[i])
  /\ \A i, k \in 1..Len(txs) : i # k => txs[i] # txs[k]
  /\ \A i \in 1..Len(txs) : FinalNext(C, txs[i])
  /\ \A i \in 1..Len(txs) : OutsOf(txs[i]) \cap DOMAIN V = {}
  /\ ConnTxs(C, txs, V).ok
Connect(C, V, txs) == ConnTxs(C, txs, V).view
RECURSIVE Replay(_)
Replay(C) == IF C = <<>> THEN BaseUtxo ELSE Connect(Front(C), Replay(Front(C)), C[Len(C)].txs)

\* ------------------------------------------------------------------ the mempool graph (derived from inputs)
ParentsIn(P, t) == P \cap InTxs(t)
ChildrenIn(P, t) == {c \in P : t \in InTxs(c)}
RECURSIVE DescOf(_, _)
DescOf(P, S) == LET nxt == S \cup {c \in P : InTxs(c) \cap S # {}} IN IF nxt = S THEN S ELSE DescOf(P, nxt)
RECURSIVE AncOf(_, _)
AncOf(P, S) == LET nxt == S \cup UNION {ParentsIn(P, c) : c \in S} IN IF nxt = S THEN S ELSE AncOf(P, nxt)
RECURSIVE Cluster(_, _)
Cluster(P, S) == LET nxt == S \cup {c \in P : \E s \in S : c \in InTxs(s) \/ s \in InTxs(c)} IN IF nxt = S THEN S ELSE Cluster(P, nxt)
ClustersOf(P, S) == {Cluster(P, {t}) : t \in S}
RECURSIVE TopoSeq(_)
TopoSeq(P) == IF P = {} THEN <<>> ELSE LET r == CHOOSE x \in P : ParentsIn(P, x) = {} IN <<r>> \o TopoSeq(P \ {r})
\* coins visible to mempool acceptance: confirmed coins and every output of a pool transaction (CCoinsViewMemPool)
Avail(P, U) == DOMAIN U \cup UNION {OutsOf(p) : p \in P}
CoinH(P, U, C, o) == IF o \in DOMAIN U THEN U[o].h ELSE Height(C) + 1       \* MEMPOOL_HEIGHT counts as the next block
CoinV(P, U, o) == IF o \in DOMAIN U THEN U[o].v ELSE TXU[o[1]].outs[o[2]].v

\* ------------------------------------------------------------------ feerate diagrams (exact integer arithmetic)
\* TLC integers are 32 bit and an overflow is an *error* (never a silent wrap). Products of two factors below 46 000 in
\* magnitude are formed directly; anything larger goes through base-1000 limbs.
D3(x) == <<x % 1000, (x \div 1000) % 1000, x \div 1000000>>
MulD(a, b) == LET x == D3(a) y == D3(b)
                  p0 == x[1]*y[1]
                  p1 == x[1]*y[2] + x[2]*y[1]
                  p2 == x[1]*y[3] + x[2]*y[2] + x[3]*y[1]
                  p3 == x[2]*y[3] + x[3]*y[2]
                  p4 == x[3]*y[3]
                  c0 == p0 \div 1000  d0 == p0 % 1000
                  q1 == p1 + c0  c1 == q1 \div 1000  d1 == q1 % 1000
                  q2 == p2 + c1  c2 == q2 \div 1000  d2 == q2 % 1000
                  q3 == p3 + c2  c3 == q3 \div 1000  d3 == q3 % 1000
                  q4 == p4 + c3
              IN <<q4, d3, d2, d1, d0>>     \* most significant first; only q4 carries the sign
RECURSIVE LexGE(_, _)
LexGE(u, v) == IF u = <<>> THEN TRUE ELSE IF Head(u) > Head(v) THEN TRUE ELSE IF Head(u) < Head(v) THEN FALSE ELSE LexGE(Tail(u), Tail(v))
Small(x) == x < 46000 /\ x > -46000
\* a*b >= c*d  and  a*b > c*d
ProdGE(a, b, c, d) == IF Small(a) /\ Small(b) /\ Small(c) /\ Small(d) THEN a * b >= c * d ELSE LexGE(MulD(a, b), MulD(c, d))
ProdGT(a, b, c, d) == IF Small(a) /\ Small(b) /\ Small(c) /\ Small(d) THEN a * b > c * d
                      ELSE LET m1 == MulD(a, b) m2 == MulD(c, d) IN m1 # m2 /\ LexGE(m1, m2)
\* chunk a has a strictly higher feerate than chunk b (sizes positive)
Higher(a, b) == ProdGT(a.f, b.s, b.f, a.s)
RECURSIVE MergeBack(_)
MergeBack(ch) == IF Len(ch) < 2 THEN ch
                 ELSE LET a == ch[Len(ch) - 1] b == ch[Len(ch)] IN
                      IF Higher(b, a) THEN MergeBack(Append(SubSeq(ch, 1, Len(ch) - 2), [f |-> a.f + b.f, s |-> a.s + b.s])) ELSE ch
\* chunks of linearization L: a later chunk with a higher feerate merges into its predecessor
RECURSIVE Chunks(_, _)
Chunks(D, L) == IF L = <<>> THEN <<>>
                ELSE MergeBack(Append(Chunks(D, Front(L)), [f |-> MFee(D, L[Len(L)]), s |-> Weight(L[Len(L)])]))
\* diagram = cumulative (size, fee) points starting at (0, 0)
RECURSIVE Cum(_)
Cum(ch) == IF ch = <<>> THEN <<[f |-> 0, s |-> 0]>>
           ELSE LET c == Cum(Front(ch)) l == c[Len(c)] x == ch[Len(ch)] IN Append(c, [f |-> l.f + x.f, s |-> l.s + x.s])
Uncum(c) == [i \in 1..Len(c) - 1 |-> [f |-> c[i + 1].f - c[i].f, s |-> c[i + 1].s - c[i].s]]
SizesOf(d) == {d[i].s : i \in 1..Len(d)}
\* the segment of diagram d over size z: its left end a and right end b (b = a beyond the end: the diagram continues flat)
SegOf(d, z) == IF z >= d[Len(d)].s THEN [a |-> d[Len(d)], b |-> [f |-> d[Len(d)].f, s |-> d[Len(d)].s + 1]]
               ELSE LET i == CHOOSE k \in 1..Len(d) - 1 : d[k].s <= z /\ z < d[k + 1].s IN [a |-> d[i], b |-> d[i + 1]]
\* value of d1 at z  >=  (>)  value of d2 at z, for z a breakpoint of d1 or of d2 (where that diagram's value is exact)
GEat(d1, d2, z) == LET s1 == SegOf(d1, z) s2 == SegOf(d2, z) IN
                   IF z = s1.a.s THEN ProdGE(s1.a.f - s2.a.f, s2.b.s - s2.a.s, s2.b.f - s2.a.f, z - s2.a.s)
                   ELSE ProdGE(s1.b.f - s1.a.f, z - s1.a.s, s2.a.f - s1.a.f, s1.b.s - s1.a.s)
GTat(d1, d2, z) == LET s1 == SegOf(d1, z) s2 == SegOf(d2, z) IN
                   IF z = s1.a.s THEN ProdGT(s1.a.f - s2.a.f, s2.b.s - s2.a.s, s2.b.f - s2.a.f, z - s2.a.s)
                   ELSE ProdGT(s1.b.f - s1.a.f, z - s1.a.s, s2.a.f - s1.a.f, s1.b.s - s1.a.s)
DiagGE(d1, d2) == \A z \in SizesOf(d1) \cup SizesOf(d2) : GEat(d1, d2, z)
\* CompareChunks(new, old) is "greater": nowhere below, somewhere above
StrictlyBetter(dn, dol) == LET Z == SizesOf(dn) \cup SizesOf(dol) IN (\A z \in Z : GEat(dn, dol, z)) /\ (\E z \in Z : GTat(dn, dol, z))
\* chunks of the optimal linearization of cluster Cl of pool graph P: brute force over the topological orders (clusters stay
\* small); the CHOOSE fails if no order dominates all others, i.e. the optimum the code is required to find is well defined
RECURSIVE Perms(_)
Perms(S) == IF S = {} THEN {<<>>} ELSE UNION {{<<x>> \o p : p \in Perms(S \ {x})} : x \in S}
Topo(P, L) == \A i \in 1..Len(L) : \A k \in 1..Len(L) : L[k] \in InTxs(L[i]) => k < i
BestChunks(P, D, Cl) ==
  IF Cardinality(Cl) = 1 THEN LET t == CHOOSE x \in Cl : TRUE IN <<[f |-> MFee(D, t), s |-> Weight(t)]>>
  ELSE LET cand == {Cum(Chunks(D, L)) : L \in {L \in Perms(Cl) : Topo(P, L)}}
           best == CHOOSE c \in cand : \A m \in cand : DiagGE(c, m)
       IN Uncum(best)
RECURSIVE SortChunks(_)
SortChunks(S) == IF S = {} THEN <<>>
                 ELSE LET m == CHOOSE x \in S : \A y \in S : ~Higher(y[2], x[2]) IN <<m[2]>> \o SortChunks(S \ {m})
\* diagram of a set of clusters of graph P: all their chunks by decreasing feerate
DiagramOf(P, D, Cs) ==
  LET tagged == UNION {LET bc == BestChunks(P, D, Cl) IN {<<<<Cl, i>>, bc[i]>> : i \in 1..Len(bc)} : Cl \in Cs}
  IN Cum(SortChunks(tagged))

\* ------------------------------------------------------------------ replacement (policy/rbf.cpp, MemPoolAccept::ReplacementChecks)
Direct(P, t) == {c \in P : InsSet(c) \cap InsSet(t) # {}}
Evicted(P, t) == DescOf(P, Direct(P, t))
\* main-side clusters: those losing a transaction or absorbing the new one (through its surviving parents); staging side:
\* what becomes of them. ev = Evicted(P, t)
ImprovesDiagramE(P, D, t, ev) ==
  LET oldCs == ClustersOf(P, ev \cup (ParentsIn(P, t) \ ev))
      newP == (P \ ev) \cup {t}
      newCs == ClustersOf(newP, (UNION oldCs \ ev) \cup {t})
  IN StrictlyBetter(DiagramOf(newP, D, newCs), DiagramOf(P, D, oldCs))
ImprovesDiagram(P, D, t) == ImprovesDiagramE(P, D, t, Evicted(P, t))
NoDbg == [m3 |-> 0, m4 |-> 0, nc |-> 0]

\* ------------------------------------------------------------------ acceptance verdict (validation.cpp, MemPoolAccept) in the code's order
Res(ok, why, ev, dbg) == [ok |-> ok, why |-> why, evict |-> ev, pure |-> TRUE, dbg |-> dbg]
Rej(why) == Res(FALSE, why, {}, NoDbg)
NoneRes == Res(TRUE, "none", {}, NoDbg)
ScriptsOK(t) == \A j \in 1..NIn(t) : ClsOf(InOp(t, j)) \notin PolicyInvalid
Verdict(P, U, C, D, t, bypass) ==
  \* ---- PreChecks
  IF DupInputs(t) THEN Rej("bad-txns-inputs-duplicate")
  ELSE IF ~FinalNext(C, t) THEN Rej("non-final")
  ELSE IF t \in P THEN Rej("txn-already-in-mempool")
  ELSE IF ~(InsSet(t) \subseteq Avail(P, U))
       THEN IF OutsOf(t) \cap DOMAIN U # {} THEN Rej("txn-already-known") ELSE Rej("bad-txns-inputs-missingorspent")
  ELSE IF ~SeqOKNext(C, t, [j \in 1..NIn(t) |-> CoinH(P, U, C, InOp(t, j))]) THEN Rej("non-BIP68-final")
  ELSE IF \E j \in 1..NIn(t) : InOp(t, j) \in DOMAIN U /\ U[InOp(t, j)].cb /\ Height(C) + 1 - U[InOp(t, j)].h < Maturity
       THEN Rej("bad-txns-premature-spend-of-coinbase")
  ELSE IF SumS([j \in 1..NIn(t) |-> CoinV(P, U, InOp(t, j))]) < OutVal(t) THEN Rej("bad-txns-in-belowout")
  ELSE IF ~bypass /\ MFee(D, t) < FeeAt(MinRelay, VSize(t)) THEN Rej("min relay fee not met")
  ELSE IF Direct(P, t) = {}
       THEN IF Cardinality(Cluster(P \cup {t}, {t})) > MaxClusterCount THEN Rej("too-large-cluster")
            ELSE IF ~ScriptsOK(t) THEN Rej("script-failed")
            ELSE Res(TRUE, "ok", {}, NoDbg)
  ELSE \* ---- ReplacementChecks
       LET direct == Direct(P, t)
           ev == DescOf(P, direct)
           evfees == SumF([x \in TxIds |-> MFee(D, x)], ev)
           nc == Cardinality(ClustersOf(P, direct))
           dbg == [m3 |-> MFee(D, t) - evfees, m4 |-> MFee(D, t) - evfees - FeeAt(IncrRelay, VSize(t)), nc |-> nc]
           rej(w) == Res(FALSE, w, {}, dbg)
       IN IF nc > MaxReplClusters THEN rej("too many potential replacements")
          ELSE IF MFee(D, t) < evfees THEN rej("insufficient fee")                                    \* Rule 3
          ELSE IF MFee(D, t) - evfees < FeeAt(IncrRelay, VSize(t)) THEN rej("insufficient fee")      \* Rule 4
          ELSE IF Cardinality(Cluster((P \ ev) \cup {t}, {t})) > MaxClusterCount THEN rej("too-large-cluster")
          ELSE IF ~ImprovesDiagramE(P, D, t, ev) THEN rej("replacement-failed")
          \* the ancestors are taken in the pool as it is (before the replacement)
          ELSE IF AncOf(P, ParentsIn(P, t)) \cap direct # {} THEN rej("bad-txns-spends-conflicting-tx")
          ELSE IF ~ScriptsOK(t) THEN rej("script-failed")
          ELSE Res(TRUE, "ok", ev, dbg)

\* ------------------------------------------------------------------ pool maintenance
NormT(P, ET) == [t \in TxIds |-> IF t \in P THEN ET[t] ELSE 0]
\* CTxMemPool::Expire(T - Expiry): entries older than the cutoff go, with their descendants
ExpireSet(P, ET, T) == DescOf(P, {e \in P : ET[e] < T - Expiry})
\* removeForBlock for one confirmed transaction: the entry itself (its descendants stay), then, input by input, whatever
\* still spends that input, recursively; prioritisation of the transaction and of the direct conflicts found is cleared
RECURSIVE RmConf(_, _, _, _)
RmConf(P, D, t, j) ==
  IF j > NIn(t) THEN [p |-> P, d |-> D]
  ELSE LET cs == {c \in P : InOp(t, j) \in InsSet(c)}
       IN RmConf(P \ DescOf(P, cs), [x \in TxIds |-> IF x \in cs THEN 0 ELSE D[x]], t, j + 1)
RECURSIVE RmBlock(_, _, _)
RmBlock(P, D, txs) ==
  IF txs = <<>> THEN [p |-> P, d |-> D]
  ELSE LET t == Head(txs) r == RmConf(P \ {t}, D, t, 1)
       IN RmBlock(r.p, [r.d EXCEPT ![t] = 0], Tail(txs))
\* MaybeUpdateMempoolForReorg on chain C / view U: the queue re-enters in order through AcceptToMemoryPool(bypass_limits);
\* what fails takes its in-pool descendants with it; then removeForReorg (final, BIP68-final, mature; with descendants);
\* then LimitMempoolSize (expiry)
RECURSIVE ReAdd(_, _, _, _, _, _, _)
ReAdd(P, ET, U, C, D, q, T) ==
  IF q = <<>> THEN [p |-> P, et |-> ET]
  ELSE LET t == Head(q) v == Verdict(P, U, C, D, t, TRUE) IN
       IF v.ok THEN ReAdd((P \ v.evict) \cup {t}, [ET EXCEPT ![t] = T], U, C, D, Tail(q), T)
       ELSE ReAdd(P \ (IF t \in P THEN DescOf(P, {t}) ELSE DescOf(P, ChildrenIn(P, t))), ET, U, C, D, Tail(q), T)
StillOK(P, U, C, e) ==
  /\ FinalNext(C, e)
  /\ SeqOKNext(C, e, [j \in 1..NIn(e) |-> CoinH(P, U, C, InOp(e, j))])
  /\ \A j \in 1..NIn(e) : InOp(e, j) \in DOMAIN U => ~(U[InOp(e, j)].cb /\ Height(C) + 1 - U[InOp(e, j)].h < Maturity)
AfterReorg(P, ET, U, C, D, q, T) ==
  LET r == ReAdd(P, ET, U, C, D, q, T)
      p1 == r.p \ DescOf(r.p, {e \in r.p : ~StillOK(r.p, U, C, e)})
      p2 == p1 \ ExpireSet(p1, r.et, T)
  IN [p |-> p2, et |-> NormT(p2, r.et)]

\* ------------------------------------------------------------------ actions
Ctr0 == [blk |-> 0, disc |-> 0, reorg |-> 0, prio |-> 0, tick |-> 0, exp |-> 0]
Init == /\ pool = {} /\ delta = [t \in TxIds |-> 0] /\ etime = [t \in TxIds |-> 0]
        /\ chain = <<>> /\ utxo = BaseUtxo /\ now = 0 /\ ctr = Ctr0
        /\ lastAct = <<"init">> /\ lastRes = NoneRes

Submit(t) ==
  LET v == Verdict(pool, utxo, chain, delta, t, FALSE) IN
  /\ IF v.ok
     THEN LET p1 == (pool \ v.evict) \cup {t}
              et1 == [etime EXCEPT ![t] = now]
              p2 == p1 \ ExpireSet(p1, et1, now)           \* LimitMempoolSize after Finalize
          IN /\ pool' = p2 /\ etime' = NormT(p2, et1)
             /\ lastRes' = IF t \in p2 THEN v ELSE Res(FALSE, "mempool full", {}, v.dbg)
     ELSE UNCHANGED <<pool, etime>> /\ lastRes' = v
  /\ UNCHANGED <<delta, chain, utxo, now, ctr>>
  /\ lastAct' = <<"submit", t>>

\* the verdict of Submit from the same state (the replaced list is only filled in when the replacement is carried out)
TestVerdict(t) == LET v == Verdict(pool, utxo, chain, delta, t, FALSE) IN Res(v.ok, v.why, {}, v.dbg)
TestAccept(t) == /\ UNCHANGED <<state, ctr>> /\ lastAct' = <<"test", t>> /\ lastRes' = TestVerdict(t)

Prioritise(t, d) ==
  /\ ctr.prio < MaxPrio
  /\ delta' = [delta EXCEPT ![t] = @ + d] /\ ctr' = [ctr EXCEPT !.prio = @ + 1]
  /\ UNCHANGED <<pool, etime, chain, utxo, now>>
  /\ lastAct' = <<"prio", t, d>> /\ lastRes' = NoneRes

Mine(L, dt) ==
  /\ ctr.blk < MaxBlocks /\ BlockOK(chain, utxo, L)
  /\ LET r == RmBlock(pool, delta, L) IN
     /\ pool' = r.p /\ delta' = r.d /\ etime' = NormT(r.p, etime)
     /\ chain' = Append(chain, [txs |-> L, dt |-> dt]) /\ utxo' = Connect(chain, utxo, L)
  /\ ctr' = [ctr EXCEPT !.blk = @ + 1] /\ UNCHANGED now
  /\ lastAct' = <<"mine", L, dt>> /\ lastRes' = NoneRes

\* (not after a Reorg: the node would then return to the block the reorg had displaced, which is equal-work and older)
Disconnect ==
  /\ ctr.disc < MaxDisc /\ chain # <<>> /\ ctr.reorg = 0
  /\ LET C1 == Front(chain) U1 == Replay(C1)
         r == AfterReorg(pool, etime, U1, C1, delta, chain[Len(chain)].txs, now)
     IN /\ chain' = C1 /\ utxo' = U1 /\ pool' = r.p /\ etime' = r.et
  /\ ctr' = [ctr EXCEPT !.disc = @ + 1] /\ UNCHANGED <<delta, now>>
  /\ lastAct' = <<"disconnect">> /\ lastRes' = NoneRes

InSeq(s, x) == \E i \in 1..Len(s) : s[i] = x
SelectNotIn(s, a, b) == SelectSeq(s, LAMBDA x : ~InSeq(a, x) /\ ~InSeq(b, x))
Reorg(LA, LB, dt) ==
  /\ ctr.reorg < MaxReorg /\ chain # <<>>
  /\ LET C0 == Front(chain) U0 == Replay(C0)
         CA == Append(C0, [txs |-> LA, dt |-> dt]) UA == Connect(C0, U0, LA)
         CB == Append(CA, [txs |-> LB, dt |-> dt]) UB == Connect(CA, UA, LB)
         rA == RmBlock(pool, delta, LA) rB == RmBlock(rA.p, rA.d, LB)
         q == SelectNotIn(chain[Len(chain)].txs, LA, LB)
         r == AfterReorg(rB.p, NormT(rB.p, etime), UB, CB, rB.d, q, now)
     IN /\ BlockOK(C0, U0, LA) /\ BlockOK(CA, UA, LB)
        /\ chain' = CB /\ utxo' = UB /\ pool' = r.p /\ etime' = r.et /\ delta' = rB.d
  /\ ctr' = [ctr EXCEPT !.reorg = @ + 1] /\ UNCHANGED now
  /\ lastAct' = <<"reorg", LA, LB, dt>> /\ lastRes' = NoneRes

Tick(d) ==
  /\ ctr.tick < MaxTicks /\ now' = now + d /\ ctr' = [ctr EXCEPT !.tick = @ + 1]
  /\ UNCHANGED <<pool, delta, etime, chain, utxo>>
  /\ lastAct' = <<"tick", d>> /\ lastRes' = NoneRes

ExpireCall ==
  /\ ctr.exp < MaxExpire
  /\ LET p2 == pool \ ExpireSet(pool, etime, now) IN pool' = p2 /\ etime' = NormT(p2, etime)
  /\ ctr' = [ctr EXCEPT !.exp = @ + 1] /\ UNCHANGED <<delta, chain, utxo, now>>
  /\ lastAct' = <<"expire">> /\ lastRes' = NoneRes

Next == \/ \E t \in SUBMITSET_ : Submit(t)
        \/ \E t \in TESTSET_ : TestAccept(t)
        \/ \E p \in PRIOSET_ : Prioritise(p[1], p[2])
        \/ \E L \in LISTS_, dt \in DTS_ : Mine(L, dt)
        \/ Disconnect
        \/ \E pr \in REORGS_, dt \in DTS_ : Reorg(pr[1], pr[2], dt)
        \/ \E d \in TICKS_ : Tick(d)
        \/ ExpireCall
Spec == Init /\ [][Next]_vars

\* ------------------------------------------------------------------ C22: consistency and next-block validity
ConsistentIn(P, U) ==
  /\ \A t \in P : InsSet(t) \subseteq DOMAIN U \cup UNION {OutsOf(p) : p \in P \ {t}}      \* inputs unspent or from the pool
  /\ \A a, b \in P : a # b => InsSet(a) \cap InsSet(b) = {}                                 \* no output spent twice
  /\ \A t \in P : OutsOf(t) \cap DOMAIN U = {}
\* the whole pool, parents first, is a valid block on the tip: inputs, amounts, maturity, BIP68, scripts, finality
NextBlockValidIn(P, U, C) == BlockOK(C, U, TopoSeq(P))
Consistent == ConsistentIn(pool, utxo)
NextBlockValid == NextBlockValidIn(pool, utxo, chain)
UtxoIsReplay == utxo = Replay(chain)
Bookkeeping == /\ \A t \in TxIds \ pool : etime[t] = 0
               /\ \A t \in pool : etime[t] <= now
\* ------------------------------------------------------------------ C26: necessary conditions of every accepted replacement,
\* stated independently of Verdict's control flow
ReplacementSound(P, D, t, ev) ==
  LET direct == Direct(P, t) IN
  /\ ev = DescOf(P, direct)                                                                   \* exactly conflicts + descendants
  /\ MFee(D, t) >= SumF([x \in TxIds |-> MFee(D, x)], ev) + FeeAt(IncrRelay, VSize(t))        \* Rules 3 + 4
  /\ InTxs(t) \cap ev = {}                                                                     \* spends nothing it evicts
  /\ Cardinality(ClustersOf(P, direct)) <= MaxReplClusters                                     \* Rule 5
  /\ ImprovesDiagram(P, D, t)                                                                  \* strictly better diagram
ReplacementsSound ==
  [][(lastAct'[1] = "submit" /\ lastRes'.why \in {"ok", "mempool full"} /\ Direct(pool, lastAct'[2]) # {})
       => /\ ReplacementSound(pool, delta, lastAct'[2], Evicted(pool, lastAct'[2]))
          /\ lastRes'.ok => lastRes'.evict = Evicted(pool, lastAct'[2])
          /\ pool' \cap Evicted(pool, lastAct'[2]) = {}]_vars
\* ------------------------------------------------------------------ C28: test-accept changes nothing and agrees with Submit
TestAcceptPure == [][lastAct'[1] = "test" => UNCHANGED state]_vars
\* Submit's answer from the same state; only the post-acceptance LimitMempoolSize step can turn an accepted
\* transaction into "mempool full" (here: an expired ancestor takes it along)
TestAcceptFaithful ==
  [][lastAct'[1] = "submit" =>
       LET tv == TestVerdict(lastAct'[2]) IN
       \/ (lastRes'.ok = tv.ok /\ lastRes'.why = tv.why)
       \/ (lastRes'.why = "mempool full" /\ tv.ok)]_vars

\* ------------------------------------------------------------------ emission
UtxoList(V) == {[t |-> o[1], i |-> o[2], v |-> V[o].v, h |-> V[o].h, cb |-> V[o].cb] : o \in DOMAIN V}
Entry(P, D, t) == [t |-> t, fee |-> Fee(t), mfee |-> MFee(D, t), vsize |-> VSize(t),
                   parents |-> ParentsIn(P, t), children |-> ChildrenIn(P, t)]
ObsOf(P, D, U, C) == [pool |-> P, entries |-> {Entry(P, D, t) : t \in P}, deltas |-> {[t |-> t, d |-> D[t]] : t \in {x \in TxIds : D[x] # 0}},
                      tsize |-> SumF([x \in TxIds |-> VSize(x)], P), tfee |-> SumF([x \in TxIds |-> Fee(x)], P),
                      height |-> Height(C), utxo |-> UtxoList(U)]
Model == [pool |-> pool, delta |-> delta, etime |-> etime, chain |-> chain, now |-> now, ctr |-> ctr]
Proj == [model |-> Model, obs |-> ObsOf(pool, delta, utxo, chain)]
Emit == VFEdgeK(View0, (IF TLCGet("level") = 1 THEN Proj ELSE [model |-> 0]), lastAct', lastRes', View0', Proj')
====
