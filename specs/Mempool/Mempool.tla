---- MODULE Mempool ----
(***************************************************************************)
(* The transaction memory pool of a node over a confirmed chain state, on  *)
(* a fixed universe of transactions (same format as UtxoChain's universes).*)
(* One action per public entry point of the implementation:                *)
(*   Submit(t)       ChainstateManager::ProcessTransaction(tx, false)      *)
(*                   = AcceptToMemoryPool: PreChecks, ReplacementChecks,   *)
(*                   cluster limit, spends-conflicting, script checks,     *)
(*                   Finalize, LimitMempoolSize (expiry)                   *)
(*   TestAccept(t)   ProcessTransaction(tx, true)                          *)
(*   Prioritise(t,d) CTxMemPool::PrioritiseTransaction                     *)
(*   Mine(L, dt)     a valid block with transactions L connected on the    *)
(*                   tip: removeForBlock (confirmed + conflicts, recursive)*)
(*   Disconnect      InvalidateBlock(tip): DisconnectTip +                 *)
(*                   MaybeUpdateMempoolForReorg (re-add in block order,    *)
(*                   removeForReorg filter, expiry)                        *)
(*   Reorg(LA, LB)   two valid blocks on the tip's parent: the tip block   *)
(*                   is disconnected, A and B connected, then the          *)
(*                   disconnected transactions return (ActivateBestChain)  *)
(*   Tick(d)         mock time advances                                    *)
(*   ExpireCall      CTxMemPool::Expire(now - expiry)                      *)
(* Properties: C22 (consistency, next-block validity), C26 (replacement    *)
(* rules), C28 (test-accept).  Fees, virtual sizes and weights of the      *)
(* universe's transactions are the REAL ones: the harness builds and signs *)
(* the universe, measures it, and the numbers arrive through IOEnv.        *)
(*                                                                         *)
(* Outpoints: <<t, i>> with t >= 1: output i of TxU[t]; t = 0: base coin i *)
(* (coinbase of a base block); <<99, 1>>: an outpoint that never exists.   *)
(* C27/C29/C55 add: standardness (Ext.std), TRUC (version 3) topology,     *)
(* ephemeral dust, cluster size limit, the mempool size limit with         *)
(* TrimToSize / GetMinFee, and the actions                                 *)
(*   SubmitPackage(pkg) ProcessNewPackage(pkg, test_accept=false)          *)
(*   MarkUnb(t)        CTxMemPool::AddUnbroadcastTx                        *)
(*   Dump              DumpMempool                                         *)
(*   Load(cut, exist)  a second node on the same chain submits `exist`     *)
(*                     and calls LoadMempool on the (damaged) file; the    *)
(*                     behaviour continues on that node                    *)
(*   Prefill           a fixed sequence of Submit calls as first step      *)
(* Transactions with the same txid and different witnesses ("twins",       *)
(* universe field twin) are different pool members that never coexist.     *)
(***************************************************************************)
EXTENDS Integers, Sequences, FiniteSets, TLC, VF, IOUtils
CONSTANTS TxU,        \* Seq of [ins : Seq([op, seq]), outs : Seq([v, cls]), ver, lock]
          BaseCoins,  \* Seq of [v, h]: base coin i = coinbase output (v satoshi) of the base block at height h
          H0, BaseDt, \* height of the base tip; spacing of base block times
          Lists,      \* allowed block contents: set of sequences of tx ids
          ReorgPairs, \* allowed contents <<LA, LB>> of the two blocks of a reorganisation
          Dts,        \* allowed block time increments
          SubmitSet, TestSet,   \* transactions that may be submitted / test-accepted
          PrioSet,    \* set of <<t, d>>: allowed PrioritiseTransaction(t, d) calls
          Ticks,      \* allowed mock-time increments (seconds)
          MaxBlocks, MaxDisc, MaxReorg, MaxPrio, MaxTicks, MaxExpire,
          MinRelay, IncrRelay,  \* -minrelaytxfee / -incrementalrelayfee in sat/kvB
          Expiry,               \* mempool expiry in seconds
          MaxReplClusters,      \* MAX_REPLACEMENT_CANDIDATES (Rule 5, counted in clusters)
          MaxClusterCount,      \* cluster count limit
          Ext                   \* scenario extensions, see module UniCommon
\* measured by the harness from the real, signed universe: Meas[t] = [fee, vsize, weight]
Meas == ndJsonDeserialize(IOEnv.MP_MEASURE)
Maturity == 100
\* TLC re-evaluates a constant that the configuration substitutes by a definition (TxU <- TxUDef) at EVERY reference; a
\* constant-level definition is evaluated once. All substituted constants are therefore used through these aliases.
\* a twin is its original in everything but the witness
TXU == [t \in 1..Len(TxU) |-> IF TxU[t].twin # 0 THEN [TxU[TxU[t].twin] EXCEPT !.twin = TxU[t].twin] ELSE TxU[t]]
EXT == Ext
STD == EXT.std
MAXCLW == IF EXT.maxclsize = 0 THEN 404000 ELSE 4 * EXT.maxclsize      \* cluster size limit in weight units
MAXMEM == EXT.maxmempool
PKGS_ == EXT.pkgs
CUTS_ == EXT.cuts
EXISTS_ == EXT.exist
UNBS_ == EXT.unbs
BASEC == BaseCoins
LISTS_ == Lists
REORGS_ == ReorgPairs
SUBMITSET_ == SubmitSet
TESTSET_ == TestSet
PRIOSET_ == PrioSet
TICKS_ == Ticks
DTS_ == Dts

VARIABLES pool,    \* set of tx ids in the mempool
          delta,   \* [TxIds -> Int]: mapDeltas (kept for transactions outside the pool too)
          etime,   \* [TxIds -> Int]: entry time of pool members (0 for others)
          chain,   \* Seq of [txs, dt]: blocks connected on top of the base tip
          utxo,    \* confirmed UTXO set: outpoint -> [v, h, cb]
          now,     \* mock time, seconds since the start
          mf,      \* rolling minimum feerate [r: sat/kvB, b: a block was connected since the last bump]
          unb,     \* pool members marked unbroadcast
          file,    \* the last dump [saved, recs: Seq([t, time, d]), stray: {[t, d]}, unb]
          ctr,     \* bounds: [blk, disc, reorg, prio, tick, exp, pkg, unb, dump, load, pre]
          lastAct, lastRes
state == <<pool, delta, etime, chain, utxo, now, mf, unb, file>>
View0 == <<pool, delta, etime, chain, now, mf, unb, file, ctr>>
vars == <<state, ctr, lastAct, lastRes>>

\* ------------------------------------------------------------------ transactions
TxIds == 1..Len(TXU)
NIn(t) == Len(TXU[t].ins)
InOp(t, j) == TXU[t].ins[j].op
Spendable(cls) == cls # "opret"
\* per-transaction tables, evaluated once (TLCEval forces the function; an unevaluated one recomputes at every application)
\* twins: TID_[t] is the transaction that stands for t's txid (outpoints are always written with it), TWINS_[t] all
\* transactions with t's txid. INTX_ (the parents) is closed under twins, so that the graph operators below need not know.
TID_ == TLCEval([t \in TxIds |-> IF TXU[t].twin # 0 THEN TXU[t].twin ELSE t])
TWINS_ == TLCEval([t \in TxIds |-> {x \in TxIds : TID_[x] = TID_[t]}])
TW(id) == IF id \in TxIds THEN TWINS_[id] ELSE {id}
INS_ == TLCEval([t \in TxIds |-> {InOp(t, j) : j \in 1..NIn(t)}])
INTID_ == TLCEval([t \in TxIds |-> {InOp(t, j)[1] : j \in 1..NIn(t)}])
INTX_ == TLCEval([t \in TxIds |-> UNION {TW(InOp(t, j)[1]) : j \in 1..NIn(t)}])
OUTS_ == TLCEval([t \in TxIds |-> {<<TID_[t], i>> : i \in {i \in 1..Len(TXU[t].outs) : Spendable(TXU[t].outs[i].cls)}}])
DUP_ == TLCEval([t \in TxIds |-> Cardinality({InOp(t, j) : j \in 1..NIn(t)}) # NIn(t)])
InsSet(t) == INS_[t]
InTxs(t) == INTX_[t]
DupInputs(t) == DUP_[t]
OutsOf(t) == OUTS_[t]
RECURSIVE SumS(_)
SumS(s) == IF s = <<>> THEN 0 ELSE Head(s) + SumS(Tail(s))
RECURSIVE SumF(_, _)
SumF(f, S) == IF S = {} THEN 0 ELSE LET x == CHOOSE y \in S : TRUE IN f[x] + SumF(f, S \ {x})
OutVal(t) == SumS([i \in 1..Len(TXU[t].outs) |-> TXU[t].outs[i].v])
Fee(t) == Meas[t].fee
VSize(t) == Meas[t].vsize
Weight(t) == Meas[t].weight
MFee(D, t) == Fee(t) + D[TID_[t]]              \* prioritisation is by txid
V3(t) == TXU[t].ver = 3
\* dust (policy.cpp GetDustThreshold at the default 3000 sat/kvB): witness programs 67 input bytes, others 148
DustLimit(cls) == CASE cls \in {"wtrue", "wdrop", "wbig"} -> 330 [] cls = "anchor" -> 240 [] cls = "opret" -> 0
                    [] cls = "true" -> 474 [] cls = "nopx" -> 477 [] cls = "fail" -> 480 [] cls = "cltv" -> 489 [] cls = "key" -> 576 [] OTHER -> 546
DUST_ == TLCEval([t \in TxIds |-> {<<TID_[t], i>> : i \in {i \in 1..Len(TXU[t].outs) : TXU[t].outs[i].v < DustLimit(TXU[t].outs[i].cls)}}])
DustOuts(t) == DUST_[t]
MEM_ == TLCEval([t \in TxIds |-> Meas[t].mem])
\* script class of the output an input spends: base coins are pay-to-pubkey (signed by the harness)
ClsOf(o) == IF o[1] >= 1 /\ o[1] # 99 THEN TXU[o[1]].outs[o[2]].cls ELSE "key"
Max(a, b) == IF a > b THEN a ELSE b
\* CFeeRate::GetFee: rate in sat/kvB, rounded up
FeeAt(rate, vsize) == (rate * vsize + 999) \div 1000

\* ------------------------------------------------------------------ chain, heights, times
Height(C) == H0 + Len(C)
RECURSIVE TimeIdx(_, _)
TimeIdx(C, k) == IF k = 0 THEN 0 ELSE TimeIdx(C, k - 1) + C[k].dt
TimeAt(C, h) == IF h <= H0 THEN (h - H0) * BaseDt ELSE TimeIdx(C, h - H0)
\* CBlockIndex::GetMedianTimePast of the block at height j of chain C
MTPat(C, j) ==
  LET hs == Max(0, j - 10)..j
      ts == [h \in hs |-> TimeAt(C, h)]
      cnt == Cardinality(hs)
      rank(h) == Cardinality({g \in hs : ts[g] < ts[h] \/ (ts[g] = ts[h] /\ g < h)})
  IN ts[CHOOSE h \in hs : rank(h) = cnt \div 2]
Front(s) == SubSeq(s, 1, Len(s) - 1)

\* ------------------------------------------------------------------ coins
Coin(v, h, cb) == [v |-> v, h |-> h, cb |-> cb]
BaseUtxo == [o \in {<<0, i>> : i \in 1..Len(BASEC)} |-> Coin(BASEC[o[2]].v, BASEC[o[2]].h, TRUE)]
Restrict(f, S) == [x \in S |-> f[x]]
Without(f, S) == Restrict(f, DOMAIN f \ S)

\* ------------------------------------------------------------------ finality for inclusion in the block after chain C
AllSeqFinal(t) == \A j \in 1..NIn(t) : TXU[t].ins[j].seq.kind = "final"
\* IsFinalTx(tx, Height(C) + 1, MTP(tip)) (BIP113)
FinalNext(C, t) ==
  LET L == TXU[t].lock IN
  \/ L.kind = "none"
  \/ L.kind = "height" /\ L.v < Height(C) + 1
  \/ L.kind = "time" /\ L.v < MTPat(C, Height(C))
  \/ AllSeqFinal(t)
\* BIP68 (CalculateSequenceLocks + EvaluateSequenceLocks) at height Height(C) + 1; hts[j] = height of the coin input j spends
SeqOKNext(C, t, hts) ==
  TXU[t].ver < 2 \/
  \A j \in 1..NIn(t) :
    LET sq == TXU[t].ins[j].seq ch == hts[j] IN
    CASE sq.kind = "height" -> ch + sq.v - 1 < Height(C) + 1
      [] sq.kind = "time" -> MTPat(C, Max(ch - 1, 0)) + 512 * sq.v - 1 < MTPat(C, Height(C))
      [] OTHER -> TRUE

\* script classes of outputs, as the harness spends them: "key" (base coins, signed), "true" (anyone can spend), "fail" (always
\* false), "cltv" (CHECKLOCKTIMEVERIFY beyond the spender's nLockTime) fail under the consensus flags; "nopx" (NOP4) is valid under
\* the consensus flags and rejected by the standard flags. What the standard flags accept, the consensus flags accept (C28).
ConsensusInvalid == {"fail", "cltv"}
PolicyInvalid == ConsensusInvalid \cup {"nopx"}
\* ------------------------------------------------------------------ connecting a block on top of chain C with view V
RECURSIVE ConnTxs(_, _, _)
ConnTxs(C, txs, V) ==
  IF txs = <<>> THEN [ok |-> TRUE, why |-> "ok", view |-> V]
  ELSE LET t == Head(txs)
           h == Height(C) + 1
           fail(w) == [ok |-> FALSE, why |-> w, view |-> V]
       IN IF ~(InsSet(t) \subseteq DOMAIN V) THEN fail("bad-txns-inputs-missingorspent")
          ELSE IF \E j \in 1..NIn(t) : V[InOp(t, j)].cb /\ h - V[InOp(t, j)].h < Maturity
               THEN fail("bad-txns-premature-spend-of-coinbase")
          ELSE IF SumS([j \in 1..NIn(t) |-> V[InOp(t, j)].v]) < OutVal(t) THEN fail("bad-txns-in-belowout")
          ELSE IF ~SeqOKNext(C, t, [j \in 1..NIn(t) |-> V[InOp(t, j)].h]) THEN fail("bad-txns-nonfinal")
          ELSE IF \E j \in 1..NIn(t) : ClsOf(InOp(t, j)) \in ConsensusInvalid THEN fail("script-failed")
          ELSE LET newc == [o \in OutsOf(t) |-> Coin(TXU[t].outs[o[2]].v, h, FALSE)]
               IN ConnTxs(C, Tail(txs), Without(V, InsSet(t)) @@ newc)
\* CheckBlock (duplicate inputs), ContextualCheckBlock (finality), BIP30, ConnectBlock. Coinbases claim nothing.
BlockOK(C, V, txs) ==
  /\ \A i \in 1..Len(txs) : ~DupInputs(txs[i])
  /\ \A i, k \in 1..Len(txs) : i # k => txs[i] # txs[k]
  /\ \A i \in 1..Len(txs) : FinalNext(C, txs[i])
  /\ \A i \in 1..Len(txs) : OutsOf(txs[i]) \cap DOMAIN V = {}
  /\ ConnTxs(C, txs, V).ok
Connect(C, V, txs) == ConnTxs(C, txs, V).view
RECURSIVE Replay(_)
Replay(C) == IF C = <<>> THEN BaseUtxo ELSE Connect(Front(C), Replay(Front(C)), C[Len(C)].txs)

\* ------------------------------------------------------------------ the mempool graph (derived from inputs)
ParentsIn(P, t) == P \cap InTxs(t)
ChildrenIn(P, t) == {c \in P : t \in InTxs(c)}
RECURSIVE DescOf(_, _)
DescOf(P, S) == LET nxt == S \cup {c \in P : InTxs(c) \cap S # {}} IN IF nxt = S THEN S ELSE DescOf(P, nxt)
RECURSIVE AncOf(_, _)
AncOf(P, S) == LET nxt == S \cup UNION {ParentsIn(P, c) : c \in S} IN IF nxt = S THEN S ELSE AncOf(P, nxt)
RECURSIVE Cluster(_, _)
Cluster(P, S) == LET nxt == S \cup {c \in P : \E s \in S : c \in InTxs(s) \/ s \in InTxs(c)} IN IF nxt = S THEN S ELSE Cluster(P, nxt)
ClustersOf(P, S) == {Cluster(P, {t}) : t \in S}
RECURSIVE TopoSeq(_)
TopoSeq(P) == IF P = {} THEN <<>> ELSE LET r == CHOOSE x \in P : ParentsIn(P, x) = {} IN <<r>> \o TopoSeq(P \ {r})
\* coins visible to mempool acceptance: confirmed coins and every output of a pool transaction (CCoinsViewMemPool)
Avail(P, U) == DOMAIN U \cup UNION {OutsOf(p) : p \in P}
CoinH(P, U, C, o) == IF o \in DOMAIN U THEN U[o].h ELSE Height(C) + 1       \* MEMPOOL_HEIGHT counts as the next block
CoinV(P, U, o) == IF o \in DOMAIN U THEN U[o].v ELSE TXU[o[1]].outs[o[2]].v

\* ------------------------------------------------------------------ feerate diagrams (exact integer arithmetic)
\* TLC integers are 32 bit and an overflow is an *error* (never a silent wrap). Products of two factors below 46 000 in
\* magnitude are formed directly; anything larger goes through base-1000 limbs.
D3(x) == <<x % 1000, (x \div 1000) % 1000, x \div 1000000>>
MulD(a, b) == LET x == D3(a) y == D3(b)
                  p0 == x[1]*y[1]
                  p1 == x[1]*y[2] + x[2]*y[1]
                  p2 == x[1]*y[3] + x[2]*y[2] + x[3]*y[1]
                  p3 == x[2]*y[3] + x[3]*y[2]
                  p4 == x[3]*y[3]
                  c0 == p0 \div 1000  d0 == p0 % 1000
                  q1 == p1 + c0  c1 == q1 \div 1000  d1 == q1 % 1000
                  q2 == p2 + c1  c2 == q2 \div 1000  d2 == q2 % 1000
                  q3 == p3 + c2  c3 == q3 \div 1000  d3 == q3 % 1000
                  q4 == p4 + c3
              IN <<q4, d3, d2, d1, d0>>     \* most significant first; only q4 carries the sign
RECURSIVE LexGE(_, _)
LexGE(u, v) == IF u = <<>> THEN TRUE ELSE IF Head(u) > Head(v) THEN TRUE ELSE IF Head(u) < Head(v) THEN FALSE ELSE LexGE(Tail(u), Tail(v))
Small(x) == x < 46000 /\ x > -46000
\* a*b >= c*d  and  a*b > c*d
ProdGE(a, b, c, d) == IF Small(a) /\ Small(b) /\ Small(c) /\ Small(d) THEN a * b >= c * d ELSE LexGE(MulD(a, b), MulD(c, d))
ProdGT(a, b, c, d) == IF Small(a) /\ Small(b) /\ Small(c) /\ Small(d) THEN a * b > c * d
                      ELSE LET m1 == MulD(a, b) m2 == MulD(c, d) IN m1 # m2 /\ LexGE(m1, m2)
\* chunk a has a strictly higher feerate than chunk b (sizes positive)
Higher(a, b) == ProdGT(a.f, b.s, b.f, a.s)
RECURSIVE MergeBack(_)
MergeBack(ch) == IF Len(ch) < 2 THEN ch
                 ELSE LET a == ch[Len(ch) - 1] b == ch[Len(ch)] IN
                      IF Higher(b, a) THEN MergeBack(Append(SubSeq(ch, 1, Len(ch) - 2), [f |-> a.f + b.f, s |-> a.s + b.s])) ELSE ch
\* chunks of linearization L: a later chunk with a higher feerate merges into its predecessor
RECURSIVE Chunks(_, _)
Chunks(D, L) == IF L = <<>> THEN <<>>
                ELSE MergeBack(Append(Chunks(D, Front(L)), [f |-> MFee(D, L[Len(L)]), s |-> Weight(L[Len(L)])]))
\* diagram = cumulative (size, fee) points starting at (0, 0)
RECURSIVE Cum(_)
Cum(ch) == IF ch = <<>> THEN <<[f |-> 0, s |-> 0]>>
           ELSE LET c == Cum(Front(ch)) l == c[Len(c)] x == ch[Len(ch)] IN Append(c, [f |-> l.f + x.f, s |-> l.s + x.s])
Uncum(c) == [i \in 1..Len(c) - 1 |-> [f |-> c[i + 1].f - c[i].f, s |-> c[i + 1].s - c[i].s]]
SizesOf(d) == {d[i].s : i \in 1..Len(d)}
\* the segment of diagram d over size z: its left end a and right end b (b = a beyond the end: the diagram continues flat)
SegOf(d, z) == IF z >= d[Len(d)].s THEN [a |-> d[Len(d)], b |-> [f |-> d[Len(d)].f, s |-> d[Len(d)].s + 1]]
               ELSE LET i == CHOOSE k \in 1..Len(d) - 1 : d[k].s <= z /\ z < d[k + 1].s IN [a |-> d[i], b |-> d[i + 1]]
\* value of d1 at z  >=  (>)  value of d2 at z, for z a breakpoint of d1 or of d2 (where that diagram's value is exact)
GEat(d1, d2, z) == LET s1 == SegOf(d1, z) s2 == SegOf(d2, z) IN
                   IF z = s1.a.s THEN ProdGE(s1.a.f - s2.a.f, s2.b.s - s2.a.s, s2.b.f - s2.a.f, z - s2.a.s)
                   ELSE ProdGE(s1.b.f - s1.a.f, z - s1.a.s, s2.a.f - s1.a.f, s1.b.s - s1.a.s)
GTat(d1, d2, z) == LET s1 == SegOf(d1, z) s2 == SegOf(d2, z) IN
                   IF z = s1.a.s THEN ProdGT(s1.a.f - s2.a.f, s2.b.s - s2.a.s, s2.b.f - s2.a.f, z - s2.a.s)
                   ELSE ProdGT(s1.b.f - s1.a.f, z - s1.a.s, s2.a.f - s1.a.f, s1.b.s - s1.a.s)
DiagGE(d1, d2) == \A z \in SizesOf(d1) \cup SizesOf(d2) : GEat(d1, d2, z)
\* CompareChunks(new, old) is "greater": nowhere below, somewhere above
StrictlyBetter(dn, dol) == LET Z == SizesOf(dn) \cup SizesOf(dol) IN (\A z \in Z : GEat(dn, dol, z)) /\ (\E z \in Z : GTat(dn, dol, z))
\* chunks of the optimal linearization of cluster Cl of pool graph P: brute force over the topological orders (clusters stay
\* small); the CHOOSE fails if no order dominates all others, i.e. the optimum the code is required to find is well defined
RECURSIVE Perms(_)
Perms(S) == IF S = {} THEN {<<>>} ELSE UNION {{<<x>> \o p : p \in Perms(S \ {x})} : x \in S}
Topo(P, L) == \A i \in 1..Len(L) : \A k \in 1..Len(L) : L[k] \in InTxs(L[i]) => k < i
BestChunks(P, D, Cl) ==
  IF Cardinality(Cl) = 1 THEN LET t == CHOOSE x \in Cl : TRUE IN <<[f |-> MFee(D, t), s |-> Weight(t)]>>
  ELSE LET cand == {Cum(Chunks(D, L)) : L \in {L \in Perms(Cl) : Topo(P, L)}}
           best == CHOOSE c \in cand : \A m \in cand : DiagGE(c, m)
       IN Uncum(best)
RECURSIVE SortChunks(_)
SortChunks(S) == IF S = {} THEN <<>>
                 ELSE LET m == CHOOSE x \in S : \A y \in S : ~Higher(y[2], x[2]) IN <<m[2]>> \o SortChunks(S \ {m})
\* diagram of a set of clusters of graph P: all their chunks by decreasing feerate
DiagramOf(P, D, Cs) ==
  LET tagged == UNION {LET bc == BestChunks(P, D, Cl) IN {<<<<Cl, i>>, bc[i]>> : i \in 1..Len(bc)} : Cl \in Cs}
  IN Cum(SortChunks(tagged))

\* ------------------------------------------------------------------ replacement (policy/rbf.cpp, MemPoolAccept::ReplacementChecks)
Direct(P, t) == {c \in P : InsSet(c) \cap InsSet(t) # {}}
Evicted(P, t) == DescOf(P, Direct(P, t))
\* main-side clusters: those losing a transaction or absorbing a new one (through its surviving parents); staging side:
\* what becomes of them. N = the new transactions, ev = what they evict
ImprovesDiagramN(P, D, N, ev) ==
  LET oldCs == ClustersOf(P, ev \cup (UNION {ParentsIn(P, t) : t \in N} \ ev))
      newP == (P \ ev) \cup N
      newCs == ClustersOf(newP, (UNION oldCs \ ev) \cup N)
  IN StrictlyBetter(DiagramOf(newP, D, newCs), DiagramOf(P, D, oldCs))
ImprovesDiagramE(P, D, t, ev) == ImprovesDiagramN(P, D, {t}, ev)
ImprovesDiagram(P, D, t) == ImprovesDiagramE(P, D, t, Evicted(P, t))
NoDbg == [m3 |-> 0, m4 |-> 0, nc |-> 0]

\* ------------------------------------------------------------------ limits, standardness, TRUC, ephemeral dust
\* txgraph oversize test for the clusters that contain the transactions S of pool graph P
ClusterOK(P, S) == \A Cl \in ClustersOf(P, S) : Cardinality(Cl) <= MaxClusterCount /\ SumF([x \in TxIds |-> Weight(x)], Cl) <= MAXCLW
\* IsStandardTx on what the universes vary: version, size, output script classes, at most one dust output
StdCls == {"key", "wtrue", "wdrop", "wbig", "anchor", "opret"}
StdTxWhy(t) == IF TXU[t].ver < 1 \/ TXU[t].ver > 3 THEN "version"
               ELSE IF Weight(t) > 400000 THEN "tx-size"
               ELSE IF \E i \in 1..Len(TXU[t].outs) : TXU[t].outs[i].cls \notin StdCls THEN "scriptpubkey"
               ELSE IF Cardinality(DustOuts(t)) > 1 THEN "dust" ELSE "ok"
\* CTxMemPool::GetMinFee between blocks / after a block (without the time decay: scenarios that trim do not advance the clock)
MinFeeOf(MF) == IF MF.r = 0 THEN 0 ELSE IF ~MF.b THEN MF.r ELSE Max(MF.r, IncrRelay)
\* policy/truc_policy.cpp SingleTRUCChecks: ok, or a violation, or a violation that names the sibling whose eviction may be tried.
\* dc = the transactions that t conflicts with by inputs
TrucOK == [ok |-> TRUE, sib |-> 0]
TrucBad == [ok |-> FALSE, sib |-> 0]
TrucSingle(P, t, dc) ==
  LET par == ParentsIn(P, t) IN
  IF \E p \in par : V3(p) # V3(t) THEN TrucBad                       \* TRUC and non-TRUC do not mix
  ELSE IF ~V3(t) THEN TrucOK
  ELSE IF VSize(t) > 10000 THEN TrucBad                               \* TRUC_MAX_VSIZE
  ELSE IF Cardinality(par) + 1 > 2 THEN TrucBad                      \* TRUC_ANCESTOR_LIMIT
  ELSE IF par = {} THEN TrucOK
  ELSE LET p == CHOOSE x \in par : TRUE
           desc == DescOf(P, {p}) \ {p}
       IN IF Cardinality(AncOf(P, {p})) + 1 > 2 THEN TrucBad
          ELSE IF VSize(t) > 1000 THEN TrucBad                        \* TRUC_CHILD_MAX_VSIZE
          ELSE IF desc # {} /\ desc \cap dc = {}                      \* the parent has a child that is not going to be replaced
               THEN IF Cardinality(desc) = 1 /\ Cardinality(AncOf(P, desc)) = 2
                    THEN [ok |-> FALSE, sib |-> CHOOSE x \in desc : TRUE] ELSE TrucBad
          ELSE TrucOK
\* ephemeral_policy.cpp CheckEphemeralSpends for transaction t whose parents (in the pool or in the same package) are Par
SpendsDustOf(t, Par) == \A p \in Par : DustOuts(p) \subseteq InsSet(t)

\* ------------------------------------------------------------------ acceptance verdict (validation.cpp, MemPoolAccept) in the code's order
Res(ok, why, ev, dbg) == [ok |-> ok, why |-> why, evict |-> ev, pure |-> TRUE, dbg |-> dbg, trims |-> <<>>, tight |-> FALSE]
Rej(why) == Res(FALSE, why, {}, NoDbg)
NoneRes == Res(TRUE, "none", {}, NoDbg)
ScriptsOK(t) == \A j \in 1..NIn(t) : ClsOf(InOp(t, j)) \notin PolicyInvalid
\* ---- PreChecks. X: outpoints made available by earlier transactions of the same package; pk: evaluated as part of a multi-
\* transaction package (fee checks on the package feerate, no sibling eviction). Result: [ok, why, dc] with dc = the pool
\* transactions to be replaced directly (input conflicts, and the TRUC sibling when its eviction is considered)
PreBad(why) == [ok |-> FALSE, why |-> why, dc |-> {}]
PreChk(P, U, C, D, MF, t, bypass, X, pk) ==
  IF DupInputs(t) THEN PreBad("bad-txns-inputs-duplicate")
  ELSE IF STD /\ StdTxWhy(t) # "ok" THEN PreBad(StdTxWhy(t))
  ELSE IF ~FinalNext(C, t) THEN PreBad("non-final")
  ELSE IF t \in P THEN PreBad("txn-already-in-mempool")
  ELSE IF TWINS_[t] \cap P # {} THEN PreBad("txn-same-nonwitness-data-in-mempool")
  ELSE IF ~(InsSet(t) \subseteq Avail(P, U) \cup X)
       THEN IF OutsOf(t) \cap DOMAIN U # {} THEN PreBad("txn-already-known") ELSE PreBad("bad-txns-inputs-missingorspent")
  ELSE IF ~SeqOKNext(C, t, [j \in 1..NIn(t) |-> CoinH(P, U, C, InOp(t, j))]) THEN PreBad("non-BIP68-final")
  ELSE IF \E j \in 1..NIn(t) : InOp(t, j) \in DOMAIN U /\ U[InOp(t, j)].cb /\ Height(C) + 1 - U[InOp(t, j)].h < Maturity
       THEN PreBad("bad-txns-premature-spend-of-coinbase")
  ELSE IF SumS([j \in 1..NIn(t) |-> CoinV(P, U, InOp(t, j))]) < OutVal(t) THEN PreBad("bad-txns-in-belowout")
  ELSE IF STD /\ DustOuts(t) # {} /\ (Fee(t) # 0 \/ MFee(D, t) # 0) THEN PreBad("dust")          \* PreCheckEphemeralTx
  ELSE IF ~bypass /\ ~pk /\ FeeAt(MinFeeOf(MF), VSize(t)) > 0 /\ MFee(D, t) < FeeAt(MinFeeOf(MF), VSize(t)) THEN PreBad("mempool min fee not met")
  ELSE IF ~bypass /\ ~pk /\ MFee(D, t) < FeeAt(MinRelay, VSize(t)) THEN PreBad("min relay fee not met")
  ELSE IF bypass THEN [ok |-> TRUE, why |-> "ok", dc |-> Direct(P, t)]
  ELSE LET dc == Direct(P, t) tr == TrucSingle(P, t, dc) IN
       IF tr.ok THEN [ok |-> TRUE, why |-> "ok", dc |-> dc]
       ELSE IF tr.sib # 0 /\ ~pk THEN [ok |-> TRUE, why |-> "ok", dc |-> dc \cup {tr.sib}]
       ELSE PreBad("TRUC-violation")
\* ---- AcceptSingleTransaction
Verdict(P, U, C, D, MF, t, bypass) ==
  LET pr == PreChk(P, U, C, D, MF, t, bypass, {}, FALSE) IN
  IF ~pr.ok THEN Rej(pr.why)
  ELSE IF pr.dc = {}
       THEN IF ~ClusterOK(P \cup {t}, {t}) THEN Rej("too-large-cluster")
            ELSE IF ~bypass /\ STD /\ ~SpendsDustOf(t, ParentsIn(P, t)) THEN Rej("missing-ephemeral-spends")
            ELSE IF ~ScriptsOK(t) THEN Rej("script-failed")
            ELSE Res(TRUE, "ok", {}, NoDbg)
  ELSE \* ---- ReplacementChecks
       LET direct == pr.dc
           ev == DescOf(P, direct)
           evfees == SumF([x \in TxIds |-> MFee(D, x)], ev)
           nc == Cardinality(ClustersOf(P, direct))
           dbg == [m3 |-> MFee(D, t) - evfees, m4 |-> MFee(D, t) - evfees - FeeAt(IncrRelay, VSize(t)), nc |-> nc]
           rej(w) == Res(FALSE, w, {}, dbg)
       IN IF nc > MaxReplClusters THEN rej("too many potential replacements")
          ELSE IF MFee(D, t) < evfees THEN rej("insufficient fee")                                    \* Rule 3
          ELSE IF MFee(D, t) - evfees < FeeAt(IncrRelay, VSize(t)) THEN rej("insufficient fee")      \* Rule 4
          ELSE IF ~ClusterOK((P \ ev) \cup {t}, {t}) THEN rej("too-large-cluster")
          ELSE IF ~ImprovesDiagramE(P, D, t, ev) THEN rej("replacement-failed")
          \* the ancestors are taken in the pool as it is (before the replacement)
          ELSE IF AncOf(P, ParentsIn(P, t)) \cap direct # {} THEN rej("bad-txns-spends-conflicting-tx")
          ELSE IF ~bypass /\ STD /\ ~SpendsDustOf(t, ParentsIn(P, t)) THEN rej("missing-ephemeral-spends")
          ELSE IF ~ScriptsOK(t) THEN rej("script-failed")
          ELSE Res(TRUE, "ok", ev, dbg)

\* ------------------------------------------------------------------ pool maintenance
NormT(P, ET) == [t \in TxIds |-> IF t \in P THEN ET[t] ELSE 0]
ZeroF == [t \in TxIds |-> 0]
NoMF == [r |-> 0, b |-> FALSE]
\* CTxMemPool::Expire(T - Expiry): entries older than the cutoff go, with their descendants
ExpireSet(P, ET, T) == DescOf(P, {e \in P : ET[e] < T - Expiry})
\* ---- CTxMemPool::TrimToSize. Memory is measured per transaction by the harness (Meas[t].mem: what the entry adds to
\* DynamicMemoryUsage) and taken as additive; a decision closer than Ext.margin to the limit is flagged (tight): there the
\* real node may decide differently, the universe must be re-shaped.
Usage(P) == SumF(MEM_, P)
RECURSIVE MergeBackT(_)
MergeBackT(ch) == IF Len(ch) < 2 THEN ch
                  ELSE LET a == ch[Len(ch) - 1] b == ch[Len(ch)] IN
                       IF Higher(b, a) THEN MergeBackT(Append(SubSeq(ch, 1, Len(ch) - 2), [f |-> a.f + b.f, s |-> a.s + b.s, txs |-> a.txs \cup b.txs])) ELSE ch
RECURSIVE ChunksT(_, _)
ChunksT(D, L) == IF L = <<>> THEN <<>>
                 ELSE MergeBackT(Append(ChunksT(D, Front(L)), [f |-> MFee(D, L[Len(L)]), s |-> Weight(L[Len(L)]), txs |-> {L[Len(L)]}]))
ClusterChunksT(P, D, Cl) ==
  IF Cardinality(Cl) = 1 THEN LET t == CHOOSE x \in Cl : TRUE IN <<[f |-> MFee(D, t), s |-> Weight(t), txs |-> {t}]>>
  ELSE LET Ls == {L \in Perms(Cl) : Topo(P, L)}
           best == CHOOSE L \in Ls : \A M \in Ls : DiagGE(Cum(Chunks(D, L)), Cum(Chunks(D, M)))
       IN ChunksT(D, best)
\* GetWorstMainChunk: the chunk with the lowest feerate (the universes avoid ties)
WorstChunk(P, D) ==
  LET all == UNION {LET cs == ClusterChunksT(P, D, Cl) IN {cs[i] : i \in 1..Len(cs)} : Cl \in ClustersOf(P, P)}
  IN CHOOSE c \in all : DescOf(P, c.txs) = c.txs /\ \A d \in all : ~Higher(c, d)
\* the main order of the transaction graph (CompareMainOrder): chunks by decreasing feerate, a chunk's transactions in the order
\* of their cluster's linearization; this is the order of infoAll() and therefore of the dump
ClusterLin(P, D, Cl) ==
  IF Cardinality(Cl) = 1 THEN <<CHOOSE x \in Cl : TRUE>>
  ELSE LET Ls == {L \in Perms(Cl) : Topo(P, L)} IN CHOOSE L \in Ls : \A M \in Ls : DiagGE(Cum(Chunks(D, L)), Cum(Chunks(D, M)))
TaggedChunks(P, D) ==
  UNION {LET L == ClusterLin(P, D, Cl) cs == ChunksT(D, L) IN
         {[c |-> cs[i], lin |-> SelectSeq(L, LAMBDA x : x \in cs[i].txs)] : i \in 1..Len(cs)} : Cl \in ClustersOf(P, P)}
RECURSIVE SortTagged(_, _)
SortTagged(P, S) ==
  IF S = {} THEN <<>>
  ELSE LET m == CHOOSE x \in S : /\ \A y \in S : ~Higher(y.c, x.c)
                                  /\ UNION {ParentsIn(P, t) : t \in x.c.txs} \cap UNION {z.c.txs : z \in S \ {x}} = {}
       IN m.lin \o SortTagged(P, S \ {m})
MainOrder(P, D) == SortTagged(P, TaggedChunks(P, D))
VSofW(w) == (w + 3) \div 4
\* the feerate, in sat/kvB rounded down, that TrimToSize records for an evicted chunk: CFeeRate(fee, vsize) + incremental relay feerate
TrimRate(c) == (c.f * 1000) \div VSofW(c.s) + IncrRelay
RECURSIVE TrimR(_, _, _, _, _)
TrimR(P, D, MF, acc, tight) ==
  LET u == Usage(P)
      t2 == tight \/ (P # {} /\ u - MAXMEM < EXT.margin /\ MAXMEM - u < EXT.margin)
  IN IF P = {} \/ u <= MAXMEM THEN [p |-> P, mf |-> MF, trims |-> acc, tight |-> t2]
     ELSE LET w == WorstChunk(P, D)
              MF2 == IF TrimRate(w) > MF.r THEN [r |-> TrimRate(w), b |-> FALSE] ELSE MF      \* trackPackageRemoved
          IN TrimR(P \ w.txs, D, MF2, Append(acc, w), t2)
\* LimitMempoolSize: Expire, then TrimToSize
LimitSize(P, ET, D, MF, T) ==
  LET p1 == P \ ExpireSet(P, ET, T) IN
  IF MAXMEM = 0 THEN [p |-> p1, mf |-> MF, trims |-> <<>>, tight |-> FALSE] ELSE TrimR(p1, D, MF, <<>>, FALSE)
\* removeForBlock for one confirmed transaction: the entry itself (its descendants stay), then, input by input, whatever
\* still spends that input, recursively; prioritisation of the transaction and of the direct conflicts found is cleared
RECURSIVE RmConf(_, _, _, _)
RmConf(P, D, t, j) ==
  IF j > NIn(t) THEN [p |-> P, d |-> D]
  ELSE LET cs == {c \in P : InOp(t, j) \in InsSet(c)}
           ct == {TID_[c] : c \in cs}
       IN RmConf(P \ DescOf(P, cs), [x \in TxIds |-> IF x \in ct THEN 0 ELSE D[x]], t, j + 1)
RECURSIVE RmBlock(_, _, _)
RmBlock(P, D, txs) ==
  IF txs = <<>> THEN [p |-> P, d |-> D]
  ELSE LET t == Head(txs) r == RmConf(P \ TWINS_[t], D, t, 1)        \* the entry is found by txid
       IN RmBlock(r.p, [r.d EXCEPT ![TID_[t]] = 0], Tail(txs))
\* MaybeUpdateMempoolForReorg on chain C / view U: the queue re-enters in order through AcceptToMemoryPool(bypass_limits);
\* what fails takes its in-pool descendants with it; then removeForReorg (final, BIP68-final, mature; with descendants);
\* then LimitMempoolSize (expiry)
RECURSIVE ReAdd(_, _, _, _, _, _, _)
ReAdd(P, ET, U, C, D, q, T) ==
  IF q = <<>> THEN [p |-> P, et |-> ET]
  ELSE LET t == Head(q) v == Verdict(P, U, C, D, NoMF, t, TRUE) IN
       IF v.ok THEN ReAdd((P \ v.evict) \cup {t}, [ET EXCEPT ![t] = T], U, C, D, Tail(q), T)
       ELSE ReAdd(P \ (IF t \in P THEN DescOf(P, {t}) ELSE DescOf(P, ChildrenIn(P, t))), ET, U, C, D, Tail(q), T)
StillOK(P, U, C, e) ==
  /\ FinalNext(C, e)
  /\ SeqOKNext(C, e, [j \in 1..NIn(e) |-> CoinH(P, U, C, InOp(e, j))])
  /\ \A j \in 1..NIn(e) : InOp(e, j) \in DOMAIN U => ~(U[InOp(e, j)].cb /\ Height(C) + 1 - U[InOp(e, j)].h < Maturity)
AfterReorg(P, ET, U, C, D, q, T) ==
  LET r == ReAdd(P, ET, U, C, D, q, T)
      p1 == r.p \ DescOf(r.p, {e \in r.p : ~StillOK(r.p, U, C, e)})
      p2 == p1 \ ExpireSet(p1, r.et, T)
  IN [p |-> p2, et |-> NormT(p2, r.et)]

\* ------------------------------------------------------------------ packages (policy/packages.cpp, MemPoolAccept::AcceptPackage)
SeqToSet(s) == {s[i] : i \in 1..Len(s)}
\* IsTopoSortedPackage: no transaction spends an output of itself or of a later one; IsConsistentPackage: every transaction has an
\* input and no outpoint is spent by two different transactions; IsChildWithParents: every transaction but the last is a parent of the last
TopoSorted(pkg) == \A i \in 1..Len(pkg) : \A k \in i..Len(pkg) : TID_[pkg[k]] \notin INTID_[pkg[i]]
ConsistentPkg(pkg) == /\ \A i \in 1..Len(pkg) : NIn(pkg[i]) > 0
                      /\ \A i, k \in 1..Len(pkg) : i # k => InsSet(pkg[i]) \cap InsSet(pkg[k]) = {}
ChildWithParents(pkg) == Len(pkg) >= 2 /\ \A i \in 1..Len(pkg) - 1 : TID_[pkg[i]] \in INTID_[pkg[Len(pkg)]]
MaxPackageCount == 25
MaxPackageWeight == 404000
\* IsWellFormedPackage: "ok" or the reason of the first failing rule
WFWhy(pkg) ==
  IF Len(pkg) > MaxPackageCount THEN "package-too-many-transactions"
  ELSE IF Len(pkg) > 1 /\ SumS([i \in 1..Len(pkg) |-> Weight(pkg[i])]) > MaxPackageWeight THEN "package-too-large"
  ELSE IF Cardinality({TID_[pkg[i]] : i \in 1..Len(pkg)}) # Len(pkg) THEN "package-contains-duplicates"
  ELSE IF ~TopoSorted(pkg) THEN "package-not-sorted"
  ELSE IF ~ConsistentPkg(pkg) THEN "conflict-in-package"
  ELSE "ok"
\* what gates the evaluation of a submitted package
GateWhy(pkg) == IF WFWhy(pkg) # "ok" THEN WFWhy(pkg)
                ELSE IF Len(pkg) > 1 /\ ~ChildWithParents(pkg) THEN "package-not-child-with-parents" ELSE "ok"
TR(k, why) == [k |-> k, why |-> why]
\* failures after which a transaction is retried as part of the package: TX_RECONSIDERABLE (fee related) and TX_MISSING_INPUTS
Retry == {"mempool min fee not met", "min relay fee not met", "insufficient fee", "replacement-failed", "bad-txns-inputs-missingorspent"}
\* ---- first pass: every transaction on its own (AcceptSubPackage of one transaction, no LimitMempoolSize)
RECURSIVE PkgPass(_, _, _, _, _, _, _, _)
PkgPass(pkg, i, acc, U, C, D, MF, T) ==
  IF i > Len(pkg) THEN acc
  ELSE LET t == pkg[i] IN
       IF t \in acc.p THEN PkgPass(pkg, i + 1, [acc EXCEPT !.res = Append(@, TR("entry", "ok"))], U, C, D, MF, T)
       ELSE IF TWINS_[t] \cap acc.p # {} THEN PkgPass(pkg, i + 1, [acc EXCEPT !.res = Append(@, TR("diffwit", "ok"))], U, C, D, MF, T)
       ELSE LET v == Verdict(acc.p, U, C, D, MF, t, FALSE) IN
            IF v.ok THEN PkgPass(pkg, i + 1, [acc EXCEPT !.p = (@ \ v.evict) \cup {t}, !.et = [@ EXCEPT ![t] = T], !.ev = @ \cup v.evict,
                                                         !.res = Append(@, TR("valid", "ok"))], U, C, D, MF, T)
            ELSE IF Len(pkg) = 1 \/ v.why \notin Retry
                 THEN PkgPass(pkg, i + 1, [acc EXCEPT !.quit = TRUE, !.res = Append(@, TR("invalid", v.why))], U, C, D, MF, T)
            ELSE PkgPass(pkg, i + 1, [acc EXCEPT !.q = Append(@, t), !.res = Append(@, TR("invalid", v.why))], U, C, D, MF, T)
\* ---- AcceptMultipleTransactions(txs): result [why: "ok" or the package-level reason, bad: index in txs of the transaction a
\* result is reported for (0: none), badwhy, p: pool afterwards, ev: replaced]
RECURSIVE MultiPre(_, _, _, _, _, _, _, _, _)
MultiPre(P, U, C, D, MF, txs, i, X, dcs) ==
  IF i > Len(txs) THEN [ok |-> TRUE, bad |-> 0, why |-> "ok", dcs |-> dcs]
  ELSE LET pr == PreChk(P, U, C, D, MF, txs[i], FALSE, X, TRUE) IN
       IF ~pr.ok THEN [ok |-> FALSE, bad |-> i, why |-> pr.why, dcs |-> dcs]
       ELSE MultiPre(P, U, C, D, MF, txs, i + 1, X \cup OutsOf(txs[i]), Append(dcs, pr.dc))
\* policy/truc_policy.cpp PackageTRUCChecks for txs[i]
PkgTrucOK(P, txs, i) ==
  LET t == txs[i]
      par == ParentsIn(P, t)
      ipar == {k \in 1..i - 1 : TID_[txs[k]] \in INTID_[t]}
  IN IF V3(t)
     THEN /\ Cardinality(par) + Cardinality(ipar) + 1 <= 2
          /\ par # {} => Cardinality(AncOf(P, {CHOOSE x \in par : TRUE})) + Cardinality(ipar) + 1 <= 2
          /\ (par # {} \/ ipar # {}) =>
               LET ptid == IF par # {} THEN TID_[CHOOSE x \in par : TRUE] ELSE TID_[txs[CHOOSE k \in ipar : \A m \in ipar : k <= m]]
                   pv3 == IF par # {} THEN V3(CHOOSE x \in par : TRUE) ELSE V3(txs[CHOOSE k \in ipar : \A m \in ipar : k <= m])
               IN /\ VSize(t) <= 1000
                  /\ pv3
                  /\ \A k \in 1..Len(txs) : k # i => (ptid \notin INTID_[txs[k]] /\ TID_[t] \notin INTID_[txs[k]])
                  /\ par # {} => Cardinality(DescOf(P, par)) = 1
     ELSE /\ \A p \in par : ~V3(p)
          /\ \A k \in ipar : ~V3(txs[k])
MultiEval(P, U, C, D, MF, txs) ==
  LET fail(w, b, bw) == [why |-> w, bad |-> b, badwhy |-> bw, p |-> P, ev |-> {}]
      pre == MultiPre(P, U, C, D, MF, txs, 1, {}, <<>>)
      N == SeqToSet(txs)
      tv == SumS([i \in 1..Len(txs) |-> VSize(txs[i])])
      tf == SumS([i \in 1..Len(txs) |-> MFee(D, txs[i])])
      direct == UNION {pre.dcs[i] : i \in 1..Len(pre.dcs)}
      ev == DescOf(P, direct)
      evfees == SumF([x \in TxIds |-> MFee(D, x)], ev)
      newP == (P \ ev) \cup N
      last == Len(txs)
      \* parents of txs[i] for the dust rule: in the package (any position) or in the pool
      dustpar(i) == {txs[k] : k \in {k \in 1..Len(txs) : TID_[txs[k]] \in INTID_[txs[i]]}} \cup ParentsIn(P, txs[i])
  IN IF ~pre.ok THEN fail("transaction failed", pre.bad, pre.why)
     ELSE IF \E i \in 1..Len(txs) : ~PkgTrucOK(P, txs, i) THEN fail("TRUC-violation", 0, "none")
     \* CheckFeeRate on the package feerate; the failure is reported for the last transaction
     ELSE IF FeeAt(MinFeeOf(MF), tv) > 0 /\ tf < FeeAt(MinFeeOf(MF), tv) THEN fail("transaction failed", last, "mempool min fee not met")
     ELSE IF tf < FeeAt(MinRelay, tv) THEN fail("transaction failed", last, "min relay fee not met")
     \* PackageRBFChecks
     ELSE IF direct # {} /\ (Len(txs) # 2 \/ ~ChildWithParents(txs)) THEN fail("package RBF failed: package must be 1-parent-1-child", 0, "none")
     ELSE IF direct # {} /\ \E i \in 1..Len(txs) : ParentsIn(P, txs[i]) # {} THEN fail("package RBF failed: new transaction cannot have mempool ancestors", 0, "none")
     ELSE IF direct # {} /\ Cardinality(ClustersOf(P, direct)) > MaxReplClusters THEN fail("package RBF failed: too many potential replacements", 0, "none")
     ELSE IF direct # {} /\ (tf < evfees \/ tf - evfees < FeeAt(IncrRelay, tv)) THEN fail("package RBF failed: insufficient anti-DoS fees", 0, "none")
     ELSE IF direct # {} /\ ~ProdGT(tf, VSize(txs[1]), MFee(D, txs[1]), tv) THEN fail("package RBF failed: package feerate is less than or equal to parent feerate", 0, "none")
     ELSE IF direct # {} /\ ~ClusterOK(newP, N) THEN fail("too-large-cluster", 0, "none")
     ELSE IF direct # {} /\ ~ImprovesDiagramN(P, D, N, ev) THEN fail("package RBF failed: replacement-failed", 0, "none")
     ELSE IF ~ClusterOK(newP, N) THEN fail("too-large-cluster", 0, "none")
     ELSE IF STD /\ \E i \in 1..Len(txs) : ~SpendsDustOf(txs[i], dustpar(i))
          THEN fail("unspent-dust", CHOOSE i \in 1..Len(txs) : ~SpendsDustOf(txs[i], dustpar(i)) /\ \A k \in 1..i - 1 : SpendsDustOf(txs[k], dustpar(k)), "missing-ephemeral-spends")
     ELSE IF \E i \in 1..Len(txs) : ~ScriptsOK(txs[i])
          THEN fail("transaction failed", CHOOSE i \in 1..Len(txs) : ~ScriptsOK(txs[i]) /\ \A k \in 1..i - 1 : ScriptsOK(txs[k]), "script-failed")
     ELSE [why |-> "ok", bad |-> 0, badwhy |-> "none", p |-> newP, ev |-> ev]
\* ---- AcceptPackage: [why, txr: one result per position, p, et, mf, ev, trims, tight]
PkgEval(P, ET, U, C, D, MF, pkg, T) ==
  LET none == [i \in 1..Len(pkg) |-> TR("none", "none")]
      gate == GateWhy(pkg)
      pass == PkgPass(pkg, 1, [p |-> P, et |-> ET, ev |-> {}, res |-> <<>>, q |-> <<>>, quit |-> FALSE], U, C, D, MF, T)
      runm == ~pass.quit /\ pass.q # <<>>
      \* a single remaining transaction is evaluated on its own once more
      single == Len(pass.q) = 1
      sv == Verdict(pass.p, U, C, D, MF, pass.q[1], FALSE)
      mu == IF single THEN (IF sv.ok THEN [why |-> "ok", bad |-> 0, badwhy |-> "none", p |-> (pass.p \ sv.evict) \cup {pass.q[1]}, ev |-> sv.evict]
                            ELSE [why |-> "transaction failed", bad |-> 1, badwhy |-> sv.why, p |-> pass.p, ev |-> {}])
            ELSE MultiEval(pass.p, U, C, D, MF, pass.q)
      p1 == IF runm THEN mu.p ELSE pass.p
      et1 == [t \in TxIds |-> IF t \in p1 /\ t \notin pass.p THEN T ELSE pass.et[t]]
      lim == LimitSize(p1, et1, D, MF, T)
      inq(t) == runm /\ \E k \in 1..Len(pass.q) : pass.q[k] = t
      qidx(t) == CHOOSE k \in 1..Len(pass.q) : pass.q[k] = t
      \* the result AcceptMultipleTransactions (or the second single evaluation) reports for t, if any
      mres(t) == IF ~inq(t) THEN TR("none", "none")
                 ELSE IF mu.why = "ok" THEN TR("valid", "ok")
                 ELSE IF mu.bad = qidx(t) THEN TR("invalid", mu.badwhy) ELSE TR("none", "none")
      final(i) == LET t == pkg[i] m == mres(t) r == pass.res[i] IN
                  IF m.k # "none" THEN (IF m.k = "valid" /\ t \notin lim.p THEN TR("invalid", "mempool full") ELSE m)
                  ELSE IF r.k \in {"valid", "entry", "diffwit"} THEN (IF TWINS_[t] \cap lim.p = {} THEN TR("invalid", "mempool full") ELSE r)
                  ELSE r
      txr == [i \in 1..Len(pkg) |-> final(i)]
      evicted == \E i \in 1..Len(pkg) : txr[i] = TR("invalid", "mempool full")
      why0 == IF runm THEN mu.why ELSE IF pass.quit THEN "transaction failed" ELSE "ok"
  IN IF gate # "ok" THEN [why |-> gate, txr |-> none, p |-> P, et |-> ET, mf |-> MF, ev |-> {}, trims |-> <<>>, tight |-> FALSE]
     ELSE [why |-> IF evicted THEN "transaction failed" ELSE why0, txr |-> txr, p |-> lim.p, et |-> NormT(lim.p, et1), mf |-> lim.mf,
           ev |-> pass.ev \cup (IF runm THEN mu.ev ELSE {}), trims |-> lim.trims, tight |-> lim.tight]

\* ------------------------------------------------------------------ persistence (node/mempool_persist.cpp)
NoFile == [saved |-> FALSE, recs |-> <<>>, stray |-> {}, unb |-> {}]
\* a sequence of plain submissions at time T (the second node's existing entries; Prefill)
RECURSIVE SubmitFold(_, _, _, _, _, _, _, _)
SubmitFold(P, ET, U, C, D, MF, seq, T) ==
  IF seq = <<>> THEN [p |-> P, et |-> ET, mf |-> MF, tight |-> FALSE]
  ELSE LET t == Head(seq) v == Verdict(P, U, C, D, MF, t, FALSE) IN
       IF ~v.ok THEN SubmitFold(P, ET, U, C, D, MF, Tail(seq), T)
       ELSE LET p1 == (P \ v.evict) \cup {t} et1 == [ET EXCEPT ![t] = T] l == LimitSize(p1, et1, D, MF, T)
                r == SubmitFold(l.p, NormT(l.p, et1), U, C, D, l.mf, Tail(seq), T)
            IN [r EXCEPT !.tight = @ \/ l.tight]
\* LoadMempool's loop over the first records of the file: PrioritiseTransaction(delta), then AcceptToMemoryPool with the saved
\* time unless the entry is expired
RECURSIVE LoadRecs(_, _, _, _, _, _, _, _)
LoadRecs(P, ET, U, C, D, MF, recs, T) ==
  IF recs = <<>> THEN [p |-> P, et |-> ET, d |-> D, mf |-> MF]
  ELSE LET r == Head(recs)
           D1 == [D EXCEPT ![TID_[r.t]] = @ + r.d]
           v == Verdict(P, U, C, D1, MF, r.t, FALSE)
       IN IF ~(r.time > T - Expiry) \/ ~v.ok THEN LoadRecs(P, ET, U, C, D1, MF, Tail(recs), T)
          ELSE LET p1 == (P \ v.evict) \cup {r.t} et1 == [ET EXCEPT ![r.t] = r.time] l == LimitSize(p1, et1, D1, MF, T)
               IN LoadRecs(l.p, NormT(l.p, et1), U, C, D1, l.mf, Tail(recs), T)
\* how many complete records LoadMempool processes before the damage stops it
RecsRead(cut, n) == CASE cut.kind \in {"none", "deltas", "unb"} -> n
                      [] cut.kind = "rec" -> cut.k
                      [] cut.kind = "count" -> IF cut.k > 0 THEN n ELSE n + cut.k
                      [] OTHER -> 0                                        \* hdr, badver, ver1, keyflip: nothing is read
CutFits(cut, F) == LET n == Len(F.recs) IN
                   /\ cut.kind = "rec" => (cut.k <= n /\ (cut.k = n => cut.sub = "at"))
                   /\ cut.kind = "deltas" => F.stray # {}
                   /\ (cut.kind = "unb" /\ cut.sub = "mid") => F.unb # {}
                   /\ cut.kind = "count" => n + cut.k >= 0
\* truncations: the file is a strict prefix of what was written
Truncation(cut) == cut.kind \in {"hdr", "rec", "deltas", "unb"}
LoadEval(F, U, C, cut, exist, T) ==
  LET s0 == SubmitFold({}, ZeroF, U, C, ZeroF, NoMF, exist, T)
      r == LoadRecs(s0.p, s0.et, U, C, ZeroF, s0.mf, SubSeq(F.recs, 1, RecsRead(cut, Len(F.recs))), T)
      strayd(x) == IF \E s \in F.stray : s.t = x THEN (CHOOSE s \in F.stray : s.t = x).d ELSE 0
      d2 == IF cut.kind \in {"none", "unb"} THEN [x \in TxIds |-> r.d[x] + strayd(x)] ELSE r.d
      u2 == IF cut.kind = "none" THEN {t \in r.p : TWINS_[t] \cap F.unb # {}} ELSE {}
  IN [p |-> r.p, et |-> r.et, d |-> d2, mf |-> r.mf, unb |-> u2, ok |-> cut.kind = "none", existing |-> s0.p]

\* ------------------------------------------------------------------ actions
Ctr0 == [blk |-> 0, disc |-> 0, reorg |-> 0, prio |-> 0, tick |-> 0, exp |-> 0, pkg |-> 0, unb |-> 0, dump |-> 0, load |-> 0, pre |-> 0]
Init == /\ pool = {} /\ delta = ZeroF /\ etime = ZeroF
        /\ chain = <<>> /\ utxo = BaseUtxo /\ now = 0 /\ mf = NoMF /\ unb = {} /\ file = NoFile /\ ctr = Ctr0
        /\ lastAct = <<"init">> /\ lastRes = NoneRes

Submit(t) ==
  LET v == Verdict(pool, utxo, chain, delta, mf, t, FALSE) IN
  /\ IF v.ok
     THEN LET p1 == (pool \ v.evict) \cup {t}
              et1 == [etime EXCEPT ![t] = now]
              l == LimitSize(p1, et1, delta, mf, now)           \* LimitMempoolSize after Finalize
          IN /\ pool' = l.p /\ etime' = NormT(l.p, et1) /\ mf' = l.mf /\ unb' = unb \cap l.p
             /\ lastRes' = [(IF t \in l.p THEN v ELSE Res(FALSE, "mempool full", {}, v.dbg)) EXCEPT !.trims = l.trims, !.tight = l.tight]
     ELSE UNCHANGED <<pool, etime, mf, unb>> /\ lastRes' = v
  /\ UNCHANGED <<delta, chain, utxo, now, file, ctr>>
  /\ lastAct' = <<"submit", t>>

\* the verdict of Submit from the same state (the replaced list is only filled in when the replacement is carried out)
TestVerdict(t) == LET v == Verdict(pool, utxo, chain, delta, mf, t, FALSE) IN Res(v.ok, v.why, {}, v.dbg)
TestAccept(t) == /\ UNCHANGED <<state, ctr>> /\ lastAct' = <<"test", t>> /\ lastRes' = TestVerdict(t)

SubmitPackage(pkg) ==
  /\ ctr.pkg < EXT.maxpkg
  /\ LET r == PkgEval(pool, etime, utxo, chain, delta, mf, pkg, now) IN
     /\ pool' = r.p /\ etime' = r.et /\ mf' = r.mf /\ unb' = unb \cap r.p
     /\ lastRes' = [ok |-> r.why = "ok", why |-> r.why, evict |-> r.ev, pure |-> TRUE, dbg |-> NoDbg, trims |-> r.trims, tight |-> r.tight, txr |-> r.txr]
  /\ ctr' = [ctr EXCEPT !.pkg = @ + 1]
  /\ UNCHANGED <<delta, chain, utxo, now, file>>
  /\ lastAct' = <<"pkg", pkg>>

Prioritise(t, d) ==
  /\ ctr.prio < MaxPrio
  /\ delta' = [delta EXCEPT ![TID_[t]] = @ + d] /\ ctr' = [ctr EXCEPT !.prio = @ + 1]
  /\ UNCHANGED <<pool, etime, chain, utxo, now, mf, unb, file>>
  /\ lastAct' = <<"prio", t, d>> /\ lastRes' = NoneRes

MarkUnb(t) ==
  /\ ctr.unb < EXT.maxunb
  /\ unb' = unb \cup (TWINS_[t] \cap pool) /\ ctr' = [ctr EXCEPT !.unb = @ + 1]
  /\ UNCHANGED <<pool, delta, etime, chain, utxo, now, mf, file>>
  /\ lastAct' = <<"unb", t>> /\ lastRes' = NoneRes

Mine(L, dt) ==
  /\ ctr.blk < MaxBlocks /\ BlockOK(chain, utxo, L)
  /\ LET r == RmBlock(pool, delta, L) IN
     /\ pool' = r.p /\ delta' = r.d /\ etime' = NormT(r.p, etime) /\ unb' = unb \cap r.p
     /\ chain' = Append(chain, [txs |-> L, dt |-> dt]) /\ utxo' = Connect(chain, utxo, L)
  /\ mf' = [mf EXCEPT !.b = TRUE]
  /\ ctr' = [ctr EXCEPT !.blk = @ + 1] /\ UNCHANGED <<now, file>>
  /\ lastAct' = <<"mine", L, dt>> /\ lastRes' = NoneRes

\* (not after a Reorg: the node would then return to the block the reorg had displaced, which is equal-work and older)
Disconnect ==
  /\ ctr.disc < MaxDisc /\ chain # <<>> /\ ctr.reorg = 0
  /\ LET C1 == Front(chain) U1 == Replay(C1)
         r == AfterReorg(pool, etime, U1, C1, delta, chain[Len(chain)].txs, now)
     IN /\ chain' = C1 /\ utxo' = U1 /\ pool' = r.p /\ etime' = r.et /\ unb' = unb \cap r.p
  /\ ctr' = [ctr EXCEPT !.disc = @ + 1] /\ UNCHANGED <<delta, now, mf, file>>
  /\ lastAct' = <<"disconnect">> /\ lastRes' = NoneRes

InSeq(s, x) == \E i \in 1..Len(s) : s[i] = x
SelectNotIn(s, a, b) == SelectSeq(s, LAMBDA x : ~InSeq(a, x) /\ ~InSeq(b, x))
Reorg(LA, LB, dt) ==
  /\ ctr.reorg < MaxReorg /\ chain # <<>>
  /\ LET C0 == Front(chain) U0 == Replay(C0)
         CA == Append(C0, [txs |-> LA, dt |-> dt]) UA == Connect(C0, U0, LA)
         CB == Append(CA, [txs |-> LB, dt |-> dt]) UB == Connect(CA, UA, LB)
         rA == RmBlock(pool, delta, LA) rB == RmBlock(rA.p, rA.d, LB)
         q == SelectNotIn(chain[Len(chain)].txs, LA, LB)
         r == AfterReorg(rB.p, NormT(rB.p, etime), UB, CB, rB.d, q, now)
     IN /\ BlockOK(C0, U0, LA) /\ BlockOK(CA, UA, LB)
        /\ chain' = CB /\ utxo' = UB /\ pool' = r.p /\ etime' = r.et /\ delta' = rB.d /\ unb' = unb \cap r.p
  /\ mf' = [mf EXCEPT !.b = TRUE]
  /\ ctr' = [ctr EXCEPT !.reorg = @ + 1] /\ UNCHANGED <<now, file>>
  /\ lastAct' = <<"reorg", LA, LB, dt>> /\ lastRes' = NoneRes

\* (the decay of the rolling minimum feerate with time is not modelled: the clock stands still once something was trimmed)
Tick(d) ==
  /\ ctr.tick < MaxTicks /\ mf.r = 0 /\ now' = now + d /\ ctr' = [ctr EXCEPT !.tick = @ + 1]
  /\ UNCHANGED <<pool, delta, etime, chain, utxo, mf, unb, file>>
  /\ lastAct' = <<"tick", d>> /\ lastRes' = NoneRes

ExpireCall ==
  /\ ctr.exp < MaxExpire
  /\ LET p2 == pool \ ExpireSet(pool, etime, now) IN pool' = p2 /\ etime' = NormT(p2, etime) /\ unb' = unb \cap p2
  /\ ctr' = [ctr EXCEPT !.exp = @ + 1] /\ UNCHANGED <<delta, chain, utxo, now, mf, file>>
  /\ lastAct' = <<"expire">> /\ lastRes' = NoneRes

\* DumpMempool: entries in main order (parents before children) with entry time and fee delta, prioritisations of transactions outside the pool, unbroadcast set
Dump ==
  /\ ctr.dump < EXT.maxdump
  /\ LET ord == MainOrder(pool, delta) IN
     file' = [saved |-> TRUE, recs |-> [i \in 1..Len(ord) |-> [t |-> ord[i], time |-> etime[ord[i]], d |-> delta[TID_[ord[i]]]]],
              stray |-> {[t |-> x, d |-> delta[x]] : x \in {x \in TxIds : delta[x] # 0 /\ TWINS_[x] \cap pool = {}}}, unb |-> unb]
  /\ ctr' = [ctr EXCEPT !.dump = @ + 1] /\ UNCHANGED <<pool, delta, etime, chain, utxo, now, mf, unb>>
  /\ lastAct' = <<"dump">> /\ lastRes' = Res(TRUE, "ok", {}, NoDbg)

\* a second node on the same chain (empty pool, no prioritisation) submits `exist` and loads the file; the behaviour goes on there
Load(cut, exist) ==
  /\ ctr.load < EXT.maxload /\ file.saved /\ CutFits(cut, file)
  /\ LET r == LoadEval(file, utxo, chain, cut, exist, now) IN
     /\ pool' = r.p /\ etime' = r.et /\ delta' = r.d /\ mf' = r.mf /\ unb' = r.unb
     /\ lastRes' = [Res(r.ok, IF r.ok THEN "ok" ELSE "failed", {}, NoDbg) EXCEPT !.pure = TRUE] @@ [existing |-> r.existing]
  /\ ctr' = [ctr EXCEPT !.load = @ + 1] /\ UNCHANGED <<chain, utxo, now, file>>
  /\ lastAct' = <<"load", cut, exist>>

Prefill ==
  /\ LET r == SubmitFold(pool, etime, utxo, chain, delta, mf, EXT.prefill, now) IN
     /\ pool' = r.p /\ etime' = r.et /\ mf' = r.mf
     /\ lastRes' = [NoneRes EXCEPT !.tight = r.tight \/ r.p # SeqToSet(EXT.prefill)]
  /\ ctr' = [ctr EXCEPT !.pre = 1] /\ UNCHANGED <<delta, chain, utxo, now, unb, file>>
  /\ lastAct' = <<"prefill", EXT.prefill>>

Next == IF EXT.prefill # <<>> /\ ctr.pre = 0 THEN Prefill
        ELSE \/ \E t \in SUBMITSET_ : Submit(t)
             \/ \E t \in TESTSET_ : TestAccept(t)
             \/ \E pkg \in PKGS_ : SubmitPackage(pkg)
             \/ \E p \in PRIOSET_ : Prioritise(p[1], p[2])
             \/ \E t \in UNBS_ : MarkUnb(t)
             \/ \E L \in LISTS_, dt \in DTS_ : Mine(L, dt)
             \/ Disconnect
             \/ \E pr \in REORGS_, dt \in DTS_ : Reorg(pr[1], pr[2], dt)
             \/ \E d \in TICKS_ : Tick(d)
             \/ ExpireCall
             \/ Dump
             \/ \E cut \in CUTS_, ex \in EXISTS_ : Load(cut, ex)
Spec == Init /\ [][Next]_vars
\* scenario focus for the persistence configurations (an ACTION_CONSTRAINT): between the dump and the load only the clock moves, and the
\* history ends with the load, the dump comes after the prioritisations and unbroadcast marks
PersistFocus == /\ (ctr.dump = 1 /\ ctr.load = 0) => lastAct'[1] \in {"tick", "load"}
                /\ ctr.load = 0
                /\ lastAct'[1] = "dump" => (ctr.prio = MaxPrio /\ ctr.unb = EXT.maxunb)      \* the dump comes after the prioritisations and marks

\* quick tier: in addition the clock only moves after the dump
PersistFocusQ == PersistFocus /\ (ctr.dump = 0 => lastAct'[1] # "tick")
\* ------------------------------------------------------------------ C22: consistency and next-block validity
ConsistentIn(P, U) ==
  /\ \A t \in P : InsSet(t) \subseteq DOMAIN U \cup UNION {OutsOf(p) : p \in P \ {t}}      \* inputs unspent or from the pool
  /\ \A a, b \in P : a # b => InsSet(a) \cap InsSet(b) = {}                                 \* no output spent twice
  /\ \A t \in P : OutsOf(t) \cap DOMAIN U = {}
\* the whole pool, parents first, is a valid block on the tip: inputs, amounts, maturity, BIP68, scripts, finality
NextBlockValidIn(P, U, C) == BlockOK(C, U, TopoSeq(P))
Consistent == ConsistentIn(pool, utxo)
NextBlockValid == NextBlockValidIn(pool, utxo, chain)
UtxoIsReplay == utxo = Replay(chain)
Bookkeeping == /\ \A t \in TxIds \ pool : etime[t] = 0
               /\ \A t \in pool : etime[t] <= now
               /\ unb \subseteq pool
\* ------------------------------------------------------------------ C26: necessary conditions of every accepted replacement,
\* stated independently of Verdict's control flow
ReplacementSound(P, D, t, ev) ==
  LET direct == Direct(P, t) IN
  /\ ev = DescOf(P, direct)                                                                   \* exactly conflicts + descendants
  /\ MFee(D, t) >= SumF([x \in TxIds |-> MFee(D, x)], ev) + FeeAt(IncrRelay, VSize(t))        \* Rules 3 + 4
  /\ InTxs(t) \cap ev = {}                                                                     \* spends nothing it evicts
  /\ Cardinality(ClustersOf(P, direct)) <= MaxReplClusters                                     \* Rule 5
  /\ ImprovesDiagram(P, D, t)                                                                  \* strictly better diagram
ReplacementsSound ==
  [][(lastAct'[1] = "submit" /\ lastRes'.why \in {"ok", "mempool full"} /\ Direct(pool, lastAct'[2]) # {})
       => /\ ReplacementSound(pool, delta, lastAct'[2], Evicted(pool, lastAct'[2]))
          /\ lastRes'.ok => lastRes'.evict = Evicted(pool, lastAct'[2])
          /\ pool' \cap Evicted(pool, lastAct'[2]) = {}]_vars
\* the same for a package that was evaluated as one replacement (AcceptMultipleTransactions with conflicts): txs = the package
\* transactions evaluated together, P = the pool they were evaluated against, ev = what they replaced
PkgReplacementSound(P, D, txs, ev) ==
  LET N == SeqToSet(txs)
      direct == UNION {Direct(P, t) : t \in N}
  IN /\ ev = DescOf(P, direct)
     /\ SumF([x \in TxIds |-> MFee(D, x)], N) >= SumF([x \in TxIds |-> MFee(D, x)], ev) + FeeAt(IncrRelay, SumF([x \in TxIds |-> VSize(x)], N))
     /\ \A t \in N : ParentsIn(P, t) = {}                                                       \* no mempool ancestors: spends nothing it evicts
     /\ Cardinality(ClustersOf(P, direct)) <= MaxReplClusters                                   \* Rule 5, on the package as a whole
     /\ ImprovesDiagramN(P, D, N, ev)
\* the unit AcceptPackage evaluates together: what the first pass leaves over (model of the first pass on the pre-state)
PkgUnit(P, ET, U, C, D, MF, pkg, T) ==
  PkgPass(pkg, 1, [p |-> P, et |-> ET, ev |-> {}, res |-> <<>>, q |-> <<>>, quit |-> FALSE], U, C, D, MF, T)
PackageReplacementsSound ==
  [][(lastAct'[1] = "pkg" /\ GateWhy(lastAct'[2]) = "ok") =>
       LET u == PkgUnit(pool, etime, utxo, chain, delta, mf, lastAct'[2], now)
           evm == lastRes'.evict \ u.ev
       IN (~u.quit /\ Len(u.q) > 1 /\ evm # {} /\ SeqToSet(u.q) \subseteq pool' \cup evm)
            => PkgReplacementSound(u.p, delta, u.q, evm)]_vars
\* ------------------------------------------------------------------ C28: test-accept changes nothing and agrees with Submit
TestAcceptPure == [][lastAct'[1] = "test" => UNCHANGED state]_vars
\* Submit's answer from the same state; only the post-acceptance LimitMempoolSize step can turn an accepted
\* transaction into "mempool full"
TestAcceptFaithful ==
  [][lastAct'[1] = "submit" =>
       LET tv == TestVerdict(lastAct'[2]) IN
       \/ (lastRes'.ok = tv.ok /\ lastRes'.why = tv.why)
       \/ (lastRes'.why = "mempool full" /\ tv.ok)]_vars
\* C28 as stated: the only exemption is a full mempool. The model (like the node) does NOT satisfy this where LimitMempoolSize
\* expires an ancestor of the new transaction: known finding "testaccept-ignores-expiry-of-ancestor"; props/C28.py looks the
\* offending transitions up in the emitted graph and confirms them on the node.
TestAcceptFaithfulAsStated ==
  [][lastAct'[1] = "submit" =>
       LET tv == TestVerdict(lastAct'[2]) IN
       \/ (lastRes'.ok = tv.ok /\ lastRes'.why = tv.why)
       \/ (lastRes'.why = "mempool full" /\ tv.ok /\ lastRes'.trims # <<>>)]_vars

\* ------------------------------------------------------------------ C27: resource and topology limits
ClusterLimits == ClusterOK(pool, pool)
UsageBounded == MAXMEM = 0 \/ Usage(pool) <= MAXMEM
\* immediately after an eviction for space the minimum feerate is above the feerate of every evicted chunk (exact comparison:
\* minfee / 1000 > f / vsize)
MinFeeAboveEvicted ==
  [][\A i \in 1..Len(lastRes'.trims) : LET c == lastRes'.trims[i] IN ProdGT(MinFeeOf(mf'), VSofW(c.s), c.f, 1000)]_vars
\* no trim decision was closer to the limit than the margin (else the universe is ill-shaped, not the node wrong)
NoTightDecision == [][~lastRes'.tight]_vars
\* TRUC topology, with standardness on and no block disconnected so far
TrucTopologyIn(P) ==
  \A t \in P :
    IF V3(t) THEN /\ Cardinality(ParentsIn(P, t)) <= 1 /\ Cardinality(ChildrenIn(P, t)) <= 1
                  /\ \A x \in ParentsIn(P, t) \cup ChildrenIn(P, t) : V3(x)
                  /\ Cardinality(AncOf(P, {t})) <= 2 /\ Cardinality(DescOf(P, {t})) <= 2
                  /\ VSize(t) <= 10000 /\ (ParentsIn(P, t) # {} => VSize(t) <= 1000)
    ELSE \A x \in ParentsIn(P, t) \cup ChildrenIn(P, t) : ~V3(x)
TrucTopology == (STD /\ ctr.disc = 0 /\ ctr.reorg = 0) => TrucTopologyIn(pool)
\* ephemeral dust: whatever is accepted with a dust output has exactly one and pays nothing, before and after prioritisation;
\* a pool transaction with an unconfirmed parent that has dust spends the dust
DustAtAcceptance(P0, D, P1) == \A t \in P1 \ P0 : DustOuts(t) # {} => (Cardinality(DustOuts(t)) = 1 /\ Fee(t) = 0 /\ MFee(D, t) = 0)
DustZeroFee == [][(STD /\ lastAct'[1] \in {"submit", "pkg"}) => DustAtAcceptance(pool, delta, pool')]_vars
DustSpentIn(P) == \A c \in P : \A p \in ParentsIn(P, c) : DustOuts(p) \subseteq InsSet(c)
DustSpent == (STD /\ ctr.disc = 0 /\ ctr.reorg = 0) => DustSpentIn(pool)

\* ------------------------------------------------------------------ C29: packages
\* a package that is not well formed (or not child-with-parents) is not evaluated: no result for any transaction, nothing changes
PkgGateOK(pkg, res, P0, P1) == GateWhy(pkg) # "ok" => (~res.ok /\ P1 = P0 /\ \A i \in 1..Len(pkg) : res.txr[i].k = "none")
\* no package transaction is in the pool while one of its in-package parents is in neither the pool nor the UTXO set
PkgNoDangling(pkg, P1, U1) ==
  \A i \in 1..Len(pkg) : pkg[i] \in P1 =>
     \A j \in 1..NIn(pkg[i]) : (\E k \in 1..Len(pkg) : TID_[pkg[k]] = InOp(pkg[i], j)[1]) =>
        (TW(InOp(pkg[i], j)[1]) \cap P1 # {} \/ InOp(pkg[i], j) \in DOMAIN U1)
\* each reported result matches the final membership (by txid for the different-witness result)
PkgResultsMatch(pkg, res, P0, P1) ==
  \A i \in 1..Len(pkg) : LET t == pkg[i] k == res.txr[i].k IN
     /\ k \in {"valid", "entry"} => t \in P1
     /\ k = "diffwit" => (t \notin P1 /\ TWINS_[t] \cap P1 # {})
     /\ k = "invalid" => t \notin P1
     /\ k = "none" => (t \in P1 => t \in P0)
     /\ k = "entry" => t \in P0
PackagesSound ==
  [][lastAct'[1] = "pkg" => /\ PkgGateOK(lastAct'[2], lastRes', pool, pool')
                            /\ PkgNoDangling(lastAct'[2], pool', utxo')
                            /\ PkgResultsMatch(lastAct'[2], lastRes', pool, pool')]_vars

\* ------------------------------------------------------------------ C55: dump and reload
\* what a complete, undamaged load owes: every saved entry that is in the pool afterwards has its saved time, fee delta and
\* unbroadcast mark; no unexpired saved entry that Submit would accept in the resulting state is missing; the saved
\* prioritisations of absent transactions are there
RoundTripIn(F, P1, ET1, D1, UNB1, U, C, MF1, T, existing) ==
  /\ \A i \in 1..Len(F.recs) : LET r == F.recs[i] IN
        /\ (r.t \in P1 /\ r.t \notin existing) => (ET1[r.t] = r.time /\ D1[TID_[r.t]] = r.d /\ (r.t \in UNB1 <=> r.t \in F.unb))
        /\ (r.t \notin P1 /\ r.time > T - Expiry) => ~Verdict(P1, U, C, D1, MF1, r.t, FALSE).ok
  /\ \A s \in F.stray : D1[s.t] = s.d
\* a damaged file: existing entries stay, and what was added is a part of the saved entries that Submit accepts one after the
\* other in saved order
RECURSIVE AcceptableInOrder(_, _, _, _, _, _, _, _)
AcceptableInOrder(P, U, C, D, MF, recs, P1, T) ==
  IF recs = <<>> THEN TRUE
  ELSE LET r == Head(recs) D1 == [D EXCEPT ![TID_[r.t]] = @ + r.d] IN
       IF r.t \notin P1 \/ r.t \in P THEN AcceptableInOrder(P, U, C, D1, MF, Tail(recs), P1, T)
       ELSE LET v == Verdict(P, U, C, D1, MF, r.t, FALSE) IN
            v.ok /\ AcceptableInOrder((P \ v.evict) \cup {r.t}, U, C, D1, MF, Tail(recs), P1, T)
LoadSafeIn(F, existing, P1, U, C, T) ==
  /\ existing \subseteq P1
  /\ P1 \ existing \subseteq {F.recs[i].t : i \in 1..Len(F.recs)}
  /\ AcceptableInOrder(existing, U, C, ZeroF, NoMF, F.recs, P1, T)
LoadsSound ==
  [][lastAct'[1] = "load" =>
       LET cut == lastAct'[2] IN
       /\ Truncation(cut) => ~lastRes'.ok
       /\ cut.kind = "none" => (lastRes'.ok /\ RoundTripIn(file, pool', etime', delta', unb', utxo, chain, mf', now, lastRes'.existing))
       /\ cut.kind # "none" => LoadSafeIn(file, lastRes'.existing, pool', utxo, chain, now)]_vars

\* ------------------------------------------------------------------ emission
UtxoList(V) == {[t |-> o[1], i |-> o[2], v |-> V[o].v, h |-> V[o].h, cb |-> V[o].cb] : o \in DOMAIN V}
Entry(P, D, t) == [t |-> t, fee |-> Fee(t), mfee |-> MFee(D, t), vsize |-> VSize(t),
                   parents |-> ParentsIn(P, t), children |-> ChildrenIn(P, t)]
ObsOf(P, D, U, C, ET, MF, UNB) ==
                     [pool |-> P, entries |-> {Entry(P, D, t) : t \in P}, deltas |-> {[t |-> t, d |-> D[t]] : t \in {x \in TxIds : D[x] # 0}},
                      tsize |-> SumF([x \in TxIds |-> VSize(x)], P), tfee |-> SumF([x \in TxIds |-> Fee(x)], P),
                      height |-> Height(C), utxo |-> UtxoList(U),
                      minfee |-> MinFeeOf(MF), unb |-> UNB, times |-> {[t |-> t, time |-> ET[t]] : t \in P}]
Model == [pool |-> pool, delta |-> delta, etime |-> etime, chain |-> chain, now |-> now, mf |-> mf, unb |-> unb, file |-> file, ctr |-> ctr]
\* the node options this configuration stands for (compared by the driver with the options the node was started with)
NodeOpts == [minrelay |-> MinRelay, incr |-> IncrRelay, expiry |-> Expiry, maxrepl |-> MaxReplClusters, maxcluster |-> MaxClusterCount,
             std |-> EXT.std, maxclsize |-> EXT.maxclsize, maxmempool |-> EXT.maxmempool]
Proj == [model |-> Model, obs |-> ObsOf(pool, delta, utxo, chain, etime, mf, unb)]
Emit == VFEdgeK(View0, (IF TLCGet("level") = 1 THEN Proj @@ [opts |-> NodeOpts] ELSE [model |-> 0]), lastAct', lastRes', View0', Proj')
====
