---- MODULE MCO_fill ----
EXTENDS MempoolObs, Uni_fill
====
