---- MODULE MC_fill ----
EXTENDS Mempool, Uni_fill
====
