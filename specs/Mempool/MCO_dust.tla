---- MODULE MCO_dust ----
EXTENDS MempoolObs, Uni_dust
====
