---- MODULE PkgShape ----
(* C29, first sentence (engine E4): the context-free package predicates of policy/packages.cpp as TLA+ operators (defined in      *)
(* Mempool: WFWhy, TopoSorted, ConsistentPkg, ChildWithParents, GateWhy), tabulated over every sequence of the domain; the          *)
(* property's own wording (Evaluable) is stated independently and must coincide with the gate of AcceptPackage.                     *)
EXTENDS Mempool
CONSTANT ShapeDomain
VARIABLE pkgv
SInit == Init /\ pkgv \in ShapeDomain
SNext == UNCHANGED <<vars, pkgv>>
N == Len(pkgv)
Txids == {TID_[pkgv[i]] : i \in 1..N}
\* "free of duplicates and internal conflicts, topologically sorted, within the count and weight limits, and, when it has more
\* than one transaction, consists of one child and only parents of that child"
NoDuplicates == \A i, k \in 1..N : i # k => TID_[pkgv[i]] # TID_[pkgv[k]]
NoInternalConflicts == /\ \A i \in 1..N : NIn(pkgv[i]) > 0
                       /\ \A i, k \in 1..N : i < k => \A a \in 1..NIn(pkgv[i]) : \A b \in 1..NIn(pkgv[k]) : InOp(pkgv[i], a) # InOp(pkgv[k], b)
ParentsFirst == \A i, k \in 1..N : (\E a \in 1..NIn(pkgv[i]) : InOp(pkgv[i], a)[1] = TID_[pkgv[k]]) => k < i
WithinLimits == N <= 25 /\ (N > 1 => SumS([i \in 1..N |-> Weight(pkgv[i])]) <= 404000)
OneChildAndItsParents == N > 1 => \A i \in 1..N - 1 : \E a \in 1..NIn(pkgv[N]) : InOp(pkgv[N], a)[1] = TID_[pkgv[i]]
Evaluable == NoDuplicates /\ NoInternalConflicts /\ ParentsFirst /\ WithinLimits /\ OneChildAndItsParents
GateIsTheStatement == (GateWhy(pkgv) = "ok") <=> Evaluable
WellFormedIsConjunction == (WFWhy(pkgv) = "ok") <=> (NoDuplicates /\ NoInternalConflicts /\ ParentsFirst /\ WithinLimits)
PartsAgree == /\ TopoSorted(pkgv) <=> ParentsFirst
              /\ ConsistentPkg(pkgv) <=> NoInternalConflicts
EmitRow == VFRow([pkg |-> pkgv, wf |-> WFWhy(pkgv), cwp |-> ChildWithParents(pkgv), topo |-> TopoSorted(pkgv), cons |-> ConsistentPkg(pkgv),
                  gate |-> GateWhy(pkgv), dup |-> ~NoDuplicates])
====
