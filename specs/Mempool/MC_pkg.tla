---- MODULE MC_pkg ----
EXTENDS Mempool, Uni_pkg
====
