CONSTANTS
  TxU <- TxUDef
  BaseCoins <- BaseDef
  H0 = 110
  BaseDt = 1
  Lists <- NoLists
  ReorgPairs <- NoReorgs
  Dts = {1}
  SubmitSet <- Incr0Tx
  TestSet <- Incr0Tx
  PrioSet <- NoPrio
  Ticks <- NoTicks
  MaxBlocks = 0
  MaxDisc = 0
  MaxReorg = 0
  MaxPrio = 0
  MaxTicks = 0
  MaxExpire = 0
  MinRelay = 100
  IncrRelay = 0
  Expiry = 1209600
  MaxReplClusters = 100
  MaxClusterCount = 64
  Ext <- ExtNone
INIT Init
NEXT Next
VIEW View0
INVARIANTS Consistent NextBlockValid UtxoIsReplay Bookkeeping
PROPERTIES ReplacementsSound TestAcceptPure TestAcceptFaithful
ACTION_CONSTRAINT Emit
CHECK_DEADLOCK FALSE
