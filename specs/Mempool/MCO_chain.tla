---- MODULE MCO_chain ----
EXTENDS MempoolObs, Uni_chain
====
