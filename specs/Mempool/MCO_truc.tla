---- MODULE MCO_truc ----
EXTENDS MempoolObs, Uni_truc
====
