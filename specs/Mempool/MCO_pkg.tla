---- MODULE MCO_pkg ----
EXTENDS MempoolObs, Uni_pkg
====
