INIT InitObs
NEXT Stutter
INVARIANTS UsageWithinLimit
CHECK_DEADLOCK FALSE
