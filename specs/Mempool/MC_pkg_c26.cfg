CONSTANTS
  TxU <- TxUDef
  BaseCoins <- BaseDef
  H0 = 110
  BaseDt = 1
  Lists <- NoLists
  ReorgPairs <- NoReorgs
  Dts = {1}
  SubmitSet <- SubC26
  TestSet <- NoTx
  PrioSet <- NoPrio
  Ticks <- NoTicks
  MaxBlocks = 0
  MaxDisc = 0
  MaxReorg = 0
  MaxPrio = 0
  MaxTicks = 0
  MaxExpire = 0
  MinRelay = 100
  IncrRelay = 100
  Expiry = 1209600
  MaxReplClusters = 100
  MaxClusterCount = 64
  Ext <- ExtC26
INIT Init
NEXT Next
VIEW View0
INVARIANTS Consistent NextBlockValid UtxoIsReplay Bookkeeping ClusterLimits
PROPERTIES ReplacementsSound PackageReplacementsSound PackagesSound
ACTION_CONSTRAINT Emit
CHECK_DEADLOCK FALSE
