CONSTANTS
  MinRelay = 0
  IncrRelay = 100
  Expiry = 1209600
  MaxReplClusters = 100
  MaxClusterCount = 64
  Ext <- ExtStd
INIT Init
NEXT Next
CHECK_DEADLOCK FALSE
