---- MODULE Uni_persist ----
(* Scenario family "persist" (C55): four mature base coins of 100 000 sat (base tip 110), pay-to-pubkey outputs.   A parent and its  *)
(* child, a standalone transaction and a better-paying conflict of it that the loading node may already hold, a transaction that  *)
(* is only prioritised (never submitted), one that is acceptable only with its saved prioritisation. Clock jumps make entries      *)
(* expire between dump and load (the parent but not the child). The file is truncated at every record boundary, inside a record    *)
(* (transaction / time / fee delta), inside the prioritisation map and the unbroadcast set, and its framing fields are damaged.    *)
EXTENDS Integers, Sequences, UniCommon
F == [kind |-> "final", v |-> 0]
NoLock == [kind |-> "none", v |-> 0]
In(t, i) == [op |-> <<t, i>>, seq |-> F]
Out(v) == [v |-> v, cls |-> "key"]       \* pay-to-pubkey: every transaction of this universe carries a signature
Tx(ins, outs) == [ins |-> ins, outs |-> outs, ver |-> 2, lock |-> NoLock, pad |-> 0, twin |-> 0]
TxUDef == <<
  Tx(<<In(0,1)>>, <<Out(49500), Out(49500)>>),             \* 1: parent, fee 1000
  Tx(<<In(1,1)>>, <<Out(48500)>>),                         \* 2: child, fee 1000
  Tx(<<In(0,2)>>, <<Out(99000)>>),                         \* 3: standalone, fee 1000
  Tx(<<In(0,2)>>, <<Out(97000)>>),                         \* 4: conflicts with 3, fee 3000
  Tx(<<In(0,3)>>, <<Out(98000)>>),                         \* 5: only ever prioritised
  Tx(<<In(0,4)>>, <<Out(99990)>>)                          \* 6: fee 10: below the minimum relay fee without its prioritisation
>>
BaseDef == << [v |-> 100000, h |-> 1], [v |-> 100000, h |-> 2], [v |-> 100000, h |-> 3], [v |-> 100000, h |-> 4] >>
H0Def == 110
BaseDtDef == 1
AllTx == 1..6
SubQ == {1, 2, 3}
SubT == {1, 2, 3, 6}
NoTx == {}
NoLists == {}
NoReorgs == {}
NoTicks == {}
NoPrio == {}
ListsT == { <<1>> }
PrioQ == {<<5, 700>>, <<1, 300>>}
PrioT == {<<5, 700>>, <<6, 500>>, <<2, -100>>}
\* expiry is 1 209 600 s; an entry is reloaded if its time is later than now - expiry
TicksQ == {100, 1209600}
TicksT == {1209500, 100}
UnbQ == {1}
UnbT == {1, 3}
CutsQ == { NoCut, Cut("hdr", 0, "count"), Cut("rec", 1, "at"), Cut("rec", 1, "tx"), Cut("rec", 0, "delta"), Cut("unb", 0, "at"), Cut("badver", 0, "at"), Cut("count", 1, "at") }
CutsT == CutsQ \cup { Cut("hdr", 0, "ver"), Cut("hdr", 0, "key"), Cut("rec", 0, "at"), Cut("rec", 1, "delta"), Cut("rec", 2, "at"), Cut("rec", 0, "tx"), Cut("rec", 0, "time"), Cut("rec", 1, "time"), Cut("rec", 2, "tx"),
                       Cut("rec", 3, "at"), Cut("rec", 4, "at"), Cut("deltas", 0, "at"), Cut("unb", 0, "mid"), Cut("ver1", 0, "at"), Cut("keyflip", 0, "at"),
                       Cut("count", -1, "at") }
ExistQ == { <<>>, <<4>> }
ExistT == { <<>>, <<4>>, <<1>> }
\* a pool entry below the minimum relay fee: 6 entered with a prioritisation that was taken back afterwards; Submit would reject it at load
SubB == {6}
PrioB == {<<6, 500>>, <<6, -500>>}
CutsB == { NoCut, Cut("unb", 0, "at"), Cut("count", 1, "at") }
ExistB == { <<>> }
ExtB == [ExtNone EXCEPT !.maxdump = 1, !.cuts = CutsB, !.exist = ExistB, !.maxload = 1]
\* partial expiry: the clock also moves between the submissions
CutsE == { NoCut, Cut("rec", 1, "at"), Cut("rec", 2, "at"), Cut("unb", 0, "at") }
ExtE == [ExtNone EXCEPT !.maxdump = 1, !.cuts = CutsE, !.exist = ExistB, !.maxload = 1]
ExtQ == [ExtNone EXCEPT !.unbs = UnbQ, !.maxunb = 1, !.maxdump = 1, !.cuts = CutsQ, !.exist = ExistQ, !.maxload = 1]
ExtT == [ExtNone EXCEPT !.unbs = UnbT, !.maxunb = 1, !.maxdump = 1, !.cuts = CutsT, !.exist = ExistT, !.maxload = 1]
====
