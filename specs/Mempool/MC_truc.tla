---- MODULE MC_truc ----
EXTENDS Mempool, Uni_truc
====
