---- MODULE Uni_pkg ----
(* Scenario family "pkg" (C29): six mature base coins  of 100 000 sat (base tip 110; coin 4 is locked by P2WSH(OP_DROP OP_TRUE), *)
(* its spender has a same-txid-different-witness twin), bare OP_TRUE outputs. A zero-fee parent with well-paying children (CPFP    *)
(* through the package feerate), a child of two parents, a grandchild, a conflicting pair, a 1-parent-1-child package that         *)
(* replaces a pool transaction (sufficient / insufficient fees), a child that pays too little, a child whose script fails,          *)
(* a package parent that replaces a pool ancestor of an earlier package parent (evicting it after its result was recorded).       *)
EXTENDS Integers, Sequences, UniCommon
F == [kind |-> "final", v |-> 0]
NoLock == [kind |-> "none", v |-> 0]
In(t, i) == [op |-> <<t, i>>, seq |-> F]
Out(v) == [v |-> v, cls |-> "true"]
Tx(ins, outs) == [ins |-> ins, outs |-> outs, ver |-> 2, lock |-> NoLock, pad |-> 0, twin |-> 0]
Twin(k) == [ins |-> <<>>, outs |-> <<>>, ver |-> 2, lock |-> NoLock, pad |-> 0, twin |-> k]
TxUDef == <<
  Tx(<<In(0,1)>>, <<Out(50000), Out(50000)>>),             \*  1: A, pays nothing
  Tx(<<In(1,1)>>, <<Out(47000)>>),                         \*  2: B, child of A paying 3000
  Tx(<<In(0,2)>>, <<Out(99000)>>),                         \*  3: C, ordinary parent, fee 1000
  Tx(<<In(1,2), In(3,1)>>, <<Out(146000)>>),               \*  4: D, child of A and C, fee 3000
  Tx(<<In(2,1)>>, <<Out(46000)>>),                         \*  5: E, grandchild of A
  Tx(<<In(0,1)>>, <<Out(99990)>>),                         \*  6: conflicts with A, fee 10
  Tx(<<In(0,3)>>, <<Out(99000)>>),                         \*  7: X, fee 1000: the pool transaction a package replaces
  Tx(<<In(0,3)>>, <<Out(99900)>>),                         \*  8: conflicts with X, fee 100: alone it fails Rule 3
  Tx(<<In(8,1)>>, <<Out(95000)>>),                         \*  9: its child paying 4900: the package replaces X
  Tx(<<In(8,1)>>, <<Out(99000)>>),                         \* 10: its child paying 900: the package does not pay for the replacement
  Tx(<<In(0,4)>>, <<Out(99000)>>),                         \* 11: W, spends the P2WSH(OP_DROP OP_TRUE) coin
  Twin(11),                                                \* 12: W with another witness: same txid
  Tx(<<In(11,1)>>, <<Out(98000)>>),                        \* 13: child of W
  Tx(<<In(3,1)>>, <<Out(98990)>>),                         \* 14: child of C paying 10: below the minimum relay fee
  Tx(<<In(0,5)>>, <<[v |-> 50000, cls |-> "fail"], Out(49000)>>),   \* 15: has an output that cannot be spent
  Tx(<<In(15,1)>>, <<Out(49000)>>),                        \* 16: tries to
  Tx(<<In(3,1)>>, <<Out(98000)>>),                         \* 17: child of C paying 1000 (accepted on its own; expires with an old C)
  Tx(<<In(0,6)>>, <<Out(50000), Out(49000)>>),             \* 18: A2, a pool transaction outside the packages, fee 1000
  Tx(<<In(18,1)>>, <<Out(49000)>>),                        \* 19: P1, package parent that descends from A2, fee 1000
  Tx(<<In(0,6)>>, <<Out(95000)>>),                         \* 20: P2, package parent that replaces A2 (and with it P1), fee 5000
  Tx(<<In(19,1), In(20,1)>>, <<Out(140000)>>)              \* 21: child of P1 and P2: its parent P1 is gone by the time it is evaluated
>>
BaseDef == << [v |-> 100000, h |-> 1, cls |-> "key"], [v |-> 100000, h |-> 2, cls |-> "key"], [v |-> 100000, h |-> 3, cls |-> "key"],
              [v |-> 100000, h |-> 4, cls |-> "wdrop"], [v |-> 100000, h |-> 5, cls |-> "key"], [v |-> 100000, h |-> 6, cls |-> "key"] >>
H0Def == 110
BaseDtDef == 1
AllTx == 1..21
SubQ == {3, 7, 12, 18, 19}
SubT == {3, 7, 11, 12, 15, 2, 18, 19}
NoTx == {}
NoLists == {}
NoTicks == {}
\* expiry is 1 209 600 s
TicksDef == {1209601}
NoReorgs == {}
NoPrio == {}
ListsT == { <<1>> }
PkgsQ == { <<1, 2>>, <<1, 3, 4>>, <<1, 2, 5>>, <<2, 1>>, <<1, 6>>, <<3, 4>>, <<8, 9>>, <<8, 10>>, <<11, 13>>, <<3, 14>>, <<15, 16>>, <<1, 1>>, <<3, 17>>, <<19, 20, 21>> }
PkgsT == PkgsQ \cup { <<1>>, <<3>>, <<12, 13>>, <<11, 12>>, <<6, 2>>, <<1, 3, 4, 2>>, <<3, 1, 4>>, <<5>> }
ExtQ == [ExtNone EXCEPT !.pkgs = PkgsQ, !.maxpkg = 1]
\* C26: the packages that conflict with the pool
SubC26 == {3, 7}
PkgsC26 == { <<8, 9>>, <<8, 10>>, <<1, 2>>, <<1, 6>> }
ExtC26 == [ExtNone EXCEPT !.pkgs = PkgsC26, !.maxpkg = 2]
ExtT == [ExtNone EXCEPT !.pkgs = PkgsT, !.maxpkg = 2]
====
