---- MODULE MempoolObs ----
(* Deviation handling (DESIGN 8). The node's result or state after a replayed step differed from the deterministic         *)
(* prediction of Mempool. TLC evaluates what the properties state on the OBSERVED transition. Each line of env OBS:        *)
(*   {pre:  model state before the step (the node agreed with it): {pool, delta, etime, chain, now, mf, unb, file, ctr},   *)
(*    act:  the action, res: the node's result {ok, why, evict, pure [, txr] [, @load: {before, order}]},                   *)
(*    exp:  the model's state after the step, post: the node's projection after the step                                   *)
(*          {pool, entries:[{t,fee,mfee,vsize,parents,children}], deltas:[{t,d}], tsize, tfee, height, utxo:[{t,i,v,h,cb}], *)
(*           usage, maxusage, minfee, unb, times:[{t,time}]}}                                                               *)
EXTENDS Mempool
ObsLines == ndJsonDeserialize(IOEnv.OBS)
VARIABLE idx
ToSet(s) == {s[i] : i \in 1..Len(s)}
FileOf(f) == [saved |-> f.saved, recs |-> f.recs, stray |-> ToSet(f.stray), unb |-> ToSet(f.unb)]
InitObs == /\ idx \in 1..Len(ObsLines)
           /\ pool = ToSet(ObsLines[idx].pre.pool) /\ delta = ObsLines[idx].pre.delta /\ etime = ObsLines[idx].pre.etime
           /\ chain = ObsLines[idx].pre.chain /\ utxo = Replay(ObsLines[idx].pre.chain) /\ now = ObsLines[idx].pre.now
           /\ mf = ObsLines[idx].pre.mf /\ unb = ToSet(ObsLines[idx].pre.unb) /\ file = FileOf(ObsLines[idx].pre.file)
           /\ ctr = ObsLines[idx].pre.ctr /\ lastAct = <<"observed", idx>> /\ lastRes = NoneRes
Stutter == UNCHANGED <<vars, idx>>
Line == ObsLines[idx]
Post == Line.post
Act == Line.act
PostPool == ToSet(Post.pool)
PostEntries == ToSet(Post.entries)
PostUtxo == LET S == ToSet(Post.utxo) IN
            [o \in {<<c.t, c.i>> : c \in S} |-> LET c == CHOOSE c \in S : c.t = o[1] /\ c.i = o[2] IN Coin(c.v, c.h, c.cb)]
PostDelta == [t \in TxIds |-> IF \E d \in ToSet(Post.deltas) : d.t = t THEN (CHOOSE d \in ToSet(Post.deltas) : d.t = t).d ELSE 0]
PostTimes == [t \in TxIds |-> IF \E d \in ToSet(Post.times) : d.t = t THEN (CHOOSE d \in ToSet(Post.times) : d.t = t).time ELSE 0]
PostUnb == ToSet(Post.unb)
ExpChain == Line.exp.chain
\* the confirmed state is the one the (valid) blocks of the behaviour define: what the mempool is judged against
ObsChain == Post.height = Height(ExpChain) /\ PostUtxo = Replay(ExpChain)
\* ---- C22
ObsKnown == PostPool \subseteq TxIds /\ {e.t : e \in PostEntries} = PostPool
ObsConsistent == ObsKnown => ConsistentIn(PostPool, PostUtxo)
ObsNextBlockValid == (ObsKnown /\ ObsChain) => NextBlockValidIn(PostPool, PostUtxo, ExpChain)
ObsLinks == ObsKnown => \A e \in PostEntries : /\ ToSet(e.parents) = ParentsIn(PostPool, e.t)
                                               /\ ToSet(e.children) = ChildrenIn(PostPool, e.t)
ObsTotals == ObsKnown => /\ \A e \in PostEntries : e.fee = Fee(e.t) /\ e.vsize = VSize(e.t) /\ e.mfee = Fee(e.t) + PostDelta[TID_[e.t]]
                         /\ Post.tsize = SumF([x \in TxIds |-> VSize(x)], PostPool)
                         /\ Post.tfee = SumF([x \in TxIds |-> Fee(x)], PostPool)
\* ---- C26: whatever the node accepted as a replacement satisfies the necessary conditions in the state it was submitted to,
\* it evicted exactly the conflicts and their descendants, and a rejected transaction evicted nothing
ObsReplacement ==
  (Act[1] = "submit" /\ Line.res.ok) =>
     LET t == Act[2] ev == ToSet(Line.res.evict) IN
     IF Direct(pool, t) = {} THEN ev = {}
     ELSE ReplacementSound(pool, delta, t, ev) /\ PostPool \cap ev = {}
ObsRejectNoEvict == (Act[1] = "submit" /\ ~Line.res.ok /\ Line.res.why # "mempool full") => pool \subseteq PostPool
\* a package the node accepted as one replacement satisfies the package form of the conditions (Rule 5 on the package as a whole)
ObsPkgReplacement ==
  (Act[1] = "pkg" /\ GateWhy(Act[2]) = "ok" /\ ToSet(Line.res.evict) # {}) =>
     LET u == PkgUnit(pool, etime, utxo, chain, delta, mf, Act[2], now)
         evm == ToSet(Line.res.evict) \ u.ev
     IN (~u.quit /\ Len(u.q) > 1 /\ evm # {} /\ SeqToSet(u.q) \subseteq PostPool)
          => (PkgReplacementSound(u.p, delta, u.q, evm) /\ PostPool \cap evm = {})
\* ---- C28: what passes the standard script checks passes the consensus script checks (ConsensusScriptChecks never fails)
ObsPolicyImpliesConsensus == Act[1] \in {"submit", "test"} => Line.res.why # "consensus-script-failed"
\* ---- C28: a test-accept changes nothing
ObsTestPure == Act[1] = "test" => (Line.res.pure /\ PostPool = pool /\ PostDelta = delta)

\* ---- C27
NoDisconnectSoFar == Line.pre.ctr.disc = 0 /\ Line.pre.ctr.reorg = 0 /\ Act[1] \notin {"disconnect", "reorg"}
\* memory (bytes, as the node counts them) within the node's limit after every step
ObsUsage == Post.maxusage = 0 \/ Post.usage <= Post.maxusage
ObsClusterLimits == ObsKnown => ClusterOK(PostPool, PostPool)
\* the transactions this call put into the pool (possibly to be trimmed away again at once)
Added == IF Act[1] = "submit" THEN (IF Line.res.ok \/ Line.res.why = "mempool full" THEN {Act[2]} ELSE {})
         ELSE IF Act[1] = "pkg" THEN {Act[2][i] : i \in {i \in 1..Len(Act[2]) : Line.res.txr[i].k = "valid" \/ Line.res.txr[i].why = "mempool full"}}
         ELSE {}
\* evicted for space: gone, but neither replaced nor expired (the scenarios with a reachable limit do not advance the clock)
PreTrim == (pool \ ToSet(Line.res.evict)) \cup Added
SpaceEvicted == (PreTrim \ PostPool) \ ExpireSet(PreTrim, [t \in TxIds |-> IF t \in Added THEN now ELSE etime[t]], now)
ObsMinFeeAboveEvicted ==
  (ObsKnown /\ Act[1] \in {"submit", "pkg"} /\ Post.maxusage # 0 /\ SpaceEvicted # {}) =>
     \A Cl \in ClustersOf(PreTrim, SpaceEvicted) :
        LET cs == ClusterChunksT(PreTrim, delta, Cl) IN
        \A i \in 1..Len(cs) : cs[i].txs \cap SpaceEvicted # {} => ProdGT(Post.minfee, VSofW(cs[i].s), cs[i].f, 1000)
ObsTruc == (ObsKnown /\ STD /\ NoDisconnectSoFar) => TrucTopologyIn(PostPool)
ObsDust == (ObsKnown /\ STD /\ NoDisconnectSoFar) =>
              /\ Act[1] \in {"submit", "pkg"} => DustAtAcceptance(pool, delta, PostPool)
              /\ DustSpentIn(PostPool)

\* ---- C29
ObsPkgShape == Act[1] = "pkg" => Len(Line.res.txr) = Len(Act[2])
ObsPkgGate == (Act[1] = "pkg" /\ ObsPkgShape) => PkgGateOK(Act[2], Line.res, pool, PostPool)
ObsPkgNoDangling == (Act[1] = "pkg" /\ ObsKnown) => PkgNoDangling(Act[2], PostPool, PostUtxo)
ObsPkgResults == (Act[1] = "pkg" /\ ObsPkgShape) => PkgResultsMatch(Act[2], Line.res, pool, PostPool)

\* ---- C55
LoadInfo == Line.res["@load"]
Existing == ToSet(LoadInfo.before.pool)
\* the saved entries in the order the node wrote them
FileObs == LET ord == LoadInfo.order IN
           [file EXCEPT !.recs = [i \in 1..Len(ord) |-> CHOOSE r \in ToSet(file.recs) : TID_[r.t] = ord[i]]]
\* the file holds exactly the saved pool, parents before children
ObsDumpOrder == Act[1] = "load" =>
                  LET ord == LoadInfo.order IN
                  /\ Len(ord) = Len(file.recs) /\ ToSet(ord) = {TID_[file.recs[i].t] : i \in 1..Len(file.recs)}
                  /\ \A i, k \in 1..Len(ord) : (ord[k] \in INTID_[ord[i]]) => k < i
                  /\ Line.res.why # "file-order-not-topological"
ObsLoadTruncated == (Act[1] = "load" /\ Truncation(Act[2])) => ~Line.res.ok
ObsLoadRoundTrip == (Act[1] = "load" /\ Act[2].kind = "none" /\ ObsKnown) =>
                       /\ Line.res.ok
                       /\ RoundTripIn(file, PostPool, PostTimes, PostDelta, PostUnb, utxo, chain, NoMF, now, Existing)
ObsLoadSafe == (Act[1] = "load" /\ ObsKnown /\ ObsDumpOrder) => LoadSafeIn(FileObs, Existing, PostPool, utxo, chain, now)
ObsDumpOk == Act[1] = "dump" => Line.res.ok
====
