---- MODULE MempoolObs ----
(* Deviation handling (DESIGN 8). The node's result or state after a replayed step differed from the deterministic         *)
(* prediction of Mempool. TLC evaluates what the properties state on the OBSERVED transition. Each line of env OBS:        *)
(*   {pre:  model state before the step (the node agreed with it): {pool, delta, etime, chain, now},                       *)
(*    act:  the action, res: the node's result {ok, why, evict, pure},                                                     *)
(*    exp:  the model's state after the step, post: the node's projection after the step                                   *)
(*          {pool, entries:[{t,fee,mfee,vsize,parents,children}], deltas:[{t,d}], tsize, tfee, height, utxo:[{t,i,v,h,cb}]}} *)
EXTENDS Mempool
ObsLines == ndJsonDeserialize(IOEnv.OBS)
VARIABLE idx
ToSet(s) == {s[i] : i \in 1..Len(s)}
InitObs == /\ idx \in 1..Len(ObsLines)
           /\ pool = ToSet(ObsLines[idx].pre.pool) /\ delta = ObsLines[idx].pre.delta /\ etime = ObsLines[idx].pre.etime
           /\ chain = ObsLines[idx].pre.chain /\ utxo = Replay(ObsLines[idx].pre.chain) /\ now = ObsLines[idx].pre.now
           /\ ctr = Ctr0 /\ lastAct = <<"observed", idx>> /\ lastRes = NoneRes
Stutter == UNCHANGED <<vars, idx>>
Line == ObsLines[idx]
Post == Line.post
Act == Line.act
PostPool == ToSet(Post.pool)
PostEntries == ToSet(Post.entries)
PostUtxo == LET S == ToSet(Post.utxo) IN
            [o \in {<<c.t, c.i>> : c \in S} |-> LET c == CHOOSE c \in S : c.t = o[1] /\ c.i = o[2] IN Coin(c.v, c.h, c.cb)]
PostDelta == [t \in TxIds |-> IF \E d \in ToSet(Post.deltas) : d.t = t THEN (CHOOSE d \in ToSet(Post.deltas) : d.t = t).d ELSE 0]
ExpChain == Line.exp.chain
\* the confirmed state is the one the (valid) blocks of the behaviour define: what the mempool is judged against
ObsChain == Post.height = Height(ExpChain) /\ PostUtxo = Replay(ExpChain)
\* ---- C22
ObsKnown == PostPool \subseteq TxIds /\ {e.t : e \in PostEntries} = PostPool
ObsConsistent == ObsKnown => ConsistentIn(PostPool, PostUtxo)
ObsNextBlockValid == (ObsKnown /\ ObsChain) => NextBlockValidIn(PostPool, PostUtxo, ExpChain)
ObsLinks == ObsKnown => \A e \in PostEntries : /\ ToSet(e.parents) = ParentsIn(PostPool, e.t)
                                               /\ ToSet(e.children) = ChildrenIn(PostPool, e.t)
ObsTotals == ObsKnown => /\ \A e \in PostEntries : e.fee = Fee(e.t) /\ e.vsize = VSize(e.t) /\ e.mfee = Fee(e.t) + PostDelta[e.t]
                         /\ Post.tsize = SumF([x \in TxIds |-> VSize(x)], PostPool)
                         /\ Post.tfee = SumF([x \in TxIds |-> Fee(x)], PostPool)
\* ---- C26: whatever the node accepted as a replacement satisfies the necessary conditions in the state it was submitted to,
\* it evicted exactly the conflicts and their descendants, and a rejected transaction evicted nothing
ObsReplacement ==
  (Act[1] = "submit" /\ Line.res.ok) =>
     LET t == Act[2] ev == ToSet(Line.res.evict) IN
     IF Direct(pool, t) = {} THEN ev = {}
     ELSE ReplacementSound(pool, delta, t, ev) /\ PostPool \cap ev = {}
ObsRejectNoEvict == (Act[1] = "submit" /\ ~Line.res.ok /\ Line.res.why # "mempool full") => pool \subseteq PostPool
\* ---- C28: what passes the standard script checks passes the consensus script checks (ConsensusScriptChecks never fails)
ObsPolicyImpliesConsensus == Act[1] \in {"submit", "test"} => Line.res.why # "consensus-script-failed"
\* ---- C28: a test-accept changes nothing
ObsTestPure == Act[1] = "test" => (Line.res.pure /\ PostPool = pool /\ PostDelta = delta)
====
