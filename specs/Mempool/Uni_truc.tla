---- MODULE Uni_truc ----
(* Scenario family "truc" (C27), standardness rules on: five mature P2PK base coins of 100 000 sat (base tip 110), outputs are  *)
(* P2WSH(OP_TRUE). A version-3 parent with two outputs, children / siblings / a grandchild / a non-TRUC child, the size caps    *)
(* TRUC_CHILD_MAX_VSIZE = 1000 and TRUC_MAX_VSIZE = 10000 at +0 / +1 virtual byte (the driver's vacuity guard checks the        *)
(* measured sizes), a child of two TRUC parents, sibling eviction with a sufficient and an insufficient fee, a direct           *)
(* replacement of the only child, and a zero-fee TRUC parent that only enters through a package.                                 *)
EXTENDS Integers, Sequences, UniCommon
F == [kind |-> "final", v |-> 0]
NoLock == [kind |-> "none", v |-> 0]
In(t, i) == [op |-> <<t, i>>, seq |-> F]
Out(v) == [v |-> v, cls |-> "wtrue"]
Tx(ver, ins, outs, pad) == [ins |-> ins, outs |-> outs, ver |-> ver, lock |-> NoLock, pad |-> pad, twin |-> 0]
TxUDef == <<
  Tx(3, <<In(0,1)>>, <<Out(49500), Out(49500)>>, 0),       \*  1: P, TRUC parent, fee 1000
  Tx(3, <<In(1,1)>>, <<Out(49000)>>, 0),                   \*  2: C1, TRUC child of P, fee 500
  Tx(3, <<In(1,2)>>, <<Out(48000)>>, 0),                   \*  3: C2, second child: evicts its sibling C1 (fee 1500)
  Tx(3, <<In(1,2)>>, <<Out(49400)>>, 0),                   \*  4: C3, second child paying 100: sibling eviction fails Rule 3
  Tx(3, <<In(2,1)>>, <<Out(48500)>>, 0),                   \*  5: grandchild of P: too many ancestors
  Tx(2, <<In(1,2)>>, <<Out(49000)>>, 0),                   \*  6: non-TRUC child of the TRUC parent
  Tx(2, <<In(0,2)>>, <<Out(49500), Out(49500)>>, 0),       \*  7: Q, non-TRUC parent
  Tx(3, <<In(7,1)>>, <<Out(49000)>>, 0),                   \*  8: TRUC child of a non-TRUC parent
  Tx(3, <<In(1,2)>>, <<Out(46000)>>, 860),                 \*  9: child of P of 1001 vB
  Tx(3, <<In(1,2)>>, <<Out(46000)>>, 859),                 \* 10: child of P of 1000 vB, fee 3500
  Tx(3, <<In(0,3)>>, <<Out(80000)>>, 9790),                \* 11: TRUC transaction of 10001 vB
  Tx(3, <<In(0,3)>>, <<Out(80000)>>, 9789),                \* 12: TRUC transaction of 10000 vB
  Tx(3, <<In(0,4)>>, <<Out(99000)>>, 0),                   \* 13: R, another TRUC parent
  Tx(3, <<In(1,2), In(13,1)>>, <<Out(147000)>>, 0),        \* 14: child of two TRUC parents
  Tx(3, <<In(1,1)>>, <<Out(47000)>>, 0),                   \* 15: replaces C1 directly (same input), fee 2500
  Tx(2, <<In(7,2)>>, <<Out(49000)>>, 0),                   \* 16: non-TRUC child of Q
  Tx(3, <<In(0,5)>>, <<Out(50000), Out(50000)>>, 0),       \* 17: P0, TRUC parent paying nothing: only through a package
  Tx(3, <<In(17,1)>>, <<Out(48000)>>, 0),                  \* 18: TRUC child of P0 paying for both
  Tx(2, <<In(17,1)>>, <<Out(48000)>>, 0),                  \* 19: non-TRUC child of P0
  Tx(3, <<In(17,1)>>, <<Out(40000)>>, 860),                \* 20: TRUC child of P0 of 1001 vB
  Tx(3, <<In(17,2)>>, <<Out(48000)>>, 0)                   \* 21: second TRUC child of P0
>>
BaseDef == << [v |-> 100000, h |-> 1], [v |-> 100000, h |-> 2], [v |-> 100000, h |-> 3], [v |-> 100000, h |-> 4], [v |-> 100000, h |-> 5] >>
H0Def == 110
BaseDtDef == 1
AllTx == 1..21
CoreTx == {1, 2, 3, 4, 5, 6, 9, 10, 15}
NoTx == {}
NoLists == {}
NoTicks == {}
NoReorgs == {}
NoPrio == {}
ListsQ == { <<1>> }
ListsT == { <<1>>, <<1, 2>>, <<7>> }
PkgsQ == { <<17, 18>>, <<17, 19>>, <<1, 2>> }
PkgsT == { <<17, 18>>, <<17, 19>>, <<17, 20>>, <<17, 18, 21>>, <<1, 2>>, <<1, 6>>, <<7, 8>>, <<13, 1, 14>>, <<17, 21>> }
ExtQ == [ExtStd EXCEPT !.pkgs = PkgsQ, !.maxpkg = 1]
ExtT == [ExtStd EXCEPT !.pkgs = PkgsT, !.maxpkg = 1]
====
