CONSTANTS
  TxU <- TxUDef
  BaseCoins <- BaseDef
  H0 = 210
  BaseDt = 1
  Lists <- NoLists
  ReorgPairs <- NoReorgs
  Dts = {1}
  SubmitSet <- NoTx
  TestSet <- NoTx
  PrioSet <- NoPrio
  Ticks <- NoTicks
  MaxBlocks = 0
  MaxDisc = 0
  MaxReorg = 0
  MaxPrio = 0
  MaxTicks = 0
  MaxExpire = 0
  MinRelay = 100
  IncrRelay = 100
  Expiry = 1209600
  MaxReplClusters = 100
  MaxClusterCount = 64
  Ext <- ExtR5
  Cases <- CasesDef
INIT RInit
NEXT RNext
INVARIANTS VictimsAreAClass CaseShape AtMostHundredClusters EmitRow
CHECK_DEADLOCK FALSE
