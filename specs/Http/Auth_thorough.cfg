CONSTANTS
  AllowTexts = {}
INIT Init
NEXT Next
INVARIANTS OnlyAllowedServed OnlyValidExecuted ValidIsExecuted EmitRow
CHECK_DEADLOCK FALSE
