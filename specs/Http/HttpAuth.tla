---- MODULE HttpAuth ----
(***************************************************************************)
(* C52, second clause: requests are answered only for allowed client        *)
(* addresses and RPC calls are executed only with valid credentials.         *)
(* Decision table (engine E4) for one JSON-RPC call arriving at the HTTP     *)
(* server: HTTPServer::ClientAllowed (src/httpserver.cpp: the connection is  *)
(* dropped right after accept, before anything is read, unless the peer's    *)
(* address is in 127.0.0.0/8, ::1 or a -rpcallowip subnet), then             *)
(* HTTPReq_JSONRPC (src/httprpc.cpp): POST only (405), Authorization header  *)
(* present (401), RPCAuthorized: "Basic " scheme, valid base64, "user:pass", *)
(* CheckUserAuthorized against -rpcuser/-rpcpassword and -rpcauth (401).     *)
(*                                                                         *)
(* The peer is always 5.5.5.5 (what the socket mock reports); the allow     *)
(* list varies.  IPv4 addresses are 32-bit numbers; a subnet is              *)
(* [fam, base, len]; an IPv6 subnet never matches an IPv4 peer.              *)
(***************************************************************************)
EXTENDS Integers, Sequences, FiniteSets, TLC, VF
CONSTANT AllowTexts     \* which -rpcallowip values of Allows to enumerate ({} = all)
RECURSIVE Pow2(_)
Pow2(n) == IF n = 0 THEN 1 ELSE 2 * Pow2(n - 1)
Ip(a, b, c, d) == ((a * 256 + b) * 256 + c) * 256 + d
Peer == Ip(5, 5, 5, 5)
\* CSubNet::Match for an IPv4 address
\* (TLC integers are 32 bit: /0 is spelt out, the other prefix lengths of the table are at least 8)
Match(sub, addr) == sub.fam = 4 /\ (sub.len = 0 \/ (addr \div Pow2(32 - sub.len)) = (sub.base \div Pow2(32 - sub.len)))
\* -rpcallowip values (text = what is put on the command line)
Allows == {
  [text |-> "5.5.5.5", fam |-> 4, base |-> Ip(5, 5, 5, 5), len |-> 32],
  [text |-> "5.5.5.4", fam |-> 4, base |-> Ip(5, 5, 5, 4), len |-> 32],
  [text |-> "5.5.5.4/31", fam |-> 4, base |-> Ip(5, 5, 5, 4), len |-> 31],
  [text |-> "5.5.5.6/31", fam |-> 4, base |-> Ip(5, 5, 5, 6), len |-> 31],
  [text |-> "5.5.5.0/24", fam |-> 4, base |-> Ip(5, 5, 5, 0), len |-> 24],
  [text |-> "5.5.4.0/24", fam |-> 4, base |-> Ip(5, 5, 4, 0), len |-> 24],
  [text |-> "5.5.5.0/255.255.255.0", fam |-> 4, base |-> Ip(5, 5, 5, 0), len |-> 24],
  [text |-> "5.0.0.0/8", fam |-> 4, base |-> Ip(5, 0, 0, 0), len |-> 8],
  [text |-> "4.4.4.4", fam |-> 4, base |-> Ip(4, 4, 4, 4), len |-> 32],
  [text |-> "0.0.0.0/0", fam |-> 4, base |-> 0, len |-> 0],
  [text |-> "::/0", fam |-> 6, base |-> 0, len |-> 0]}
AlwaysAllowed == {[fam |-> 4, base |-> Ip(127, 0, 0, 0), len |-> 8]}     \* (and ::1)
ClientAllowed(allow) == \E s \in AlwaysAllowed \cup {allow} : Match(s, Peer)

\* configured credentials: -rpcuser/-rpcpassword (stored salted and hashed at start-up) and one -rpcauth entry
Users == [vfuser |-> "vfpass", alice |-> "alicepw"]
\* the Authorization header: none, or scheme text + payload
Schemes == {"Basic ", "Basic  ", "basic ", "Basic", "Bearer "}
Creds ==
  {[hdr |-> FALSE, scheme |-> "", b64ok |-> TRUE, colon |-> TRUE, user |-> "", pass |-> ""]}
  \cup {[hdr |-> TRUE, scheme |-> s, b64ok |-> TRUE, colon |-> TRUE, user |-> "vfuser", pass |-> "vfpass"] : s \in Schemes}
  \cup {[hdr |-> TRUE, scheme |-> "Basic ", b64ok |-> b, colon |-> c, user |-> u, pass |-> p] :
          b \in BOOLEAN, c \in BOOLEAN, u \in {"vfuser", "alice", "bob", ""}, p \in {"vfpass", "alicepw", "wrong", ""}}
\* RPCAuthorized + CheckUserAuthorized
SchemeOK(s) == s \in {"Basic ", "Basic  "}          \* starts with "Basic "; further blanks are trimmed away
Authorized(c) == /\ c.hdr /\ SchemeOK(c.scheme) /\ c.b64ok /\ c.colon
                 /\ c.user \in DOMAIN Users /\ Users[c.user] = c.pass
Outcome(allow, method, c) ==
  IF ~ClientAllowed(allow) THEN [conn |-> "dropped", status |-> 0, executed |-> FALSE]
  ELSE IF method # "POST" THEN [conn |-> "served", status |-> 405, executed |-> FALSE]
  ELSE IF ~c.hdr THEN [conn |-> "served", status |-> 401, executed |-> FALSE]
  ELSE IF ~Authorized(c) THEN [conn |-> "served", status |-> 401, executed |-> FALSE]
  ELSE [conn |-> "served", status |-> 200, executed |-> TRUE]

VARIABLES allow, method, cred
vars == <<allow, method, cred>>
\* a payload without colon has no user/password split; an undecodable one has no payload at all: one representative each
Relevant(c) == /\ (~c.hdr => TRUE)
               /\ ((c.hdr /\ ~c.b64ok) => c.colon /\ c.user = "vfuser" /\ c.pass = "vfpass")
               /\ ((c.hdr /\ c.b64ok /\ ~c.colon) => c.user = "vfuser" /\ c.pass = "vfpass")
Init == allow \in {a \in Allows : AllowTexts = {} \/ a.text \in AllowTexts} /\ method \in {"POST", "GET"} /\ cred \in {c \in Creds : Relevant(c)}
Next == UNCHANGED vars
\* the clauses of the property on the table itself
OnlyAllowedServed == Outcome(allow, method, cred).conn = "served" => ClientAllowed(allow)
OnlyValidExecuted == Outcome(allow, method, cred).executed =>
                       /\ cred.hdr /\ cred.user \in DOMAIN Users /\ Users[cred.user] = cred.pass /\ method = "POST"
ValidIsExecuted == (ClientAllowed(allow) /\ method = "POST" /\ Authorized(cred)) => Outcome(allow, method, cred).executed
EmitRow == VFRow([allow |-> allow.text, method |-> method, cred |-> cred, out |-> Outcome(allow, method, cred)])
====
