CONSTANTS
  MaxFrag = 4
  Ids <- AllIds
INIT Init
NEXT Next
VIEW View0
INVARIANTS Theorem WithinBounds ErrorIsFinal EmitStream
PROPERTIES NoDispatchAfterError
ACTION_CONSTRAINT Emit
CHECK_DEADLOCK FALSE
