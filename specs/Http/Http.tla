---- MODULE Http ----
(***************************************************************************)
(* C52: HTTP requests are parsed the same however the bytes arrive.         *)
(*                                                                         *)
(* Model of the request parser of src/httpserver.cpp: HTTPRemoteClient::     *)
(* ReadRequest (state machine Init -> NeedsHeaders -> NeedsBody -> Complete, *)
(* Error), HTTPRequest::LoadControlData / LoadHeaders / LoadBody,            *)
(* HTTPHeaders::Read, util::LineReader, the dispatch loop of                 *)
(* HTTPServer::MaybeDispatchRequestsFromClient (one request per call, 400 /  *)
(* 413 + disconnect on a parse error) and the keep-alive decision of         *)
(* HTTPRequest::WriteReply (after a reply without keep-alive the connection  *)
(* is closed and what follows is never read).                               *)
(*                                                                         *)
(* A byte stream is a sequence of TOKENS.  A token is a one-character        *)
(* string, one of the named bytes CR LF SP HT NUL, a keyword such as         *)
(* "Content-Length" (its bytes, kept in one piece only to keep streams       *)
(* short), or a pad "PADn" standing for n filler bytes 'a' (the size caps    *)
(* MAX_HEADERS_SIZE = 8192 and MAX_BODY_SIZE = 32 MiB are compile-time       *)
(* constants of the code, so oversize cases use their real sizes).  Every    *)
(* length the parser looks at is a sum of token byte lengths (TokLen).       *)
(* Fragment boundaries fall between tokens.                                 *)
(*                                                                         *)
(* Variables: one stream of the grammar (Streams), how much of it has been   *)
(* delivered in how many fragments, and the parser/connection state `ps`.    *)
(* Deliver(k) hands the next k tokens to the connection as ONE socket read.  *)
(* THEOREM (invariants FragmentationIndependent, StateCanonical), checked    *)
(* by TLC for every stream of the grammar, every prefix of it and every      *)
(* split of that prefix into at most MaxFrag fragments: the dispatched       *)
(* requests (method, target, version, headers, body), the error reply and    *)
(* whether the connection was closed - indeed the whole parser state - are   *)
(* those of delivering the prefix in one piece.                             *)
(***************************************************************************)
EXTENDS Integers, Sequences, FiniteSets, TLC, VF
CONSTANTS MaxFrag,     \* a stream is delivered in at most MaxFrag socket reads
          Ids          \* the streams of the grammar to explore (names, a subset of DOMAIN Streams)

MaxLine == 8192         \* LineReader max_line_length = MAX_HEADERS_SIZE
MaxHeaders == 8192      \* MAX_HEADERS_SIZE
MaxBody == 33554432     \* MAX_BODY_SIZE (32 MiB)
MinRequestLine == 14    \* "GET / HTTP/1.0"

----------------------------------------------------------------------------
(* Tokens *)
Named == {"CR", "LF", "SP", "HT", "NUL"}
Pads == [PAD8186 |-> 8186, PAD8187 |-> 8187, PAD8190 |-> 8190, PAD8191 |-> 8191, PAD8200 |-> 8200, PAD4000 |-> 4000,
         PAD4182 |-> 4182, PAD4183 |-> 4183, PAD8100 |-> 8100, PAD52 |-> 52, PAD53 |-> 53, PAD32M |-> 33554432]
TokLen(t) == IF t \in Named THEN 1 ELSE IF t \in DOMAIN Pads THEN Pads[t] ELSE Len(t)
\* byte length of s[a..b] and of s (index recursion: no copying)
RECURSIVE WR(_, _, _)
WR(s, a, b) == IF a > b THEN 0 ELSE TokLen(s[a]) + WR(s, a + 1, b)
Wt(s) == WR(s, 1, Len(s))
\* lower-case form of a token, as a string that stands for its bytes (named bytes keep their name: they are not letters)
LowerOf == [A |-> "a", B |-> "b", C |-> "c", T |-> "t", X |-> "x", Chunked |-> "chunked", CHUNKED |-> "chunked", Close |-> "close"]
Lower(t) == IF t \in DOMAIN LowerOf THEN LowerOf[t]
            ELSE IF t = "Content-Length" THEN "content-length" ELSE IF t = "CONTENT-LENGTH" THEN "content-length"
            ELSE IF t = "Transfer-Encoding" THEN "transfer-encoding" ELSE IF t = "Connection" THEN "connection"
            ELSE IF t = "Keep-Alive" THEN "keep-alive" ELSE IF t = "Host" THEN "host"
            ELSE IF t \in Named THEN "<" \o t \o ">" ELSE t
RECURSIVE LowerStr(_)
LowerStr(s) == IF s = <<>> THEN "" ELSE Lower(s[1]) \o LowerStr(Tail(s))
\* the bytes of a token sequence as one string (exact case)
Bytes(t) == IF t \in Named THEN "<" \o t \o ">" ELSE t
RECURSIVE Str(_)
Str(s) == IF s = <<>> THEN "" ELSE Bytes(s[1]) \o Str(Tail(s))
Digits == {"0", "1", "2", "3", "4", "5", "6", "7", "8", "9"}
DigitVal == [d \in Digits |-> CHOOSE v \in 0..9 : ToString(v) = d]
HexVal(c) == IF c \in Digits THEN DigitVal[c] ELSE IF c \in {"a", "A"} THEN 10 ELSE IF c \in {"b", "B"} THEN 11 ELSE IF c \in {"c", "C"} THEN 12
             ELSE IF c \in {"d", "D"} THEN 13 ELSE IF c \in {"e", "E"} THEN 14 ELSE 15
HexDigits == Digits \cup {"a", "b", "c", "d", "e", "f", "A", "B", "C", "D", "E", "F"}
Last(s) == s[Len(s)]
Front(s) == SubSeq(s, 1, Len(s) - 1)
Range(s) == {s[i] : i \in DOMAIN s}
White == {"SP", "HT", "LF", "CR"}      \* (form feed and vertical tab are not in the alphabet)
RECURSIVE TrimL(_)
TrimL(s) == IF s # <<>> /\ s[1] \in White THEN TrimL(Tail(s)) ELSE s
RECURSIVE TrimR(_)
TrimR(s) == IF s # <<>> /\ Last(s) \in White THEN TrimR(Front(s)) ELSE s
Trim(s) == TrimR(TrimL(s))
\* util::Split on one separator byte: empty parts are kept
RECURSIVE SplitOn(_, _, _, _)
SplitOn(s, sep, cur, acc) == IF s = <<>> THEN Append(acc, cur)
                             ELSE IF s[1] = sep THEN SplitOn(Tail(s), sep, <<>>, Append(acc, cur))
                             ELSE SplitOn(Tail(s), sep, Append(cur, s[1]), acc)
Split(s, sep) == SplitOn(s, sep, <<>>, <<>>)
\* ToIntegral<uint64_t>(s, base): [ok, big, v]. ok = the whole string is a number that fits 64 bits; big = it is larger than
\* any size cap (v is then meaningless). Modelling bound: numerals have at most 9 significant digits (exact), or 10-16
\* (valid, "big"), or at least 20 decimal / 17 hexadecimal ones (overflow: not a number).
RECURSIVE StripZeros(_)
StripZeros(s) == IF Len(s) > 1 /\ s[1] = "0" THEN StripZeros(Tail(s)) ELSE s
RECURSIVE ValOf(_, _, _)
ValOf(s, base, ac) == IF s = <<>> THEN ac ELSE ValOf(Tail(s), base, ac * base + HexVal(s[1]))
ToInt(s, base) ==
  LET digs == IF base = 10 THEN Digits ELSE HexDigits IN
  IF s = <<>> \/ ~(Range(s) \subseteq digs) THEN [ok |-> FALSE, big |-> FALSE, v |-> 0]
  ELSE LET z == StripZeros(s)  lim == IF base = 10 THEN 9 ELSE 7 IN
       IF Len(z) <= lim THEN [ok |-> TRUE, big |-> FALSE, v |-> ValOf(z, base, 0)]
       ELSE IF Len(z) <= 16 THEN [ok |-> TRUE, big |-> TRUE, v |-> 0]
       ELSE [ok |-> FALSE, big |-> FALSE, v |-> 0]

----------------------------------------------------------------------------
(* util::LineReader over the receive buffer `buf`, p tokens already consumed *)
RECURSIVE ScanLF(_, _)
ScanLF(buf, i) == IF i > Len(buf) THEN 0 ELSE IF buf[i] = "LF" THEN i ELSE ScanLF(buf, i + 1)
FirstLF(buf, p) == ScanLF(buf, p + 1)
\* k = "line": a line (without LF and without one CR before it), p = position after the LF; "none": no LF yet;
\* "toolong": more than MaxLine bytes without LF (throws)
ReadLine(buf, p) ==
  IF p = Len(buf) THEN [k |-> "none", p |-> p, line |-> <<>>]
  ELSE LET i == FirstLF(buf, p) IN
       IF i = 0 THEN [k |-> IF WR(buf, p + 1, Len(buf)) > MaxLine THEN "toolong" ELSE "none", p |-> p, line |-> <<>>]
       ELSE LET raw == SubSeq(buf, p + 1, i - 1) IN
            IF Wt(raw) > MaxLine THEN [k |-> "toolong", p |-> p, line |-> <<>>]
            ELSE [k |-> "line", p |-> i, line |-> IF raw # <<>> /\ Last(raw) = "CR" THEN Front(raw) ELSE raw]
\* ReadLength(n bytes): the tokens taken. Modelling bound: a pad is never cut (TakeOK)
RECURSIVE TakeCount(_, _, _)
TakeCount(buf, p, n) == IF n <= 0 \/ p = Len(buf) THEN 0 ELSE 1 + TakeCount(buf, p + 1, n - TokLen(buf[p + 1]))
TakeOK(buf, p, n) == WR(buf, p + 1, p + TakeCount(buf, p, n)) = n

----------------------------------------------------------------------------
(* The request under construction and the connection *)
NoChunk == 0 - 1
NewReq == [st |-> "Init", method |-> "", target |-> <<>>, ver |-> <<1, 1>>, hdrs |-> <<>>, body |-> <<>>,
           consumed |-> 0, csize |-> NoChunk, cread |-> 0]
P0 == [req |-> NewReq, buf |-> <<>>, out |-> <<>>, err |-> "none", closed |-> FALSE, bound |-> FALSE]

\* HTTPHeaders: FindFirst / FindAll, case-insensitive field names
FindAll(hdrs, name) == LET I == {i \in 1..Len(hdrs) : LowerStr(hdrs[i][1]) = name} IN
                       [j \in 1..Cardinality(I) |-> hdrs[CHOOSE i \in I : Cardinality({x \in I : x < i}) = j - 1][2]]
HasHeader(hdrs, name) == \E i \in 1..Len(hdrs) : LowerStr(hdrs[i][1]) = name
FindFirst(hdrs, name) == FindAll(hdrs, name)[1]

\* HTTPHeaders::Read. Result [k: "done" | "again" | "err", p, consumed, hdrs]
RECURSIVE HeadersRead(_, _, _, _, _, _)
HeadersRead(buf, p, start, consumed, hdrs, write) ==
  LET rl == ReadLine(buf, p) IN
  IF rl.k = "toolong" THEN [k |-> "err", p |-> p, consumed |-> consumed, hdrs |-> hdrs]
  ELSE IF rl.k = "none" THEN [k |-> "again", p |-> p, consumed |-> consumed + WR(buf, start + 1, p), hdrs |-> hdrs]
  ELSE LET line == rl.line  used == WR(buf, start + 1, rl.p) IN
       IF used + consumed > MaxHeaders THEN [k |-> "err", p |-> p, consumed |-> consumed, hdrs |-> hdrs]
       ELSE IF line = <<>> THEN [k |-> "done", p |-> rl.p, consumed |-> consumed + used, hdrs |-> hdrs]
       ELSE IF Range(line) \cap {"CR", "LF", "NUL"} # {} THEN [k |-> "err", p |-> p, consumed |-> consumed, hdrs |-> hdrs]
       ELSE IF ":" \notin Range(line) THEN [k |-> "err", p |-> p, consumed |-> consumed, hdrs |-> hdrs]
       ELSE LET c == CHOOSE i \in 1..Len(line) : line[i] = ":" /\ \A j \in 1..(i - 1) : line[j] # ":"
                key == SubSeq(line, 1, c - 1)
                val == Trim(SubSeq(line, c + 1, Len(line))) IN
            IF Range(key) \cap White # {} \/ key = <<>> THEN [k |-> "err", p |-> p, consumed |-> consumed, hdrs |-> hdrs]
            ELSE HeadersRead(buf, rl.p, start, consumed, IF write THEN Append(hdrs, <<key, val>>) ELSE hdrs, write)

\* HTTPRequest::LoadControlData. Result [k: "ok" | "again" | "err", p, req]
Control(buf, p, req) ==
  LET rl == ReadLine(buf, p) IN
  IF rl.k = "toolong" THEN [k |-> "err", p |-> p, req |-> req]
  ELSE IF rl.k = "none" THEN [k |-> "again", p |-> p, req |-> req]
  ELSE LET line == rl.line  parts == Split(line, "SP") IN
       IF Wt(line) < MinRequestLine \/ "NUL" \in Range(line) \/ Len(parts) # 3 THEN [k |-> "err", p |-> p, req |-> req]
       ELSE LET v == parts[3] IN
            \* parts[2].rfind("HTTP/") must be 0: begins with it and it does not occur again (the alphabet has no letters H, T, P)
            IF v = <<>> \/ v[1] # "HTTP/" \/ "HTTP/" \in Range(Tail(v)) THEN [k |-> "err", p |-> p, req |-> req]
            ELSE LET vp == Split(Tail(v), ".") IN
                 IF Len(vp) # 2 THEN [k |-> "err", p |-> p, req |-> req]
                 ELSE IF Wt(vp[1]) # 1 \/ Wt(vp[2]) # 1 \/ vp[1][1] \notin Digits \/ vp[2][1] \notin Digits \/ vp[1][1] # "1"
                      THEN [k |-> "err", p |-> p, req |-> req]
                      ELSE [k |-> "ok", p |-> rl.p,
                            req |-> [req EXCEPT !.st = "NeedsHeaders",
                                                !.method = IF Str(parts[1]) \in {"GET", "POST", "HEAD", "PUT"} THEN Str(parts[1]) ELSE "UNKNOWN",
                                                !.target = parts[2], !.ver = <<1, DigitVal[vp[2][1]]>>]]

\* HTTPRequest::LoadBody. Result [k: "done" | "again" | "err400" | "err413" | "bound", p, req]
RECURSIVE Chunked(_, _, _)
Chunked(buf, p, req) ==
  IF p = Len(buf) THEN [k |-> "again", p |-> p, req |-> req]                    \* while (reader.Remaining() > 0)
  ELSE IF req.csize = NoChunk
  THEN LET rl == ReadLine(buf, p) IN
       IF rl.k = "toolong" THEN [k |-> "err400", p |-> p, req |-> req]
       ELSE IF rl.k = "none" THEN [k |-> "again", p |-> p, req |-> req]
       ELSE LET semi == IF ";" \in Range(rl.line) THEN CHOOSE i \in 1..Len(rl.line) : rl.line[i] = ";" /\ \A j \in 1..(i - 1) : rl.line[j] # ";" ELSE Len(rl.line) + 1
                n == ToInt(Trim(SubSeq(rl.line, 1, semi - 1)), 16) IN
            IF ~n.ok THEN [k |-> "err400", p |-> p, req |-> req]
            ELSE IF n.big \/ Wt(req.body) > MaxBody \/ n.v > MaxBody - Wt(req.body) THEN [k |-> "err413", p |-> p, req |-> req]
            ELSE Chunked(buf, rl.p, [req EXCEPT !.csize = n.v])
  ELSE IF req.csize = 0
  THEN LET h == HeadersRead(buf, p, p, req.consumed, req.hdrs, FALSE) IN       \* trailer section: validated, counted, dropped
       [k |-> IF h.k = "done" THEN "done" ELSE IF h.k = "again" THEN "again" ELSE "err400", p |-> h.p, req |-> [req EXCEPT !.consumed = h.consumed]]
  ELSE IF req.cread < req.csize
  THEN LET need == req.csize - req.cread
           rem == WR(buf, p + 1, Len(buf))
           has == IF need < rem THEN need ELSE rem
           cnt == TakeCount(buf, p, has) IN
       IF ~TakeOK(buf, p, has) THEN [k |-> "bound", p |-> p, req |-> req]
       ELSE Chunked(buf, p + cnt, [req EXCEPT !.body = @ \o SubSeq(buf, p + 1, p + cnt), !.cread = @ + has])
  ELSE \* the chunk is complete: the CRLF that ends it
       LET rl == ReadLine(buf, p) IN
       IF rl.k = "toolong" THEN [k |-> "err400", p |-> p, req |-> req]
       ELSE IF rl.k = "none" THEN [k |-> "again", p |-> p, req |-> req]
       ELSE IF rl.line # <<>> THEN [k |-> "err400", p |-> p, req |-> req]
       ELSE Chunked(buf, rl.p, [req EXCEPT !.csize = NoChunk, !.cread = 0])
\* (Chunked is entered with cread = csize only after the `cread < csize` branch or from a previous call)
Body(buf, p, req) ==
  IF HasHeader(req.hdrs, "transfer-encoding") /\ LowerStr(FindFirst(req.hdrs, "transfer-encoding")) = "chunked"
  THEN Chunked(buf, p, req)
  ELSE LET cls == FindAll(req.hdrs, "content-length") IN
       IF Len(cls) = 0 THEN [k |-> "done", p |-> p, req |-> req]
       ELSE IF \E i \in 2..Len(cls) : Str(cls[i]) # Str(cls[1]) THEN [k |-> "err400", p |-> p, req |-> req]
       ELSE LET n == ToInt(cls[1], 10) IN
            IF ~n.ok THEN [k |-> "err400", p |-> p, req |-> req]
            ELSE IF n.big \/ n.v > MaxBody THEN [k |-> "err413", p |-> p, req |-> req]
            ELSE LET need == n.v - Wt(req.body)
                     rem == WR(buf, p + 1, Len(buf))
                     has == IF need < rem THEN need ELSE rem
                     cnt == TakeCount(buf, p, has)
                     r2 == [req EXCEPT !.body = @ \o SubSeq(buf, p + 1, p + cnt)] IN
                 IF ~TakeOK(buf, p, has) THEN [k |-> "bound", p |-> p, req |-> req]
                 ELSE [k |-> IF Wt(r2.body) = n.v THEN "done" ELSE "again", p |-> p + cnt, req |-> r2]

\* HTTPRemoteClient::ReadRequest + the catch blocks of MaybeDispatchRequestsFromClient: one call
\* (what the failed request had collected so far is not observable any more: it is dropped here)
Fail(s, code) == [s EXCEPT !.req = [NewReq EXCEPT !.st = "Error"], !.buf = <<>>, !.err = code, !.closed = TRUE]
Keep(s, p, req) == [s EXCEPT !.req = req, !.buf = SubSeq(s.buf, p + 1, Len(s.buf))]
ReadRequest(s) ==
  IF s.buf = <<>> THEN s
  ELSE LET c == IF s.req.st = "Init" THEN Control(s.buf, 0, s.req) ELSE [k |-> "ok", p |-> 0, req |-> s.req] IN
       IF c.k = "err" THEN Fail(s, "400")
       ELSE IF c.k = "again" THEN Keep(s, c.p, c.req)
       ELSE LET h == IF c.req.st = "NeedsHeaders" THEN HeadersRead(s.buf, c.p, c.p, c.req.consumed, c.req.hdrs, TRUE)
                     ELSE [k |-> "done", p |-> c.p, consumed |-> c.req.consumed, hdrs |-> c.req.hdrs]
                r1 == [c.req EXCEPT !.consumed = h.consumed, !.hdrs = h.hdrs] IN
            IF h.k = "err" THEN Fail(s, "400")
            ELSE IF h.k = "again" THEN Keep(s, h.p, r1)
            ELSE LET b == Body(s.buf, h.p, [r1 EXCEPT !.st = "NeedsBody"]) IN
                 IF b.k = "err400" THEN Fail(s, "400")
                 ELSE IF b.k = "err413" THEN Fail(s, "413")
                 ELSE IF b.k = "bound" THEN [s EXCEPT !.bound = TRUE, !.closed = TRUE]
                 ELSE IF b.k = "again" THEN Keep(s, b.p, b.req)
                 ELSE Keep(s, b.p, [b.req EXCEPT !.st = "Complete"])

\* the request handed to the dispatcher, and WriteReply's keep-alive decision
Dispatched(r) == [method |-> r.method, target |-> r.target, ver |-> r.ver, hdrs |-> r.hdrs, body |-> r.body]
ConnIs(r, what) == HasHeader(r.hdrs, "connection") /\ LowerStr(FindFirst(r.hdrs, "connection")) = what
KeepAlive(r) == (IF r.ver[2] = 0 THEN ConnIs(r, "keep-alive") ELSE TRUE) /\ ~ConnIs(r, "close")
\* the I/O loop: one request per iteration, until nothing more can be done with what has been received
RECURSIVE Pump(_)
Pump(s) == IF s.closed THEN s
           ELSE LET s1 == ReadRequest(s) IN
                IF s1.req.st = "Complete"
                THEN Pump([s1 EXCEPT !.out = Append(@, Dispatched(s1.req)), !.req = NewReq, !.closed = ~KeepAlive(s1.req),
                                     \* (what a closed connection had already received is never looked at again)
                                     !.buf = IF KeepAlive(s1.req) THEN @ ELSE <<>>])
                ELSE s1
\* one socket read of `frag` (a closed connection reads nothing)
DeliverP(s, frag) == IF s.closed THEN s ELSE Pump([s EXCEPT !.buf = @ \o frag])
Obs(s) == [out |-> s.out, err |-> s.err, closed |-> s.closed]

----------------------------------------------------------------------------
(* The grammar: streams *)
CRLF == <<"CR", "LF">>
V11 == <<"1", ".", "1">>
V10 == <<"1", ".", "0">>
RL(m, t, v) == <<m, "SP">> \o t \o <<"SP", "HTTP/">> \o v \o CRLF
H(k, v) == <<k, ":">> \o v \o CRLF
GetLine == RL("GET", <<"/">>, V11)
PostLine == RL("POST", <<"/", "a">>, V11)
Get == GetLine \o H("Host", <<"a">>) \o CRLF
Post3 == PostLine \o H("Content-Length", <<"3">>) \o CRLF \o <<"a", "b", "c">>
TE == H("Transfer-Encoding", <<"SP", "chunked">>)
ChunkHead == PostLine \o TE \o CRLF
Streams == [
  get       |-> Get,
  get_lf    |-> <<"GET", "SP", "/", "SP", "HTTP/", "1", ".", "1", "LF", "Host", ":", "a", "LF", "LF">>,
  get10     |-> RL("GET", <<"/">>, V10) \o CRLF,
  get19     |-> RL("HEAD", <<"/", "x">>, <<"1", ".", "9">>) \o CRLF,
  brew      |-> RL("BREW", <<"/">>, V11) \o CRLF,
  put_empty_value |-> RL("PUT", <<"/">>, V11) \o H("X", <<>>) \o H("A", <<"SP", "b", ":", "c", "HT", "SP">>) \o CRLF,
  post3     |-> Post3,
  post0     |-> PostLine \o H("Content-Length", <<"0">>) \o CRLF,
  post_short |-> PostLine \o H("Content-Length", <<"5">>) \o CRLF \o <<"a", "b", "c">>,
  post_crlf_body |-> PostLine \o H("Content-Length", <<"4">>) \o CRLF \o <<"a", "CR", "LF", "NUL">>,
  dup_equal |-> PostLine \o H("Content-Length", <<"3">>) \o H("content-length", <<"SP", "3", "SP">>) \o CRLF \o <<"a", "b", "c">>,
  dup_differ |-> PostLine \o H("Content-Length", <<"3">>) \o H("CONTENT-LENGTH", <<"4">>) \o CRLF \o <<"a", "b", "c", "d">>,
  dup_03    |-> PostLine \o H("Content-Length", <<"3">>) \o H("Content-Length", <<"0", "3">>) \o CRLF \o <<"a", "b", "c">>,
  cl_03     |-> PostLine \o H("Content-Length", <<"0", "3">>) \o CRLF \o <<"a", "b", "c">>,
  cl_bad    |-> PostLine \o H("Content-Length", <<"3", "x">>) \o CRLF \o <<"a", "b", "c">>,
  cl_neg    |-> PostLine \o H("Content-Length", <<"-", "1">>) \o CRLF,
  cl_empty  |-> PostLine \o H("Content-Length", <<>>) \o CRLF,
  cl_max1   |-> PostLine \o H("Content-Length", <<"3", "3", "5", "5", "4", "4", "3", "3">>) \o CRLF \o <<"a">>,
  cl_big    |-> PostLine \o H("Content-Length", <<"4", "2", "9", "4", "9", "6", "7", "2", "9", "6">>) \o CRLF,
  cl_overflow |-> PostLine \o H("Content-Length", [i \in 1..20 |-> "9"]) \o CRLF,
  chunk     |-> ChunkHead \o <<"3">> \o CRLF \o <<"a", "b", "c">> \o CRLF \o <<"0">> \o CRLF \o CRLF,
  chunk2    |-> ChunkHead \o <<"1">> \o CRLF \o <<"a">> \o CRLF \o <<"2", "LF", "b", "c", "LF", "0", "LF", "LF">>,
  chunk_ext |-> ChunkHead \o <<"SP", "3", "SP", ";", "x", "=", "1">> \o CRLF \o <<"a", "CR", "LF">> \o CRLF \o <<"0", ";", "x">> \o CRLF \o CRLF,
  chunk_hex |-> ChunkHead \o <<"A">> \o CRLF \o <<"0", "1", "2", "3", "4", "5", "6", "7", "8", "9">> \o CRLF \o <<"0", "0">> \o CRLF \o CRLF,
  chunk_trailer |-> ChunkHead \o <<"1">> \o CRLF \o <<"a">> \o CRLF \o <<"0">> \o CRLF \o H("T", <<"v">>) \o CRLF,
  chunk_trailer_bad |-> ChunkHead \o <<"1">> \o CRLF \o <<"a">> \o CRLF \o <<"0">> \o CRLF \o <<"T", "v">> \o CRLF \o CRLF,
  chunk_badterm |-> ChunkHead \o <<"3">> \o CRLF \o <<"a", "b", "c", "d">> \o CRLF \o <<"0">> \o CRLF \o CRLF,
  chunk_badsize |-> ChunkHead \o <<"x">> \o CRLF \o <<"a">> \o CRLF,
  chunk_nosize |-> ChunkHead \o <<";", "x">> \o CRLF \o <<"a">> \o CRLF,
  chunk_big |-> ChunkHead \o <<"2", "0", "0", "0", "0", "0", "1">> \o CRLF \o <<"a">>,
  chunk_huge |-> ChunkHead \o [i \in 1..17 |-> "f"] \o CRLF,
  chunk_upper |-> PostLine \o H("transfer-encoding", <<"Chunked">>) \o H("Content-Length", <<"7">>) \o CRLF \o <<"1">> \o CRLF \o <<"a">> \o CRLF \o <<"0">> \o CRLF \o CRLF,
  te_other  |-> PostLine \o H("Transfer-Encoding", <<"x">>) \o H("Content-Length", <<"1">>) \o CRLF \o <<"a">>,
  te_list   |-> PostLine \o H("Transfer-Encoding", <<"x", "chunked">>) \o CRLF \o <<"1">> \o CRLF,
  h_nocolon |-> GetLine \o <<"A", "b">> \o CRLF \o CRLF,
  h_keyspace |-> GetLine \o <<"A", "SP", ":", "b">> \o CRLF \o CRLF,
  h_keytab  |-> GetLine \o <<"HT", "A", ":", "b">> \o CRLF \o CRLF,
  h_emptykey |-> GetLine \o <<":", "b">> \o CRLF \o CRLF,
  h_nul     |-> GetLine \o <<"A", ":", "b", "NUL", "c">> \o CRLF \o CRLF,
  h_barecr  |-> GetLine \o <<"A", ":", "b", "CR", "c">> \o CRLF \o CRLF,
  h_crcr    |-> GetLine \o <<"A", ":", "b", "CR">> \o CRLF \o CRLF,
  rl_short  |-> <<"GET", "SP", "/", "SP", "HTTP/", "1", ".">> \o CRLF \o CRLF,
  rl_empty  |-> CRLF \o Get,
  rl_nul    |-> <<"GET", "SP", "/", "NUL", "a", "SP", "HTTP/", "1", ".", "1">> \o CRLF \o CRLF,
  rl_2sp    |-> <<"GET", "SP", "SP", "/", "SP", "HTTP/", "1", ".", "1">> \o CRLF \o CRLF,
  rl_trail  |-> <<"GET", "SP", "/", "SP", "HTTP/", "1", ".", "1", "SP">> \o CRLF \o CRLF,
  rl_tab    |-> <<"GET", "HT", "/", "a", "a", "SP", "HTTP/", "1", ".", "1">> \o CRLF \o CRLF,
  rl_lower  |-> <<"GET", "SP", "/", "a", "SP", "http/", "1", ".", "1">> \o CRLF \o CRLF,
  rl_twice  |-> <<"GET", "SP", "/", "SP", "HTTP/", "HTTP/", "1", ".", "1">> \o CRLF \o CRLF,
  rl_v2     |-> RL("GET", <<"/", "a">>, <<"2", ".", "0">>) \o CRLF,
  rl_v1x    |-> RL("GET", <<"/", "a">>, <<"1", ".", "x">>) \o CRLF,
  rl_v110   |-> RL("GET", <<"/">>, <<"1", ".", "1", "0">>) \o CRLF,
  rl_v11nodot |-> RL("GET", <<"/", "a">>, <<"1", "1">>) \o CRLF,
  rl_v1dot1dot |-> RL("GET", <<"/">>, <<"1", ".", "1", ".">>) \o CRLF,
  rl_long   |-> <<"GET", "SP", "/", "PAD8200", "SP", "HTTP/", "1", ".", "1">> \o CRLF \o CRLF,
  hdr_fit   |-> GetLine \o H("X", <<"PAD8186">>) \o CRLF,
  hdr_over  |-> GetLine \o H("X", <<"PAD8187">>) \o CRLF,
  hdr_line_over |-> GetLine \o <<"X", ":", "PAD8191">> \o CRLF \o CRLF,
  hdr_line_8192_lf |-> GetLine \o <<"X", ":", "PAD8190", "LF", "LF">>,
  hdr_two_fit |-> GetLine \o H("A", <<"PAD4000">>) \o H("B", <<"PAD4182">>) \o CRLF,
  hdr_two_over |-> GetLine \o H("A", <<"PAD4000">>) \o H("B", <<"PAD4183">>) \o CRLF \o Get,
  trailer_fit |-> PostLine \o TE \o H("A", <<"PAD8100">>) \o CRLF \o <<"0">> \o CRLF \o H("T", <<"PAD52">>) \o CRLF,
  trailer_over |-> PostLine \o TE \o H("A", <<"PAD8100">>) \o CRLF \o <<"0">> \o CRLF \o H("T", <<"PAD53">>) \o CRLF,
  chunk_size_long |-> ChunkHead \o <<"1", ";", "PAD8200">> \o CRLF,
  body_max  |-> PostLine \o H("Content-Length", <<"3", "3", "5", "5", "4", "4", "3", "2">>) \o CRLF \o <<"PAD32M">> \o Get,
  chunk_cumulative |-> ChunkHead \o <<"2", "0", "0", "0", "0", "0", "0">> \o CRLF \o <<"PAD32M">> \o CRLF \o <<"1">> \o CRLF \o <<"a">> \o CRLF,
  pipe3     |-> Get \o Post3 \o Get,
  pipe_chunk |-> ChunkHead \o <<"1">> \o CRLF \o <<"a">> \o CRLF \o <<"0">> \o CRLF \o CRLF \o Get,
  pipe_bad  |-> Post3 \o <<"x">> \o CRLF \o Get,
  pipe_incomplete |-> Get \o PostLine \o H("Content-Length", <<"9">>) \o CRLF \o <<"a">>,
  pipe_after10 |-> RL("GET", <<"/">>, V10) \o CRLF \o Get,
  pipe_after10ka |-> RL("GET", <<"/">>, V10) \o H("Connection", <<"Keep-Alive">>) \o CRLF \o Get,
  pipe_afterclose |-> GetLine \o H("Connection", <<"Close">>) \o CRLF \o Get,
  pipe_close_wins |-> RL("GET", <<"/">>, V10) \o H("Connection", <<"close">>) \o H("Connection", <<"keep-alive">>) \o CRLF \o Get,
  pipe_ka_then_close |-> RL("GET", <<"/">>, V10) \o H("connection", <<"keep-alive">>) \o H("Connection", <<"close">>) \o CRLF \o Get
]
QuickIds == DOMAIN Streams \ {"body_max", "chunk_cumulative"}
AllIds == DOMAIN Streams

----------------------------------------------------------------------------
VARIABLES sid, stream, pos, nf, ps, lastAct, lastRes
vars == <<sid, stream, pos, nf, ps, lastAct, lastRes>>
\* (the stream is kept in a variable: TLC would otherwise rebuild the table of streams at every reference)
Stream == stream
Init == /\ sid \in Ids /\ stream = Streams[sid] /\ pos = 0 /\ nf = 0 /\ ps = P0
        /\ lastAct = <<"init">> /\ lastRes = "none"
\* one socket read of the next k tokens
Deliver(k) == /\ nf < MaxFrag /\ pos + k <= Len(Stream)
              \* (bound by \E over a singleton so that TLC evaluates the parser once per transition)
              /\ \E s2 \in {DeliverP(ps, SubSeq(Stream, pos + 1, pos + k))} :
                 /\ ps' = s2
                 /\ lastRes' = [new |-> SubSeq(s2.out, Len(ps.out) + 1, Len(s2.out)), err |-> s2.err, closed |-> s2.closed]
              /\ pos' = pos + k /\ nf' = nf + 1 /\ sid' = sid /\ stream' = stream
              /\ lastAct' = <<"deliver", pos + 1, pos + k>>
MaxLen == 90
Next == \E k \in 1..MaxLen : Deliver(k)
Spec == Init /\ [][Next]_vars

\* what one read of the whole prefix gives
Whole == DeliverP(P0, SubSeq(Stream, 1, pos))
\* THEOREM: the dispatched requests, the error reply and the connection state depend only on the bytes received so far
FragmentationIndependent == Obs(ps) = Obs(Whole)
\* ... and so does everything the parser remembers (which also makes <<sid, pos, nf>> identify a state)
StateCanonical == ps = Whole
\* (both at once, for the configurations that only need the verdict: one evaluation of Whole per state)
Theorem == \E w \in {Whole} : ps = w /\ Obs(ps) = Obs(w)
\* the modelling bounds hold on the grammar (no pad is cut, streams fit)
WithinBounds == ~ps.bound /\ Len(Stream) <= MaxLen
\* sanity of the grammar: a request is dispatched only in the Init state of the next one; after an error nothing is dispatched
ErrorIsFinal == (ps.err # "none") => ps.closed /\ ps.buf = <<>>
NoDispatchAfterError == [][ps.err # "none" => ps'.out = ps.out /\ ps'.err = ps.err]_vars

Key == <<sid, pos, nf>>
Proj == [sid |-> sid, pos |-> pos, nf |-> nf]
View0 == <<sid, pos, nf, ps>>
Emit == VFEdgeK(Key, Proj, lastAct', lastRes', Key', Proj')
\* the stream table for the harness: one row per stream
EmitStream == pos = 0 => VFRow([stream |-> sid, toks |-> Stream])
====
