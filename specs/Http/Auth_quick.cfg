CONSTANTS
  AllowTexts = {"5.5.5.5", "5.5.5.4", "5.5.5.4/31", "5.5.5.6/31", "4.4.4.4", "::/0"}
INIT Init
NEXT Next
INVARIANTS OnlyAllowedServed OnlyValidExecuted ValidIsExecuted EmitRow
CHECK_DEADLOCK FALSE
