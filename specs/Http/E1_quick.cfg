CONSTANTS
  MaxFrag = 3
  Ids <- QuickIds
INIT Init
NEXT Next
VIEW View0
INVARIANTS Theorem WithinBounds ErrorIsFinal EmitStream
PROPERTIES NoDispatchAfterError
ACTION_CONSTRAINT Emit
CHECK_DEADLOCK FALSE
