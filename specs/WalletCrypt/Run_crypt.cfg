CONSTANTS
  Orig = {"k1", "k2"}
  Fresh = {"n1"}
  Passes = {"p1", "p2", "p3"}
  Variant = "ok"
  MaxOps = 60
INIT InitRun
NEXT NextRun
VIEW ViewRun
INVARIANTS LockedCannotSign OrigKept FileWhole NoPlaintextAfterEncrypt
ACTION_CONSTRAINT EmitRun
CHECK_DEADLOCK FALSE
