CONSTANTS
  Orig = {"k1", "k2"}
  Fresh = {"n1"}
  Passes = {"p1", "p2", "p3"}
  Variant = "ok"
  MaxOps = 9
INIT Init
NEXT Next
VIEW View0
INVARIANTS LockedCannotSign OrigKept FileWhole NoPlaintextAfterEncrypt
PROPERTIES SignResultRight WrongPassFails UnlockRestoresKeys
CHECK_DEADLOCK FALSE
