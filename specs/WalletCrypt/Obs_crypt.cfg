INIT InitObs
NEXT Stutter
INVARIANTS ObsLoads ObsFileWhole ObsOrigKept ObsPlainUsable ObsLockedCannotSign ObsWrongPassFails ObsUnlockRestoresKeys ObsNoPlaintextAfterEncrypt
CHECK_DEADLOCK FALSE
