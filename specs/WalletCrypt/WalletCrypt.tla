---- MODULE WalletCrypt ----
(* C42 - wallet encryption (src/wallet/wallet.cpp EncryptWallet / Unlock / Lock / ChangeWalletPassphrase,                   *)
(* src/wallet/scriptpubkeyman.cpp DescriptorScriptPubKeyMan::Encrypt / CheckDecryptionKey / GetKeys,                       *)
(* src/wallet/walletdb.cpp WriteCryptedDescriptorKey / WriteMasterKey, src/wallet/sqlite.cpp Rewrite, src/wallet/crypter.cpp). *)
(*                                                                                                                        *)
(* Keys: the private keys of the descriptors the plain wallet was created with (Orig) and the keys of the descriptors        *)
(* EncryptWallet generates afterwards (Fresh). The database holds per key a plain record, a crypted record or none, the      *)
(* master-key record (modelled by the passphrase that opens it), and "slack": keys whose plaintext still sits in free pages *)
(* of the file after their record was deleted. EncryptWallet runs in the code's three phases:                               *)
(*   e1  one DB transaction: master key record + every plain key record replaced by a crypted one                           *)
(*   e2  Lock, Unlock(passphrase), SetupWalletGeneration: one DB transaction adding the Fresh descriptors (crypted), Lock     *)
(*   e3  Rewrite() (VACUUM): the file is rebuilt without free pages                                                         *)
(* Variant selects the real protocol ("ok") or a broken one (negative controls):                                            *)
(*   "norewrite"  e3 is skipped          "nonatomic"  e1's writes commit one by one                                          *)
(*   "keepplain"  e1 adds the crypted records but does not delete the plain ones      "anypass"  Unlock accepts any passphrase *)
EXTENDS Naturals, FiniteSets, TLC, VF
CONSTANTS Orig, Fresh, Passes, Variant, MaxOps
VARIABLES mode,      \* "plain" | "encrypting" | "locked" | "unlocked"   (the wallet object)
          phase,     \* progress of EncryptWallet: "idle" | "e1" | "e2"; "e1" with todo # {} only in the nonatomic variant
          todo,      \* keys e1 still has to convert (nonatomic variant)
          pass,      \* the passphrase given to the running EncryptWallet
          rec,       \* key -> "none" | "plain" | "crypted" | "both"
          mkey,      \* "none" or the passphrase that opens the master key record
          slack,     \* keys with plaintext remnants in free pages
          done,      \* EncryptWallet has returned at some point in the past
          nops, crashes, lastAct, lastRes, hist
vars == <<mode, phase, todo, pass, rec, mkey, slack, done, nops, crashes, lastAct, lastRes, hist>>
View0 == <<mode, phase, todo, pass, rec, mkey, slack, done, nops, crashes>>
Keys == Orig \cup Fresh
Present == {k \in Keys : rec[k] # "none"}
\* keys the wallet object can sign with right now
Usable == IF mode = "plain" THEN {k \in Keys : rec[k] \in {"plain", "both"}}
          ELSE IF mode \in {"unlocked", "encrypting"} THEN {k \in Keys : rec[k] \in {"crypted", "both"}}
          ELSE {}
\* secrets a reader of the raw file can find
PlainInFile == {k \in Keys : rec[k] \in {"plain", "both"}} \cup slack

Init == /\ mode = "plain" /\ phase = "idle" /\ todo = {} /\ pass = "none"
        /\ rec = [k \in Keys |-> IF k \in Orig THEN "plain" ELSE "none"] /\ mkey = "none" /\ slack = {} /\ done = FALSE
        /\ nops = 0 /\ crashes = 0 /\ lastAct = <<"init">> /\ lastRes = "none" /\ hist = <<>>
Op(a, r) == /\ nops' = nops + 1 /\ lastAct' = a /\ lastRes' = r /\ hist' = Append(hist, a) /\ UNCHANGED crashes
Conv(k) == IF Variant = "keepplain" THEN "both" ELSE "crypted"

\* EncryptWallet(p), phase e1
EncryptE1(p) ==
    /\ mode = "plain" /\ phase = "idle" /\ mkey = "none" /\ nops < MaxOps
    /\ mkey' = p /\ pass' = p /\ mode' = "encrypting"
    /\ IF Variant = "nonatomic"
       THEN /\ todo' = {k \in Keys : rec[k] = "plain"} /\ UNCHANGED <<rec, slack>>
       ELSE /\ todo' = {} /\ rec' = [k \in Keys |-> IF rec[k] = "plain" THEN Conv(k) ELSE rec[k]]
            /\ slack' = slack \cup {k \in Keys : rec[k] = "plain" /\ Conv(k) = "crypted"}
    /\ phase' = "e1" /\ UNCHANGED done
    /\ Op(<<"encrypt", p>>, "running")
\* nonatomic variant only: the key records are converted one commit at a time
EncryptE1Key(k) ==
    /\ phase = "e1" /\ k \in todo
    /\ rec' = [rec EXCEPT ![k] = "crypted"] /\ slack' = slack \cup {k} /\ todo' = todo \ {k}
    /\ UNCHANGED <<mode, phase, pass, mkey, done, nops, crashes, hist>> /\ lastAct' = <<"e1key", k>> /\ lastRes' = "running"
\* phase e2: the Fresh descriptors are generated (their keys are written encrypted)
EncryptE2 ==
    /\ phase = "e1" /\ todo = {}
    /\ rec' = [k \in Keys |-> IF k \in Fresh THEN "crypted" ELSE rec[k]]
    /\ phase' = "e2"
    /\ UNCHANGED <<mode, todo, pass, mkey, slack, done, nops, crashes, hist>> /\ lastAct' = <<"e2">> /\ lastRes' = "running"
\* phase e3: Rewrite, then EncryptWallet returns with the wallet locked
EncryptE3 ==
    /\ phase = "e2"
    /\ slack' = (IF Variant = "norewrite" THEN slack ELSE {})
    /\ phase' = "idle" /\ mode' = "locked" /\ done' = TRUE /\ pass' = "none"
    /\ UNCHANGED <<todo, rec, mkey, nops, crashes, hist>> /\ lastAct' = <<"e3">> /\ lastRes' = "ok"
Lock ==
    /\ phase = "idle" /\ mode = "unlocked" /\ nops < MaxOps
    /\ mode' = "locked" /\ UNCHANGED <<phase, todo, pass, rec, mkey, slack, done>> /\ Op(<<"lock">>, "ok")
Unlock(p) ==
    /\ phase = "idle" /\ mode \in {"locked", "unlocked"} /\ nops < MaxOps
    /\ LET good == (p = mkey \/ Variant = "anypass") IN
       /\ mode' = (IF good THEN "unlocked" ELSE mode)
       /\ Op(<<"unlock", p>>, IF good THEN "ok" ELSE "fail")
    /\ UNCHANGED <<phase, todo, pass, rec, mkey, slack, done>>
\* ChangeWalletPassphrase: locks, unlocks with the old passphrase, rewrites the master key record, restores the lock state
ChangePass(o, n) ==
    /\ phase = "idle" /\ mode \in {"locked", "unlocked"} /\ nops < MaxOps
    /\ IF o = mkey THEN /\ mkey' = n /\ UNCHANGED mode /\ Op(<<"changepass", o, n>>, "ok")
                   ELSE /\ UNCHANGED mkey /\ mode' = "locked" /\ Op(<<"changepass", o, n>>, "fail")
    /\ UNCHANGED <<phase, todo, pass, rec, slack, done>>
\* SignTransaction for an output of key k
Sign(k) ==
    /\ phase = "idle" /\ k \in Present /\ nops < MaxOps
    /\ UNCHANGED <<mode, phase, todo, pass, rec, mkey, slack, done>>
    /\ Op(<<"sign", k>>, IF k \in Usable THEN "ok" ELSE "fail")
\* clean restart or crash: the wallet object is rebuilt from the file (a crash may hit any phase of EncryptWallet)
Load(kind) ==
    /\ (kind = "reload" => phase = "idle") /\ (kind = "crash" => crashes < 2) /\ nops < MaxOps
    /\ mode' = (IF mkey = "none" THEN "plain" ELSE "locked")
    /\ phase' = "idle" /\ todo' = {} /\ pass' = "none"
    /\ UNCHANGED <<rec, mkey, slack, done>>
    /\ crashes' = (IF kind = "crash" THEN crashes + 1 ELSE crashes)
    /\ nops' = nops + 1 /\ lastAct' = <<kind>> /\ lastRes' = "ok" /\ hist' = Append(hist, <<kind>>)

Internal == (\E k \in Keys : EncryptE1Key(k)) \/ EncryptE2 \/ EncryptE3
NextNoCrash == \/ \E p \in Passes : EncryptE1(p) \/ Unlock(p) \/ \E q \in Passes \ {p} : ChangePass(p, q)
               \/ Internal \/ Lock \/ \E k \in Keys : Sign(k) \/ Load("reload")
Next == NextNoCrash \/ Load("crash")

\* ---- the property
\* signing fails while the wallet is locked
LockedCannotSign == mode = "locked" => Usable = {}
SignResultRight == [][(lastAct'[1] = "sign" /\ mode = "locked") => lastRes' = "fail"]_vars
\* a wrong passphrase does not unlock
WrongPassFails == [][(lastAct'[1] = "unlock" /\ lastAct'[2] # mkey /\ mode = "locked") => (lastRes' = "fail" /\ mode' = "locked")]_vars
\* the correct passphrase (also after a change) gives back every key the wallet has
UnlockRestoresKeys == [][(lastAct'[1] = "unlock" /\ lastAct'[2] = mkey) => (lastRes' = "ok" /\ mode' = "unlocked" /\ Usable' = Present)]_vars
\* the original keys are never lost
OrigKept == Orig \subseteq Present
\* whatever a crash leaves (every reachable file is a possible crash image) is fully plain or fully encrypted
FileWhole == \/ (mkey = "none" /\ \A k \in Present : rec[k] = "plain")
             \/ (mkey # "none" /\ \A k \in Present : rec[k] = "crypted")
\* once EncryptWallet has returned the file holds no plaintext secret
NoPlaintextAfterEncrypt == (done /\ phase = "idle") => PlainInFile = {}

Emit == VFEdgeK(hist, 0, lastAct', lastRes', hist', 0)
====
