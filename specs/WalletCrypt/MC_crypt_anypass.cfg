CONSTANTS
  Orig = {"k1", "k2"}
  Fresh = {"n1"}
  Passes = {"p1", "p2"}
  Variant = "anypass"
  MaxOps = 6
INIT Init
NEXT Next
VIEW View0
PROPERTIES WrongPassFails
CHECK_DEADLOCK FALSE
