CONSTANTS
  Orig = {"k1", "k2"}
  Fresh = {"n1"}
  Passes = {"p1", "p2", "p3"}
  Variant = "ok"
  MaxOps = 14
INIT Init
NEXT NextNoCrash
VIEW View0
INVARIANTS LockedCannotSign OrigKept FileWhole NoPlaintextAfterEncrypt
ACTION_CONSTRAINT Emit
CHECK_DEADLOCK FALSE
