CONSTANTS
  Orig = {"k1", "k2"}
  Fresh = {"n1"}
  Passes = {"p1", "p2"}
  Variant = "nonatomic"
  MaxOps = 6
INIT Init
NEXT Next
VIEW View0
INVARIANTS FileWhole
CHECK_DEADLOCK FALSE
