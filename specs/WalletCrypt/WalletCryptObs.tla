---- MODULE WalletCryptObs ----
(* C42 on observations of the real wallet. Two kinds of lines in env OBS:                                                  *)
(*  kind "image": a wallet loaded from a crash image (or the live directory) and probed:                                    *)
(*    {load, enc, kinds: [key record kind of every descriptor with private keys], orig: every original descriptor present,  *)
(*     sign_cold: signing right after the load, unlock_wrong / sign_after_wrong: with a passphrase that was never set,       *)
(*     unlock_ok: [result per passphrase the specification admits at that point], sign_unlocked: [[results]...],             *)
(*     scan: TRUE if EncryptWallet had returned before the image was taken, found_db: secrets of the plain wallet found in   *)
(*     wallet.dat (harness monitor: a byte search of the file)}                                                            *)
(* The clauses are WalletCrypt's invariants (FileWhole, OrigKept, LockedCannotSign, WrongPassFails, UnlockRestoresKeys,      *)
(* NoPlaintextAfterEncrypt) read off the observed wallet.                                                                  *)
EXTENDS Naturals, Sequences, TLC, Json, IOUtils
ObsLines == ndJsonDeserialize(IOEnv.OBS)
VARIABLES idx, lastAct
Line == ObsLines[idx]
InitObs == idx \in 1..Len(ObsLines) /\ lastAct = <<"observed", idx>>
Stutter == UNCHANGED <<idx, lastAct>>
Ok == Line.load = "ok"
All(s) == \A i \in 1..Len(s) : s[i]
ObsLoads == Ok
ObsFileWhole == Ok => \/ (~Line.enc /\ \A i \in 1..Len(Line.kinds) : Line.kinds[i] = "plain")
                      \/ (Line.enc /\ \A i \in 1..Len(Line.kinds) : Line.kinds[i] = "crypted")
ObsOrigKept == Ok => Line.orig
ObsPlainUsable == (Ok /\ ~Line.enc) => Line.sign_cold
ObsLockedCannotSign == (Ok /\ Line.enc) => ~Line.sign_cold
ObsWrongPassFails == (Ok /\ Line.enc) => (~Line.unlock_wrong /\ ~Line.sign_after_wrong)
ObsUnlockRestoresKeys == (Ok /\ Line.enc) => \E i \in 1..Len(Line.unlock_ok) : Line.unlock_ok[i] /\ All(Line.sign_unlocked[i])
ObsNoPlaintextAfterEncrypt == (Ok /\ Line.scan) => Line.found_db = 0
====
