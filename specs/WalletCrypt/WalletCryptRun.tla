---- MODULE WalletCryptRun ----
(* Replays given action lists (env BEHS, one {"acts": [...]} per line) on WalletCrypt and prints the result the             *)
(* specification predicts for every step. A list that is not a behaviour of the specification stops at the offending step. *)
EXTENDS WalletCrypt, Sequences, Json, IOUtils
Behs == ndJsonDeserialize(IOEnv.BEHS)
VARIABLES b, k
InitRun == b \in 1..Len(Behs) /\ k = 0 /\ Init
Do(a) == CASE a[1] = "encrypt" -> EncryptE1(a[2])
           [] a[1] = "e2" -> EncryptE2
           [] a[1] = "e3" -> EncryptE3
           [] a[1] = "lock" -> Lock
           [] a[1] = "unlock" -> Unlock(a[2])
           [] a[1] = "changepass" -> ChangePass(a[2], a[3])
           [] a[1] = "sign" -> Sign(a[2])
           [] a[1] = "reload" -> Load("reload")
           [] OTHER -> FALSE
NextRun == k < Len(Behs[b].acts) /\ k' = k + 1 /\ b' = b /\ Do(Behs[b].acts[k + 1])
ViewRun == <<View0, b, k>>
EmitRun == VFRow([b |-> b, k |-> k', a |-> lastAct', r |-> lastRes'])
====
