CONSTANTS
  Txs = {"a", "b", "c"}
  MaxTx = 2
  MaxAtt = 2
  MaxNodes = 4
  MaxSteps = 5
  InitialStale = 300
  Stale = 60
INIT Init
NEXT Next
VIEW View0
INVARIANTS QueueBounded AttemptsBounded OnePerConnection
PROPERTIES TxForNodeIsThePick NoPickWhenExhausted AttemptsOnlyResetByAddOrRemove
CHECK_DEADLOCK FALSE
