---- MODULE PrivBroadcast ----
(***************************************************************************)
(* C39 (b): the private-broadcast queue, class PrivateBroadcast            *)
(* (src/private_broadcast.h/.cpp), one action per public method.           *)
(* A queued transaction keeps the list of its send attempts                *)
(* (node, time picked, time confirmed or 0).  Limits are the constructor   *)
(* parameters max_transactions / max_send_attempts (10,000 and 1,000 in    *)
(* the node; small here).  PickTxForSend takes the pending transaction     *)
(* with the fewest attempts, then fewest confirmations, then the oldest    *)
(* last pick / last confirmation; a tie is broken by the container's       *)
(* iteration order, which the model leaves open.                           *)
(***************************************************************************)
EXTENDS Integers, Sequences, FiniteSets, TLC, VF
CONSTANTS Txs, MaxTx, MaxAtt, MaxNodes, MaxSteps,
          InitialStale, Stale      \* INITIAL_STALE_DURATION (300 s), STALE_DURATION (60 s)

VARIABLES present,   \* transactions in the queue
          sends,     \* tx -> sequence of [node, picked, conf]   (conf = 0: not confirmed)
          added,     \* tx -> time added (or re-added)
          now,       \* clock, seconds (starts at 1000 so that time 0 means "never")
          nnode,     \* node ids handed out so far (the caller never reuses one)
          n, lastAct, lastRes
vars == <<present, sends, added, now, nnode, n, lastAct, lastRes>>
View0 == <<present, sends, added, now, nnode, n>>

Step(a, r) == n' = n + 1 /\ lastAct' = a /\ lastRes' = r
Pending(t) == t \in present /\ Len(sends[t]) < MaxAtt
NumConf(t) == Cardinality({i \in 1..Len(sends[t]) : sends[t][i].conf > 0})
MaxOf(S) == IF S = {} THEN 0 ELSE CHOOSE x \in S : \A y \in S : y <= x
LastPicked(t) == MaxOf({sends[t][i].picked : i \in 1..Len(sends[t])})
LastConf(t) == MaxOf({sends[t][i].conf : i \in 1..Len(sends[t])})
Prio(t) == <<Len(sends[t]), NumConf(t), LastPicked(t), LastConf(t)>>
\* lexicographic "a is strictly more urgent than b" (smaller tuple)
Less(a, b) == \E k \in 1..4 : a[k] < b[k] /\ \A j \in 1..(k - 1) : a[j] = b[j]
Best == {t \in Txs : Pending(t) /\ \A u \in Txs : Pending(u) => ~Less(Prio(u), Prio(t))}
NodeOf(nd) == {t \in present : \E i \in 1..Len(sends[t]) : sends[t][i].node = nd}

Add(t) ==
  /\ IF t \in present
     THEN IF Pending(t)
          THEN UNCHANGED <<present, sends, added>> /\ Step(<<"add", t>>, "AlreadyPresent")
          ELSE /\ sends' = [sends EXCEPT ![t] = <<>>] /\ added' = [added EXCEPT ![t] = now] /\ UNCHANGED present
               /\ Step(<<"add", t>>, "Added")          \* an exhausted transaction is reset by adding it again
     ELSE IF Cardinality(present) >= MaxTx
          THEN UNCHANGED <<present, sends, added>> /\ Step(<<"add", t>>, "QueueFull")
          ELSE /\ present' = present \cup {t} /\ sends' = [sends EXCEPT ![t] = <<>>] /\ added' = [added EXCEPT ![t] = now]
               /\ Step(<<"add", t>>, "Added")
  /\ UNCHANGED <<now, nnode>>

Remove(t) ==
  /\ IF t \in present
     THEN /\ present' = present \ {t} /\ sends' = [sends EXCEPT ![t] = <<>>] /\ UNCHANGED added
          /\ Step(<<"remove", t>>, [found |-> TRUE, confirmed |-> NumConf(t)])
     ELSE UNCHANGED <<present, sends, added>> /\ Step(<<"remove", t>>, [found |-> FALSE, confirmed |-> 0])
  /\ UNCHANGED <<now, nnode>>

\* connection nd asks what to send; `cands` = the transactions it may be given. A connection that already has a transaction gets
\* nothing more (the caller is not supposed to ask twice; the class refuses).
HasTx(nd) == \E t \in present : \E i \in 1..Len(sends[t]) : sends[t][i].node = nd
PickFrom(cands, nd) ==
  /\ nd <= nnode + 1 /\ nd <= MaxNodes
  /\ nnode' = IF nd = nnode + 1 THEN nnode + 1 ELSE nnode
  /\ IF cands = {} \/ HasTx(nd)
     THEN UNCHANGED <<present, sends, added>> /\ Step(<<"pick", nd>>, "none")
     ELSE \E t \in cands :
            /\ sends' = [sends EXCEPT ![t] = Append(@, [node |-> nd, picked |-> now, conf |-> 0])]
            /\ UNCHANGED <<present, added>>
            /\ Step(<<"pick", nd>>, t)
  /\ UNCHANGED now
Pick(nd) == PickFrom(Best, nd)                                    \* as coded: the most urgent pending transaction
PickAnyPending(nd) == PickFrom({t \in Txs : Pending(t)}, nd)      \* all the property asks for: some transaction with attempts left

GetTxForNode(nd) ==
  /\ UNCHANGED <<present, sends, added, now, nnode>>
  /\ Step(<<"txfornode", nd>>, IF NodeOf(nd) = {} THEN "none" ELSE CHOOSE t \in NodeOf(nd) : TRUE)

Confirm(nd) ==
  /\ sends' = [t \in Txs |-> [i \in 1..Len(sends[t]) |-> IF sends[t][i].node = nd THEN [sends[t][i] EXCEPT !.conf = now] ELSE sends[t][i]]]
  /\ UNCHANGED <<present, added, now, nnode>>
  /\ Step(<<"confirm", nd>>, "none")

DidConfirm(nd) ==
  /\ UNCHANGED <<present, sends, added, now, nnode>>
  /\ Step(<<"didconfirm", nd>>, \E t \in present : \E i \in 1..Len(sends[t]) : sends[t][i].node = nd /\ sends[t][i].conf > 0)

HavePending ==
  /\ UNCHANGED <<present, sends, added, now, nnode>>
  /\ Step(<<"havepending">>, \E t \in Txs : Pending(t))

IsStale(t) == Pending(t) /\ IF NumConf(t) = 0 THEN added[t] < now - InitialStale ELSE LastConf(t) < now - Stale
GetStale ==
  /\ UNCHANGED <<present, sends, added, now, nnode>>
  /\ Step(<<"stale">>, {t \in Txs : IsStale(t)})

Tick(d) ==
  /\ now' = now + d
  /\ UNCHANGED <<present, sends, added, nnode>>
  /\ Step(<<"tick", d>>, "none")

Init ==
  /\ present = {} /\ sends = [t \in Txs |-> <<>>] /\ added = [t \in Txs |-> 0]
  /\ now = 1000 /\ nnode = 0 /\ n = 0 /\ lastAct = <<"init">> /\ lastRes = "none"

Act ==
  \/ \E t \in Txs : Add(t) \/ Remove(t)
  \/ \E nd \in 1..MaxNodes : (nd <= nnode + 1) /\ (Pick(nd) \/ GetTxForNode(nd) \/ Confirm(nd) \/ DidConfirm(nd))
  \/ HavePending \/ GetStale
  \/ \E d \in {1, Stale + 1, InitialStale + 1} : Tick(d)
Next == n < MaxSteps /\ Act
Spec == Init /\ [][Next]_vars

\* ---------------------------------------------------------------- the property
\* the queue never holds more than the maximum number of transactions
QueueBounded == Cardinality(present) <= MaxTx
\* a transaction is sent at most MaxAtt times (the list of attempts is cleared only by re-adding or removing it)
AttemptsBounded == \A t \in Txs : Len(sends[t]) <= MaxAtt
\* one transaction per connection: a node id occurs in at most one attempt of at most one transaction
OnePerConnection == \A nd \in 1..MaxNodes : Cardinality({<<t, i>> \in Txs \X (1..MaxAtt) : i <= Len(sends[t]) /\ sends[t][i].node = nd}) <= 1
\* a connection is only ever told the transaction that was picked for it
TxForNodeIsThePick == [][lastAct'[1] = "txfornode" =>
                            (lastRes' = "none" \/ \E i \in 1..Len(sends[lastRes']) : sends[lastRes'][i].node = lastAct'[2])]_vars
\* nothing is picked once the attempts are used up
NoPickWhenExhausted == [][(lastAct'[1] = "pick" /\ lastRes' # "none") => Len(sends[lastRes']) < MaxAtt]_vars
\* an attempt list only shrinks through Add (of an exhausted transaction) or Remove
AttemptsOnlyResetByAddOrRemove == [][\A t \in Txs : Len(sends'[t]) < Len(sends[t]) => lastAct' \in {<<"add", t>>, <<"remove", t>>, <<"init">>}]_vars

Info == [t \in present |-> [sent |-> Len(sends[t]), confirmed |-> NumConf(t), left |-> MaxAtt - Len(sends[t])]]
====
