CONSTANTS
  Txs = {"a", "b", "c", "d"}
  MaxTx = 3
  MaxAtt = 3
  MaxNodes = 100000
  MaxSteps = 100000
  InitialStale = 300
  Stale = 60
INIT TInit
NEXT TNext
INVARIANTS QueueBounded AttemptsBounded
PROPERTIES TxForNodeIsThePick NoPickWhenExhausted AttemptsOnlyResetByAddOrRemove
POSTCONDITION Accepted
CHECK_DEADLOCK FALSE
