---- MODULE TracePrivBroadcast ----
(* Engine E3: is a call sequence recorded from the real PrivateBroadcast (adapter mode "drive") a behaviour of PrivBroadcast?   *)
(* Every logged call must be the corresponding action; the logged result must be one the specification allows (PickTxForSend may  *)
(* give any pending transaction: TLC follows the choice the implementation made) and the logged GetBroadcastInfo() must be the    *)
(* model's.                                                                                                                       *)
EXTENDS PrivBroadcast, Json, IOUtils
TraceLog == ndJsonDeserialize(IOEnv.TRACE)
VARIABLE l
tvars == <<present, sends, added, now, nnode, n, lastAct, lastRes, l>>
Ev == TraceLog[l]
IsEvent(e) == l <= Len(TraceLog) /\ TraceLog[l].e = e /\ l' = l + 1
InfoAll == [t \in Txs |-> [present |-> t \in present, sent |-> Len(sends[t]), confirmed |-> NumConf(t)]]
Logged == Ev.info = InfoAll'

TInit == Init /\ l = 1
TReset == /\ IsEvent("reset")
          /\ present' = {} /\ sends' = [t \in Txs |-> <<>>] /\ added' = [t \in Txs |-> 0]
          /\ now' = 1000 /\ nnode' = 0 /\ n' = 0 /\ lastAct' = <<"init">> /\ lastRes' = "none"
TAdd == IsEvent("add") /\ Add(Ev.tx) /\ lastRes' = Ev.res /\ Logged
TRemove == IsEvent("remove") /\ Remove(Ev.tx) /\ lastRes' = Ev.res /\ Logged
\* which pending transaction is the most urgent one is not part of the property: any pending transaction is accepted (SAFE mode)
TPick == IsEvent("pick") /\ PickAnyPending(Ev.node) /\ lastRes' = Ev.res /\ Logged
TTxForNode == IsEvent("txfornode") /\ GetTxForNode(Ev.node) /\ lastRes' = Ev.res /\ Logged
TConfirm == IsEvent("confirm") /\ Confirm(Ev.node) /\ Logged
TDidConfirm == IsEvent("didconfirm") /\ DidConfirm(Ev.node) /\ lastRes' = Ev.res /\ Logged
THavePending == IsEvent("havepending") /\ HavePending /\ lastRes' = Ev.res /\ Logged
\* (what counts as stale is not part of the property either: the answer is only required to name pending transactions)
TStale == IsEvent("stale") /\ GetStale /\ {Ev.res[i] : i \in 1..Len(Ev.res)} \subseteq {t \in Txs : Pending(t)} /\ Logged
TTick == IsEvent("tick") /\ Tick(Ev.dt) /\ Logged
TNext == TReset \/ TAdd \/ TRemove \/ TPick \/ TTxForNode \/ TConfirm \/ TDidConfirm \/ THavePending \/ TStale \/ TTick
Accepted == TLCGet("stats").diameter - 1 = Len(TraceLog)
====
