CONSTANTS
  MaxSteps = 4
  MaxConns = 2
  Peers = {1, 3}
INIT Init
NEXT Next
VIEW View0
INVARIANTS TypeOK
PROPERTIES ServedOnlyIfAnnounced SeenOnlyByTrickle PrivateStaysOut PrivateNotLeaked OneTxPerConnection
ACTION_CONSTRAINT Emit
CHECK_DEADLOCK FALSE
