---- MODULE TxPrivacy ----
(***************************************************************************)
(* C39 (a): which unconfirmed transactions a peer can obtain by getdata,   *)
(* and (b, node level) how a transaction submitted for private broadcast   *)
(* travels.  Model of the relevant parts of src/net_processing.cpp:        *)
(*   FindTxForGetData / CTxMemPool::info_for_relay: a transaction is       *)
(*     served to a peer iff it entered the pool before the node last sent  *)
(*     that peer an inventory trickle (m_last_inv_sequence) or it is in    *)
(*     the most recent block.  Mempool sequence numbers are abstracted to  *)
(*     seen[p] = the pool at p's last trickle (a re-entering transaction   *)
(*     gets a new sequence number, i.e. leaves seen).                      *)
(*   InitiateTxBroadcastPrivate / PushPrivateBroadcastTx / the getdata and *)
(*     pong handling of private-broadcast connections / removal from the   *)
(*     queue when the transaction comes back in a tx message.              *)
(* Transactions: "a" (may be submitted privately) and "b".  Normal peers:  *)
(* 1 outbound, 2 inbound, 3 inbound with noban (every SendMessages round   *)
(* trickles).  Private-broadcast connections c1, c2, ... are opened one    *)
(* after the other.                                                        *)
(***************************************************************************)
EXTENDS Integers, Sequences, FiniteSets, TLC, VF
CONSTANTS MaxSteps, MaxConns, Peers

Txs == {"a", "b"}
NoBan(p) == p = 3
Conns == 1..MaxConns

VARIABLES pool,     \* mempool
          seen,     \* per normal peer: pool transactions that entered before the peer's last trickle
          recent,   \* transactions of the most recent block
          mined,    \* transactions confirmed (they cannot be submitted again)
          toinv,    \* per normal peer: transactions queued for announcement (m_tx_inventory_to_send)
          known,    \* per normal peer: transactions the peer is known to have (m_tx_inventory_known_filter)
          due,      \* per normal peer: the clock has passed the peer's inventory timer (its next SendMessages round trickles)
          pbq,      \* private broadcast queue
          conn,     \* private-broadcast connections: "unused" | "inv" (INV sent) | "sent" (TX + PING sent) | "closed"
          ctx,      \* transaction picked for each connection ("" = none)
          nconn,    \* connections opened so far
          n, lastAct, lastRes
vars == <<pool, seen, recent, mined, toinv, known, due, pbq, conn, ctx, nconn, n, lastAct, lastRes>>
View0 == <<pool, seen, recent, mined, toinv, known, due, pbq, conn, ctx, nconn, n>>

Step(a, r) == n' = n + 1 /\ lastAct' = a /\ lastRes' = r
NoMsgs == [to |-> "none", msgs |-> <<>>]
PName(p) == CASE p = 1 -> "p1" [] p = 2 -> "p2" [] p = 3 -> "p3"       \* (TLC cannot compare an integer with a string)
PNames == {PName(p) : p \in Peers}
\* a set of transactions as a sorted sequence (message payloads are compared as sequences)
SeqOf(S) == IF S = {} THEN <<>> ELSE IF S = {"a"} THEN <<"a">> ELSE IF S = {"b"} THEN <<"b">> ELSE <<"a", "b">>
Msg(ty, S) == [type |-> ty, txs |-> SeqOf(S)]

\* relay bookkeeping when transaction t, learnt from `from` (0 = the node's own user), is accepted: InitiateTxBroadcastToAll
\* (queued for every peer; what the peer is known to have is filtered out when the INV is built)
Announce(t, from) ==
  /\ toinv' = [p \in Peers |-> toinv[p] \cup {t}]
  /\ known' = [p \in Peers |-> IF p = from THEN known[p] \cup {t} ELSE known[p]]

\* one inventory trickle to p inside SendMessages: INV for the queued pool transactions the peer is not known to have; everything in
\* the pool becomes servable
InvSet(p, po, ti, kn) == (ti[p] \cap po) \ kn[p]
TrickleMsgs(p, po, ti, kn) == IF InvSet(p, po, ti, kn) = {} THEN <<>> ELSE <<Msg("inv", InvSet(p, po, ti, kn))>>

\* ---------------------------------------------------------------- actions of the node's user
\* sendrawtransaction (mempool + broadcast to all)
SubmitNormal(t) ==
  /\ t \notin pool /\ t \notin mined
  /\ pool' = pool \cup {t}
  /\ Announce(t, 0)
  \* a noban peer is trickled in every SendMessages round; no round runs here
  /\ UNCHANGED <<seen, recent, mined, due, pbq, conn, ctx, nconn>>
  /\ Step(<<"submit", t>>, NoMsgs)

\* sendrawtransaction with private broadcast: test-accept only, the transaction goes to the queue, not to the pool
SubmitPrivate(t) ==
  /\ t = "a" /\ t \notin mined /\ t \notin pool
  /\ pbq' = pbq \cup {t}
  /\ UNCHANGED <<pool, seen, recent, mined, toinv, known, due, conn, ctx, nconn>>
  /\ Step(<<"submitprivate", t>>, NoMsgs)

\* ---------------------------------------------------------------- normal peers
\* Every handler round of a peer ends with SendMessages(p). It trickles (INV of the queued transactions, and from then on everything in
\* the pool may be requested by p) if the clock has passed p's inventory timer since p's last trickle, or if p has the noban permission.
Trickles(p, d) == d[p] \/ NoBan(p)
\* the clock moves 10 minutes (past every peer's inventory timer), then SendMessages(p)
Trickle(p) ==
  /\ seen' = [seen EXCEPT ![p] = pool]
  /\ known' = [known EXCEPT ![p] = @ \cup (toinv[p] \cap pool)]
  /\ toinv' = [toinv EXCEPT ![p] = {}]
  /\ due' = [q \in Peers |-> q # p]
  /\ UNCHANGED <<pool, recent, mined, pbq, conn, ctx, nconn>>
  /\ Step(<<"trickle", p>>, [to |-> PName(p), msgs |-> TrickleMsgs(p, pool, toinv, known)])

\* getdata from p for t: answered from the pool only if t was there at p's last trickle, or from the most recent block; then the
\* round's SendMessages
GetData(p, t) ==
  LET served == t \in seen[p] \/ t \in recent
      tr == Trickles(p, due)
      after == IF tr THEN TrickleMsgs(p, pool, toinv, known) ELSE <<>>
  IN /\ seen' = IF tr THEN [seen EXCEPT ![p] = pool] ELSE seen
     /\ known' = IF tr THEN [known EXCEPT ![p] = @ \cup (toinv[p] \cap pool)] ELSE known
     /\ toinv' = IF tr THEN [toinv EXCEPT ![p] = {}] ELSE toinv
     /\ due' = [due EXCEPT ![p] = FALSE]
     /\ UNCHANGED <<pool, recent, mined, pbq, conn, ctx, nconn>>
     /\ Step(<<"getdata", p, t>>, [to |-> PName(p), msgs |-> <<Msg(IF served THEN "tx" ELSE "notfound", {t})>> \o after])

\* p sends the node transaction t in a tx message: a privately broadcast transaction coming back leaves the queue; the
\* transaction enters the pool (unless already there) and is relayed like any other; then the round's SendMessages
PeerTx(p, t) ==
  /\ t \notin mined
  /\ pbq' = pbq \ {t}
  /\ pool' = pool \cup {t}
  /\ due' = [due EXCEPT ![p] = FALSE]
  /\ LET k1 == [known EXCEPT ![p] = @ \cup {t}]
         ti1 == IF t \in pool THEN toinv ELSE [q \in Peers |-> toinv[q] \cup {t}]
     IN IF Trickles(p, due)
        THEN /\ seen' = [seen EXCEPT ![p] = pool']
             /\ known' = [k1 EXCEPT ![p] = @ \cup (ti1[p] \cap pool')]
             /\ toinv' = [ti1 EXCEPT ![p] = {}]
             /\ Step(<<"peertx", p, t>>, [to |-> PName(p), msgs |-> TrickleMsgs(p, pool', ti1, k1)])
        ELSE /\ seen' = seen /\ known' = k1 /\ toinv' = ti1
             /\ Step(<<"peertx", p, t>>, [to |-> PName(p), msgs |-> <<>>])
  /\ UNCHANGED <<recent, mined, conn, ctx, nconn>>

\* the node mines / receives a block confirming the whole pool
Block ==
  /\ pool # {}
  /\ recent' = pool /\ mined' = mined \cup pool /\ pool' = {}
  /\ seen' = [p \in Peers |-> {}]
  /\ toinv' = [p \in Peers |-> toinv[p] \ pool]
  /\ UNCHANGED <<known, due, pbq, conn, ctx, nconn>>
  /\ Step(<<"block">>, NoMsgs)

\* ---------------------------------------------------------------- private-broadcast connections
Pending == pbq         \* (the attempt limit of 1000 is out of reach here; the queue itself is specs/TxPrivacy/PrivBroadcast.tla)
\* a new connection completes its handshake: the node picks a queued transaction and announces exactly it (by txid), or hangs up
PBConnect ==
  /\ nconn < MaxConns
  /\ nconn' = nconn + 1
  /\ IF Pending = {}
     THEN /\ conn' = [conn EXCEPT ![nconn + 1] = "closed"] /\ ctx' = ctx
          /\ Step(<<"pbconnect", nconn + 1>>, [to |-> "c", msgs |-> <<>>])
     ELSE LET t == CHOOSE x \in Pending : TRUE IN      \* at most one transaction is ever queued in this model
          /\ conn' = [conn EXCEPT ![nconn + 1] = "inv"] /\ ctx' = [ctx EXCEPT ![nconn + 1] = t]
          /\ Step(<<"pbconnect", nconn + 1>>, [to |-> "c", msgs |-> <<Msg("inv", {t})>>])
  /\ UNCHANGED <<pool, seen, recent, mined, toinv, known, due, pbq>>

\* getdata on a private-broadcast connection: served only if it asks for exactly the announced transaction and that transaction is
\* still queued; anything else ends the connection
PBGetData(c, t) ==
  /\ c <= nconn /\ conn[c] \in {"inv", "sent"}
  /\ IF ctx[c] = t /\ t \in pbq
     THEN /\ conn' = [conn EXCEPT ![c] = "sent"]
          /\ Step(<<"pbgetdata", c, t>>, [to |-> "c", msgs |-> <<Msg("tx", {t}), Msg("ping", {})>>])
     ELSE /\ conn' = [conn EXCEPT ![c] = "closed"]
          /\ Step(<<"pbgetdata", c, t>>, [to |-> "c", msgs |-> <<>>])
  /\ UNCHANGED <<pool, seen, recent, mined, toinv, known, due, pbq, ctx, nconn>>

\* the peer answers the ping that followed the transaction: reception confirmed, connection done
PBPong(c) ==
  /\ c <= nconn /\ conn[c] = "sent"
  /\ conn' = [conn EXCEPT ![c] = "closed"]
  /\ UNCHANGED <<pool, seen, recent, mined, toinv, known, due, pbq, ctx, nconn>>
  /\ Step(<<"pbpong", c>>, [to |-> "c", msgs |-> <<>>])

Init ==
  /\ pool = {} /\ recent = {} /\ mined = {} /\ pbq = {}
  /\ seen = [p \in Peers |-> {}] /\ toinv = [p \in Peers |-> {}] /\ known = [p \in Peers |-> {}] /\ due = [p \in Peers |-> FALSE]
  /\ conn = [c \in Conns |-> "unused"] /\ ctx = [c \in Conns |-> ""] /\ nconn = 0
  /\ n = 0 /\ lastAct = <<"init">> /\ lastRes = NoMsgs

Act ==
  \/ \E t \in Txs : SubmitNormal(t) \/ SubmitPrivate(t)
  \/ \E p \in Peers : Trickle(p)
  \/ \E p \in Peers, t \in Txs : GetData(p, t) \/ PeerTx(p, t)
  \/ Block
  \/ PBConnect
  \/ \E c \in Conns, t \in Txs : PBGetData(c, t)
  \/ \E c \in Conns : PBPong(c)
Next == n < MaxSteps /\ Act
Spec == Init /\ [][Next]_vars

\* ---------------------------------------------------------------- the property
TypeOK == pool \subseteq Txs /\ recent \subseteq Txs /\ pbq \subseteq Txs /\ \A p \in Peers : seen[p] \subseteq pool

MsgsOf(r, ty) == {i \in 1..Len(r.msgs) : r.msgs[i].type = ty}
TxsIn(r, ty) == UNION {{r.msgs[i].txs[j] : j \in 1..Len(r.msgs[i].txs)} : i \in MsgsOf(r, ty)}
\* (a) a peer obtains an unconfirmed transaction by request only if it entered the pool before the node last sent that peer
\*     transaction announcements, or it is in the most recent block
ServedOnlyIfAnnounced ==
  [][\A p \in Peers, t \in Txs : (lastAct' = <<"getdata", p, t>> /\ t \in TxsIn(lastRes', "tx")) => (t \in seen[p] \/ t \in recent)]_vars
\* seen really is "entered before the last trickle": nothing enters seen except through a trickle to that peer
SeenOnlyByTrickle ==
  [][\A p \in Peers : seen'[p] \subseteq seen[p] \/ lastAct' = <<"trickle", p>> \/ (Trickles(p, due) /\ lastAct'[1] \in {"getdata", "peertx"} /\ lastAct'[2] = p)]_vars
\* (b) a privately submitted transaction stays out of the pool until it is received back from the network or submitted normally
PrivateStaysOut ==
  [][\A t \in Txs : (t \in pbq /\ t \notin pool /\ t \in pool') => (lastAct'[1] \in {"peertx", "submit"} /\ lastAct'[Len(lastAct')] = t)]_vars
\* ... while it is queued and not in the pool no normal peer is sent it or its announcement
PrivateNotLeaked ==
  [][\A t \in Txs : (t \in pbq /\ t \notin pool /\ t \notin pool' /\ t \notin recent /\ lastRes'.to \in PNames) => t \notin TxsIn(lastRes', "inv") \cup TxsIn(lastRes', "tx")]_vars
\* ... a private-broadcast connection is sent the announcement of exactly one transaction, and the transaction itself only in answer to
\*     the request for it
OneTxPerConnection ==
  [][lastRes'.to = "c" => /\ Cardinality(TxsIn(lastRes', "inv")) <= 1
                          /\ (TxsIn(lastRes', "inv") # {} => lastAct'[1] = "pbconnect")
                          /\ (TxsIn(lastRes', "tx") # {} => /\ lastAct'[1] = "pbgetdata"
                                                            /\ TxsIn(lastRes', "tx") = {lastAct'[3]}
                                                            /\ ctx[lastAct'[2]] = lastAct'[3])]_vars

Proj == [pool |-> pool, pbq |-> pbq,
         \* not compared (skipped by the adapter): makes the projection injective
         hid |-> [seen |-> seen, recent |-> recent, mined |-> mined, toinv |-> toinv, known |-> known, due |-> due, conn |-> conn, ctx |-> ctx, nconn |-> nconn, n |-> n]]
Emit == VFEdge(Proj, lastAct', lastRes', Proj')
====
