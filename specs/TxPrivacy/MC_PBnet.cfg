\* deeper into the private-broadcast flow: one normal peer, two private-broadcast connections
CONSTANTS
  MaxSteps = 8
  MaxConns = 3
  Peers = {2}
INIT Init
NEXT Next
VIEW View0
INVARIANTS TypeOK
PROPERTIES ServedOnlyIfAnnounced SeenOnlyByTrickle PrivateStaysOut PrivateNotLeaked OneTxPerConnection
CHECK_DEADLOCK FALSE
