CONSTANTS
  MaxSteps = 14
  MaxConns = 3
  Peers = {1, 2, 3}
INIT Init
NEXT Next
VIEW View0
INVARIANTS TypeOK
PROPERTIES ServedOnlyIfAnnounced SeenOnlyByTrickle PrivateStaysOut PrivateNotLeaked OneTxPerConnection
ACTION_CONSTRAINT Emit
CHECK_DEADLOCK FALSE
