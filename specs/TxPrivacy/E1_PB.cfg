\* deeper into the private-broadcast flow: one normal peer, two private-broadcast connections
CONSTANTS
  MaxSteps = 6
  MaxConns = 2
  Peers = {2}
INIT Init
NEXT Next
VIEW View0
INVARIANTS TypeOK
PROPERTIES ServedOnlyIfAnnounced SeenOnlyByTrickle PrivateStaysOut PrivateNotLeaked OneTxPerConnection
ACTION_CONSTRAINT Emit
CHECK_DEADLOCK FALSE
