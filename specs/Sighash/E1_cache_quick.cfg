CONSTANTS
  MaxIn = 2
  MaxOut = 2
  HashTypes = {1}
  MaxReq = 3
  CacheHts = {1, 4, 2, 3, 129}
INIT InitC
NEXT NextC
VIEW ViewC
INVARIANTS SlotsSound
PROPERTIES CacheTransparent AcceptsExactly
ACTION_CONSTRAINT EmitC
CHECK_DEADLOCK FALSE
