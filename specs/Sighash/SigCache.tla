---- MODULE SigCache ----
(***************************************************************************)
(* C10, the sighash midstate cache as a stateful object (engine E1).       *)
(*                                                                         *)
(* One GenericTransactionSignatureChecker - hence one SigHashCache - serves *)
(* every ECDSA signature check of one input: scriptSig, scriptPubKey, P2SH *)
(* redeemScript, witness script, with whatever scriptCode FindAndDelete /  *)
(* OP_CODESEPARATOR leave.  The cache has six slots (hash type class); a   *)
(* slot holds the scriptCode it was filled for and the preimage of the     *)
(* digest up to, but excluding, the hash type (the SHA256 midstate).       *)
(* SignatureHash with a cache: on a hit (slot filled for THE SAME          *)
(* scriptCode) the stored preimage is completed with the requested hash    *)
(* type; otherwise the digest is computed and the slot is overwritten.     *)
(*                                                                         *)
(* Behaviours are sequences of signature checks through one checker; the   *)
(* scriptCodes are 1 and 2 (same length, different content) and 3          *)
(* (different length).  TLC proves on every transition that the cache is    *)
(* transparent - the digest through the cache is the stateless Digest of   *)
(* module Sighash, which holds because the preimage depends on the hash    *)
(* type only through the slot - and that a signature made for scriptCode   *)
(* `signed` is accepted for scriptCode `exec` iff the scriptCode is not    *)
(* committed or signed = exec, whatever was checked before.                *)
(***************************************************************************)
EXTENDS Sighash
CONSTANTS MaxReq,        \* number of signature checks per behaviour
          CacheHts       \* hash types requested (one byte: they travel in signatures)
VARIABLES cache, n, lastAct, lastRes
varsC == <<sv, c, m, cache, n, lastAct, lastRes>>

Codes == {1, 2, 3}
CodeLen(k) == IF k = 3 THEN 36 ELSE 35          \* what the harness realises: <pk> CHECKSIG, <pk> CHECKSIGVERIFY, NOP <pk> CHECKSIG
Slots == 0..5
\* SigHashCache::CacheIndex
Slot(ht) == 3 * (IF Acp(ht) THEN 1 ELSE 0) + 2 * (IF ht % 32 = 3 THEN 1 ELSE 0) + (IF ht % 32 = 2 THEN 1 ELSE 0)
NoEntry == [code |-> 0, tag |-> "none", pre |-> <<>>]
PreOf(d) == SubSeq(d.parts, 1, Len(d.parts) - 1)            \* everything hashed before the hash type
Complete(e, ht) == [tag |-> e.tag, parts |-> e.pre \o << <<ht>> >>]
Ctx(code, ht) == [c EXCEPT !.code = code, !.ht = ht]

\* SignatureHash(scriptCode, tx, nIn, ht, amount, sigversion, txdata, &cache), statement by statement
CachedSigHash(cch, x) ==
  IF sv = "BASE" /\ LOut(x.ht) = "SINGLE" /\ x.i > Len(x.outs) THEN [d |-> One, cache |-> cch]      \* returns before the cache is consulted
  ELSE LET e == cch[Slot(x.ht)] IN
       IF e.code = x.code THEN [d |-> Complete(e, x.ht), cache |-> cch]                            \* Load: same slot AND same scriptCode
       ELSE LET full == Digest(x, sv) IN
            [d |-> full, cache |-> [cch EXCEPT ![Slot(x.ht)] = [code |-> x.code, tag |-> full.tag, pre |-> PreOf(full)]]]   \* Store

Shapes == { [nin |-> 2, nout |-> 2, i |-> 1], [nin |-> 2, nout |-> 1, i |-> 2] }     \* the second: SINGLE has no matching output
InitC == /\ sv \in {"BASE", "WITNESS_V0"}
         /\ \E s \in Shapes : c = BaseCtx(s.nin, s.nout, s.i, 1, 0)
         /\ m = NoMut
         /\ cache = [s \in Slots |-> NoEntry]
         /\ n = 0
         /\ lastAct = <<"init">> /\ lastRes = [ok |-> TRUE, eq |-> TRUE]
\* one CheckECDSASignature call: a signature by the right key over the (stateless) digest for scriptCode `signed` and hash type ht
\* is checked while scriptCode `exec` is being executed
Check(signed, exec, ht) ==
  LET r == CachedSigHash(cache, Ctx(exec, ht)) IN
  /\ n < MaxReq
  /\ cache' = r.cache
  /\ n' = n + 1
  /\ lastAct' = <<"check", signed, exec, ht>>
  /\ lastRes' = [ok |-> Digest(Ctx(signed, ht), sv) = r.d,                 \* what the checker answers
                 eq |-> r.d = Digest(Ctx(exec, ht), sv)]                   \* digest through the cache = stateless digest
  /\ UNCHANGED <<sv, c, m>>
NextC == \E signed \in Codes, exec \in Codes, ht \in CacheHts : Check(signed, exec, ht)

\* ---- the property on every transition
CacheTransparent == [][lastRes'.eq]_varsC
AcceptsExactly == [][lastRes'.ok <=> (lastAct'[2] = lastAct'[3] \/ ~Commits(sv, Ctx(lastAct'[3], lastAct'[4]), [k |-> "code", n |-> 0]))]_varsC
\* a filled slot holds the preimage of its scriptCode for every hash type of that slot
SlotsSound == \A s \in Slots : cache[s].code # 0 =>
                \A ht \in CacheHts : (Slot(ht) = s /\ ~(sv = "BASE" /\ LOut(ht) = "SINGLE" /\ c.i > Len(c.outs))) => Complete(cache[s], ht) = Digest(Ctx(cache[s].code, ht), sv)

ProjC == [sv |-> sv, ctx |-> c, n |-> n, slots |-> [s \in Slots |-> cache[s].code]]
ViewC == <<sv, c, cache, n>>
EmitC == VFEdge(ProjC, lastAct', lastRes', ProjC')
====
