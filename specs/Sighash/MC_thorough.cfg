CONSTANTS
  MaxIn = 3
  MaxOut = 3
  HashTypes = {0, 1, 2, 3, 4, 65, 128, 129, 130, 131, 255, 257}
INIT Init
NEXT Next
INVARIANTS ValidityAgrees MutValidityAgrees CommitsAgrees AcceptIffUncommitted NoSelfReference EmitRow
CHECK_DEADLOCK FALSE
