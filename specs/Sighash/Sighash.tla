---- MODULE Sighash ----
(***************************************************************************)
(* C10: which transaction data a signature commits to.                     *)
(*                                                                         *)
(* The digest a signature is checked against is modelled as the TUPLE OF   *)
(* THE FIELDS THAT ARE HASHED (hash functions are injective constructors). *)
(* Three constructive definitions mirror SignatureHash /                   *)
(* SignatureHashSchnorr of src/script/interpreter.cpp:                     *)
(*   Legacy (SigVersion BASE), Bip143 (WITNESS_V0), Bip341 (TAPROOT and    *)
(*   TAPSCRIPT).                                                           *)
(* The declarative side is the table Commits(sigversion, context, field):  *)
(* what the BIPs say a hash type commits to.  TLC proves on the bounded    *)
(* domain that for every single-field mutation mu of a base context        *)
(*      Digest(mu(c)) # Digest(c)  <=>  Commits(sv, c, field(mu))          *)
(* and emits one row per (context, mutation) which the harness replays on  *)
(* the real functions (digest equality) and on VerifyScript with real      *)
(* signatures (accept <=> digest unchanged and signature/key untouched).   *)
(*                                                                         *)
(* All field values are abstract integers; the harness concretises them    *)
(* injectively per field.  Every digest is a record [tag, parts] where     *)
(* parts is a sequence of sequences of integers, so that any two digests   *)
(* can be compared by TLC.                                                 *)
(***************************************************************************)
EXTENDS Integers, Sequences, FiniteSets, TLC, VF
CONSTANTS MaxIn, MaxOut,
          HashTypes          \* the hash types enumerated (legacy / v0 accept any 32-bit value, taproot one byte)

SigVersions == {"BASE", "WITNESS_V0", "TAPROOT", "TAPSCRIPT"}
IsTap(sv) == sv \in {"TAPROOT", "TAPSCRIPT"}

(***************************************************************************)
(* Hash type decoding                                                      *)
(***************************************************************************)
Acp(ht) == (ht \div 128) % 2 = 1                      \* SIGHASH_ANYONECANPAY = 0x80
\* legacy and BIP143 look at the low five bits only: 2 = NONE, 3 = SINGLE, everything else behaves like ALL
LOut(ht) == IF ht % 32 = 2 THEN "NONE" ELSE IF ht % 32 = 3 THEN "SINGLE" ELSE "ALL"
\* BIP341: only these seven values are valid; 0 (SIGHASH_DEFAULT) means ALL
TapValidHt(ht) == ht \in {0, 1, 2, 3, 129, 130, 131}
TapOut(ht) == IF ht = 0 THEN "ALL" ELSE IF ht % 4 = 2 THEN "NONE" ELSE IF ht % 4 = 3 THEN "SINGLE" ELSE "ALL"
OutT(sv, ht) == IF IsTap(sv) THEN TapOut(ht) ELSE LOut(ht)
FlipAcp(ht) == IF Acp(ht) THEN ht - 128 ELSE ht + 128
FlipHi(ht) == IF ht >= 256 THEN ht - 256 ELSE ht + 256    \* a bit above the low byte (only reachable through the API)

(***************************************************************************)
(* Contexts.  A context is everything the digest can depend on:            *)
(*  ver, lock                     transaction version and nLockTime        *)
(*  ins[n] = [prev, seq, ssig, wit, amt, spk]   prevout, nSequence,         *)
(*           scriptSig, witness, and the spent output (amount, script)     *)
(*  outs[m] = [val, spk]                                                   *)
(*  i        index of the input being signed (1-based)                     *)
(*  ht       hash type                                                     *)
(*  code     scriptCode (legacy / v0; FindAndDelete and the position of    *)
(*           the last OP_CODESEPARATOR are part of it)                     *)
(*  annex    0 = no annex, else identifies the annex (taproot)             *)
(*  leaf, codesep   tapleaf hash and codeseparator position (tapscript)    *)
(***************************************************************************)
In(n) == [prev |-> n, seq |-> 20 + n, ssig |-> 30 + n, wit |-> 40 + n, amt |-> 50 + n, spk |-> 60 + n]
Out(m) == [val |-> 70 + m, spk |-> 80 + m]
BaseCtx(nin, nout, i, ht, annex) ==
  [ver |-> 2, lock |-> 5, ins |-> [n \in 1..nin |-> In(n)], outs |-> [m \in 1..nout |-> Out(m)],
   i |-> i, ht |-> ht, code |-> 1, annex |-> annex, leaf |-> 1, codesep |-> 1]

RECURSIVE Flat(_)
Flat(ss) == IF Len(ss) = 0 THEN <<>> ELSE Head(ss) \o Flat(Tail(ss))
H(s) == <<1>> \o s             \* the hash of the byte string s (injective)
Zero == <<0>>                  \* the all-zero uint256 that BIP143 uses for "not committed"
Omit == <<>>                   \* nothing serialised
Blank == -1
Fail == [tag |-> "fail", parts |-> <<>>]     \* SignatureHashSchnorr returns false
One == [tag |-> "one", parts |-> <<>>]       \* the constant uint256 1

Prevs(c) == [n \in 1..Len(c.ins) |-> c.ins[n].prev]
Seqs(c) == [n \in 1..Len(c.ins) |-> c.ins[n].seq]
Amts(c) == [n \in 1..Len(c.ins) |-> c.ins[n].amt]
Spks(c) == [n \in 1..Len(c.ins) |-> c.ins[n].spk]
OutsFlat(c) == Flat([m \in 1..Len(c.outs) |-> <<c.outs[m].val, c.outs[m].spk>>])

(***************************************************************************)
(* Constructive side 1: the legacy digest (CTransactionSignatureSerializer)*)
(***************************************************************************)
LegacyIns(c) ==
  LET ot == LOut(c.ht) IN
  IF Acp(c.ht) THEN <<1, c.ins[c.i].prev, c.code, c.ins[c.i].seq>>
  ELSE <<Len(c.ins)>> \o Flat([n \in 1..Len(c.ins) |->
           <<c.ins[n].prev,
             IF n = c.i THEN c.code ELSE Blank,                               \* other scriptSigs are blanked
             IF n # c.i /\ ot \in {"NONE", "SINGLE"} THEN 0 ELSE c.ins[n].seq>>])   \* "let the others update at will"
LegacyOuts(c) ==
  LET ot == LOut(c.ht) IN
  IF ot = "NONE" THEN <<0>>
  ELSE IF ot = "SINGLE" THEN <<c.i>> \o Flat([m \in 1..c.i |-> IF m # c.i THEN <<Blank, Blank>> ELSE <<c.outs[m].val, c.outs[m].spk>>])
  ELSE <<Len(c.outs)>> \o OutsFlat(c)
Legacy(c) ==
  IF LOut(c.ht) = "SINGLE" /\ c.i > Len(c.outs) THEN One       \* the SIGHASH_SINGLE bug: no error, the digest is 1
  ELSE [tag |-> "legacy", parts |-> << <<c.ver>>, LegacyIns(c), LegacyOuts(c), <<c.lock>>, <<c.ht>> >>]   \* full 32-bit hash type

(***************************************************************************)
(* Constructive side 2: BIP143                                             *)
(***************************************************************************)
Bip143(c) ==
  LET ot == LOut(c.ht)
      hashPrevouts == IF ~Acp(c.ht) THEN H(Prevs(c)) ELSE Zero
      hashSequence == IF ~Acp(c.ht) /\ ot # "SINGLE" /\ ot # "NONE" THEN H(Seqs(c)) ELSE Zero
      hashOutputs == IF ot # "SINGLE" /\ ot # "NONE" THEN H(OutsFlat(c))
                     ELSE IF ot = "SINGLE" /\ c.i <= Len(c.outs) THEN H(<<c.outs[c.i].val, c.outs[c.i].spk>>)
                     ELSE Zero
  IN [tag |-> "bip143", parts |-> << <<c.ver>>, hashPrevouts, hashSequence, <<c.ins[c.i].prev>>, <<c.code>>, <<c.ins[c.i].amt>>,
                                     <<c.ins[c.i].seq>>, hashOutputs, <<c.lock>>, <<c.ht>> >>]

(***************************************************************************)
(* Constructive side 3: BIP341 / BIP342                                    *)
(***************************************************************************)
Bip341(c, sv) ==
  IF ~TapValidHt(c.ht) THEN Fail
  ELSE LET ot == TapOut(c.ht)
           acp == Acp(c.ht)
           ext == IF sv = "TAPSCRIPT" THEN 1 ELSE 0
           spendType == 2 * ext + (IF c.annex # 0 THEN 1 ELSE 0)
       IN IF ot = "SINGLE" /\ c.i > Len(c.outs) THEN Fail
          ELSE [tag |-> "bip341", parts |-> <<
                 <<0>>, <<c.ht>>, <<c.ver>>, <<c.lock>>,
                 IF ~acp THEN H(Prevs(c)) ELSE Omit,
                 IF ~acp THEN H(Amts(c)) ELSE Omit,
                 IF ~acp THEN H(Spks(c)) ELSE Omit,
                 IF ~acp THEN H(Seqs(c)) ELSE Omit,
                 IF ot = "ALL" THEN H(OutsFlat(c)) ELSE Omit,
                 <<spendType>>,
                 IF acp THEN <<c.ins[c.i].prev, c.ins[c.i].amt, c.ins[c.i].spk, c.ins[c.i].seq>> ELSE <<c.i>>,
                 IF c.annex # 0 THEN H(<<c.annex>>) ELSE Omit,
                 IF ot = "SINGLE" THEN H(<<c.outs[c.i].val, c.outs[c.i].spk>>) ELSE Omit,
                 IF sv = "TAPSCRIPT" THEN <<c.leaf, 0, c.codesep>> ELSE Omit >>]

Digest(c, sv) == IF sv = "BASE" THEN Legacy(c) ELSE IF sv = "WITNESS_V0" THEN Bip143(c) ELSE Bip341(c, sv)

(***************************************************************************)
(* Single-field mutations.  m = [k |-> kind, n |-> position or new value]  *)
(***************************************************************************)
D == 100
Mu(c, sv, m) ==
  CASE m.k = "none"      -> c
    [] m.k = "version"   -> [c EXCEPT !.ver = @ + D]
    [] m.k = "locktime"  -> [c EXCEPT !.lock = @ + D]
    [] m.k = "prevout"   -> [c EXCEPT !.ins[m.n].prev = @ + D]
    [] m.k = "sequence"  -> [c EXCEPT !.ins[m.n].seq = @ + D]
    [] m.k = "scriptsig" -> [c EXCEPT !.ins[m.n].ssig = @ + D]
    [] m.k = "witness"   -> [c EXCEPT !.ins[m.n].wit = @ + D]
    [] m.k = "amount"    -> [c EXCEPT !.ins[m.n].amt = @ + D]
    [] m.k = "spk"       -> [c EXCEPT !.ins[m.n].spk = @ + D]
    [] m.k = "outvalue"  -> [c EXCEPT !.outs[m.n].val = @ + D]
    [] m.k = "outscript" -> [c EXCEPT !.outs[m.n].spk = @ + D]
    \* the script that is executed: scriptCode for legacy / v0; for a tapscript spend the leaf, and with it the output key
    [] m.k = "code"      -> IF sv = "TAPSCRIPT" THEN [c EXCEPT !.leaf = @ + D, !.ins[c.i].spk = @ + D] ELSE [c EXCEPT !.code = @ + D]
    [] m.k = "leaf"      -> [c EXCEPT !.leaf = @ + D]
    [] m.k = "codesep"   -> [c EXCEPT !.codesep = @ + D]
    [] m.k = "annex"     -> [c EXCEPT !.annex = @ + 1]          \* 0 -> 1: an annex appears; 1 -> 2: its content changes
    [] m.k = "ht"        -> [c EXCEPT !.ht = m.n]
    [] m.k = "addin"     -> [c EXCEPT !.ins = Append(@, In(Len(@) + 1))]
    [] m.k = "addout"    -> [c EXCEPT !.outs = Append(@, Out(Len(@) + 1))]
    \* the signed input changes places with input m.n (and is signed / verified at its new index)
    [] m.k = "swap"      -> [c EXCEPT !.ins = [n \in 1..Len(c.ins) |-> IF n = c.i THEN c.ins[m.n] ELSE IF n = m.n THEN c.ins[c.i] ELSE c.ins[n]],
                                      !.i = m.n]

HtAlts(sv, ht) == ({FlipAcp(ht)} \cup (IF IsTap(sv) THEN (IF ht \in {0, 1} THEN {1 - ht} ELSE {}) ELSE {FlipHi(ht)})) \ {ht}
Mutations(sv, c) ==
  LET nin == Len(c.ins) nout == Len(c.outs) IN
       {[k |-> "none", n |-> 0], [k |-> "version", n |-> 0], [k |-> "locktime", n |-> 0], [k |-> "addin", n |-> 0], [k |-> "addout", n |-> 0]}
  \cup {[k |-> kk, n |-> n] : kk \in {"prevout", "sequence", "scriptsig", "witness", "amount"}, n \in 1..nin}
  \cup {[k |-> "spk", n |-> n] : n \in IF IsTap(sv) THEN 1..nin ELSE (1..nin) \ {c.i}}     \* legacy / v0: the own script is "code"
  \cup {[k |-> kk, n |-> n] : kk \in {"outvalue", "outscript"}, n \in 1..nout}
  \cup {[k |-> "swap", n |-> n] : n \in (1..nin) \ {c.i}}
  \cup {[k |-> "ht", n |-> h] : h \in HtAlts(sv, c.ht)}
  \cup (IF sv # "TAPROOT" THEN {[k |-> "code", n |-> 0]} ELSE {})
  \cup (IF sv = "TAPSCRIPT" THEN {[k |-> "leaf", n |-> 0], [k |-> "codesep", n |-> 0]} ELSE {})
  \cup (IF IsTap(sv) THEN {[k |-> "annex", n |-> 0]} ELSE {})

(***************************************************************************)
(* Declarative side: what the BIPs say.                                    *)
(*  ValidCtx: taproot rejects unknown hash types and SINGLE without a      *)
(*            matching output; legacy and v0 never fail.                   *)
(*  Commits:  does a signature made in context c commit to the field that  *)
(*            mutation m changes?  (c is a valid context.)                 *)
(***************************************************************************)
ValidCtx(sv, c) == IsTap(sv) => (TapValidHt(c.ht) /\ (TapOut(c.ht) = "SINGLE" => c.i <= Len(c.outs)))

Commits(sv, c, m) ==
  LET i == c.i
      nout == Len(c.outs)
      acp == Acp(c.ht)
      ot == OutT(sv, c.ht)
      tap == IsTap(sv)
      \* legacy SIGHASH_SINGLE without a matching output signs the constant 1: it commits to nothing at all
      nothing == sv = "BASE" /\ ot = "SINGLE" /\ i > nout
  IN CASE m.k = "none"      -> FALSE
       [] m.k = "scriptsig" -> FALSE                           \* signatures never cover scriptSigs ...
       [] m.k = "witness"   -> FALSE                           \* ... nor witnesses (the annex is separate)
       [] m.k = "version"   -> ~nothing
       [] m.k = "locktime"  -> ~nothing
       [] m.k = "code"      -> ~nothing
       [] m.k = "leaf"      -> TRUE
       [] m.k = "codesep"   -> TRUE
       [] m.k = "annex"     -> TRUE
       \* own prevout always; the others unless ANYONECANPAY
       [] m.k = "prevout"   -> ~nothing /\ (m.n = i \/ ~acp)
       \* own nSequence always; the others unless ANYONECANPAY, and for legacy / v0 only under ALL (BIP341 dropped that exception)
       [] m.k = "sequence"  -> ~nothing /\ (m.n = i \/ (~acp /\ (tap \/ ot = "ALL")))
       \* spent amounts: legacy none; v0 the own one; taproot the own one always and all of them unless ANYONECANPAY
       [] m.k = "amount"    -> IF sv = "BASE" THEN FALSE ELSE IF sv = "WITNESS_V0" THEN m.n = i ELSE (m.n = i \/ ~acp)
       \* spent scripts (other than through scriptCode): taproot only
       [] m.k = "spk"       -> tap /\ (m.n = i \/ ~acp)
       \* outputs: all under ALL, none under NONE, the one at the input's index under SINGLE
       [] m.k \in {"outvalue", "outscript"} -> ~nothing /\ (ot = "ALL" \/ (ot = "SINGLE" /\ m.n = i))
       \* the number of inputs is committed unless ANYONECANPAY
       [] m.k = "addin"     -> ~nothing /\ ~acp
       \* a new last output: covered by ALL; under SINGLE only if it is the one matching the signed input
       [] m.k = "addout"    -> IF ot = "ALL" THEN TRUE ELSE IF ot = "NONE" THEN FALSE ELSE i = nout + 1
       \* the hash type itself is part of the message (all 32 bits for ECDSA) - except that two "sign the constant 1" contexts coincide
       [] m.k = "ht"        -> ~(nothing /\ LOut(m.n) = "SINGLE")
       \* moving the signed input to another index: the order of inputs is committed unless ANYONECANPAY (taproot also commits
       \* the index itself); under ANYONECANPAY the index still selects the output under SINGLE
       [] m.k = "swap"      -> IF sv = "BASE" THEN (IF ot = "SINGLE" THEN ~(i > nout /\ m.n > nout) ELSE ~acp)
                               ELSE IF sv = "WITNESS_V0" THEN (~acp \/ (ot = "SINGLE" /\ ~(i > nout /\ m.n > nout)))
                               ELSE (~acp \/ ot = "SINGLE")

(***************************************************************************)
(* Signature checks on top of the digest (ECDSA / Schnorr maths trusted):  *)
(* a signature made for context c with the right key verifies in context   *)
(* c2 iff c2 has a digest and it is the one that was signed.  Signature     *)
(* mutations: a flipped bit and a wrong key never verify; the high-S twin   *)
(* of an ECDSA signature verifies unless SCRIPT_VERIFY_LOW_S is set; the    *)
(* default hash type must not be spelled out.                               *)
(***************************************************************************)
\* "explicit0": the 64-byte Schnorr signature of hash type 0 followed by an explicit 0x00 byte (BIP341: invalid)
SigMuts(sv, ht) == IF IsTap(sv) THEN {"none", "bitflip", "wrongkey"} \cup (IF ht = 0 THEN {"explicit0"} ELSE {})
                   ELSE {"none", "bitflip", "wrongkey", "highS"}
Accepts(sv, c, c2, sm, lowS) ==
  /\ Digest(c, sv) # Fail /\ Digest(c2, sv) = Digest(c, sv)
  /\ (sm = "none" \/ (sm = "highS" /\ ~IsTap(sv) /\ ~lowS))

\* companion hash types for the multi-signature script (one checker, one SigHashCache, three different hash types)
Comp2(ht) == FlipAcp(ht) % 256
Comp3(ht) == IF LOut(ht) = "ALL" THEN 3 ELSE 1
WithHt(c, h) == [c EXCEPT !.ht = h]

\* can the row be realised as a script spend (the hash type is one byte of the signature; the own scriptSig / witness carry
\* the signature; leaf hash and codeseparator position alone cannot be changed without changing the script)
Scriptable(sv, c, m) ==
  /\ c.ht < 256 /\ (m.k = "ht" => m.n < 256)
  /\ ~(m.k \in {"scriptsig", "witness"} /\ m.n = c.i)
  /\ m.k \notin {"leaf", "codesep"}
\* the three-signature script (one checker, hence one SigHashCache, three hash types) exists for ECDSA only; a mutated hash
\* type byte is tried on the single-signature scripts
MultiRuns(sv, c, m) == ~IsTap(sv) /\ Scriptable(sv, c, m) /\ m.k # "ht"

(***************************************************************************)
(* Enumeration                                                             *)
(***************************************************************************)
VARIABLES sv, c, m
vars == <<sv, c, m>>
NoMut == [k |-> "none", n |-> 0]
\* the initial states are the base contexts (row "none"); their successors are the mutation rows of that context, so that TLC's
\* workers share the evaluation
Init ==
  /\ sv \in SigVersions
  /\ \E nin \in 1..MaxIn, nout \in 1..MaxOut :
       \E i \in 1..nin, ht \in HashTypes, annex \in (IF IsTap(sv) THEN {0, 1} ELSE {0}) :
          /\ (IsTap(sv) => ht < 256)
          /\ c = BaseCtx(nin, nout, i, ht, annex)
  /\ m = NoMut
Next ==
  /\ m = NoMut
  /\ ValidCtx(sv, c)                             \* nothing to sign in an invalid context: its only row states the failure
  /\ m' \in Mutations(sv, c) \ {NoMut}
  /\ UNCHANGED <<sv, c>>

c2 == Mu(c, sv, m)

\* ---- the property, decided by TLC on every enumerated row
ValidityAgrees == (Digest(c, sv) # Fail) <=> ValidCtx(sv, c)
MutValidityAgrees == (Digest(c2, sv) # Fail) <=> ValidCtx(sv, c2)
CommitsAgrees == ValidCtx(sv, c) => ((Digest(c2, sv) # Digest(c, sv)) <=> Commits(sv, c, m))
\* a valid signature is accepted; after a mutation it is accepted iff the mutated field is not committed
AcceptIffUncommitted == ValidCtx(sv, c) => (Accepts(sv, c, c2, "none", FALSE) <=> ~Commits(sv, c, m))
\* the digest never depends on scriptSigs or witnesses
NoSelfReference == m.k \in {"scriptsig", "witness"} => Digest(c2, sv) = Digest(c, sv)

EmitRow == VFRow([sv |-> sv, base |-> c, mut |-> m, mctx |-> c2,
                  valid |-> Digest(c, sv) # Fail, mvalid |-> Digest(c2, sv) # Fail,
                  one |-> Digest(c, sv) = One, mone |-> Digest(c2, sv) = One,
                  changed |-> Digest(c2, sv) # Digest(c, sv),
                  script |-> Scriptable(sv, c, m),
                  ht2 |-> Comp2(c.ht), ht3 |-> Comp3(c.ht),
                  multi |-> [run |-> MultiRuns(sv, c, m),
                             ok |-> /\ Accepts(sv, c, c2, "none", FALSE)
                                    /\ Accepts(sv, WithHt(c, Comp2(c.ht)), WithHt(c2, Comp2(c.ht)), "none", FALSE)
                                    /\ Accepts(sv, WithHt(c, Comp3(c.ht)), WithHt(c2, Comp3(c.ht)), "none", FALSE)],
                  sig |-> [sm \in SigMuts(sv, c.ht) |-> [cons |-> Accepts(sv, c, c2, sm, FALSE), lowS |-> Accepts(sv, c, c2, sm, TRUE)]]])
====
