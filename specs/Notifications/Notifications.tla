---- MODULE Notifications ----
(***************************************************************************)
(* C63: validation notifications describe exactly what happened, in order. *)
(*                                                                         *)
(* Abstract model of how src/validation.cpp and src/txmempool.cpp emit     *)
(* events into the ValidationSignals queue and how the scheduler thread    *)
(* delivers them to a subscriber (src/validationinterface.cpp): the node   *)
(* changes its chain and pool in one critical section per operation and    *)
(* appends the corresponding events; the subscriber receives them later,   *)
(* one at a time, in queue order.  The operations are the ones the driver  *)
(* of the conformance harness performs on a real node (lastAct is the      *)
(* driver's command); TLC simulation of this model generates the           *)
(* behaviours the real node is put through.                                *)
(*                                                                         *)
(* Universe: coin A is spent by t1, its replacement t1r and (in blocks     *)
(* only) x1; t3 spends t1; coin B is spent by t2 and (in blocks only) x2.  *)
(***************************************************************************)
EXTENDS Integers, Sequences, FiniteSets, TLC, VF
CONSTANTS MaxSteps, MaxBlocks, MaxQueue

Txs == {"t1", "t1r", "t2", "t3", "x1", "x2"}
PoolTxs == {"t1", "t1r", "t2", "t3"}
SpendsA == {"t1", "t1r", "x1"}
SpendsB == {"t2", "x2"}
\* the order in which a set of transactions goes into a block (a parent before its child)
Order == <<"t1", "t1r", "x1", "t3", "t2", "x2">>
SeqOf(S) == SelectSeq(Order, LAMBDA t : t \in S)

VARIABLES chain,     \* the node's active chain above the base: sequence of block ids
          body,      \* block id -> set of transactions in it
          nblk,      \* blocks made so far
          stash,     \* blocks disconnected by the last invalidation (to be reconnected by "reconsider"), bottom first
          pool,      \* the node's mempool
          queue,     \* events emitted, not yet delivered
          schain,    \* the subscriber's chain
          spool,     \* the subscriber's pool
          hist,      \* the node's tips after each operation since the subscriber last caught up
          ok,        \* FALSE once a delivered event did not fit the subscriber's view
          cmds,      \* the driver's commands so far
          n, lastAct
vars == <<chain, body, nblk, stash, pool, queue, schain, spool, hist, ok, cmds, n, lastAct>>

Tip(c) == IF c = <<>> THEN 0 ELSE c[Len(c)]
InChain(c) == UNION {body[c[i]] : i \in 1..Len(c)}
Conflicts(t) == IF t \in SpendsA THEN SpendsA \ {t} ELSE SpendsB \ {t}
\* t can be in the pool on top of chain c together with pool po
Spendable(t, c, po) ==
  /\ t \notin InChain(c) /\ Conflicts(t) \cap InChain(c) = {}
  /\ (t = "t3" => "t1" \in po \cup InChain(c))
EvC(b, prev) == [kind |-> "connected", block |-> b, prev |-> prev, tx |-> ""]
EvD(b) == [kind |-> "disconnected", block |-> b, prev |-> 0, tx |-> ""]
EvA(t) == [kind |-> "added", block |-> 0, prev |-> 0, tx |-> t]
EvR(t) == [kind |-> "removed", block |-> 0, prev |-> 0, tx |-> t]
EvT(b) == [kind |-> "tip", block |-> b, prev |-> 0, tx |-> ""]
SeqMap(s, F(_)) == [i \in 1..Len(s) |-> F(s[i])]

Step(a) == n' = n + 1 /\ lastAct' = a /\ cmds' = Append(cmds, a) /\ UNCHANGED <<schain, spool, ok>>
RECURSIVE Catch(_, _)
Catch(h, top) == IF h # <<>> /\ Head(h) = top THEN Catch(Tail(h), top) ELSE h
\* the node's tip after an operation is one the subscriber's tip has to pass through (unless it is there already)
Saw(b) == hist' = Catch(Append(hist, b), Tip(schain))

\* ---------------------------------------------------------------- operations of the node (each one critical section)
\* a transaction is submitted; accepted if its inputs are available; t1r replaces t1 (and t1's child)
Submit(t) ==
  /\ t \in PoolTxs
  /\ IF t \notin pool /\ Spendable(t, chain, pool) /\ ~(t = "t1" /\ "t1r" \in pool)
     THEN LET gone == IF t = "t1r" THEN pool \cap {"t1", "t3"} ELSE {} IN
          /\ pool' = (pool \ gone) \cup {t}
          /\ queue' = queue \o SeqMap(SeqOf(gone), EvR) \o <<EvA(t)>>
     ELSE UNCHANGED <<pool, queue>>
  /\ Saw(Tip(chain))
  /\ UNCHANGED <<chain, body, nblk, stash>>
  /\ Step(<<"submit", t>>)

\* a block with transactions S is mined on the tip: pool transactions in it leave the pool (reported through the block), pool
\* transactions it conflicts with are removed
Mine(S) ==
  /\ nblk < MaxBlocks
  /\ \A t \in S : Spendable(t, chain, S) /\ Conflicts(t) \cap S = {}
  /\ LET b == nblk + 1
         confl == {t \in pool \ S : Conflicts(t) \cap S # {} \/ (t = "t3" /\ "t1" \in pool \ S /\ Conflicts("t1") \cap S # {})}
     IN /\ nblk' = b /\ body' = [body EXCEPT ![b] = S]
        /\ chain' = Append(chain, b)
        /\ pool' = (pool \ S) \ confl
        /\ queue' = queue \o SeqMap(SeqOf(confl), EvR) \o <<EvC(b, Tip(chain)), EvT(b)>>
        /\ Saw(b)
  /\ UNCHANGED stash
  /\ Step(<<"mine", SeqOf(S)>>)

\* a competing branch of k+1 empty blocks from k blocks below the tip: the top k blocks are disconnected (their transactions go back
\* to the pool), the new branch is connected
Fork(k) ==
  /\ k >= 1 /\ k <= Len(chain) /\ nblk + k + 1 <= MaxBlocks
  /\ LET keep == SubSeq(chain, 1, Len(chain) - k)
         drop == [i \in 1..k |-> chain[Len(chain) - i + 1]]                \* top first
         new == [i \in 1..(k + 1) |-> nblk + i]
         back == {t \in UNION {body[drop[i]] : i \in 1..k} : t \in PoolTxs}
     IN /\ nblk' = nblk + k + 1
        /\ body' = [b \in DOMAIN body |-> IF b > nblk /\ b <= nblk + k + 1 THEN {} ELSE body[b]]
        /\ chain' = keep \o new
        /\ pool' = pool \cup back
        /\ queue' = queue \o SeqMap(drop, EvD) \o SeqMap(SeqOf(back \ pool), EvA)
                          \o [i \in 1..(k + 1) |-> EvC(new[i], IF i = 1 THEN Tip(keep) ELSE new[i - 1])] \o <<EvT(new[k + 1])>>
        /\ Saw(new[k + 1])
  /\ UNCHANGED stash
  /\ Step(<<"fork", k>>)

\* the block d below the tip is declared invalid: it and everything above it is disconnected
Invalidate(d) ==
  /\ d >= 0 /\ d < Len(chain) /\ stash = <<>>
  /\ LET keep == SubSeq(chain, 1, Len(chain) - d - 1)
         drop == [i \in 1..(d + 1) |-> chain[Len(chain) - i + 1]]
         back == {t \in UNION {body[drop[i]] : i \in 1..(d + 1)} : t \in PoolTxs}
     IN /\ chain' = keep
        /\ stash' = SubSeq(chain, Len(chain) - d, Len(chain))
        /\ pool' = pool \cup back
        /\ queue' = queue \o SeqMap(drop, EvD) \o SeqMap(SeqOf(back \ pool), EvA) \o <<EvT(Tip(keep))>>
        /\ Saw(Tip(keep))
  /\ UNCHANGED <<body, nblk>>
  /\ Step(<<"invalidate", d>>)

\* ... and valid again: reconnected if nothing else was built meanwhile
Reconsider ==
  /\ stash # <<>>
  /\ IF \A i \in 1..Len(stash) : \A t \in body[stash[i]] : t \notin InChain(chain) /\ Conflicts(t) \cap InChain(chain) = {}
     THEN LET inb == UNION {body[stash[i]] : i \in 1..Len(stash)}
              confl == {t \in pool \ inb : Conflicts(t) \cap inb # {}}
          IN /\ chain' = chain \o stash
             /\ pool' = (pool \ inb) \ confl
             /\ queue' = queue \o SeqMap(SeqOf(confl), EvR)
                               \o [i \in 1..Len(stash) |-> EvC(stash[i], IF i = 1 THEN Tip(chain) ELSE stash[i - 1])] \o <<EvT(Tip(stash))>>
             /\ Saw(Tip(stash))
     ELSE UNCHANGED <<chain, pool, queue>> /\ Saw(Tip(chain))
  /\ stash' = <<>>
  /\ UNCHANGED <<body, nblk>>
  /\ Step(<<"reconsider">>)

\* ---------------------------------------------------------------- the scheduler thread
Deliver ==
  /\ queue # <<>>
  /\ LET e == Head(queue) IN
     /\ queue' = Tail(queue)
     /\ CASE e.kind = "connected" -> /\ ok' = (ok /\ e.prev = Tip(schain)) /\ schain' = Append(schain, e.block)
                                     /\ spool' = spool \ body[e.block]       \* (MempoolTransactionsRemovedForBlock)
          [] e.kind = "disconnected" -> /\ ok' = (ok /\ schain # <<>> /\ e.block = Tip(schain))
                                        /\ schain' = (IF schain = <<>> THEN schain ELSE SubSeq(schain, 1, Len(schain) - 1)) /\ UNCHANGED spool
          [] e.kind = "added" -> /\ ok' = (ok /\ e.tx \notin spool) /\ spool' = spool \cup {e.tx} /\ UNCHANGED schain
          [] e.kind = "removed" -> /\ ok' = (ok /\ e.tx \in spool) /\ spool' = spool \ {e.tx} /\ UNCHANGED schain
          [] e.kind = "tip" -> /\ ok' = (ok /\ e.block = Tip(schain)) /\ UNCHANGED <<schain, spool>>
     /\ hist' = Catch(hist, Tip(schain'))
  /\ lastAct' = <<"deliver">>
  /\ UNCHANGED <<chain, body, nblk, stash, pool, cmds, n>>

\* the driver waits until the queue is empty (SyncWithValidationInterfaceQueue)
Sync ==
  /\ queue = <<>>
  /\ UNCHANGED <<chain, body, nblk, stash, pool, queue, hist>>
  /\ Step(<<"sync">>)

Init ==
  /\ chain = <<>> /\ body = [b \in 1..MaxBlocks |-> {}] /\ nblk = 0 /\ stash = <<>> /\ pool = {}
  /\ queue = <<>> /\ schain = <<>> /\ spool = {} /\ hist = <<>> /\ ok = TRUE
  /\ cmds = <<>> /\ n = 0 /\ lastAct = <<"init">>

BlockChoices == {{}, {"t1"}, {"t1", "t3"}, {"t1r"}, {"t2"}, {"x1"}, {"x2"}, {"t1", "t2"}, {"x1", "t2"}}
Op ==
  \/ \E t \in PoolTxs : Submit(t)
  \/ \E S \in BlockChoices : Mine(S)
  \/ \E k \in 1..2 : Fork(k)
  \/ \E d \in 0..1 : Invalidate(d)
  \/ Reconsider
  \/ Sync
Next == (n < MaxSteps /\ Len(queue) <= MaxQueue /\ Op) \/ Deliver
Spec == Init /\ [][Next]_vars

\* ---------------------------------------------------------------- the property, on the model
\* every delivered event fitted the subscriber's view (connected extends its tip, disconnected pops it, removed follows added)
EventsFit == ok
\* what is still queued, applied to the subscriber's view, gives the node's chain and pool
RECURSIVE Replay(_, _, _)
Replay(c, p, q) ==
  IF q = <<>> THEN <<c, p>>
  ELSE LET e == Head(q) IN
       CASE e.kind = "connected" -> Replay(Append(c, e.block), p \ body[e.block], Tail(q))
         [] e.kind = "disconnected" -> Replay(SubSeq(c, 1, Len(c) - 1), p, Tail(q))
         [] e.kind = "added" -> Replay(c, p \cup {e.tx}, Tail(q))
         [] e.kind = "removed" -> Replay(c, p \ {e.tx}, Tail(q))
         [] e.kind = "tip" -> Replay(c, p, Tail(q))
\* (transactions that left the pool because a block contains them are reported through that block)
QueueLeadsToNodeState == LET r == Replay(schain, spool, queue) IN r[1] = chain /\ r[2] = pool
\* once everything is delivered, the subscriber's tip has passed through every tip the node had, in order
CaughtUp == queue = <<>> => (hist = <<>> /\ schain = chain)

\* simulation output: the driver's commands along each behaviour
Proj == [cmds |-> cmds, q |-> Len(queue)]
Emit == VFEdge(Proj, lastAct', 0, Proj')
====
