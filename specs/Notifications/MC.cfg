CONSTANTS
  MaxSteps = 4
  MaxBlocks = 5
  MaxQueue = 8
INIT Init
NEXT Next
INVARIANTS EventsFit QueueLeadsToNodeState CaughtUp
CHECK_DEADLOCK FALSE
