CONSTANTS
  MaxSteps = 14
  MaxBlocks = 14
  MaxQueue = 40
INIT Init
NEXT Next
INVARIANTS EventsFit QueueLeadsToNodeState CaughtUp
ACTION_CONSTRAINT Emit
CHECK_DEADLOCK FALSE
