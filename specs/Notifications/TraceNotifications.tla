---- MODULE TraceNotifications ----
(***************************************************************************)
(* C63, engine E3: are the two streams recorded from a real node - the     *)
(* driver's operations with the node's actual tip after each, and the      *)
(* validation events a subscriber was delivered on the scheduler thread -  *)
(* related as the property says?                                           *)
(*  - applying the delivered BlockConnected / BlockDisconnected events in  *)
(*    order to a subscriber-side chain works at every step (a connected    *)
(*    block extends the subscriber's tip, a disconnected block is the      *)
(*    subscriber's tip) and the subscriber's tip passes through the node's *)
(*    tips in the order the node had them; at every synchronisation point  *)
(*    the subscriber's chain is the node's active chain;                   *)
(*  - a transaction is reported removed only after it was reported added   *)
(*    (and not removed since), added only when not currently reported;     *)
(*    at every synchronisation point the reported pool is the node's;      *)
(*  - payloads: the block of an event is a block the driver delivered,     *)
(*    with that parent and those transactions; block and index argument    *)
(*    agree; transactions are transactions of the universe; the subscriber *)
(*    sees consecutive sequence numbers.                                   *)
(* Log lines: reset / op (operation, node tip after it, blocks it made) /  *)
(* ev (event) / sync (node tip, active chain, mempool). Within one         *)
(* synchronisation interval the operations are written before the events.  *)
(***************************************************************************)
EXTENDS Integers, Sequences, FiniteSets, TLC, Json, IOUtils
TraceLog == ndJsonDeserialize(IOEnv.TRACE)
TxNames == {"t1", "t1r", "t2", "t3", "x1", "x2"}

VARIABLES l,        \* next line
          chain,    \* the subscriber's chain (names, chain[1] = the base block)
          pool,     \* transactions reported added and not removed since
          want,     \* tips the node had (after its operations) that the subscriber's tip has not reached yet, in order
          made,     \* blocks the driver delivered: set of [b, prev, txs]
          seq       \* last subscriber sequence number
tvars == <<l, chain, pool, want, made, seq>>
Ev == TraceLog[l]
IsLine(e) == l <= Len(TraceLog) /\ TraceLog[l].e = e /\ l' = l + 1
Top(c) == c[Len(c)]
RECURSIVE Match(_, _)
Match(w, top) == IF w # <<>> /\ Head(w) = top THEN Match(Tail(w), top) ELSE w
SetOf(s) == {s[i] : i \in 1..Len(s)}
Known(ev) == \E m \in made : m.b = ev.block /\ m.prev = ev.prev /\ m.txs = ev.txs

TInit == l = 1 /\ chain = <<"B0">> /\ pool = {} /\ want = <<>> /\ made = {} /\ seq = 0
TReset == /\ IsLine("reset")
          /\ chain' = <<Ev.base>> /\ pool' = {} /\ want' = <<>> /\ made' = {} /\ seq' = 0
TOp == /\ IsLine("op")
       /\ made' = made \cup SetOf(Ev.made)
       /\ want' = Match(Append(want, Ev.tip), Top(chain))
       /\ UNCHANGED <<chain, pool, seq>>
TConnected == /\ IsLine("ev") /\ Ev.kind = "connected"
              /\ Ev.block = Ev.index /\ Known(Ev)
              /\ Ev.prev = Top(chain)                       \* extends the subscriber's tip
              /\ chain' = Append(chain, Ev.block)
              /\ UNCHANGED pool
TDisconnected == /\ IsLine("ev") /\ Ev.kind = "disconnected"
                 /\ Ev.block = Ev.index /\ Known(Ev)
                 /\ Len(chain) > 1 /\ Ev.block = Top(chain) \* pops the subscriber's tip
                 /\ chain' = SubSeq(chain, 1, Len(chain) - 1)
                 /\ UNCHANGED pool
TAdded == /\ IsLine("ev") /\ Ev.kind = "added"
          /\ Ev.tx \in TxNames /\ Ev.tx \notin pool
          /\ pool' = pool \cup {Ev.tx} /\ UNCHANGED chain
TRemoved == /\ IsLine("ev") /\ Ev.kind = "removed"
            /\ Ev.tx \in pool                               \* added before removed
            /\ pool' = pool \ {Ev.tx} /\ UNCHANGED chain
TRemovedForBlock == /\ IsLine("ev") /\ Ev.kind = "removedforblock"
                    /\ SetOf(Ev.txs) \subseteq pool
                    /\ \E m \in made : m.b = Ev.block /\ SetOf(Ev.txs) \subseteq SetOf(m.txs)
                    /\ pool' = pool \ SetOf(Ev.txs) /\ UNCHANGED chain
TTip == /\ IsLine("ev") /\ Ev.kind = "tip"
        /\ Ev.block = Top(chain)                            \* announced after the connections that led to it
        /\ UNCHANGED <<chain, pool>>
TEvent == /\ (TConnected \/ TDisconnected \/ TAdded \/ TRemoved \/ TRemovedForBlock \/ TTip)
          /\ Ev.seq = seq + 1 /\ seq' = Ev.seq
          /\ want' = Match(want, Top(chain'))
          /\ UNCHANGED made
TSync == /\ IsLine("sync")
         /\ want = <<>>                                     \* every tip the node had was reached, in order
         /\ Ev.tip = Top(chain)
         /\ Len(Ev.chain) = Len(chain) /\ \A i \in 1..Len(chain) : chain[i] = Ev.chain[Len(chain) - i + 1]
         /\ SetOf(Ev.pool) = pool
         /\ UNCHANGED <<chain, pool, want, made, seq>>
TNext == TReset \/ TOp \/ TEvent \/ TSync
Accepted == TLCGet("stats").diameter - 1 = Len(TraceLog)
====
