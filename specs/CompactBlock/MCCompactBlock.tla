---- MODULE MCCompactBlock ----
(* The oracle table of C38 (engine E4): every row is one reconstruction
     world (committed block, witness commitment, short-id collisions) x announcement x mempool x extra pool x blocktxn answer
   with the outcome InitF / FillF compute. TLC checks the property on every row (Safe, FailClosed, SecondCall) and prints the row;
   the harness replays it on the real PartiallyDownloadedBlock.
   Rows come in two kinds so that the product stays enumerable:
     "init"  all announcements (every prefilled subset, every malformed family), larger mempool / extra sequences, right answer only
     "fill"  announcements x small pools x every kind of answer (right, wrong tx, twin, reordered, short, long, empty), both
             segwit flags and both kinds of coinbase, plus a second FillBlock call on the same object *)
EXTENDS CompactBlock
CONSTANTS BlockIdx,      \* which committed blocks of AllBlocks this run enumerates (the table is split over parallel TLC runs)
          MaxPoolInit, MaxExtraInit, MaxPoolFill, MaxExtraFill

VARIABLE row
vars == <<row>>

Range(s) == {s[i] : i \in 1..Len(s)}
\* committed blocks: coinbase + up to four transactions with distinct txids; 1-9 a hand-picked spread (both twins, with and
\* without witness transactions, every length), 10.. the remaining orders and choices of three and four transactions
AllBlocks == <<
  <<CB>>, <<CB, "a">>, <<CB, "b">>, <<CB, "a", "b">>, <<CB, "b", "a2">>, <<CB, "b", "c">>, <<CB, "a", "b", "c">>, <<CB, "b", "c", "d">>,
  <<CB, "a", "b", "c", "d">>,
  <<CB, "a2">>, <<CB, "d">>, <<CB, "d", "a">>, <<CB, "c", "b">>, <<CB, "a2", "d">>, <<CB, "c", "a", "b">>, <<CB, "d", "c", "a2">>, <<CB, "b", "d", "c">>,
  <<CB, "d", "c", "b", "a">>, <<CB, "b", "a2", "d", "c">>, <<CB, "c", "d", "a", "b">> >>
BlockSet == {AllBlocks[i] : i \in BlockIdx}

\* short-id worlds that matter for a block: the collision class touches a block transaction
RelevantWorlds(blk) == {"none"} \cup {sw \in SidWorlds \ {"none"} : \E t \in Txs : Rep(sw, t) # t /\ ({t, Rep(sw, t)} \cap Range(blk) # {})}
\* transactions worth putting into a pool: the block's, their twins, whatever collides with them, and the outsider x
Relevant(blk, sw) == ((Range(blk) \ {CB}) \cup {Twin(t) : t \in Range(blk) \ {CB}} \cup {"x"}
                      \cup {t \in Txs : Rep(sw, t) \in Range(blk) \/ \E u \in Range(blk) \ {CB} : Rep(sw, u) = Rep(sw, t)})
SeqsNoRep(S, k) == UNION {{s \in [1..n -> S] : \A i, j \in 1..n : i # j => s[i] # s[j]} : n \in 0..k}
\* a mempool holds one transaction per txid
Pools(S, k) == {s \in SeqsNoRep(S, k) : \A i, j \in 1..Len(s) : i # j => Txid(s[i]) # Txid(s[j])}
Extras(S, k) == SeqsNoRep(S, k)

\* ---- announcement families: [fam, A, L] with L = the list the announcement stands for
PrefilledSets(n) == {{1} \cup X : X \in SUBSET (2..n)}
Anns(blk, sw) ==
  LET n == Len(blk)
      honest == {[fam |-> "honest", A |-> Honest(blk, PP, sw), L |-> blk] : PP \in PrefilledSets(n)}
      base == Honest(blk, {1}, sw)
      malformed ==
        {[fam |-> "header_null", A |-> [base EXCEPT !.hnull = TRUE], L |-> blk],
         [fam |-> "empty", A |-> [hnull |-> FALSE, sids |-> <<>>, pre |-> <<>>], L |-> <<>>],
         [fam |-> "null_prefilled", A |-> [base EXCEPT !.pre = Append(@, [idx |-> 0, tx |-> NullTx])], L |-> blk \o <<NullTx>>],
         [fam |-> "index_overflow", A |-> [base EXCEPT !.pre = Append(@, [idx |-> 65535, tx |-> "x"])], L |-> blk \o <<"x">>],
         [fam |-> "index_out_of_range", A |-> [base EXCEPT !.pre = Append(@, [idx |-> n, tx |-> "x"])], L |-> blk \o <<"x">>],
         [fam |-> "index_last_in_range", A |-> [base EXCEPT !.pre = Append(@, [idx |-> n - 1, tx |-> "x"])], L |-> blk \o <<"x">>]}
      \* the last transaction once more, prefilled behind the list: same merkle root (CVE-2012-2459)
      dupext == IF n >= 2 THEN {[fam |-> "duplicate_tail", A |-> Honest(blk \o <<blk[n]>>, PP \cup {n + 1}, sw), L |-> blk \o <<blk[n]>>] : PP \in {{1}, {1, n}}}
                ELSE {}
      \* a prefilled transaction that is not the block's
      wrongpre == IF n >= 2 THEN {[fam |-> "wrong_prefilled", A |-> Honest([blk EXCEPT ![n] = IF Txid(blk[n]) = 1 THEN Twin(blk[n]) ELSE "x"], {1, n}, sw), L |-> blk]}
                  ELSE {}
      \* a short id that is not the block transaction's (the peer lies, or the transaction collides with an unrelated one)
      wrongsid == IF n >= 2 THEN {[fam |-> "foreign_short_id", A |-> Honest([blk EXCEPT ![j] = "y"], {1}, sw), L |-> blk] : j \in 2..n} ELSE {}
      swapped == IF n >= 3 THEN {[fam |-> "swapped_short_ids", A |-> Honest([blk EXCEPT ![2] = blk[3], ![3] = blk[2]], {1}, sw), L |-> blk]} ELSE {}
  IN honest \cup malformed \cup dupext \cup wrongpre \cup wrongsid \cup swapped

\* witness malleation of the announced pieces (blocks with a witness commitment): the announcer strips the witness - independently -
\* from the prefilled coinbase (sc), from the other prefilled transactions (sp), and computes the short ids over the stripped
\* wtxids (ss). The txids, hence header and merkle root, stay those of the committed block.
StripAnns(blk, sw) ==
  LET n == Len(blk)
      shown(PP, sc, sp, ss) == [j \in 1..n |-> IF j = 1 THEN (IF sc THEN CBS ELSE CB)
                                               ELSE IF j \in PP THEN (IF sp THEN Strip(blk[j]) ELSE blk[j])
                                               ELSE (IF ss THEN Strip(blk[j]) ELSE blk[j])]
  IN {an \in {[fam |-> "witness_stripped", A |-> Honest(shown(PP, sc, sp, ss), PP, sw), L |-> blk] :
                 PP \in PrefilledSets(n), sc \in BOOLEAN, sp \in BOOLEAN, ss \in BOOLEAN} :
        \A PP \in PrefilledSets(n) : an.A # Honest(blk, PP, sw)}

\* ---- blocktxn answers for the positions still missing
MissingPos(av) == FreeSeq(av, 1)
RightAnswer(av, L) == [i \in 1..Len(MissingPos(av)) |-> IF MissingPos(av)[i] <= Len(L) THEN L[MissingPos(av)[i]] ELSE "x"]
Reverse(s) == [i \in 1..Len(s) |-> s[Len(s) + 1 - i]]
Answers(av, L) ==
  LET r == RightAnswer(av, L) IN
  {[kind |-> "right", txs |-> r], [kind |-> "too_long", txs |-> Append(r, "x")], [kind |-> "empty", txs |-> <<>>]}
  \cup (IF Len(r) >= 1 THEN {[kind |-> "wrong_tx", txs |-> [r EXCEPT ![1] = IF r[1] = "x" THEN "y" ELSE "x"]],
                             [kind |-> "too_short", txs |-> SubSeq(r, 1, Len(r) - 1)],
                             [kind |-> "twin", txs |-> [i \in 1..Len(r) |-> Twin(r[i])]]} ELSE {})
  \cup (IF Len(r) >= 2 THEN {[kind |-> "reordered", txs |-> Reverse(r)]} ELSE {})
  \cup (IF \E i \in 1..Len(r) : Strip(r[i]) # r[i] THEN {[kind |-> "stripped", txs |-> [i \in 1..Len(r) |-> Strip(r[i])]]} ELSE {})

MkRow(kind, blk, commit, segwit, sw, an, pool, extra, ans) ==
  LET i1 == InitF(Fresh, an.A, pool, extra, sw)
      f1 == FillF(i1.P, ans.txs, blk, commit, segwit)
      \* a second FillBlock on the same object, with the right answer for what it still shows as missing
      ans2 == IF f1.P.hdr THEN RightAnswer(f1.P.avail, an.L) ELSE <<>>
      f2 == FillF(f1.P, ans2, blk, commit, segwit)
      \* InitData on an object that is already initialised
      i2 == InitF(i1.P, an.A, pool, extra, sw)
  IN [kind |-> kind, blk |-> blk, commit |-> commit, segwit |-> segwit, sw |-> sw, fam |-> an.fam, ann |-> an.A,
      keys |-> [t \in Txs |-> Rep(sw, t)], pool |-> pool, extra |-> extra, ans |-> ans.txs, anskind |-> ans.kind, ans2 |-> ans2,
      init |-> i1.st, avail |-> i1.P.avail, hdr |-> i1.P.hdr, reinit |-> i2.st,
      fill |-> f1.st, recon |-> f1.list, fill2 |-> f2.st, recon2 |-> f2.list]

\* announcements that are refused before any pool is looked at are combined with empty pools only
EarlyRefused == {"header_null", "empty", "null_prefilled", "index_overflow", "index_out_of_range"}
\* with a witness-stripping announcer the pools may also hold the stripped forms of the block's transactions
RelevantFor(an, blk, sw) == IF an.fam = "witness_stripped" THEN Relevant(blk, sw) \cup {Strip(t) : t \in Range(blk) \ {CB}} ELSE Relevant(blk, sw)
PoolsFor(an, blk, sw, k) == IF an.fam \in EarlyRefused THEN {<<>>} ELSE Pools(RelevantFor(an, blk, sw), k)
ExtrasFor(an, blk, sw, k) == IF an.fam \in EarlyRefused THEN {<<>>} ELSE Extras(RelevantFor(an, blk, sw), k)
\* the committed block is itself not mutated under the world's rules: with an active witness commitment, or without any witness
\* (otherwise its witness-stripped form is the block the header stands for - TLC found exactly these rows as soon as announced
\* pieces could be witness-stripped: no commitment, or a commitment that is not enforced because segwit is not active)
WellFormed(blk, commit, segwit) == ~Mutated(blk, blk, commit, segwit)
Init ==
  \/ \E blk \in BlockSet : \E sw \in RelevantWorlds(blk) : \E an \in Anns(blk, sw) :
     \E pool \in PoolsFor(an, blk, sw, MaxPoolInit), extra \in ExtrasFor(an, blk, sw, MaxExtraInit) :
        row = MkRow("init", blk, TRUE, TRUE, sw, an, pool, extra,
                    [kind |-> "right", txs |-> RightAnswer(InitF(Fresh, an.A, pool, extra, sw).P.avail, an.L)])
  \/ \E blk \in BlockSet, commit \in BOOLEAN, segwit \in BOOLEAN : \E sw \in RelevantWorlds(blk) :
     WellFormed(blk, commit, segwit) /\
     \E an \in Anns(blk, sw) \cup (IF commit THEN StripAnns(blk, sw) ELSE {}) :
     \E pool \in PoolsFor(an, blk, sw, MaxPoolFill), extra \in ExtrasFor(an, blk, sw, MaxExtraFill) :
     \E ans \in Answers(InitF(Fresh, an.A, pool, extra, sw).P.avail, an.L) :
        row = MkRow("fill", blk, commit, segwit, sw, an, pool, extra, ans)
Next == UNCHANGED row

(* ------------------------------------------------------------------ the property, on every row *)
\* READ_STATUS_OK only with exactly the block the header commits to (transactions and witnesses), which is not mutated
Safe == /\ row.fill = "OK" => row.recon = row.blk /\ ~Mutated(row.recon, row.blk, row.commit, row.segwit)
        /\ row.fill2 = "OK" => row.recon2 = row.blk
\* collisions, foreign short ids and bad answers never get a block accepted: anything but the committed list fails
FailClosed == /\ (row.anskind \in {"wrong_tx", "too_short", "too_long", "empty", "reordered"} /\ row.ans # RightAnswer(row.avail, row.blk)) => row.fill # "OK"
              /\ (row.fam \in {"header_null", "empty", "null_prefilled", "index_overflow", "index_out_of_range"}) => row.init = "INVALID"
\* an object is good for one InitData and one completed FillBlock
OneShot == /\ row.reinit = "INVALID"
           /\ (row.fill \in {"OK", "FAILED"} => row.fill2 = "INVALID")
\* with an honest announcement, no collision and the right answer the block IS reconstructed (the model is not vacuously safe)
Live == (row.fam = "honest" /\ row.sw = "none" /\ row.anskind = "right" /\ row.segwit /\ row.commit
         /\ Range(row.pool) \subseteq Range(row.blk) /\ Range(row.extra) \subseteq Range(row.blk))
        => row.fill = "OK"
EmitRow == VFRow(row)
====
