---- MODULE CompactBlock ----
(* C38 - compact block reconstruction (src/blockencodings.cpp: PartiallyDownloadedBlock::InitData / FillBlock, and
   IsBlockMutated of src/validation.cpp) yields the announced block or fails.

   A world fixes the block the header commits to (a list of transactions, coinbase first, distinct txids), whether the
   coinbase carries a witness commitment, and which transactions share a 6-byte short id under the announcement's key
   (Rep: every transaction is keyed by the representative of its collision class - the harness realises this the way the
   unit tests do, by keying mempool / extra-pool entries with the representative's wtxid).
   An announcement is what InitData receives: header (only "null or not" matters), short ids (named by representative) and
   prefilled transactions with differentially encoded indexes - honest ones and the malformed / malicious families below.
   The mempool and the extra pool are SEQUENCES (the scan stops early once every short id found a match, so order matters).

   InitF and FillF follow the code statement by statement. Hashes are symbolic: the merkle root of a list is the nested
   pairing of its leaves with the duplicate-last rule of consensus/merkle.cpp, including its "mutated" flag (CVE-2012-2459).

   Property (SAFE): READ_STATUS_OK only with exactly the committed list (same txids AND witnesses); every collision, wrong,
   reordered, short or long blocktxn answer ends in INVALID / FAILED. *)
EXTENDS Integers, Sequences, FiniteSets, TLC, VF

NoTx == "none"      \* an empty slot of txn_available
NullTx == "null"    \* the empty transaction (CTransaction::IsNull)
CB == "cb"
\* non-coinbase universe: id = txid, w = witness variant (0 = no witness). a / a2 are twins: same txid, different witness.
TxInfo == [a |-> [id |-> 1, w |-> 1], a2 |-> [id |-> 1, w |-> 2], b |-> [id |-> 2, w |-> 0], c |-> [id |-> 3, w |-> 0],
           d |-> [id |-> 4, w |-> 1], x |-> [id |-> 5, w |-> 0], y |-> [id |-> 6, w |-> 1], null |-> [id |-> 9, w |-> 0],
           \* the witness-stripped forms (same txid, no witness) of a / a2, d and y
           as |-> [id |-> 1, w |-> 0], ds |-> [id |-> 4, w |-> 0], ys |-> [id |-> 6, w |-> 0]]
Txs == DOMAIN TxInfo \ {NullTx}
Twin(t) == IF t = "a" THEN "a2" ELSE IF t = "a2" THEN "a" ELSE t
\* "cbs" = the coinbase without its witness (the witness reserved value): same txid, so the same merkle root
CBS == "cbs"
Strip(t) == CASE t \in {"a", "a2"} -> "as" [] t = "d" -> "ds" [] t = "y" -> "ys" [] t = CB -> CBS [] OTHER -> t

\* collision classes (short id worlds): Rep(sw, t) = the transaction whose wtxid keys t
SidWorlds == {"none", "xa", "xb", "xc", "xd", "bc", "aa2", "ya2", "xy"}
Rep(sw, t) ==
  CASE sw = "xa" /\ t = "x" -> "a"
    [] sw = "xb" /\ t = "x" -> "b"
    [] sw = "xc" /\ t = "x" -> "c"
    [] sw = "xd" /\ t = "x" -> "d"
    [] sw = "bc" /\ t = "c" -> "b"
    [] sw = "aa2" /\ t = "a2" -> "a"
    [] sw = "ya2" /\ t = "y" -> "a2"
    [] sw = "xy" /\ t = "y" -> "x"
    [] OTHER -> t

IsCb(t) == t \in {CB, CBS}
Txid(t) == IF IsCb(t) THEN 0 ELSE TxInfo[t].id
Wtxid(t) == IF t = CB THEN <<0, 0>> ELSE IF t = CBS THEN <<0, 9>> ELSE <<TxInfo[t].id, TxInfo[t].w>>
HasWitness(t, commit) == IF t = CB THEN commit ELSE IF t = CBS THEN FALSE ELSE TxInfo[t].w # 0

(* ------------------------------------------------------------------ symbolic merkle tree (consensus/merkle.cpp) *)
\* (hashes are strings so that hashes of trees of different height can be compared)
Level(s) == [i \in 1..((Len(s) + 1) \div 2) |-> "(" \o s[2 * i - 1] \o "," \o (IF 2 * i <= Len(s) THEN s[2 * i] ELSE s[2 * i - 1]) \o ")"]
MutLevel(s) == \E i \in 1..(Len(s) \div 2) : s[2 * i - 1] = s[2 * i]
RECURSIVE Root(_)
Root(s) == IF Len(s) = 0 THEN "" ELSE IF Len(s) = 1 THEN s[1] ELSE Root(Level(s))
RECURSIVE Mut(_)
Mut(s) == IF Len(s) <= 1 THEN FALSE ELSE MutLevel(s) \/ Mut(Level(s))
Ids(list) == [i \in 1..Len(list) |-> "t" \o ToString(Txid(list[i]))]
WLeaves(list) == [i \in 1..Len(list) |-> IF i = 1 THEN "0" ELSE "w" \o ToString(Wtxid(list[i])[1]) \o "." \o ToString(Wtxid(list[i])[2])]

\* IsBlockMutated(block = list with the announced header, check_witness_root = segwit) for the world's committed block
Mutated(list, blk, commit, segwit) ==
  \/ Root(Ids(list)) # Root(Ids(blk))                       \* bad-txnmrklroot
  \/ Mut(Ids(list))                                         \* bad-txns-duplicate
  \/ /\ list # <<>> /\ IsCb(list[1])                       \* (no coinbase in front: only the 64-byte rule, never hit here)
     /\ IF segwit /\ commit                                \* the commitment is an OUTPUT of the coinbase: also the stripped one has it
        THEN \/ list[1] = CBS                               \* bad-witness-nonce-size: the reserved value is gone
             \/ Root(WLeaves(list)) # Root(WLeaves(blk))    \* bad-witness-merkle-match
        ELSE \E i \in 1..Len(list) : HasWitness(list[i], commit)    \* unexpected-witness

(* ------------------------------------------------------------------ InitData *)
\* A = [hnull, sids : Seq(representative), pre : Seq([idx, tx])]
Prefill(A) ==
  LET n == Len(A.sids) + Len(A.pre)
      RECURSIVE go(_, _, _)
      go(i, last, av) ==
        IF i > Len(A.pre) THEN [ok |-> TRUE, avail |-> av]
        ELSE LET p == A.pre[i]
                 l2 == last + p.idx + 1
             IN IF p.tx = NullTx \/ l2 > 65535 \/ l2 > Len(A.sids) + (i - 1) THEN [ok |-> FALSE, avail |-> av]
                ELSE go(i + 1, l2, [av EXCEPT ![l2 + 1] = p.tx])
  IN go(1, -1, [j \in 1..n |-> NoTx])

\* the positions the short ids stand for: the free positions in order
RECURSIVE FreeSeq(_, _)
FreeSeq(av, j) == IF j > Len(av) THEN <<>> ELSE (IF av[j] = NoTx THEN <<j>> ELSE <<>>) \o FreeSeq(av, j + 1)

PosOf(sids, free, r) == IF \E i \in 1..Len(sids) : sids[i] = r THEN free[CHOOSE i \in 1..Len(sids) : sids[i] = r] ELSE 0

\* the mempool scan (txns_randomized order): first match fills the slot, a second one empties it for good
RECURSIVE ScanPool(_, _, _, _, _)
ScanPool(s, seq, sids, free, sw) ==
  IF seq = <<>> THEN s
  ELSE LET t == Head(seq)
           pos == PosOf(sids, free, Rep(sw, t))
           s2 == IF pos = 0 THEN s
                 ELSE IF s.src[pos] = "NONE" THEN [s EXCEPT !.av[pos] = t, !.src[pos] = "MEMPOOL", !.cnt = @ + 1]
                 ELSE IF s.src[pos] # "COLLIDED" THEN [s EXCEPT !.av[pos] = NoTx, !.src[pos] = "COLLIDED", !.cnt = @ - 1]
                 ELSE s
       IN IF s2.cnt = Len(sids) THEN s2 ELSE ScanPool(s2, Tail(seq), sids, free, sw)
\* the extra pool scan: the same, except that the very same transaction (by wtxid) found twice is not a collision
RECURSIVE ScanExtra(_, _, _, _, _)
ScanExtra(s, seq, sids, free, sw) ==
  IF seq = <<>> THEN s
  ELSE LET t == Head(seq)
           pos == PosOf(sids, free, Rep(sw, t))
           s2 == IF pos = 0 THEN s
                 ELSE IF s.src[pos] = "NONE" THEN [s EXCEPT !.av[pos] = t, !.src[pos] = "EXTRA", !.cnt = @ + 1]
                 ELSE IF s.src[pos] # "COLLIDED" /\ Wtxid(s.av[pos]) # Wtxid(t)
                      THEN [s EXCEPT !.av[pos] = NoTx, !.src[pos] = "COLLIDED", !.cnt = @ - 1]
                 ELSE s
       IN IF s2.cnt = Len(sids) THEN s2 ELSE ScanExtra(s2, Tail(seq), sids, free, sw)

\* P = the PartiallyDownloadedBlock: [hdr : header set, avail]
Fresh == [hdr |-> FALSE, avail |-> <<>>]
InitF(P, A, pool, extra, sw) ==
  IF A.hnull \/ (A.sids = <<>> /\ A.pre = <<>>) THEN [st |-> "INVALID", P |-> P]
  ELSE IF P.hdr \/ P.avail # <<>> THEN [st |-> "INVALID", P |-> P]
  ELSE LET pf == Prefill(A) IN
       IF ~pf.ok THEN [st |-> "INVALID", P |-> [hdr |-> TRUE, avail |-> pf.avail]]
       ELSE IF Cardinality({A.sids[i] : i \in 1..Len(A.sids)}) # Len(A.sids)
            THEN [st |-> "FAILED", P |-> [hdr |-> TRUE, avail |-> pf.avail]]        \* short id collision inside the block
            ELSE LET free == FreeSeq(pf.avail, 1)
                     s0 == [av |-> pf.avail, src |-> [j \in 1..Len(pf.avail) |-> "NONE"], cnt |-> 0]
                     s1 == ScanPool(s0, pool, A.sids, free, sw)
                     s2 == ScanExtra(s1, extra, A.sids, free, sw)
                 IN [st |-> "OK", P |-> [hdr |-> TRUE, avail |-> s2.av]]

(* ------------------------------------------------------------------ FillBlock *)
RECURSIVE FillGo(_, _, _, _, _)
\* returns [short : ran out of answer at position i, list, off]
FillGo(av, missing, i, off, acc) ==
  IF i > Len(av) THEN [short |-> FALSE, at |-> i, list |-> acc, off |-> off]
  ELSE IF av[i] = NoTx
       THEN (IF off >= Len(missing) THEN [short |-> TRUE, at |-> i, list |-> acc, off |-> off]
             ELSE FillGo(av, missing, i + 1, off + 1, Append(acc, missing[off + 1])))
       ELSE FillGo(av, missing, i + 1, off, Append(acc, av[i]))
FillF(P, missing, blk, commit, segwit) ==
  IF ~P.hdr THEN [st |-> "INVALID", list |-> <<>>, P |-> P]
  ELSE LET g == FillGo(P.avail, missing, 1, 0, <<>>) IN
       IF g.short
       THEN \* returns before the object is cleared; the transactions already handed over were moved out of txn_available
            [st |-> "INVALID", list |-> <<>>, P |-> [hdr |-> TRUE, avail |-> [j \in 1..Len(P.avail) |-> IF j < g.at THEN NoTx ELSE P.avail[j]]]]
       ELSE IF Len(missing) # g.off THEN [st |-> "INVALID", list |-> <<>>, P |-> Fresh]
       ELSE IF Mutated(g.list, blk, commit, segwit) THEN [st |-> "FAILED", list |-> g.list, P |-> Fresh]
       ELSE [st |-> "OK", list |-> g.list, P |-> Fresh]

(* ------------------------------------------------------------------ announcements *)
\* honest encoding of `list` with prefilled positions PP (1 = the coinbase is always among them)
RECURSIVE PreSeq(_, _, _, _)
PreSeq(list, PP, j, last) ==
  IF j > Len(list) THEN <<>>
  ELSE IF j \in PP THEN <<[idx |-> (j - 1) - last - 1, tx |-> list[j]]>> \o PreSeq(list, PP, j + 1, j - 1)
  ELSE PreSeq(list, PP, j + 1, last)
RECURSIVE SidSeq(_, _, _, _)
SidSeq(list, PP, j, sw) ==
  IF j > Len(list) THEN <<>>
  ELSE (IF j \in PP THEN <<>> ELSE <<Rep(sw, list[j])>>) \o SidSeq(list, PP, j + 1, sw)
Honest(list, PP, sw) == [hnull |-> FALSE, sids |-> SidSeq(list, PP, 1, sw), pre |-> PreSeq(list, PP, 1, -1)]
====
