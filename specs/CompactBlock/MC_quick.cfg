CONSTANTS
  BlockIdx = {1, 2, 4, 5, 6, 7}
  MaxPoolInit = 2
  MaxExtraInit = 1
  MaxPoolFill = 1
  MaxExtraFill = 1
INIT Init
NEXT Next
INVARIANTS Safe FailClosed OneShot Live EmitRow
CHECK_DEADLOCK FALSE
