\* thorough: three-valued netgroup and ping, k = 2
CONSTANTS
  KGroup = 2
  KPing = 2
  KTx = 1
  KBlk = 1
  KBro = 1
  MaxN = 4
  VGrp = {0, 1, 2}
  VPing = {0, 1, 2}
  VTx = {0, 1}
  VBlk = {0}
  Kinds = {"in", "noban"}
  Flavs = {"relay"}
  Crits = {"grp"}
  Aboves = {2}
  Tieds = {0}
  ChampVars = {"distinct"}
  FillSizes = {0}
  FillMods = {97}
  Decoys = {"none"}
  TFlavs = {"relay"}
INIT InitSmall
NEXT NextSmall
INVARIANTS Safe LemmaFilter LemmaGrp LemmaPing LemmaTx LemmaBlk RemIsSubset
PROPERTY Shrinks
CHECK_DEADLOCK FALSE
