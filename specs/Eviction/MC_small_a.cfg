\* every multiset of <= 4 candidates over a tiny domain; netgroup and ping passes with k = 1; noban and outbound peers present
CONSTANTS
  KGroup = 1
  KPing = 1
  KTx = 0
  KBlk = 0
  KBro = 0
  MaxN = 4
  VGrp = {0, 1}
  VPing = {0, 1}
  VTx = {0}
  VBlk = {0}
  Kinds = {"in", "noban", "out"}
  Flavs = {"relay"}
  Crits = {"grp"}
  Aboves = {2}
  Tieds = {0}
  ChampVars = {"distinct"}
  FillSizes = {0}
  FillMods = {97}
  Decoys = {"none"}
  TFlavs = {"relay"}
INIT InitSmall
NEXT NextSmall
INVARIANTS Safe LemmaFilter LemmaGrp LemmaPing LemmaTx LemmaBlk RemIsSubset
PROPERTY Shrinks
CHECK_DEADLOCK FALSE
