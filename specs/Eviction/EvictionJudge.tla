---- MODULE EvictionJudge ----
(***************************************************************************)
(* Engine E3 for C59 (code -> spec): every line of the log named by env    *)
(* LOG is a case recorded from the real code,                              *)
(*   {src, row, cands: [candidate...], choices: [NodeId | -1 ...]}         *)
(* (the same candidate vector handed to the code in several orders).  TLC  *)
(* evaluates the relation Allowed of module Eviction on each case and      *)
(* prints one verdict row per line; a row with ok = FALSE is a violation   *)
(* of C59.  Nothing but this module decides.                               *)
(***************************************************************************)
EXTENDS Integers, Sequences, FiniteSets, TLC, Json, IOUtils, VF
CONSTANTS KGroup, KPing, KTx, KBlk, KBro
VARIABLES par, cands, rem, pc, choice
E == INSTANCE Eviction WITH MaxN <- 0, VGrp <- {0}, VPing <- {0}, VTx <- {0}, VBlk <- {0}, Kinds <- {"in"}, Flavs <- {"relay"},
                            Crits <- {"grp"}, Aboves <- {0}, Tieds <- {0}, ChampVars <- {"distinct"}, FillSizes <- {0},
                            FillMods <- {97}, Decoys <- {"none"}, TFlavs <- {"relay"}
Log == ndJsonDeserialize(IOEnv.LOG)

\* the judge walks through the log: pc = line number (0 before the first line)
Init == par = [gen |-> "log"] /\ cands = <<>> /\ rem = {} /\ pc = 0 /\ choice = <<>>
Next == /\ pc < Len(Log)
        /\ pc' = pc + 1
        /\ cands' = Log[pc + 1].cands
        /\ choice' = Log[pc + 1].choices
        /\ UNCHANGED <<par, rem>>

Cands == E!Range(cands)
UniqueIds == \A i, j \in 1..Len(cands) : i # j => cands[i].id # cands[j].id
Bad == {i \in 1..Len(choice) : (\A j \in 1..(i - 1) : choice[j] # choice[i]) /\ ~E!Allowed(choice[i], Cands)}
Ok == UniqueIds /\ Bad = {}
Verdict == pc > 0 => VFRow([line |-> pc, ok |-> Ok, n |-> Len(cands),
                            why |-> IF ~UniqueIds THEN "duplicate ids in the logged candidate set"
                                    ELSE IF Bad = {} THEN "ok" ELSE E!Why(choice[CHOOSE i \in Bad : TRUE], Cands),
                            bad |-> IF Bad = {} THEN -1 ELSE choice[CHOOSE i \in Bad : TRUE]])
Complete == TLCGet("stats").diameter - 1 = Len(Log)
====
