CONSTANTS
  KGroup = 4
  KPing = 8
  KTx = 4
  KBlk = 4
  KBro = 8
INIT Init
NEXT Next
INVARIANT Verdict
POSTCONDITION Complete
CHECK_DEADLOCK FALSE
