\* the boundary-seeking generator with the code's protection sizes; the algorithm model is explored on every case whose
\* tie classes are small; every case is emitted (EmitRow) for the implementation
CONSTANTS
  KGroup = 4
  KPing = 8
  KTx = 4
  KBlk = 4
  KBro = 8
  MaxN = 0
  VGrp = {0}
  VPing = {0}
  VTx = {0}
  VBlk = {0}
  Kinds = {"in"}
  Flavs = {"relay"}
  Crits = {"grp", "ping", "tx", "blk"}
  Aboves = {0, 1, 2}
  Tieds = {0, 1, 2}
  ChampVars = {"distinct", "equal", "noban1", "out1"}
  FillSizes = {0, 12, 20, 30, 57}
  FillMods = {1, 3, 97}
  Decoys = {"none", "noban", "out", "both"}
  TFlavs = {"relay", "bro", "plain"}
INIT InitGen
NEXT NextGen
INVARIANTS Safe LemmaFilter LemmaGrp LemmaPing LemmaTx LemmaBlk RemIsSubset EmitRow
PROPERTY Shrinks
CHECK_DEADLOCK FALSE
