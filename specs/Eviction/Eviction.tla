---- MODULE Eviction ----
(***************************************************************************)
(* C59: inbound eviction never picks a protected peer.                     *)
(*                                                                         *)
(*  1. The RELATION the property states: Allowed(choice, S) over the       *)
(*     fields of NodeEvictionCandidate (src/node/eviction.h).  It is the   *)
(*     only thing that decides a verdict (module EvictionJudge evaluates   *)
(*     it on every (candidate set, chosen id) pair logged from the real    *)
(*     SelectNodeToEvict / CConnman::AttemptToEvictConnection).            *)
(*  2. A transcription of the ALGORITHM of SelectNodeToEvict               *)
(*     (src/node/eviction.cpp) as a state machine, one step per protection *)
(*     pass, with the unspecified order std::sort leaves between tied      *)
(*     candidates as nondeterminism.  TLC proves on it that the algorithm  *)
(*     never returns a peer the relation forbids (Safe) together with the  *)
(*     per-pass lemmas the argument rests on.                              *)
(*  3. A boundary-seeking GENERATOR of candidate sets: one "target" peer   *)
(*     sits at rank k / k+1 of exactly one criterion (with and without     *)
(*     ties) and is otherwise the most evictable peer of the set.          *)
(***************************************************************************)
EXTENDS Integers, Sequences, FiniteSets, TLC, VF

\* protection sizes: 4, 8, 4, 4 and 8 in the code; scaled down in the exhaustive small-set models
CONSTANTS KGroup, KPing, KTx, KBlk, KBro

None == -1                                  \* "no peer selected" (std::nullopt)
Range(s) == {s[i] : i \in 1..Len(s)}
Min2(a, b) == IF a < b THEN a ELSE b

(* ------------------------------------------------------------------------ *)
(* 1. the relation                                                          *)
(* ------------------------------------------------------------------------ *)
\* a candidate: [id, conn, ping, blk, tx, svc, relay, bloom, grp, prefer, local, net, noban, ctype]
\*   conn  m_connected (larger = younger)     ping  m_min_ping_time      blk / tx  m_last_block_time / m_last_tx_time
\*   svc   fRelevantServices   relay  m_relay_txs   bloom  fBloomFilter   grp  nKeyedNetGroup   prefer  prefer_evict
\*   local m_is_local   net  m_network   noban  m_noban   ctype  m_conn_type
Inbound(c) == c.ctype = "inbound"

\* c is one of the k best of S under EVERY ordering of ties: fewer than k other candidates are at least as good
StrictTop(c, S, k, Good(_)) == Cardinality({d \in S : d.id # c.id /\ Good(d) >= Good(c)}) < k

GGrp(c) == c.grp          \* highest keyed network group
GPing(c) == 0 - c.ping    \* lowest minimum ping time
GTx(c) == c.tx            \* most recently sent a novel transaction
GBlk(c) == c.blk          \* most recently sent a novel block

\* counted over ALL candidates S, as the property states
StrictlyProtected(c, S) ==
  \/ StrictTop(c, S, KGroup, GGrp)
  \/ StrictTop(c, S, KPing, GPing)
  \/ StrictTop(c, S, KTx, GTx)
  \/ StrictTop(c, S, KBlk, GBlk)

\* SAFE mode: the property is silent about WHOM to evict and about whether anybody is evicted at all
Allowed(choice, S) ==
  \/ choice = None
  \/ \E c \in S : c.id = choice /\ Inbound(c) /\ ~c.noban /\ ~StrictlyProtected(c, S)

\* diagnostic text for a verdict (first clause that fails)
Why(choice, S) ==
  IF choice = None THEN "ok-none"
  ELSE IF ~\E c \in S : c.id = choice THEN "chosen id is not a candidate"
  ELSE LET c == CHOOSE c \in S : c.id = choice IN
       IF ~Inbound(c) THEN "chosen peer is not inbound (" \o c.ctype \o ")"
       ELSE IF c.noban THEN "chosen peer has the noban permission"
       ELSE IF StrictTop(c, S, KGroup, GGrp) THEN "chosen peer is among the highest keyed netgroups under every tie order"
       ELSE IF StrictTop(c, S, KPing, GPing) THEN "chosen peer is among the lowest min ping times under every tie order"
       ELSE IF StrictTop(c, S, KTx, GTx) THEN "chosen peer is among the most recent transaction senders under every tie order"
       ELSE IF StrictTop(c, S, KBlk, GBlk) THEN "chosen peer is among the most recent block senders under every tie order"
       ELSE "ok"

(* ------------------------------------------------------------------------ *)
(* 2. the algorithm of SelectNodeToEvict                                    *)
(* ------------------------------------------------------------------------ *)
\* the comparators of eviction.cpp ("a sorts before b"; the LAST k elements of the sorted vector are protected)
LtGroup(a, b) == a.grp < b.grp                                              \* CompareNetGroupKeyed
LtPing(a, b) == a.ping > b.ping                                             \* ReverseCompareNodeMinPingTime
LtTx(a, b) == IF a.tx # b.tx THEN a.tx < b.tx                               \* CompareNodeTXTime
              ELSE IF a.relay # b.relay THEN b.relay
              ELSE IF a.bloom # b.bloom THEN a.bloom
              ELSE a.conn > b.conn
LtBro(a, b) == IF a.relay # b.relay THEN a.relay                            \* CompareNodeBlockRelayOnlyTime
               ELSE IF a.blk # b.blk THEN a.blk < b.blk
               ELSE IF a.svc # b.svc THEN b.svc
               ELSE a.conn > b.conn
LtBlk(a, b) == IF a.blk # b.blk THEN a.blk < b.blk                          \* CompareNodeBlockTime
               ELSE IF a.svc # b.svc THEN b.svc
               ELSE a.conn > b.conn
TruePred(c) == TRUE
BroPred(c) == ~c.relay /\ c.svc

\* The sets std::sort + "the last k elements" can denote.  Lt is a strict weak order, so exactly one class of tied
\* elements can straddle the cut: Sure = in the last k under every order, Tie = the straddling class.
LastK(R, k, Lt(_, _)) ==
  LET kk == Min2(k, Cardinality(R))
      Sure == {t \in R : Cardinality({u \in R : u # t /\ ~Lt(u, t)}) < kk}
      Tie == {t \in R : Cardinality({u \in R : Lt(t, u)}) < kk} \ Sure
      need == kk - Cardinality(Sure)
  IN {Sure \cup X : X \in {Y \in SUBSET Tie : Cardinality(Y) = need}}
\* largest tie class the cut can fall into (the models only explore sets where it is small)
TieWidth(R, k, Lt(_, _)) ==
  LET kk == Min2(k, Cardinality(R))
      Sure == {t \in R : Cardinality({u \in R : u # t /\ ~Lt(u, t)}) < kk}
  IN Cardinality({t \in R : Cardinality({u \in R : Lt(t, u)}) < kk} \ Sure)
\* EraseLastKElements(elements, comparator, k, predicate)
EraseLastK(R, k, Lt(_, _), Pred(_)) == {R \ {t \in T : Pred(t)} : T \in LastK(R, k, Lt)}

VARIABLES
  par,      \* generator parameters of this case (or a marker record for hand-built sets)
  cands,    \* the vector handed to SelectNodeToEvict
  rem,      \* vEvictionCandidates after the passes done so far
  pc,       \* next pass
  choice    \* the returned NodeId / None
vars == <<par, cands, rem, pc, choice>>
S == Range(cands)

Pass(from, to, Results) == pc = from /\ pc' = to /\ rem' \in Results /\ UNCHANGED <<par, cands, choice>>

PNoBan == Pass("noban", "outbound", {{c \in rem : ~c.noban}})                         \* ProtectNoBanConnections
POutbound == Pass("outbound", "grp", {{c \in rem : Inbound(c)}})                      \* ProtectOutboundConnections
PGrp == Pass("grp", "ping", EraseLastK(rem, KGroup, LtGroup, TruePred))
PPing == Pass("ping", "tx", EraseLastK(rem, KPing, LtPing, TruePred))
PTx == Pass("tx", "bro", EraseLastK(rem, KTx, LtTx, TruePred))
PBro == Pass("bro", "blk", EraseLastK(rem, KBro, LtBro, BroPred))
PBlk == Pass("blk", "rest", EraseLastK(rem, KBlk, LtBlk, TruePred))
\* ProtectEvictionCandidatesByRatio removes exactly floor(n/2) candidates, the prefer_evict filter and the choice of the
\* largest / youngest netgroup then pick one of the rest.  WHICH one the property does not care about, so the model leaves it
\* open: any remaining candidate may be returned; nobody is returned only if nothing remains.
PRest == /\ pc = "rest" /\ pc' = "done"
         /\ choice' \in (IF rem = {} THEN {None} ELSE {c.id : c \in rem})
         /\ UNCHANGED <<par, cands, rem>>
Algo == PNoBan \/ POutbound \/ PGrp \/ PPing \/ PTx \/ PBro \/ PBlk \/ PRest

\* the lemmas: a pass removes at least the peers its clause protects, whatever was removed before it; later passes only
\* remove more (Shrinks), so it is enough to state each lemma on the state right after its pass
LemmaFilter == pc = "grp" => \A c \in rem : Inbound(c) /\ ~c.noban
LemmaGrp == pc = "ping" => \A c \in rem : ~StrictTop(c, S, KGroup, GGrp)
LemmaPing == pc = "tx" => \A c \in rem : ~StrictTop(c, S, KPing, GPing)
LemmaTx == pc = "bro" => \A c \in rem : ~StrictTop(c, S, KTx, GTx)
LemmaBlk == pc = "rest" => \A c \in rem : ~StrictTop(c, S, KBlk, GBlk)
RemIsSubset == pc # "build" => rem \subseteq S
Shrinks == [][pc # "build" => (rem' \subseteq rem /\ cands' = cands)]_vars
\* the property on the algorithm
Safe == pc = "done" => Allowed(choice, S)

(* ------------------------------------------------------------------------ *)
(* 3a. every small candidate multiset (exhaustive models, scaled-down k)    *)
(* ------------------------------------------------------------------------ *)
CONSTANTS MaxN, VGrp, VPing, VTx, VBlk, Kinds, Flavs
Shape == [grp : VGrp, ping : VPing, tx : VTx, blk : VBlk, kind : Kinds, flav : Flavs]
SX == INSTANCE SequencesExt
ShapeSeq == SX!SetToSeq(Shape)
MkSmall(i, sh) ==
  [id |-> i, conn |-> 0, ping |-> sh.ping, blk |-> sh.blk, tx |-> sh.tx,
   svc |-> sh.flav # "plain", relay |-> sh.flav = "relay", bloom |-> FALSE, grp |-> sh.grp, prefer |-> FALSE,
   local |-> FALSE, net |-> "ipv4", noban |-> sh.kind = "noban",
   ctype |-> IF sh.kind = "out" THEN "outbound-full-relay" ELSE "inbound"]
\* the multiset is built in non-decreasing shape order (one state per multiset); `choice` carries the last shape index
InitSmall == par = [gen |-> "small"] /\ cands = <<>> /\ rem = {} /\ pc = "build" /\ choice = 1
AddSmall == /\ pc = "build" /\ Len(cands) < MaxN
            /\ \E k \in choice..Cardinality(Shape) :
                 /\ cands' = Append(cands, MkSmall(Len(cands) + 1, ShapeSeq[k]))
                 /\ choice' = k
            /\ UNCHANGED <<par, rem, pc>>
StartSmall == pc = "build" /\ pc' = "noban" /\ rem' = S /\ choice' = None /\ UNCHANGED <<par, cands>>
NextSmall == AddSmall \/ StartSmall \/ Algo

(* ------------------------------------------------------------------------ *)
(* 3b. the boundary-seeking generator                                       *)
(* ------------------------------------------------------------------------ *)
CONSTANTS Crits, Aboves, Tieds, ChampVars, FillSizes, FillMods, Decoys, TFlavs
KOf(crit) == CASE crit = "grp" -> KGroup [] crit = "ping" -> KPing [] crit = "tx" -> KTx [] crit = "blk" -> KBlk
Params == [crit : Crits, da : Aboves, tied : Tieds, cv : ChampVars, nfill : FillSizes, fmod : FillMods, dec : Decoys, tflav : TFlavs]
Nets == <<"ipv4", "ipv6", "onion", "i2p", "cjdns", "ipv4">>
OutTypes == <<"outbound-full-relay", "manual", "feeler", "block-relay-only", "addr-fetch", "private-broadcast">>

\* a candidate from "goodness" numbers (higher = better protected) on the four criteria
Mk(id, conn, gg, gp, gt, gb, flav, bloom, prefer, net, local, noban, ctype) ==
  [id |-> id, conn |-> conn, ping |-> 2000 - gp, blk |-> gb, tx |-> gt,
   svc |-> flav # "plain", relay |-> flav = "relay", bloom |-> bloom, grp |-> gg, prefer |-> prefer,
   local |-> local, net |-> net, noban |-> noban, ctype |-> ctype]
\* goodness of a role on criterion y when the criterion under test is x
G(x, y, onCrit, other) == IF x = y THEN onCrit ELSE other

Gen(p) ==
  LET x == p.crit
      above == KOf(x) - 2 + p.da      \* da = 0, 1, 2: k-2, k-1, k peers are strictly better than the target
      nCh == IF above < 0 THEN 0 ELSE above
      \* champions: strictly better than the target on x, hardly better elsewhere
      Champ(j) ==
        LET gx == IF p.cv = "equal" THEN 501 ELSE 500 + j        \* the nearest champion is one rank value above the target
            special == j = 1 /\ p.cv \in {"noban1", "out1"}
        IN Mk(j, 100 + j, G(x, "grp", gx, 11), G(x, "ping", gx, 11), G(x, "tx", gx, 11), G(x, "blk", gx, 11),
              "relay", FALSE, FALSE, "ipv4", FALSE, special /\ p.cv = "noban1",
              IF special /\ p.cv = "out1" THEN OutTypes[1 + (above % 6)] ELSE "inbound")
      \* the target (t = 0) and the peers tied with it on x: worst on everything else, youngest, prefer_evict
      Target(t) ==
        Mk(nCh + 1 + t, 300 - t, G(x, "grp", 500, 10), G(x, "ping", 500, 10), G(x, "tx", 500, 10), G(x, "blk", 500, 10),
           p.tflav, p.tflav = "relay", TRUE, "ipv4", FALSE, FALSE, "inbound")
      \* fillers: worse than the target on x, better on everything else, older, every network.  Rank values are abstract: the replay
      \* maps them to real field values at several resolutions (adjacent values 1 ns / 100 ns / 1 us / 1 ms apart for pings ...)
      Fill(i) ==
        LET v == 100 + (i % p.fmod)
            vx == IF i = 1 THEN 499 ELSE v        \* the longest-connected filler is the target's nearest competitor: one rank value below it
        IN Mk(nCh + 1 + p.tied + i, i, G(x, "grp", vx, v), G(x, "ping", vx, v), G(x, "tx", vx, v), G(x, "blk", vx, v),
              IF i % 4 = 0 THEN "bro" ELSE IF i % 9 = 5 THEN "plain" ELSE "relay", i % 5 = 0, FALSE,
              Nets[1 + (i % 6)], i % 6 = 5, FALSE, "inbound")
      base == nCh + 1 + p.tied + p.nfill
      \* decoys: the most evictable peers of all, but noban / not inbound
      nDec == CASE p.dec = "none" -> 0 [] p.dec = "both" -> 2 [] OTHER -> 1
      Decoy(d) ==
        LET isOut == p.dec = "out" \/ (p.dec = "both" /\ d = 1)
        IN Mk(base + d, 400 + d, 0, 0, 0, 0, "relay", TRUE, TRUE, "ipv4", FALSE, ~isOut,
              IF isOut THEN OutTypes[1 + ((p.nfill + above) % 6)] ELSE "inbound")
  IN [j \in 1..nCh |-> Champ(j)] \o [t \in 1..(1 + p.tied) |-> Target(t - 1)]
     \o [i \in 1..p.nfill |-> Fill(i)] \o [d \in 1..nDec |-> Decoy(d)]

\* id of the target and what the relation says about it
TargetId(p) == (IF KOf(p.crit) - 2 + p.da < 0 THEN 0 ELSE KOf(p.crit) - 2 + p.da) + 1

\* the algorithm model enumerates tie orders; cases with huge tie classes are emitted for the implementation only
MaxTie == 6
Explorable(R) == /\ TieWidth({c \in R : Inbound(c) /\ ~c.noban}, KPing, LtPing) <= MaxTie
                 /\ TieWidth({c \in R : Inbound(c) /\ ~c.noban}, KGroup, LtGroup) <= MaxTie

InitGen == /\ par \in Params
           /\ cands = Gen(par)
           /\ rem = S
           /\ pc = IF Explorable(S) THEN "noban" ELSE "emit-only"
           /\ choice = None
NextGen == Algo

\* random walk over the parameter space (TLC -simulate): every step draws a fresh case
InitSim == par = [gen |-> "none"] /\ cands = <<>> /\ rem = {} /\ pc = "emit-only" /\ choice = None
NextSim == /\ par' = [crit |-> RandomElement(Crits), da |-> RandomElement(Aboves), tied |-> RandomElement(Tieds), cv |-> RandomElement(ChampVars),
                    nfill |-> RandomElement(FillSizes), fmod |-> RandomElement(FillMods), dec |-> RandomElement(Decoys),
                    tflav |-> RandomElement(TFlavs)]
           /\ cands' = Gen(par')
           /\ UNCHANGED <<rem, pc, choice>>

\* one row per generated case (INVARIANT): the candidate vector for the harness
IsCase == pc \in {"noban", "emit-only"} /\ "crit" \in DOMAIN par
EmitRow == IsCase => VFRow([par |-> par, target |-> TargetId(par), cands |-> cands,
                            protected |-> \E c \in S : c.id = TargetId(par) /\ StrictlyProtected(c, S)])
====
