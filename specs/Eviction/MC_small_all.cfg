\* thorough: every multiset of <= 5 candidates, all passes with k = 1
CONSTANTS
  KGroup = 1
  KPing = 1
  KTx = 1
  KBlk = 1
  KBro = 1
  MaxN = 5
  VGrp = {0, 1}
  VPing = {0, 1}
  VTx = {0, 1}
  VBlk = {0, 1}
  Kinds = {"in"}
  Flavs = {"relay", "bro"}
  Crits = {"grp"}
  Aboves = {2}
  Tieds = {0}
  ChampVars = {"distinct"}
  FillSizes = {0}
  FillMods = {97}
  Decoys = {"none"}
  TFlavs = {"relay"}
INIT InitSmall
NEXT NextSmall
INVARIANTS Safe LemmaFilter LemmaGrp LemmaPing LemmaTx LemmaBlk RemIsSubset
PROPERTY Shrinks
CHECK_DEADLOCK FALSE
