\* TLC -simulate: every step draws a case from the full parameter space of the generator (seeded by -seed)
CONSTANTS
  KGroup = 4
  KPing = 8
  KTx = 4
  KBlk = 4
  KBro = 8
  MaxN = 0
  VGrp = {0}
  VPing = {0}
  VTx = {0}
  VBlk = {0}
  Kinds = {"in"}
  Flavs = {"relay"}
  Crits = {"grp", "ping", "tx", "blk"}
  Aboves = {0, 1, 2}
  Tieds = {0, 1, 2}
  ChampVars = {"distinct", "equal", "noban1", "out1"}
  FillSizes = {0, 5, 12, 17, 20, 24, 30, 40, 57, 90, 125}
  FillMods = {1, 3, 7, 97}
  Decoys = {"none", "noban", "out", "both"}
  TFlavs = {"relay", "bro", "plain"}
INIT InitSim
NEXT NextSim
INVARIANTS EmitRow
CHECK_DEADLOCK FALSE
