---- MODULE Snapshot ----
(***************************************************************************)
(* C20: a UTXO snapshot is used only if it matches its commitment.         *)
(*                                                                         *)
(* The snapshot file as the loader sees it (src/node/utxo_snapshot.h,      *)
(* src/rpc/blockchain.cpp WriteUTXOSnapshot):                              *)
(*   magic, version, network magic, base block hash, declared coin count,  *)
(*   then groups  txid, compact-size count, count x (compact-size vout,    *)
(*   coin(height, coinbase flag, amount, script)).                         *)
(* The genuine snapshot of the deterministic regtest chain holds one coin  *)
(* per block.  The model distinguishes NSlots of its groups (the first     *)
(* group of the file, the group after the bulk, the last group) and treats *)
(* the remaining Bulk groups as one untouched item.                        *)
(*                                                                         *)
(* Two descriptions of loadtxoutset / ChainstateManager::ActivateSnapshot: *)
(*   ActRes     procedural, the checks in the order of the code (metadata  *)
(*              parser, ActivateSnapshot, PopulateAndValidateSnapshot with *)
(*              its coins_left loop, first record of an outpoint wins),    *)
(*   MayAccept  declarative, the statement of the property (well formed,   *)
(*              some reading of the file is the committed coin set, base   *)
(*              is an assumeutxo block on the best valid header chain with *)
(*              more work than the tip, no snapshot yet, empty mempool).   *)
(* TLC proves ActRes.ok => MayAccept, equivalence where no outpoint is      *)
(* repeated with conflicting coins, "a refusal changes nothing" and        *)
(* "background validation says validated only if the set validated from    *)
(* genesis is the committed one" on every (file, node state) pair of the   *)
(* mutation table, and emits every transition for replay on a real node.   *)
(***************************************************************************)
EXTENDS Integers, Sequences, FiniteSets, TLC, VF
CONSTANTS NSlots,     \* 3
          Bulk,       \* number of genuine coins the model never touches (real coin count - NSlots)
          BaseH,      \* height of the snapshot base
          Tier        \* "quick" | "thorough": which node states are enumerated

\* ------------------------------------------------------------------ blocks
\* "B": the base (in the assumeutxo table of the chain parameters, height BaseH on the main chain)
\* "P": its parent (header known whenever B's is; not in the table)
\* "A": another entry of the table whose header this node never has
\* "Z": a hash nobody knows
AuTable == {"B", "A"}
Bases == {"B", "P", "A", "Z"}

\* ------------------------------------------------------------------ coins
\* fields are classes: "gen" = the value the genuine snapshot has for that outpoint
GenCoin == [h |-> "gen", cb |-> "gen", amt |-> "gen", spk |-> "gen"]
HClasses == {"gen", "other", "over"}               \* other: a different height <= BaseH; over: BaseH + 1
AmtClasses == {"gen", "plus1", "max", "over", "neg"} \* max = MAX_MONEY (in range), over = MAX_MONEY + 1, neg = -2
AmtInRange(a) == a \notin {"over", "neg"}
NewTx == 9                                          \* a txid that is not in the genuine set
BigVout == 99                                       \* vout 2^32 - 1 (ReadCompactSize refuses anything above MAX_SIZE)
GenOps == {<<t, 0>> : t \in 1..NSlots}
Committed == [o \in GenOps |-> GenCoin]             \* plus the bulk (tracked by a flag)

Rec(n, c) == [n |-> n, c |-> c]
Group(tx, cnt, recs) == [kind |-> "group", tx |-> tx, cnt |-> cnt, recs |-> recs, enc |-> "canon"]
BulkItem == [kind |-> "bulk", tx |-> 0, cnt |-> 0, recs |-> <<>>, enc |-> "canon"]
G(t) == Group(t, 1, <<Rec(0, GenCoin)>>)
NoCut == [i |-> 99, pos |-> "none"]
\* cut = [i, pos]: the file ends at item i (i = 0: inside the metadata): "start" exactly before the item; "txid" inside its txid;
\* "cnt" after the txid; "vout" after the count; "coin" inside the first record's coin; bulk item: "start" or "inner" (mid-record)
F0 == [magic |-> "ok", ver |-> 2, net |-> "regtest", base |-> "B", declared |-> NSlots + Bulk,
       items |-> <<G(1), BulkItem, G(2), G(3)>>, cut |-> NoCut, extra |-> "none"]
ItemIx(s) == IF s = 1 THEN 1 ELSE s + 1             \* item index of slot s in F0

\* ------------------------------------------------------------------ the mutation table
RemoveAt(s, i) == SubSeq(s, 1, i - 1) \o SubSeq(s, i + 1, Len(s))
InsertAfter(s, i, x) == SubSeq(s, 1, i) \o <<x>> \o SubSeq(s, i + 1, Len(s))
NF(name, f) == [name |-> name, f |-> f]
SetCoin(s, c) == [F0 EXCEPT !.items[ItemIx(s)].recs = <<Rec(0, c)>>]
SlotName(s) == CASE s = 1 -> "s1_" [] s = 2 -> "s2_" [] OTHER -> "s3_"

MetaFiles == {
  NF("genuine", F0),
  NF("magic", [F0 EXCEPT !.magic = "bad"]),
  NF("ver1", [F0 EXCEPT !.ver = 1]), NF("ver3", [F0 EXCEPT !.ver = 3]),
  NF("net_main", [F0 EXCEPT !.net = "main"]), NF("net_unknown", [F0 EXCEPT !.net = "unknown"]),
  NF("base_parent", [F0 EXCEPT !.base = "P"]), NF("base_other_au", [F0 EXCEPT !.base = "A"]), NF("base_unknown", [F0 EXCEPT !.base = "Z"]),
  NF("declared_plus1", [F0 EXCEPT !.declared = @ + 1]), NF("declared_minus1", [F0 EXCEPT !.declared = @ - 1]),
  NF("declared_zero", [F0 EXCEPT !.declared = 0]), NF("declared_huge", [F0 EXCEPT !.declared = 2000000000]),
  NF("meta_truncated", [F0 EXCEPT !.cut = [i |-> 0, pos |-> "meta"]]),
  NF("swap_order", [F0 EXCEPT !.items = <<G(3), BulkItem, G(2), G(1)>>]),
  NF("vout_big", [F0 EXCEPT !.items[1].recs = <<Rec(BigVout, GenCoin)>>]),
  NF("trailing_byte", [F0 EXCEPT !.extra = "byte"]),
  NF("trailing_byte_declared_plus1", [F0 EXCEPT !.extra = "byte", !.declared = @ + 1]),
  NF("empty_body_declared_zero", [F0 EXCEPT !.items = <<>>, !.declared = 0]),
  NF("cut_bulk_start", [F0 EXCEPT !.cut = [i |-> 2, pos |-> "start"]]),
  NF("cut_bulk_start_adj", [F0 EXCEPT !.cut = [i |-> 2, pos |-> "start"], !.declared = 1]),
  NF("cut_bulk_inner", [F0 EXCEPT !.cut = [i |-> 2, pos |-> "inner"]]) }

SlotFiles(s) == LET p == SlotName(s) i == ItemIx(s) IN {
  NF(p \o "amt_plus1", SetCoin(s, [GenCoin EXCEPT !.amt = "plus1"])),
  NF(p \o "amt_max", SetCoin(s, [GenCoin EXCEPT !.amt = "max"])),
  NF(p \o "amt_over", SetCoin(s, [GenCoin EXCEPT !.amt = "over"])),
  NF(p \o "amt_neg", SetCoin(s, [GenCoin EXCEPT !.amt = "neg"])),
  NF(p \o "height_other", SetCoin(s, [GenCoin EXCEPT !.h = "other"])),
  NF(p \o "height_over", SetCoin(s, [GenCoin EXCEPT !.h = "over"])),
  NF(p \o "coinbase_flip", SetCoin(s, [GenCoin EXCEPT !.cb = "flip"])),
  NF(p \o "script_other", SetCoin(s, [GenCoin EXCEPT !.spk = "other"])),
  NF(p \o "script_empty", SetCoin(s, [GenCoin EXCEPT !.spk = "empty"])),
  NF(p \o "vout_1", [F0 EXCEPT !.items[i].recs = <<Rec(1, GenCoin)>>]),
  NF(p \o "txid_new", [F0 EXCEPT !.items[i].tx = NewTx]),
  NF(p \o "removed", [F0 EXCEPT !.items = RemoveAt(@, i)]),
  NF(p \o "removed_adj", [F0 EXCEPT !.items = RemoveAt(@, i), !.declared = @ - 1]),
  NF(p \o "added_group", [F0 EXCEPT !.items = InsertAfter(@, i, G(NewTx))]),
  NF(p \o "added_group_adj", [F0 EXCEPT !.items = InsertAfter(@, i, G(NewTx)), !.declared = @ + 1]),
  NF(p \o "added_output", [F0 EXCEPT !.items[i] = Group(s, 2, <<Rec(0, GenCoin), Rec(1, GenCoin)>>)]),
  NF(p \o "added_output_adj", [F0 EXCEPT !.items[i] = Group(s, 2, <<Rec(0, GenCoin), Rec(1, GenCoin)>>), !.declared = @ + 1]),
  NF(p \o "count_plus1", [F0 EXCEPT !.items[i].cnt = 2]),
  NF(p \o "count_zero", [F0 EXCEPT !.items[i].cnt = 0]),
  NF(p \o "count_noncanonical", [F0 EXCEPT !.items[i].enc = "noncanon"]),
  NF(p \o "empty_group_inserted", [F0 EXCEPT !.items = InsertAfter(@, i, Group(NewTx, 0, <<>>))]),
  NF(p \o "repeated", [F0 EXCEPT !.items = InsertAfter(@, i, G(s))]),
  NF(p \o "repeated_adj", [F0 EXCEPT !.items = InsertAfter(@, i, G(s)), !.declared = @ + 1]),
  NF(p \o "repeated_in_group_adj", [F0 EXCEPT !.items[i] = Group(s, 2, <<Rec(0, GenCoin), Rec(0, GenCoin)>>), !.declared = @ + 1]),
  NF(p \o "repeated_changed_second_adj", [F0 EXCEPT !.items = InsertAfter(@, i, Group(s, 1, <<Rec(0, [GenCoin EXCEPT !.amt = "plus1"])>>)), !.declared = @ + 1]),
  NF(p \o "repeated_changed_first_adj", [F0 EXCEPT !.items = InsertAfter(@, i - 1, Group(s, 1, <<Rec(0, [GenCoin EXCEPT !.amt = "plus1"])>>)), !.declared = @ + 1]),
  NF(p \o "cut_start", [F0 EXCEPT !.cut = [i |-> i, pos |-> "start"]]),
  NF(p \o "cut_start_adj", [F0 EXCEPT !.cut = [i |-> i, pos |-> "start"], !.declared = IF s = 1 THEN 0 ELSE Bulk + s - 1]),
  NF(p \o "cut_txid", [F0 EXCEPT !.cut = [i |-> i, pos |-> "txid"]]),
  NF(p \o "cut_cnt", [F0 EXCEPT !.cut = [i |-> i, pos |-> "cnt"]]),
  NF(p \o "cut_vout", [F0 EXCEPT !.cut = [i |-> i, pos |-> "vout"]]),
  NF(p \o "cut_coin", [F0 EXCEPT !.cut = [i |-> i, pos |-> "coin"]]) }

Files == MetaFiles \cup UNION {SlotFiles(s) : s \in 1..NSlots}
\* files offered again once a snapshot chainstate exists
FewFiles == {x \in Files : x.name \in {"genuine", "s1_amt_plus1", "magic", "base_parent"}}

\* ------------------------------------------------------------------ the node
VARIABLES hdr,      \* headers known: "none" | "chain" (main chain to BaseH+1) | "forklow" (+ a heavier fork from below the base)
                    \*                | "forkhigh" (+ a heavier fork on top of the base)
          failed,   \* "no" | "base" | "anc": the base header / one of its ancestors was marked invalid
          otip,     \* height of the original (fully validating) chainstate's tip on the main chain
          pool,     \* number of mempool transactions
          disk,     \* coins databases on disk (the snapshot chainstate directory is then observable)
          snap,     \* "none" | "unvalidated" | "validated" | "invalid"
          tamper,   \* how the coin set of the background chainstate was tampered with before it reached the base
          lastAct, lastRes
node == <<hdr, failed, otip, pool, disk, snap, tamper>>
vars == <<node, lastAct, lastRes>>
View0 == node

OTips == {0, BaseH - 10, BaseH - 1, BaseH, BaseH + 1}
NodeStatesAll == {ns \in [hdr : {"none", "chain", "forklow", "forkhigh"}, failed : {"no", "base", "anc"}, otip : OTips, pool : {0, 1}, disk : BOOLEAN] :
                    /\ (ns.hdr = "none" => ns.otip = 0 /\ ns.failed = "no")
                    /\ (ns.failed # "no" => ns.otip <= BaseH - 10)
                    /\ (ns.pool = 1 => ns.otip >= 100)}
Good(ns) == ns.hdr = "chain" /\ ns.failed = "no" /\ ns.pool = 0 /\ ns.otip < BaseH
NodeStates == IF Tier = "thorough" THEN NodeStatesAll
              ELSE {ns \in NodeStatesAll : (ns.disk => Good(ns) /\ ns.otip = BaseH - 10) /\ (ns.hdr = "forkhigh" => ns.failed = "no")}

InIndex(b) == hdr # "none" /\ b \in {"B", "P"}

\* ------------------------------------------------------------------ procedural: PopulateAndValidateSnapshot's loop
\* acc = [left, view, bulk]; result st: "done" (coins_left reached 0; `next` = first unread item) or an error class
CutAt(F, i, poss) == F.cut.i = i /\ F.cut.pos \in poss
RECURSIVE ReadRecs(_, _, _, _, _)
ReadRecs(F, i, j, left, view) ==
  LET it == F.items[i] IN
  IF j > it.cnt THEN [st |-> "ok", left |-> left, view |-> view]
  ELSE IF j = 1 /\ CutAt(F, i, {"vout", "coin"}) THEN [st |-> "eof", left |-> left, view |-> view]
  ELSE LET r == it.recs[j] o == <<it.tx, r.n>> IN
       IF r.n = BigVout THEN [st |-> "format", left |-> left, view |-> view]
       ELSE IF r.c.h = "over" THEN [st |-> "bad-data", left |-> left, view |-> view]
       ELSE IF ~AmtInRange(r.c.amt) THEN [st |-> "bad-amount", left |-> left, view |-> view]
       ELSE ReadRecs(F, i, j + 1, left - 1, IF o \in DOMAIN view THEN view ELSE view @@ (o :> r.c))   \* try_emplace: first record wins
RECURSIVE ReadItems(_, _, _, _, _)
ReadItems(F, i, left, view, bulk) ==
  LET res(st) == [st |-> st, next |-> i, view |-> view, bulk |-> bulk] IN
  IF left = 0 THEN res("done")
  ELSE IF i > Len(F.items) \/ CutAt(F, i, {"start", "txid", "cnt", "inner"}) THEN res("eof")
  ELSE LET it == F.items[i] IN
       IF it.kind = "bulk" THEN (IF Bulk > left THEN [res("done") EXCEPT !.next = i] ELSE ReadItems(F, i + 1, left - Bulk, view, TRUE))
       ELSE IF it.enc = "noncanon" THEN res("format")
       ELSE IF it.cnt > left THEN res("count-mismatch")
       ELSE IF it.cnt # Len(it.recs) THEN res("desync")       \* following bytes are read as something they are not
       ELSE LET rr == ReadRecs(F, i, 1, left, view) IN
            IF rr.st # "ok" THEN res(rr.st) ELSE ReadItems(F, i + 1, rr.left, rr.view, bulk)
EmptyView == [o \in {} |-> GenCoin]
\* bytes remain after the loop: an unread item that is not cut away entirely, or appended bytes
LeftOver(F, next) == F.extra # "none" \/ (next <= Len(F.items) /\ ~(F.cut.i < next) /\ ~CutAt(F, next, {"start"}))
Populate(F) ==
  LET p == ReadItems(F, 1, F.declared, EmptyView, FALSE) IN
  IF p.st # "done" THEN p.st
  ELSE IF LeftOver(F, p.next) THEN "leftover"
  ELSE IF ~(p.bulk /\ p.view = Committed) THEN "hash"
  ELSE "ok"

Refuse(w) == [ok |-> FALSE, why |-> w]
ActRes(F) ==
  IF F.cut.i = 0 \/ F.magic # "ok" \/ F.ver # 2 \/ F.net # "regtest" THEN Refuse("metadata")     \* SnapshotMetadata::Unserialize throws
  ELSE IF snap \in {"unvalidated", "validated"} THEN Refuse("already")
  ELSE IF F.base \notin AuTable THEN Refuse("not-assumeutxo")
  ELSE IF ~InIndex(F.base) THEN Refuse("no-header")
  ELSE IF failed # "no" THEN Refuse("invalid-chain")
  ELSE IF hdr = "forklow" THEN Refuse("forked-headers")
  ELSE IF pool > 0 THEN Refuse("mempool")
  ELSE IF ~(otip < BaseH) THEN Refuse("work")
  ELSE LET p == Populate(F) IN IF p = "ok" THEN [ok |-> TRUE, why |-> "ok"] ELSE Refuse(p)

\* ------------------------------------------------------------------ declarative: the statement of C20
Groups(F) == {i \in 1..Len(F.items) : F.items[i].kind = "group"}
RecsOf(F) == UNION {{[o |-> <<F.items[i].tx, F.items[i].recs[j].n>>, c |-> F.items[i].recs[j].c] : j \in 1..Len(F.items[i].recs)} : i \in Groups(F)}
RECURSIVE SumLen(_, _)
SumLen(F, i) == IF i = 0 THEN 0 ELSE SumLen(F, i - 1) + (IF F.items[i].kind = "bulk" THEN Bulk ELSE Len(F.items[i].recs))
WellFormed(F) ==
  /\ F.magic = "ok" /\ F.ver = 2 /\ F.net = "regtest"
  /\ F.cut = NoCut /\ F.extra = "none"                                               \* neither truncated nor followed by anything
  /\ (Len(F.items) = 0 \/ F.items[Len(F.items)].kind = "bulk" \/ Len(F.items[Len(F.items)].recs) > 0)   \* (an empty group after the last coin is trailing data)
  /\ \A i \in Groups(F) : F.items[i].enc = "canon" /\ F.items[i].cnt = Len(F.items[i].recs)
  /\ F.declared = SumLen(F, Len(F.items))                                            \* declared count = records
  /\ \A r \in RecsOf(F) : r.c.h # "over" /\ AmtInRange(r.c.amt) /\ r.o[2] # BigVout     \* heights <= base height, amounts in range
\* some reading of the file (whichever record of a repeated outpoint is kept) is the committed set
MayBeCommitted(F) ==
  /\ \E i \in 1..Len(F.items) : F.items[i].kind = "bulk"
  /\ \A r \in RecsOf(F) : r.o \in GenOps
  /\ \A o \in GenOps : \E r \in RecsOf(F) : r.o = o /\ r.c = GenCoin
NoConflict(F) == \A r1, r2 \in RecsOf(F) : r1.o = r2.o => r1.c = r2.c
NodeAdmits(b) ==
  /\ snap \notin {"unvalidated", "validated"}          \* no snapshot chainstate exists yet
  /\ b \in AuTable /\ InIndex(b)                       \* known assumeutxo block whose header is in the index
  /\ failed = "no" /\ hdr # "forklow"                  \* not failed, on the best-header chain
  /\ pool = 0
  /\ otip < BaseH                                      \* more work than the active tip
MayAccept(F) == WellFormed(F) /\ MayBeCommitted(F) /\ NodeAdmits(F.base)

\* ------------------------------------------------------------------ actions
Init == /\ \E ns \in NodeStates : hdr = ns.hdr /\ failed = ns.failed /\ otip = ns.otip /\ pool = ns.pool /\ disk = ns.disk
        /\ snap = "none" /\ tamper = "none" /\ lastAct = <<"init">> /\ lastRes = [ok |-> TRUE, why |-> "init", may |-> TRUE]

Activate(x) ==
  /\ snap # "invalid"                                   \* after a failed background validation the node shuts down
  /\ LET r == ActRes(x.f) IN
     /\ snap' = (IF r.ok THEN "unvalidated" ELSE snap)
     /\ lastRes' = [ok |-> r.ok, why |-> r.why, may |-> MayAccept(x.f)]
  /\ lastAct' = <<"activate", x.name, x.f>>
  /\ UNCHANGED <<hdr, failed, otip, pool, disk, tamper>>

\* the malleation the unit tests use: edit the coins of the background chainstate behind validation's back
Tamper(k) ==
  /\ snap = "unvalidated" /\ tamper = "none" /\ otip < BaseH /\ (k = "extra" \/ otip >= 1)
  /\ tamper' = k /\ lastAct' = <<"tamper", k>> /\ lastRes' = [ok |-> TRUE, why |-> "none", may |-> TRUE]
  /\ UNCHANGED <<hdr, failed, otip, pool, disk, snap>>

\* the coin set the background chainstate holds when it reaches the base: the replay of the chain, unless tampered with
BgSetIsCommitted == tamper = "none"
\* deliver the blocks up to height h; reaching the base triggers MaybeValidateSnapshot
BgSync(h) ==
  /\ snap = "unvalidated" /\ otip < h /\ h \in {BaseH - 1, BaseH}
  /\ otip' = h
  /\ snap' = (IF h = BaseH THEN (IF BgSetIsCommitted THEN "validated" ELSE "invalid") ELSE snap)
  /\ lastAct' = <<"bgsync", h>>
  /\ lastRes' = [ok |-> TRUE, why |-> (IF h = BaseH THEN snap' ELSE "none"), may |-> TRUE]
  /\ UNCHANGED <<hdr, failed, pool, disk, tamper>>

Next == \/ \E x \in (IF snap = "none" THEN Files ELSE FewFiles) : Activate(x)
        \/ \E k \in {"extra", "remove", "change"} : Tamper(k)
        \/ \E h \in {BaseH - 1, BaseH} : BgSync(h)
Spec == Init /\ [][Next]_vars

\* ------------------------------------------------------------------ properties
IsAct(a) == a[1] = "activate"
\* activated only if every condition of the statement holds
ActivatedOnlyIf == [][(IsAct(lastAct') /\ lastRes'.ok) => (lastRes'.may /\ MayAccept(lastAct'[3]))]_vars
\* ... and (for files without conflicting repetitions) whenever they hold
ActivatedIf == [][(IsAct(lastAct') /\ NoConflict(lastAct'[3]) /\ MayAccept(lastAct'[3])) => lastRes'.ok]_vars
\* a refusal leaves the node as it was
RefusalChangesNothing == [][(IsAct(lastAct') /\ ~lastRes'.ok) => UNCHANGED node]_vars
\* at most one snapshot chainstate, created by an accepted activation only
SnapshotOnlyByActivation == [][(snap = "none" /\ snap' # "none") => (IsAct(lastAct') /\ lastRes'.ok /\ snap' = "unvalidated")]_vars
\* background validation reports success only if the set validated from genesis hashes to the commitment (hash = injective)
ValidatedOnlyIfCommitted == [][(snap' = "validated" /\ snap # "validated") => (lastAct'[1] = "bgsync" /\ otip' = BaseH /\ BgSetIsCommitted)]_vars
InvalidIsReported == [][(snap = "unvalidated" /\ otip' = BaseH /\ ~BgSetIsCommitted) => snap' = "invalid"]_vars
TypeOK == snap \in {"none", "unvalidated", "validated", "invalid"} /\ otip \in 0..(BaseH + 1) /\ (snap \in {"validated", "invalid"} => otip = BaseH)
\* every file of the table that differs from the genuine one in its (possible) coin set, or is malformed, is refused everywhere
MutantsRefused == \A x \in Files : (~WellFormed(x.f) \/ ~MayBeCommitted(x.f)) => ~ActRes(x.f).ok

\* ------------------------------------------------------------------ emission
\* what the harness observes: which chainstate is current, its tip, the original chainstate, the snapshot chainstate
Cur == IF snap \in {"unvalidated", "validated"} THEN "snap" ELSE "orig"
Proj == [hdr |-> hdr, failed |-> failed, otip |-> otip, pool |-> pool, disk |-> disk, snap |-> snap, tamper |-> tamper,
         cur |-> Cur, tip |-> (IF Cur = "snap" THEN BaseH ELSE otip),
         ncs |-> (IF snap = "none" THEN 1 ELSE 2),
         snapdir |-> (disk /\ snap \in {"unvalidated", "validated"}),
         origok |-> TRUE,                  \* the original chainstate stays fully validated, never snapshot-based, its coins are those of its chain
         snapcoins |-> (IF snap \in {"unvalidated", "validated"} THEN "committed" ELSE "none")]   \* the coins the snapshot chainstate loaded
Emit == VFEdge(Proj, lastAct', lastRes', Proj')
====
