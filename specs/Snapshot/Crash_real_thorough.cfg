CONSTANTS
  NSlots = 3
  Bulk = 197
  BaseH = 200
  Tier = "quick"
  MarkerFirst = FALSE
  CrashFiles = {"genuine", "s1_amt_plus1", "s2_removed_adj", "s3_added_group_adj", "s2_script_other", "s3_height_other", "s1_coinbase_flip", "trailing_byte", "s3_cut_coin", "declared_minus1", "s1_repeated_changed_first_adj", "swap_order"}
INIT InitC
NEXT NextC
VIEW ViewC
INVARIANTS TypeC RunsOnlyOnCompared BlessesOnlyCompared MarkerOnlyOverCompared
ACTION_CONSTRAINT EmitC
CHECK_DEADLOCK FALSE
