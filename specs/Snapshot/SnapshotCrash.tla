---- MODULE SnapshotCrash ----
(***************************************************************************)
(* C20, process death during activation.  ChainstateManager::              *)
(* ActivateSnapshot is not atomic: it creates the chainstate_snapshot      *)
(* leveldb, loads the coins, flushes them, hashes and compares them with   *)
(* the commitment, fakes block-index flags, re-checks the work, writes the *)
(* marker file chainstate_snapshot/base_blockhash and only then makes the  *)
(* new chainstate current.  The marker is all LoadAssumeutxoChainstate     *)
(* looks at when the node starts: a directory with the marker is adopted   *)
(* as the current chainstate without hashing its coins again; a directory  *)
(* without it is ignored (and left where it is).                           *)
(* This module spells the steps out, lets the process die between any two  *)
(* of them and restarts a node on the files left behind.                   *)
(* Invariant: the node never runs on - and background validation never     *)
(* blesses - a snapshot chainstate whose coins were not compared equal to  *)
(* the commitment.  It holds for the order of the code (MarkerFirst =      *)
(* FALSE) and fails when the marker is written before the coins are loaded *)
(* (MarkerFirst = TRUE, re-derived as a counterexample in every run).      *)
(* File semantics (Populate) and the mutation table come from Snapshot.    *)
(***************************************************************************)
EXTENDS Snapshot
CONSTANTS MarkerFirst,     \* FALSE: the order of the code
          CrashFiles       \* names of the files of the table that are loaded here

VARIABLES fname,       \* which file is being activated
          blocks,      \* the node has the block data of the chain up to the base (validated tip below it) / only the headers
          pc,          \* where the activating process is: "idle" | "dir" | "loaded" | "flushed" | "compared" | "added" | "done" | "cleanup" | "refused"
          alive,       \* the process exists
          ddir,        \* chainstate_snapshot/ exists
          dcoins,      \* what its coins database holds: "none" | "committed" | "other"
          dmarker,     \* chainstate_snapshot/base_blockhash exists
          dflags,      \* the faked BLOCK_OPT_WITNESS flags of the snapshot chain are in the block index on disk
          compared,    \* ghost: the coins on disk were hashed and found equal to the commitment
          started      \* result of the last start on these files: "n/a" | "single" | "adopted" | "refused"
cvars == <<fname, blocks, pc, alive, ddir, dcoins, dmarker, dflags, compared, started>>
svars == <<hdr, failed, otip, pool, disk, snap, tamper>>
allv == <<svars, cvars, lastAct, lastRes>>
ViewC == <<svars, cvars>>

FileOf(nm) == (CHOOSE x \in Files : x.name = nm).f
Outcome(nm) == Populate(FileOf(nm))       \* "ok" | "hash" | "leftover" | a parse error class
ParseFails(nm) == Outcome(nm) \notin {"ok", "hash"}

InitC == /\ hdr = "chain" /\ failed = "no" /\ otip = 0 /\ pool = 0 /\ disk = TRUE /\ snap = "none" /\ tamper = "none"
         /\ fname \in CrashFiles /\ blocks \in BOOLEAN
         /\ pc = "idle" /\ alive = TRUE /\ ddir = FALSE /\ dcoins = "none" /\ dmarker = FALSE /\ dflags = FALSE /\ compared = FALSE
         /\ started = "n/a" /\ lastAct = <<"init">> /\ lastRes = [ok |-> TRUE, why |-> "init", may |-> TRUE]

Act(a) == lastAct' = a /\ lastRes' = [ok |-> TRUE, why |-> "none", may |-> TRUE]
Keep(vs) == UNCHANGED vs
\* metadata and node checks passed (InitC is a node that admits the base); the snapshot chainstate and its leveldb are created
CreateDir ==
  /\ alive /\ pc = "idle" /\ started = "n/a"
  /\ pc' = "dir" /\ ddir' = TRUE /\ dmarker' = MarkerFirst
  /\ Act(<<"step", "dir">>) /\ Keep(<<svars, fname, blocks, alive, dcoins, dflags, compared, started>>)
\* the coins_left loop and the leftover check; the coins are in the cache only
Load ==
  /\ alive /\ pc = "dir" /\ started = "n/a"
  /\ pc' = (IF ParseFails(fname) THEN "cleanup" ELSE "loaded")
  /\ dmarker' = (IF ParseFails(fname) THEN FALSE ELSE dmarker)         \* cleanup_bad_snapshot removes the marker first
  /\ Act(<<"step", pc'>>) /\ Keep(<<svars, fname, blocks, alive, ddir, dcoins, dflags, compared, started>>)
FinalFlush ==
  /\ alive /\ pc = "loaded" /\ started = "n/a"
  /\ pc' = "flushed" /\ dcoins' = (IF Outcome(fname) = "ok" THEN "committed" ELSE "other")
  /\ Act(<<"step", "flushed">>) /\ Keep(<<svars, fname, blocks, alive, ddir, dmarker, dflags, compared, started>>)
\* ComputeUTXOStats(HASH_SERIALIZED) on the database, comparison with the commitment, then the block-index flags are faked in memory
Compare ==
  /\ alive /\ pc = "flushed" /\ started = "n/a"
  /\ IF dcoins = "committed" THEN pc' = "compared" /\ compared' = TRUE /\ dmarker' = dmarker
                             ELSE pc' = "cleanup" /\ compared' = compared /\ dmarker' = FALSE
  /\ Act(<<"step", pc'>>) /\ Keep(<<svars, fname, blocks, alive, ddir, dcoins, dflags, started>>)
\* final work check, marker (order of the code), AddChainstate: the snapshot chainstate is current in memory
Add ==
  /\ alive /\ pc = "compared" /\ started = "n/a"
  /\ pc' = "added" /\ dmarker' = TRUE /\ snap' = "unvalidated"
  /\ Act(<<"step", "added">>) /\ Keep(<<hdr, failed, otip, pool, disk, tamper, fname, blocks, alive, ddir, dcoins, dflags, compared, started>>)
\* MaybeRebalanceCaches flushes the original chainstate and with it the block index (faked flags)
Finish ==
  /\ alive /\ pc = "added" /\ started = "n/a"
  /\ pc' = "done" /\ dflags' = TRUE
  /\ Act(<<"step", "done">>) /\ Keep(<<svars, fname, blocks, alive, ddir, dcoins, dmarker, compared, started>>)
\* DeleteCoinsDBFromDisk
Cleanup ==
  /\ alive /\ pc = "cleanup" /\ started = "n/a"
  /\ pc' = "refused" /\ ddir' = FALSE /\ dcoins' = "none"
  /\ Act(<<"step", "refused">>) /\ Keep(<<svars, fname, blocks, alive, dmarker, dflags, compared, started>>)

Crash ==
  /\ alive /\ pc # "idle" /\ started = "n/a"                             \* (one process death per behaviour)
  /\ alive' = FALSE /\ snap' = "none"                                      \* memory is gone
  /\ Act(<<"crash", pc>>) /\ Keep(<<hdr, failed, otip, pool, disk, tamper, fname, blocks, pc, ddir, dcoins, dmarker, dflags, compared, started>>)

\* node::LoadChainstate on the files left behind
Restart ==
  /\ ~alive
  /\ alive' = TRUE
  /\ LET adopt == ddir /\ dmarker                                          \* LoadAssumeutxoChainstate
         \* the snapshot chain of a headers-only node lacks BLOCK_OPT_WITNESS unless the faked flags reached the disk: NeedsRedownload
         redl == adopt /\ ~blocks /\ ~dflags
     IN /\ started' = (IF redl THEN "refused" ELSE IF adopt THEN "adopted" ELSE "single")
        /\ snap' = (IF adopt /\ ~redl THEN "unvalidated" ELSE "none")
  /\ Act(<<"restart">>) /\ Keep(<<hdr, failed, otip, pool, disk, tamper, fname, blocks, pc, ddir, dcoins, dmarker, dflags, compared>>)

\* the original chainstate (which has the blocks) validates up to the base: its own coin set is the honest one, MaybeValidateSnapshot
\* compares *that* with the commitment and blesses the snapshot chainstate
BgComplete ==
  /\ alive /\ started = "adopted" /\ snap = "unvalidated" /\ blocks
  /\ snap' = "validated" /\ otip' = BaseH
  /\ Act(<<"bgcomplete">>) /\ Keep(<<hdr, failed, pool, disk, tamper, cvars>>)

NextC == CreateDir \/ Load \/ FinalFlush \/ Compare \/ Add \/ Finish \/ Cleanup \/ Crash \/ Restart \/ BgComplete

\* ------------------------------------------------------------------ the property
OnSnapshot == alive /\ snap \in {"unvalidated", "validated"}
\* the node never runs on a snapshot chainstate whose coins were not compared equal to the commitment ...
RunsOnlyOnCompared == OnSnapshot => (compared /\ dcoins = "committed")
\* ... and never reports one as validated
BlessesOnlyCompared == snap = "validated" => (compared /\ dcoins = "committed")
\* the marker exists only over compared coins (what makes the restart rule sound)
MarkerOnlyOverCompared == dmarker => compared
TypeC == pc \in {"idle", "dir", "loaded", "flushed", "compared", "added", "done", "cleanup", "refused"} /\ dcoins \in {"none", "committed", "other"}

ProjC == [file |-> fname, blocks |-> blocks, pc |-> pc, alive |-> alive, dir |-> ddir, coins |-> dcoins, marker |-> dmarker, flags |-> dflags,
          started |-> started, snap |-> snap, otip |-> otip]
EmitC == VFEdge(ProjC, lastAct', lastRes', ProjC')
====
