CONSTANTS
  NSlots = 3
  Bulk = 197
  BaseH = 200
  Tier = "quick"
  MarkerFirst = FALSE
  CrashFiles = {"genuine", "s1_amt_plus1"}
INIT InitC
NEXT NextC
VIEW ViewC
INVARIANTS TypeC RunsOnlyOnCompared BlessesOnlyCompared MarkerOnlyOverCompared
ACTION_CONSTRAINT EmitC
CHECK_DEADLOCK FALSE
