CONSTANTS
  NSlots = 3
  Bulk = 197
  BaseH = 200
  Tier = "quick"
  MarkerFirst = TRUE
  CrashFiles = {"genuine", "s1_amt_plus1"}
INIT InitC
NEXT NextC
VIEW ViewC
INVARIANTS RunsOnlyOnCompared
CHECK_DEADLOCK FALSE
