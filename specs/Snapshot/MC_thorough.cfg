CONSTANTS
  NSlots = 3
  Bulk = 197
  BaseH = 200
  Tier = "thorough"
INIT Init
NEXT Next
VIEW View0
INVARIANTS TypeOK MutantsRefused
PROPERTIES ActivatedOnlyIf ActivatedIf RefusalChangesNothing SnapshotOnlyByActivation ValidatedOnlyIfCommitted InvalidIsReported
ACTION_CONSTRAINT Emit
CHECK_DEADLOCK FALSE
