---- MODULE TraceTxRequest ----
(* Engine E3: is a call sequence recorded from the real TxRequestTracker (adapter mode "drive") a behaviour of    *)
(* TxRequest?  Every logged call must be the corresponding action with the logged arguments, and what the tracker *)
(* answered (GetRequestable result in order, expired requests as a set, the counters of every peer, Size) must be *)
(* what the specification predicts.                                                                               *)
EXTENDS TxRequest, TxRequestPrio, IOUtils
TraceLog == ndJsonDeserialize(IOEnv.TRACE)
VARIABLE l
tvars == <<ann, nextSeq, lastAct, lastRes, l>>
Ev == TraceLog[l]
IsEvent(e) == l <= Len(TraceLog) /\ TraceLog[l].e = e /\ l' = l + 1
\* the counters logged after the call
Logged(a) == /\ Ev.size = Size(a)
             /\ Ev.cnt = [p \in Peers |-> <<Count(a, p), CountInFlight(a, p), CountCandidates(a, p)>>]

TInit == Init /\ l = 1
TReset == /\ IsEvent("Reset")
          /\ ann' = [p \in Peers |-> [t \in Txs |-> None]] /\ nextSeq' = 1
          /\ lastAct' = <<"init">> /\ lastRes' = "none"
TInv == IsEvent("inv") /\ ReceivedInv(Ev.p, Ev.t, Ev.k, Ev.pref, Ev.time) /\ Logged(ann')
TGetReq == /\ IsEvent("getreq") /\ GetRequestable(Ev.p, Ev.now)
           /\ lastRes'.req = Ev.req
           /\ LET logged == {<<Ev.expired[i].p, Ev.expired[i].t, Ev.expired[i].k>> : i \in 1..Len(Ev.expired)}
                  m == lastRes'.expired
              IN /\ Cardinality(logged) = Len(Ev.expired)
                 /\ logged = {x \in Peers \X Txs \X Kinds : m[x[1]][x[2]] = x[3]}
           /\ Logged(ann')
TRequested == IsEvent("requested") /\ RequestedTx(Ev.p, Ev.t, Ev.time) /\ Logged(ann')
TResponse == IsEvent("response") /\ ReceivedResponse(Ev.p, Ev.t) /\ Logged(ann')
TForget == IsEvent("forget") /\ ForgetTxHash(Ev.t) /\ Logged(ann')
TDisconnect == IsEvent("disconnect") /\ DisconnectedPeer(Ev.p) /\ Logged(ann')
TNext == TReset \/ TInv \/ TGetReq \/ TRequested \/ TResponse \/ TForget \/ TDisconnect
\* the selection clause at the time the tracker was last asked
SelectedAtLastNow == lastAct[1] = "getreq" => ExactlyOneSelectedAt(lastAct[3])
Accepted == TLCGet("stats").diameter - 1 = Len(TraceLog)
====
