CONSTANTS
  NPeers = 3
  NTxs = 1
  MaxTime = 2
  MaxNow = 2
  Kinds = {"txid", "wtxid"}
  Prio <- PrioFromImpl
INIT Init
NEXT Next
VIEW View0
INVARIANTS TypeOK SeqUnique AtMostOneRequested NoOnlyCompleted ExactlyOneSelected CountersOK
PROPERTIES AnswerOK OncePerAnnouncement
ACTION_CONSTRAINT Emit
CHECK_DEADLOCK FALSE
