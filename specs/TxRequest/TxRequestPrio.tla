---- MODULE TxRequestPrio ----
(* SAMPLE. PrioFromImpl[t][p][1 + preferred] = rank of ComputePriority(txhash t, peer p, preferred) among the announcements *)
(* of the same preferredness; higher is better.                                                                          *)
(* props/C34.py writes the real table (same shape) to .build/work/C34/spec-<config>/TxRequestPrio.tla and runs TLC there. *)
PrioFromImpl == << << <<1, 4>>, <<2, 6>>, <<3, 5>> >>, << <<3, 6>>, <<2, 4>>, <<1, 5>> >> >>
====
