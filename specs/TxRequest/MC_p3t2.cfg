CONSTANTS
  NPeers = 3
  NTxs = 2
  MaxTime = 1
  MaxNow = 1
  Kinds = {"txid"}
  Prio <- PrioFromImpl
INIT Init
NEXT Next
VIEW View0
INVARIANTS TypeOK SeqUnique AtMostOneRequested NoOnlyCompleted ExactlyOneSelected CountersOK
PROPERTIES AnswerOK OncePerAnnouncement
CHECK_DEADLOCK FALSE
