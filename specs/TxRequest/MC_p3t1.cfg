CONSTANTS
  NPeers = 3
  NTxs = 1
  MaxTime = 2
  MaxNow = 2
  Kinds = {"txid"}
  Prio <- PrioFromImpl
INIT Init
NEXT Next
VIEW View0
INVARIANTS TypeOK SeqUnique AtMostOneRequested NoOnlyCompleted ExactlyOneSelected CountersOK
PROPERTIES AnswerOK OncePerAnnouncement
CHECK_DEADLOCK FALSE
