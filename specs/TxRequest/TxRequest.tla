---- MODULE TxRequest ----
(***************************************************************************)
(* Transaction download scheduling (src/txrequest.cpp, TxRequestTracker). *)
(* Announcement-level reference model: one record per (peer, txhash) pair *)
(* in state N(othing) / C(ANDIDATE) / R(EQUESTED) / D (COMPLETED) with    *)
(* the preferred flag, a time (reqtime while C, expiry while R), the      *)
(* sequence number handed out at announcement time and the kind of the    *)
(* announced id (txid / wtxid).  The tracker's DELAYED / READY / BEST      *)
(* sub-states are a function of this state and of the `now` passed to     *)
(* GetRequestable, which is the only call that looks at the clock: there  *)
(* is no clock variable, and `now` may move backwards between calls.      *)
(* Every action is one public call of TxRequestTracker.                   *)
(*                                                                         *)
(* Prio[t][p][1 + pref] is the rank of ComputePriority(txhash t, peer p,  *)
(* pref) of the real deterministic tracker (read before TLC runs).  It is *)
(* only consulted to break ties between announcements of the same         *)
(* preferredness: that a preferred peer beats a non-preferred one is part *)
(* of the property (C34) and is stated by the model itself.               *)
(***************************************************************************)
EXTENDS Integers, Sequences, FiniteSets, TLC, VF
CONSTANTS NPeers, NTxs,        \* peers 1..NPeers, txhashes 1..NTxs
          MaxTime, MaxNow,     \* reqtime / expiry arguments 0..MaxTime, now arguments 0..MaxNow
          Kinds,               \* subset of {"txid", "wtxid"}
          Prio
Peers == 1..NPeers
Txs == 1..NTxs
Times == 0..MaxTime
Nows == 0..MaxNow
None == [st |-> "N", pref |-> FALSE, time |-> 0, seq |-> 0, kind |-> "txid"]
VARIABLES ann, nextSeq, lastAct, lastRes
vars == <<ann, nextSeq, lastAct, lastRes>>

Init == /\ ann = [p \in Peers |-> [t \in Txs |-> None]]
        /\ nextSeq = 1
        /\ lastAct = <<"init">> /\ lastRes = "none"

St(a, p, t) == a[p][t].st
Live(a, t) == {p \in Peers : St(a, p, t) \in {"C", "R"}}          \* non-COMPLETED announcers (GetCandidatePeers)
\* a txhash whose remaining announcements are all COMPLETED is forgotten entirely
Cleanup(a, t) == IF Live(a, t) = {} THEN [p \in Peers |-> [a[p] EXCEPT ![t] = None]] ELSE a
\* MakeCompleted
Complete(a, p, t) == IF St(a, p, t) \in {"C", "R"} THEN Cleanup([a EXCEPT ![p][t].st = "D"], t) ELSE a

\* ---------------------------------------------------------------- the seven public calls
ReceivedInv(p, t, k, pref, reqtime) ==
  /\ IF St(ann, p, t) = "N"
     THEN /\ ann' = [ann EXCEPT ![p][t] = [st |-> "C", pref |-> pref, time |-> reqtime, seq |-> nextSeq, kind |-> k]]
          /\ nextSeq' = nextSeq + 1
     ELSE UNCHANGED <<ann, nextSeq>>          \* any existing announcement (even a COMPLETED one) wins
  /\ lastAct' = <<"inv", p, t, k, pref, reqtime>> /\ lastRes' = "none"

Due(a, now) == {x \in Peers \X Txs : St(a, x[1], x[2]) = "R" /\ a[x[1]][x[2]].time <= now}
\* SetTimePoint: every REQUESTED whose expiry has been reached becomes COMPLETED (the order is irrelevant here)
RECURSIVE ExpireAll(_, _)
ExpireAll(a, now) ==
  IF Due(a, now) = {} THEN a
  ELSE LET e == CHOOSE x \in Due(a, now) : TRUE IN ExpireAll(Complete(a, e[1], e[2]), now)

Ready(a, now, p, t) == St(a, p, t) = "C" /\ a[p][t].time <= now
PrioOf(a, p, t) == Prio[t][p][IF a[p][t].pref THEN 2 ELSE 1]
Better(a, t, p, q) == \/ a[p][t].pref /\ ~a[q][t].pref
                      \/ a[p][t].pref = a[q][t].pref /\ PrioOf(a, p, t) > PrioOf(a, q, t)
\* p is the selected announcement of t: ready, nothing in flight for t, better than every other ready candidate
Selected(a, now, p, t) ==
  /\ Ready(a, now, p, t)
  /\ \A q \in Peers : St(a, q, t) # "R"
  /\ \A q \in Peers \ {p} : Ready(a, now, q, t) => Better(a, t, p, q)

RECURSIVE SortBySeq(_, _, _)
SortBySeq(S, a, p) == IF S = {} THEN <<>>
                      ELSE LET m == CHOOSE x \in S : \A y \in S : a[p][x].seq <= a[p][y].seq
                           IN <<m>> \o SortBySeq(S \ {m}, a, p)
\* what GetRequestable(p, now) answers once expiries have been processed: in announcement order
ReqList(a, p, now) == SortBySeq({t \in Txs : Selected(a, now, p, t)}, a, p)
WithKind(a, p, ts) == [i \in 1..Len(ts) |-> [t |-> ts[i], k |-> a[p][ts[i]].kind]]
ExpiredMatrix(a, now) == [q \in Peers |-> [t \in Txs |-> IF St(a, q, t) = "R" /\ a[q][t].time <= now THEN a[q][t].kind ELSE "-"]]

GetRequestable(p, now) ==
  LET a2 == ExpireAll(ann, now) IN
  /\ ann' = a2 /\ UNCHANGED nextSeq
  /\ lastAct' = <<"getreq", p, now>>
  /\ lastRes' = [req |-> WithKind(a2, p, ReqList(a2, p, now)), expired |-> ExpiredMatrix(ann, now)]

RequestedTx(p, t, expiry) ==
  /\ IF St(ann, p, t) = "C"
     THEN LET a1 == [q \in Peers |-> IF q # p /\ St(ann, q, t) = "R" THEN [ann[q] EXCEPT ![t].st = "D"] ELSE ann[q]]
          IN ann' = [a1 EXCEPT ![p][t].st = "R", ![p][t].time = expiry]
     ELSE ann' = ann                          \* not tracked, already requested or completed: superfluous call
  /\ UNCHANGED nextSeq
  /\ lastAct' = <<"requested", p, t, expiry>> /\ lastRes' = "none"

ReceivedResponse(p, t) ==
  /\ ann' = Complete(ann, p, t) /\ UNCHANGED nextSeq
  /\ lastAct' = <<"response", p, t>> /\ lastRes' = "none"

ForgetTxHash(t) ==
  /\ ann' = [p \in Peers |-> [ann[p] EXCEPT ![t] = None]] /\ UNCHANGED nextSeq
  /\ lastAct' = <<"forget", t>> /\ lastRes' = "none"

RECURSIVE DiscAll(_, _, _)
DiscAll(a, p, ts) == IF ts = {} THEN a
                     ELSE LET t == CHOOSE x \in ts : TRUE
                              a1 == Complete(a, p, t)           \* may delete everything for t
                          IN DiscAll([a1 EXCEPT ![p][t] = None], p, ts \ {t})
DisconnectedPeer(p) ==
  /\ ann' = DiscAll(ann, p, Txs) /\ UNCHANGED nextSeq
  /\ lastAct' = <<"disconnect", p>> /\ lastRes' = "none"

Next == \/ \E p \in Peers, t \in Txs, k \in Kinds, pref \in BOOLEAN, rt \in Times : ReceivedInv(p, t, k, pref, rt)
        \/ \E p \in Peers, now \in Nows : GetRequestable(p, now)
        \/ \E p \in Peers, t \in Txs, ex \in Times : RequestedTx(p, t, ex)
        \/ \E p \in Peers, t \in Txs : ReceivedResponse(p, t)
        \/ \E t \in Txs : ForgetTxHash(t)
        \/ \E p \in Peers : DisconnectedPeer(p)
Spec == Init /\ [][Next]_vars

\* ---------------------------------------------------------------- the counters of the query interface
Count(a, p) == Cardinality({t \in Txs : St(a, p, t) # "N"})
CountInFlight(a, p) == Cardinality({t \in Txs : St(a, p, t) = "R"})
CountCandidates(a, p) == Cardinality({t \in Txs : St(a, p, t) = "C"})
Size(a) == Cardinality({x \in Peers \X Txs : St(a, x[1], x[2]) # "N"})

\* ---------------------------------------------------------------- the property (C34)
TypeOK == \A p \in Peers, t \in Txs :
            /\ ann[p][t].st \in {"N", "C", "R", "D"}
            /\ ann[p][t].st = "N" => ann[p][t] = None
            /\ ann[p][t].st # "N" => ann[p][t].seq \in 1..(nextSeq - 1) /\ ann[p][t].kind \in Kinds
Tracked(a) == {x \in Peers \X Txs : St(a, x[1], x[2]) # "N"}
SeqUnique == Cardinality({ann[x[1]][x[2]].seq : x \in Tracked(ann)}) = Cardinality(Tracked(ann))
\* never two outstanding requests for the same transaction
AtMostOneRequested == \A t \in Txs : Cardinality({p \in Peers : St(ann, p, t) = "R"}) <= 1
\* a transaction is forgotten once only failed (COMPLETED) announcements remain
NoOnlyCompleted == \A t \in Txs : (\E p \in Peers : St(ann, p, t) = "D") => Live(ann, t) # {}
\* whenever something can be requested, exactly one peer is offered it, and a preferred one if a preferred one is ready
ExactlyOneSelectedAt(now) == \A t \in Txs :
   LET a2 == ExpireAll(ann, now)
       sel == {p \in Peers : Selected(a2, now, p, t)} IN
   IF (\E p \in Peers : Ready(a2, now, p, t)) /\ ~\E q \in Peers : St(a2, q, t) = "R"
   THEN /\ Cardinality(sel) = 1
        /\ (\E p \in Peers : Ready(a2, now, p, t) /\ a2[p][t].pref) => \A p \in sel : a2[p][t].pref
   ELSE sel = {}
ExactlyOneSelected == \A now \in Nows : ExactlyOneSelectedAt(now)
CountersOK == /\ \A p \in Peers : Count(ann, p) = CountInFlight(ann, p) + CountCandidates(ann, p)
                                                 + Cardinality({t \in Txs : St(ann, p, t) = "D"})
              /\ Size(ann) <= NPeers * NTxs

\* every GetRequestable answer (checked on every transition, hence an action property)
AnswerOKAt(a0, a1, act, res) ==
  LET p == act[2]
      now == act[3] IN
  /\ \A i \in 1..Len(res.req) :
       LET t == res.req[i].t IN
       /\ St(a1, p, t) = "C" /\ a1[p][t].time <= now                \* never before the announcement's earliest time
       /\ res.req[i].k = a1[p][t].kind
       /\ \A q \in Peers : St(a1, q, t) # "R"                       \* never while a request is outstanding ...
       /\ \A q \in Peers : St(a0, q, t) = "R" => a0[q][t].time <= now  \* ... i.e. only expired ones were dropped
       /\ (~a1[p][t].pref) => ~\E q \in Peers : Ready(a1, now, q, t) /\ a1[q][t].pref   \* preferred peers first
       /\ \A j \in 1..Len(res.req) : i < j => a1[p][t].seq < a1[p][res.req[j].t].seq   \* announcement order, no duplicates
  /\ \A q \in Peers, t \in Txs : (res.expired[q][t] # "-") <=> (St(a0, q, t) = "R" /\ a0[q][t].time <= now)
  /\ \A q \in Peers, t \in Txs : St(a1, q, t) = "R" => a1[q][t].time > now
AnswerOK == [][lastAct'[1] = "getreq" => AnswerOKAt(ann, ann', lastAct', lastRes')]_vars
\* an announcement is requested at most once: C -> R -> D, never back, and a request is never re-timed;
\* only GetRequestable (timeout), ReceivedResponse, a newer request, ForgetTxHash or DisconnectedPeer end a request
OncePerAnnouncement == [][\A p \in Peers, t \in Txs :
     /\ ann[p][t].st \in {"R", "D"} => ann'[p][t].st # "C"
     /\ ann[p][t].st = "D" => ann'[p][t].st \in {"D", "N"}
     /\ (ann[p][t].st = "R" /\ ann'[p][t].st = "R") => ann'[p][t] = ann[p][t]
     /\ (ann[p][t].st = "N" /\ ann'[p][t].st # "N") => (ann'[p][t].st = "C" /\ ann'[p][t].seq >= nextSeq)]_vars

\* ---------------------------------------------------------------- view / projection
\* Only the relative order of one peer's candidates is observable (GetRequestable sorts its answer), and the
\* preferred flag, sequence number (and for COMPLETED the time and kind) of a non-candidate are dead: states are
\* identified up to that.
Rank(a, p, t) == IF St(a, p, t) = "C" THEN 1 + Cardinality({u \in Txs : St(a, p, u) = "C" /\ a[p][u].seq < a[p][t].seq}) ELSE 0
Canon(a) == [p \in Peers |-> [t \in Txs |->
   CASE St(a, p, t) = "N" -> None
     [] St(a, p, t) = "C" -> [a[p][t] EXCEPT !.seq = Rank(a, p, t)]
     [] St(a, p, t) = "R" -> [a[p][t] EXCEPT !.seq = 0, !.pref = FALSE]
     [] OTHER -> [None EXCEPT !.st = "D"]]]
View0 == Canon(ann)
\* compared with the implementation: the counters, GetCandidatePeers (as a set), and what GetRequestable would answer
\* for every peer at every time (probed on a clone of the tracker). TxRequestTracker does not expose its announcements,
\* so the projection is not injective: the replay graph is keyed by the (canonical) full state, see VFEdgeK.
Proj(a) == [cnt |-> [p \in Peers |-> <<Count(a, p), CountInFlight(a, p), CountCandidates(a, p)>>],
            size |-> Size(a),
            cand |-> [t \in Txs |-> [p \in Peers |-> p \in Live(a, t)]],
            probe |-> [i \in 1..(MaxNow + 1) |-> LET a2 == ExpireAll(a, i - 1) IN [p \in Peers |-> ReqList(a2, p, i - 1)]]]
Key(a) == LET c == Canon(a) IN [p \in Peers |-> [t \in Txs |-> <<c[p][t].st, c[p][t].pref, c[p][t].time, c[p][t].seq, c[p][t].kind>>]]
\* one line per transition; the projection of the source state is not printed again (the driver takes it from the
\* line that reached that state), which halves the output
Emit == VFEdgeK(Key(ann), 0, lastAct', lastRes', Key(ann'), Proj(ann'))
====
