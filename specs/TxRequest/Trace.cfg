CONSTANTS
  NPeers = 8
  NTxs = 16
  MaxTime = 0
  MaxNow = 0
  Kinds = {"txid", "wtxid"}
  Prio <- PrioFromImpl
INIT TInit
NEXT TNext
INVARIANTS TypeOK SeqUnique AtMostOneRequested NoOnlyCompleted CountersOK SelectedAtLastNow
PROPERTIES AnswerOK OncePerAnnouncement
POSTCONDITION Accepted
CHECK_DEADLOCK FALSE
