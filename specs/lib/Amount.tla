---- MODULE Amount ----
(***************************************************************************)
(* Exact 64-bit-range amounts for TLC (whose integers are 32-bit): a sign  *)
(* and three base-10^8 limbs, value = (neg ? -1 : 1) * (d[1] + d[2]*10^8   *)
(* + d[3]*10^16).  Covers |v| < 10^24 > 2^63.                              *)
(***************************************************************************)
EXTENDS Integers, Sequences
AB == 100000000
Amt(neg, hi, mid, lo) == [neg |-> neg, d |-> <<lo, mid, hi>>]
AZero == Amt(FALSE, 0, 0, 0)
AIsZero(a) == a.d = <<0, 0, 0>>
AFromSmall(n) == Amt(n < 0, 0, (IF n < 0 THEN -n ELSE n) \div AB, (IF n < 0 THEN -n ELSE n) % AB)   \* |n| < 2^31
MaxMoney == Amt(FALSE, 0, 21000000, 0)                 \* 21,000,000 * 10^8 satoshi
I64Max == Amt(FALSE, 922, 33720368, 54775807)
I64Min == Amt(TRUE, 922, 33720368, 54775808)

\* magnitude comparison: -1, 0, 1
MagCmp(a, b) == IF a.d[3] # b.d[3] THEN (IF a.d[3] > b.d[3] THEN 1 ELSE -1)
                ELSE IF a.d[2] # b.d[2] THEN (IF a.d[2] > b.d[2] THEN 1 ELSE -1)
                ELSE IF a.d[1] # b.d[1] THEN (IF a.d[1] > b.d[1] THEN 1 ELSE -1) ELSE 0
MagAdd(a, b) == LET l == a.d[1] + b.d[1]
                    m == a.d[2] + b.d[2] + (l \div AB)
                    h == a.d[3] + b.d[3] + (m \div AB)
                IN <<l % AB, m % AB, h>>
\* a - b for |a| >= |b|
MagSub(a, b) == LET l == a.d[1] - b.d[1]
                    bl == IF l < 0 THEN 1 ELSE 0
                    m == a.d[2] - b.d[2] - bl
                    bm == IF m < 0 THEN 1 ELSE 0
                    h == a.d[3] - b.d[3] - bm
                IN <<l + bl * AB, m + bm * AB, h>>
Norm(neg, d) == [neg |-> (neg /\ d # <<0, 0, 0>>), d |-> d]
ANeg(a) == Norm(~a.neg, a.d)
AAdd(a, b) == IF a.neg = b.neg THEN Norm(a.neg, MagAdd(a, b))
              ELSE IF MagCmp(a, b) >= 0 THEN Norm(a.neg, MagSub(a, b)) ELSE Norm(b.neg, MagSub(b, a))
ASub(a, b) == AAdd(a, ANeg(b))
\* signed comparison: -1, 0, 1
ACmp(a, b) == LET x == Norm(a.neg, a.d) y == Norm(b.neg, b.d) IN
              IF x.neg # y.neg THEN (IF x.neg THEN -1 ELSE 1)
              ELSE IF x.neg THEN -MagCmp(x, y) ELSE MagCmp(x, y)
ALt(a, b) == ACmp(a, b) < 0
ALe(a, b) == ACmp(a, b) <= 0
AGt(a, b) == ACmp(a, b) > 0
AGe(a, b) == ACmp(a, b) >= 0
MoneyRange(a) == AGe(a, AZero) /\ ALe(a, MaxMoney)
\* multiply a non-negative amount by a small non-negative integer k (k < 20)
AMulSmall(a, k) == LET l == a.d[1] * k
                       m == a.d[2] * k + (l \div AB)
                       h == a.d[3] * k + (m \div AB)
                   IN Norm(a.neg, <<l % AB, m % AB, h>>)
\* halve (floor towards zero on the magnitude) — used by the subsidy schedule
AHalve(a) == LET h == a.d[3] \div 2
                 m == (a.d[2] + (a.d[3] % 2) * AB) \div 2
                 l == (a.d[1] + ((a.d[2] + (a.d[3] % 2) * AB) % 2) * AB) \div 2
             IN Norm(a.neg, <<l, m, h>>)
====
