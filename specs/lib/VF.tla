---- MODULE VF ----
(* Emission helpers shared by all specifications. tools/vflib.py collects every line that starts with "VF|". *)
EXTENDS TLC, Json, Naturals, Sequences
\* one line per transition: use as ACTION_CONSTRAINT. f/t are the projected states, a the action (a tuple whose
\* first element is the action name), r the result the specification predicts for the call.
VFEdge(f, a, r, t) == PrintT("VF|" \o ToJson([l |-> TLCGet("level"), f |-> f, a |-> a, r |-> r, t |-> t]))
\* same, for specifications whose projection is NOT injective (hidden bookkeeping such as sequence numbers): fk / tk are
\* the full states (normally the VIEW expression); the graph is then keyed by them, while f / t stay what is compared.
VFEdgeK(fk, f, a, r, tk, t) == PrintT("VF|" \o ToJson([l |-> TLCGet("level"), fk |-> fk, f |-> f, a |-> a, r |-> r, tk |-> tk, t |-> t]))
\* one line per distinct state: use as INVARIANT (oracle tables, engine E4).
VFRow(rec) == PrintT("VF|" \o ToJson(rec))
====
