---- MODULE VersionBitsSeeded ----
(***************************************************************************)
(* VersionBits on given block trees: every line of the file named by the   *)
(* environment variable SEEDS is {dep, par, ver, tm}; each admissible one  *)
(* is an initial state (heights, median times and the BIP9 states are      *)
(* computed here from the definitions), and TLC explores every order of    *)
(* queries against the persistent cache on it.  Used for trees that are    *)
(* too large to enumerate (sampled by the check driver from VERIF_SEED),    *)
(* and to evaluate the invariants on cache contents observed in the code.  *)
(***************************************************************************)
EXTENDS VersionBits, Json, IOUtils
Seeds == ndJsonDeserialize(IOEnv.SEEDS)

RECURSIVE HeightIn(_, _)
HeightIn(pa, b) == IF b = 0 THEN -1 ELSE HeightIn(pa, pa[b]) + 1

Admissible(t) ==
  /\ Len(t.par) <= MaxBlocks /\ Len(t.ver) = Len(t.par) /\ Len(t.tm) = Len(t.par)
  /\ \A b \in 1..Len(t.par) : t.par[b] \in 0..(b - 1) /\ t.ver[b] \in Versions /\ t.tm[b] \in Times
  /\ t.dep.threshold \in Thresholds /\ t.dep.start \in StartValues /\ t.dep.timeout \in Timeouts /\ t.dep.minh \in MinHeights
  /\ MonotoneMTP => \A b \in 1..Len(t.par) : t.par[b] # 0 => MTPOf(t.par, t.tm, b) >= MTPOf(t.par, t.tm, t.par[b])
  /\ "cache" \in DOMAIN t => (Len(t.cache) = Len(t.par) + 1 /\ \A k \in 1..Len(t.cache) : t.cache[k] \in StateNames \cup {NoEntry})

InitSeeded ==
  \E i \in 1..Len(Seeds) :
    LET t == Seeds[i] IN
    /\ Admissible(t)
    /\ dep = [threshold |-> t.dep.threshold, start |-> t.dep.start, timeout |-> t.dep.timeout, minh |-> t.dep.minh]
    /\ par = t.par /\ ver = t.ver /\ tm = t.tm
    /\ ht = [b \in 1..Len(t.par) |-> HeightIn(t.par, b)]
    /\ mtp = [b \in 1..Len(t.par) |-> MTPOf(t.par, t.tm, b)]
    /\ st = [k \in 1..(Len(t.par) + 1) |-> Bip9(k - 1)]
    /\ snc = [k \in 1..(Len(t.par) + 1) |-> SinceBip9(k - 1)]
    \* a line may carry the content of a cache observed in the implementation (deviation handling, DESIGN 8)
    /\ cache = [b \in 0..MaxBlocks |-> IF "cache" \in DOMAIN t /\ b <= Len(t.par) THEN t.cache[b + 1] ELSE NoEntry]
    /\ lastAct = <<"seed", i>> /\ lastRes = "none"
\* the memo is the definition for every block (in VersionBits this is inductive over Mine)
Stutter == UNCHANGED vars
ShiftAll == \A b \in Prevs, d \in {7, 100000} : Bip9Shifted(b, d) = st[b + 1]
MemoAll == \A b \in Prevs : st[b + 1] = Bip9(b) /\ snc[b + 1] = SinceBip9(b)
====
