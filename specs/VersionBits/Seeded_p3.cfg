CONSTANTS
  P = 3
  MaxBlocks = 14
  Times = {0, 1, 2, 3, 4, 5}
  Versions = {"sig", "sigx", "none", "other", "badtop", "old"}
  Thresholds = {1, 2, 3}
  Starts = {0, 1, 2, 3}
  Specials = {"always", "never"}
  Timeouts = {1, 2, 3, 4, 5, 6}
  MinHeights = {0, 9, 10, 12}
  ForkFrom = 99
  Mining = FALSE
  Queries = TRUE
  MonotoneMTP = TRUE
  StatsMode = "cold"
INIT InitSeeded
NEXT Next
VIEW View0
INVARIANTS TypeOK MemoAll ShiftAll WarmIsBip9 ColdAll CacheSound SamePeriod Absorbing Diagram DefinedUntilStart StartedStep LockedInStep AlwaysNever StatsAgree
ACTION_CONSTRAINT Emit
CHECK_DEADLOCK FALSE
