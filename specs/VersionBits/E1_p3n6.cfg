CONSTANTS
  P = 3
  MaxBlocks = 6
  Times = {0, 1}
  Versions = {"sig", "none"}
  Thresholds = {2, 3}
  Starts = {0}
  Specials = {}
  Timeouts = {1, 2}
  MinHeights = {0}
  ForkFrom = 99
  Mining = TRUE
  Queries = TRUE
  MonotoneMTP = TRUE
  StatsMode = "newest"
INIT Init
NEXT Next
VIEW View0
INVARIANTS TypeOK MemoOK ShiftInvariant WarmIsBip9 ColdIsBip9 CacheSound SamePeriod Absorbing Diagram DefinedUntilStart StartedStep LockedInStep AlwaysNever StatsAgree
ACTION_CONSTRAINT Emit
CHECK_DEADLOCK FALSE
