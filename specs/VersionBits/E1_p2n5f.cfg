CONSTANTS
  P = 2
  MaxBlocks = 5
  Times = {0, 1}
  Versions = {"sig", "none"}
  Thresholds = {2}
  Starts = {0, 1}
  Specials = {}
  Timeouts = {2}
  MinHeights = {0}
  ForkFrom = 3
  Mining = TRUE
  Queries = TRUE
  MonotoneMTP = TRUE
  StatsMode = "newest"
INIT Init
NEXT Next
VIEW View0
INVARIANTS TypeOK MemoOK ShiftInvariant WarmIsBip9 ColdIsBip9 CacheSound SamePeriod Absorbing Diagram DefinedUntilStart StartedStep LockedInStep AlwaysNever StatsAgree
ACTION_CONSTRAINT Emit
CHECK_DEADLOCK FALSE
