CONSTANTS
  P = 2
  MaxBlocks = 6
  Times = {0, 1}
  Versions = {"sig", "none"}
  Thresholds = {1, 2}
  Starts = {0}
  Specials = {"always", "never"}
  Timeouts = {1, 2}
  MinHeights = {6}
  ForkFrom = 99
  Mining = TRUE
  Queries = TRUE
  MonotoneMTP = TRUE
  StatsMode = "newest"
INIT Init
NEXT Next
VIEW View0
INVARIANTS TypeOK MemoOK ShiftInvariant WarmIsBip9 ColdIsBip9 CacheSound SamePeriod Absorbing Diagram DefinedUntilStart StartedStep LockedInStep AlwaysNever StatsAgree
ACTION_CONSTRAINT Emit
CHECK_DEADLOCK FALSE
